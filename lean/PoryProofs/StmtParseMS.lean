import PoryProofs.StmtGrammarMS
/-
P1c (statement grammar with poryswitch inside `moves( … )` arguments), stages 2 – 4: the parser model on printed
script bodies of the grammar of `PoryProofs/StmtGrammarMS.lean`.

THIS FILE IS `PoryProofs/StmtParse2.lean` (P1b) RE-RUN in namespace `Pory.P1c` over the command form `P1c.CmdM`:
the 13-function induction of P1b uses the command form only through its interface (`cmdF_run`, `args_not_label`,
`CmdF.name_ident`, `CmdF.print_head`, `CmdF.need_le`, `CmdF.elabC` / `node` / `nargs`), which
`PoryProofs/CmdGenMS.lean` provides for `CmdM` (`cmdM_run`, `args_not_labelM`, …).  The text is the text of
StmtParse2 with `CmdF` ↦ `CmdM`, `cmdF_run` ↦ `cmdM_run`, `args_not_label` ↦ `args_not_labelM`,
`printCmdI` ↦ `printCmdM` (in `stmt_cmdF`).  The parser-side lemmas of `PoryProofs/StmtParse.lean` are reused as
they are.

* `cleaf_shape`, `cleaf_run` : the leaf parser on a printed condition leaf (`CLeaf`);
* `cond_S` : `parseBooleanExpression` on a printed condition = `elabCond` (`BoolGen.orF`);
* `Spec n`, `spec : ∀ n, Spec n` : all 13 functions of the statement block at fuel `n`;
* `parse_block_elab`, `parse_block_print`, `parse_block_reject`, `fuel_of_tokens`.
-/
namespace Pory.P1c
open Pory Pory.Parser Pory.C02P Pory.C10b Pory.SwitchParse Pory.TopParse Pory.BoolGen Pory.CmdGen Pory.LeafGen
open Pory.TextValueParse (printCmdI printArgI printMoreI IElem)
open Pory.C14b (swVal)
open Pory.C10c (add_assoc nil_add add_nil)
open Pory.C11b (operandName badPosMsg autoFinish epv_auto Form autoLeafT leftSideMsg leaf_auto leaf_auto_not
  leafFinish leafFinishNot autoFinish_ok autoFinish_bad PosOK leaf_of_cmd_bad leaf_reject leaf_reject_not
  NotLeafStart autoE)
open Pory.StmtG (breakOutsideErr continueOutsideErr continueNotLastErr duplicateCaseErr secondDefaultErr
  emptySwitchErr notAutoVarErr badPosErr autoPosBad notLeafErr noSwitchesErr undefinedSwitchErr noPoryCaseErr
  caseValue caseTok operandOf caseValTok operandTok Ctx ctxOf
  S S_toks S_eof S_constants S_breakStack S_continueStack S_nextSid S_nextCmdId st_S bt bf bnt bnf
  autoPosBad_none autoPosBad_some label_colon label_scoped label_none stmt_label stmt_labelS stmt_cmd_gen
  stmt_brk stmt_cont block_cons block_nil swblock_cons swblock_nil startT closeT folT Fol isRB startT_ne
  closeT_ne fol_ne outS outB outE outK outP run_newSid_S run_pushBreak_S run_popBreak_S run_pushContinue_S
  run_popContinue_S run_expectPeekErr_ok stmt_if stmt_while stmt_do stmt_switch stmt_pory stmtOrPory
  pstmts_cons pstmts_nil pcases_colon pcases_brace hdrErr header_S pcases_nil vals_case tok_case
  isDefault_case vals_dflt tok_dflt isDefault_dflt autoFinish_eq S_self)

/-! ### condition leaves -/

/-- `C11b.leaf_of_cmd` with the exact fuel need of the operator part. -/
theorem leaf_of_cmd' (env : Env) (sn : String) (fuel : Nat) (s s' : PState) (pre name last : Tok)
    (tl rest : List Tok) (av : AutoVar) (fm : Form) (cmd : Cmd) (imp : ImpData)
    (hname : name.type = .IDENT) (hav : env.autoVars.lookup name.lit = some av)
    (hcmd : (parseCommandStatement env sn fuel).run (st s (name :: tl)) =
      .ok ((cmd, imp), st s' (last :: (fm.post ++ rest))))
    (hpos : PosOK av cmd.args.length) (hrest : fm.RestOK rest) (hfuel : formNeed fm ≤ fuel) :
    (parseLeafBooleanExpression env sn fuel).run (st s (pre :: (fm.pre ++ name :: tl))) =
      .ok ((autoLeafT (substC s'.constants) fm (operandName av cmd.args) cmd, imp), st s' rest) := by
  have hnv : name.type ≠ .VAR := by simp [hname]
  cases fm with
  | bare =>
    simp only [Form.pre, Form.post, List.nil_append] at hcmd ⊢
    rw [leaf_auto env sn _ s pre name tl av hname hav, epv_auto env sn _ s pre name tl av hnv hav, hcmd]
    simp only [autoFinish_ok av name cmd imp _ hpos, leafFinish, st_toks, List.tail_cons, st_st,
      varOp_bare _ _ _ _ hrest]
    rfl
  | cmp p1 p2 l1 op v =>
    obtain ⟨f, rfl⟩ : ∃ f, fuel = f + 2 := ⟨fuel - 2, by simp [formNeed] at hfuel; omega⟩
    simp only [Form.pre, Form.post, List.nil_append] at hcmd ⊢
    rw [leaf_auto env sn _ s pre name tl av hname hav, epv_auto env sn _ s pre name tl av hnv hav, hcmd]
    simp only [autoFinish_ok av name cmd imp _ hpos, leafFinish, st_toks, List.tail_cons, st_st,
      List.cons_append, List.nil_append, varOp_cmp _ _ _ _ _ _ _ _ _ hrest]
    rfl
  | neg p l =>
    simp only [Form.pre, Form.post, List.nil_append, List.cons_append] at hcmd ⊢
    rw [leaf_auto_not env sn _ s pre _ name tl av rfl hname hav,
      epv_auto env sn _ s _ name tl av hnv hav, hcmd]
    simp only [autoFinish_ok av name cmd imp _ hpos, leafFinishNot, st_toks, List.tail_cons, st_st]
    rfl

/-- The command of an auto-var leaf fails: so does the leaf. -/
theorem leaf_of_cmd_err (env : Env) (sn : String) (fuel : Nat) (s : PState) (pre name : Tok)
    (tl : List Tok) (av : AutoVar) (fm : Form) (e : PFail)
    (hname : name.type = .IDENT) (hav : env.autoVars.lookup name.lit = some av)
    (hcmd : (parseCommandStatement env sn fuel).run (st s (name :: tl)) = .error e) :
    (parseLeafBooleanExpression env sn fuel).run (st s (pre :: (fm.pre ++ name :: tl))) = .error e := by
  have hnv : name.type ≠ .VAR := by simp [hname]
  have key : ∀ pre', (expectPeekVarOrAutoVar env sn fuel).run (st s (pre' :: name :: tl)) = .error e := by
    intro pre'
    rw [epv_auto env sn _ s pre' name tl av hnv hav, hcmd]
  cases fm with
  | bare =>
    simp only [Form.pre, List.nil_append]
    rw [leaf_auto env sn _ s pre name tl av hname hav, key]
  | cmp p1 p2 l1 op v =>
    simp only [Form.pre, List.nil_append]
    rw [leaf_auto env sn _ s pre name tl av hname hav, key]
  | neg p l =>
    simp only [Form.pre, List.cons_append, List.nil_append]
    rw [leaf_auto_not env sn _ s pre _ name tl av rfl hname hav, key]

theorem cleaf_shape : LeafShape CLeaf.print CLeaf.wf := by
  intro lf rest hwf hfo
  cases lf with
  | plain l =>
    obtain ⟨a, b, tl, hp, ha, hb⟩ := printLeaf_shape l
    exact ⟨a, b, tl ++ rest, by simp [CLeaf.print, hp], ha, hb⟩
  | auto fm c =>
    have hname := CmdM.name_ident hwf
    obtain ⟨tl, hpr⟩ := c.print_head
    obtain ⟨x, xtl, rfl, hx⟩ := hfo
    -- the token after the name
    have h2 : ∃ b btl, tl ++ (fm.post ++ x :: xtl) = b :: btl := by
      cases tl with
      | cons b btl => exact ⟨b, _, rfl⟩
      | nil => cases fm <;> exact ⟨_, _, rfl⟩
    obtain ⟨b, btl, hb⟩ := h2
    cases fm with
    | bare =>
      exact ⟨c.name, b, btl, by simp [CLeaf.print, Form.pre, hpr, ← hb], by simp [hname], by simp [hname]⟩
    | cmp p1 p2 l1 op v =>
      exact ⟨c.name, b, btl, by simp [CLeaf.print, Form.pre, hpr, ← hb], by simp [hname], by simp [hname]⟩
    | neg p l =>
      exact ⟨tkp p .NOT l, c.name, tl ++ (Form.post (.neg p l) ++ x :: xtl),
        by simp [CLeaf.print, Form.pre, hpr], by simp, by simp [hname]⟩
  | kw l =>
    obtain ⟨nt, kw, lp, o, ops, rp, post⟩ := l
    have hl : (KLeaf.mk nt kw lp o ops rp post).ok = true := hwf
    simp only [KLeaf.ok, Bool.and_eq_true, beq_iff_eq, Bool.or_eq_true] at hl
    obtain ⟨⟨⟨⟨⟨hnt, hkw⟩, hlp⟩, -⟩, -⟩, -⟩ := hl
    have hk1 : kw.type ≠ .LPAREN := by rcases hkw with (h | h) | h <;> rw [h] <;> decide
    have hk2 : kw.type ≠ .NOT := by rcases hkw with (h | h) | h <;> rw [h] <;> decide
    cases nt with
    | some t =>
      have ht : t.type = .NOT := by simpa using hnt
      exact ⟨t, kw, lp :: o :: (ops ++ rp :: (KLeaf.postToks post ++ rest)),
        by simp [CLeaf.print, KLeaf.print], by simp [ht], fun _ => hk1⟩
    | none =>
      exact ⟨kw, lp, o :: (ops ++ rp :: (KLeaf.postToks post ++ rest)),
        by simp [CLeaf.print, KLeaf.print], hk1, fun h => absurd h hk2⟩
  | autoV c opTok v =>
    have hok : c.ok = true := by
      have : (c.ok && isCmpTT opTok.type && v.ok) = true := hwf
      simp only [Bool.and_eq_true] at this
      exact this.1.1
    have hname := CmdM.name_ident hok
    obtain ⟨tl, hpr⟩ := c.print_head
    have h2 : ∃ b btl, tl ++ (opTok :: v.print ++ rest) = b :: btl := by
      cases tl with
      | cons b btl => exact ⟨b, _, rfl⟩
      | nil => exact ⟨_, _, rfl⟩
    obtain ⟨b, btl, hb⟩ := h2
    exact ⟨c.name, b, btl, by simp [CLeaf.print, hpr, ← hb], by simp [hname], by simp [hname]⟩

theorem node_args_length (σ : String → String) (cid : Nat) (c : CmdM) :
    (c.node σ cid).args.length = c.nargs := by
  simp [CmdM.node, CmdM.rendered, CmdM.nargs]

theorem elabC_ok {env : Env} {sn : String} {σ : String → String} {cid : Nat} {c : CmdM} {cmd : Cmd}
    {m : ImpData} (h : c.elabC env sn σ cid = .ok (cmd, m)) : cmd = c.node σ cid := by
  unfold CmdM.elabC at h
  split at h
  · cases h
  · cases h; rfl

theorem cleaf_run (env : Env) (sn : String) :
    LeafRun env sn CLeaf.print CLeaf.wf CLeaf.need (CLeaf.res env sn) := by
  intro f s pre lf rest hwf hfo hf
  cases lf with
  | plain l =>
    obtain ⟨f, rfl⟩ : ∃ f', f = f' + 2 := ⟨f - 2, by simp [CLeaf.need] at hf; omega⟩
    have := parseLeaf_print env sn f s pre l rest hfo
    simp only [CLeaf.print, CLeaf.res]
    rw [show pre :: (printLeaf l ++ rest) = pre :: printLeaf l ++ rest from rfl, this]
    rfl
  | auto fm c =>
    have hok : c.ok = true := hwf
    have hname := CmdM.name_ident hok
    obtain ⟨tl, hpr⟩ := c.print_head
    simp only [CLeaf.need] at hf
    have hw : pre :: (CLeaf.print (.auto fm c) ++ rest) =
        pre :: (fm.pre ++ c.name :: (tl ++ (fm.post ++ rest))) := by
      simp [CLeaf.print, hpr]
    rw [hw]
    simp only [CLeaf.res]
    cases hav : env.autoVars.lookup c.name.lit with
    | none =>
      have hx : NotLeafStart env c.name := ⟨by simp [hname], by simp [hname], by simp [hname], fun _ => hav⟩
      cases fm with
      | bare => exact leaf_reject env sn f s pre c.name _ (by simp [hname]) hx
      | cmp p1 p2 l1 op v => exact leaf_reject env sn f s pre c.name _ (by simp [hname]) hx
      | neg p l => exact leaf_reject_not env sn f s pre (tkp p .NOT l) c.name _ rfl hx
    | some av =>
      have hrest : ∀ n, c = .bare n → ((fm.post ++ rest).headD s.eof).type ≠ .LPAREN := by
        intro n _
        obtain ⟨x, xtl, rfl, hx⟩ := hfo
        cases fm with
        | bare => simp only [Form.post, List.nil_append, List.headD_cons]; rcases hx with h | h | h <;> simp [h]
        | neg p l => simp only [Form.post, List.nil_append, List.headD_cons]; rcases hx with h | h | h <;> simp [h]
        | cmp p1 p2 l1 op v => cases op <;> simp [Form.post, CmpOp.tt]
      have hc := cmdM_run env sn s c (fm.post ++ rest) hok hrest f (by omega)
      rw [hpr] at hc
      simp only [List.cons_append] at hc
      cases hel : c.elabC env sn (substC s.constants) s.nextCmdId with
      | error e =>
        rw [hel] at hc
        exact leaf_of_cmd_err env sn f s pre c.name _ av fm e hname hav hc
      | ok r =>
        obtain ⟨cmd, m⟩ := r
        rw [hel] at hc
        have hcmd := elabC_ok hel
        have hlen : cmd.args.length = c.nargs := by rw [hcmd]; exact node_args_length _ _ c
        simp only
        cases hbad : autoPosBad av c.nargs with
        | some pos =>
          obtain ⟨hp, hb2⟩ := autoPosBad_some hbad
          have := leaf_of_cmd_bad env sn f s (bump s) pre c.name c.last _ _ av fm cmd m pos hname hav hc hp
            (by rw [hlen]; exact hb2)
          rw [this, hlen]
          rfl
        | none =>
          have := leaf_of_cmd' env sn f s (bump s) pre c.name c.last _ rest av fm cmd m hname hav hc
            (by rw [hlen]; exact autoPosBad_none hbad)
            (by cases fm <;> first | exact hfo | trivial) (by omega)
          rw [this]
          rfl
  | kw l =>
    have := kleaf_run env sn f s pre l rest hwf hfo hf
    simp only [CLeaf.print, CLeaf.res]
    rw [this]
    rfl
  | autoV c opTok v =>
    have hw3 : (c.ok && isCmpTT opTok.type && v.ok) = true := hwf
    simp only [Bool.and_eq_true] at hw3
    obtain ⟨⟨hok, hop⟩, hv⟩ := hw3
    have hname := CmdM.name_ident hok
    obtain ⟨tl, hpr⟩ := c.print_head
    simp only [CLeaf.need] at hf
    have hw : pre :: (CLeaf.print (.autoV c opTok v) ++ rest) =
        pre :: c.name :: (tl ++ (opTok :: (v.print ++ rest))) := by
      simp [CLeaf.print, hpr]
    rw [hw]
    simp only [CLeaf.res]
    cases hav : env.autoVars.lookup c.name.lit with
    | none =>
      have hx : NotLeafStart env c.name := ⟨by simp [hname], by simp [hname], by simp [hname], fun _ => hav⟩
      exact leaf_reject env sn f s pre c.name _ (by simp [hname]) hx
    | some av =>
      have hrest : ∀ n, c = .bare n → ((opTok :: (v.print ++ rest)).headD s.eof).type ≠ .LPAREN := by
        intro n _
        simp only [List.headD_cons]
        intro h
        rw [h] at hop
        exact absurd hop (by decide)
      have hc := cmdM_run env sn s c (opTok :: (v.print ++ rest)) hok hrest f (by omega)
      rw [hpr] at hc
      simp only [List.cons_append] at hc
      cases hel : c.elabC env sn (substC s.constants) s.nextCmdId with
      | error e =>
        rw [hel] at hc
        exact leaf_of_cmd_err env sn f s pre c.name _ av .bare e hname hav hc
      | ok r =>
        obtain ⟨cmd, m⟩ := r
        rw [hel] at hc
        have hcmd := elabC_ok hel
        have hlen : cmd.args.length = c.nargs := by rw [hcmd]; exact node_args_length _ _ c
        simp only
        cases hbad : autoPosBad av c.nargs with
        | some pos =>
          obtain ⟨hp, hb2⟩ := autoPosBad_some hbad
          have := leaf_of_cmd_bad env sn f s (bump s) pre c.name c.last _ _ av .bare cmd m pos hname hav hc hp
            (by rw [hlen]; exact hb2)
          simp only [Form.pre, List.nil_append] at this
          rw [this, hlen]
          rfl
        | none =>
          have := leaf_of_cmd_val env sn f s (bump s) pre c.name c.last _ rest av opTok v cmd m hname hav hc
            (by rw [hlen]; exact autoPosBad_none hbad) hop hv hfo (by omega)
          rw [this]
          rfl

/-- **Conditions.** `parseBooleanExpression` on a printed condition: the tree, its implicit data and the command
id after it, or the located error of the first failing leaf. -/
theorem cond_S (env : Env) (sn : String) (s : PState) (B C : List Nat) (i j : Nat) (c : SCond)
    (pre rp : Tok) (rest : List Tok) (hc : swfCond c = true) (hrp : rp.type = .RPAREN) (fuel : Nat)
    (hf : needCond c ≤ fuel) :
    (parseBooleanExpression env sn false false fuel).run (S s (pre :: (printCond c ++ rp :: rest)) B C i j) =
      match elabCond env sn (substC s.constants) c j with
      | .error e => .error e
      | .ok (t, m, j0) => .ok ((t, m), S s (rp :: rest) B C i j0) := by
  have h := orF env sn CLeaf.print CLeaf.wf CLeaf.need (CLeaf.res env sn) cleaf_shape (cleaf_run env sn)
    (S s [] B C i j) c false pre rp rest fuel hc hf hrp
  have hS : st (S s [] B C i j) (pre :: (printOr CLeaf.print c ++ rp :: rest)) =
      S s (pre :: (printCond c ++ rp :: rest)) B C i j := rfl
  rw [hS] at h
  rw [h]
  unfold elabCond
  simp only [S_constants, S_nextCmdId]
  cases elabOr (CLeaf.res env sn) (substC s.constants) false c j with
  | error e => rfl
  | ok v => obtain ⟨t, m, j0⟩ := v; rfl

/-- Symbolic execution on `S`-states. -/
syntax "qsimp" (" [" Lean.Parser.Tactic.simpLemma,* "]")? : tactic
macro_rules
  | `(tactic| qsimp) => `(tactic| rsimp [S_toks, S_eof, S_constants, S_breakStack, S_continueStack, S_nextSid,
      S_nextCmdId, st_S, run_peekAt, List.getD_cons_zero, List.getD_cons_succ, beq_self_eq_true, imp_add_empty])
  | `(tactic| qsimp [$ts,*]) => `(tactic| rsimp [S_toks, S_eof, S_constants, S_breakStack, S_continueStack,
      S_nextSid, S_nextCmdId, st_S, run_peekAt, List.getD_cons_zero, List.getD_cons_succ, beq_self_eq_true,
      imp_add_empty, $ts,*])

/-! ### command statements -/
section
variable (env : Env) (sn : String) (s : PState) (B C : List Nat) (i j : Nat) (n : Nat)

/-- A command statement in any written form; `t` = the token after it (not `:` and not `(`). -/
theorem stmt_cmdF (c : CmdM) (t : Tok) (tl : List Tok) (hc : c.ok = true) (h1 : t.type ≠ .COLON)
    (h2 : t.type ≠ .LPAREN) (hf : c.need ≤ n) :
    (parseStatement env sn (n + 1)).run (S s (c.print ++ t :: tl) B C i j) =
      match c.elabC env sn (substC s.constants) j with
      | .error e => .error e
      | .ok (cmd, m) => .ok (([.cmd cmd], m), S s (c.last :: t :: tl) B C i (j + 1)) := by
  have hname := CmdM.name_ident hc
  have hlabel : tryParseLabelStatement.run (S s (c.print ++ t :: tl) B C i j) =
      .ok (none, S s (c.print ++ t :: tl) B C i j) := by
    cases c with
    | args name lp a0 more rp =>
      simp only [CmdM.ok, Bool.and_eq_true, beq_iff_eq, List.all_eq_true] at hc
      obtain ⟨⟨⟨⟨g1, g2⟩, g3⟩, g4⟩, g5⟩ := hc
      refine label_none _ (by simp [CmdM.print, printCmdM, S_toks, g2]) ?_
      have := args_not_labelM a0 more rp t tl s.eof g4 g5 h1
      simpa [CmdM.print, printCmdM, S_toks, S_eof, g2] using this
    | empty name lp rp =>
      simp only [CmdM.ok, Bool.and_eq_true, beq_iff_eq] at hc
      exact label_none _ (by simp [CmdM.print, S_toks, hc.1.2]) (by simp [CmdM.print, S_toks, hc.2])
    | bare name =>
      exact label_none _ (by simp [CmdM.print, S_toks, h1]) (by simp [CmdM.print, S_toks, h2])
  obtain ⟨ptl, hpr⟩ := c.print_head
  rw [stmt_cmd_gen env sn n _ (by simp [S_toks, hpr, hname]) hlabel]
  have hrun := cmdM_run env sn (S s [] B C i j) c (t :: tl) hc (fun _ _ => by simpa using h2) n hf
  have hS : st (S s [] B C i j) (c.print ++ t :: tl) = S s (c.print ++ t :: tl) B C i j := rfl
  rw [hS] at hrun
  rw [hrun]
  simp only [S_constants, S_nextCmdId]
  cases c.elabC env sn (substC s.constants) j with
  | error e => rfl
  | ok r => obtain ⟨cmd, m⟩ := r; rfl

/-- `expectPeekVarOrAutoVar` on `pre cmd …`. -/
theorem epv_S (pre : Tok) (c : CmdM) (rest : List Tok) (hc : c.ok = true)
    (hrest : ∀ nm, c = .bare nm → (rest.headD s.eof).type ≠ .LPAREN) (fuel : Nat) (hf : c.need ≤ fuel) :
    (expectPeekVarOrAutoVar env sn fuel).run (S s (pre :: (c.print ++ rest)) B C i j) =
      match env.autoVars.lookup c.name.lit with
      | none => .error (notAutoVarErr c.name)
      | some av =>
        match c.elabC env sn (substC s.constants) j with
        | .error e => .error e
        | .ok (cmd, m) =>
          match autoPosBad av c.nargs with
          | some pos => .error (badPosErr c.name c.last pos c.nargs)
          | none => .ok (some (operandName av cmd.args, cmd, m), S s (c.last :: rest) B C i (j + 1)) := by
  have hname := CmdM.name_ident hc
  have hnv : c.name.type ≠ .VAR := by rw [hname]; decide
  obtain ⟨ptl, hpr⟩ := c.print_head
  cases hav : env.autoVars.lookup c.name.lit with
  | none =>
    unfold expectPeekVarOrAutoVar
    simp only [hpr, List.cons_append]
    qsimp [bf hnv, hav]
    rfl
  | some av =>
    have hw : S s (pre :: (c.print ++ rest)) B C i j =
        st (S s [] B C i j) (pre :: c.name :: (ptl ++ rest)) := by
      simp [hpr, st_S]
    have hrun := cmdM_run env sn (S s [] B C i j) c rest hc hrest fuel hf
    rw [hpr] at hrun
    simp only [List.cons_append] at hrun
    rw [hw, epv_auto env sn fuel (S s [] B C i j) pre c.name _ av hnv hav, hrun]
    simp only [S_constants, S_nextCmdId]
    cases hel : c.elabC env sn (substC s.constants) j with
    | error e => rfl
    | ok r =>
      obtain ⟨cmd, m⟩ := r
      have hlen : cmd.args.length = c.nargs := by rw [elabC_ok hel]; exact node_args_length _ _ c
      simp only [autoFinish_eq, hlen, st_toks, st_eof, List.headD_cons]
      cases autoPosBad av c.nargs with
      | none => rfl
      | some pos => rfl

end

/-! ### what may follow a statement -/

/-- A printed statement starts with a statement-start token. -/
theorem printS_head (x : SStmt) (h : swfS x = true) :
    ∃ t tl, printS x = t :: tl ∧ startT t = true := by
  cases x with
  | cmd c =>
    obtain ⟨tl, hpr⟩ := c.print_head
    exact ⟨c.name, tl, by simp [printS, hpr], by simp [startT, CmdM.name_ident (c := c) h]⟩
  | switchA sw lp c rp lb cs rb =>
    simp only [swfS, Bool.and_eq_true, beq_iff_eq] at h
    exact ⟨sw, _, rfl, by simp [startT, h.1.1.1.1.1.1]⟩
  | _ =>
    simp only [swfS, Bool.and_eq_true, beq_iff_eq] at h
    refine ⟨_, _, by simp only [printS]; rfl, ?_⟩
    simp [startT, h]

theorem fol_printL (r : List SStmt) (h : swfL r = true) (c : Tok) (tl : List Tok) (hc : closeT c = true) :
    Fol (printL r ++ c :: tl) := by
  cases r with
  | nil => exact ⟨c, tl, by simp [printL], by simp [folT, hc]⟩
  | cons x r' =>
    simp only [swfL, Bool.and_eq_true] at h
    obtain ⟨t, tl', hp, ht⟩ := printS_head x h.1
    exact ⟨t, tl' ++ (printL r' ++ c :: tl), by simp [printL, hp], by simp [folT, ht]⟩

theorem isRB_printL (r : List SStmt) (h : swfL r = true) (c : Tok) (tl : List Tok) :
    isRB (printL r ++ c :: tl) = (r.isEmpty && c.type == .RBRACE) := by
  cases r with
  | nil => simp [printL, isRB]
  | cons x r' =>
    simp only [swfL, Bool.and_eq_true] at h
    obtain ⟨t, tl', hp, ht⟩ := printS_head x h.1
    simp [printL, hp, isRB, (startT_ne ht).1]

def isPory : SStmt → Bool
  | .pory .. => true
  | _ => false

/-- Only a poryswitch statement starts with the `poryswitch` keyword. -/
theorem head_isPory (x : SStmt) (h : swfS x = true) (t : Tok) (tl : List Tok) (hp : printS x = t :: tl) :
    (t.type == .PORYSWITCH) = isPory x := by
  cases x with
  | cmd c =>
    obtain ⟨tl', hpr⟩ := c.print_head
    simp only [printS, hpr, List.cons.injEq] at hp
    obtain ⟨rfl, -⟩ := hp
    simp [isPory, CmdM.name_ident (c := c) h]
  | switchA sw lp c rp lb cs rb =>
    simp only [swfS, Bool.and_eq_true, beq_iff_eq] at h
    simp only [printS, List.cons.injEq] at hp
    obtain ⟨rfl, -⟩ := hp
    simp [isPory, h.1.1.1.1.1.1]
  | _ =>
    simp only [swfS, Bool.and_eq_true, beq_iff_eq] at h
    simp only [printS, List.cons.injEq] at hp
    obtain ⟨rfl, -⟩ := hp
    simp [isPory, h]

/-! ### results -/

/-- Result of `parseConditionExpression`; `m0` = the implicit data of the condition. -/
def outC (s : PState) (l : List Tok) (B C : List Nat) (cond : Option BoolExpr) (m0 : ImpData) :
    Except PFail (List Stmt × ImpData × Nat × Nat) →
      Except PFail ((Option BoolExpr × List Stmt × ImpData) × PState)
  | .ok (a, m, i, j) => .ok ((cond, a, m0.add m), S s l B C i j)
  | .error e => .error e

def SCase.isDflt : SCase → Bool
  | .case .. => false
  | .dflt .. => true

/-- The specification of the statement block at fuel `n` (parse ∘ print = elaborate, errors included). -/
structure Spec (n : Nat) : Prop where
  stmt : ∀ (env : Env) (sn : String) (s : PState) (B C : List Nat) (i j : Nat) (x : SStmt) (rest : List Tok),
    swfS x = true → Fol rest → needS x ≤ n →
    (parseStatement env sn n).run (S s (printS x ++ rest) B C i j) =
      outS s (lastS x :: rest) B C (elabS env sn (substC s.constants) B C (isRB rest) x i j)
  block : ∀ (env : Env) (sn : String) (tok : Tok) (s : PState) (B C : List Nat) (i j : Nat) (b : List SStmt)
    (acc : List Stmt) (imp : ImpData) (rb : Tok) (rest : List Tok),
    swfL b = true → rb.type = .RBRACE → needL b ≤ n →
    (parseBlockStatement env sn tok n acc imp).run (S s (printL b ++ rb :: rest) B C i j) =
      outB s (rb :: rest) B C acc imp (elabL env sn (substC s.constants) B C true b i j)
  swblock : ∀ (env : Env) (sn : String) (tok : Tok) (s : PState) (B C : List Nat) (i j : Nat)
    (b : List SStmt) (acc : List Stmt) (imp : ImpData) (c : Tok) (rest : List Tok),
    swfL b = true → closeT c = true → needL b ≤ n →
    (parseSwitchBlockStatement env sn tok n acc imp).run (S s (printL b ++ c :: rest) B C i j) =
      outB s (c :: rest) B C acc imp (elabL env sn (substC s.constants) B C (c.type == .RBRACE) b i j)
  cond1 : ∀ (env : Env) (sn : String) (req : Bool) (s : PState) (B C : List Nat) (i j : Nat) (pre lp : Tok)
    (c : SCond) (rp lb : Tok) (body : List SStmt) (rb : Tok) (rest : List Tok),
    lp.type = .LPAREN → rp.type = .RPAREN → lb.type = .LBRACE → rb.type = .RBRACE → swfL body = true →
    swfCond c = true → 1 + needCond c + needL body ≤ n →
    (parseConditionExpression env sn req n).run
        (S s (pre :: lp :: (printCond c ++ rp :: lb :: (printL body ++ rb :: rest))) B C i j) =
      match elabCond env sn (substC s.constants) c j with
      | .error e => .error e
      | .ok (t, mc, j0) =>
        outC s (rb :: rest) B C (some t) mc (elabL env sn (substC s.constants) B C true body i j0)
  cond0 : ∀ (env : Env) (sn : String) (s : PState) (B C : List Nat) (i j : Nat) (pre lb : Tok)
    (body : List SStmt) (rb : Tok) (rest : List Tok),
    lb.type = .LBRACE → rb.type = .RBRACE → swfL body = true → 1 + needL body ≤ n →
    (parseConditionExpression env sn false n).run (S s (pre :: lb :: (printL body ++ rb :: rest)) B C i j) =
      outC s (rb :: rest) B C none {} (elabL env sn (substC s.constants) B C true body i j)
  elifs : ∀ (env : Env) (sn : String) (s : PState) (B C : List Nat) (i j : Nat)
    (acc : List (BoolExpr × List Stmt)) (imp : ImpData) (es : List SElif) (pre : Tok) (rest : List Tok),
    swfElifs es = true → (∃ t tl, rest = t :: tl ∧ t.type ≠ .ELSEIF) → needElifs es ≤ n →
    (parseElifs env sn n acc imp).run (S s (pre :: (printElifs es ++ rest)) B C i j) =
      outE s (lastElifs es pre :: rest) B C acc imp (elabElifs env sn (substC s.constants) B C es i j)
  ifs : ∀ (env : Env) (sn : String) (s : PState) (B C : List Nat) (i j : Nat) (ifTok lp : Tok) (c : SCond)
    (rp lb : Tok) (body : List SStmt) (rb : Tok) (elifs : List SElif) (els : SElse) (rest : List Tok),
    swfS (.ite ifTok lp c rp lb body rb elifs els) = true → Fol rest →
    needS (.ite ifTok lp c rp lb body rb elifs els) ≤ n + 1 →
    (parseIfStatement env sn n).run (S s (printS (.ite ifTok lp c rp lb body rb elifs els) ++ rest) B C i j) =
      outS s (lastS (.ite ifTok lp c rp lb body rb elifs els) :: rest) B C
        (elabS env sn (substC s.constants) B C (isRB rest) (.ite ifTok lp c rp lb body rb elifs els) i j)
  whiles : ∀ (env : Env) (sn : String) (s : PState) (B C : List Nat) (i j : Nat) (w lp : Tok) (c : SCond)
    (rp lb : Tok) (body : List SStmt) (rb : Tok) (rest : List Tok),
    swfS (.while_ w lp c rp lb body rb) = true → needS (.while_ w lp c rp lb body rb) ≤ n + 1 →
    (parseWhileStatement env sn n).run (S s (printS (.while_ w lp c rp lb body rb) ++ rest) B C i j) =
      outS s (rb :: rest) B C (elabS env sn (substC s.constants) B C (isRB rest) (.while_ w lp c rp lb body rb) i j)
  whileInfs : ∀ (env : Env) (sn : String) (s : PState) (B C : List Nat) (i j : Nat) (w lb : Tok)
    (body : List SStmt) (rb : Tok) (rest : List Tok),
    swfS (.whileInf w lb body rb) = true → needS (.whileInf w lb body rb) ≤ n + 1 →
    (parseWhileStatement env sn n).run (S s (printS (.whileInf w lb body rb) ++ rest) B C i j) =
      outS s (rb :: rest) B C (elabS env sn (substC s.constants) B C (isRB rest) (.whileInf w lb body rb) i j)
  doWhiles : ∀ (env : Env) (sn : String) (s : PState) (B C : List Nat) (i j : Nat) (d lb : Tok)
    (body : List SStmt) (rb w lp : Tok) (c : SCond) (rp : Tok) (rest : List Tok),
    swfS (.doWhile d lb body rb w lp c rp) = true → needS (.doWhile d lb body rb w lp c rp) ≤ n + 1 →
    (parseDoWhileStatement env sn n).run (S s (printS (.doWhile d lb body rb w lp c rp) ++ rest) B C i j) =
      outS s (rp :: rest) B C
        (elabS env sn (substC s.constants) B C (isRB rest) (.doWhile d lb body rb w lp c rp) i j)
  cases : ∀ (env : Env) (sn : String) (brace : Tok) (s : PState) (B C : List Nat) (i j : Nat)
    (acc : List SwitchCase) (seen : List String) (hd : Bool) (imp : ImpData) (cs : List SCase) (rb : Tok)
    (rest : List Tok),
    swfCases cs = true → rb.type = .RBRACE → needCases cs ≤ n →
    (parseSwitchCases env sn brace n acc seen hd imp).run (S s (printCases cs ++ rb :: rest) B C i j) =
      outK s (rb :: rest) B C acc (hd || cs.any SCase.isDflt) imp
        (elabCases env sn (substC s.constants) B C cs seen hd i j)
  switch : ∀ (env : Env) (sn : String) (s : PState) (B C : List Nat) (i j : Nat) (sw lp v lp2 : Tok)
    (ops : List Tok) (rp2 rp lb : Tok) (cs : List SCase) (rb : Tok) (rest : List Tok),
    swfS (.switch_ sw lp v lp2 ops rp2 rp lb cs rb) = true →
    needS (.switch_ sw lp v lp2 ops rp2 rp lb cs rb) ≤ n + 1 →
    (parseSwitchStatement env sn n).run
        (S s (printS (.switch_ sw lp v lp2 ops rp2 rp lb cs rb) ++ rest) B C i j) =
      outS s (rb :: rest) B C
        (elabS env sn (substC s.constants) B C (isRB rest) (.switch_ sw lp v lp2 ops rp2 rp lb cs rb) i j)
  switchA : ∀ (env : Env) (sn : String) (s : PState) (B C : List Nat) (i j : Nat) (sw lp : Tok) (c : CmdM)
    (rp lb : Tok) (cs : List SCase) (rb : Tok) (rest : List Tok),
    swfS (.switchA sw lp c rp lb cs rb) = true → needS (.switchA sw lp c rp lb cs rb) ≤ n + 1 →
    (parseSwitchStatement env sn n).run (S s (printS (.switchA sw lp c rp lb cs rb) ++ rest) B C i j) =
      outS s (rb :: rest) B C
        (elabS env sn (substC s.constants) B C (isRB rest) (.switchA sw lp c rp lb cs rb) i j)
  pory : ∀ (env : Env) (sn : String) (s : PState) (B C : List Nat) (i j : Nat) (ps lp x rp lb : Tok)
    (cs : List SPCase) (rb : Tok) (rest : List Tok),
    swfS (.pory ps lp x rp lb cs rb) = true → needS (.pory ps lp x rp lb cs rb) ≤ n + 1 →
    (parsePoryswitchStatement env sn n).run (S s (printS (.pory ps lp x rp lb cs rb) ++ rest) B C i j) =
      outS s (rb :: rest) B C
        (elabS env sn (substC s.constants) B C (isRB rest) (.pory ps lp x rp lb cs rb) i j)
  pcases : ∀ (env : Env) (sn : String) (startTok : Tok) (s : PState) (B C : List Nat) (i j : Nat)
    (acc : List (String × List Stmt × ImpData)) (cs : List SPCase) (rb : Tok) (rest : List Tok),
    swfPCases cs = true → rb.type = .RBRACE → needPCases cs ≤ n →
    (parsePoryswitchStatementCases env sn startTok n acc).run (S s (printPCases cs ++ rb :: rest) B C i j) =
      outP s (rb :: rest) B C (elabPCases env sn (substC s.constants) B C cs acc i j)
  pstmts : ∀ (env : Env) (sn : String) (s : PState) (B C : List Nat) (i j : Nat) (b : List SStmt)
    (acc : List Stmt) (imp : ImpData) (rb : Tok) (rest : List Tok),
    swfL b = true → rb.type = .RBRACE → needL b ≤ n →
    (parsePoryswitchStatements env sn true n acc imp).run (S s (printL b ++ rb :: rest) B C i j) =
      outB s (rb :: rest) B C acc imp (elabL env sn (substC s.constants) B C true b i j)
  pstmt1 : ∀ (env : Env) (sn : String) (s : PState) (B C : List Nat) (i j : Nat) (x : SStmt)
    (rest : List Tok), swfS x = true → Fol rest → needS x + 1 ≤ n →
    (parsePoryswitchStatements env sn false n [] {}).run (S s (printS x ++ rest) B C i j) =
      outB s rest B C [] {} (elabS env sn (substC s.constants) B C (isRB rest) x i j)

section
variable {n : Nat} (ih : Spec n) (env : Env) (sn : String) (s : PState) (B C : List Nat) (i j : Nat)
include ih

theorem block_step (tok : Tok) (b : List SStmt) (acc : List Stmt) (imp : ImpData) (rb : Tok)
    (rest : List Tok) (hb : swfL b = true) (hrb : rb.type = .RBRACE) (hf : needL b ≤ n + 1) :
    (parseBlockStatement env sn tok (n + 1) acc imp).run (S s (printL b ++ rb :: rest) B C i j) =
      outB s (rb :: rest) B C acc imp (elabL env sn (substC s.constants) B C true b i j) := by
  cases b with
  | nil =>
    rw [block_nil env sn n tok acc imp _ (by simp [printL, S_toks, hrb])]
    simp [printL, elabL, outB, add_nil]
  | cons x r =>
    simp only [swfL, Bool.and_eq_true] at hb
    simp only [needL] at hf
    obtain ⟨t, tl, hp, ht⟩ := printS_head x hb.1
    have hne := startT_ne ht
    have hfol := fol_printL r hb.2 rb rest (by simp [closeT, hrb])
    have h1 := ih.stmt env sn s B C i j x (printL r ++ rb :: rest) hb.1 hfol (by omega)
    rw [isRB_printL r hb.2] at h1
    have hw : printL (x :: r) ++ rb :: rest = printS x ++ (printL r ++ rb :: rest) := by
      simp [printL]
    rw [hw, block_cons env sn n tok acc imp _ (by simp [S_toks, hp, hne.1]) (by simp [S_toks, hp, hne.2.1]), h1]
    simp only [elabL, bt hrb]
    cases elabS env sn (substC s.constants) B C (r.isEmpty && true) x i j with
    | error e => rfl
    | ok v =>
      obtain ⟨a, m1, i1, j1⟩ := v
      simp only [outS, S_toks, st_S, List.tail_cons]
      rw [ih.block env sn tok s B C i1 j1 r (acc ++ a) (imp.add m1) rb rest hb.2 hrb (by omega)]
      cases elabL env sn (substC s.constants) B C true r i1 j1 with
      | error e => rfl
      | ok w => obtain ⟨b', m2, i2, j2⟩ := w; simp [outB, add_assoc]

theorem swblock_step (tok : Tok) (b : List SStmt) (acc : List Stmt) (imp : ImpData) (c : Tok)
    (rest : List Tok) (hb : swfL b = true) (hc : closeT c = true) (hf : needL b ≤ n + 1) :
    (parseSwitchBlockStatement env sn tok (n + 1) acc imp).run (S s (printL b ++ c :: rest) B C i j) =
      outB s (c :: rest) B C acc imp (elabL env sn (substC s.constants) B C (c.type == .RBRACE) b i j) := by
  cases b with
  | nil =>
    rw [swblock_nil env sn n tok acc imp _ (by
      simpa [printL, S_toks, closeT, or_assoc] using hc)]
    simp [printL, elabL, outB, add_nil]
  | cons x r =>
    simp only [swfL, Bool.and_eq_true] at hb
    simp only [needL] at hf
    obtain ⟨t, tl, hp, ht⟩ := printS_head x hb.1
    have hne := startT_ne ht
    have hfol := fol_printL r hb.2 c rest hc
    have h1 := ih.stmt env sn s B C i j x (printL r ++ c :: rest) hb.1 hfol (by omega)
    rw [isRB_printL r hb.2] at h1
    have hw : printL (x :: r) ++ c :: rest = printS x ++ (printL r ++ c :: rest) := by
      simp [printL]
    rw [hw, swblock_cons env sn n tok acc imp _ (by simp [S_toks, hp, hne.1]) (by simp [S_toks, hp, hne.2.1])
      (by simp [S_toks, hp, hne.2.2.1]) (by simp [S_toks, hp, hne.2.2.2.1]), h1]
    simp only [elabL]
    cases elabS env sn (substC s.constants) B C (r.isEmpty && c.type == .RBRACE) x i j with
    | error e => rfl
    | ok v =>
      obtain ⟨a, m1, i1, j1⟩ := v
      simp only [outS, S_toks, st_S, List.tail_cons]
      rw [ih.swblock env sn tok s B C i1 j1 r (acc ++ a) (imp.add m1) c rest hb.2 hc (by omega)]
      cases elabL env sn (substC s.constants) B C (c.type == .RBRACE) r i1 j1 with
      | error e => rfl
      | ok w => obtain ⟨b', m2, i2, j2⟩ := w; simp [outB, add_assoc]

theorem stmt_step (x : SStmt) (rest : List Tok) (hx : swfS x = true) (hfol : Fol rest)
    (hf : needS x ≤ n + 1) :
    (parseStatement env sn (n + 1)).run (S s (printS x ++ rest) B C i j) =
      outS s (lastS x :: rest) B C (elabS env sn (substC s.constants) B C (isRB rest) x i j) := by
  obtain ⟨t, tl, rfl, ht⟩ := hfol
  have hne := fol_ne ht
  cases x with
  | cmd c =>
    simp only [swfS] at hx
    simp only [needS] at hf
    simp only [printS, lastS, elabS]
    rw [stmt_cmdF env sn s B C i j n c t tl hx hne.2.1 hne.2.2.1 (by omega)]
    cases c.elabC env sn (substC s.constants) j with
    | error e => rfl
    | ok r => obtain ⟨cmd, m⟩ := r; rfl
  | label name colon =>
    simp only [swfS, Bool.and_eq_true, beq_iff_eq] at hx
    simp only [printS, lastS, elabS, outS]
    exact stmt_label env sn s B C i j n name colon _ hx.1 hx.2
  | labelS name lp sc rp colon =>
    simp only [swfS, Bool.and_eq_true, beq_iff_eq, Bool.or_eq_true] at hx
    simp only [printS, lastS, elabS, outS]
    exact stmt_labelS env sn s B C i j n name lp sc rp colon _ hx.1.1.1.1 hx.1.1.1.2 hx.1.1.2 hx.1.2 hx.2
  | ite ifTok lp c rp lb body rb elifs els =>
    have h0 : ifTok.type = .IF := by
      simp only [swfS, Bool.and_eq_true, beq_iff_eq] at hx; exact hx.1.1.1.1.1.1.1.1
    rw [stmt_if env sn n _ (by simp [printS, S_toks, h0])]
    exact ih.ifs env sn s B C i j ifTok lp c rp lb body rb elifs els _ hx ⟨t, tl, rfl, ht⟩ hf
  | while_ w lp c rp lb body rb =>
    have h0 : w.type = .WHILE := by
      simp only [swfS, Bool.and_eq_true, beq_iff_eq] at hx; exact hx.1.1.1.1.1.1
    rw [stmt_while env sn n _ (by simp [printS, S_toks, h0])]
    exact ih.whiles env sn s B C i j w lp c rp lb body rb _ hx hf
  | whileInf w lb body rb =>
    have h0 : w.type = .WHILE := by
      simp only [swfS, Bool.and_eq_true, beq_iff_eq] at hx; exact hx.1.1.1
    rw [stmt_while env sn n _ (by simp [printS, S_toks, h0])]
    exact ih.whileInfs env sn s B C i j w lb body rb _ hx hf
  | doWhile d lb body rb w lp c rp =>
    have h0 : d.type = .DO := by
      simp only [swfS, Bool.and_eq_true, beq_iff_eq] at hx; exact hx.1.1.1.1.1.1.1
    rw [stmt_do env sn n _ (by simp [printS, S_toks, h0])]
    exact ih.doWhiles env sn s B C i j d lb body rb w lp c rp _ hx hf
  | brk b =>
    simp only [swfS, beq_iff_eq] at hx
    simp only [printS, lastS, elabS, List.cons_append, List.nil_append]
    rw [stmt_brk env sn s B C i j n b _ hx]
    cases B <;> rfl
  | cont c =>
    simp only [swfS, beq_iff_eq] at hx
    simp only [printS, lastS, elabS, List.cons_append, List.nil_append, isRB]
    rw [stmt_cont env sn s B C i j n c t tl hx]
    cases C with
    | nil => rfl
    | cons k C' =>
      by_cases hrb : (t.type == TT.RBRACE) = true
      · simp only [hrb, if_true]; rfl
      · simp only [hrb]; rfl
  | switch_ sw lp v lp2 ops rp2 rp lb cs rb =>
    have h0 : sw.type = .SWITCH := by
      simp only [swfS, Bool.and_eq_true, beq_iff_eq] at hx; exact hx.1.1.1.1.1.1.1.1.1
    rw [stmt_switch env sn n _ (by simp [printS, S_toks, h0])]
    exact ih.switch env sn s B C i j sw lp v lp2 ops rp2 rp lb cs rb _ hx hf
  | switchA sw lp c rp lb cs rb =>
    have h0 : sw.type = .SWITCH := by
      simp only [swfS, Bool.and_eq_true, beq_iff_eq] at hx; exact hx.1.1.1.1.1.1
    rw [stmt_switch env sn n _ (by simp [printS, S_toks, h0])]
    exact ih.switchA env sn s B C i j sw lp c rp lb cs rb _ hx hf
  | pory ps lp x rp lb cs rb =>
    have h0 : ps.type = .PORYSWITCH := by
      simp only [swfS, Bool.and_eq_true, beq_iff_eq] at hx; exact hx.1.1.1.1.1.1
    rw [stmt_pory env sn n _ (by simp [printS, S_toks, h0])]
    exact ih.pory env sn s B C i j ps lp x rp lb cs rb _ hx hf

theorem cond1_step (req : Bool) (pre lp : Tok) (c : SCond) (rp lb : Tok) (body : List SStmt) (rb : Tok)
    (rest : List Tok) (hlp : lp.type = .LPAREN) (hrp : rp.type = .RPAREN) (hlb : lb.type = .LBRACE)
    (hrb : rb.type = .RBRACE) (hb : swfL body = true) (hc : swfCond c = true)
    (hf : 1 + needCond c + needL body ≤ n + 1) :
    (parseConditionExpression env sn req (n + 1)).run
        (S s (pre :: lp :: (printCond c ++ rp :: lb :: (printL body ++ rb :: rest))) B C i j) =
      match elabCond env sn (substC s.constants) c j with
      | .error e => .error e
      | .ok (t, mc, j0) =>
        outC s (rb :: rest) B C (some t) mc (elabL env sn (substC s.constants) B C true body i j0) := by
  rw [parseConditionExpression]
  have h1 : (lp.type == TT.LBRACE) = false := by rw [hlp]; decide
  qsimp [h1, bt hlp, cond_S env sn s B C i j c lp rp _ hc hrp n (by omega)]
  cases elabCond env sn (substC s.constants) c j with
  | error e => rfl
  | ok v =>
    obtain ⟨t, mc, j0⟩ := v
    simp only [ex_bind_ok]
    qsimp [run_expectPeekErr_ok .LBRACE (S s (rp :: lb :: (printL body ++ rb :: rest)) B C i j0)
        (by simp [S_toks, hlb]),
      ih.block env sn lb s B C i j0 body [] {} rb rest hb hrb (by omega)]
    cases elabL env sn (substC s.constants) B C true body i j0 with
    | error e => rfl
    | ok v => obtain ⟨a, m1, i1, j1⟩ := v; simp [outB, outC, nil_add]

theorem cond0_step (pre lb : Tok) (body : List SStmt) (rb : Tok) (rest : List Tok)
    (hlb : lb.type = .LBRACE) (hrb : rb.type = .RBRACE) (hb : swfL body = true)
    (hf : 1 + needL body ≤ n + 1) :
    (parseConditionExpression env sn false (n + 1)).run
        (S s (pre :: lb :: (printL body ++ rb :: rest)) B C i j) =
      outC s (rb :: rest) B C none {} (elabL env sn (substC s.constants) B C true body i j) := by
  rw [parseConditionExpression]
  qsimp [bt hlb,
    run_expectPeekErr_ok .LBRACE (S s (pre :: lb :: (printL body ++ rb :: rest)) B C i j) (by simp [S_toks, hlb]),
    ih.block env sn lb s B C i j body [] {} rb rest hb hrb (by omega)]
  cases elabL env sn (substC s.constants) B C true body i j with
  | error e => rfl
  | ok v => obtain ⟨a, m1, i1, j1⟩ := v; simp [outB, outC, nil_add]

theorem elifs_step (acc : List (BoolExpr × List Stmt)) (imp : ImpData) (es : List SElif) (pre : Tok)
    (rest : List Tok) (hes : swfElifs es = true) (hrest : ∃ t tl, rest = t :: tl ∧ t.type ≠ .ELSEIF)
    (hf : needElifs es ≤ n + 1) :
    (parseElifs env sn (n + 1) acc imp).run (S s (pre :: (printElifs es ++ rest)) B C i j) =
      outE s (lastElifs es pre :: rest) B C acc imp (elabElifs env sn (substC s.constants) B C es i j) := by
  cases es with
  | nil =>
    obtain ⟨t, tl, rfl, ht⟩ := hrest
    rw [parseElifs]
    qsimp [printElifs, bnf, bnt ht]
    simp [lastElifs, elabElifs, outE, add_nil]
  | cons e r =>
    obtain ⟨eTok, lp, c, rp, lb, body, rb⟩ := e
    simp only [swfElifs, swfElif, Bool.and_eq_true, beq_iff_eq] at hes
    obtain ⟨⟨⟨⟨⟨⟨⟨h1, h2⟩, h3⟩, h4⟩, h5⟩, h6⟩, h8⟩, h7⟩ := hes
    simp only [needElifs] at hf
    rw [parseElifs]
    simp only [printElifs, printElif, List.cons_append, List.append_assoc, List.nil_append]
    qsimp [bnf h1, ih.cond1 env sn true s B C i j eTok lp c rp lb body rb (printElifs r ++ rest) h2 h3 h4 h5 h6
      h8 (by omega)]
    simp only [elabElifs, lastElifs, SElif.rb]
    cases elabCond env sn (substC s.constants) c j with
    | error e => rfl
    | ok u =>
      obtain ⟨t, mc, j0⟩ := u
      simp only
      cases elabL env sn (substC s.constants) B C true body i j0 with
      | error e => rfl
      | ok v =>
        obtain ⟨a, m1, i1, j1⟩ := v
        simp only [outC, ex_bind_ok]
        qsimp [ih.elifs env sn s B C i1 j1 (acc ++ [(t, a)]) (imp.add (mc.add m1)) r rb rest h7 hrest (by omega)]
        cases elabElifs env sn (substC s.constants) B C r i1 j1 with
        | error e => rfl
        | ok w => obtain ⟨es', m2, i2, j2⟩ := w; simp [outE, add_assoc]

theorem if_step (ifTok lp : Tok) (c : SCond) (rp lb : Tok) (body : List SStmt) (rb : Tok)
    (elifs : List SElif) (els : SElse) (rest : List Tok)
    (hx : swfS (.ite ifTok lp c rp lb body rb elifs els) = true) (hfol : Fol rest)
    (hf : needS (.ite ifTok lp c rp lb body rb elifs els) ≤ n + 2) :
    (parseIfStatement env sn (n + 1)).run
        (S s (printS (.ite ifTok lp c rp lb body rb elifs els) ++ rest) B C i j) =
      outS s (lastS (.ite ifTok lp c rp lb body rb elifs els) :: rest) B C
        (elabS env sn (substC s.constants) B C (isRB rest) (.ite ifTok lp c rp lb body rb elifs els) i j) := by
  obtain ⟨t, tl, rfl, ht⟩ := hfol
  have hne := fol_ne ht
  simp only [swfS, Bool.and_eq_true, beq_iff_eq] at hx
  obtain ⟨⟨⟨⟨⟨⟨⟨⟨h1, h2⟩, h3⟩, h4⟩, h5⟩, h6⟩, h7⟩, h8⟩, h9⟩ := hx
  simp only [needS] at hf
  rw [parseIfStatement]
  simp only [printS, lastS, elabS, List.cons_append, List.append_assoc]
  qsimp [ih.cond1 env sn true s B C i j ifTok lp c rp lb body rb (printElifs elifs ++ (printElse els ++ t :: tl))
    h2 h3 h4 h5 h6 h9 (by omega)]
  cases elabCond env sn (substC s.constants) c j with
  | error e => rfl
  | ok u =>
  obtain ⟨ct, mc, j0⟩ := u
  simp only
  cases elabL env sn (substC s.constants) B C true body i j0 with
  | error e => rfl
  | ok v =>
    obtain ⟨a, m1, i1, j1⟩ := v
    simp only [outC, ex_bind_ok]
    have hel : ∃ t' tl', printElse els ++ t :: tl = t' :: tl' ∧ t'.type ≠ .ELSEIF := by
      cases els with
      | none => exact ⟨t, tl, by simp [printElse], hne.2.2.2.1⟩
      | some e lb2 body2 rb2 =>
        simp only [swfElse, Bool.and_eq_true, beq_iff_eq] at h8
        exact ⟨e, lb2 :: (printL body2 ++ rb2 :: t :: tl), by simp [printElse], by rw [h8.1.1.1]; decide⟩
    qsimp [ih.elifs env sn s B C i1 j1 [] (mc.add m1) elifs rb (printElse els ++ t :: tl) h7 hel (by omega)]
    cases elabElifs env sn (substC s.constants) B C elifs i1 j1 with
    | error e => rfl
    | ok w =>
      obtain ⟨es, m2, i2, j2⟩ := w
      simp only [outE, ex_bind_ok, List.nil_append]
      cases els with
      | none =>
        qsimp [printElse, bf hne.2.2.2.2]
        simp [elabElse, lastElse, outS, add_nil, add_assoc]
      | some e lb2 body2 rb2 =>
        simp only [swfElse, Bool.and_eq_true, beq_iff_eq] at h8
        obtain ⟨⟨⟨g1, g2⟩, g3⟩, g4⟩ := h8
        simp only [needElse] at hf
        simp only [printElse, List.cons_append, List.append_assoc, List.nil_append]
        qsimp [bt g1, bt g2, ih.block env sn lb2 s B C i2 j2 body2 [] {} rb2 (t :: tl) g4 g3 (by omega)]
        simp only [elabElse, lastElse]
        cases elabL env sn (substC s.constants) B C true body2 i2 j2 with
        | error e => rfl
        | ok u => obtain ⟨b2, m3, i3, j3⟩ := u; simp [outB, outS, add_assoc, nil_add]

theorem while_step (w lp : Tok) (c : SCond) (rp lb : Tok) (body : List SStmt) (rb : Tok) (rest : List Tok)
    (hx : swfS (.while_ w lp c rp lb body rb) = true) (hf : needS (.while_ w lp c rp lb body rb) ≤ n + 2) :
    (parseWhileStatement env sn (n + 1)).run (S s (printS (.while_ w lp c rp lb body rb) ++ rest) B C i j) =
      outS s (rb :: rest) B C
        (elabS env sn (substC s.constants) B C (isRB rest) (.while_ w lp c rp lb body rb) i j) := by
  simp only [swfS, Bool.and_eq_true, beq_iff_eq] at hx
  obtain ⟨⟨⟨⟨⟨⟨h1, h2⟩, h3⟩, h4⟩, h5⟩, h6⟩, h7⟩ := hx
  simp only [needS] at hf
  rw [parseWhileStatement]
  simp only [printS, elabS, List.cons_append, List.append_assoc, List.nil_append]
  qsimp [run_newSid_S, run_pushBreak_S, run_pushContinue_S,
    ih.cond1 env sn false s (i :: B) (i :: C) (i + 1) j w lp c rp lb body rb rest h2 h3 h4 h5 h6 h7 (by omega)]
  cases elabCond env sn (substC s.constants) c j with
  | error e => rfl
  | ok u =>
  obtain ⟨ct, mc, j0⟩ := u
  simp only
  cases elabL env sn (substC s.constants) (i :: B) (i :: C) true body (i + 1) j0 with
  | error e => rfl
  | ok v =>
    obtain ⟨a, m1, i1, j1⟩ := v
    simp only [outC, ex_bind_ok]
    qsimp [run_popBreak_S, run_popContinue_S]
    rfl

theorem whileInf_step (w lb : Tok) (body : List SStmt) (rb : Tok) (rest : List Tok)
    (hx : swfS (.whileInf w lb body rb) = true) (hf : needS (.whileInf w lb body rb) ≤ n + 2) :
    (parseWhileStatement env sn (n + 1)).run (S s (printS (.whileInf w lb body rb) ++ rest) B C i j) =
      outS s (rb :: rest) B C
        (elabS env sn (substC s.constants) B C (isRB rest) (.whileInf w lb body rb) i j) := by
  simp only [swfS, Bool.and_eq_true, beq_iff_eq] at hx
  obtain ⟨⟨⟨h1, h2⟩, h3⟩, h4⟩ := hx
  simp only [needS] at hf
  rw [parseWhileStatement]
  simp only [printS, elabS, List.cons_append, List.append_assoc, List.nil_append]
  qsimp [run_newSid_S, run_pushBreak_S, run_pushContinue_S,
    ih.cond0 env sn s (i :: B) (i :: C) (i + 1) j w lb body rb rest h2 h3 h4 (by omega)]
  cases elabL env sn (substC s.constants) (i :: B) (i :: C) true body (i + 1) j with
  | error e => rfl
  | ok v =>
    obtain ⟨a, m1, i1, j1⟩ := v
    simp only [outC, ex_bind_ok]
    qsimp [run_popBreak_S, run_popContinue_S]
    simp [outS, nil_add]

theorem doWhile_step (d lb : Tok) (body : List SStmt) (rb w lp : Tok) (c : SCond) (rp : Tok)
    (rest : List Tok) (hx : swfS (.doWhile d lb body rb w lp c rp) = true)
    (hf : needS (.doWhile d lb body rb w lp c rp) ≤ n + 2) :
    (parseDoWhileStatement env sn (n + 1)).run
        (S s (printS (.doWhile d lb body rb w lp c rp) ++ rest) B C i j) =
      outS s (rp :: rest) B C
        (elabS env sn (substC s.constants) B C (isRB rest) (.doWhile d lb body rb w lp c rp) i j) := by
  simp only [swfS, Bool.and_eq_true, beq_iff_eq] at hx
  obtain ⟨⟨⟨⟨⟨⟨⟨h1, h2⟩, h3⟩, h4⟩, h5⟩, h6⟩, h7⟩, h8⟩ := hx
  simp only [needS] at hf
  rw [parseDoWhileStatement]
  simp only [printS, elabS, List.cons_append, List.append_assoc, List.nil_append]
  qsimp [run_newSid_S, run_pushBreak_S, run_pushContinue_S, bt h2,
    ih.block env sn lb s (i :: B) (i :: C) (i + 1) j body [] {} rb (w :: lp :: (printCond c ++ rp :: rest)) h7 h3
      (by omega)]
  cases elabL env sn (substC s.constants) (i :: B) (i :: C) true body (i + 1) j with
  | error e => rfl
  | ok v =>
    obtain ⟨a, m1, i1, j1⟩ := v
    simp only [outB, ex_bind_ok, List.nil_append]
    qsimp [run_popBreak_S, run_popContinue_S, bt h4, bt h5,
      cond_S env sn s B C i1 j1 c lp rp rest h8 h6 n (by omega)]
    cases elabCond env sn (substC s.constants) c j1 with
    | error e => rfl
    | ok u => obtain ⟨ct, mc, j2⟩ := u; simp [outS, nil_add]

omit ih in
theorem printCases_head (r : List SCase) (h : swfCases r = true) (rb : Tok) (rest : List Tok)
    (hrb : rb.type = .RBRACE) :
    ∃ c tl, printCases r ++ rb :: rest = c :: tl ∧ closeT c = true ∧ (c.type == .RBRACE) = r.isEmpty := by
  cases r with
  | nil => exact ⟨rb, rest, by simp [printCases], by simp [closeT, hrb], by simp [hrb]⟩
  | cons k r' =>
    cases k with
    | case cT vs colon body =>
      simp only [swfCases, swfCase, Bool.and_eq_true, beq_iff_eq] at h
      exact ⟨cT, _, by simp only [printCases, printCase, List.cons_append]; rfl,
        by simp [closeT, h.1.1.1.1], by simp [h.1.1.1.1]⟩
    | dflt dT colon body =>
      simp only [swfCases, swfCase, Bool.and_eq_true, beq_iff_eq] at h
      exact ⟨dT, _, by simp only [printCases, printCase, List.cons_append]; rfl,
        by simp [closeT, h.1.1.1], by simp [h.1.1.1]⟩

theorem cases_step (brace : Tok) (acc : List SwitchCase) (seen : List String) (hd : Bool) (imp : ImpData)
    (cs : List SCase) (rb : Tok) (rest : List Tok) (hcs : swfCases cs = true) (hrb : rb.type = .RBRACE)
    (hf : needCases cs ≤ n + 1) :
    (parseSwitchCases env sn brace (n + 1) acc seen hd imp).run (S s (printCases cs ++ rb :: rest) B C i j) =
      outK s (rb :: rest) B C acc (hd || cs.any SCase.isDflt) imp
        (elabCases env sn (substC s.constants) B C cs seen hd i j) := by
  cases cs with
  | nil =>
    rw [step_done env sn brace n acc seen hd imp _ (by simp [printCases, S_toks, hrb])]
    simp [printCases, elabCases, outK, add_nil]
  | cons k r =>
    cases k with
    | case cT vs colon body =>
      simp only [swfCases, swfCase, Bool.and_eq_true, beq_iff_eq, List.all_eq_true, caseValTok,
        bne_iff_ne] at hcs
      obtain ⟨⟨⟨⟨h1, h2⟩, h3⟩, h4⟩, h5⟩ := hcs
      simp only [needCases] at hf
      obtain ⟨c', tl', hp, hc', hce⟩ := printCases_head r h5 rb rest hrb
      have hwf : (Hdr.case cT vs colon).WF :=
        ⟨h1, fun v hv => (h2 v hv).1, fun v hv => (h2 v (List.mem_of_mem_tail hv)).2, h3⟩
      have hstep := step_case env sn brace n acc seen hd imp (S s [] B C i j) cT vs colon
        (printL body ++ (printCases r ++ rb :: rest)) hwf (by omega)
      have hw : S s (printCases (SCase.case cT vs colon body :: r) ++ rb :: rest) B C i j =
          st (S s [] B C i j) (cT :: (vs ++ colon :: (printL body ++ (printCases r ++ rb :: rest)))) := by
        simp only [printCases, printCase, List.cons_append, List.append_assoc, st_S]
      rw [hw, hstep, Hdr.reject_case]
      simp only [elabCases, S_constants]
      show (match (if seen.contains (caseValue (substC s.constants) vs) = true then
          some (duplicateCaseErr cT colon (caseValue (substC s.constants) vs)) else none) with
        | some e => Except.error e
        | none => _) = _
      by_cases hdup : seen.contains (caseValue (substC s.constants) vs) = true
      · simp only [hdup, if_true]
        rfl
      · have hdup' : seen.contains (caseValue (substC s.constants) vs) = false := by simpa using hdup
        simp only [hdup', Bool.false_eq_true, if_false]
        simp only [st_S, hp]
        rw [ih.swblock env sn brace s B C i j body [] {} c' tl' h4 hc' (by omega), hce]
        cases elabL env sn (substC s.constants) B C r.isEmpty body i j with
        | error e => rfl
        | ok v =>
          obtain ⟨a, m1, i1, j1⟩ := v
          simp only [outB, afterBody, List.nil_append, nil_add, ← hp, vals_case, tok_case, isDefault_case,
            Bool.or_false]
          rw [ih.cases env sn brace s B C i1 j1 _ _ _ _ r rb rest h5 hrb (by omega)]
          cases elabCases env sn (substC s.constants) B C r (caseValue (substC s.constants) vs :: seen) hd i1 j1 with
          | error e => rfl
          | ok w =>
            obtain ⟨cs', m2, i2, j2⟩ := w
            simp [outK, SCase.isDflt, add_assoc]
    | dflt dT colon body =>
      simp only [swfCases, swfCase, Bool.and_eq_true, beq_iff_eq] at hcs
      obtain ⟨⟨⟨h1, h3⟩, h4⟩, h5⟩ := hcs
      simp only [needCases] at hf
      obtain ⟨c', tl', hp, hc', hce⟩ := printCases_head r h5 rb rest hrb
      have hwf : (Hdr.dflt dT colon).WF := ⟨h1, h3⟩
      have hstep := step_dflt env sn brace n acc seen hd imp (S s [] B C i j) dT colon
        (printL body ++ (printCases r ++ rb :: rest)) hwf
      have hw : S s (printCases (SCase.dflt dT colon body :: r) ++ rb :: rest) B C i j =
          st (S s [] B C i j) (dT :: colon :: (printL body ++ (printCases r ++ rb :: rest))) := by
        simp only [printCases, printCase, List.cons_append, List.append_assoc, st_S]
      rw [hw, hstep, Hdr.reject_dflt]
      simp only [elabCases]
      cases hd with
      | true => rfl
      | false =>
        simp only [Bool.false_eq_true, if_false]
        simp only [st_S, hp]
        rw [ih.swblock env sn brace s B C i j body [] {} c' tl' h4 hc' (by omega), hce]
        cases elabL env sn (substC s.constants) B C r.isEmpty body i j with
        | error e => rfl
        | ok v =>
          obtain ⟨a, m1, i1, j1⟩ := v
          simp only [outB, afterBody, List.nil_append, nil_add, ← hp, vals_dflt, tok_dflt, isDefault_dflt,
            Bool.or_true, Bool.false_or]
          rw [ih.cases env sn brace s B C i1 j1 _ _ _ _ r rb rest h5 hrb (by omega)]
          cases elabCases env sn (substC s.constants) B C r seen true i1 j1 with
          | error e => rfl
          | ok w =>
            obtain ⟨cs', m2, i2, j2⟩ := w
            simp [outK, SCase.isDflt, add_assoc]

theorem switch_step (sw lp v lp2 : Tok) (ops : List Tok) (rp2 rp lb : Tok) (cs : List SCase) (rb : Tok)
    (rest : List Tok) (hx : swfS (.switch_ sw lp v lp2 ops rp2 rp lb cs rb) = true)
    (hf : needS (.switch_ sw lp v lp2 ops rp2 rp lb cs rb) ≤ n + 2) :
    (parseSwitchStatement env sn (n + 1)).run
        (S s (printS (.switch_ sw lp v lp2 ops rp2 rp lb cs rb) ++ rest) B C i j) =
      outS s (rb :: rest) B C
        (elabS env sn (substC s.constants) B C (isRB rest) (.switch_ sw lp v lp2 ops rp2 rp lb cs rb) i j) := by
  simp only [swfS, Bool.and_eq_true, beq_iff_eq, List.all_eq_true, operandTok, bne_iff_ne] at hx
  obtain ⟨⟨⟨⟨⟨⟨⟨⟨⟨h1, h2⟩, h3⟩, h4⟩, h5⟩, h6⟩, h7⟩, h8⟩, h9⟩, h10⟩ := hx
  simp only [needS] at hf
  have hrun := switch_run (env := env) (sn := sn) (n := n)
    (s := S s (sw :: lp :: v :: lp2 :: (ops ++ rp2 :: rp :: lb :: (printCases cs ++ rb :: rest))) B C i j)
    (sw := sw) (lp := lp) (x := rp) (lb := lb) (ctoks := printCases cs ++ rb :: rest) rfl h2
    (OperandAt.var (v := v) (lp2 := lp2) (ops := ops) (rp := rp2) (x := rp)
      (tl := lb :: (printCases cs ++ rb :: rest)) rfl h3 h4 h5 h6 (by omega)) rfl h8
  have hw : printS (.switch_ sw lp v lp2 ops rp2 rp lb cs rb) ++ rest =
      sw :: lp :: v :: lp2 :: (ops ++ rp2 :: rp :: lb :: (printCases cs ++ rb :: rest)) := by
    simp [printS]
  rw [hw, hrun]
  show finishSwitch sw i (operandOf (substC s.constants) ops rp2) [] {}
    ((parseSwitchCases env sn lb n [] [] false {}).run (S s (printCases cs ++ rb :: rest) (i :: B) C (i + 1) j)) = _
  rw [ih.cases env sn lb s (i :: B) C (i + 1) j [] [] false {} cs rb rest h10 h9 (by omega)]
  simp only [elabS]
  cases elabCases env sn (substC s.constants) (i :: B) C cs [] false (i + 1) j with
  | error e => rfl
  | ok w =>
    obtain ⟨cs', m1, i1, j1⟩ := w
    simp only [outK, finishSwitch, List.nil_append]
    cases cs' with
    | nil => rfl
    | cons k r => rfl

theorem switchA_step (sw lp : Tok) (c : CmdM) (rp lb : Tok) (cs : List SCase) (rb : Tok) (rest : List Tok)
    (hx : swfS (.switchA sw lp c rp lb cs rb) = true)
    (hf : needS (.switchA sw lp c rp lb cs rb) ≤ n + 2) :
    (parseSwitchStatement env sn (n + 1)).run
        (S s (printS (.switchA sw lp c rp lb cs rb) ++ rest) B C i j) =
      outS s (rb :: rest) B C
        (elabS env sn (substC s.constants) B C (isRB rest) (.switchA sw lp c rp lb cs rb) i j) := by
  simp only [swfS, Bool.and_eq_true, beq_iff_eq] at hx
  obtain ⟨⟨⟨⟨⟨⟨h1, h2⟩, h3⟩, h8⟩, h9⟩, h10⟩, h11⟩ := hx
  simp only [needS] at hf
  have hw : printS (.switchA sw lp c rp lb cs rb) ++ rest =
      sw :: lp :: (c.print ++ rp :: lb :: (printCases cs ++ rb :: rest)) := by
    simp [printS]
  rw [hw, parseSwitchStatement]
  qsimp [run_newSid_S, run_pushBreak_S, bt h2,
    epv_S env sn s (i :: B) C (i + 1) j lp c (rp :: lb :: (printCases cs ++ rb :: rest)) h3
      (fun _ _ => by simp [h8]) n (by omega)]
  simp only [elabS]
  cases env.autoVars.lookup c.name.lit with
  | none => rfl
  | some av =>
    simp only
    cases c.elabC env sn (substC s.constants) j with
    | error e => rfl
    | ok r =>
    obtain ⟨cmd, mc⟩ := r
    simp only
    cases autoPosBad av c.nargs with
    | some pos => rfl
    | none =>
      simp only [ex_bind_ok]
      qsimp [bt h8, bt h9,
        ih.cases env sn lb s (i :: B) C (i + 1) (j + 1) [] [] false {} cs rb rest h11 h10 (by omega)]
      cases elabCases env sn (substC s.constants) (i :: B) C cs [] false (i + 1) (j + 1) with
      | error e => rfl
      | ok w =>
        obtain ⟨cs', m1, i1, j1⟩ := w
        simp only [outK, ex_bind_ok, List.nil_append]
        qsimp [run_popBreak_S]
        cases cs' with
        | nil => rfl
        | cons k r => simp [outS, nil_add]

/-! #### poryswitch -/

/-- The statement at the head of a poryswitch case (`poryswitch` is dispatched directly). -/
theorem dispatch_step (x : SStmt) (rest : List Tok) (hx : swfS x = true) (hfol : Fol rest)
    (hf : needS x ≤ n) :
    (stmtOrPory env sn n (S s (printS x ++ rest) B C i j)).run (S s (printS x ++ rest) B C i j) =
      outS s (lastS x :: rest) B C (elabS env sn (substC s.constants) B C (isRB rest) x i j) := by
  obtain ⟨t, tl, hp, ht⟩ := printS_head x hx
  have hh : (S s (printS x ++ rest) B C i j).toks.headD (S s (printS x ++ rest) B C i j).eof = t := by
    simp [S_toks, hp]
  unfold stmtOrPory
  rw [hh, head_isPory x hx t tl hp]
  cases x <;> simp only [isPory, if_true, Bool.false_eq_true, if_false]
  case pory ps lp x' rp lb cs rb =>
    exact ih.pory env sn s B C i j ps lp x' rp lb cs rb rest hx (by omega)
  all_goals exact ih.stmt env sn s B C i j _ rest hx hfol hf

theorem pstmts_step (b : List SStmt) (acc : List Stmt) (imp : ImpData) (rb : Tok)
    (rest : List Tok) (hb : swfL b = true) (hrb : rb.type = .RBRACE) (hf : needL b ≤ n + 1) :
    (parsePoryswitchStatements env sn true (n + 1) acc imp).run (S s (printL b ++ rb :: rest) B C i j) =
      outB s (rb :: rest) B C acc imp (elabL env sn (substC s.constants) B C true b i j) := by
  cases b with
  | nil =>
    rw [pstmts_nil env sn n _ true acc imp (by simp [printL, S_toks, hrb])]
    simp [printL, elabL, outB, add_nil]
  | cons x r =>
    simp only [swfL, Bool.and_eq_true] at hb
    simp only [needL] at hf
    obtain ⟨t, tl, hp, ht⟩ := printS_head x hb.1
    have hne := startT_ne ht
    have hfol := fol_printL r hb.2 rb rest (by simp [closeT, hrb])
    have h1 := dispatch_step ih env sn s B C i j x (printL r ++ rb :: rest) hb.1 hfol (by omega)
    rw [isRB_printL r hb.2] at h1
    have hw : printL (x :: r) ++ rb :: rest = printS x ++ (printL r ++ rb :: rest) := by
      simp [printL]
    rw [hw, pstmts_cons env sn n _ true acc imp (by simp [S_toks, hp, hne.1]), h1]
    simp only [elabL, bt hrb]
    cases elabS env sn (substC s.constants) B C (r.isEmpty && true) x i j with
    | error e => rfl
    | ok v =>
      obtain ⟨a, m1, i1, j1⟩ := v
      simp only [outS, S_toks, st_S, List.tail_cons, if_true]
      rw [ih.pstmts env sn s B C i1 j1 r (acc ++ a) (imp.add m1) rb rest hb.2 hrb (by omega)]
      cases elabL env sn (substC s.constants) B C true r i1 j1 with
      | error e => rfl
      | ok w => obtain ⟨b', m2, i2, j2⟩ := w; simp [outB, add_assoc]

theorem pstmt1_step (x : SStmt) (rest : List Tok) (hx : swfS x = true) (hfol : Fol rest)
    (hf : needS x + 1 ≤ n + 1) :
    (parsePoryswitchStatements env sn false (n + 1) [] {}).run (S s (printS x ++ rest) B C i j) =
      outB s rest B C [] {} (elabS env sn (substC s.constants) B C (isRB rest) x i j) := by
  obtain ⟨t, tl, hp, ht⟩ := printS_head x hx
  have hne := startT_ne ht
  rw [pstmts_cons env sn n _ false [] {} (by simp [S_toks, hp, hne.1]),
    dispatch_step ih env sn s B C i j x rest hx hfol (by omega)]
  cases elabS env sn (substC s.constants) B C (isRB rest) x i j with
  | error e => rfl
  | ok v =>
    obtain ⟨a, m1, i1, j1⟩ := v
    simp [outS, outB, S_toks, st_S, nil_add]

omit ih in
theorem swfPCases_cons (k : SPCase) (r : List SPCase) (h : swfPCases (k :: r) = true) :
    swfPCase k = true ∧ swfPCases r = true := by
  cases k with
  | colon key c x => simpa [swfPCases] using h
  | brace key lb body rb => simpa [swfPCases] using h
  | colon0 key c =>
    simp only [swfPCases, Bool.and_eq_true, List.isEmpty_iff] at h
    obtain ⟨h1, rfl⟩ := h
    exact ⟨h1, rfl⟩

omit ih in
theorem printPCases_head (r : List SPCase) (h : swfPCases r = true) (rb : Tok) (rest : List Tok)
    (hrb : rb.type = .RBRACE) :
    ∃ c tl, printPCases r ++ rb :: rest = c :: tl ∧ folT c = true ∧ (c.type == .RBRACE) = r.isEmpty := by
  cases r with
  | nil => exact ⟨rb, rest, by simp [printPCases], by simp [folT, closeT, hrb], by simp [hrb]⟩
  | cons k r' =>
    have hk := (swfPCases_cons k r' h).1
    cases k with
    | colon key c x =>
      simp only [swfPCase, Bool.and_eq_true, beq_iff_eq, Bool.or_eq_true] at hk
      refine ⟨key, _, by simp only [printPCases, printPCase, List.cons_append]; rfl, ?_, ?_⟩
      · rcases hk.1.1 with hk | hk <;> simp [folT, startT, hk]
      · rcases hk.1.1 with hk | hk <;> simp [hk]
    | colon0 key c =>
      simp only [swfPCase, Bool.and_eq_true, beq_iff_eq, Bool.or_eq_true] at hk
      refine ⟨key, _, by simp only [printPCases, printPCase, List.cons_append]; rfl, ?_, ?_⟩
      · rcases hk.1 with hk | hk <;> simp [folT, startT, hk]
      · rcases hk.1 with hk | hk <;> simp [hk]
    | brace key lb body rb' =>
      simp only [swfPCase, Bool.and_eq_true, beq_iff_eq, Bool.or_eq_true] at hk
      refine ⟨key, _, by simp only [printPCases, printPCase, List.cons_append]; rfl, ?_, ?_⟩
      · rcases hk.1.1.1 with hk | hk <;> simp [folT, startT, hk]
      · rcases hk.1.1.1 with hk | hk <;> simp [hk]

theorem pcases_step (startTok : Tok) (acc : List (String × List Stmt × ImpData)) (cs : List SPCase)
    (rb : Tok) (rest : List Tok) (hcs : swfPCases cs = true) (hrb : rb.type = .RBRACE)
    (hf : needPCases cs ≤ n + 1) :
    (parsePoryswitchStatementCases env sn startTok (n + 1) acc).run
        (S s (printPCases cs ++ rb :: rest) B C i j) =
      outP s (rb :: rest) B C (elabPCases env sn (substC s.constants) B C cs acc i j) := by
  cases cs with
  | nil =>
    rw [pcases_nil env sn n _ startTok acc (by simp [printPCases, S_toks, hrb])]
    simp [printPCases, elabPCases, outP]
  | cons k r =>
    obtain ⟨hk, h4⟩ := swfPCases_cons k r hcs
    cases k with
    | colon key c x =>
      simp only [swfPCase, Bool.and_eq_true, beq_iff_eq, Bool.or_eq_true] at hk
      obtain ⟨⟨h1, h2⟩, h3⟩ := hk
      simp only [needPCases] at hf
      obtain ⟨c', tl', hp, hc', hce⟩ := printPCases_head r h4 rb rest hrb
      have hw : printPCases (SPCase.colon key c x :: r) ++ rb :: rest =
          key :: c :: (printS x ++ (printPCases r ++ rb :: rest)) := by
        simp [printPCases, printPCase]
      rw [hw, pcases_colon env sn n startTok acc s B C i j key c _ h1 h2,
        ih.pstmt1 env sn s B C i j x (printPCases r ++ rb :: rest) h3 ⟨c', tl', hp, hc'⟩ (by omega)]
      simp only [elabPCases]
      have hrbq : isRB (printPCases r ++ rb :: rest) = r.isEmpty := by rw [hp]; exact hce
      rw [hrbq]
      cases elabS env sn (substC s.constants) B C r.isEmpty x i j with
      | error e => rfl
      | ok v =>
        obtain ⟨a, m1, i1, j1⟩ := v
        simp only [outB, List.nil_append, nil_add]
        exact ih.pcases env sn startTok s B C i1 j1 _ r rb rest h4 hrb (by omega)
    | colon0 key c =>
      simp only [swfPCases, Bool.and_eq_true, List.isEmpty_iff] at hcs
      obtain ⟨-, rfl⟩ := hcs
      simp only [swfPCase, Bool.and_eq_true, beq_iff_eq, Bool.or_eq_true] at hk
      obtain ⟨h1, h2⟩ := hk
      simp only [needPCases] at hf
      obtain ⟨m, rfl⟩ : ∃ m, n = m + 1 := ⟨n - 1, by omega⟩
      have hw : printPCases [SPCase.colon0 key c] ++ rb :: rest = key :: c :: (rb :: rest) := by
        simp [printPCases, printPCase]
      rw [hw, pcases_colon env sn (m + 1) startTok acc s B C i j key c _ h1 h2,
        pstmts_nil env sn m _ false [] {} (by simp [S_toks, hrb])]
      simp only [elabPCases]
      rw [pcases_nil env sn m _ startTok _ (by simp [S_toks, hrb])]
      rfl
    | brace key lb body rb' =>
      simp only [swfPCase, Bool.and_eq_true, beq_iff_eq, Bool.or_eq_true] at hk
      obtain ⟨⟨⟨h1, h2⟩, h3⟩, h5⟩ := hk
      simp only [needPCases] at hf
      have hw : printPCases (SPCase.brace key lb body rb' :: r) ++ rb :: rest =
          key :: lb :: (printL body ++ rb' :: (printPCases r ++ rb :: rest)) := by
        simp [printPCases, printPCase]
      rw [hw, pcases_brace env sn n startTok acc s B C i j key lb _ h1 h2,
        ih.pstmts env sn s B C i j body [] {} rb' (printPCases r ++ rb :: rest) h5 h3 (by omega)]
      simp only [elabPCases]
      cases elabL env sn (substC s.constants) B C true body i j with
      | error e => rfl
      | ok v =>
        obtain ⟨a, m1, i1, j1⟩ := v
        simp only [outB, List.nil_append, nil_add, S_toks, S_eof, List.headD_cons, bt h3, if_true, st_S,
          List.tail_cons]
        exact ih.pcases env sn startTok s B C i1 j1 _ r rb rest h4 hrb (by omega)

theorem pory_step (ps lp x rp lb : Tok) (cs : List SPCase) (rb : Tok) (rest : List Tok)
    (hx : swfS (.pory ps lp x rp lb cs rb) = true) (hf : needS (.pory ps lp x rp lb cs rb) ≤ n + 2) :
    (parsePoryswitchStatement env sn (n + 1)).run (S s (printS (.pory ps lp x rp lb cs rb) ++ rest) B C i j) =
      outS s (rb :: rest) B C
        (elabS env sn (substC s.constants) B C (isRB rest) (.pory ps lp x rp lb cs rb) i j) := by
  simp only [swfS, Bool.and_eq_true, beq_iff_eq] at hx
  obtain ⟨⟨⟨⟨⟨⟨h1, h2⟩, h3⟩, h4⟩, h5⟩, h6⟩, h7⟩ := hx
  simp only [needS] at hf
  rw [parsePoryswitchStatement]
  simp only [printS, elabS, List.cons_append, List.append_assoc, List.nil_append]
  qsimp [header_S env s B C i j ps lp x rp lb (printPCases cs ++ rb :: rest) h2 h3 h4 h5]
  have hh : hdrErr env ps x =
      (if (env.envErrors && env.switches.isEmpty) = true then some (noSwitchesErr ps)
       else if (env.envErrors && (env.switches.lookup x.lit).isNone) = true then some (undefinedSwitchErr x)
       else none) := rfl
  rw [hh]
  by_cases g1 : (env.envErrors && env.switches.isEmpty) = true
  · simp only [g1, if_true]; rfl
  · simp only [g1]
    by_cases g2 : (env.envErrors && (env.switches.lookup x.lit).isNone) = true
    · simp only [g2, if_true]; rfl
    · simp only [g2]
      simp only [Bool.false_eq_true, if_false, ex_bind_ok]
      rw [ih.pcases env sn _ s B C i j [] cs rb rest h7 h6 (by omega)]
      cases hel : elabPCases env sn (substC s.constants) B C cs [] i j with
      | error e => rfl
      | ok v =>
        obtain ⟨table, i1, j1⟩ := v
        simp only [outP, ex_bind_ok]
        cases hsel : selectCase env table (swVal env x.lit) with
        | some r => obtain ⟨r1, r2⟩ := r; rfl
        | none =>
          simp only
          cases env.envErrors with
          | true => rfl
          | false => rfl

end
/-! ### the induction on fuel -/

theorem needS_pos (x : SStmt) : 1 ≤ needS x := by cases x <;> simp only [needS] <;> omega
theorem needL_pos (b : List SStmt) : 1 ≤ needL b := by cases b <;> simp only [needL] <;> omega
theorem needElifs_pos (es : List SElif) : 1 ≤ needElifs es := by
  cases es with
  | nil => simp [needElifs]
  | cons e r => obtain ⟨_, _, _, _, _, _, _⟩ := e; simp only [needElifs]; omega
theorem needCases_pos (cs : List SCase) : 1 ≤ needCases cs := by
  cases cs with
  | nil => simp [needCases]
  | cons k r => cases k <;> simp only [needCases] <;> omega

theorem needPCases_pos (cs : List SPCase) : 1 ≤ needPCases cs := by
  cases cs with
  | nil => simp [needPCases]
  | cons k r => cases k <;> simp only [needPCases] <;> omega

/-- **parse ∘ print = elaborate** for every function of the statement block, every fuel. -/
theorem spec : ∀ n : Nat, Spec n
  | 0 =>
    { stmt := by intro _ _ _ _ _ _ _ x _ _ _ hf; have := needS_pos x; omega
      block := by intro _ _ _ _ _ _ _ _ b _ _ _ _ _ _ hf; have := needL_pos b; omega
      swblock := by intro _ _ _ _ _ _ _ _ b _ _ _ _ _ _ hf; have := needL_pos b; omega
      cond1 := by intros; omega
      cond0 := by intros; omega
      elifs := by intro _ _ _ _ _ _ _ _ _ es _ _ _ _ hf; have := needElifs_pos es; omega
      ifs := by intro _ _ _ _ _ _ _ _ _ _ _ _ _ _ _ _ _ _ _ hf; simp only [needS] at hf; omega
      whiles := by intro _ _ _ _ _ _ _ _ _ _ _ _ _ _ _ _ hf; simp only [needS] at hf; omega
      whileInfs := by intro _ _ _ _ _ _ _ _ _ _ _ _ _ hf; simp only [needS] at hf; omega
      doWhiles := by
        intro _ _ _ _ _ _ _ _ _ body _ _ _ _ _ _ _ hf
        simp only [needS] at hf; have := needL_pos body; omega
      cases := by intro _ _ _ _ _ _ _ _ _ _ _ _ cs _ _ _ _ hf; have := needCases_pos cs; omega
      switch := by intro _ _ _ _ _ _ _ _ _ _ _ _ _ _ _ _ _ _ _ hf; simp only [needS] at hf; omega
      switchA := by
        intro _ _ _ _ _ _ _ _ _ _ _ _ cs _ _ _ hf
        simp only [needS] at hf; omega
      pory := by
        intro _ _ _ _ _ _ _ _ _ _ _ _ cs _ _ _ hf
        simp only [needS] at hf; have := needPCases_pos cs; omega
      pcases := by intro _ _ _ _ _ _ _ _ _ cs _ _ _ _ hf; have := needPCases_pos cs; omega
      pstmts := by intro _ _ _ _ _ _ _ b _ _ _ _ _ _ hf; have := needL_pos b; omega
      pstmt1 := by intros; omega }
  | n + 1 =>
    have ih := spec n
    { stmt := fun env sn s B C i j x rest => stmt_step ih env sn s B C i j x rest
      block := fun env sn tok s B C i j b acc imp rb rest => block_step ih env sn s B C i j tok b acc imp rb rest
      swblock := fun env sn tok s B C i j b acc imp c rest =>
        swblock_step ih env sn s B C i j tok b acc imp c rest
      cond1 := fun env sn req s B C i j pre lp c rp lb body rb rest =>
        cond1_step ih env sn s B C i j req pre lp c rp lb body rb rest
      cond0 := fun env sn s B C i j pre lb body rb rest => cond0_step ih env sn s B C i j pre lb body rb rest
      elifs := fun env sn s B C i j acc imp es pre rest => elifs_step ih env sn s B C i j acc imp es pre rest
      ifs := fun env sn s B C i j ifTok lp c rp lb body rb elifs els rest =>
        if_step ih env sn s B C i j ifTok lp c rp lb body rb elifs els rest
      whiles := fun env sn s B C i j w lp c rp lb body rb rest =>
        while_step ih env sn s B C i j w lp c rp lb body rb rest
      whileInfs := fun env sn s B C i j w lb body rb rest => whileInf_step ih env sn s B C i j w lb body rb rest
      doWhiles := fun env sn s B C i j d lb body rb w lp c rp rest =>
        doWhile_step ih env sn s B C i j d lb body rb w lp c rp rest
      cases := fun env sn brace s B C i j acc seen hd imp cs rb rest =>
        cases_step ih env sn s B C i j brace acc seen hd imp cs rb rest
      switch := fun env sn s B C i j sw lp v lp2 ops rp2 rp lb cs rb rest =>
        switch_step ih env sn s B C i j sw lp v lp2 ops rp2 rp lb cs rb rest
      switchA := fun env sn s B C i j sw lp c rp lb cs rb rest =>
        switchA_step ih env sn s B C i j sw lp c rp lb cs rb rest
      pory := fun env sn s B C i j ps lp x rp lb cs rb rest =>
        pory_step ih env sn s B C i j ps lp x rp lb cs rb rest
      pcases := fun env sn startTok s B C i j acc cs rb rest =>
        pcases_step ih env sn s B C i j startTok acc cs rb rest
      pstmts := fun env sn s B C i j b acc imp rb rest => pstmts_step ih env sn s B C i j b acc imp rb rest
      pstmt1 := fun env sn s B C i j x rest => pstmt1_step ih env sn s B C i j x rest }

/-! ### the main theorems -/

/-- **Stage 2 + 3 in one statement.** On the printed tokens of a well-formed block `b` followed by `}`,
`parseBlockStatement` returns exactly what the reference elaboration says: the elaborated statements and
their implicit data, stopping ON the `}`, only the window and the two counters changed — or the located
error of the first violation. -/
theorem parse_block_elab (env : Env) (sn : String) (startTok : Tok) (b : List SStmt) (rb : Tok)
    (rest : List Tok) (hwf : SWF b) (hrb : rb.type = .RBRACE) (s : PState)
    (htoks : s.toks = printStmts b ++ rb :: rest) (fuel : Nat) (hfuel : needL b ≤ fuel) :
    (parseBlockStatement env sn startTok fuel [] {}).run s =
      match elabE env sn (ctxOf s) b with
      | .ok (stmts, imp, c') =>
        .ok ((stmts, imp), { s with toks := rb :: rest, nextSid := c'.nextSid, nextCmdId := c'.nextCmdId })
      | .error e => .error e := by
  have h := (spec fuel).block env sn startTok s s.breakStack s.continueStack s.nextSid s.nextCmdId b [] {} rb
    rest hwf hrb hfuel
  rw [← htoks, S_self] at h
  rw [h]
  unfold elabE ctxOf
  simp only
  cases elabL env sn (substC s.constants) s.breakStack s.continueStack true b s.nextSid s.nextCmdId with
  | error e => rfl
  | ok v => obtain ⟨a, m1, i1, j1⟩ := v; simp [outB, nil_add]; rfl

/-- **Stage 2: parse ∘ print = elaborate.** -/
theorem parse_block_print (env : Env) (sn : String) (startTok : Tok) (b : List SStmt) (rb : Tok)
    (rest : List Tok) (hwf : SWF b) (hrb : rb.type = .RBRACE) (s : PState)
    (htoks : s.toks = printStmts b ++ rb :: rest) (fuel : Nat) (hfuel : needL b ≤ fuel)
    (stmts : List Stmt) (imp : ImpData) (c' : Ctx)
    (helab : elaborate env sn (ctxOf s) b = some (stmts, imp, c')) :
    (parseBlockStatement env sn startTok fuel [] {}).run s =
      .ok ((stmts, imp), { s with toks := rb :: rest, nextSid := c'.nextSid, nextCmdId := c'.nextCmdId }) ∧
    c'.breakStack = s.breakStack ∧ c'.continueStack = s.continueStack := by
  have he := elaborate_some helab
  refine ⟨?_, (elabE_stacks he).1, (elabE_stacks he).2.1⟩
  rw [parse_block_elab env sn startTok b rb rest hwf hrb s htoks fuel hfuel, he]

/-- **Stage 3: the rejection side.** If the reference elaboration fails with `e` (the located error of the
first documented violation), so does the parser. -/
theorem parse_block_reject (env : Env) (sn : String) (startTok : Tok) (b : List SStmt) (rb : Tok)
    (rest : List Tok) (hwf : SWF b) (hrb : rb.type = .RBRACE) (s : PState)
    (htoks : s.toks = printStmts b ++ rb :: rest) (fuel : Nat) (hfuel : needL b ≤ fuel)
    (e : PFail) (helab : elabE env sn (ctxOf s) b = .error e) :
    (parseBlockStatement env sn startTok fuel [] {}).run s = .error e := by
  rw [parse_block_elab env sn startTok b rb rest hwf hrb s htoks fuel hfuel, helab]

/-- … whenever `elaborate` is `none`. -/
theorem parse_block_reject_none (env : Env) (sn : String) (startTok : Tok) (b : List SStmt) (rb : Tok)
    (rest : List Tok) (hwf : SWF b) (hrb : rb.type = .RBRACE) (s : PState)
    (htoks : s.toks = printStmts b ++ rb :: rest) (fuel : Nat) (hfuel : needL b ≤ fuel)
    (helab : elaborate env sn (ctxOf s) b = none) :
    ∃ e, elabE env sn (ctxOf s) b = .error e ∧
      (parseBlockStatement env sn startTok fuel [] {}).run s = .error e := by
  obtain ⟨e, he⟩ := elaborate_none helab
  exact ⟨e, he, parse_block_reject env sn startTok b rb rest hwf hrb s htoks fuel hfuel e he⟩

/-- The fuel `ParseProgram` starts with (`4 * tokens + 50`) is more than enough: `2 * tokens + 1`. -/
theorem fuel_of_tokens (b : List SStmt) (fuel : Nat) (h : 2 * (printStmts b).length + 1 ≤ fuel) :
    needL b ≤ fuel := Nat.le_trans (needL_le b) h

end Pory.P1c
