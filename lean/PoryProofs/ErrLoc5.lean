import PoryProofs.ErrLoc4
/-
Located parser errors, part 5: top-level statements, the top-level loop, `ParseProgram`, `parseTokens`.
-/
namespace Pory.ErrLoc
open Pory Pory.Parser

section
variable (T : List Tok) (E : Tok)

theorem sp_parseBlockStatement (env : Env) (sn : String) (i : Nat) (n : Nat) (acc : List Stmt) (imp : ImpData)
    (k : Nat) (s : PState) (hi : Inv T E k s) (himp : ImpOK T E imp) :
    tri (El T E) (parseBlockStatement env sn (T.getD i E) n acc imp) s (Post T E k (fun r => ImpOK T E r.2)) :=
  (locAll T E n).block env sn i acc imp k s hi himp

theorem sp_parseScriptStatement (env : Env) (n : Nat) (k : Nat) (s : PState) (hi : Inv T E k s) :
    tri (El T E) (parseScriptStatement env n) s (Post T E k (fun r => ImpOK T E r.2)) := by
  unfold parseScriptStatement
  tstart hi
  tgo [sp_parseScopeModifier T E, sp_parseBlockStatement T E]

/-- The token of a top-level movement statement (reported by the duplicate movement check). -/
def TopTokOK (t : Top) : Prop :=
  match t with
  | .movement m => Tin T E m.tok
  | _ => True

def OptTopOK (r : Option Top) : Prop :=
  match r with
  | some t => TopTokOK T E t
  | none => True

def AllTop (l : List Top) : Prop := ∀ t ∈ l, TopTokOK T E t

theorem toptok_movement {m : MovementStmt} (h : Tin T E m.tok) : TopTokOK T E (.movement m) := h
theorem toptok_script (x : Script) : TopTokOK T E (.script x) := True.intro
theorem toptok_raw (a b : Tok) (c : String) : TopTokOK T E (.raw a b c) := True.intro
theorem toptok_text (x : Text) : TopTokOK T E (.text x) := True.intro
theorem toptok_mart (a : Tok) (b : String) (c : List Tok) (d : List String) (e : TT) :
    TopTokOK T E (.mart a b c d e) := True.intro
theorem toptok_mapscripts (x : MapScripts) : TopTokOK T E (.mapscripts x) := True.intro
theorem opttop_some {t : Top} (h : TopTokOK T E t) : OptTopOK T E (some t) := h
theorem opttop_none : OptTopOK T E none := True.intro

theorem sp_parseRawStatement (k : Nat) (s : PState) (hi : Inv T E k s) :
    tri (El T E) parseRawStatement s (Post T E k (TopTokOK T E)) := by
  unfold parseRawStatement
  tstart hi
  tgo [toptok_raw T E]

theorem sp_parseTextStatement (env : Env) (n : Nat) (k : Nat) (s : PState) (hi : Inv T E k s) :
    tri (El T E) (parseTextStatement env n) s (Post T E k (TopTokOK T E)) := by
  unfold parseTextStatement
  tstart hi
  tgo [sp_parseScopeModifier T E, sp_parsePoryswitchTextStatement T E, sp_parseTextValue T E, toptok_text T E]

theorem sp_parseMovementStatement (env : Env) (n : Nat) (k : Nat) (s : PState) (hi : Inv T E k s) :
    tri (El T E) (parseMovementStatement env n) s (Post T E k (TopTokOK T E)) := by
  unfold parseMovementStatement
  tstart hi
  tgo [sp_parseScopeModifier T E, sp_parseListValue T E, toptok_movement T E]

theorem sp_mapM_tryReplace : ∀ (l : List Tok) (k : Nat) (s : PState), Inv T E k s →
    tri (El T E) (l.mapM fun t => tryReplaceWithConstant t.lit) s (Post T E k (fun _ => True)) := by
  intro l
  induction l with
  | nil => intro k s hi; simp only [List.mapM_nil]; tstart hi; tgo
  | cons x r ih => intro k s hi; simp only [List.mapM_cons]; tstart hi; tgo [ih]

theorem sp_parseMartStatement (env : Env) (n : Nat) (k : Nat) (s : PState) (hi : Inv T E k s) :
    tri (El T E) (parseMartStatement env n) s (Post T E k (TopTokOK T E)) := by
  unfold parseMartStatement
  tstart hi
  tgo [sp_parseScopeModifier T E, sp_parseListValue T E, sp_mapM_tryReplace T E, toptok_mart T E]

theorem sp_tableCollect (stop : Tok → Bool) (onEOF : PFail) (ho : El T E onEOF) :
    ∀ (n : Nat) (acc : String) (k : Nat) (s : PState), Inv T E k s →
    tri (El T E) (tableCollect stop onEOF n acc) s (Post T E k (fun _ => True)) := by
  intro n
  induction n with
  | zero => intros; rw [tableCollect]; tsimp
  | succ n ih =>
    intro acc k s hi
    rw [tableCollect]
    tstart hi
    tgo [ih]

theorem sp_parseTableEntries (env : Env) (ms ty : String) : ∀ (n i : Nat) (acc : List TableEntry)
    (imp : ImpData) (k : Nat) (s : PState), Inv T E k s → ImpOK T E imp →
    tri (El T E) (parseTableEntries env ms ty n i acc imp) s (Post T E k (fun r => ImpOK T E r.2)) := by
  intro n
  induction n with
  | zero => intros; rw [parseTableEntries]; tsimp
  | succ n ih =>
    intro i acc imp k s hi himp
    rw [parseTableEntries]
    tstart hi
    tgo [ih, sp_tableCollect T E, sp_parseBlockStatement T E]

theorem sp_parseMapScriptEntries (env : Env) (ms : String) : ∀ (n : Nat) (mss : List MapScript)
    (tables : List TableMapScript) (imp : ImpData) (k : Nat) (s : PState), Inv T E k s → ImpOK T E imp →
    tri (El T E) (parseMapScriptEntries env ms n mss tables imp) s
      (Post T E k (fun r => ImpOK T E r.2.2)) := by
  intro n
  induction n with
  | zero => intros; rw [parseMapScriptEntries]; tsimp
  | succ n ih =>
    intro mss tables imp k s hi himp
    rw [parseMapScriptEntries]
    tstart hi
    tgo [ih, sp_parseTableEntries T E, sp_parseBlockStatement T E]

theorem sp_parseMapscriptsStatement (env : Env) (n : Nat) (k : Nat) (s : PState) (hi : Inv T E k s) :
    tri (El T E) (parseMapscriptsStatement env n) s (Post T E k (fun r => ImpOK T E r.2)) := by
  unfold parseMapscriptsStatement
  tstart hi
  tgo [sp_parseScopeModifier T E, sp_parseMapScriptEntries T E]

theorem sp_constLoop : ∀ (n : Nat) (acc : String) (k : Nat) (s : PState), Inv T E k s →
    tri (El T E) (constLoop n acc) s (Post T E k (fun _ => True)) := by
  intro n
  induction n with
  | zero => intros; rw [constLoop]; tsimp
  | succ n ih =>
    intro acc k s hi
    rw [constLoop]
    tstart hi
    tgo [ih]

theorem sp_parseConstant (n : Nat) (k : Nat) (s : PState) (hi : Inv T E k s) :
    tri (El T E) (parseConstant n) s (Post T E k (fun _ => True)) := by
  unfold parseConstant
  tstart hi
  tgo [sp_constLoop T E]

/-! ### implicit data is recorded in the state -/

theorem stok_addTextStep {s : PState} (h : StOk T E s) {t : ImpText} (ht : Tin T E t.text) :
    StOk T E (addTextStep s t) := by
  unfold addTextStep
  dsimp only
  split
  · exact h
  · refine ⟨?_, h.2.1, h.2.2⟩
    intro x hx
    rcases List.mem_append.1 hx with h1 | h1
    · exact h.1 x h1
    · rw [List.mem_singleton] at h1; subst h1; exact ht

theorem addTextStep_toks (s : PState) (t : ImpText) :
    (addTextStep s t).toks = s.toks ∧ (addTextStep s t).eof = s.eof := by
  unfold addTextStep
  dsimp only
  split <;> exact ⟨rfl, rfl⟩

theorem stok_addMovementStep {s : PState} (h : StOk T E s) {m : ImpMovement} (hm : Tin T E m.cmdTok) :
    StOk T E (addMovementStep s m) := by
  unfold addMovementStep
  dsimp only
  split
  · exact h
  · refine ⟨h.1, h.2.1, ?_⟩
    intro x hx
    rcases List.mem_append.1 hx with h1 | h1
    · exact h.2.2 x h1
    · rw [List.mem_singleton] at h1; subst h1; exact hm

theorem addMovementStep_toks (s : PState) (m : ImpMovement) :
    (addMovementStep s m).toks = s.toks ∧ (addMovementStep s m).eof = s.eof := by
  unfold addMovementStep
  dsimp only
  split <;> exact ⟨rfl, rfl⟩

theorem inv_foldl_addTextStep : ∀ (l : List ImpText) (k : Nat) (s : PState), Inv T E k s →
    (∀ x ∈ l, Tin T E x.text) → Inv T E k (l.foldl addTextStep s) := by
  intro l
  induction l with
  | nil => intro k s hi _; exact hi
  | cons x r ih =>
    intro k s hi hl
    rw [List.foldl_cons]
    refine ih k _ ⟨?_, ?_, ?_⟩ (fun y hy => hl y (List.mem_cons_of_mem _ hy))
    · rw [(addTextStep_toks s x).1]; exact hi.toks
    · rw [(addTextStep_toks s x).2]; exact hi.eof
    · exact stok_addTextStep T E hi.st (hl x List.mem_cons_self)

theorem inv_foldl_addMovementStep : ∀ (l : List ImpMovement) (k : Nat) (s : PState), Inv T E k s →
    (∀ x ∈ l, Tin T E x.cmdTok) → Inv T E k (l.foldl addMovementStep s) := by
  intro l
  induction l with
  | nil => intro k s hi _; exact hi
  | cons x r ih =>
    intro k s hi hl
    rw [List.foldl_cons]
    refine ih k _ ⟨?_, ?_, ?_⟩ (fun y hy => hl y (List.mem_cons_of_mem _ hy))
    · rw [(addMovementStep_toks s x).1]; exact hi.toks
    · rw [(addMovementStep_toks s x).2]; exact hi.eof
    · exact stok_addMovementStep T E hi.st (hl x List.mem_cons_self)

theorem sp_addImplicitData (d : ImpData) (k : Nat) (s : PState) (hi : Inv T E k s) (hd : ImpOK T E d) :
    tri (El T E) (addImplicitData d) s (Post T E k (fun _ => True)) := by
  unfold addImplicitData addImplicitTexts addImplicitMovements
  simp only [tri_bind, tri_modify]
  exact ⟨k, Nat.le_refl _,
    inv_foldl_addMovementStep T E _ k _ (inv_foldl_addTextStep T E _ k s hi hd.1) hd.2, True.intro⟩


theorem sp_parseTopLevelStatement (env : Env) (n : Nat) (k : Nat) (s : PState) (hi : Inv T E k s) :
    tri (El T E) (parseTopLevelStatement env n) s (Post T E k (OptTopOK T E)) := by
  unfold parseTopLevelStatement
  tstart hi
  tgo [sp_parseScriptStatement T E, sp_addImplicitData T E, sp_parseRawStatement T E,
    sp_parseTextStatement T E, sp_parseMovementStatement T E, sp_parseMartStatement T E,
    sp_parseMapscriptsStatement T E, sp_parseConstant T E, opttop_some T E, opttop_none T E,
    toptok_script T E, toptok_mapscripts T E]

theorem alltop_snoc {acc : List Top} {t : Top} (ha : AllTop T E acc) (hs : OptTopOK T E (some t)) :
    AllTop T E (acc ++ [t]) := by
  intro x hx
  rcases List.mem_append.1 hx with h | h
  · exact ha x h
  · rw [List.mem_singleton] at h; subst h; exact hs

theorem sp_topLoop (env : Env) (fuel : Nat) : ∀ (n : Nat) (acc : List Top) (k : Nat) (s : PState),
    Inv T E k s → AllTop T E acc →
    tri (El T E) (topLoop env fuel n acc) s (Post T E k (AllTop T E)) := by
  intro n
  induction n with
  | zero => intros; rw [topLoop]; tsimp
  | succ n ih =>
    intro acc k s hi hacc
    rw [topLoop]
    tstart hi
    tgo [ih, sp_parseTopLevelStatement T E, alltop_snoc T E]

/-! ### the duplicate label checks of `ParseProgram` -/

theorem firstDuplicateText_mem : ∀ (l : List Text) (seen : List String) (t : Text),
    firstDuplicateText l seen = some t → t ∈ l := by
  intro l
  induction l with
  | nil => intro seen t h; simp [firstDuplicateText] at h
  | cons x r ih =>
    intro seen t h
    rw [firstDuplicateText] at h
    split at h
    · cases h; exact List.mem_cons_self
    · exact List.mem_cons_of_mem _ (ih _ _ h)

theorem dupText_tin {s : PState} {t : Text} (hst : StOk T E s)
    (h : firstDuplicateText (s.inlineTexts ++ s.textStatements) [] = some t) : Tin T E t.tok := by
  rcases List.mem_append.1 (firstDuplicateText_mem _ _ _ h) with h1 | h1
  · exact hst.1 t h1
  · exact hst.2.1 t h1

theorem firstDuplicateMovement_tin : ∀ (l : List Top) (seen : List (String × Tok)) (tok : Tok) (name : String),
    AllTop T E l → (∀ p ∈ seen, Tin T E p.2) → firstDuplicateMovement l seen = some (tok, name) →
    Tin T E tok := by
  intro l
  induction l with
  | nil => intro seen tok name _ _ h; simp [firstDuplicateMovement] at h
  | cons x r ih =>
    intro seen tok name hl hseen h
    have hr : AllTop T E r := fun t ht => hl t (List.mem_cons_of_mem _ ht)
    cases x with
    | movement m =>
      rw [firstDuplicateMovement] at h
      split at h
      · rename_i t0 hlk
        cases h
        exact hseen _ (lookup_mem hlk)
      · refine ih _ _ _ hr ?_ h
        intro p hp
        rcases List.mem_cons.1 hp with h1 | h1
        · subst h1; exact hl (.movement m) List.mem_cons_self
        · exact hseen p h1
    | script _ => simp only [firstDuplicateMovement] at h; exact ih _ _ _ hr hseen h
    | raw _ _ _ => simp only [firstDuplicateMovement] at h; exact ih _ _ _ hr hseen h
    | text _ => simp only [firstDuplicateMovement] at h; exact ih _ _ _ hr hseen h
    | mart _ _ _ _ _ => simp only [firstDuplicateMovement] at h; exact ih _ _ _ hr hseen h
    | mapscripts _ => simp only [firstDuplicateMovement] at h; exact ih _ _ _ hr hseen h

theorem dupMov_tin {s : PState} {tops : List Top} {tok : Tok} {name : String} (ht : AllTop T E tops)
    (hst : StOk T E s)
    (h : firstDuplicateMovement (tops ++ s.inlineMovements.map Top.movement) [] = some (tok, name)) :
    Tin T E tok := by
  refine firstDuplicateMovement_tin T E _ [] tok name ?_ (fun _ hp => absurd hp List.not_mem_nil) h
  intro t ht'
  rcases List.mem_append.1 ht' with h1 | h1
  · exact ht t h1
  · obtain ⟨m, hm, rfl⟩ := List.mem_map.1 h1
    exact hst.2.2 m hm


theorem sp_parseProgramM (env : Env) (fuel : Nat) (k : Nat) (s : PState) (hi : Inv T E k s) :
    tri (El T E) (parseProgramM env fuel) s (fun _ _ => True) := by
  unfold parseProgramM
  tstart hi
  apply tri_call
  · exact sp_topLoop T E env fuel fuel [] k s hi (fun t ht => absurd ht List.not_mem_nil)
  · intro a s' hp
    obtain ⟨k', hk, hinv, hr⟩ := hp
    split
    · rename_i t ht
      tsimp
      exact el_tin_of T E (dupText_tin T E hinv.st ht) _
    · split
      · rename_i tok name hm
        tsimp
        exact el_tin_of T E (dupMov_tin T E hr hinv.st hm) _
      · tsimp

end

/-- **Every error value returned by `parseTokens` is located**: its start fields are those of input token
`i`, its end fields those of input token `j`, for some `i ≤ j` (indices `≥ toks.length` stand for the
end-of-input token `toks.getLastD {type := .EOF}`). -/
theorem parseTokens_locAt (env : Env) (toks : List Tok) (e : PErr)
    (h : parseTokens env toks = .error (.err e)) :
    ∃ i j, i ≤ j ∧ LocAt toks (toks.getLastD { type := .EOF }) i j e := by
  unfold parseTokens at h
  simp only [StateT.run'] at h
  generalize hr : (parseProgramM env (4 * toks.length + 50))
    { toks := toks, eof := toks.getLastD { type := .EOF } } = res at h
  cases res with
  | ok r => simp [Functor.map, Except.map] at h
  | error f =>
    simp only [Functor.map, Except.map, Except.error.injEq] at h
    subst h
    have hinv : Inv toks (toks.getLastD { type := .EOF }) 0
        ({ toks := toks, eof := toks.getLastD { type := .EOF } } : PState) :=
      ⟨rfl, rfl, fun _ hx => absurd hx List.not_mem_nil, fun _ hx => absurd hx List.not_mem_nil,
        fun _ hx => absurd hx List.not_mem_nil⟩
    exact tri_error _ (sp_parseProgramM toks _ env _ 0 _ hinv) hr e rfl

end Pory.ErrLoc
