import PoryProofs.TableFacts
import PoryProofs.Properties.C04
/-
Helper lemmas for property C05c ("no generated goto targets the label on the very next line, no
generated sub-label is emitted that nothing refers to").

* §1 `rb_shape`: the lines of `renderBranching` are a prefix `brPre` (test / `switch` / `case`
  lines, independent of the chunk laid out next) followed by exactly one of: a `goto` to the
  chunk's `tailId` (only when that is not the chunk laid out next), a terminator, or nothing
  (fall through, only when the `tailId` IS the chunk laid out next).
* §2 `goto_in_layout`: every `goto_` line of a `layout` is the last branching line of a chunk of
  the order; it is followed by a blank line and the layout of the remaining chunks.
* §3 `tail_follow`: in the optimised order the chunk laid out after `a` is `tailId a` whenever
  that id is a chunk that has not been laid out before.
* §4 `nextVisible`, `nv_layout`: the first line of a layout that is neither blank nor a marker,
  when it is a label line, is the chunk label or a user label of a chunk `c` such that every chunk
  laid out before `c` renders to nothing and the last of them falls through into `c`.
* §5 `no_goto_next_of`: the abstract theorem, for any order with hypothesis `HX`.
* §6 `registered_referenced`: a registered id is named by a jump / case line of the chunk.
-/
namespace Pory.GotoNext
open Pory Pory.Emit Pory.RenderSim

/-! ### 0. list helpers -/

theorem split_mid {α} (A B pre post : List α) (x : α) (h : A ++ B = pre ++ x :: post) :
    (∃ a', A = pre ++ x :: a' ∧ post = a' ++ B) ∨ (∃ p', pre = A ++ p' ∧ B = p' ++ x :: post) := by
  induction A generalizing pre with
  | nil => exact .inr ⟨pre, by simp, by simpa using h⟩
  | cons a A ih =>
    cases pre with
    | nil =>
      simp only [List.cons_append, List.nil_append, List.cons.injEq] at h
      exact .inl ⟨A, by simp [h.1], h.2.symm⟩
    | cons p pre =>
      simp only [List.cons_append, List.cons.injEq] at h
      rcases ih pre h.2 with ⟨a', h1, h2⟩ | ⟨p', h1, h2⟩
      · exact .inl ⟨a', by simp [h.1, h1], h2⟩
      · exact .inr ⟨p', by simp [h.1, h1], h2⟩

theorem unique_split {α} (p : α → Bool) : ∀ (X X' Y Y' : List α) (g g' : α),
    X ++ g :: Y = X' ++ g' :: Y' → (∀ x ∈ X, p x = false) → (∀ y ∈ Y, p y = false) → p g' = true →
    X = X' ∧ g = g' ∧ Y = Y' := by
  intro X
  induction X with
  | nil =>
    intro X' Y Y' g g' h _ hY hg'
    cases X' with
    | nil => simp at h; exact ⟨rfl, h.1, h.2⟩
    | cons x' X'' =>
      simp only [List.nil_append, List.cons_append, List.cons.injEq] at h
      have : g' ∈ Y := by rw [h.2]; simp
      have := hY g' this
      simp [hg'] at this
  | cons x Xs ih =>
    intro X' Y Y' g g' h hX hY hg'
    cases X' with
    | nil =>
      simp only [List.nil_append, List.cons_append, List.cons.injEq] at h
      have := hX x (by simp)
      rw [h.1, hg'] at this
      cases this
    | cons x' X'' =>
      simp only [List.cons_append, List.cons.injEq] at h
      obtain ⟨h1, h2, h3⟩ := ih X'' Y Y' g g' h.2 (fun y hy => hX y (by simp [hy])) hY hg'
      exact ⟨by rw [h.1, h1], h2, h3⟩

/-! ### 1. the shape of `renderBranching` -/

def isGoto : Line → Bool
  | .goto_ _ => true
  | _ => false

/-- neither blank nor a line marker -/
def visible : Line → Bool
  | .blank => false
  | .marker .. => false
  | _ => true

section Shape
variable (o : Opts) (patches : List ((Nat × Nat) × String)) (name : String)

/-- the branching lines before the exit: test lines of a leaf, `switch` / `case` lines -/
def brPre (c : Chunk) : List Line :=
  match c.branch with
  | .leaf t e _ => preambleLines patches e ++ renderBranchComparison o name t e
  | .switch_ op cases _ _ => marker o op ++ [.switch_ op.lit] ++ caseLines o name cases
  | _ => []

/-- the ids registered by the lines of `brPre` -/
def brRegs (c : Chunk) : List Nat :=
  match c.branch with
  | .leaf t _ _ => [t]
  | .switch_ _ cases _ _ => cases.map (·.dest)
  | _ => []

theorem exitTo_shape (dest next : Option Nat) :
    (∃ d, dest = some d ∧ some d ≠ next ∧ exitTo name dest next = ([.goto_ (jumpLabel name d)], [d], false)) ∨
    (dest = none ∧ exitTo name dest next = ([.terminator false], [], false)) ∨
    (dest = next ∧ exitTo name dest next = ([], [], true)) := by
  unfold exitTo
  cases dest with
  | none => exact .inr (.inl ⟨rfl, rfl⟩)
  | some d =>
    by_cases h : some d = next
    · exact .inr (.inr ⟨h, by simp [h]⟩)
    · exact .inl ⟨d, rfl, h, by simp [h]⟩

/-- **Shape of the branching lines.** -/
theorem rb_shape (c : Chunk) (next : Option Nat) :
    (∃ d, tailId c = some d ∧ some d ≠ next ∧
      renderBranching o patches name c next =
        (brPre o patches name c ++ [.goto_ (jumpLabel name d)], brRegs c ++ [d], false)) ∨
    (∃ b, renderBranching o patches name c next =
        (brPre o patches name c ++ [.terminator b], brRegs c, false)) ∨
    (tailId c = next ∧
      renderBranching o patches name c next = (brPre o patches name c, brRegs c, true)) := by
  rw [renderBranching_eq]
  unfold brPre brRegs tailId
  cases hb : c.branch with
  | none =>
    simp only
    cases hr : c.returnID with
    | none => exact .inr (.inl ⟨c.useEndTerminator, by simp⟩)
    | some r =>
      simp only
      rcases exitTo_shape name (some r) next with ⟨d, h1, h2, h3⟩ | ⟨h1, _⟩ | ⟨h1, h3⟩
      · exact .inl ⟨d, h1, h2, by simp [h3]⟩
      · cases h1
      · exact .inr (.inr ⟨h1, by simp [h3]⟩)
  | jump x =>
    simp only
    rcases exitTo_shape name (some x) next with ⟨d, h1, h2, h3⟩ | ⟨h1, _⟩ | ⟨h1, h3⟩
    · exact .inl ⟨d, h1, h2, by simp [h3]⟩
    · cases h1
    · exact .inr (.inr ⟨h1, by simp [h3]⟩)
  | breakCtx x =>
    simp only
    rcases exitTo_shape name x next with ⟨d, h1, h2, h3⟩ | ⟨h1, h3⟩ | ⟨h1, h3⟩
    · exact .inl ⟨d, h1, h2, by simp [h3]⟩
    · exact .inr (.inl ⟨false, by simp [h3]⟩)
    · exact .inr (.inr ⟨h1, by simp [h3]⟩)
  | leaf t e f =>
    simp only [prepend]
    rcases exitTo_shape name f next with ⟨d, h1, h2, h3⟩ | ⟨h1, h3⟩ | ⟨h1, h3⟩
    · exact .inl ⟨d, h1, h2, by simp [h3]⟩
    · exact .inr (.inl ⟨false, by simp [h3]⟩)
    · exact .inr (.inr ⟨h1, by simp [h3]⟩)
  | switch_ op cases dflt dest =>
    simp only [prepend]
    cases dflt with
    | some x =>
      simp only
      rcases exitTo_shape name (some x) next with ⟨d, h1, h2, h3⟩ | ⟨h1, _⟩ | ⟨h1, h3⟩
      · exact .inl ⟨d, h1, h2, by simp [h3]⟩
      · cases h1
      · exact .inr (.inr ⟨h1, by simp [h3]⟩)
    | none =>
      simp only
      by_cases hdn : dest = none ∧ next = none
      · rw [if_pos hdn]
        exact .inr (.inr ⟨by rw [hdn.1, hdn.2], by simp⟩)
      · rw [if_neg hdn]
        rcases exitTo_shape name dest next with ⟨d, h1, h2, h3⟩ | ⟨h1, h3⟩ | ⟨h1, h3⟩
        · exact .inl ⟨d, h1, h2, by simp [h3]⟩
        · exact .inr (.inl ⟨false, by simp [h3]⟩)
        · exact .inr (.inr ⟨h1, by simp [h3]⟩)

theorem marker_invisible (t : Tok) : ∀ l ∈ marker o t, visible l = false := by
  unfold marker; split <;> simp [visible]

theorem marker_noGoto (t : Tok) : ∀ l ∈ marker o t, isGoto l = false := by
  unfold marker; split <;> simp [isGoto]

theorem rbc_noGoto (t : Nat) (e : OpExpr) :
    ∀ l ∈ renderBranchComparison o name t e, isGoto l = false := by
  intro l hl
  unfold renderBranchComparison at hl
  simp only [List.mem_append] at hl
  rcases hl with hl | hl
  · exact marker_noGoto o _ l hl
  · split at hl
    · split at hl <;> simp at hl <;> subst hl <;> rfl
    · simp only [List.mem_append, List.mem_singleton] at hl
      rcases hl with rfl | hl
      · rfl
      · split at hl
        · simp at hl; subst hl; rfl
        · simp at hl
    · simp at hl; rcases hl with rfl | rfl <;> rfl
    · simp at hl

theorem caseLines_noGoto (cases : List SwitchCaseBranch) :
    ∀ l ∈ caseLines o name cases, isGoto l = false := by
  intro l hl
  unfold caseLines at hl
  simp only [List.mem_flatMap, List.mem_append, List.mem_singleton] at hl
  obtain ⟨sc, _, h | h⟩ := hl
  · exact marker_noGoto o _ l h
  · subst h; rfl

theorem brPre_noGoto (c : Chunk) : ∀ l ∈ brPre o patches name c, isGoto l = false := by
  intro l hl
  unfold brPre at hl
  split at hl
  · simp only [List.mem_append] at hl
    rcases hl with hl | hl
    · unfold preambleLines at hl
      split at hl
      · simp [renderCommand] at hl; subst hl; rfl
      · simp at hl
    · exact rbc_noGoto o name _ _ l hl
  · simp only [List.mem_append, List.mem_singleton] at hl
    rcases hl with (hl | rfl) | hl
    · exact marker_noGoto o _ l hl
    · rfl
    · exact caseLines_noGoto o name _ l hl
  · simp at hl

theorem stmtLines_noGoto (ss : List Stmt) : ∀ l ∈ stmtLines o patches ss, isGoto l = false := by
  induction ss with
  | nil => simp [stmtLines]
  | cons s r ih =>
    intro l hl
    cases s with
    | cmd c =>
      simp only [stmtLines, List.mem_append, List.mem_singleton] at hl
      rcases hl with (hl | rfl) | hl
      · exact marker_noGoto o _ l hl
      · rfl
      · exact ih l hl
    | label tok n g =>
      simp only [stmtLines, List.mem_append, List.mem_singleton] at hl
      rcases hl with (hl | rfl) | hl
      · exact marker_noGoto o _ l hl
      · rfl
      · exact ih l hl
    | ite => exact ih l (by simpa [stmtLines] using hl)
    | while_ => exact ih l (by simpa [stmtLines] using hl)
    | doWhile => exact ih l (by simpa [stmtLines] using hl)
    | brk => exact ih l (by simpa [stmtLines] using hl)
    | cont => exact ih l (by simpa [stmtLines] using hl)
    | switch_ => exact ih l (by simpa [stmtLines] using hl)

end Shape

/-! ### 2. where a `goto_` line of a layout comes from -/

section Layout
variable (o : Opts) (patches : List ((Nat × Nat) × String)) (name : String) (G : List Chunk)
  (isGlobal : Bool)

theorem lbl_noGoto (jumps : List Nat) (id : Nat) : ∀ l ∈ lbl name isGlobal jumps id, isGoto l = false := by
  intro l hl
  unfold lbl at hl
  split at hl
  · simp at hl; subst hl; rfl
  · simp at hl

/-- The lines of one chunk of a layout. -/
def piece (jumps : List Nat) (id : Nat) (next : Option Nat) : List Line :=
  lbl name isGlobal jumps id ++ bodyOf o patches name (chunkOf G id) next

theorem layout_cons' (jumps : List Nat) (id : Nat) (rest : List Nat) :
    layout o patches name G isGlobal jumps (id :: rest) =
      piece o patches name G isGlobal jumps id rest.head? ++ layout o patches name G isGlobal jumps rest := by
  rw [layout_cons, piece]

/-- A `goto_` line inside the lines of one chunk is the chunk's exit `goto`. -/
theorem goto_in_piece (jumps : List Nat) (id : Nat) (next : Option Nat) (pre a' : List Line) (L : String)
    (h : piece o patches name G isGlobal jumps id next = pre ++ .goto_ L :: a') :
    ∃ d, tailId (chunkOf G id) = some d ∧ some d ≠ next ∧ L = jumpLabel name d ∧ a' = [.blank] := by
  unfold piece bodyOf at h
  have hl := lbl_noGoto name isGlobal jumps id
  have hs := stmtLines_noGoto o patches (chunkOf G id).statements
  have hp := brPre_noGoto o patches name (chunkOf G id)
  rcases rb_shape o patches name (chunkOf G id) next with ⟨d, h1, h2, h3⟩ | ⟨b, h3⟩ | ⟨h1, h3⟩
  · rw [h3] at h
    simp only [Bool.false_eq_true, if_false] at h
    have h' : (lbl name isGlobal jumps id ++ stmtLines o patches (chunkOf G id).statements ++
        brPre o patches name (chunkOf G id)) ++ Line.goto_ (jumpLabel name d) :: [Line.blank] =
        pre ++ Line.goto_ L :: a' := by
      rw [← h]; simp [List.append_assoc]
    obtain ⟨_, e2, e3⟩ := unique_split isGoto _ _ _ _ _ _ h'
      (by
        intro x hx
        simp only [List.mem_append] at hx
        rcases hx with (hx | hx) | hx
        · exact hl x hx
        · exact hs x hx
        · exact hp x hx)
      (by simp [isGoto]) rfl
    injection e2 with e2
    exact ⟨d, h1, h2, e2.symm, e3.symm⟩
  · exfalso
    rw [h3] at h
    simp only [Bool.false_eq_true, if_false] at h
    have hm : Line.goto_ L ∈ lbl name isGlobal jumps id ++ (stmtLines o patches (chunkOf G id).statements ++
        (brPre o patches name (chunkOf G id) ++ [Line.terminator b]) ++ [Line.blank]) := by
      rw [h]; simp
    simp only [List.mem_append, List.mem_singleton] at hm
    rcases hm with hm | ((hm | hm | hm) | hm)
    · have := hl _ hm; simp [isGoto] at this
    · have := hs _ hm; simp [isGoto] at this
    · have := hp _ hm; simp [isGoto] at this
    · cases hm
    · cases hm
  · exfalso
    rw [h3] at h
    simp only [if_true] at h
    have hm : Line.goto_ L ∈ lbl name isGlobal jumps id ++ (stmtLines o patches (chunkOf G id).statements ++
        brPre o patches name (chunkOf G id) ++ []) := by
      rw [h]; simp
    simp only [List.mem_append, List.append_nil] at hm
    rcases hm with hm | hm | hm
    · have := hl _ hm; simp [isGoto] at this
    · have := hs _ hm; simp [isGoto] at this
    · have := hp _ hm; simp [isGoto] at this

/-- **Every `goto_` line of a layout** is the exit `goto` of a chunk `k` of the order towards its
`tailId`, which is not the chunk laid out next; it is followed by a blank line and the layout of
the remaining chunks. -/
theorem goto_in_layout (jumps : List Nat) : ∀ (order : List Nat) (pre post : List Line) (L : String),
    layout o patches name G isGlobal jumps order = pre ++ .goto_ L :: post →
    ∃ opre k orest d, order = opre ++ k :: orest ∧ tailId (chunkOf G k) = some d ∧
      some d ≠ orest.head? ∧ L = jumpLabel name d ∧
      post = .blank :: layout o patches name G isGlobal jumps orest := by
  intro order
  induction order with
  | nil => intro pre post L h; simp [layout] at h
  | cons id rest ih =>
    intro pre post L h
    rw [layout_cons'] at h
    rcases split_mid _ _ _ _ _ h with ⟨a', h1, h2⟩ | ⟨p', h1, h2⟩
    · obtain ⟨d, hd1, hd2, hd3, hd4⟩ := goto_in_piece o patches name G isGlobal jumps id _ pre a' L h1
      refine ⟨[], id, rest, d, rfl, hd1, hd2, hd3, ?_⟩
      rw [h2, hd4]; rfl
    · obtain ⟨opre, k, orest, d, e1, e2, e3, e4, e5⟩ := ih p' post L h2
      exact ⟨id :: opre, k, orest, d, by rw [e1]; rfl, e2, e3, e4, e5⟩

end Layout

/-! ### 3. the optimised order follows tails -/

/-- In `order`, the chunk laid out after `a` is the tail `t` of `a` whenever `t` is a chunk id
that has not been laid out up to `a`. -/
def TailFollow (G : List Chunk) (ids order : List Nat) : Prop :=
  ∀ pre a b rest, order = pre ++ a :: b :: rest → ∀ c, findChunk G a = some c →
    ∀ t, tailId c = some t → t ∈ ids → t ∉ pre → t ≠ a → b = t

theorem TailFollow.step {G : List Chunk} {ids order : List Nat} {x : Nat} (h : TailFollow G ids order)
    (hx : ∀ pre a, order = pre ++ [a] → ∀ c, findChunk G a = some c →
      ∀ t, tailId c = some t → t ∈ ids → t ∉ pre → t ≠ a → x = t) :
    TailFollow G ids (order ++ [x]) := by
  intro pre a b rest he c hc t ht hti htp hta
  rcases List.eq_nil_or_concat rest with hr | ⟨rest', y, hr⟩
  · subst hr
    have he' : order ++ [x] = (pre ++ [a]) ++ [b] := by rw [he]; simp
    obtain ⟨e1, e2⟩ := List.append_inj' he' rfl
    simp only [List.cons.injEq, and_true] at e2
    subst e2
    exact hx pre a e1 c hc t ht hti htp hta
  · subst hr
    have he' : order ++ [x] = (pre ++ a :: b :: rest') ++ [y] := by rw [he]; simp
    obtain ⟨e1, _⟩ := List.append_inj' he' rfl
    exact h pre a b rest' e1 c hc t ht hti htp hta

theorem optimizeLoop_tailFollow (chunks : List Chunk) (ids : List Nat) :
    ∀ (n : Nat) (order unv : List Nat) (i : Nat) (res : List Nat),
      (order ++ unv).Perm ids → TailFollow chunks ids order →
      optimizeLoop chunks ids.length n order unv i = .ok res → TailFollow chunks ids res := by
  intro n
  induction n with
  | zero => intro order unv i res _ _ h; rw [optimizeLoop] at h; cases h
  | succ n ih =>
    intro order unv i res hperm htf h
    have hstepPerm : ∀ x ∈ unv, ((order ++ [x]) ++ unv.erase x).Perm ids := by
      intro x hx
      rw [List.append_assoc]
      refine List.Perm.trans ?_ hperm
      exact List.Perm.append_left order (List.perm_cons_erase hx).symm
    rw [optimizeLoop] at h
    split at h
    · split at h
      · cases h
      · rename_i last hlast
        split at h
        · cases h
        · rename_i cur hcur
          -- picking the smallest unvisited id is only done when the tail is not available
          have hpick : (∀ t, tailId cur = some t → t ∉ unv) →
              optimizeLoop.pick chunks ids.length n order unv i = .ok res → TailFollow chunks ids res := by
            intro hno h
            rw [optimizeLoop.pick] at h
            split at h
            · rename_i j i' hs
              have hj := C05.scanUnvisited_mem _ _ _ _ _ _ hs
              refine ih _ _ _ _ (hstepPerm j hj) (htf.step ?_) h
              intro pre a he c hc t ht hti htp hta
              exfalso
              have hla : last = a := by
                rw [he] at hlast; simpa using hlast.symm
              subst hla
              rw [hcur] at hc
              injection hc with hc
              subst hc
              have : t ∈ order ++ unv := hperm.mem_iff.2 hti
              rw [he] at this
              simp only [List.mem_append, List.mem_singleton] at this
              rcases this with (h1 | h1) | h1
              · exact htp h1
              · exact hta h1
              · exact hno t ht h1
            · cases h
          simp only at h
          split at h
          · rename_i nx hnx
            split at h
            · rename_i hc
              have hnxu : nx ∈ unv := by simpa using hc
              refine ih _ _ _ _ (hstepPerm nx hnxu) (htf.step ?_) h
              intro pre a he c hc' t ht _ _ _
              have hla : last = a := by
                rw [he] at hlast; simpa using hlast.symm
              subst hla
              rw [hcur] at hc'
              injection hc' with hc'
              subst hc'
              rw [hnx] at ht
              injection ht
            · rename_i hc
              refine hpick ?_ h
              intro t ht
              rw [hnx] at ht
              injection ht with ht
              subst ht
              simpa using hc
          · rename_i hnx
            refine hpick ?_ h
            intro t ht
            rw [hnx] at ht
            cases ht
    · injection h with h
      subst h
      exact htf

/-- **The optimised order follows tails.** -/
theorem tail_follow (G : List Chunk) (order : List Nat) (h0 : 0 ∈ G.map (·.id))
    (h : optimizeChunkOrder G = .ok order) : TailFollow G (G.map (·.id)) order := by
  unfold optimizeChunkOrder at h
  split at h
  · injection h with h
    subst h
    intro pre a b rest he
    simp at he
  · simp only at h
    have hl : G.length = (G.map (·.id)).length := by simp
    rw [hl] at h
    refine optimizeLoop_tailFollow G (G.map (·.id)) _ _ _ _ _ ?_ ?_ h
    · exact (List.perm_cons_erase h0).symm
    · intro pre a b rest he
      have := congrArg List.length he
      simp at this
      omega

/-- Non-vacuity: `C05.demoChunks` (order `[0, 2, 1]`: chunk 2 is the tail of chunk 0). -/
example : TailFollow C05.demoChunks (C05.demoChunks.map (·.id)) [0, 2, 1] :=
  tail_follow C05.demoChunks [0, 2, 1] (by decide) C05.demoChunks_order

/-! ### 4. the next visible line -/

/-- The first line that is neither blank nor a line marker. -/
def nextVisible (ls : List Line) : Option Line := ls.find? visible

theorem tailId_mem_targets {c : Chunk} {d : Nat} (h : tailId c = some d) : d ∈ targets c := by
  unfold tailId at h
  unfold targets
  split at h <;> simp_all

section NV
variable (o : Opts) (patches : List ((Nat × Nat) × String)) (name : String) (G : List Chunk)
  (isGlobal : Bool)

/-- a label line among the lines of one chunk is the chunk's label or one of its user labels -/
theorem label_in_piece (jumps : List Nat) (id : Nat) (next : Option Nat) (L : String) (g : Bool)
    (h : Line.labelDef L g ∈ piece o patches name G isGlobal jumps id next) :
    L = chunkLabel name id ∨ (L, g) ∈ stmtLabels (chunkOf G id).statements := by
  have hm : (L, g) ∈ labelsOf (piece o patches name G isGlobal jumps id next) := by
    unfold labelsOf
    exact List.mem_filterMap.2 ⟨_, h, rfl⟩
  unfold piece at hm
  rw [labelsOf_append, labelsOf_bodyOf, List.mem_append] at hm
  rcases hm with hm | hm
  · left
    unfold lbl at hm
    split at hm
    · simp [labelsOf_cons, labelOf] at hm
      exact hm.1
    · simp at hm
  · exact .inr hm

/-- a chunk that renders to nothing visible falls through into the chunk laid out next -/
theorem invisible_piece (jumps : List Nat) (id : Nat) (next : Option Nat)
    (h : ∀ l ∈ piece o patches name G isGlobal jumps id next, visible l = false) :
    tailId (chunkOf G id) = next := by
  unfold piece bodyOf at h
  rcases rb_shape o patches name (chunkOf G id) next with ⟨d, _, _, h3⟩ | ⟨b, h3⟩ | ⟨h1, _⟩
  · exfalso
    rw [h3] at h
    have := h (.goto_ (jumpLabel name d)) (by simp)
    simp [visible] at this
  · exfalso
    rw [h3] at h
    have := h (.terminator b) (by simp)
    simp [visible] at this
  · exact h1

theorem nv_layout (jumps : List Nat) : ∀ (orest : List Nat) (L : String) (g : Bool),
    nextVisible (layout o patches name G isGlobal jumps orest) = some (.labelDef L g) →
    ∃ mid c rest', orest = mid ++ c :: rest' ∧
      (mid = [] ∨ ∃ m' b, mid = m' ++ [b] ∧ tailId (chunkOf G b) = some c) ∧
      (L = chunkLabel name c ∨ (L, g) ∈ stmtLabels (chunkOf G c).statements) := by
  intro orest
  induction orest with
  | nil => intro L g h; simp [layout, nextVisible] at h
  | cons id rest ih =>
    intro L g h
    rw [layout_cons'] at h
    unfold nextVisible at h
    rw [List.find?_append] at h
    cases hp : (piece o patches name G isGlobal jumps id rest.head?).find? visible with
    | some v =>
      rw [hp] at h
      simp only [Option.some_or, Option.some.injEq] at h
      subst h
      have hm := List.mem_of_find?_eq_some hp
      exact ⟨[], id, rest, rfl, .inl rfl, label_in_piece o patches name G isGlobal jumps id _ L g hm⟩
    | none =>
      rw [hp] at h
      simp only [Option.none_or] at h
      obtain ⟨mid, c, rest', e1, e2, e3⟩ := ih L g h
      have hinv : ∀ l ∈ piece o patches name G isGlobal jumps id rest.head?, visible l = false := by
        intro l hl
        have := List.find?_eq_none.1 hp l hl
        simpa using this
      have htail := invisible_piece o patches name G isGlobal jumps id _ hinv
      refine ⟨id :: mid, c, rest', by rw [e1]; rfl, .inr ?_, e3⟩
      rcases e2 with rfl | ⟨m', b, rfl, hb⟩
      · refine ⟨[], id, rfl, ?_⟩
        rw [htail, e1]; rfl
      · exact ⟨id :: m', b, rfl, hb⟩

/-! ### 5. the abstract theorem -/

/-- **No `goto` to the label on the next visible line**, for a layout of a closed, hygienic chunk
table in any order such that (`HX`) a chunk laid out after `k` — but not directly after it — that
falls through into the tail of `k` does not exist. -/
theorem no_goto_next_of (jumps order : List Nat) (lines : List Line)
    (hls : lines = layout o patches name G isGlobal jumps order)
    (hcl : Closed G)
    (hfound : ∀ id ∈ order, findChunk G id = some (chunkOf G id))
    (hhyg : ∀ id ∈ order, ∀ n ∈ stmtLabels (chunkOf G id).statements,
      n.1 ∉ G.map (fun c => chunkLabel name c.id))
    (HX : ∀ opre k mid b c rest', order = opre ++ k :: (mid ++ b :: c :: rest') →
      tailId (chunkOf G k) = some c → tailId (chunkOf G b) ≠ some c) :
    ∀ pre post L, lines = pre ++ .goto_ L :: post → ∀ g, nextVisible post ≠ some (.labelDef L g) := by
  intro pre post L hsplit g hnv
  rw [hls] at hsplit
  obtain ⟨opre, k, orest, d, hord, htail, hnext, hL, hpost⟩ :=
    goto_in_layout o patches name G isGlobal jumps order pre post L hsplit
  have hk : k ∈ order := by rw [hord]; simp
  have hkG : chunkOf G k ∈ G := List.mem_of_find?_eq_some (hfound k hk)
  obtain ⟨hd0, hdG⟩ := hcl _ hkG d (tailId_mem_targets htail)
  have hjl : jumpLabel name d = chunkLabel name d := by simp [chunkLabel, jumpLabel, hd0]
  have hnv' : nextVisible (layout o patches name G isGlobal jumps orest) = some (.labelDef L g) := by
    rw [hpost] at hnv
    simpa [nextVisible, visible] using hnv
  obtain ⟨mid, c, rest', e1, e2, e3⟩ := nv_layout o patches name G isGlobal jumps orest L g hnv'
  rcases e3 with e3 | e3
  · -- the label line is the chunk label of `c`
    have hcd : c = d := labelsInjective name c d (by rw [← e3, hL, hjl])
    subst hcd
    rcases e2 with rfl | ⟨m', b, rfl, hb⟩
    · apply hnext
      rw [e1]; rfl
    · refine HX opre k m' b c rest' ?_ htail hb
      rw [hord, e1]; simp
  · -- the label line is a user label
    have hc : c ∈ order := by rw [hord, e1]; simp
    refine hhyg c hc _ e3 ?_
    obtain ⟨c', hc', hid⟩ := List.mem_map.1 hdG
    refine List.mem_map.2 ⟨c', hc', ?_⟩
    simp only
    rw [hid, ← hjl, ← hL]

end NV

/-! ### 6. a registered id is named by a generated jump / case line -/

/-- The test of this leaf renders a conditional jump (true of every leaf the parser builds:
`wellFormed_refLeaf`). -/
def RefLeaf (e : OpExpr) : Prop :=
  e.type = .FLAG ∨ e.type = .DEFEATED ∨
    (e.type = .VAR ∧ (Facts.varCompareOpcode.lookup e.operator).isSome = true)

theorem wellFormed_refLeaf (e : OpExpr) (h : Spec.WellFormedLeaf e) : RefLeaf e := by
  rcases h with ⟨h1, h2⟩ | ⟨h1 | h1, _⟩
  · refine .inr (.inr ⟨h1, ?_⟩)
    revert h2
    cases e.operator <;> decide
  · exact .inl h1
  · exact .inr (.inl h1)

section Refs
variable (o : Opts) (patches : List ((Nat × Nat) × String)) (name : String)

theorem mem_refsOf {ls : List Line} {x : String} : x ∈ C04.refsOf ls ↔ ∃ l ∈ ls, C04.refOf l = some x := by
  unfold C04.refsOf
  exact List.mem_filterMap

theorem rbc_ref (t : Nat) (e : OpExpr) (h : RefLeaf e) :
    jumpLabel name t ∈ C04.refsOf (renderBranchComparison o name t e) := by
  unfold renderBranchComparison
  rw [C04.refsOf_append, C04.refsOf_marker, List.nil_append]
  rcases h with h | h | ⟨h, h2⟩
  · rw [h]; simp only
    split <;> simp [C04.refsOf, C04.refOf]
  · rw [h]; simp [C04.refsOf, C04.refOf]
  · rw [h]; simp only
    rw [if_pos h2]
    simp [C04.refsOf, C04.refOf]

theorem brRegs_ref (c : Chunk) (hleaf : ∀ t e f, c.branch = .leaf t e f → RefLeaf e) :
    ∀ d ∈ brRegs c, jumpLabel name d ∈ C04.refsOf (brPre o patches name c) := by
  intro d hd
  unfold brRegs at hd
  unfold brPre
  cases hb : c.branch with
  | leaf t e f =>
    rw [hb] at hd
    simp only [List.mem_singleton] at hd
    subst hd
    simp only
    rw [C04.refsOf_append]
    exact List.mem_append_right _ (rbc_ref o name d e (hleaf d e f hb))
  | switch_ op cases dflt dest =>
    rw [hb] at hd
    simp only at hd ⊢
    rw [C04.refsOf_append]
    refine List.mem_append_right _ ?_
    unfold caseLines
    rw [C04.refsOf_case_lines]
    obtain ⟨sc, hsc, rfl⟩ := List.mem_map.1 hd
    exact List.mem_map.2 ⟨sc, hsc, rfl⟩
  | none => rw [hb] at hd; simp at hd
  | jump x => rw [hb] at hd; simp at hd
  | breakCtx x => rw [hb] at hd; simp at hd

/-- **Registered ⇒ referenced**: every id a chunk registers as a jump target is named by one of
the generated jump / `case` lines of that chunk (for leaves whose test renders a jump). -/
theorem registered_referenced (c : Chunk) (next : Option Nat)
    (hleaf : ∀ t e f, c.branch = .leaf t e f → RefLeaf e) :
    ∀ d ∈ (renderBranching o patches name c next).2.1,
      jumpLabel name d ∈ C04.refsOf (renderBranching o patches name c next).1 := by
  intro d hd
  have hr := brRegs_ref o patches name c hleaf
  rcases rb_shape o patches name c next with ⟨d', _, _, h3⟩ | ⟨b, h3⟩ | ⟨_, h3⟩
  · rw [h3] at hd ⊢
    simp only [List.mem_append, List.mem_singleton] at hd
    rw [C04.refsOf_append]
    rcases hd with hd | rfl
    · exact List.mem_append_left _ (hr d hd)
    · exact List.mem_append_right _ (by simp [C04.refsOf, C04.refOf])
  · rw [h3] at hd ⊢
    rw [C04.refsOf_append]
    exact List.mem_append_left _ (hr d hd)
  · rw [h3] at hd ⊢
    exact hr d hd

variable (G : List Chunk) (isGlobal : Bool)

theorem mem_layout (jumps : List Nat) : ∀ (order : List Nat) (l : Line),
    l ∈ layout o patches name G isGlobal jumps order ↔
      ∃ pre id rest, order = pre ++ id :: rest ∧ l ∈ piece o patches name G isGlobal jumps id rest.head? := by
  intro order
  induction order with
  | nil => intro l; simp [layout]
  | cons id rest ih =>
    intro l
    rw [layout_cons', List.mem_append, ih]
    constructor
    · rintro (h | ⟨pre, id', rest', e, h⟩)
      · exact ⟨[], id, rest, rfl, h⟩
      · exact ⟨id :: pre, id', rest', by rw [e]; rfl, h⟩
    · rintro ⟨pre, id', rest', e, h⟩
      cases pre with
      | nil =>
        simp only [List.nil_append, List.cons.injEq] at e
        obtain ⟨rfl, rfl⟩ := e
        exact .inl h
      | cons p pre =>
        simp only [List.cons_append, List.cons.injEq] at e
        exact .inr ⟨pre, id', rest', e.2, h⟩

/-- a registered id of the order is named by a jump / case line of the layout -/
theorem regsOf_referenced (jumps : List Nat) : ∀ (order : List Nat),
    (∀ id ∈ order, ∀ t e f, (chunkOf G id).branch = .leaf t e f → RefLeaf e) →
    ∀ d ∈ regsOf o patches name G order,
      ∃ l ∈ layout o patches name G isGlobal jumps order, C04.refOf l = some (jumpLabel name d) := by
  intro order
  induction order with
  | nil => intro _ d hd; simp [regsOf] at hd
  | cons id rest ih =>
    intro hleaf d hd
    simp only [regsOf, List.mem_append] at hd
    rcases hd with hd | hd
    · have := registered_referenced o patches name (chunkOf G id) rest.head?
        (hleaf id (by simp)) d hd
      obtain ⟨l, hl, hr⟩ := mem_refsOf.1 this
      refine ⟨l, ?_, hr⟩
      rw [layout_cons]
      unfold bodyOf
      simp only [List.mem_append]
      exact .inl (.inr (.inl (.inr hl)))
    · obtain ⟨l, hl, hr⟩ := ih (fun x hx => hleaf x (by simp [hx])) d hd
      refine ⟨l, ?_, hr⟩
      rw [layout_cons]
      exact List.mem_append_right _ hl

/-- a label line among the lines of one chunk is the chunk's label — then the chunk is the entry
or registered — or one of its user labels -/
theorem label_in_piece' (jumps : List Nat) (id : Nat) (next : Option Nat) (L : String) (g : Bool)
    (h : Line.labelDef L g ∈ piece o patches name G isGlobal jumps id next) :
    (L = chunkLabel name id ∧ (id = 0 ∨ id ∈ jumps)) ∨ (L, g) ∈ stmtLabels (chunkOf G id).statements := by
  have hm : (L, g) ∈ labelsOf (piece o patches name G isGlobal jumps id next) := by
    unfold labelsOf
    exact List.mem_filterMap.2 ⟨_, h, rfl⟩
  unfold piece at hm
  rw [labelsOf_append, labelsOf_bodyOf, List.mem_append] at hm
  rcases hm with hm | hm
  · left
    unfold lbl at hm
    split at hm
    · rename_i hc
      simp [labelsOf_cons, labelOf] at hm
      exact ⟨hm.1, by simpa using hc⟩
    · simp at hm
  · exact .inr hm

/-- **No unreferenced sub-label**, abstractly: in the layout of a hygienic chunk table whose
label set is the set of registered ids, a label line `name_<id>` for a chunk id `id ≠ 0` of the
table comes with a generated jump / case line naming it. -/
theorem sub_label_referenced_of (order : List Nat) (lines : List Line)
    (hls : lines = layout o patches name G isGlobal (regsOf o patches name G order) order)
    (hhyg : ∀ id ∈ order, ∀ n ∈ stmtLabels (chunkOf G id).statements,
      n.1 ∉ G.map (fun c => chunkLabel name c.id))
    (hleaf : ∀ id ∈ order, ∀ t e f, (chunkOf G id).branch = .leaf t e f → RefLeaf e) :
    ∀ id g, id ≠ 0 → id ∈ G.map (·.id) → Line.labelDef (jumpLabel name id) g ∈ lines →
      ∃ l ∈ lines, C04.refOf l = some (jumpLabel name id) := by
  intro id g hid0 hidG hmem
  rw [hls] at hmem ⊢
  have hjl : jumpLabel name id = chunkLabel name id := by simp [chunkLabel, jumpLabel, hid0]
  obtain ⟨pre, c, rest, hord, hp⟩ := (mem_layout o patches name G isGlobal _ order _).1 hmem
  have hc : c ∈ order := by rw [hord]; simp
  rcases label_in_piece' o patches name G isGlobal _ c _ _ g hp with ⟨h1, h2⟩ | h
  · have hcid : c = id := labelsInjective name c id (by rw [← h1, hjl])
    subst hcid
    rcases h2 with h2 | h2
    · exact absurd h2 hid0
    · exact regsOf_referenced o patches name G isGlobal _ order hleaf c h2
  · exfalso
    refine hhyg c hc _ h ?_
    obtain ⟨c', hc', hid'⟩ := List.mem_map.1 hidG
    refine List.mem_map.2 ⟨c', hc', ?_⟩
    simp only
    rw [hid', ← hjl]

end Refs

end Pory.GotoNext
