import PoryProofs.PorySelectProof
/-
C12c helpers, part 3:
* `elabL_cl` (and companions): a block that elaborates obeys the `continue` rule `clL`;
* `mapS / mapL / … f g` (renumber command ids by `f`, scope ids by `g`), `mapImp f`, and
  `RelL.map_eq`: a correspondence contained in the graphs of `f`, `g` is the renumbering by `f`, `g`;
* `Ren.cf / Ren.sf`: functions chosen from a correspondence.
-/
namespace Pory.C12c
open Pory Pory.Parser Pory.C02P Pory.C10b Pory.SwitchParse Pory.StmtG
open Pory.C14b (swVal)
open Pory.C10c

section
variable (env : Env) (sn : String) (σ : String → String)

mutual
theorem elabS_cl : ∀ (x : SStmt) (B C : List Nat) (nx : Bool) (sid cid : Nat)
    (r : List Stmt × ImpData × Nat × Nat), elabS env sn σ B C nx x sid cid = .ok r → clS nx x = true
  | .cmd .., _, _, _, _, _, _, _ => by rw [clS]
  | .cmdI .., _, _, _, _, _, _, _ => by rw [clS]
  | .cmdE .., _, _, _, _, _, _, _ => by rw [clS]
  | .cmd0 _, _, _, _, _, _, _, _ => by rw [clS]
  | .label .., _, _, _, _, _, _, _ => by rw [clS]
  | .labelS .., _, _, _, _, _, _, _ => by rw [clS]
  | .brk _, _, _, _, _, _, _, _ => by rw [clS]
  | .cont t, B, C, nx, sid, cid, r, h => by
    rw [clS]
    cases C with
    | nil => rw [elabS] at h; simp at h
    | cons c Ct =>
      cases nx with
      | false => rw [elabS] at h; simp at h
      | true => rfl
  | .ite i lp c rp lb body rb elifs els, B, C, nx, sid, cid, r, h => by
    rw [elabS] at h
    cases hc : elabCond env σ c cid with
    | error e => simp [hc] at h
    | ok q =>
      obtain ⟨t, cid0⟩ := q
      simp only [hc] at h
      cases hb : elabL env sn σ B C true body sid cid0 with
      | error e => simp [hb] at h
      | ok q2 =>
        obtain ⟨b, m1, s1, c1⟩ := q2
        simp only [hb] at h
        cases hes : elabElifs env sn σ B C elifs s1 c1 with
        | error e => simp [hes] at h
        | ok q3 =>
          obtain ⟨es, m2, s2, c2⟩ := q3
          simp only [hes] at h
          cases hel : elabElse env sn σ B C els s2 c2 with
          | error e => simp [hel] at h
          | ok q4 =>
            rw [clS, elabL_cl body _ _ _ _ _ _ hb, elabElifs_cl elifs _ _ _ _ _ hes,
              elabElse_cl els _ _ _ _ _ hel]
            rfl
  | .while_ w lp c rp lb body rb, B, C, nx, sid, cid, r, h => by
    rw [elabS] at h
    cases hc : elabCond env σ c cid with
    | error e => simp [hc] at h
    | ok q =>
      obtain ⟨t, cid0⟩ := q
      simp only [hc] at h
      cases hb : elabL env sn σ (sid :: B) (sid :: C) true body (sid + 1) cid0 with
      | error e => simp [hb] at h
      | ok q2 => rw [clS, elabL_cl body _ _ _ _ _ _ hb]
  | .whileInf w lb body rb, B, C, nx, sid, cid, r, h => by
    rw [elabS] at h
    cases hb : elabL env sn σ (sid :: B) (sid :: C) true body (sid + 1) cid with
    | error e => simp [hb] at h
    | ok q2 => rw [clS, elabL_cl body _ _ _ _ _ _ hb]
  | .doWhile d lb body rb w lp c rp, B, C, nx, sid, cid, r, h => by
    rw [elabS] at h
    cases hb : elabL env sn σ (sid :: B) (sid :: C) true body (sid + 1) cid with
    | error e => simp [hb] at h
    | ok q2 => rw [clS, elabL_cl body _ _ _ _ _ _ hb]
  | .switch_ sw lp v lp2 ops rp2 rp lb cases rb, B, C, nx, sid, cid, r, h => by
    rw [elabS] at h
    cases hcs : elabCases env sn σ (sid :: B) C cases [] false (sid + 1) cid with
    | error e => simp [hcs] at h
    | ok q => rw [clS, elabCases_cl cases _ _ _ _ _ _ _ hcs]
  | .switchA sw lp name lp2 a0 more rp2 rp lb cases rb, B, C, nx, sid, cid, r, h => by
    rw [elabS] at h
    cases hl : env.autoVars.lookup name.lit with
    | none => simp [hl] at h
    | some av =>
      simp only [hl] at h
      cases hp : autoPosBad av (more.length + 1) with
      | some pos => simp [hp] at h
      | none =>
        simp only [hp] at h
        cases hcs : elabCases env sn σ (sid :: B) C cases [] false (sid + 1) (cid + 1) with
        | error e => simp [hcs] at h
        | ok q => rw [clS, elabCases_cl cases _ _ _ _ _ _ _ hcs]
  | .pory ps lp x rp lb cases rb, B, C, nx, sid, cid, r, h => by
    rw [elabS] at h
    cases h1 : (env.envErrors && env.switches.isEmpty) with
    | true => rw [h1] at h; simp at h
    | false =>
      rw [h1] at h
      cases h2 : (env.envErrors && (env.switches.lookup x.lit).isNone) with
      | true => rw [h2] at h; simp at h
      | false =>
        rw [h2] at h
        simp only [Bool.false_eq_true, if_false] at h
        cases hp : elabPCases env sn σ B C cases [] sid cid with
        | error e => simp [hp] at h
        | ok q => rw [clS, elabPCases_cl cases _ _ _ _ _ _ hp]
theorem elabL_cl : ∀ (b : List SStmt) (B C : List Nat) (last : Bool) (sid cid : Nat)
    (r : List Stmt × ImpData × Nat × Nat), elabL env sn σ B C last b sid cid = .ok r → clL last b = true
  | [], _, _, _, _, _, _, _ => by rw [clL]
  | x :: rest, B, C, last, sid, cid, r, h => by
    rw [elabL_cons] at h
    cases hx : elabS env sn σ B C (rest.isEmpty && last) x sid cid with
    | error e => simp [hx] at h
    | ok q =>
      obtain ⟨a1, m1, s1, c1⟩ := q
      simp only [hx] at h
      cases hr : elabL env sn σ B C last rest s1 c1 with
      | error e => simp [hr] at h
      | ok q2 => rw [clL, elabS_cl x _ _ _ _ _ _ hx, elabL_cl rest _ _ _ _ _ _ hr]; rfl
theorem elabElifs_cl : ∀ (es : List SElif) (B C : List Nat) (sid cid : Nat)
    (r : List (BoolExpr × List Stmt) × ImpData × Nat × Nat),
    elabElifs env sn σ B C es sid cid = .ok r → clElifs es = true
  | [], _, _, _, _, _, _ => by rw [clElifs]
  | .mk e lp c rp lb body rb :: rest, B, C, sid, cid, r, h => by
    rw [elabElifs] at h
    cases hc : elabCond env σ c cid with
    | error e => simp [hc] at h
    | ok q =>
      obtain ⟨t, cid0⟩ := q
      simp only [hc] at h
      cases hb : elabL env sn σ B C true body sid cid0 with
      | error e => simp [hb] at h
      | ok q2 =>
        obtain ⟨b, m1, s1, c1⟩ := q2
        simp only [hb] at h
        cases hes : elabElifs env sn σ B C rest s1 c1 with
        | error e => simp [hes] at h
        | ok q3 => rw [clElifs, elabL_cl body _ _ _ _ _ _ hb, elabElifs_cl rest _ _ _ _ _ hes]; rfl
theorem elabElse_cl : ∀ (el : SElse) (B C : List Nat) (sid cid : Nat)
    (r : Option (List Stmt) × ImpData × Nat × Nat),
    elabElse env sn σ B C el sid cid = .ok r → clElse el = true
  | .none, _, _, _, _, _, _ => by rw [clElse]
  | .some e lb body rb, B, C, sid, cid, r, h => by
    rw [elabElse] at h
    cases hb : elabL env sn σ B C true body sid cid with
    | error e => simp [hb] at h
    | ok q2 => rw [clElse, elabL_cl body _ _ _ _ _ _ hb]
theorem elabCases_cl : ∀ (cases : List SCase) (B C : List Nat) (seen : List String) (hd : Bool)
    (sid cid : Nat) (r : List SwitchCase × ImpData × Nat × Nat),
    elabCases env sn σ B C cases seen hd sid cid = .ok r → clCases cases = true
  | [], _, _, _, _, _, _, _, _ => by rw [clCases]
  | .case ct vs colon body :: rest, B, C, seen, hd, sid, cid, r, h => by
    rw [elabCases] at h
    cases hseen : seen.contains (caseValue σ vs) with
    | true => rw [hseen] at h; simp at h
    | false =>
      rw [hseen] at h
      simp only [Bool.false_eq_true, if_false] at h
      cases hb : elabL env sn σ B C rest.isEmpty body sid cid with
      | error e => simp [hb] at h
      | ok q2 =>
        obtain ⟨b, m1, s1, c1⟩ := q2
        simp only [hb] at h
        cases hr : elabCases env sn σ B C rest (caseValue σ vs :: seen) hd s1 c1 with
        | error e => simp [hr] at h
        | ok q3 => rw [clCases, elabL_cl body _ _ _ _ _ _ hb, elabCases_cl rest _ _ _ _ _ _ _ hr]; rfl
  | .dflt d colon body :: rest, B, C, seen, hd, sid, cid, r, h => by
    rw [elabCases] at h
    cases hd with
    | true => simp at h
    | false =>
      simp only [Bool.false_eq_true, if_false] at h
      cases hb : elabL env sn σ B C rest.isEmpty body sid cid with
      | error e => simp [hb] at h
      | ok q2 =>
        obtain ⟨b, m1, s1, c1⟩ := q2
        simp only [hb] at h
        cases hr : elabCases env sn σ B C rest seen true s1 c1 with
        | error e => simp [hr] at h
        | ok q3 => rw [clCases, elabL_cl body _ _ _ _ _ _ hb, elabCases_cl rest _ _ _ _ _ _ _ hr]; rfl
theorem elabPCases_cl : ∀ (cases : List SPCase) (B C : List Nat) (acc : List (String × List Stmt × ImpData))
    (sid cid : Nat) (r : List (String × List Stmt × ImpData) × Nat × Nat),
    elabPCases env sn σ B C cases acc sid cid = .ok r → clPCases cases = true
  | [], _, _, _, _, _, _, _ => by rw [clPCases]
  | .colon key ct x :: rest, B, C, acc, sid, cid, r, h => by
    rw [elabPCases] at h
    cases hx : elabS env sn σ B C rest.isEmpty x sid cid with
    | error e => simp [hx] at h
    | ok q =>
      obtain ⟨a1, m1, s1, c1⟩ := q
      simp only [hx] at h
      rw [clPCases, elabS_cl x _ _ _ _ _ _ hx, elabPCases_cl rest _ _ _ _ _ _ h]; rfl
  | .brace key lbt body rbt :: rest, B, C, acc, sid, cid, r, h => by
    rw [elabPCases] at h
    cases hx : elabL env sn σ B C true body sid cid with
    | error e => simp [hx] at h
    | ok q =>
      obtain ⟨a1, m1, s1, c1⟩ := q
      simp only [hx] at h
      rw [clPCases, elabL_cl body _ _ _ _ _ _ hx, elabPCases_cl rest _ _ _ _ _ _ h]; rfl
end

end

/-! ### renumbering functions -/

def mapCmd (f : Nat → Nat) (c : Cmd) : Cmd := { c with id := f c.id }

def mapOp (f : Nat → Nat) (e : OpExpr) : OpExpr := { e with preamble := e.preamble.map (mapCmd f) }

def mapB (f : Nat → Nat) : BoolExpr → BoolExpr
  | .leaf e => .leaf (mapOp f e)
  | .bin l op r => .bin (mapB f l) op (mapB f r)

mutual
/-- Renumber command ids by `f`, scope ids by `g`. -/
def mapS (f g : Nat → Nat) : Stmt → Stmt
  | .cmd c => .cmd (mapCmd f c)
  | .label t n gl => .label t n gl
  | .ite t c b es el =>
      .ite t (mapB f c) (mapL f g b) (mapElifs f g es)
        (match el with | some e => some (mapL f g e) | none => none)
  | .while_ t s c b => .while_ t (g s) (c.map (mapB f)) (mapL f g b)
  | .doWhile t s c b => .doWhile t (g s) (mapB f c) (mapL f g b)
  | .brk t s => .brk t (g s)
  | .cont t s => .cont t (g s)
  | .switch_ t s o cs => .switch_ t (g s) o (mapCases f g cs)
def mapL (f g : Nat → Nat) : List Stmt → List Stmt
  | [] => []
  | x :: r => mapS f g x :: mapL f g r
def mapElifs (f g : Nat → Nat) : List (BoolExpr × List Stmt) → List (BoolExpr × List Stmt)
  | [] => []
  | (c, b) :: r => (mapB f c, mapL f g b) :: mapElifs f g r
def mapCases (f g : Nat → Nat) : List SwitchCase → List SwitchCase
  | [] => []
  | (t, d, b) :: r => (t, d, mapL f g b) :: mapCases f g r
end

def mapImp (f : Nat → Nat) (m : ImpData) : ImpData :=
  { texts := m.texts.map fun t => { t with cmdId := f t.cmdId },
    movements := m.movements.map fun t => { t with cmdId := f t.cmdId } }

/-- `R` is contained in the graphs of `f` (command ids) and `g` (scope ids). -/
def Ren.Graph (R : Ren) (f g : Nat → Nat) : Prop := (∀ n o, R.c n o → f n = o) ∧ (∀ n o, R.s n o → g n = o)

theorem relCmd.map_eq {R : Ren} {f g : Nat → Nat} (h : R.Graph f g) {c' c : Cmd} (hc : relCmd R c' c) :
    mapCmd f c' = c := by
  obtain ⟨h1, h2, h3, h4⟩ := hc
  cases c'; cases c
  simp only [mapCmd] at *
  simp [h.1 _ _ h1, h2, h3, h4]

theorem relB.map_eq {R : Ren} {f g : Nat → Nat} (h : R.Graph f g) :
    ∀ {c' c : BoolExpr}, relB R c' c → mapB f c' = c
  | .leaf e', .leaf e, hc => by
    simp only [relB, relOp] at hc
    obtain ⟨h1, h2, h3, h4, h5, h6⟩ := hc
    cases e' with
    | mk o1 o2 o3 o4 o5 p' =>
      cases e with
      | mk q1 q2 q3 q4 q5 p =>
        simp only at h1 h2 h3 h4 h5 h6
        subst h1 h2 h3 h4 h5
        simp only [mapB, mapOp, BoolExpr.leaf.injEq, OpExpr.mk.injEq, true_and]
        cases p' with
        | none => cases p with
          | none => rfl
          | some _ => exact h6.elim
        | some c' => cases p with
          | none => exact h6.elim
          | some c => simp only [Option.map_some, Option.some.injEq]; exact relCmd.map_eq h h6
  | .bin l' op' r', .bin l op r, hc => by
    simp only [relB] at hc
    simp only [mapB, relB.map_eq h hc.1, hc.2.1, relB.map_eq h hc.2.2]
  | .leaf _, .bin .., hc => by simp [relB] at hc
  | .bin .., .leaf _, hc => by simp [relB] at hc

theorem relOptB.map_eq {R : Ren} {f g : Nat → Nat} (h : R.Graph f g) :
    ∀ {c' c : Option BoolExpr}, relOptB R c' c → c'.map (mapB f) = c
  | none, none, _ => rfl
  | some _, some _, hc => by simp only [Option.map_some, Option.some.injEq]; exact relB.map_eq h hc
  | none, some _, hc => hc.elim
  | some _, none, hc => hc.elim

mutual
theorem RelS.map_eq {R : Ren} {f g : Nat → Nat} (h : R.Graph f g) :
    ∀ {a' a : Stmt}, RelS R a' a → mapS f g a' = a
  | _, _, .cmd hc => by rw [mapS, relCmd.map_eq h hc]
  | _, _, .label t n gl => by rw [mapS]
  | _, _, .ite t hc hb hes .none => by
    rw [mapS, relB.map_eq h hc, RelL.map_eq h hb, RelElifs.map_eq h hes]
  | _, _, .ite t hc hb hes (.some hb2) => by
    rw [mapS, relB.map_eq h hc, RelL.map_eq h hb, RelElifs.map_eq h hes, RelL.map_eq h hb2]
  | _, _, .while_ t hs hc hb => by rw [mapS, h.2 _ _ hs, relOptB.map_eq h hc, RelL.map_eq h hb]
  | _, _, .doWhile t hs hc hb => by rw [mapS, h.2 _ _ hs, relB.map_eq h hc, RelL.map_eq h hb]
  | _, _, .brk t hs => by rw [mapS, h.2 _ _ hs]
  | _, _, .cont t hs => by rw [mapS, h.2 _ _ hs]
  | _, _, .switch_ t o hs hcs => by rw [mapS, h.2 _ _ hs, RelCases.map_eq h hcs]
theorem RelL.map_eq {R : Ren} {f g : Nat → Nat} (h : R.Graph f g) :
    ∀ {a' a : List Stmt}, RelL R a' a → mapL f g a' = a
  | _, _, .nil => by rw [mapL]
  | _, _, .cons hx hr => by rw [mapL, RelS.map_eq h hx, RelL.map_eq h hr]
theorem RelElifs.map_eq {R : Ren} {f g : Nat → Nat} (h : R.Graph f g) :
    ∀ {a' a : List (BoolExpr × List Stmt)}, RelElifs R a' a → mapElifs f g a' = a
  | _, _, .nil => by rw [mapElifs]
  | _, _, .cons hc hb hr => by rw [mapElifs, relB.map_eq h hc, RelL.map_eq h hb, RelElifs.map_eq h hr]
theorem RelCases.map_eq {R : Ren} {f g : Nat → Nat} (h : R.Graph f g) :
    ∀ {a' a : List SwitchCase}, RelCases R a' a → mapCases f g a' = a
  | _, _, .nil => by rw [mapCases]
  | _, _, .cons t d hb hr => by rw [mapCases, RelL.map_eq h hb, RelCases.map_eq h hr]
end

theorem all2_map_eq {α : Type} {P : α → α → Prop} {k : α → α} (h : ∀ a b, P a b → k a = b) :
    ∀ {l m : List α}, All2 P l m → l.map k = m
  | [], [], _ => rfl
  | a :: l, b :: m, h1 => by rw [List.map_cons, h a b h1.1, all2_map_eq h h1.2]
  | [], _ :: _, h1 => h1.elim
  | _ :: _, [], h1 => h1.elim

theorem relImp.map_eq {R : Ren} {f g : Nat → Nat} (h : R.Graph f g) {m' m : ImpData} (hm : relImp R m' m) :
    mapImp f m' = m := by
  obtain ⟨h1, h2⟩ := hm
  cases m' with
  | mk t' mv' =>
    cases m with
    | mk t mv =>
      simp only [mapImp, ImpData.mk.injEq]
      refine ⟨all2_map_eq ?_ h1, all2_map_eq ?_ h2⟩
      · intro a b hab
        obtain ⟨e1, e2, e3, e4, e5⟩ := hab
        cases a; cases b
        simp only at e1 e2 e3 e4 e5
        simp [h.1 _ _ e1, e2, e3, e4, e5]
      · intro a b hab
        obtain ⟨e1, e2, e3, e4, e5⟩ := hab
        cases a; cases b
        simp only at e1 e2 e3 e4 e5
        simp [h.1 _ _ e1, e2, e3, e4, e5]

/-! ### functions chosen from an order-preserving correspondence -/

open Classical in
noncomputable def pick (P : Nat → Nat → Prop) (n : Nat) : Nat :=
  if h : ∃ o, P n o then Classical.choose h else n

theorem pick_eq {P : Nat → Nat → Prop} (hm : Mono P) {n o : Nat} (h : P n o) : pick P n = o := by
  unfold pick
  have hex : ∃ o, P n o := ⟨o, h⟩
  rw [dif_pos hex]
  exact hm.functional (Classical.choose_spec hex) h

theorem Ren.graph_pick {R : Ren} (hc : Mono R.c) (hs : Mono R.s) : R.Graph (pick R.c) (pick R.s) :=
  ⟨fun _ _ h => pick_eq hc h, fun _ _ h => pick_eq hs h⟩

end Pory.C12c
