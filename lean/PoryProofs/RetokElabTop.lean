import PoryProofs.RetokElab
import PoryProofs.RetokTop
import PoryProofs.ProgramParse
/-
L2 helpers, stage 5: **the reference elaboration of files commutes with position erasure**.

`peState` erases the token records stored in the parser state (hoisted texts / movements, text statements; the
token window and the `eof` record, which the file elaboration never reads, are normalised away).
`stepTop_eTop`, `elabTops_eTop`, `finish_pe`, `elabFile_eTop`:
    `elabFile env (ts.map eTop) (peState s) = peEx peProgram (elabFile env ts s)`.
Hence `elabFile_shape`: two files of the same shape elaborate to programs that differ only in the positions of
their token records (`peProgram` equal; same ids, same patches, same names), or fail with the same message.
-/
namespace Pory.L2
open Pory Pory.Parser Pory.C02P Pory.C10b Pory.C10c Pory.StmtG Pory.TopParse Pory.P2
open Pory.C14b (Item printItems expand)
open Pory.C12c (addImp)

def peState (s : PState) : PState :=
  { s with toks := [], eof := {}, inlineTexts := s.inlineTexts.map peText,
           inlineMovements := s.inlineMovements.map peMovement, textStatements := s.textStatements.map peText }

theorem elabE_eL (env : Env) (sn : String) (c : Ctx) (b : List SStmt) :
    elabE env sn c (eL b) = peEx (fun r => (peL r.1, peImp r.2.1, r.2.2)) (elabE env sn c b) := by
  unfold elabE
  rw [elabL_eL]
  cases elabL env sn (substC c.consts) c.breakStack c.continueStack true b c.nextSid c.nextCmdId <;> rfl

theorem getMovementsKey_pe (ms : List Tok) : getMovementsKey (ms.map pe) = getMovementsKey ms := by
  unfold getMovementsKey
  rw [List.map_map]
  rfl

theorem addTextStep_pe (s : PState) (t : ImpText) :
    addTextStep (peState s) (peImpText t) = peState (addTextStep s t) := by
  unfold addTextStep
  simp only [peImpText, pe_lit]
  show (match s.inlineTextsSet.lookup (t.text.lit, t.stringType) with
    | some label => _ | none => _) = _
  cases s.inlineTextsSet.lookup (t.text.lit, t.stringType) with
  | some label => rfl
  | none => simp only [peState, List.map_append, List.map_cons, List.map_nil, peText]

theorem addMovementStep_pe (s : PState) (m : ImpMovement) :
    addMovementStep (peState s) (peImpMov m) = peState (addMovementStep s m) := by
  unfold addMovementStep
  simp only [peImpMov, getMovementsKey_pe]
  show (match s.inlineMovementsSet.lookup (getMovementsKey m.movements) with
    | some label => _ | none => _) = _
  cases s.inlineMovementsSet.lookup (getMovementsKey m.movements) with
  | some label => rfl
  | none => simp only [peState, List.map_append, List.map_cons, List.map_nil, peMovement]

theorem foldl_pe {α : Type} (f : α → α) (step : PState → α → PState)
    (h : ∀ s a, step (peState s) (f a) = peState (step s a)) :
    ∀ (l : List α) (s : PState), (l.map f).foldl step (peState s) = peState (l.foldl step s)
  | [], _ => rfl
  | a :: r, s => by simp only [List.map_cons, List.foldl_cons, h, foldl_pe f step h r]

theorem addImp_pe (d : ImpData) (s : PState) : addImp (peImp d) (peState s) = peState (addImp d s) := by
  unfold addImp
  simp only [peImp]
  rw [foldl_pe peImpText addTextStep addTextStep_pe, foldl_pe peImpMov addMovementStep addMovementStep_pe]

theorem modScope_e (d : TT) (md : Mod) : (eMod md).scope d = md.scope d := by cases md <;> rfl

theorem constAcc_erase (cs : List (String × String)) (vs : List Tok) (acc : String) :
    constAcc cs (vs.map erase) acc = constAcc cs vs acc := by
  unfold constAcc
  rw [List.map_map]
  rfl

theorem textVal_value_e (v : TextVal) : (eTextVal v).value = v.value := by cases v <;> rfl

/-- erasure of the result of one top-level statement -/
abbrev peStep : Except PFail (Option Top × PState) → Except PFail (Option Top × PState) :=
  peEx fun r => (r.1.map peTop, peState r.2)

theorem stepTop_eTop (env : Env) (t : STop) (s : PState) :
    stepTop env (eTop t) (peState s) = peStep (stepTop env t s) := by
  cases t with
  | script kw md name lb body rb =>
    simp only [eTop, stepTop]
    rw [show (erase name).lit = name.lit from rfl, show ctxOf (peState s) = ctxOf s from rfl, elabE_eL]
    cases elabE env name.lit (ctxOf s) body with
    | error e => rfl
    | ok q =>
      simp only [peEx_ok, afterScript]
      rw [show ({ peState s with nextSid := q.2.2.nextSid, nextCmdId := q.2.2.nextCmdId } : PState) =
        peState { s with nextSid := q.2.2.nextSid, nextCmdId := q.2.2.nextCmdId } from rfl, addImp_pe]
      simp only [Option.map_some, peTop, scriptOf, peScript, modScope_e]
      rfl
  | raw kw v => rfl
  | const kw name eq vs =>
    simp only [eTop, stepTop, constAcc_erase]
    rw [show (erase name).lit = name.lit from rfl, show (peState s).constants = s.constants from rfl]
    cases (s.constants.lookup name.lit).isSome with
    | true => rfl
    | false =>
      simp only [Bool.false_eq_true, if_false]
      split <;> rfl
  | movement kw md name lb items rb =>
    simp only [eTop, stepTop, expand_eItem, modScope_e, peEx_ok, Option.map_some, peTop, peMovement]
    cases expand items <;> rfl
  | mart kw md name lb items rb =>
    simp only [eTop, stepTop, modScope_e, peEx_ok, Option.map_some, peTop, List.map_map]
    rfl
  | text kw md name lb v rb =>
    simp only [eTop, stepTop, modScope_e, textVal_value_e, peEx_ok, Option.map_some, peTop]
    simp only [peState, List.map_append, List.map_cons, List.map_nil]
    rfl

theorem optTop_map (o : Option Top) : optTop (o.map peTop) = (optTop o).map peTop := by cases o <;> rfl

theorem elabTops_eTop (env : Env) : ∀ (ts : List STop) (s : PState),
    elabTops env (ts.map eTop) (peState s) =
      peEx (fun r => (r.1.map peTop, peState r.2)) (elabTops env ts s)
  | [], s => rfl
  | t :: r, s => by
    simp only [List.map_cons, elabTops, stepTop_eTop]
    cases stepTop env t s with
    | error e => rfl
    | ok q =>
      simp only [peEx_ok, elabTops_eTop env r]
      cases elabTops env r q.2 with
      | error e => rfl
      | ok q1 => simp only [peEx_ok, optTop_map, List.map_append]

/-! ### the post-passes -/

theorem firstDuplicateText_pe : ∀ (l : List Text) (seen : List String),
    firstDuplicateText (l.map peText) seen = (firstDuplicateText l seen).map peText
  | [], _ => rfl
  | t :: r, seen => by
    simp only [List.map_cons, firstDuplicateText]
    rw [show (peText t).name = t.name from rfl]
    split
    · rfl
    · exact firstDuplicateText_pe r _

theorem lookup_map_pe (k : String) : ∀ seen : List (String × Tok),
    (seen.map fun p => (p.1, pe p.2)).lookup k = (seen.lookup k).map pe
  | [] => rfl
  | (a, b) :: r => by
    simp only [List.map_cons, List.lookup_cons]
    cases k == a
    · exact lookup_map_pe k r
    · rfl

theorem firstDuplicateMovement_pe : ∀ (l : List Top) (seen : List (String × Tok)),
    firstDuplicateMovement (l.map peTop) (seen.map fun p => (p.1, pe p.2)) =
      (firstDuplicateMovement l seen).map fun p => (pe p.1, p.2)
  | [], _ => rfl
  | t :: r, seen => by
    cases t with
    | movement m =>
      simp only [List.map_cons, peTop, firstDuplicateMovement]
      rw [show (peMovement m).name = m.name from rfl, lookup_map_pe]
      cases seen.lookup m.name with
      | some t => rfl
      | none =>
        have := firstDuplicateMovement_pe r ((m.name, m.tok) :: seen)
        simp only [List.map_cons] at this
        simp only [Option.map_none]
        exact this
    | script s => simp only [List.map_cons, peTop, firstDuplicateMovement]; exact firstDuplicateMovement_pe r seen
    | raw a b c => simp only [List.map_cons, peTop, firstDuplicateMovement]; exact firstDuplicateMovement_pe r seen
    | text a => simp only [List.map_cons, peTop, firstDuplicateMovement]; exact firstDuplicateMovement_pe r seen
    | mart a b c d e => simp only [List.map_cons, peTop, firstDuplicateMovement]; exact firstDuplicateMovement_pe r seen
    | mapscripts a => simp only [List.map_cons, peTop, firstDuplicateMovement]; exact firstDuplicateMovement_pe r seen

theorem finish_pe (tops : List Top) (s : PState) :
    finish (tops.map peTop) (peState s) = peEx peProgram (finish tops s) := by
  unfold finish
  have h1 : (peState s).inlineTexts ++ (peState s).textStatements =
      (s.inlineTexts ++ s.textStatements).map peText := by simp only [peState, List.map_append]
  have h2 : tops.map peTop ++ (peState s).inlineMovements.map Top.movement =
      (tops ++ s.inlineMovements.map Top.movement).map peTop := by
    simp only [peState, List.map_append, List.map_map]
    rfl
  rw [h1, h2, firstDuplicateText_pe]
  cases firstDuplicateText (s.inlineTexts ++ s.textStatements) [] with
  | some t => rfl
  | none =>
    simp only [Option.map_none]
    have h3 := firstDuplicateMovement_pe (tops ++ s.inlineMovements.map Top.movement) []
    simp only [List.map_nil] at h3
    rw [h3]
    cases firstDuplicateMovement (tops ++ s.inlineMovements.map Top.movement) [] with
    | some p => rfl
    | none => rfl

/-- **The file elaboration commutes with position erasure.** -/
theorem elabFile_eTop (env : Env) (ts : List STop) (s : PState) :
    elabFile env (ts.map eTop) (peState s) = peEx peProgram (elabFile env ts s) := by
  unfold elabFile
  rw [elabTops_eTop]
  cases elabTops env ts s with
  | error e => rfl
  | ok q => simp only [peEx_ok, finish_pe]

/-- erasing the positions of an error twice is erasing them once -/
theorem pePFail_idem (e : PFail) : pePFail (pePFail e) = pePFail e := by cases e <;> rfl

/-- **Files of the same shape elaborate to the same program up to token positions** (same statements, ids,
patches, names, values), or fail with the same message; the `eof` records the two runs start from do not
matter. -/
theorem elabFile_shape (env : Env) {ts' ts : List STop} (h : SameShape ts' ts) (eof' eof : Tok) :
    peEx peProgram (elabFile env ts' (initState eof')) = peEx peProgram (elabFile env ts (initState eof)) := by
  rw [← elabFile_eTop, ← elabFile_eTop, h]
  rfl

end Pory.L2
