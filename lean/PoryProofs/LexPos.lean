import PoryModel.Lexer
/-
Position bookkeeping of the lexer model (`PoryModel/Lexer.lean`): what the five counters mean in
terms of the characters consumed so far.  Used by `PoryProofs/Properties/C19.lean`.

`Truthful pre inp p` : in the state `⟨inp, p⟩`, reached after consuming exactly `pre`, the
counters are what `pre` (and the size of the current character) dictate.
-/
namespace Pory.LexPos
open Pory Pory.Lexer

/-! ### Source geometry -/

/-- number of UTF-8 bytes of a run of characters -/
def bytesOf (cs : List Char) : Nat := (cs.map Char.utf8Size).sum

/-- 1-based line number of the position just after `pre` -/
def lineOf (pre : List Char) : Nat := 1 + pre.count '\n'

/-- the characters of `pre` after its last `'\n'` -/
def lastLine (pre : List Char) : List Char := (pre.reverse.takeWhile (· != '\n')).reverse

/-- 0-based byte column of the position just after `pre` -/
def colOf (pre : List Char) : Nat := bytesOf (lastLine pre)

/-- 0-based character column of the position just after `pre` -/
def ucolOf (pre : List Char) : Nat := (lastLine pre).length

/-- The character counter at end of input: the Go `readChar` sets `utf8CharNumber = 1` after a
newline even when no character follows, so a source ending in `'\n'` ends with the counter at 1
instead of 0. -/
def eofUcol (pre : List Char) : Nat := if pre.getLast? = some '\n' then 1 else ucolOf pre

@[simp] theorem bytesOf_nil : bytesOf [] = 0 := rfl
@[simp] theorem bytesOf_cons (c : Char) (cs : List Char) :
    bytesOf (c :: cs) = c.utf8Size + bytesOf cs := by simp [bytesOf]
@[simp] theorem bytesOf_append (a b : List Char) : bytesOf (a ++ b) = bytesOf a + bytesOf b := by
  simp [bytesOf]

@[simp] theorem lastLine_nil : lastLine [] = [] := rfl
@[simp] theorem lineOf_nil : lineOf [] = 1 := rfl
@[simp] theorem colOf_nil : colOf [] = 0 := rfl
@[simp] theorem ucolOf_nil : ucolOf [] = 0 := rfl
@[simp] theorem eofUcol_nil : eofUcol [] = 0 := rfl

theorem lastLine_snoc_nl (pre : List Char) : lastLine (pre ++ ['\n']) = [] := by
  simp [lastLine]

theorem lastLine_snoc (pre : List Char) (c : Char) (h : c ≠ '\n') :
    lastLine (pre ++ [c]) = lastLine pre ++ [c] := by
  simp [lastLine, h]

theorem lastLine_append (pre m : List Char) (h : ∀ c ∈ m, c ≠ '\n') :
    lastLine (pre ++ m) = lastLine pre ++ m := by
  induction m generalizing pre with
  | nil => simp
  | cons c m ih =>
    have : pre ++ c :: m = (pre ++ [c]) ++ m := by simp
    rw [this, ih _ (fun d hd => h d (List.mem_cons_of_mem _ hd)),
      lastLine_snoc _ _ (h c (List.mem_cons_self ..))]
    simp

/-- `lastLine` really is "what follows the last newline". -/
theorem lastLine_after_nl (a b : List Char) (h : ∀ c ∈ b, c ≠ '\n') :
    lastLine (a ++ '\n' :: b) = b := by
  have : a ++ '\n' :: b = (a ++ ['\n']) ++ b := by simp
  rw [this, lastLine_append _ _ h, lastLine_snoc_nl]; simp

theorem lastLine_of_no_nl (b : List Char) (h : ∀ c ∈ b, c ≠ '\n') : lastLine b = b := by
  have := lastLine_append [] b h
  simpa using this

theorem lineOf_snoc_nl (pre : List Char) : lineOf (pre ++ ['\n']) = lineOf pre + 1 := by
  simp [lineOf, List.count_append]; omega

theorem lineOf_snoc (pre : List Char) (c : Char) (h : c ≠ '\n') :
    lineOf (pre ++ [c]) = lineOf pre := by
  simp [lineOf, List.count_append, h]

theorem lineOf_append (pre m : List Char) (h : ∀ c ∈ m, c ≠ '\n') :
    lineOf (pre ++ m) = lineOf pre := by
  have : m.count '\n' = 0 := by
    rw [List.count_eq_zero]; intro hm; exact h _ hm rfl
  simp [lineOf, List.count_append, this]

theorem colOf_append (pre m : List Char) (h : ∀ c ∈ m, c ≠ '\n') :
    colOf (pre ++ m) = colOf pre + bytesOf m := by
  simp [colOf, lastLine_append _ _ h]

theorem ucolOf_append (pre m : List Char) (h : ∀ c ∈ m, c ≠ '\n') :
    ucolOf (pre ++ m) = ucolOf pre + m.length := by
  simp [ucolOf, lastLine_append _ _ h]

theorem eofUcol_append (pre m : List Char) (hne : m ≠ []) (h : ∀ c ∈ m, c ≠ '\n') :
    eofUcol (pre ++ m) = ucolOf (pre ++ m) := by
  unfold eofUcol
  rw [if_neg]
  intro hl
  rw [List.getLast?_append] at hl
  cases hm : m.getLast? with
  | none => simp at hm; exact absurd hm hne
  | some x =>
    rw [hm] at hl; simp at hl; subst hl
    exact h _ (List.mem_of_getLast? hm) rfl

theorem eofUcol_snoc_nl (pre : List Char) : eofUcol (pre ++ ['\n']) = 1 := by
  simp [eofUcol]

/-- A (line, byte column) pair names at most one position of a source: two splits of the same
source with equal line and column are the same split. -/
theorem position_unique {p1 r1 p2 r2 : List Char} (h : p1 ++ r1 = p2 ++ r2)
    (hl : lineOf p1 = lineOf p2) (hc : colOf p1 = colOf p2) : p1 = p2 ∧ r1 = r2 := by
  have key : ∀ (p m : List Char), lineOf (p ++ m) = lineOf p → colOf (p ++ m) = colOf p →
      m = [] := by
    intro p m h1 h2
    have hcnt : m.count '\n' = 0 := by
      simp only [lineOf, List.count_append] at h1
      omega
    have hno : ∀ c ∈ m, c ≠ '\n' := by
      intro c hc e
      subst e
      exact (List.count_eq_zero.1 hcnt) hc
    rw [colOf_append _ _ hno] at h2
    cases m with
    | nil => rfl
    | cons c m =>
      have := Char.utf8Size_pos c
      simp only [bytesOf_cons] at h2
      omega
  rcases List.append_eq_append_iff.1 h with ⟨a, e1, e2⟩ | ⟨a, e1, e2⟩
  · subst e1
    have := key p1 a hl.symm hc.symm
    subst this
    simp at e2 ⊢
    exact e2
  · subst e1
    have := key p2 a hl hc
    subst this
    simp at e2 ⊢
    exact e2.symm

/-! ### The invariant -/

/-- The counters `p` of the state `⟨inp, p⟩` agree with the consumed prefix `pre`.
`col`/`ucol` are the Go `charNumber`/`utf8CharNumber` (column just *after* the current
character), `prevCol`/`prevUcol` the column of the current character.  At end of input the
character counters follow the Go quirks: `ucol = eofUcol pre` and `prevUcol` is either the true
column or (after a further `readChar` at end of input) a copy of `ucol`. -/
structure Truthful (pre inp : List Char) (p : Pos) : Prop where
  line : p.line = lineOf pre
  prevCol : p.prevCol = colOf pre
  col : p.col = colOf pre + nextSize inp
  prevUcolN : inp ≠ [] → p.prevUcol = ucolOf pre
  ucolN : inp ≠ [] → p.ucol = ucolOf pre + 1
  ucolE : inp = [] → p.ucol = eofUcol pre
  prevUcolE : inp = [] → p.prevUcol = ucolOf pre ∨ p.prevUcol = eofUcol pre

theorem truthful_init (src : List Char) : Truthful [] (initLS src).inp (initLS src).p := by
  cases src <;> constructor <;> simp [initLS, nextSize]

theorem truthful_adv {pre : List Char} {c : Char} {r : List Char} {p : Pos}
    (h : Truthful pre (c :: r) p) : Truthful (pre ++ [c]) r (adv c r p) := by
  have hp := h.prevUcolN (by simp)
  have hu := h.ucolN (by simp)
  have hc := h.col
  simp only [nextSize] at hc
  by_cases hn : c = '\n'
  · subst hn
    have hsz : ('\n' : Char).utf8Size = 1 := by decide
    constructor <;>
      simp [adv, lineOf_snoc_nl, h.line, colOf, ucolOf, lastLine_snoc_nl, eofUcol_snoc_nl]
  · have hb : (c == '\n') = false := by simpa using hn
    have hcol : colOf (pre ++ [c]) = colOf pre + c.utf8Size := by
      simp [colOf, lastLine_snoc _ _ hn]
    have hucol : ucolOf (pre ++ [c]) = ucolOf pre + 1 := by
      simp [ucolOf, lastLine_snoc _ _ hn]
    have he : eofUcol (pre ++ [c]) = ucolOf (pre ++ [c]) :=
      eofUcol_append pre [c] (by simp) (by simpa using hn)
    constructor
    · simp [adv, hb, lineOf_snoc _ _ hn, h.line]
    · simp [adv, hb, hcol, hc]
    · simp [adv, hb, hcol, hc]
    · intro _; simp [adv, hb, hucol, hu]
    · intro hr
      have : nextSize r > 0 := by
        cases r with
        | nil => exact absurd rfl hr
        | cons d r => exact Char.utf8Size_pos d
      simp [adv, hb, hucol, hu, this]
    · intro hr; subst hr
      simp [adv, hb, he, hucol, hu, nextSize]
    · intro hr; subst hr
      left; simp [adv, hb, hucol, hu]

theorem truthful_advEOF {pre : List Char} {p : Pos} (h : Truthful pre [] p) :
    Truthful pre [] (advEOF p) := by
  have hc := h.col
  simp only [nextSize] at hc
  constructor
  · exact h.line
  · simp [advEOF, hc]
  · simp [advEOF, hc, nextSize]
  · intro hr; exact absurd rfl hr
  · intro hr; exact absurd rfl hr
  · intro _; exact h.ucolE rfl
  · intro _; right; exact h.ucolE rfl

/-! ### Reachability: consuming a piece of the input keeps the counters truthful -/

/-- From input `inp` (reached after `pre`), the state `s'` is reached by consuming some `mid`:
the source `pre ++ inp` is unchanged and the counters of `s'` are truthful for `pre ++ mid`. -/
def Steps (pre inp : List Char) (s' : LS) : Prop :=
  ∃ mid, inp = mid ++ s'.inp ∧ Truthful (pre ++ mid) s'.inp s'.p

theorem Steps.refl {pre inp : List Char} {p : Pos} (h : Truthful pre inp p) :
    Steps pre inp ⟨inp, p⟩ := ⟨[], by simp, by simpa using h⟩

theorem Steps.trans {pre inp : List Char} {s1 s2 : LS} (h1 : Steps pre inp s1)
    (h2 : ∀ pre', Truthful pre' s1.inp s1.p → Steps pre' s1.inp s2) : Steps pre inp s2 := by
  obtain ⟨m1, e1, t1⟩ := h1
  obtain ⟨m2, e2, t2⟩ := h2 _ t1
  exact ⟨m1 ++ m2, by rw [e1, e2]; simp, by simpa using t2⟩

theorem Steps.cons {pre : List Char} {c : Char} {r : List Char} {s' : LS}
    (h : Steps (pre ++ [c]) r s') : Steps pre (c :: r) s' := by
  obtain ⟨m, e, t⟩ := h
  exact ⟨c :: m, by rw [e]; simp, by simpa using t⟩

theorem steps_readChar {pre : List Char} {s : LS} (h : Truthful pre s.inp s.p) :
    Steps pre s.inp (readChar s) := by
  obtain ⟨inp, p⟩ := s
  cases inp with
  | nil => exact ⟨[], by simp [readChar], by simpa [readChar] using truthful_advEOF h⟩
  | cons c r => exact ⟨[c], by simp [readChar], by simpa [readChar] using truthful_adv h⟩

/-! ### The loops -/

theorem skipWhitespace_spec (pre inp : List Char) (p : Pos) (h : Truthful pre inp p) :
    ∃ mid, inp = mid ++ (skipWhitespace inp p).inp ∧
      Truthful (pre ++ mid) (skipWhitespace inp p).inp (skipWhitespace inp p).p ∧
      (∀ c ∈ mid, isWs c = true) ∧
      (∀ c r, (skipWhitespace inp p).inp = c :: r → isWs c = false) := by
  induction inp generalizing pre p with
  | nil => exact ⟨[], by simp [skipWhitespace], by simpa [skipWhitespace] using h, by simp,
      by simp [skipWhitespace]⟩
  | cons c r ih =>
    by_cases hw : isWs c = true
    · obtain ⟨m, e, t, hm, hs⟩ := ih _ _ (truthful_adv h)
      simp only [skipWhitespace, hw, if_true]
      refine ⟨c :: m, by simpa using e, by simpa using t, ?_, hs⟩
      intro d hd
      rcases List.mem_cons.1 hd with rfl | hd
      · exact hw
      · exact hm d hd
    · simp only [skipWhitespace, hw]
      refine ⟨[], by simp, by simpa using h, by simp, ?_⟩
      intro d r' hd
      simp at hd
      rw [← hd.1]; simpa using hw

theorem skipWhitespace_steps {pre inp : List Char} {p : Pos} (h : Truthful pre inp p) :
    Steps pre inp (skipWhitespace inp p) := by
  obtain ⟨m, e, t, _⟩ := skipWhitespace_spec pre inp p h
  exact ⟨m, e, t⟩

theorem skipToNextLine_steps {pre inp : List Char} {p : Pos} (h : Truthful pre inp p) :
    Steps pre inp (skipToNextLine inp p) := by
  induction inp generalizing pre p with
  | nil => simpa [skipToNextLine] using steps_readChar (s := ⟨[], p⟩) h
  | cons c r ih =>
    rw [skipToNextLine]
    split
    · exact (ih (truthful_adv h)).cons
    · exact steps_readChar (s := ⟨c :: r, p⟩) h

theorem skipComments_steps (n : Nat) {pre : List Char} {s : LS} (h : Truthful pre s.inp s.p) :
    Steps pre s.inp (skipComments n s) := by
  induction n generalizing pre s with
  | zero => exact Steps.refl h
  | succ n ih =>
    rw [skipComments]
    split
    · refine (skipToNextLine_steps h).trans fun pre1 h1 => ?_
      refine (skipWhitespace_steps h1).trans fun pre2 h2 => ?_
      exact ih h2
    · exact Steps.refl h

theorem skipNewlineWs_steps {pre inp : List Char} {p : Pos} (b : Bool) (h : Truthful pre inp p) :
    Steps pre inp (skipNewlineWs inp p b).2 := by
  induction inp generalizing pre p b with
  | nil => simpa [skipNewlineWs] using Steps.refl h
  | cons c r ih =>
    rw [skipNewlineWs]
    split
    · exact (ih true (truthful_adv h)).cons
    · exact Steps.refl h

/-- The common shape of `readNumber`, `readHexNumber`, `readIdentRest` and `rawBody`. -/
def readWhile (P : Char → Bool) : List Char → Pos → List Char × LS
  | [], p => ([], ⟨[], p⟩)
  | c :: r, p =>
    if P c then
      let (ds, s) := readWhile P r (adv c r p)
      (c :: ds, s)
    else ([], ⟨c :: r, p⟩)

theorem readNumber_eq (inp : List Char) (p : Pos) : readNumber inp p = readWhile isDigit inp p := by
  induction inp generalizing p with
  | nil => rfl
  | cons c r ih => simp only [readNumber, readWhile, ih]

theorem readHexNumber_eq (inp : List Char) (p : Pos) :
    readHexNumber inp p = readWhile isHexDigit inp p := by
  induction inp generalizing p with
  | nil => rfl
  | cons c r ih => simp only [readHexNumber, readWhile, ih]

theorem readIdentRest_eq (inp : List Char) (p : Pos) :
    readIdentRest inp p = readWhile (fun c => isLetter c || isDigit c) inp p := by
  induction inp generalizing p with
  | nil => rfl
  | cons c r ih => simp only [readIdentRest, readWhile, ih]

theorem rawBody_eq (inp : List Char) (p : Pos) :
    rawBody inp p = readWhile (fun c => c != '`' && c != NUL) inp p := by
  induction inp generalizing p with
  | nil => rfl
  | cons c r ih => simp only [rawBody, readWhile, ih]

/-- A `readWhile` loop returns exactly the characters it consumed, all of which satisfy `P`,
stops at a character that does not, and keeps the counters truthful. -/
theorem readWhile_spec (P : Char → Bool) (pre inp : List Char) (p : Pos)
    (h : Truthful pre inp p) :
    inp = (readWhile P inp p).1 ++ (readWhile P inp p).2.inp ∧
    Truthful (pre ++ (readWhile P inp p).1) (readWhile P inp p).2.inp (readWhile P inp p).2.p ∧
    (∀ c ∈ (readWhile P inp p).1, P c = true) ∧
    (∀ c r, (readWhile P inp p).2.inp = c :: r → P c = false) := by
  induction inp generalizing pre p with
  | nil => exact ⟨by simp [readWhile], by simpa [readWhile] using h, by simp [readWhile],
      by simp [readWhile]⟩
  | cons c r ih =>
    by_cases hw : P c = true
    · obtain ⟨e, t, hm, hs⟩ := ih _ _ (truthful_adv h)
      simp only [readWhile, hw, if_true]
      refine ⟨by simpa using e, by simpa using t, ?_, hs⟩
      intro d hd
      rcases List.mem_cons.1 hd with rfl | hd
      · exact hw
      · exact hm d hd
    · simp only [readWhile, hw]
      refine ⟨by simp, by simpa using h, by simp, ?_⟩
      intro d r' hd
      simp at hd
      rw [← hd.1]; simpa using hw

theorem readNumber_spec (pre inp : List Char) (p : Pos) (h : Truthful pre inp p) :
    inp = (readNumber inp p).1 ++ (readNumber inp p).2.inp ∧
    Truthful (pre ++ (readNumber inp p).1) (readNumber inp p).2.inp (readNumber inp p).2.p ∧
    (∀ c ∈ (readNumber inp p).1, isDigit c = true) ∧
    (∀ c r, (readNumber inp p).2.inp = c :: r → isDigit c = false) := by
  rw [readNumber_eq]; exact readWhile_spec _ pre inp p h

theorem readHexNumber_spec (pre inp : List Char) (p : Pos) (h : Truthful pre inp p) :
    inp = (readHexNumber inp p).1 ++ (readHexNumber inp p).2.inp ∧
    Truthful (pre ++ (readHexNumber inp p).1) (readHexNumber inp p).2.inp
      (readHexNumber inp p).2.p ∧
    (∀ c ∈ (readHexNumber inp p).1, isHexDigit c = true) ∧
    (∀ c r, (readHexNumber inp p).2.inp = c :: r → isHexDigit c = false) := by
  rw [readHexNumber_eq]; exact readWhile_spec _ pre inp p h

theorem readIdentRest_spec (pre inp : List Char) (p : Pos) (h : Truthful pre inp p) :
    inp = (readIdentRest inp p).1 ++ (readIdentRest inp p).2.inp ∧
    Truthful (pre ++ (readIdentRest inp p).1) (readIdentRest inp p).2.inp
      (readIdentRest inp p).2.p ∧
    (∀ c ∈ (readIdentRest inp p).1, (isLetter c || isDigit c) = true) ∧
    (∀ c r, (readIdentRest inp p).2.inp = c :: r → (isLetter c || isDigit c) = false) := by
  rw [readIdentRest_eq]; exact readWhile_spec _ pre inp p h

theorem rawBody_spec (pre inp : List Char) (p : Pos) (h : Truthful pre inp p) :
    inp = (rawBody inp p).1 ++ (rawBody inp p).2.inp ∧
    Truthful (pre ++ (rawBody inp p).1) (rawBody inp p).2.inp (rawBody inp p).2.p ∧
    (∀ c ∈ (rawBody inp p).1, (c != '`' && c != NUL) = true) ∧
    (∀ c r, (rawBody inp p).2.inp = c :: r → (c != '`' && c != NUL) = false) := by
  rw [rawBody_eq]; exact readWhile_spec _ pre inp p h

theorem readNumber_steps {pre inp : List Char} {p : Pos} (h : Truthful pre inp p) :
    Steps pre inp (readNumber inp p).2 :=
  ⟨_, (readNumber_spec pre inp p h).1, (readNumber_spec pre inp p h).2.1⟩

theorem readHexNumber_steps {pre inp : List Char} {p : Pos} (h : Truthful pre inp p) :
    Steps pre inp (readHexNumber inp p).2 :=
  ⟨_, (readHexNumber_spec pre inp p h).1, (readHexNumber_spec pre inp p h).2.1⟩

theorem readIdentRest_steps {pre inp : List Char} {p : Pos} (h : Truthful pre inp p) :
    Steps pre inp (readIdentRest inp p).2 :=
  ⟨_, (readIdentRest_spec pre inp p h).1, (readIdentRest_spec pre inp p h).2.1⟩

theorem rawBody_steps {pre inp : List Char} {p : Pos} (h : Truthful pre inp p) :
    Steps pre inp (rawBody inp p).2 :=
  ⟨_, (rawBody_spec pre inp p h).1, (rawBody_spec pre inp p h).2.1⟩

/-! ### String tokens -/

theorem strBody_steps (n : Nat) {pre : List Char} {s : LS} (h : Truthful pre s.inp s.p) :
    Steps pre s.inp (strBody n s).2 := by
  induction n generalizing pre s with
  | zero => exact Steps.refl h
  | succ n ih =>
    obtain ⟨inp, p⟩ := s
    cases inp with
    | nil => exact Steps.refl h
    | cons c r =>
      simp only [strBody]
      split
      · exact Steps.refl h
      · have h1 := skipNewlineWs_steps (inp := c :: r) (p := p) false h
        split
        · refine h1.trans fun pre1 t1 => ?_
          refine (skipWhitespace_steps t1).trans fun pre2 t2 => ?_
          exact ih t2
        · exact (ih (s := ⟨r, adv c r p⟩) (truthful_adv h)).cons

theorem readString_steps (n : Nat) {pre : List Char} {s : LS} (sb : List Char) (e : Nat × Nat × Nat)
    (h : Truthful pre s.inp s.p) : Steps pre s.inp (readString n s sb e).2.2 := by
  induction n generalizing pre s sb e with
  | zero => exact Steps.refl h
  | succ n ih =>
    simp only [readString]
    split
    · refine (steps_readChar h).trans fun pre1 t1 => ?_
      refine (strBody_steps ((readChar s).inp.length + 1) t1).trans fun pre2 t2 => ?_
      refine (steps_readChar t2).trans fun pre3 t3 => ?_
      refine (skipWhitespace_steps t3).trans fun pre4 t4 => ?_
      exact ih _ _ t4
    · exact Steps.refl h

theorem readStringToken_steps {pre : List Char} {s : LS} (h : Truthful pre s.inp s.p) :
    Steps pre s.inp (readStringToken s).2 := by
  simpa [readStringToken] using readString_steps (s.inp.length + 1) [] (0, 0, 0) h

/-- A string token starts at the counters of the state it is read from. -/
theorem readStringToken_start (s : LS) :
    (readStringToken s).1.type = .STRING ∧ (readStringToken s).1.line = s.p.line ∧
    (readStringToken s).1.startChar = s.p.prevCol ∧
    (readStringToken s).1.startUtf8 = s.p.prevUcol := by
  simp [readStringToken]

end Pory.LexPos
