import PoryProofs.LexTok
/-
Layout independence of the lexer model (`PoryModel/Lexer.lean`), used by
`PoryProofs/Properties/C19b.lean`.

Part 1  The *erased lexer*: a counter-free copy of every lexer function (`skipAllE`, `strBodyE`,
        `readStringE`, `tokenAtE`, `nextE`, `lexAllE`) working on `List Char` only and producing
        `(type, literal)` pairs, and the proof that the real model, with any counters, computes
        exactly this (`nextToken_erased`, `lexAll_erased`).  Position independence
        (`tokens_pos_indep`) is a corollary.
Part 2  The skipping phase absorbs separators: `Skips inp rest → skipAllE inp = skipAllE rest`
        (`skipAllE_of_skips`); hence `nextE_of_skips`.
Part 3  Lexemes and layouts: `LexemeAt`, `Lexeme`, `Sep`, `SepLast`, `render`, `LayoutOK`,
        `lexAllE_layout` (canonical form of an admissible layout).
Part 4  `LexemeAt` for punctuation, one- and two-character operators, identifiers / keywords,
        decimal, negative and hexadecimal numbers and raw strings, each with its `needsSep` side
        condition (`okAny`, `okNoEq`, `okIdent`, `okNum`, `okHex`); `ok_of_sepStart`: a continuation
        starting with a separator character is admissible for all of them.  (Multi-part) string
        literals and the `name"…"` pair are in `PoryProofs/LexString.lean` (`okStr`).
Nothing is partial.

F16 (fixed in lexer.go and in the model): `skipToNextLine` no longer stops at a NUL, so `skipLineE`
stops at a newline only and the text of a comment in `Skips` / `Sep` / `SepLast` may contain any
character except newline, NUL included.  A NUL outside a comment is not a separator (the lexer
returns an `EOF` token for it), so `Sep` admits whitespace and comments only.
-/
namespace Pory.C19b
open Pory

/-- What layout must not change: a token's type and literal. -/
def erase (t : Tok) : TT × String := (t.type, t.lit)

end Pory.C19b

namespace Pory.LexLayout
open Pory Pory.Lexer Pory.LexPos Pory.C19b

/-! ## Part 1: the erased lexer -/

/-- erased result of one `nextToken` call: (type, literal) pairs, remaining input, `done` flag -/
abbrev EOut := List (TT × String) × List Char × Bool

def eraseOut (o : List Tok × LS × Bool) : EOut := (o.1.map erase, o.2.1.inp, o.2.2)

def skipLineE : List Char → List Char
  | [] => []
  | c :: r => if c != '\n' then skipLineE r else r

def skipCommentsE : Nat → List Char → List Char
  | 0, inp => inp
  | n + 1, inp =>
    if isCommentStart inp then skipCommentsE n ((skipLineE inp).dropWhile isWs) else inp

def skipAllE (inp : List Char) : List Char :=
  skipCommentsE ((inp.dropWhile isWs).length + 1) (inp.dropWhile isWs)

def isNl (c : Char) : Bool := c == '\n' || c == '\r'

def strBodyE : Nat → List Char → List Char × List Char
  | 0, inp => ([], inp)
  | _ + 1, [] => ([], [])
  | n + 1, c :: r =>
    if c == '"' || c == NUL then ([], c :: r)
    else if isNl c then
      (' ' :: (strBodyE n (((c :: r).dropWhile isNl).dropWhile isWs)).1,
        (strBodyE n (((c :: r).dropWhile isNl).dropWhile isWs)).2)
    else (c :: (strBodyE n r).1, (strBodyE n r).2)

def readStringE : Nat → List Char → List Char → List Char × List Char
  | 0, inp, sb => (sb, inp)
  | n + 1, inp, sb =>
    if ch inp == '"' then
      readStringE n (((strBodyE (inp.tail.length + 1) inp.tail).2.tail).dropWhile isWs)
        ((if sb.isEmpty then sb else sb ++ ['\n']) ++ (strBodyE (inp.tail.length + 1) inp.tail).1)
    else (sb, inp)

def rawP (c : Char) : Bool := c != '`' && c != NUL
def identP (c : Char) : Bool := isLetter c || isDigit c

def oneE (inp : List Char) (c : Char) (t : TT) : EOut := ([(t, String.singleton c)], inp.tail, false)
def twoE (inp : List Char) (c : Char) (t : TT) : EOut :=
  ([(t, String.ofList [c, ch inp.tail])], inp.tail.tail, false)
def strLitE (inp : List Char) : List Char := (readStringE (inp.length + 1) inp []).1
def strRestE (inp : List Char) : List Char := (readStringE (inp.length + 1) inp []).2
def strE (inp : List Char) : EOut := ([(.STRING, String.ofList (strLitE inp))], strRestE inp, false)
def rawE (inp : List Char) : EOut :=
  ([(.RAWSTRING, String.ofList (trimRightSpace (inp.tail.takeWhile rawP)))],
    (inp.tail.dropWhile rawP).tail, false)
def hexE (inp : List Char) : EOut :=
  ([(.INT, String.ofList ('0' :: 'x' :: inp.tail.tail.takeWhile isHexDigit))],
    inp.tail.tail.dropWhile isHexDigit, false)
def numE (inp : List Char) : EOut :=
  ([(.INT, String.ofList (inp.takeWhile isDigit))], inp.dropWhile isDigit, false)
def negE (inp : List Char) : EOut :=
  ([(.INT, String.ofList ('-' :: inp.tail.takeWhile isDigit))], inp.tail.dropWhile isDigit, false)
def identE (inp : List Char) (c : Char) : EOut :=
  if ch (inp.tail.dropWhile identP) == '"' then
    ([(.STRINGTYPE, String.ofList (c :: inp.tail.takeWhile identP)),
      (.STRING, String.ofList (strLitE (inp.tail.dropWhile identP)))],
      strRestE (inp.tail.dropWhile identP), false)
  else
    ([(getIdentType (String.ofList (c :: inp.tail.takeWhile identP)),
        String.ofList (c :: inp.tail.takeWhile identP))], inp.tail.dropWhile identP, false)
def illE (inp : List Char) (c : Char) : EOut := ([(.ILLEGAL, String.singleton c)], inp.tail, false)
def nulE (inp : List Char) : EOut := ([(.EOF, "")], inp.tail, false)

/-- the `switch l.ch` of `NextToken` without counters -/
def tokenAtE (inp : List Char) (c : Char) : EOut :=
  if c == '*' then oneE inp c .MUL
  else if c == '=' then (if peekChar inp == '=' then twoE inp c .EQ else oneE inp c .ASSIGN)
  else if c == '!' then (if peekChar inp == '=' then twoE inp c .NEQ else oneE inp c .NOT)
  else if c == '<' then (if peekChar inp == '=' then twoE inp c .LTE else oneE inp c .LT)
  else if c == '>' then (if peekChar inp == '=' then twoE inp c .GTE else oneE inp c .GT)
  else if c == '&' then (if peekChar inp == '&' then twoE inp c .AND else oneE inp c .ILLEGAL)
  else if c == '|' then (if peekChar inp == '|' then twoE inp c .OR else oneE inp c .ILLEGAL)
  else if c == '(' then oneE inp c .LPAREN
  else if c == ')' then oneE inp c .RPAREN
  else if c == '[' then oneE inp c .LBRACKET
  else if c == ']' then oneE inp c .RBRACKET
  else if c == ',' then oneE inp c .COMMA
  else if c == ':' then oneE inp c .COLON
  else if c == '"' then strE inp
  else if c == '`' then rawE inp
  else if c == '{' then oneE inp c .LBRACE
  else if c == '}' then oneE inp c .RBRACE
  else if c == '0' then (if peekChar inp == 'x' then hexE inp else numE inp)
  else if c == NUL then nulE inp
  else if isLetter c then identE inp c
  else if isDigit c || (c == '-' && isDigit (peekChar inp)) then (if c == '-' then negE inp else numE inp)
  else illE inp c

/-- the token read from an input on which the skipping phase has finished -/
def tokE (inp : List Char) : EOut :=
  match inp with
  | [] => ([(.EOF, "")], [], true)
  | c :: _ => tokenAtE inp c

/-- `nextToken` without counters -/
def nextE (inp : List Char) : EOut := tokE (skipAllE inp)

def lexLoopE : Nat → List Char → List (TT × String)
  | 0, _ => []
  | n + 1, inp => if (nextE inp).2.2 then (nextE inp).1 else (nextE inp).1 ++ lexLoopE n (nextE inp).2.1

/-- `lexAll` without counters -/
def lexAllE (inp : List Char) : List (TT × String) := lexLoopE (inp.length + 2) inp

/-! ### The model computes the erased lexer, whatever the counters -/

theorem readChar_inp (s : LS) : (readChar s).inp = s.inp.tail := by
  obtain ⟨inp, p⟩ := s
  cases inp <;> rfl

theorem skipWhitespace_inp (inp : List Char) (p : Pos) :
    (skipWhitespace inp p).inp = inp.dropWhile isWs := by
  induction inp generalizing p with
  | nil => rfl
  | cons c r ih =>
    rw [skipWhitespace, List.dropWhile_cons]
    split
    · exact ih _
    · rfl

theorem skipToNextLine_inp (inp : List Char) (p : Pos) :
    (skipToNextLine inp p).inp = skipLineE inp := by
  induction inp generalizing p with
  | nil => rfl
  | cons c r ih =>
    rw [skipToNextLine, skipLineE]
    split
    · exact ih _
    · rfl

theorem skipComments_inp (n : Nat) (s : LS) : (skipComments n s).inp = skipCommentsE n s.inp := by
  induction n generalizing s with
  | zero => rfl
  | succ n ih =>
    rw [skipComments, skipCommentsE]
    split
    · rw [ih]
      simp only [skipWhitespace_inp, skipToNextLine_inp]
    · rfl

theorem skipAll_inp (s : LS) : (skipAll s).inp = skipAllE s.inp := by
  simp only [skipAll, skipAllE, skipComments_inp, skipWhitespace_inp]

theorem readWhile_fst (P : Char → Bool) (inp : List Char) (p : Pos) :
    (readWhile P inp p).1 = inp.takeWhile P := by
  induction inp generalizing p with
  | nil => rfl
  | cons c r ih =>
    rw [readWhile, List.takeWhile_cons]
    split
    · simp only [ih]
    · rfl

theorem readWhile_inp (P : Char → Bool) (inp : List Char) (p : Pos) :
    (readWhile P inp p).2.inp = inp.dropWhile P := by
  induction inp generalizing p with
  | nil => rfl
  | cons c r ih =>
    rw [readWhile, List.dropWhile_cons]
    split
    · simp only [ih]
    · rfl

theorem skipNewlineWs_inp (inp : List Char) (p : Pos) (b : Bool) :
    (skipNewlineWs inp p b).2.inp = inp.dropWhile isNl := by
  induction inp generalizing p b with
  | nil => rfl
  | cons c r ih =>
    rw [skipNewlineWs, List.dropWhile_cons]
    by_cases h : (c == '\n' || c == '\r') = true
    · have h' : isNl c = true := h
      rw [if_pos h, if_pos h']
      exact ih _ _
    · have h' : ¬ isNl c = true := h
      rw [if_neg h, if_neg h']

theorem skipNewlineWs_true (inp : List Char) (p : Pos) : (skipNewlineWs inp p true).1 = true := by
  induction inp generalizing p with
  | nil => rfl
  | cons c r ih =>
    rw [skipNewlineWs]
    split
    · exact ih _
    · rfl

theorem skipNewlineWs_flag (c : Char) (r : List Char) (p : Pos) :
    (skipNewlineWs (c :: r) p false).1 = isNl c := by
  rw [skipNewlineWs]
  simp only [isNl]
  split
  · next h => rw [skipNewlineWs_true, h]
  · next h => simpa using h

theorem strBody_e (n : Nat) (s : LS) :
    (strBody n s).1 = (strBodyE n s.inp).1 ∧ (strBody n s).2.inp = (strBodyE n s.inp).2 := by
  induction n generalizing s with
  | zero => exact ⟨rfl, rfl⟩
  | succ n ih =>
    obtain ⟨inp, p⟩ := s
    cases inp with
    | nil => exact ⟨rfl, rfl⟩
    | cons c r =>
      simp only [strBody, strBodyE]
      split
      · exact ⟨rfl, rfl⟩
      · rw [skipNewlineWs_flag]
        split
        · have := ih (skipWhitespace (skipNewlineWs (c :: r) p false).2.inp
            (skipNewlineWs (c :: r) p false).2.p)
          have e : (skipWhitespace (skipNewlineWs (c :: r) p false).2.inp
              (skipNewlineWs (c :: r) p false).2.p).inp =
              ((c :: r).dropWhile isNl).dropWhile isWs := by
            rw [skipWhitespace_inp, skipNewlineWs_inp]
          rw [e] at this
          exact ⟨congrArg _ this.1, this.2⟩
        · have := ih ⟨r, adv c r p⟩
          exact ⟨congrArg _ this.1, this.2⟩

theorem readString_e (n : Nat) (s : LS) (sb : List Char) (e : Nat × Nat × Nat) :
    (readString n s sb e).1 = (readStringE n s.inp sb).1 ∧
      (readString n s sb e).2.2.inp = (readStringE n s.inp sb).2 := by
  induction n generalizing s sb e with
  | zero => exact ⟨rfl, rfl⟩
  | succ n ih =>
    simp only [readString, readStringE]
    split
    · have hb := strBody_e ((readChar s).inp.length + 1) (readChar s)
      generalize strBody ((readChar s).inp.length + 1) (readChar s) = B at hb ⊢
      rw [readChar_inp] at hb
      have := ih (skipWhitespace (readChar B.2).inp (readChar B.2).p)
        ((if sb.isEmpty then sb else sb ++ ['\n']) ++ B.1)
        ((readChar B.2).p.line, (readChar B.2).p.prevCol, (readChar B.2).p.prevUcol)
      have e2 : (skipWhitespace (readChar B.2).inp (readChar B.2).p).inp =
          ((strBodyE (s.inp.tail.length + 1) s.inp.tail).2.tail).dropWhile isWs := by
        rw [skipWhitespace_inp, readChar_inp, hb.2]
      rw [e2] at this
      rw [← hb.1]
      exact this
    · exact ⟨rfl, rfl⟩

theorem readStringToken_e (s : LS) :
    erase (readStringToken s).1 = (.STRING, String.ofList (strLitE s.inp)) ∧
      (readStringToken s).2.inp = strRestE s.inp := by
  have := readString_e (s.inp.length + 1) s [] (0, 0, 0)
  simp only [readStringToken, erase, strLitE, strRestE]
  exact ⟨by rw [this.1], this.2⟩

theorem oneTok_e (inp : List Char) (p : Pos) (c : Char) (t : TT) :
    eraseOut (oneTok ⟨inp, p⟩ c t) = oneE inp c t := by
  simp [eraseOut, oneTok, oneE, erase, newSingleCharToken, readChar_inp]

theorem twoTok_e (inp : List Char) (p : Pos) (c : Char) (t : TT) :
    eraseOut (twoTok ⟨inp, p⟩ c t) = twoE inp c t := by
  simp [eraseOut, twoTok, twoE, erase, twoCharToken, readChar_inp]

theorem illTok_e (inp : List Char) (p : Pos) (c : Char) :
    eraseOut (illTok ⟨inp, p⟩ c) = illE inp c := by
  simp [eraseOut, illTok, illE, erase, newSingleCharToken, readChar_inp]

theorem nulTok_e (inp : List Char) (p : Pos) : eraseOut (nulTok ⟨inp, p⟩) = nulE inp := by
  simp [eraseOut, nulTok, nulE, erase, eofToken, readChar_inp]

theorem strTok_e (inp : List Char) (p : Pos) : eraseOut (strTok ⟨inp, p⟩) = strE inp := by
  have := readStringToken_e ⟨inp, p⟩
  simp only [eraseOut, strTok, strE, List.map_cons, List.map_nil, this.1, this.2]

theorem rawP_eq : rawP = fun c => c != '`' && c != NUL := rfl
theorem identP_eq : identP = fun c => isLetter c || isDigit c := rfl

theorem rawTok_e (inp : List Char) (p : Pos) : eraseOut (rawTok ⟨inp, p⟩) = rawE inp := by
  simp only [rawTok, rawBody_eq, eraseOut, rawE, erase, List.map_cons, List.map_nil, readWhile_fst,
    readWhile_inp, readChar_inp, rawP_eq]

theorem hexTok_e (inp : List Char) (p : Pos) : eraseOut (hexTok ⟨inp, p⟩) = hexE inp := by
  simp only [hexTok, readHexNumber_eq, eraseOut, hexE, erase, List.map_cons, List.map_nil,
    readWhile_fst, readWhile_inp, readChar_inp]

theorem zeroTok_e (inp : List Char) (p : Pos) : eraseOut (zeroTok ⟨inp, p⟩) = numE inp := by
  simp only [zeroTok, readNumber_eq, eraseOut, numE, erase, List.map_cons, List.map_nil,
    readWhile_fst, readWhile_inp]

theorem numTok_e (inp : List Char) (p : Pos) : eraseOut (numTok ⟨inp, p⟩) = numE inp := by
  simp only [numTok, readNumber_eq, eraseOut, numE, erase, List.map_cons, List.map_nil,
    readWhile_fst, readWhile_inp]

theorem negTok_e (inp : List Char) (p : Pos) : eraseOut (negTok ⟨inp, p⟩) = negE inp := by
  simp only [negTok, readNumber_eq, eraseOut, negE, erase, List.map_cons, List.map_nil,
    readWhile_fst, readWhile_inp, readChar_inp]

theorem identTok_e (inp : List Char) (p : Pos) (c : Char) :
    eraseOut (identTok ⟨inp, p⟩ c) = identE inp c := by
  simp only [identTok, readIdentRest_eq, identE, identP_eq]
  have h3 := readStringToken_e
    (readWhile (fun c => isLetter c || isDigit c) (readChar ⟨inp, p⟩).inp (readChar ⟨inp, p⟩).p).2
  simp only [readWhile_inp, readChar_inp] at h3
  by_cases hq : (ch (List.dropWhile (fun c => isLetter c || isDigit c) inp.tail) == '"') = true
  · simp only [readWhile_inp, readWhile_fst, readChar_inp, hq, if_true, eraseOut, List.map_cons,
      List.map_nil, h3.1, h3.2]
    rfl
  · simp only [readWhile_inp, readWhile_fst, readChar_inp, hq, Bool.false_eq_true, if_false,
      eraseOut, List.map_cons, List.map_nil]
    rfl

theorem tokenAt_e (inp : List Char) (p : Pos) (c : Char) :
    eraseOut (tokenAt ⟨inp, p⟩ c) = tokenAtE inp c := by
  simp only [tokenAt, tokenAtE, apply_ite eraseOut, oneTok_e, twoTok_e, illTok_e, nulTok_e, strTok_e,
    rawTok_e, hexTok_e, zeroTok_e, numTok_e, negTok_e, identTok_e]

/-- **The model computes the erased lexer**: types, literals, remaining input and `done` flag of
one `nextToken` call are a function of the input characters alone. -/
theorem nextToken_erased (inp : List Char) (p : Pos) : eraseOut (nextToken ⟨inp, p⟩) = nextE inp := by
  rw [nextToken_eq, nextE]
  have h := skipAll_inp ⟨inp, p⟩
  generalize skipAll ⟨inp, p⟩ = sk at h
  obtain ⟨i, q⟩ := sk
  simp only at h
  rw [← h]
  cases i with
  | nil => rfl
  | cons c r => exact tokenAt_e (c :: r) q c

theorem lexLoop_erased (n : Nat) (inp : List Char) (p : Pos) :
    (lexLoop n ⟨inp, p⟩).map erase = lexLoopE n inp := by
  induction n generalizing inp p with
  | zero => rfl
  | succ n ih =>
    have h := nextToken_erased inp p
    have h1 : (nextToken ⟨inp, p⟩).1.map erase = (nextE inp).1 := congrArg (·.1) h
    have h2 : (nextToken ⟨inp, p⟩).2.1.inp = (nextE inp).2.1 := congrArg (·.2.1) h
    have h3 : (nextToken ⟨inp, p⟩).2.2 = (nextE inp).2.2 := congrArg (·.2.2) h
    simp only [lexLoop, lexLoopE]
    rw [← h1, ← h2, ← h3]
    cases hd : (nextToken ⟨inp, p⟩).2.2
    · simp [ih]
    · simp

theorem lexAll_erased (inp : List Char) : (lexAll inp).map erase = lexAllE inp :=
  lexLoop_erased _ _ _

/-- **Position independence** of one `nextToken` call: the same input with any two sets of
counters gives the same types and literals, the same remaining input and the same `done` flag. -/
theorem tokens_pos_indep (inp : List Char) (p p' : Pos) :
    (nextToken ⟨inp, p⟩).1.map erase = (nextToken ⟨inp, p'⟩).1.map erase ∧
    (nextToken ⟨inp, p⟩).2.1.inp = (nextToken ⟨inp, p'⟩).2.1.inp ∧
    (nextToken ⟨inp, p⟩).2.2 = (nextToken ⟨inp, p'⟩).2.2 := by
  have h := (nextToken_erased inp p).trans (nextToken_erased inp p').symm
  exact ⟨congrArg (·.1) h, congrArg (·.2.1) h, congrArg (·.2.2) h⟩

/-! ## Part 2: the skipping phase absorbs separators -/

theorem dropWhile_length_le (P : Char → Bool) (l : List Char) : (l.dropWhile P).length ≤ l.length := by
  induction l with
  | nil => simp
  | cons c r ih =>
    rw [List.dropWhile_cons]
    split
    · exact Nat.le_trans ih (by simp)
    · simp

theorem skipLineE_length (inp : List Char) : (skipLineE inp).length ≤ inp.length - 1 := by
  induction inp with
  | nil => simp [skipLineE]
  | cons c r ih =>
    rw [skipLineE]
    split
    · exact Nat.le_trans ih (by simp)
    · simp

theorem skipCommentsE_fuel (n m : Nat) (inp : List Char) (hn : inp.length < n) (hm : inp.length < m) :
    skipCommentsE n inp = skipCommentsE m inp := by
  induction n generalizing m inp with
  | zero => exact absurd hn (Nat.not_lt_zero _)
  | succ n ih =>
    cases m with
    | zero => exact absurd hm (Nat.not_lt_zero _)
    | succ m =>
      rw [skipCommentsE, skipCommentsE]
      split
      · next hc =>
        have hne := isCommentStart_ne_nil hc
        have hpos : 0 < inp.length := List.length_pos_iff.2 hne
        have h1 := skipLineE_length inp
        have h2 := dropWhile_length_le isWs (skipLineE inp)
        exact ih m _ (by omega) (by omega)
      · rfl

theorem isCommentStart_not_ws {c : Char} {r : List Char} (h : isCommentStart (c :: r) = true) :
    isWs c = false := by
  simp only [isCommentStart, ch, List.headD_cons, Bool.or_eq_true, Bool.and_eq_true, beq_iff_eq] at h
  rcases h with h | ⟨h, _⟩ <;> subst h <;> decide

/-- At a comment start, the skipping phase is the skipping phase after the comment line. -/
theorem skipAllE_comment (inp : List Char) (h : isCommentStart inp = true) :
    skipAllE inp = skipAllE (skipLineE inp) := by
  cases inp with
  | nil => exact absurd h (by decide)
  | cons c r =>
    have hw := isCommentStart_not_ws h
    have hd : (c :: r).dropWhile isWs = c :: r := by rw [List.dropWhile_cons, hw]; rfl
    rw [skipAllE, hd, skipCommentsE, if_pos h, skipAllE]
    have h1 := skipLineE_length (c :: r)
    have h2 := dropWhile_length_le isWs (skipLineE (c :: r))
    simp only [List.length_cons] at h1 ⊢
    exact skipCommentsE_fuel _ _ _ (by omega) (by omega)

theorem skipAllE_ws (c : Char) (r : List Char) (h : isWs c = true) : skipAllE (c :: r) = skipAllE r := by
  rw [skipAllE, List.dropWhile_cons, if_pos h, skipAllE]

theorem skipLineE_comment (body : List Char) (next : List Char)
    (hb : ∀ c ∈ body, c ≠ '\n') : skipLineE (body ++ '\n' :: next) = next := by
  induction body with
  | nil =>
    rw [List.nil_append, skipLineE, if_neg]
    decide
  | cons c body ih =>
    have := hb c (List.mem_cons_self ..)
    rw [List.cons_append, skipLineE, if_pos (by simpa using this)]
    exact ih fun x hx => hb x (List.mem_cons_of_mem _ hx)

theorem skipLineE_body (body : List Char) (hb : ∀ c ∈ body, c ≠ '\n') :
    skipLineE body = [] := by
  induction body with
  | nil => rfl
  | cons c body ih =>
    have := hb c (List.mem_cons_self ..)
    rw [skipLineE, if_pos (by simpa using this)]
    exact ih fun x hx => hb x (List.mem_cons_of_mem _ hx)

/-- Removing leading whitespace and comments does not change where the skipping phase stops. -/
theorem skipAllE_of_skips {inp rest : List Char} (h : Skips inp rest) : skipAllE inp = skipAllE rest := by
  induction h with
  | done => rfl
  | ws c r rest hw _ ih => rw [skipAllE_ws c r hw, ih]
  | comment body next rest hs hb _ ih => rw [skipAllE_comment _ hs, skipLineE_comment body next hb, ih]
  | commentEnd body hs hb => rw [skipAllE_comment _ hs, skipLineE_body body hb]

theorem nextE_of_skips {inp rest : List Char} (h : Skips inp rest) : nextE inp = nextE rest := by
  rw [nextE, nextE, skipAllE_of_skips h]

/-- The skipping phase is idempotent. -/
theorem skipAllE_idem (inp : List Char) : skipAllE (skipAllE inp) = skipAllE inp := by
  have := skipAll_skips ⟨inp, default⟩
  rw [skipAll_inp] at this
  exact (skipAllE_of_skips this).symm

/-- Nothing is skipped in front of a character that is neither whitespace nor a comment start. -/
theorem skipAllE_stop (inp : List Char) (hw : ∀ c ∈ inp.head?, isWs c = false)
    (hc : isCommentStart inp = false) : skipAllE inp = inp := by
  have hd : inp.dropWhile isWs = inp := by
    cases inp with
    | nil => rfl
    | cons c r => rw [List.dropWhile_cons, if_neg (by simp [hw c (by simp)])]
  rw [skipAllE, hd, skipCommentsE, if_neg (by simp [hc])]

theorem nextE_stop (c : Char) (r : List Char) (hw : isWs c = false)
    (hc : isCommentStart (c :: r) = false) : nextE (c :: r) = tokenAtE (c :: r) c := by
  rw [nextE, skipAllE_stop _ (by simpa using hw) hc, tokE]

/-! ## Part 3: lexemes, separators, layouts -/

/-- `LexemeAt ok lex toks`: the non-empty string `lex` is read by one `nextToken` call as the
(type, literal) sequence `toks`, whatever admissible text `tail` follows it (`ok tail` — the
`needsSep` side condition of the lexeme class), and the call stops at `tail` or, for string
literals, after some whitespace of `tail` (`Skips tail tail'`). -/
def LexemeAt (ok : List Char → Prop) (lex : List Char) (toks : List (TT × String)) : Prop :=
  lex ≠ [] ∧ ∀ tail, ok tail → ∃ tail', nextE (lex ++ tail) = (toks, tail', false) ∧ Skips tail tail'

/-- A lexeme: its characters, the tokens it is read as, and which continuations may follow it
directly (`ok`; every continuation that starts with a separator character is allowed for the
classes proved in Part 4, so `ok` only matters where two lexemes touch). -/
structure Lexeme where
  chars : List Char
  toks : List (TT × String)
  ok : List Char → Prop
  spec : LexemeAt ok chars toks

/-- A separator: a (possibly empty) run of whitespace and complete comments (`#…` or `//…` up to
and including the next newline).  The text of a comment may contain any character except newline,
NUL included (finding F16, fixed). -/
inductive Sep : List Char → Prop
  | nil : Sep []
  | ws (c : Char) (r : List Char) : isWs c = true → Sep r → Sep (c :: r)
  | comment (body : List Char) (r : List Char) : isCommentStart body = true →
      (∀ c ∈ body, c ≠ '\n') → Sep r → Sep (body ++ '\n' :: r)

/-- The last separator of a source may end in an unterminated comment. -/
inductive SepLast : List Char → Prop
  | sep (s : List Char) : Sep s → SepLast s
  | ws (c : Char) (r : List Char) : isWs c = true → SepLast r → SepLast (c :: r)
  | comment (body : List Char) (r : List Char) : isCommentStart body = true →
      (∀ c ∈ body, c ≠ '\n') → SepLast r → SepLast (body ++ '\n' :: r)
  | open_ (body : List Char) : isCommentStart body = true → (∀ c ∈ body, c ≠ '\n') →
      SepLast body

theorem isCommentStart_append {body : List Char} (h : isCommentStart body = true) (x : List Char) :
    isCommentStart (body ++ x) = true := by
  cases body with
  | nil => exact absurd h (by decide)
  | cons a b =>
    cases b with
    | nil =>
      have ha : a = '#' := by
        simp only [isCommentStart, ch, List.headD_cons, peekChar, Bool.or_eq_true, beq_iff_eq,
          Bool.and_eq_true] at h
        rcases h with h | ⟨_, h⟩
        · exact h
        · exact absurd h (by decide)
      subst ha
      rfl
    | cons b c => simpa [isCommentStart, ch, peekChar] using h

theorem Sep.skips {s : List Char} (h : Sep s) (rest : List Char) : Skips (s ++ rest) rest := by
  induction h with
  | nil => exact .done _
  | ws c r hw _ ih => exact .ws c _ _ hw ih
  | comment body r hs hb _ ih =>
    have : (body ++ '\n' :: r) ++ rest = body ++ '\n' :: (r ++ rest) := by simp
    rw [this]
    refine .comment body _ _ ?_ hb ih
    have := isCommentStart_append hs ('\n' :: (r ++ rest))
    exact this

theorem SepLast.skips {s : List Char} (h : SepLast s) : Skips s [] := by
  induction h with
  | sep s hs => simpa using hs.skips []
  | ws c r hw _ ih => exact .ws c _ _ hw ih
  | comment body r hs hb _ ih => exact .comment body _ _ (isCommentStart_append hs _) hb ih
  | open_ body hs hb => exact .commentEnd body hs hb

/-- The text of a layout: lexemes, each followed by its separator. -/
def body : List (Lexeme × List Char) → List Char
  | [] => []
  | (l, sep) :: r => l.chars ++ (sep ++ body r)

/-- A source: leading separator, then the lexemes with their separators. -/
def render (sep0 : List Char) (L : List (Lexeme × List Char)) : List Char := sep0 ++ body L

/-- A layout is admissible when every `sep` really is a separator in its context (whitespace and
comments, each comment closed by a newline unless it is the very end of the source; the text of a
comment is arbitrary apart from containing no newline — it may contain NUL) and what follows each
lexeme is an admissible continuation for it (`needsSep`). -/
def LayoutOK : List (Lexeme × List Char) → Prop
  | [] => True
  | (l, sep) :: r => Skips (sep ++ body r) (body r) ∧ l.ok (sep ++ body r) ∧ LayoutOK r

theorem body_length (L : List (Lexeme × List Char)) : L.length ≤ (body L).length := by
  induction L with
  | nil => simp
  | cons a r ih =>
    obtain ⟨l, sep⟩ := a
    have := List.length_pos_iff.2 l.spec.1
    simp only [body, List.length_cons, List.length_append]
    omega

theorem nextE_congr {a b : List Char} (h : skipAllE a = skipAllE b) : nextE a = nextE b := by
  rw [nextE, nextE, h]

theorem lexLoopE_layout (L : List (Lexeme × List Char)) (hok : LayoutOK L) (n : Nat)
    (hn : L.length < n) (inp : List Char) (hinp : skipAllE inp = skipAllE (body L)) :
    lexLoopE n inp = L.flatMap (·.1.toks) ++ [(.EOF, "")] := by
  induction L generalizing n inp with
  | nil =>
    cases n with
    | zero => exact absurd hn (Nat.not_lt_zero _)
    | succ n =>
      have h : nextE inp = ([(.EOF, "")], [], true) := by rw [nextE, hinp]; rfl
      simp [lexLoopE, h]
  | cons a r ih =>
    obtain ⟨l, sep⟩ := a
    cases n with
    | zero => exact absurd hn (Nat.not_lt_zero _)
    | succ n =>
      obtain ⟨hs, hl, hr⟩ := hok
      obtain ⟨tail', h1, h2⟩ := l.spec.2 _ hl
      have h : nextE inp = (l.toks, tail', false) := by rw [nextE_congr hinp]; exact h1
      have h3 : skipAllE tail' = skipAllE (body r) :=
        (skipAllE_of_skips h2).symm.trans (skipAllE_of_skips hs)
      simp only [lexLoopE, h, Bool.false_eq_true, if_false, List.flatMap_cons]
      rw [ih hr n (by simpa using hn) tail' h3, List.append_assoc]

/-- **Canonical form**: the erased tokens of an admissible layout are the tokens of its lexemes,
in order, followed by `EOF` — the separators do not appear. -/
theorem lexAllE_layout (sep0 : List Char) (L : List (Lexeme × List Char))
    (h0 : Skips (sep0 ++ body L) (body L)) (hok : LayoutOK L) :
    lexAllE (render sep0 L) = L.flatMap (·.1.toks) ++ [(.EOF, "")] := by
  have := body_length L
  refine lexLoopE_layout L hok _ ?_ _ (skipAllE_of_skips h0)
  simp only [render, List.length_append]
  omega

/-! ## Part 4: `LexemeAt` for the main token classes -/

theorem takeWhile_app_stop (P : Char → Bool) (l rest : List Char) (h : ∀ x ∈ l, P x = true)
    (hr : ∀ x ∈ rest.head?, P x = false) : (l ++ rest).takeWhile P = l := by
  induction l with
  | nil =>
    cases rest with
    | nil => rfl
    | cons d r => rw [List.nil_append, List.takeWhile_cons, if_neg (by simp [hr d (by simp)])]
  | cons c l ih =>
    rw [List.cons_append, List.takeWhile_cons, if_pos (h c (List.mem_cons_self ..)),
      ih fun x hx => h x (List.mem_cons_of_mem _ hx)]

theorem dropWhile_app_stop (P : Char → Bool) (l rest : List Char) (h : ∀ x ∈ l, P x = true)
    (hr : ∀ x ∈ rest.head?, P x = false) : (l ++ rest).dropWhile P = rest := by
  induction l with
  | nil =>
    cases rest with
    | nil => rfl
    | cons d r => rw [List.nil_append, List.dropWhile_cons, if_neg (by simp [hr d (by simp)])]
  | cons c l ih =>
    rw [List.cons_append, List.dropWhile_cons, if_pos (h c (List.mem_cons_self ..))]
    exact ih fun x hx => h x (List.mem_cons_of_mem _ hx)

/-- the characters the `switch` of `NextToken` tests for, whitespace and comment starts -/
def special : List Char :=
  ['*', '=', '!', '<', '>', '&', '|', '(', ')', '[', ']', ',', ':', '"', '`', '{', '}', '0', NUL,
    ' ', '\t', '\n', '\r', '#', '/', '-', 'x', RuneError]

theorem special_not_letter' : ∀ x ∈ special.erase 'x', isLetter x = false := by
  simp only [isLetter, inRanges_list]
  decide +kernel

theorem special_not_digit : ∀ x ∈ special.erase '0', isDigit x = false := by
  simp only [isDigit, inRanges_list]
  decide +kernel

theorem letter_ne_special {c : Char} (hl : isLetter c = true) : ∀ x ∈ special.erase 'x', c ≠ x := by
  intro x hx e
  subst e
  rw [special_not_letter' c hx] at hl
  exact absurd hl (by decide)

theorem digit_ne_special {c : Char} (hd : isDigit c = true) : ∀ x ∈ special.erase '0', c ≠ x := by
  intro x hx e
  subst e
  rw [special_not_digit c hx] at hd
  exact absurd hd (by decide)

theorem beq_false_of_ne' {c x : Char} (h : c ≠ x) : (c == x) = false := by simpa using h

/-- A letter goes to the identifier branch. -/
theorem tokenAtE_letter (inp : List Char) (c : Char) (hl : isLetter c = true) :
    tokenAtE inp c = identE inp c := by
  have hne := letter_ne_special hl
  have h0 : (c == '*') = false := beq_false_of_ne' (hne '*' (by decide))
  have h1 : (c == '=') = false := beq_false_of_ne' (hne '=' (by decide))
  have h2 : (c == '!') = false := beq_false_of_ne' (hne '!' (by decide))
  have h3 : (c == '<') = false := beq_false_of_ne' (hne '<' (by decide))
  have h4 : (c == '>') = false := beq_false_of_ne' (hne '>' (by decide))
  have h5 : (c == '&') = false := beq_false_of_ne' (hne '&' (by decide))
  have h6 : (c == '|') = false := beq_false_of_ne' (hne '|' (by decide))
  have h7 : (c == '(') = false := beq_false_of_ne' (hne '(' (by decide))
  have h8 : (c == ')') = false := beq_false_of_ne' (hne ')' (by decide))
  have h9 : (c == '[') = false := beq_false_of_ne' (hne '[' (by decide))
  have h10 : (c == ']') = false := beq_false_of_ne' (hne ']' (by decide))
  have h11 : (c == ',') = false := beq_false_of_ne' (hne ',' (by decide))
  have h12 : (c == ':') = false := beq_false_of_ne' (hne ':' (by decide))
  have h13 : (c == '"') = false := beq_false_of_ne' (hne '"' (by decide))
  have h14 : (c == '`') = false := beq_false_of_ne' (hne '`' (by decide))
  have h15 : (c == '{') = false := beq_false_of_ne' (hne '{' (by decide))
  have h16 : (c == '}') = false := beq_false_of_ne' (hne '}' (by decide))
  have h17 : (c == '0') = false := beq_false_of_ne' (hne '0' (by decide))
  have h18 : (c == NUL) = false := beq_false_of_ne' (hne NUL (by decide))
  simp only [tokenAtE, h0, h1, h2, h3, h4, h5, h6, h7, h8, h9, h10, h11, h12, h13, h14, h15, h16, h17, h18, hl, Bool.false_eq_true, if_false, if_true]

/-- A digit other than `0` (that is not also a letter) goes to the plain number branch. -/
theorem tokenAtE_digit (inp : List Char) (c : Char) (hd : isDigit c = true) (hl : isLetter c = false)
    (hz : c ≠ '0') : tokenAtE inp c = numE inp := by
  have hne := digit_ne_special hd
  have h0 : (c == '*') = false := beq_false_of_ne' (hne '*' (by decide))
  have h1 : (c == '=') = false := beq_false_of_ne' (hne '=' (by decide))
  have h2 : (c == '!') = false := beq_false_of_ne' (hne '!' (by decide))
  have h3 : (c == '<') = false := beq_false_of_ne' (hne '<' (by decide))
  have h4 : (c == '>') = false := beq_false_of_ne' (hne '>' (by decide))
  have h5 : (c == '&') = false := beq_false_of_ne' (hne '&' (by decide))
  have h6 : (c == '|') = false := beq_false_of_ne' (hne '|' (by decide))
  have h7 : (c == '(') = false := beq_false_of_ne' (hne '(' (by decide))
  have h8 : (c == ')') = false := beq_false_of_ne' (hne ')' (by decide))
  have h9 : (c == '[') = false := beq_false_of_ne' (hne '[' (by decide))
  have h10 : (c == ']') = false := beq_false_of_ne' (hne ']' (by decide))
  have h11 : (c == ',') = false := beq_false_of_ne' (hne ',' (by decide))
  have h12 : (c == ':') = false := beq_false_of_ne' (hne ':' (by decide))
  have h13 : (c == '"') = false := beq_false_of_ne' (hne '"' (by decide))
  have h14 : (c == '`') = false := beq_false_of_ne' (hne '`' (by decide))
  have h15 : (c == '{') = false := beq_false_of_ne' (hne '{' (by decide))
  have h16 : (c == '}') = false := beq_false_of_ne' (hne '}' (by decide))
  have h18 : (c == NUL) = false := beq_false_of_ne' (hne NUL (by decide))
  have h17 : (c == '0') = false := beq_false_of_ne' hz
  have hm : (c == '-') = false := beq_false_of_ne' (hne '-' (by decide))
  simp only [tokenAtE, h0, h1, h2, h3, h4, h5, h6, h7, h8, h9, h10, h11, h12, h13, h14, h15, h16, h18, h17, hm, hl, hd, Bool.false_eq_true, if_false, if_true, Bool.true_or]

theorem nextE_letter (c : Char) (r : List Char) (hl : isLetter c = true) :
    nextE (c :: r) = identE (c :: r) c := by
  have hne := letter_ne_special hl
  have hw : isWs c = false := by
    simp [isWs, hne ' ' (by decide), hne '\t' (by decide), hne '\n' (by decide),
      hne '\r' (by decide)]
  have hc : isCommentStart (c :: r) = false := by
    simp [isCommentStart, ch, hne '#' (by decide), hne '/' (by decide)]
  rw [nextE_stop c r hw hc, tokenAtE_letter _ _ hl]

theorem nextE_digit (c : Char) (r : List Char) (hd : isDigit c = true) (hl : isLetter c = false)
    (hz : c ≠ '0') : nextE (c :: r) = numE (c :: r) := by
  have hne := digit_ne_special hd
  have hw : isWs c = false := by
    simp [isWs, hne ' ' (by decide), hne '\t' (by decide), hne '\n' (by decide),
      hne '\r' (by decide)]
  have hc : isCommentStart (c :: r) = false := by
    simp [isCommentStart, ch, hne '#' (by decide), hne '/' (by decide)]
  rw [nextE_stop c r hw hc, tokenAtE_digit _ _ hd hl hz]

theorem peekChar_ne (c : Char) (tail : List Char) (x : Char) (hx : x ≠ NUL)
    (h : ∀ d ∈ tail.head?, d ≠ x) : (peekChar (c :: tail) == x) = false := by
  cases tail with
  | nil => exact beq_false_of_ne' fun e => hx e.symm
  | cons d r =>
    simp only [peekChar]
    split
    · exact beq_false_of_ne' fun e => hx e.symm
    · exact beq_false_of_ne' (h d (by simp))

/-- any continuation is admissible (no separator needed after the lexeme) -/
def okAny : List Char → Prop := fun _ => True

/-- punctuation and `*` -/
def punct : List (Char × TT) :=
  [('*', .MUL), ('(', .LPAREN), (')', .RPAREN), ('[', .LBRACKET), (']', .RBRACKET), (',', .COMMA),
    (':', .COLON), ('{', .LBRACE), ('}', .RBRACE)]

/-- **Punctuation** is a lexeme whatever follows. -/
theorem lexemeAt_punct (c : Char) (ty : TT) (h : (c, ty) ∈ punct) :
    LexemeAt okAny [c] [(ty, String.singleton c)] := by
  refine ⟨by simp, fun tail _ => ⟨tail, ?_, .done _⟩⟩
  simp only [punct, List.mem_cons, Prod.mk.injEq, List.not_mem_nil, or_false] at h
  rcases h with ⟨rfl, rfl⟩ | ⟨rfl, rfl⟩ | ⟨rfl, rfl⟩ | ⟨rfl, rfl⟩ | ⟨rfl, rfl⟩ | ⟨rfl, rfl⟩ |
    ⟨rfl, rfl⟩ | ⟨rfl, rfl⟩ | ⟨rfl, rfl⟩ <;>
  · rw [List.singleton_append, nextE_stop _ _ (by decide) rfl]
    simp [tokenAtE, oneE]

/-- `needsSep` for `=`, `!`, `<`, `>`: the continuation must not start with `=` (it would fuse
into `==`, `!=`, `<=`, `>=`). -/
def okNoEq (tail : List Char) : Prop := ∀ d ∈ tail.head?, d ≠ '='

def cmp1 : List (Char × TT) := [('=', .ASSIGN), ('!', .NOT), ('<', .LT), ('>', .GT)]

/-- **One-character operators** `= ! < >`, when not followed by `=`. -/
theorem lexemeAt_cmp1 (c : Char) (ty : TT) (h : (c, ty) ∈ cmp1) :
    LexemeAt okNoEq [c] [(ty, String.singleton c)] := by
  refine ⟨by simp, fun tail ht => ⟨tail, ?_, .done _⟩⟩
  have hp := peekChar_ne c tail '=' (by decide) ht
  simp only [cmp1, List.mem_cons, Prod.mk.injEq, List.not_mem_nil, or_false] at h
  rcases h with ⟨rfl, rfl⟩ | ⟨rfl, rfl⟩ | ⟨rfl, rfl⟩ | ⟨rfl, rfl⟩ <;>
  · rw [List.singleton_append, nextE_stop _ _ (by decide) rfl]
    simp [tokenAtE, oneE, hp]

def ops2 : List (Char × Char × TT) :=
  [('=', '=', .EQ), ('!', '=', .NEQ), ('<', '=', .LTE), ('>', '=', .GTE), ('&', '&', .AND),
    ('|', '|', .OR)]

/-- **Two-character operators** are lexemes whatever follows. -/
theorem lexemeAt_ops2 (c d : Char) (ty : TT) (h : (c, d, ty) ∈ ops2) :
    LexemeAt okAny [c, d] [(ty, String.ofList [c, d])] := by
  refine ⟨by simp, fun tail _ => ⟨tail, ?_, .done _⟩⟩
  simp only [ops2, List.mem_cons, Prod.mk.injEq, List.not_mem_nil, or_false] at h
  rcases h with ⟨rfl, rfl, rfl⟩ | ⟨rfl, rfl, rfl⟩ | ⟨rfl, rfl, rfl⟩ | ⟨rfl, rfl, rfl⟩ |
    ⟨rfl, rfl, rfl⟩ | ⟨rfl, rfl, rfl⟩ <;>
  · rw [List.cons_append, nextE_stop _ _ (by decide) rfl]
    simp [tokenAtE, twoE, peekChar, RuneError, ch]

/-- `needsSep` for identifiers and keywords: the continuation must not start with a letter or
digit (it would extend the identifier) nor with `"` (the identifier would become a string type). -/
def okIdent (tail : List Char) : Prop := ∀ d ∈ tail.head?, identP d = false ∧ d ≠ '"'

/-- **Identifiers and keywords**: a letter followed by letters and digits. -/
theorem lexemeAt_ident (c : Char) (cs : List Char) (hl : isLetter c = true)
    (hcs : ∀ x ∈ cs, identP x = true) :
    LexemeAt okIdent (c :: cs)
      [(getIdentType (String.ofList (c :: cs)), String.ofList (c :: cs))] := by
  refine ⟨by simp, fun tail ht => ⟨tail, ?_, .done _⟩⟩
  have h1 : ∀ x ∈ tail.head?, identP x = false := fun x hx => (ht x hx).1
  have hq : (ch tail == '"') = false := by
    cases tail with
    | nil => decide
    | cons d r => simpa [ch] using (ht d (by simp)).2
  rw [List.cons_append, nextE_letter _ _ hl]
  simp only [identE, List.tail_cons, takeWhile_app_stop identP cs tail hcs h1,
    dropWhile_app_stop identP cs tail hcs h1, hq, Bool.false_eq_true, if_false]

/-- `needsSep` for decimal numbers: the continuation must not start with a digit, nor with `x`
(after a lone `0` it would start a hexadecimal number). -/
def okNum (tail : List Char) : Prop := ∀ d ∈ tail.head?, isDigit d = false ∧ d ≠ 'x'

/-- **Decimal numbers**: a run of digits. -/
theorem lexemeAt_num (c : Char) (ds : List Char) (hd : isDigit c = true) (hl : isLetter c = false)
    (hds : ∀ x ∈ ds, isDigit x = true) :
    LexemeAt okNum (c :: ds) [(.INT, String.ofList (c :: ds))] := by
  refine ⟨by simp, fun tail ht => ⟨tail, ?_, .done _⟩⟩
  have hall : ∀ x ∈ c :: ds, isDigit x = true := by
    intro x hx
    rcases List.mem_cons.1 hx with rfl | hx
    · exact hd
    · exact hds x hx
  have h1 : ∀ x ∈ tail.head?, isDigit x = false := fun x hx => (ht x hx).1
  have hnum : numE (c :: (ds ++ tail)) = ([(.INT, String.ofList (c :: ds))], tail, false) := by
    rw [← List.cons_append, numE, takeWhile_app_stop isDigit _ tail hall h1,
      dropWhile_app_stop isDigit _ tail hall h1]
  by_cases hz : c = '0'
  · subst hz
    have hx : ∀ d ∈ (ds ++ tail).head?, d ≠ 'x' := by
      intro d hd'
      cases ds with
      | nil => exact (ht d (by simpa using hd')).2
      | cons e es =>
        simp only [List.cons_append, List.head?_cons, Option.mem_def, Option.some.injEq] at hd'
        subst hd'
        intro ex
        have := hds e (List.mem_cons_self ..)
        rw [ex, special_not_digit 'x' (by decide)] at this
        exact absurd this (by decide)
    have hp := peekChar_ne '0' (ds ++ tail) 'x' (by decide) hx
    rw [List.cons_append, nextE_stop _ _ (by decide) rfl]
    have : tokenAtE ('0' :: (ds ++ tail)) '0' = numE ('0' :: (ds ++ tail)) := by
      simp [tokenAtE, hp]
    rw [this, hnum]
  · rw [List.cons_append, nextE_digit _ _ hd hl hz, hnum]

/-- `needsSep` for hexadecimal numbers: no hexadecimal digit may follow. -/
def okHex (tail : List Char) : Prop := ∀ d ∈ tail.head?, isHexDigit d = false

/-- **Hexadecimal numbers** `0x…`. -/
theorem lexemeAt_hex (hs : List Char) (h : ∀ x ∈ hs, isHexDigit x = true) :
    LexemeAt okHex ('0' :: 'x' :: hs) [(.INT, String.ofList ('0' :: 'x' :: hs))] := by
  refine ⟨by simp, fun tail ht => ⟨tail, ?_, .done _⟩⟩
  rw [List.cons_append, List.cons_append, nextE_stop _ _ (by decide) rfl]
  have : tokenAtE ('0' :: 'x' :: (hs ++ tail)) '0' = hexE ('0' :: 'x' :: (hs ++ tail)) := by
    simp [tokenAtE, peekChar, RuneError]
  rw [this]
  simp only [hexE, List.tail_cons, takeWhile_app_stop isHexDigit hs tail h ht,
    dropWhile_app_stop isHexDigit hs tail h ht]

def asciiDigits : List Char := ['0', '1', '2', '3', '4', '5', '6', '7', '8', '9']

theorem asciiDigits_ok : ∀ x ∈ asciiDigits, isDigit x = true ∧ isLetter x = false := by
  simp only [isDigit, isLetter, inRanges_list]
  decide +kernel

/-- Decimal numbers written with ASCII digits. -/
theorem lexemeAt_asciiNum (c : Char) (ds : List Char) (hc : c ∈ asciiDigits)
    (hds : ∀ x ∈ ds, x ∈ asciiDigits) : LexemeAt okNum (c :: ds) [(.INT, String.ofList (c :: ds))] :=
  lexemeAt_num c ds (asciiDigits_ok c hc).1 (asciiDigits_ok c hc).2 fun x hx =>
    (asciiDigits_ok x (hds x hx)).1

/-- Every continuation that is empty or starts with a whitespace character, `#` or `/` is
admissible for all the classes above: separators are always allowed. -/
theorem ok_of_sepStart (tail : List Char)
    (h : ∀ d ∈ tail.head?, isWs d = true ∨ d = '#' ∨ d = '/') :
    okAny tail ∧ okNoEq tail ∧ okIdent tail ∧ okNum tail ∧ okHex tail := by
  have key : ∀ d ∈ tail.head?, d ∈ [' ', '\t', '\n', '\r', '#', '/'] := by
    intro d hd
    rcases h d hd with h | h | h
    · simp only [isWs, Bool.or_eq_true, beq_iff_eq] at h
      rcases h with ((h | h) | h) | h <;> subst h <;> decide
    · subst h; decide
    · subst h; decide
  have hsp : ∀ d ∈ [' ', '\t', '\n', '\r', '#', '/'], d ∈ special.erase 'x' ∧ d ∈ special.erase '0' ∧
      d ≠ '=' ∧ d ≠ '"' ∧ d ≠ 'x' ∧ isHexDigit d = false := by decide
  refine ⟨trivial, fun d hd => (hsp d (key d hd)).2.2.1, fun d hd => ⟨?_, (hsp d (key d hd)).2.2.2.1⟩,
    fun d hd => ⟨special_not_digit d (hsp d (key d hd)).2.1, (hsp d (key d hd)).2.2.2.2.1⟩,
    fun d hd => (hsp d (key d hd)).2.2.2.2.2⟩
  simp only [identP, special_not_letter' d (hsp d (key d hd)).1,
    special_not_digit d (hsp d (key d hd)).2.1, Bool.or_self]

/-- **Raw strings** `` `…` `` (body without back-quote and NUL): no separator needed after them; the
literal is the body with trailing Unicode white space removed. -/
theorem lexemeAt_raw (bodyCs : List Char) (h : ∀ x ∈ bodyCs, x ≠ '`' ∧ x ≠ NUL) :
    LexemeAt okAny ('`' :: (bodyCs ++ ['`'])) [(.RAWSTRING, String.ofList (trimRightSpace bodyCs))] := by
  refine ⟨by simp, fun tail _ => ⟨tail, ?_, .done _⟩⟩
  have hb : ∀ x ∈ bodyCs, rawP x = true := by
    intro x hx
    simp [rawP, (h x hx).1, (h x hx).2]
  have hq : ∀ x ∈ ('`' :: tail).head?, rawP x = false := by
    intro x hx
    simp at hx
    subst hx
    decide
  have e : ('`' :: (bodyCs ++ ['`'])) ++ tail = '`' :: (bodyCs ++ '`' :: tail) := by simp
  rw [e, nextE_stop _ _ (by decide) rfl]
  have : tokenAtE ('`' :: (bodyCs ++ '`' :: tail)) '`' = rawE ('`' :: (bodyCs ++ '`' :: tail)) := by
    simp [tokenAtE]
  rw [this]
  simp only [rawE, List.tail_cons, takeWhile_app_stop rawP bodyCs _ hb hq,
    dropWhile_app_stop rawP bodyCs _ hb hq]

/-- **Negative numbers** `-` followed by digits. -/
theorem lexemeAt_neg (c : Char) (ds : List Char) (hd : isDigit c = true)
    (hds : ∀ x ∈ ds, isDigit x = true) :
    LexemeAt okNum ('-' :: c :: ds) [(.INT, String.ofList ('-' :: c :: ds))] := by
  refine ⟨by simp, fun tail ht => ⟨tail, ?_, .done _⟩⟩
  have hall : ∀ x ∈ c :: ds, isDigit x = true := by
    intro x hx
    rcases List.mem_cons.1 hx with rfl | hx
    · exact hd
    · exact hds x hx
  have h1 : ∀ x ∈ tail.head?, isDigit x = false := fun x hx => (ht x hx).1
  have hre : (c == RuneError) = false := beq_false_of_ne' (digit_ne_special hd RuneError (by decide))
  have hpk : peekChar ('-' :: c :: (ds ++ tail)) = c := by simp [peekChar, hre]
  have hl : isLetter '-' = false := special_not_letter' '-' (by decide)
  rw [List.cons_append, List.cons_append, nextE_stop _ _ (by decide) rfl]
  have : tokenAtE ('-' :: c :: (ds ++ tail)) '-' = negE ('-' :: c :: (ds ++ tail)) := by
    have hn : ('-' == NUL) = false := by decide
    simp [tokenAtE, hpk, hl, hd, hn]
  rw [this]
  simp only [negE, List.tail_cons]
  rw [← List.cons_append, takeWhile_app_stop isDigit _ tail hall h1,
    dropWhile_app_stop isDigit _ tail hall h1]

end Pory.LexLayout
