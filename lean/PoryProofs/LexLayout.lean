import PoryProofs.LexTok
/-
Layout independence of the lexer model (`PoryModel/Lexer.lean`), used by
`PoryProofs/Properties/C19b.lean`.

Part 1  The *erased lexer*: a counter-free copy of every lexer function (`skipAllE`, `strBodyE`,
        `readStringE`, `tokenAtE`, `nextE`, `lexAllE`) working on `List Char` only and producing
        `(type, literal)` pairs, and the proof that the real model, with any counters, computes
        exactly this (`nextToken_erased`, `lexAll_erased`).  Position independence
        (`tokens_pos_indep`) is a corollary.
Part 2  The skipping phase absorbs separators: `Skips inp rest → skipAllE inp = skipAllE rest`
        (`skipAllE_of_skips`); hence `nextE_of_skips`.
Part 3  Lexemes and layouts: `LexemeAt`, `Sep`, `render`, `lexAllE_layout`.
Part 4  `LexemeAt` for punctuation, operators (with the `needsSep` side condition), identifiers /
        keywords, decimal and hexadecimal numbers, and single-part strings.
-/
namespace Pory.C19b
open Pory

/-- What layout must not change: a token's type and literal. -/
def erase (t : Tok) : TT × String := (t.type, t.lit)

end Pory.C19b

namespace Pory.LexLayout
open Pory Pory.Lexer Pory.LexPos Pory.C19b

/-! ## Part 1: the erased lexer -/

/-- erased result of one `nextToken` call: (type, literal) pairs, remaining input, `done` flag -/
abbrev EOut := List (TT × String) × List Char × Bool

def eraseOut (o : List Tok × LS × Bool) : EOut := (o.1.map erase, o.2.1.inp, o.2.2)

def skipLineE : List Char → List Char
  | [] => []
  | c :: r => if c != '\n' && c != NUL then skipLineE r else r

def skipCommentsE : Nat → List Char → List Char
  | 0, inp => inp
  | n + 1, inp =>
    if isCommentStart inp then skipCommentsE n ((skipLineE inp).dropWhile isWs) else inp

def skipAllE (inp : List Char) : List Char :=
  skipCommentsE ((inp.dropWhile isWs).length + 1) (inp.dropWhile isWs)

def isNl (c : Char) : Bool := c == '\n' || c == '\r'

def strBodyE : Nat → List Char → List Char × List Char
  | 0, inp => ([], inp)
  | _ + 1, [] => ([], [])
  | n + 1, c :: r =>
    if c == '"' || c == NUL then ([], c :: r)
    else if isNl c then
      (' ' :: (strBodyE n (((c :: r).dropWhile isNl).dropWhile isWs)).1,
        (strBodyE n (((c :: r).dropWhile isNl).dropWhile isWs)).2)
    else (c :: (strBodyE n r).1, (strBodyE n r).2)

def readStringE : Nat → List Char → List Char → List Char × List Char
  | 0, inp, sb => (sb, inp)
  | n + 1, inp, sb =>
    if ch inp == '"' then
      readStringE n (((strBodyE (inp.tail.length + 1) inp.tail).2.tail).dropWhile isWs)
        ((if sb.isEmpty then sb else sb ++ ['\n']) ++ (strBodyE (inp.tail.length + 1) inp.tail).1)
    else (sb, inp)

def rawP (c : Char) : Bool := c != '`' && c != NUL
def identP (c : Char) : Bool := isLetter c || isDigit c

def oneE (inp : List Char) (c : Char) (t : TT) : EOut := ([(t, String.singleton c)], inp.tail, false)
def twoE (inp : List Char) (c : Char) (t : TT) : EOut :=
  ([(t, String.ofList [c, ch inp.tail])], inp.tail.tail, false)
def strLitE (inp : List Char) : List Char := (readStringE (inp.length + 1) inp []).1
def strRestE (inp : List Char) : List Char := (readStringE (inp.length + 1) inp []).2
def strE (inp : List Char) : EOut := ([(.STRING, String.ofList (strLitE inp))], strRestE inp, false)
def rawE (inp : List Char) : EOut :=
  ([(.RAWSTRING, String.ofList (trimRightSpace (inp.tail.takeWhile rawP)))],
    (inp.tail.dropWhile rawP).tail, false)
def hexE (inp : List Char) : EOut :=
  ([(.INT, String.ofList ('0' :: 'x' :: inp.tail.tail.takeWhile isHexDigit))],
    inp.tail.tail.dropWhile isHexDigit, false)
def numE (inp : List Char) : EOut :=
  ([(.INT, String.ofList (inp.takeWhile isDigit))], inp.dropWhile isDigit, false)
def negE (inp : List Char) : EOut :=
  ([(.INT, String.ofList ('-' :: inp.tail.takeWhile isDigit))], inp.tail.dropWhile isDigit, false)
def identE (inp : List Char) (c : Char) : EOut :=
  if ch (inp.tail.dropWhile identP) == '"' then
    ([(.STRINGTYPE, String.ofList (c :: inp.tail.takeWhile identP)),
      (.STRING, String.ofList (strLitE (inp.tail.dropWhile identP)))],
      strRestE (inp.tail.dropWhile identP), false)
  else
    ([(getIdentType (String.ofList (c :: inp.tail.takeWhile identP)),
        String.ofList (c :: inp.tail.takeWhile identP))], inp.tail.dropWhile identP, false)
def illE (inp : List Char) (c : Char) : EOut := ([(.ILLEGAL, String.singleton c)], inp.tail, false)
def nulE (inp : List Char) : EOut := ([(.EOF, "")], inp.tail, false)

/-- the `switch l.ch` of `NextToken` without counters -/
def tokenAtE (inp : List Char) (c : Char) : EOut :=
  if c == '*' then oneE inp c .MUL
  else if c == '=' then (if peekChar inp == '=' then twoE inp c .EQ else oneE inp c .ASSIGN)
  else if c == '!' then (if peekChar inp == '=' then twoE inp c .NEQ else oneE inp c .NOT)
  else if c == '<' then (if peekChar inp == '=' then twoE inp c .LTE else oneE inp c .LT)
  else if c == '>' then (if peekChar inp == '=' then twoE inp c .GTE else oneE inp c .GT)
  else if c == '&' then (if peekChar inp == '&' then twoE inp c .AND else oneE inp c .ILLEGAL)
  else if c == '|' then (if peekChar inp == '|' then twoE inp c .OR else oneE inp c .ILLEGAL)
  else if c == '(' then oneE inp c .LPAREN
  else if c == ')' then oneE inp c .RPAREN
  else if c == '[' then oneE inp c .LBRACKET
  else if c == ']' then oneE inp c .RBRACKET
  else if c == ',' then oneE inp c .COMMA
  else if c == ':' then oneE inp c .COLON
  else if c == '"' then strE inp
  else if c == '`' then rawE inp
  else if c == '{' then oneE inp c .LBRACE
  else if c == '}' then oneE inp c .RBRACE
  else if c == '0' then (if peekChar inp == 'x' then hexE inp else numE inp)
  else if c == NUL then nulE inp
  else if isLetter c then identE inp c
  else if isDigit c || (c == '-' && isDigit (peekChar inp)) then (if c == '-' then negE inp else numE inp)
  else illE inp c

/-- the token read from an input on which the skipping phase has finished -/
def tokE (inp : List Char) : EOut :=
  match inp with
  | [] => ([(.EOF, "")], [], true)
  | c :: _ => tokenAtE inp c

/-- `nextToken` without counters -/
def nextE (inp : List Char) : EOut := tokE (skipAllE inp)

def lexLoopE : Nat → List Char → List (TT × String)
  | 0, _ => []
  | n + 1, inp => if (nextE inp).2.2 then (nextE inp).1 else (nextE inp).1 ++ lexLoopE n (nextE inp).2.1

/-- `lexAll` without counters -/
def lexAllE (inp : List Char) : List (TT × String) := lexLoopE (inp.length + 2) inp

/-! ### The model computes the erased lexer, whatever the counters -/

theorem readChar_inp (s : LS) : (readChar s).inp = s.inp.tail := by
  obtain ⟨inp, p⟩ := s
  cases inp <;> rfl

theorem skipWhitespace_inp (inp : List Char) (p : Pos) :
    (skipWhitespace inp p).inp = inp.dropWhile isWs := by
  induction inp generalizing p with
  | nil => rfl
  | cons c r ih =>
    rw [skipWhitespace, List.dropWhile_cons]
    split
    · exact ih _
    · rfl

theorem skipToNextLine_inp (inp : List Char) (p : Pos) :
    (skipToNextLine inp p).inp = skipLineE inp := by
  induction inp generalizing p with
  | nil => rfl
  | cons c r ih =>
    rw [skipToNextLine, skipLineE]
    split
    · exact ih _
    · rfl

theorem skipComments_inp (n : Nat) (s : LS) : (skipComments n s).inp = skipCommentsE n s.inp := by
  induction n generalizing s with
  | zero => rfl
  | succ n ih =>
    rw [skipComments, skipCommentsE]
    split
    · rw [ih]
      simp only [skipWhitespace_inp, skipToNextLine_inp]
    · rfl

theorem skipAll_inp (s : LS) : (skipAll s).inp = skipAllE s.inp := by
  simp only [skipAll, skipAllE, skipComments_inp, skipWhitespace_inp]

theorem readWhile_fst (P : Char → Bool) (inp : List Char) (p : Pos) :
    (readWhile P inp p).1 = inp.takeWhile P := by
  induction inp generalizing p with
  | nil => rfl
  | cons c r ih =>
    rw [readWhile, List.takeWhile_cons]
    split
    · simp only [ih]
    · rfl

theorem readWhile_inp (P : Char → Bool) (inp : List Char) (p : Pos) :
    (readWhile P inp p).2.inp = inp.dropWhile P := by
  induction inp generalizing p with
  | nil => rfl
  | cons c r ih =>
    rw [readWhile, List.dropWhile_cons]
    split
    · simp only [ih]
    · rfl

theorem skipNewlineWs_inp (inp : List Char) (p : Pos) (b : Bool) :
    (skipNewlineWs inp p b).2.inp = inp.dropWhile isNl := by
  induction inp generalizing p b with
  | nil => rfl
  | cons c r ih =>
    rw [skipNewlineWs, List.dropWhile_cons]
    by_cases h : (c == '\n' || c == '\r') = true
    · have h' : isNl c = true := h
      rw [if_pos h, if_pos h']
      exact ih _ _
    · have h' : ¬ isNl c = true := h
      rw [if_neg h, if_neg h']

theorem skipNewlineWs_true (inp : List Char) (p : Pos) : (skipNewlineWs inp p true).1 = true := by
  induction inp generalizing p with
  | nil => rfl
  | cons c r ih =>
    rw [skipNewlineWs]
    split
    · exact ih _
    · rfl

theorem skipNewlineWs_flag (c : Char) (r : List Char) (p : Pos) :
    (skipNewlineWs (c :: r) p false).1 = isNl c := by
  rw [skipNewlineWs]
  simp only [isNl]
  split
  · next h => rw [skipNewlineWs_true, h]
  · next h => simpa using h

theorem strBody_e (n : Nat) (s : LS) :
    (strBody n s).1 = (strBodyE n s.inp).1 ∧ (strBody n s).2.inp = (strBodyE n s.inp).2 := by
  induction n generalizing s with
  | zero => exact ⟨rfl, rfl⟩
  | succ n ih =>
    obtain ⟨inp, p⟩ := s
    cases inp with
    | nil => exact ⟨rfl, rfl⟩
    | cons c r =>
      simp only [strBody, strBodyE]
      split
      · exact ⟨rfl, rfl⟩
      · rw [skipNewlineWs_flag]
        split
        · have := ih (skipWhitespace (skipNewlineWs (c :: r) p false).2.inp
            (skipNewlineWs (c :: r) p false).2.p)
          have e : (skipWhitespace (skipNewlineWs (c :: r) p false).2.inp
              (skipNewlineWs (c :: r) p false).2.p).inp =
              ((c :: r).dropWhile isNl).dropWhile isWs := by
            rw [skipWhitespace_inp, skipNewlineWs_inp]
          rw [e] at this
          exact ⟨congrArg _ this.1, this.2⟩
        · have := ih ⟨r, adv c r p⟩
          exact ⟨congrArg _ this.1, this.2⟩

theorem readString_e (n : Nat) (s : LS) (sb : List Char) (e : Nat × Nat × Nat) :
    (readString n s sb e).1 = (readStringE n s.inp sb).1 ∧
      (readString n s sb e).2.2.inp = (readStringE n s.inp sb).2 := by
  induction n generalizing s sb e with
  | zero => exact ⟨rfl, rfl⟩
  | succ n ih =>
    simp only [readString, readStringE]
    split
    · have hb := strBody_e ((readChar s).inp.length + 1) (readChar s)
      generalize strBody ((readChar s).inp.length + 1) (readChar s) = B at hb ⊢
      rw [readChar_inp] at hb
      have := ih (skipWhitespace (readChar B.2).inp (readChar B.2).p)
        ((if sb.isEmpty then sb else sb ++ ['\n']) ++ B.1)
        ((readChar B.2).p.line, (readChar B.2).p.prevCol, (readChar B.2).p.prevUcol)
      have e2 : (skipWhitespace (readChar B.2).inp (readChar B.2).p).inp =
          ((strBodyE (s.inp.tail.length + 1) s.inp.tail).2.tail).dropWhile isWs := by
        rw [skipWhitespace_inp, readChar_inp, hb.2]
      rw [e2] at this
      rw [← hb.1]
      exact this
    · exact ⟨rfl, rfl⟩

theorem readStringToken_e (s : LS) :
    erase (readStringToken s).1 = (.STRING, String.ofList (strLitE s.inp)) ∧
      (readStringToken s).2.inp = strRestE s.inp := by
  have := readString_e (s.inp.length + 1) s [] (0, 0, 0)
  simp only [readStringToken, erase, strLitE, strRestE]
  exact ⟨by rw [this.1], this.2⟩

theorem oneTok_e (inp : List Char) (p : Pos) (c : Char) (t : TT) :
    eraseOut (oneTok ⟨inp, p⟩ c t) = oneE inp c t := by
  simp [eraseOut, oneTok, oneE, erase, newSingleCharToken, readChar_inp]

theorem twoTok_e (inp : List Char) (p : Pos) (c : Char) (t : TT) :
    eraseOut (twoTok ⟨inp, p⟩ c t) = twoE inp c t := by
  simp [eraseOut, twoTok, twoE, erase, twoCharToken, readChar_inp]

theorem illTok_e (inp : List Char) (p : Pos) (c : Char) :
    eraseOut (illTok ⟨inp, p⟩ c) = illE inp c := by
  simp [eraseOut, illTok, illE, erase, newSingleCharToken, readChar_inp]

theorem nulTok_e (inp : List Char) (p : Pos) : eraseOut (nulTok ⟨inp, p⟩) = nulE inp := by
  simp [eraseOut, nulTok, nulE, erase, eofToken, readChar_inp]

theorem strTok_e (inp : List Char) (p : Pos) : eraseOut (strTok ⟨inp, p⟩) = strE inp := by
  have := readStringToken_e ⟨inp, p⟩
  simp only [eraseOut, strTok, strE, List.map_cons, List.map_nil, this.1, this.2]

theorem rawTok_e (inp : List Char) (p : Pos) : eraseOut (rawTok ⟨inp, p⟩) = rawE inp := by
  simp only [rawTok, rawBody_eq]
  have h1 := readWhile_fst rawP (readChar ⟨inp, p⟩).inp (readChar ⟨inp, p⟩).p
  have h2 := readWhile_inp rawP (readChar ⟨inp, p⟩).inp (readChar ⟨inp, p⟩).p
  rw [readChar_inp] at h1 h2
  simp only [eraseOut, rawE, erase, List.map_cons, List.map_nil, readChar_inp]
  rw [← h1, ← h2]
  rfl

theorem hexTok_e (inp : List Char) (p : Pos) : eraseOut (hexTok ⟨inp, p⟩) = hexE inp := by
  simp only [hexTok, readHexNumber_eq]
  have h1 := readWhile_fst isHexDigit (readChar (readChar ⟨inp, p⟩)).inp (readChar (readChar ⟨inp, p⟩)).p
  have h2 := readWhile_inp isHexDigit (readChar (readChar ⟨inp, p⟩)).inp (readChar (readChar ⟨inp, p⟩)).p
  rw [readChar_inp, readChar_inp] at h1 h2
  simp only [eraseOut, hexE, erase, List.map_cons, List.map_nil]
  rw [← h1, ← h2]

theorem zeroTok_e (inp : List Char) (p : Pos) : eraseOut (zeroTok ⟨inp, p⟩) = numE inp := by
  simp only [zeroTok, readNumber_eq]
  have h1 := readWhile_fst isDigit inp p
  have h2 := readWhile_inp isDigit inp p
  simp only [eraseOut, numE, erase, List.map_cons, List.map_nil]
  rw [← h1, ← h2]

theorem numTok_e (inp : List Char) (p : Pos) : eraseOut (numTok ⟨inp, p⟩) = numE inp := by
  simp only [numTok, readNumber_eq]
  have h1 := readWhile_fst isDigit inp p
  have h2 := readWhile_inp isDigit inp p
  simp only [eraseOut, numE, erase, List.map_cons, List.map_nil]
  rw [← h1, ← h2]

theorem negTok_e (inp : List Char) (p : Pos) : eraseOut (negTok ⟨inp, p⟩) = negE inp := by
  simp only [negTok, readNumber_eq]
  have h1 := readWhile_fst isDigit (readChar ⟨inp, p⟩).inp (readChar ⟨inp, p⟩).p
  have h2 := readWhile_inp isDigit (readChar ⟨inp, p⟩).inp (readChar ⟨inp, p⟩).p
  rw [readChar_inp] at h1 h2
  simp only [eraseOut, negE, erase, List.map_cons, List.map_nil]
  rw [← h1, ← h2]

theorem identTok_e (inp : List Char) (p : Pos) (c : Char) :
    eraseOut (identTok ⟨inp, p⟩ c) = identE inp c := by
  simp only [identTok, readIdentRest_eq]
  have h1 := readWhile_fst identP (readChar ⟨inp, p⟩).inp (readChar ⟨inp, p⟩).p
  have h2 := readWhile_inp identP (readChar ⟨inp, p⟩).inp (readChar ⟨inp, p⟩).p
  rw [readChar_inp] at h1 h2
  simp only [identE]
  rw [← h1, ← h2]
  have h3 := readStringToken_e (readWhile identP (readChar ⟨inp, p⟩).inp (readChar ⟨inp, p⟩).p).2
  split
  · next hq =>
    rw [if_pos hq]
    simp only [eraseOut, List.map_cons, List.map_nil, h3.1, h3.2]
    rfl
  · next hq =>
    rw [if_neg hq]
    rfl

end Pory.LexLayout
