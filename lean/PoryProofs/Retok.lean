import PoryProofs.StmtGrammar
import PoryProofs.RetokAst
/-
L2 helpers, stage 1: **re-decoration of the small grammars** (conditions, command arguments, movement
items).  For every tree `x` of a grammar with printer `print` and every token list `l` with the same text
as `print x` (`l.map erase = (print x).map erase`: same length, same type and literal pointwise) there is
a tree `x'` with `print x' = l` and the same shape: `e x' = e x` for the position-erasing map `e` of the
grammar (`eLeaf`, `eOr`, `eForm`, `eItem`, `eAElem`, `eCond` …: every position record `{}`, every token
`erase`d).
-/
namespace Pory.L2
open Pory Pory.Parser Pory.C02P Pory.C10b Pory.C10c Pory.StmtG
open Pory.C14b (Item printItems)
open Pory.C11b (Form printAuto)

/-! ### same text: decomposition -/

theorem st_cons {l : List Tok} {a : Tok} {r : List Tok} (h : l.map erase = (a :: r).map erase) :
    ∃ a' l', l = a' :: l' ∧ erase a' = erase a ∧ l'.map erase = r.map erase := by
  obtain ⟨a', l', h1, h2, h3⟩ := List.map_eq_cons_iff.1 h
  exact ⟨a', l', h1, h2, h3⟩

theorem st_append {l a b : List Tok} (h : l.map erase = (a ++ b).map erase) :
    ∃ l1 l2, l = l1 ++ l2 ∧ l1.map erase = a.map erase ∧ l2.map erase = b.map erase := by
  rw [List.map_append] at h
  obtain ⟨l1, l2, h1, h2, h3⟩ := List.map_eq_append_iff.1 h
  exact ⟨l1, l2, h1, h2, h3⟩

theorem st_nil {l : List Tok} (h : l.map erase = ([] : List Tok).map erase) : l = [] := by
  simpa using h

theorem st_single {l : List Tok} {a : Tok} (h : l.map erase = [a].map erase) :
    ∃ a', l = [a'] ∧ erase a' = erase a := by
  obtain ⟨a', l', rfl, h2, h3⟩ := st_cons h
  rw [st_nil h3]
  exact ⟨a', rfl, h2⟩

theorem erase_type {a b : Tok} (h : erase a = erase b) : a.type = b.type := by
  have := congrArg Tok.type h
  exact this

theorem erase_lit {a b : Tok} (h : erase a = erase b) : a.lit = b.lit := by
  have := congrArg Tok.lit h
  exact this

@[simp] theorem erase_type' (a : Tok) : (erase a).type = a.type := rfl
@[simp] theorem erase_lit' (a : Tok) : (erase a).lit = a.lit := rfl
@[simp] theorem erase_erase (a : Tok) : erase (erase a) = erase a := rfl

/-- a token with the text `ty l` is `tkp` of its own positions -/
theorem tok_of_erase' {t : Tok} {p : TPos} {ty : TT} {l : String} (h : erase t = erase (tkp p ty l)) :
    tkp (posOf t) ty l = t := tok_of_erase h

/-! ### leaves of conditions -/

def zp : Nat → TPos := fun _ => {}

def eLeaf : Leaf → Leaf
  | .flagBare _ d x => .flagBare zp d x
  | .flagNot _ d x => .flagNot zp d x
  | .flagCmp _ d x eqv tv => .flagCmp zp d x eqv tv
  | .varBare _ x => .varBare zp x
  | .varNot _ x => .varNot zp x
  | .varCmp _ x op n => .varCmp zp x op n

theorem leaf_retok' (lf : Leaf) (ts : List Tok) (h : ts.map erase = (printLeaf lf).map erase) :
    ∃ lf', printLeaf lf' = ts ∧ eLeaf lf' = eLeaf lf := by
  cases lf with
  | flagBare ps d x =>
    cases d <;>
    · simp [printLeaf, kindTok, operandToks, List.map_eq_cons_iff] at h
      obtain ⟨t0, l0, rfl, h0, t1, l1, rfl, h1, t2, l2, rfl, h2, t3, rfl, h3⟩ := h
      refine ⟨.flagBare (fun k => posOf ([t0, t1, t2, t3].getD k default)) _ x, ?_, rfl⟩
      simp [printLeaf, kindTok, operandToks, tok_of_erase h0, tok_of_erase h1, tok_of_erase h2,
        tok_of_erase h3]
  | flagNot ps d x =>
    cases d <;>
    · simp [printLeaf, kindTok, operandToks, List.map_eq_cons_iff] at h
      obtain ⟨t0, l0, rfl, h0, t1, l1, rfl, h1, t2, l2, rfl, h2, t3, l3, rfl, h3, t4, rfl, h4⟩ := h
      refine ⟨.flagNot (fun k => posOf ([t0, t1, t2, t3, t4].getD k default)) _ x, ?_, rfl⟩
      simp [printLeaf, kindTok, operandToks, tok_of_erase h0, tok_of_erase h1, tok_of_erase h2,
        tok_of_erase h3, tok_of_erase h4]
  | flagCmp ps d x eqv tv =>
    cases d <;>
    · simp [printLeaf, kindTok, operandToks, List.map_eq_cons_iff] at h
      obtain ⟨t0, l0, rfl, h0, t1, l1, rfl, h1, t2, l2, rfl, h2, t3, l3, rfl, h3, t4, l4, rfl, h4,
        t5, rfl, h5⟩ := h
      refine ⟨.flagCmp (fun k => posOf ([t0, t1, t2, t3, t4, t5].getD k default)) _ x eqv tv, ?_, rfl⟩
      simp [printLeaf, kindTok, operandToks, tok_of_erase h0, tok_of_erase h1, tok_of_erase h2,
        tok_of_erase h3, tok_of_erase h4, tok_of_erase h5]
  | varBare ps x =>
    simp [printLeaf, operandToks, List.map_eq_cons_iff] at h
    obtain ⟨t0, l0, rfl, h0, t1, l1, rfl, h1, t2, l2, rfl, h2, t3, rfl, h3⟩ := h
    refine ⟨.varBare (fun k => posOf ([t0, t1, t2, t3].getD k default)) x, ?_, rfl⟩
    simp [printLeaf, operandToks, tok_of_erase h0, tok_of_erase h1, tok_of_erase h2,
      tok_of_erase h3]
  | varNot ps x =>
    simp [printLeaf, operandToks, List.map_eq_cons_iff] at h
    obtain ⟨t0, l0, rfl, h0, t1, l1, rfl, h1, t2, l2, rfl, h2, t3, l3, rfl, h3, t4, rfl, h4⟩ := h
    refine ⟨.varNot (fun k => posOf ([t0, t1, t2, t3, t4].getD k default)) x, ?_, rfl⟩
    simp [printLeaf, operandToks, tok_of_erase h0, tok_of_erase h1, tok_of_erase h2,
      tok_of_erase h3, tok_of_erase h4]
  | varCmp ps x op n =>
    simp [printLeaf, operandToks, Val.tok, List.map_eq_cons_iff] at h
    obtain ⟨t0, l0, rfl, h0, t1, l1, rfl, h1, t2, l2, rfl, h2, t3, l3, rfl, h3, t4, l4, rfl, h4,
      t5, rfl, h5⟩ := h
    refine ⟨.varCmp (fun k => posOf ([t0, t1, t2, t3, t4, t5].getD k default)) x op n, ?_, rfl⟩
    simp [printLeaf, operandToks, Val.tok, tok_of_erase h0, tok_of_erase h1, tok_of_erase h2,
      tok_of_erase h3, tok_of_erase h4, tok_of_erase h5]

/-! ### the boolean grammar -/

mutual
def eOr : SOr → SOr
  | .one a => .one (eAnd a)
  | .more a _ r => .more (eAnd a) {} (eOr r)
def eAnd : SAnd → SAnd
  | .one u => .one (eUn u)
  | .more u _ r => .more (eUn u) {} (eAnd r)
def eUn : SUn → SUn
  | .leaf lf => .leaf (eLeaf lf)
  | .paren n _ _ _ e => .paren n {} {} {} (eOr e)
end

mutual
theorem or_retok' (g : SOr) (ts : List Tok) (h : ts.map erase = (printOr g).map erase) :
    ∃ g', printOr g' = ts ∧ eOr g' = eOr g := by
  cases g with
  | one a =>
    obtain ⟨a', h1, h2⟩ := and_retok' a ts (by simpa [printOr] using h)
    exact ⟨.one a', by simpa [printOr] using h1, by simp [eOr, h2]⟩
  | more a p r =>
    simp only [printOr, List.map_append, List.map_cons, List.map_eq_append_iff,
      List.map_eq_cons_iff, erase_tkp] at h
    obtain ⟨l1, l2, rfl, ha, t, l3, rfl, ht, hr⟩ := h
    obtain ⟨a', h1, h2⟩ := and_retok' a l1 ha
    obtain ⟨r', h3, h4⟩ := or_retok' r l3 hr
    exact ⟨.more a' (posOf t) r', by simp [printOr, h1, h3, tok_of_erase ht], by simp [eOr, h2, h4]⟩
theorem and_retok' (a : SAnd) (ts : List Tok) (h : ts.map erase = (printAnd a).map erase) :
    ∃ a', printAnd a' = ts ∧ eAnd a' = eAnd a := by
  cases a with
  | one u =>
    obtain ⟨u', h1, h2⟩ := un_retok' u ts (by simpa [printAnd] using h)
    exact ⟨.one u', by simpa [printAnd] using h1, by simp [eAnd, h2]⟩
  | more u p r =>
    simp only [printAnd, List.map_append, List.map_cons, List.map_eq_append_iff,
      List.map_eq_cons_iff, erase_tkp] at h
    obtain ⟨l1, l2, rfl, hu, t, l3, rfl, ht, hr⟩ := h
    obtain ⟨u', h1, h2⟩ := un_retok' u l1 hu
    obtain ⟨r', h3, h4⟩ := and_retok' r l3 hr
    exact ⟨.more u' (posOf t) r', by simp [printAnd, h1, h3, tok_of_erase ht], by simp [eAnd, h2, h4]⟩
theorem un_retok' (u : SUn) (ts : List Tok) (h : ts.map erase = (printUn u).map erase) :
    ∃ u', printUn u' = ts ∧ eUn u' = eUn u := by
  cases u with
  | leaf lf =>
    obtain ⟨lf', h1, h2⟩ := leaf_retok' lf ts (by simpa [printUn] using h)
    exact ⟨.leaf lf', by simpa [printUn] using h1, by simp [eUn, h2]⟩
  | paren n pn pl pr e =>
    cases n with
    | false =>
      simp only [printUn, Bool.false_eq_true, if_false, List.nil_append, List.map_append,
        List.map_cons, List.map_nil, List.map_eq_append_iff, List.map_eq_cons_iff, erase_tkp] at h
      obtain ⟨t1, l1, rfl, h1, l2, l3, rfl, he, t2, l4, rfl, h2, hnil⟩ := h
      obtain ⟨e', h3, h4⟩ := or_retok' e l2 he
      have : l4 = [] := by simpa using hnil
      subst this
      exact ⟨.paren false {} (posOf t1) (posOf t2) e',
        by simp [printUn, h3, tok_of_erase h1, tok_of_erase h2], by simp [eUn, h4]⟩
    | true =>
      simp only [printUn, if_true, List.cons_append, List.nil_append, List.map_append,
        List.map_cons, List.map_nil, List.map_eq_append_iff, List.map_eq_cons_iff, erase_tkp] at h
      obtain ⟨t0, l0, rfl, h0, t1, l1, rfl, h1, l2, l3, rfl, he, t2, l4, rfl, h2, hnil⟩ := h
      obtain ⟨e', h3, h4⟩ := or_retok' e l2 he
      have : l4 = [] := by simpa using hnil
      subst this
      exact ⟨.paren true (posOf t0) (posOf t1) (posOf t2) e',
        by simp [printUn, h3, tok_of_erase h0, tok_of_erase h1, tok_of_erase h2], by simp [eUn, h4]⟩
end

/-! ### command arguments -/

def eMore (more : List (Tok × List Tok)) : List (Tok × List Tok) :=
  more.map fun p => (erase p.1, p.2.map erase)

theorem more_retok : ∀ (more : List (Tok × List Tok)) (l : List Tok),
    l.map erase = (printMore more).map erase → ∃ more', printMore more' = l ∧ eMore more' = eMore more
  | [], l, h => by
    have hl : l = [] := st_nil (by simpa [printMore] using h)
    subst hl
    exact ⟨[], rfl, rfl⟩
  | (c, a) :: m, l, h => by
    simp only [printMore] at h
    obtain ⟨c', l1, rfl, hc, k1⟩ := st_cons h
    obtain ⟨a', l2, rfl, ha, k2⟩ := st_append k1
    obtain ⟨m', rfl, hm⟩ := more_retok m l2 k2
    exact ⟨(c', a') :: m', rfl, by simp only [eMore, List.map_cons, hc, ha] at hm ⊢; rw [hm]⟩

/-- `name ( a0 , … )` -/
theorem cmd_retok (name lp : Tok) (a0 : List Tok) (more : List (Tok × List Tok)) (rp : Tok) (l : List Tok)
    (h : l.map erase = (printCmd name lp a0 more rp).map erase) :
    ∃ name' lp' a0' more' rp', printCmd name' lp' a0' more' rp' = l ∧ erase name' = erase name ∧
      erase lp' = erase lp ∧ a0'.map erase = a0.map erase ∧ eMore more' = eMore more ∧
      erase rp' = erase rp := by
  simp only [printCmd] at h
  obtain ⟨name', l1, rfl, h1, k1⟩ := st_cons h
  obtain ⟨lp', l2, rfl, h2, k2⟩ := st_cons k1
  obtain ⟨a0', l3, rfl, h3, k3⟩ := st_append k2
  obtain ⟨l4, l5, rfl, k4, k5⟩ := st_append k3
  obtain ⟨more', rfl, h4⟩ := more_retok more l4 k4
  obtain ⟨rp', rfl, h5⟩ := st_single k5
  exact ⟨name', lp', a0', more', rp', rfl, h1, h2, h3, h4, h5⟩

/-! ### movement items -/

def eItem : Item → Item
  | .step n => .step (erase n)
  | .stepMul n s m => .stepMul (erase n) (erase s) (erase m)
  | .comma t => .comma (erase t)

theorem items_retok : ∀ (items : List Item) (l : List Tok),
    l.map erase = (printItems items).map erase →
      ∃ items', printItems items' = l ∧ items'.map eItem = items.map eItem
  | [], l, h => by
    have hl : l = [] := st_nil (by simpa [printItems] using h)
    subst hl
    exact ⟨[], rfl, rfl⟩
  | i :: r, l, h => by
    simp only [printItems] at h
    obtain ⟨l1, l2, rfl, h1, k2⟩ := st_append h
    obtain ⟨r', rfl, hr⟩ := items_retok r l2 k2
    cases i with
    | step n =>
      obtain ⟨n', rfl, hn⟩ := st_single (by simpa [Item.toks] using h1)
      exact ⟨.step n' :: r', rfl, by simp [eItem, hn, hr]⟩
    | stepMul n s m =>
      simp only [Item.toks] at h1
      obtain ⟨n', l3, rfl, hn, k3⟩ := st_cons h1
      obtain ⟨s', l4, rfl, hs, k4⟩ := st_cons k3
      obtain ⟨m', rfl, hm⟩ := st_single k4
      exact ⟨.stepMul n' s' m' :: r', rfl, by simp [eItem, hn, hs, hm, hr]⟩
    | comma t =>
      obtain ⟨t', rfl, ht⟩ := st_single (by simpa [Item.toks] using h1)
      exact ⟨.comma t' :: r', rfl, by simp [eItem, ht, hr]⟩

/-! ### arguments with string literals and `moves( … )` -/

def eAElem : AElem → AElem
  | .tok t => .tok (erase t)
  | .str t => .str (erase t)
  | .tstr ty t => .tstr (erase ty) (erase t)
  | .moves mv lp items rp => .moves (erase mv) (erase lp) (items.map eItem) (erase rp)

theorem argE_retok : ∀ (a : List AElem) (l : List Tok),
    l.map erase = (printArgE a).map erase → ∃ a', printArgE a' = l ∧ a'.map eAElem = a.map eAElem
  | [], l, h => by
    have hl : l = [] := st_nil (by simpa [printArgE] using h)
    subst hl
    exact ⟨[], rfl, rfl⟩
  | e :: r, l, h => by
    simp only [printArgE] at h
    obtain ⟨l1, l2, rfl, h1, k2⟩ := st_append h
    obtain ⟨r', rfl, hr⟩ := argE_retok r l2 k2
    cases e with
    | tok t =>
      obtain ⟨t', rfl, ht⟩ := st_single (by simpa [AElem.toks] using h1)
      exact ⟨.tok t' :: r', rfl, by simp [eAElem, ht, hr]⟩
    | str t =>
      obtain ⟨t', rfl, ht⟩ := st_single (by simpa [AElem.toks] using h1)
      exact ⟨.str t' :: r', rfl, by simp [eAElem, ht, hr]⟩
    | tstr ty t =>
      simp only [AElem.toks] at h1
      obtain ⟨ty', l3, rfl, hty, k3⟩ := st_cons h1
      obtain ⟨t', rfl, ht⟩ := st_single k3
      exact ⟨.tstr ty' t' :: r', rfl, by simp [eAElem, hty, ht, hr]⟩
    | moves mv lp items rp =>
      simp only [AElem.toks] at h1
      obtain ⟨mv', l3, rfl, hmv, k3⟩ := st_cons h1
      obtain ⟨lp', l4, rfl, hlp, k4⟩ := st_cons k3
      obtain ⟨l5, l6, rfl, k5, k6⟩ := st_append k4
      obtain ⟨items', rfl, hi⟩ := items_retok items l5 k5
      obtain ⟨rp', rfl, hrp⟩ := st_single k6
      exact ⟨.moves mv' lp' items' rp' :: r', rfl, by simp [eAElem, hmv, hlp, hi, hrp, hr]⟩

def eMoreE (more : List (Tok × List AElem)) : List (Tok × List AElem) :=
  more.map fun p => (erase p.1, p.2.map eAElem)

theorem moreE_retok : ∀ (more : List (Tok × List AElem)) (l : List Tok),
    l.map erase = (printMoreE more).map erase → ∃ more', printMoreE more' = l ∧ eMoreE more' = eMoreE more
  | [], l, h => by
    have hl : l = [] := st_nil (by simpa [printMoreE] using h)
    subst hl
    exact ⟨[], rfl, rfl⟩
  | (c, a) :: m, l, h => by
    simp only [printMoreE] at h
    obtain ⟨c', l1, rfl, hc, k1⟩ := st_cons h
    obtain ⟨l2, l3, rfl, k2, k3⟩ := st_append k1
    obtain ⟨a', rfl, ha⟩ := argE_retok a l2 k2
    obtain ⟨m', rfl, hm⟩ := moreE_retok m l3 k3
    exact ⟨(c', a') :: m', rfl, by simp only [eMoreE, List.map_cons, hc, ha] at hm ⊢; rw [hm]⟩

theorem cmdE_retok (name lp : Tok) (a0 : List AElem) (more : List (Tok × List AElem)) (rp : Tok)
    (l : List Tok) (h : l.map erase = (printCmdE name lp a0 more rp).map erase) :
    ∃ name' lp' a0' more' rp', printCmdE name' lp' a0' more' rp' = l ∧ erase name' = erase name ∧
      erase lp' = erase lp ∧ a0'.map eAElem = a0.map eAElem ∧ eMoreE more' = eMoreE more ∧
      erase rp' = erase rp := by
  simp only [printCmdE] at h
  obtain ⟨name', l1, rfl, h1, k1⟩ := st_cons h
  obtain ⟨lp', l2, rfl, h2, k2⟩ := st_cons k1
  obtain ⟨l3, l4, rfl, k3, k4⟩ := st_append k2
  obtain ⟨a0', rfl, h3⟩ := argE_retok a0 l3 k3
  obtain ⟨l5, l6, rfl, k5, k6⟩ := st_append k4
  obtain ⟨more', rfl, h4⟩ := moreE_retok more l5 k5
  obtain ⟨rp', rfl, h5⟩ := st_single k6
  exact ⟨name', lp', a0', more', rp', rfl, h1, h2, h3, h4, h5⟩

/-! ### conditions -/

def eForm : Form → Form
  | .bare => .bare
  | .cmp _ _ l1 op v => .cmp {} {} l1 op v
  | .neg _ l => .neg {} l

def eCond : SCond → SCond
  | .plain g => .plain (eOr g)
  | .auto fm name lp a0 more rp =>
      .auto (eForm fm) (erase name) (erase lp) (a0.map erase) (eMore more) (erase rp)

theorem cond_retok (c : SCond) (l : List Tok) (h : l.map erase = (printCond c).map erase) :
    ∃ c', printCond c' = l ∧ eCond c' = eCond c := by
  cases c with
  | plain g =>
    obtain ⟨g', h1, h2⟩ := or_retok' g l (by simpa [printCond] using h)
    exact ⟨.plain g', by simpa [printCond] using h1, by simp [eCond, h2]⟩
  | auto fm name lp a0 more rp =>
    simp only [printCond, printAuto] at h
    obtain ⟨l1, l0, rfl, h1, k0⟩ := st_append h
    obtain ⟨l2, l3, rfl, h2, h3⟩ := st_append k0
    obtain ⟨name', lp', a0', more', rp', rfl, e1, e2, e3, e4, e5⟩ := cmd_retok name lp a0 more rp l2 h2
    cases fm with
    | bare =>
      have e6 : l1 = [] := st_nil (by simpa [Form.pre] using h1)
      have e7 : l3 = [] := st_nil (by simpa [Form.post] using h3)
      subst e6 e7
      exact ⟨.auto .bare name' lp' a0' more' rp', by simp [printCond, printAuto, Form.pre, Form.post],
        by simp [eCond, eForm, e1, e2, e3, e4, e5]⟩
    | cmp p1 p2 s1 op v =>
      have e6 : l1 = [] := st_nil (by simpa [Form.pre] using h1)
      subst e6
      simp only [Form.post, Val.tok] at h3
      obtain ⟨t1, l4, rfl, ht1, k4⟩ := st_cons h3
      obtain ⟨t2, rfl, ht2⟩ := st_single k4
      exact ⟨.auto (.cmp (posOf t1) (posOf t2) s1 op v) name' lp' a0' more' rp',
        by simp [printCond, printAuto, Form.pre, Form.post, Val.tok, tok_of_erase' ht1, tok_of_erase' ht2],
        by simp [eCond, eForm, e1, e2, e3, e4, e5]⟩
    | neg p s =>
      have e7 : l3 = [] := st_nil (by simpa [Form.post] using h3)
      subst e7
      simp only [Form.pre] at h1
      obtain ⟨t1, rfl, ht1⟩ := st_single h1
      exact ⟨.auto (.neg (posOf t1) s) name' lp' a0' more' rp',
        by simp [printCond, printAuto, Form.pre, Form.post, tok_of_erase' ht1],
        by simp [eCond, eForm, e1, e2, e3, e4, e5]⟩

end Pory.L2
