import PoryProofs.CmdGenMS
/-
P1c helpers: the commands of P1b (`CmdGen.CmdF`) are the special case of `P1c.CmdM` without `movesS` elements.
`ofF : CmdF → CmdM` wraps every element in `MElem.base`; printing, the token-type side condition, the reference
elaboration (node, implicit data, located error), the fuel need, name and last token commute with it.
-/
namespace Pory.P1c
open Pory Pory.Parser Pory.C02P Pory.C10b Pory.C10c Pory.TextValueParse Pory.CmdGen

def ofArg (a : List IElem) : List MElem := a.map .base
def ofMore (more : List (Tok × List IElem)) : List (Tok × List MElem) := more.map fun p => (p.1, ofArg p.2)

/-- A command of P1b as a command of P1c. -/
def ofF : CmdF → CmdM
  | .args name lp a0 more rp => .args name lp (ofArg a0) (ofMore more) rp
  | .empty name lp rp => .empty name lp rp
  | .bare name => .bare name

theorem skel_ofArg (a : List IElem) : (ofArg a).map MElem.skel = a.map IElem.skel := by
  induction a with
  | nil => rfl
  | cons e r ih => simp only [ofArg, List.map_cons, MElem.skel, List.cons.injEq, true_and] at ih ⊢; exact ih

theorem printArgM_ofArg (a : List IElem) : printArgM (ofArg a) = printArgI a := by
  induction a with
  | nil => rfl
  | cons e r ih => simp only [ofArg, List.map_cons, printArgM, printArgI, MElem.toks] at ih ⊢; rw [ih]

theorem printMoreM_ofMore (more : List (Tok × List IElem)) : printMoreM (ofMore more) = printMoreI more := by
  induction more with
  | nil => rfl
  | cons p m ih =>
    simp only [ofMore, List.map_cons, printMoreM, printMoreI, printArgM_ofArg] at ih ⊢; rw [ih]

theorem argErrM_ofArg (env : Env) (a : List IElem) : argErrM env (ofArg a) = CmdGen.argErr env a := by
  induction a with
  | nil => rfl
  | cons e r ih => simp only [ofArg, List.map_cons, argErrM, CmdGen.argErr, melemErr] at ih ⊢; rw [ih]

theorem argsErrM_ofArg (env : Env) (args : List (List IElem)) :
    argsErrM env (args.map ofArg) = CmdGen.argsErr env args := by
  induction args with
  | nil => rfl
  | cons a r ih => simp only [List.map_cons, argsErrM, CmdGen.argsErr, argErrM_ofArg, ih]

theorem argOkM_ofArg (a : List IElem) : argOkM (ofArg a) = argOk a := by
  have h1 : (ofArg a).isEmpty = a.isEmpty := by cases a <;> rfl
  have h2 : ∀ a : List IElem, (ofArg a).all melemOk = a.all elemOk := by
    intro a
    induction a with
    | nil => rfl
    | cons e r ih => simp only [ofArg, List.map_cons, List.all_cons, melemOk] at ih ⊢; rw [ih]
  simp only [argOkM, argOk, h1, h2 a, skel_ofArg]

theorem renderArgM_ofArg (σ : String → String) (a : List IElem) : renderArgM σ (ofArg a) = renderArgI σ a := by
  simp [renderArgM, renderArgI, skel_ofArg]

theorem impArgM_ofArg (env : Env) (sn : String) (cid : Nat) (ct : Tok) (pos : Nat) (a : List IElem) :
    impArgM env sn cid ct pos (ofArg a) = impArgI env sn cid ct pos a := by
  induction a with
  | nil => rfl
  | cons e r ih => simp only [ofArg, List.map_cons, impArgM, impArgI, impOfM] at ih ⊢; rw [ih]

theorem impArgsM_ofArg (env : Env) (sn : String) (cid : Nat) (ct : Tok) (pos : Nat) (args : List (List IElem)) :
    impArgsM env sn cid ct pos (args.map ofArg) = impArgsI env sn cid ct pos args := by
  induction args generalizing pos with
  | nil => rfl
  | cons a r ih => simp only [List.map_cons, impArgsM, impArgsI, impArgM_ofArg, ih]

theorem needArgM_ofArg (a : List IElem) : needArgM (ofArg a) = needArgI a := by
  induction a with
  | nil => rfl
  | cons e r ih => simp only [ofArg, List.map_cons, needArgM, needArgI, MElem.need] at ih ⊢; rw [ih]

theorem needCmdM_ofArg (a0 : List IElem) (more : List (Tok × List IElem)) :
    needCmdM (ofArg a0) (ofMore more) = needCmdI a0 more := by
  have h1 : ∀ more : List (Tok × List IElem), stepsMoreM (ofMore more) = stepsMoreI more := by
    intro more
    induction more with
    | nil => rfl
    | cons p m ih => simp only [ofMore, List.map_cons, stepsMoreM, stepsMoreI] at ih ⊢; rw [ih]; simp [ofArg]
  have h2 : ∀ more : List (Tok × List IElem), needMoreM (ofMore more) = needMoreI more := by
    intro more
    induction more with
    | nil => rfl
    | cons p m ih => simp only [ofMore, List.map_cons, needMoreM, needMoreI, needArgM_ofArg] at ih ⊢; rw [ih]
  have h3 : (ofArg a0).length = a0.length := by simp [ofArg]
  simp only [needCmdM, needCmdI, h1, h2, needArgM_ofArg, h3]

theorem map_snd_ofMore (more : List (Tok × List IElem)) :
    (ofMore more).map (·.2) = (more.map (·.2)).map ofArg := by
  simp [ofMore, Function.comp_def]

theorem ofF_print (c : CmdF) : (ofF c).print = c.print := by
  cases c with
  | args name lp a0 more rp =>
    simp [ofF, CmdM.print, CmdF.print, printCmdM, printCmdI, printArgM_ofArg, printMoreM_ofMore]
  | empty name lp rp => rfl
  | bare name => rfl

theorem ofF_name (c : CmdF) : (ofF c).name = c.name := by cases c <;> rfl
theorem ofF_last (c : CmdF) : (ofF c).last = c.last := by cases c <;> rfl

theorem ofF_argList (c : CmdF) : (ofF c).argList = c.argList.map ofArg := by
  cases c with
  | args name lp a0 more rp => simp [ofF, CmdM.argList, CmdF.argList, map_snd_ofMore]
  | empty name lp rp => rfl
  | bare name => rfl

theorem ofF_nargs (c : CmdF) : (ofF c).nargs = c.nargs := by
  simp [CmdM.nargs, CmdF.nargs, ofF_argList]

theorem ofF_ok (c : CmdF) : (ofF c).ok = c.ok := by
  cases c with
  | args name lp a0 more rp =>
    have : (ofMore more).all (fun p => p.1.type == .COMMA && argOkM p.2) =
        more.all (fun p => p.1.type == .COMMA && argOk p.2) := by
      induction more with
      | nil => rfl
      | cons p m ih => simp only [ofMore, List.map_cons, List.all_cons, argOkM_ofArg] at ih ⊢; rw [ih]
    simp only [ofF, CmdM.ok, CmdF.ok, argOkM_ofArg, this]
  | empty name lp rp => rfl
  | bare name => rfl

theorem ofF_need (c : CmdF) : (ofF c).need = c.need := by
  cases c with
  | args name lp a0 more rp => simp only [ofF, CmdM.need, CmdF.need, needCmdM_ofArg]
  | empty name lp rp => rfl
  | bare name => rfl

/-- The reference elaboration commutes with the embedding: node, implicit data, located error. -/
theorem ofF_elabC (env : Env) (sn : String) (σ : String → String) (cid : Nat) (c : CmdF) :
    (ofF c).elabC env sn σ cid = c.elabC env sn σ cid := by
  have hr : (ofF c).rendered σ = c.rendered σ := by
    simp [CmdM.rendered, CmdF.rendered, ofF_argList, Function.comp_def, renderArgM_ofArg]
  simp only [CmdM.elabC, CmdF.elabC, ofF_argList, argsErrM_ofArg, CmdM.node, CmdF.node, CmdM.imp, CmdF.imp,
    impArgsM_ofArg, ofF_name, hr]
  cases argsErr env c.argList <;> rfl

end Pory.P1c
