import PoryProofs.StmtParseMS
/-
P1c (statement grammar with poryswitch inside `moves( … )` arguments), stage 3 companions: what the errors of the
reference elaboration are.  Same structure as `PoryProofs/StmtParseErr2.lean` (re-run for the command form `CmdM`).

* `ListViolation env e` : the located errors of a movement list with poryswitch elements (`P2d.elItems`):
  `poryswitch` without any `-s` / with an undefined switch / without a matching case (environment errors on),
  and a rejected multiplier `step * N`; `elItems_error` : every error of `P2d.elItems` is one of them;
* `Violation env e` : `e` is one of the documented located errors — those of P1b (`Violation.format`: inline
  `format( … )` that cannot be formatted) and `Violation.moves`: a `ListViolation` of a `moves( … )` argument;
  `elabL_error` : every error the reference elaboration returns is a `Violation`;
* `elabL_append` : a statement list is elaborated left to right;
* `break_outside_rejected`, `continue_outside_rejected`, `continue_not_last_rejected`.
-/
namespace Pory.P1c
set_option linter.unusedSectionVars false
open Pory Pory.Parser Pory.C02P Pory.C10b Pory.BoolGen Pory.CmdGen Pory.TextValueParse
open Pory.C10c (add_assoc nil_add add_nil)
open Pory.StmtG (breakOutsideErr continueOutsideErr continueNotLastErr duplicateCaseErr secondDefaultErr
  emptySwitchErr notAutoVarErr badPosErr autoPosBad notLeafErr noSwitchesErr undefinedSwitchErr noPoryCaseErr
  Ctx ctxOf err_inj)


/-! ### the errors of a movement list with poryswitch elements -/

/-- The located errors of `P2d.elItems`. -/
inductive ListViolation (env : Env) : PFail → Prop
  /-- `poryswitch` although no `-s` option was given (environment errors on): on the `poryswitch` token -/
  | noSwitches (psw : Tok) (h1 : env.envErrors = true) (h2 : env.switches = []) :
      ListViolation env (P2d.noSwitchesErr psw)
  /-- the switch is not defined by any `-s` option (environment errors on): on the switch name -/
  | undefSwitch (x : Tok) (h1 : env.envErrors = true) (h2 : env.switches.lookup x.lit = none) :
      ListViolation env (P2d.undefSwitchErr x)
  /-- neither a case for the `-s` value nor `_` (environment errors on): on the `poryswitch` token -/
  | noCase (psw x : Tok) (h1 : env.envErrors = true) : ListViolation env (P2d.noCaseErr env psw x)
  /-- `step * N` with `N` not a base-0 literal in 1 … 9999: on the multiplier token -/
  | badMul (x : Tok) (me : C14b.MulErr) (h : C14b.mulCheck x.lit = .error me) :
      ListViolation env (P2d.badMulErr x me)

theorem headerErr_violation (env : Env) (psw x : Tok) (e : PFail) (h : P2d.headerErr env psw x = some e) :
    ListViolation env e := by
  unfold P2d.headerErr at h
  split at h
  · rename_i h1; cases h; exact .noSwitches psw h1.1 h1.2
  · split at h
    · rename_i h1; cases h; exact .undefSwitch x h1.1 h1.2
    · cases h

theorem pick_violation {α : Type} (env : Env) (psw x : Tok) (cs : List (String × α)) (d : α) (e : PFail)
    (h : P2d.pick env psw x cs d = .error e) : ListViolation env e := by
  unfold P2d.pick at h
  split at h
  · cases h
  · split at h
    · cases h
    · split at h
      · rename_i h1; cases err_inj h; exact .noCase psw x h1
      · cases h

open Pory.C14b (ItemP Cases Items) in
mutual
theorem elItem_error (env : Env) : (i : ItemP) → ∀ (e : PFail), P2d.elItem env i = .error e → ListViolation env e
  | .plain it, e, h => by
    cases it with
    | step n => simp [P2d.elItem, P2d.plainEl] at h
    | stepMul n st' x =>
      simp only [P2d.elItem, P2d.plainEl] at h
      split at h
      · cases h
      · rename_i me hk; cases err_inj h; exact .badMul x me hk
    | comma t => simp [P2d.elItem, P2d.plainEl] at h
  | .sw psw lp x rp lb cases rb, e, h => by
    simp only [P2d.elItem] at h
    split at h
    · rename_i e' hh; cases err_inj h; exact headerErr_violation env psw x _ hh
    · split at h
      · rename_i e' h1; cases err_inj h; exact elCases_error env cases [] _ h1
      · exact pick_violation env psw x _ _ _ h
theorem elCases_error (env : Env) : (cs : Cases) → ∀ (acc : List (String × List Tok)) (e : PFail),
    P2d.elCases env cs acc = .error e → ListViolation env e
  | .nil, _, _, h => by simp [P2d.elCases] at h
  | .colon v c it rest, acc, e, h => by
    simp only [P2d.elCases] at h
    split at h
    · rename_i e' h1; cases err_inj h; exact elItem_error env it _ h1
    · exact elCases_error env rest _ _ h
  | .brace v lb items rb rest, acc, e, h => by
    simp only [P2d.elCases] at h
    split at h
    · rename_i e' h1; cases err_inj h; exact elItems_error env items _ h1
    · exact elCases_error env rest _ _ h
theorem elItems_error (env : Env) : (is : Items) → ∀ (e : PFail), P2d.elItems env is = .error e → ListViolation env e
  | .nil, _, h => by simp [P2d.elItems] at h
  | .cons i r, e, h => by
    simp only [P2d.elItems] at h
    split at h
    · rename_i e' h1; cases err_inj h; exact elItem_error env i _ h1
    · split at h
      · rename_i e' h2; cases err_inj h; exact elItems_error env r _ h2
      · cases h
end

/-- The documented violations, as the located errors the parser reports. -/
inductive Violation (env : Env) : PFail → Prop
  | breakOutside (t : Tok) : Violation env (breakOutsideErr t)
  | continueOutside (t : Tok) : Violation env (continueOutsideErr t)
  | continueNotLast (t : Tok) : Violation env (continueNotLastErr t)
  | duplicateCase (c colon : Tok) (v : String) : Violation env (duplicateCaseErr c colon v)
  | secondDefault (d : Tok) : Violation env (secondDefaultErr d)
  | emptySwitch (sw rb : Tok) : Violation env (emptySwitchErr sw rb)
  /-- a condition leaf `name…` with `name` not a configured auto-var command -/
  | notLeaf (name : Tok) : Violation env (notLeafErr name)
  /-- `switch (name…)` with `name` not a configured auto-var command -/
  | notAutoVar (name : Tok) : Violation env (notAutoVarErr name)
  /-- the configured argument position of an auto-var command addresses no argument -/
  | badPos (name last : Tok) (pos : Int) (nargs : Nat) : Violation env (badPosErr name last pos nargs)
  | noSwitches (ps : Tok) : Violation env (noSwitchesErr ps)
  | undefinedSwitch (x : Tok) : Violation env (undefinedSwitchErr x)
  | noPoryCase (ps x : Tok) (v : String) : Violation env (noPoryCaseErr ps x v)
  /-- an inline `format( … )` whose text cannot be formatted (unknown font, environment errors on; C07b) -/
  | format (x : IElem) (e : PFail) (h : elemErr env x = some e) : Violation env e
  /-- a `moves( … )` argument whose list cannot be elaborated -/
  | moves (e : PFail) (h : ListViolation env e) : Violation env e

theorem argErrM_some (env : Env) : ∀ (a : List MElem) (e : PFail), argErrM env a = some e →
    ∃ x, melemErr env x = some e
  | [], _, h => by simp [argErrM] at h
  | x :: r, e, h => by
    simp only [argErrM] at h
    cases hx : melemErr env x with
    | some e' => rw [hx] at h; cases h; exact ⟨x, hx⟩
    | none => rw [hx] at h; exact argErrM_some env r e h

theorem argsErrM_some (env : Env) : ∀ (args : List (List MElem)) (e : PFail), argsErrM env args = some e →
    ∃ x, melemErr env x = some e
  | [], _, h => by simp [argsErrM] at h
  | a :: r, e, h => by
    simp only [argsErrM] at h
    cases ha : argErrM env a with
    | some e' => rw [ha] at h; cases h; exact argErrM_some env a _ ha
    | none => rw [ha] at h; exact argsErrM_some env r e h

theorem melemErr_violation (env : Env) (x : MElem) (e : PFail) (h : melemErr env x = some e) :
    Violation env e := by
  cases x with
  | base y => exact .format y e h
  | movesS mv lp items rp =>
    simp only [melemErr] at h
    split at h
    · cases h
    · rename_i e' h1
      cases h
      exact .moves _ (elItems_error env items _ h1)

theorem elabC_error (env : Env) (sn : String) (σ : String → String) (cid : Nat) (c : CmdM) (e : PFail)
    (h : c.elabC env sn σ cid = .error e) : Violation env e := by
  unfold CmdM.elabC at h
  split at h
  · rename_i e' h1
    cases err_inj h
    obtain ⟨x, hx⟩ := argsErrM_some env _ _ h1
    exact melemErr_violation env x _ hx
  · cases h

theorem cleaf_error (env : Env) (sn : String) (σ : String → String) (id : Nat) (lf : CLeaf) (e : PFail)
    (h : CLeaf.res env sn σ id lf = .error e) : Violation env e := by
  cases lf with
  | plain l => simp [CLeaf.res] at h
  | kw l => simp [CLeaf.res] at h
  | auto fm c =>
    simp only [CLeaf.res] at h
    split at h
    · cases err_inj h; exact .notLeaf _
    · split at h
      · rename_i e' h1; cases err_inj h; exact elabC_error env sn σ id c _ h1
      · split at h
        · cases err_inj h; exact .badPos _ _ _ _
        · cases h
  | autoV c opTok v =>
    simp only [CLeaf.res] at h
    split at h
    · cases err_inj h; exact .notLeaf _
    · split at h
      · rename_i e' h1; cases err_inj h; exact elabC_error env sn σ id c _ h1
      · split at h
        · cases err_inj h; exact .badPos _ _ _ _
        · cases h

/-! errors of a condition: those of its leaves -/
section
variable {L : Type} (res : (String → String) → Nat → L → Except PFail (OpExpr × ImpData × Nat))
  (σ : String → String) (P : PFail → Prop) (hres : ∀ id lf e, res σ id lf = .error e → P e)
include hres

mutual
theorem elabOr_error (g : GOr L) (neg : Bool) (id : Nat) (e : PFail)
    (h : elabOr res σ neg g id = .error e) : P e := by
  cases g with
  | one a => exact elabAnd_error a neg id e (by simpa [elabOr] using h)
  | more a p r =>
    simp only [elabOr] at h
    split at h
    · rename_i e' h1; cases err_inj h; exact elabAnd_error a neg id _ h1
    · split at h
      · rename_i e' h2; cases err_inj h; exact elabOr_error r neg _ _ h2
      · cases h
theorem elabAnd_error (a : GAnd L) (neg : Bool) (id : Nat) (e : PFail)
    (h : elabAnd res σ neg a id = .error e) : P e := by
  cases a with
  | one u => exact elabUn_error u neg id e (by simpa [elabAnd] using h)
  | more u p r =>
    simp only [elabAnd] at h
    split at h
    · rename_i e' h1; cases err_inj h; exact elabUn_error u neg id _ h1
    · split at h
      · rename_i e' h2; cases err_inj h; exact elabAcc_error r neg _ _ _ h2
      · cases h
theorem elabAcc_error (r : GAnd L) (neg : Bool) (id : Nat) (left : BoolExpr) (e : PFail)
    (h : elabAcc res σ neg left r id = .error e) : P e := by
  cases r with
  | one u =>
    simp only [elabAcc] at h
    split at h
    · rename_i e' h1; cases err_inj h; exact elabUn_error u neg id _ h1
    · cases h
  | more u p r' =>
    simp only [elabAcc] at h
    split at h
    · rename_i e' h1; cases err_inj h; exact elabUn_error u neg id _ h1
    · split at h
      · rename_i e' h2; cases err_inj h; exact elabAcc_error r' neg _ _ _ h2
      · cases h
theorem elabUn_error (u : GUn L) (neg : Bool) (id : Nat) (e : PFail)
    (h : elabUn res σ neg u id = .error e) : P e := by
  cases u with
  | leaf lf =>
    simp only [elabUn] at h
    split at h
    · rename_i e' h1; cases err_inj h; exact hres id lf _ h1
    · cases h
  | paren n pn pl pr g => exact elabOr_error g (neg != n) id e (by simpa [elabUn] using h)
end

end

theorem elabCond_error (env : Env) (sn : String) (σ : String → String) (c : SCond) (j : Nat) (e : PFail)
    (h : elabCond env sn σ c j = .error e) : Violation env e :=
  elabOr_error (CLeaf.res env sn) σ (Violation env) (fun id lf e h => cleaf_error env sn σ id lf e h)
    c false j e h

mutual
theorem elabS_error (env : Env) (sn : String) : (x : SStmt) → ∀ (σ : String → String) (B C : List Nat) (nx : Bool) (i j : Nat) (e : PFail),
    elabS env sn σ B C nx x i j = .error e → Violation env e
  | .cmd c, σ, _, _, _, i, j, e, h => by
    simp only [elabS] at h
    split at h
    · rename_i e' h1; cases err_inj h; exact elabC_error env sn σ j c _ h1
    · cases h
  | .label .., _, _, _, _, _, _, _, h => by simp [elabS] at h
  | .labelS .., _, _, _, _, _, _, _, h => by simp [elabS] at h
  | .ite _ _ c _ _ body _ elifs els, σ, B, C, _, i, j, e, h => by
    simp only [elabS] at h
    split at h
    · rename_i e' h0; cases err_inj h; exact elabCond_error env sn _ c _ _ h0
    · split at h
      · rename_i e' h1; cases err_inj h; exact elabL_error env sn body _ _ _ _ _ _ _ h1
      · split at h
        · rename_i e' h2; cases err_inj h; exact elabElifs_error env sn elifs _ _ _ _ _ _ h2
        · split at h
          · rename_i e' h3; cases err_inj h; exact elabElse_error env sn els _ _ _ _ _ _ h3
          · cases h
  | .while_ _ _ c _ _ body _, σ, B, C, _, i, j, e, h => by
    simp only [elabS] at h
    split at h
    · rename_i e' h0; cases err_inj h; exact elabCond_error env sn _ c _ _ h0
    · split at h
      · rename_i e' h1; cases err_inj h; exact elabL_error env sn body _ _ _ _ _ _ _ h1
      · cases h
  | .whileInf _ _ body _, σ, B, C, _, i, j, e, h => by
    simp only [elabS] at h
    split at h
    · rename_i e' h1; cases err_inj h; exact elabL_error env sn body _ _ _ _ _ _ _ h1
    · cases h
  | .doWhile _ _ body _ _ _ c _, σ, B, C, _, i, j, e, h => by
    simp only [elabS] at h
    split at h
    · rename_i e' h1; cases err_inj h; exact elabL_error env sn body _ _ _ _ _ _ _ h1
    · split at h
      · rename_i e' h0; cases err_inj h; exact elabCond_error env sn _ c _ _ h0
      · cases h
  | .brk t, σ, B, C, _, i, j, e, h => by
    cases B with
    | nil => simp only [elabS] at h; cases err_inj h; exact .breakOutside t
    | cons b B' => simp [elabS] at h
  | .cont t, σ, B, C, nx, i, j, e, h => by
    cases C with
    | nil => simp only [elabS] at h; cases err_inj h; exact .continueOutside t
    | cons c C' =>
      cases nx with
      | true => simp [elabS] at h
      | false => simp only [elabS, Bool.false_eq_true, if_false] at h; cases err_inj h; exact .continueNotLast t
  | .switch_ sw _ _ _ _ _ _ _ cases rb, σ, B, C, _, i, j, e, h => by
    simp only [elabS] at h
    split at h
    · rename_i e' h1; cases err_inj h; exact elabCases_error env sn cases _ _ _ _ _ _ _ _ h1
    · split at h
      · cases err_inj h; exact .emptySwitch sw rb
      · cases h
  | .switchA sw _ c _ _ cases rb, σ, B, C, _, i, j, e, h => by
    simp only [elabS] at h
    split at h
    · cases err_inj h; exact .notAutoVar _
    · split at h
      · rename_i e' h0; cases err_inj h; exact elabC_error env sn σ j c _ h0
      · split at h
        · cases err_inj h; exact .badPos _ _ _ _
        · split at h
          · rename_i e' h1; cases err_inj h; exact elabCases_error env sn cases _ _ _ _ _ _ _ _ h1
          · split at h
            · cases err_inj h; exact .emptySwitch sw rb
            · cases h
  | .pory ps _ x _ _ cases _, σ, B, C, _, i, j, e, h => by
    simp only [elabS] at h
    split at h
    · cases err_inj h; exact .noSwitches ps
    · split at h
      · cases err_inj h; exact .undefinedSwitch x
      · split at h
        · rename_i e' h1; cases err_inj h; exact elabPCases_error env sn cases _ _ _ _ _ _ _ h1
        · split at h
          · cases h
          · split at h
            · cases err_inj h; exact .noPoryCase ps x _
            · cases h
theorem elabL_error (env : Env) (sn : String) : (b : List SStmt) → ∀ (σ : String → String) (B C : List Nat) (last : Bool) (i j : Nat)
    (e : PFail), elabL env sn σ B C last b i j = .error e → Violation env e
  | [], _, _, _, _, _, _, _, h => by simp [elabL] at h
  | x :: r, σ, B, C, last, i, j, e, h => by
    simp only [elabL] at h
    split at h
    · rename_i e' h1; cases err_inj h; exact elabS_error env sn x _ _ _ _ _ _ _ h1
    · split at h
      · rename_i e' h2; cases err_inj h; exact elabL_error env sn r _ _ _ _ _ _ _ h2
      · cases h
theorem elabElifs_error (env : Env) (sn : String) : (es : List SElif) → ∀ (σ : String → String) (B C : List Nat) (i j : Nat) (e : PFail),
    elabElifs env sn σ B C es i j = .error e → Violation env e
  | [], _, _, _, _, _, _, h => by simp [elabElifs] at h
  | .mk _ _ c _ _ body _ :: r, σ, B, C, i, j, e, h => by
    simp only [elabElifs] at h
    split at h
    · rename_i e' h0; cases err_inj h; exact elabCond_error env sn _ c _ _ h0
    · split at h
      · rename_i e' h1; cases err_inj h; exact elabL_error env sn body _ _ _ _ _ _ _ h1
      · split at h
        · rename_i e' h2; cases err_inj h; exact elabElifs_error env sn r _ _ _ _ _ _ h2
        · cases h
theorem elabElse_error (env : Env) (sn : String) : (el : SElse) → ∀ (σ : String → String) (B C : List Nat) (i j : Nat) (e : PFail),
    elabElse env sn σ B C el i j = .error e → Violation env e
  | .none, _, _, _, _, _, _, h => by simp [elabElse] at h
  | .some _ _ body _, σ, B, C, i, j, e, h => by
    simp only [elabElse] at h
    split at h
    · rename_i e' h1; cases err_inj h; exact elabL_error env sn body _ _ _ _ _ _ _ h1
    · cases h
theorem elabCases_error (env : Env) (sn : String) : (cs : List SCase) → ∀ (σ : String → String) (B C : List Nat) (seen : List String)
    (hd : Bool) (i j : Nat) (e : PFail), elabCases env sn σ B C cs seen hd i j = .error e → Violation env e
  | [], _, _, _, _, _, _, _, _, h => by simp [elabCases] at h
  | .case c vs colon body :: r, σ, B, C, seen, hd, i, j, e, h => by
    simp only [elabCases] at h
    split at h
    · cases err_inj h; exact .duplicateCase c colon _
    · split at h
      · rename_i e' h1; cases err_inj h; exact elabL_error env sn body _ _ _ _ _ _ _ h1
      · split at h
        · rename_i e' h2; cases err_inj h; exact elabCases_error env sn r _ _ _ _ _ _ _ _ h2
        · cases h
  | .dflt d _ body :: r, σ, B, C, seen, hd, i, j, e, h => by
    simp only [elabCases] at h
    split at h
    · cases err_inj h; exact .secondDefault d
    · split at h
      · rename_i e' h1; cases err_inj h; exact elabL_error env sn body _ _ _ _ _ _ _ h1
      · split at h
        · rename_i e' h2; cases err_inj h; exact elabCases_error env sn r _ _ _ _ _ _ _ _ h2
        · cases h
theorem elabPCases_error (env : Env) (sn : String) : (cs : List SPCase) → ∀ (σ : String → String) (B C : List Nat)
    (acc : List (String × List Stmt × ImpData)) (i j : Nat) (e : PFail),
    elabPCases env sn σ B C cs acc i j = .error e → Violation env e
  | [], _, _, _, _, _, _, _, h => by simp [elabPCases] at h
  | .colon _ _ x :: r, σ, B, C, acc, i, j, e, h => by
    simp only [elabPCases] at h
    split at h
    · rename_i e' h1; cases err_inj h; exact elabS_error env sn x _ _ _ _ _ _ _ h1
    · exact elabPCases_error env sn r _ _ _ _ _ _ _ h
  | .colon0 _ _ :: r, σ, B, C, acc, i, j, e, h => by
    simp only [elabPCases] at h
    exact elabPCases_error env sn r _ _ _ _ _ _ _ h
  | .brace _ _ body _ :: r, σ, B, C, acc, i, j, e, h => by
    simp only [elabPCases] at h
    split at h
    · rename_i e' h1; cases err_inj h; exact elabL_error env sn body _ _ _ _ _ _ _ h1
    · exact elabPCases_error env sn r _ _ _ _ _ _ _ h
end

/-- Every error of the reference elaboration is one of the documented violations. -/
theorem violations_documented (env : Env) (sn : String) (c : Ctx) (b : List SStmt) (e : PFail)
    (h : elabE env sn c b = .error e) : Violation env e := by
  unfold elabE at h
  split at h
  · rename_i e' h1
    cases err_inj h
    exact elabL_error env _ b _ _ _ _ _ _ _ h1
  · cases h

/-! ### source order -/

/-- A list followed by further statements: its statements are never "last in the block". -/
theorem elabL_append (env : Env) (sn : String) (σ : String → String) (B C : List Nat) (last : Bool)
    (a b : List SStmt) (hb : b ≠ []) (i j : Nat) :
    elabL env sn σ B C last (a ++ b) i j =
      match elabL env sn σ B C false a i j with
      | .error e => .error e
      | .ok (x, m1, i1, j1) =>
        match elabL env sn σ B C last b i1 j1 with
        | .error e => .error e
        | .ok (y, m2, i2, j2) => .ok (x ++ y, m1.add m2, i2, j2) := by
  induction a generalizing i j with
  | nil =>
    simp only [List.nil_append, elabL]
    cases elabL env sn σ B C last b i j with
    | error e => rfl
    | ok v => obtain ⟨y, m2, i2, j2⟩ := v; simp [nil_add]
  | cons x r ih =>
    have hne : (r ++ b).isEmpty = false := by cases r <;> cases b <;> simp_all
    simp only [List.cons_append, elabL, hne, Bool.false_and, Bool.and_false]
    cases elabS env sn σ B C false x i j with
    | error e => rfl
    | ok v =>
      obtain ⟨x', m1, i1, j1⟩ := v
      simp only [ih]
      cases elabL env sn σ B C false r i1 j1 with
      | error e => rfl
      | ok w =>
        obtain ⟨r', m2, i2, j2⟩ := w
        simp only
        cases elabL env sn σ B C last b i2 j2 with
        | error e => rfl
        | ok u => obtain ⟨y, m3, i3, j3⟩ := u; simp [add_assoc]

/-! ### `break` / `continue` at the top level of a block -/
section
variable (env : Env) (sn : String) (startTok : Tok) (pre post : List SStmt) (t rb : Tok) (rest : List Tok)
  (s : PState) (fuel : Nat) (a : List Stmt) (m1 : ImpData) (i1 j1 : Nat)

/-- `break` outside every loop / switch (the statements before it being fine). -/
theorem break_outside_rejected (hwf : SWF (pre ++ .brk t :: post)) (hrb : rb.type = .RBRACE)
    (htoks : s.toks = printStmts (pre ++ .brk t :: post) ++ rb :: rest)
    (hfuel : needL (pre ++ .brk t :: post) ≤ fuel) (hB : s.breakStack = [])
    (hpre : elabL env sn (substC s.constants) [] s.continueStack false pre s.nextSid s.nextCmdId = .ok (a, m1, i1, j1)) :
    (parseBlockStatement env sn startTok fuel [] {}).run s = .error (breakOutsideErr t) := by
  apply parse_block_reject env sn startTok _ rb rest hwf hrb s htoks fuel hfuel
  unfold elabE ctxOf
  simp only [hB, elabL_append _ _ _ _ _ _ pre (.brk t :: post) (by simp), hpre, elabL, elabS]

/-- `continue` outside every loop. -/
theorem continue_outside_rejected (hwf : SWF (pre ++ .cont t :: post)) (hrb : rb.type = .RBRACE)
    (htoks : s.toks = printStmts (pre ++ .cont t :: post) ++ rb :: rest)
    (hfuel : needL (pre ++ .cont t :: post) ≤ fuel) (hC : s.continueStack = [])
    (hpre : elabL env sn (substC s.constants) s.breakStack [] false pre s.nextSid s.nextCmdId = .ok (a, m1, i1, j1)) :
    (parseBlockStatement env sn startTok fuel [] {}).run s = .error (continueOutsideErr t) := by
  apply parse_block_reject env sn startTok _ rb rest hwf hrb s htoks fuel hfuel
  unfold elabE ctxOf
  simp only [hC, elabL_append _ _ _ _ _ _ pre (.cont t :: post) (by simp), hpre, elabL, elabS]

/-- `continue` inside a loop but followed by another statement. -/
theorem continue_not_last_rejected (x : SStmt) (hwf : SWF (pre ++ .cont t :: x :: post))
    (hrb : rb.type = .RBRACE) (htoks : s.toks = printStmts (pre ++ .cont t :: x :: post) ++ rb :: rest)
    (hfuel : needL (pre ++ .cont t :: x :: post) ≤ fuel) (k : Nat) (C' : List Nat)
    (hC : s.continueStack = k :: C')
    (hpre : elabL env sn (substC s.constants) s.breakStack (k :: C') false pre s.nextSid s.nextCmdId =
      .ok (a, m1, i1, j1)) :
    (parseBlockStatement env sn startTok fuel [] {}).run s = .error (continueNotLastErr t) := by
  apply parse_block_reject env sn startTok _ rb rest hwf hrb s htoks fuel hfuel
  unfold elabE ctxOf
  simp only [hC, elabL_append _ _ _ _ _ _ pre (.cont t :: x :: post) (by simp), hpre, elabL, elabS,
    List.isEmpty_cons, Bool.false_and, Bool.false_eq_true, if_false]

end

end Pory.P1c
