import PorySpec.Impl
/-
List lemmas behind property C03 (switch dispatch): `propagateBack`, `switchBranchCases`,
`switchTrailing`, `switchDefaultDest` against the source-level `matchCase` / `fromDefault` /
`sharedBody`.  Used by `switch_branch_correct` in `PoryProofs/Sim.lean`.
-/
namespace Pory.Sem
open Pory Pory.Emit

/-! ### `propagateBack` -/

/-- The first `some` of a list of optional ids. -/
def firstSome : List (Option Nat) → Option Nat
  | [] => none
  | some i :: _ => some i
  | none :: r => firstSome r

theorem propagateBack_head : ∀ l : List (Option Nat), (propagateBack l).head?.getD none = firstSome l
  | [] => rfl
  | some i :: r => rfl
  | none :: r => by
    have ih := propagateBack_head r
    simp only [propagateBack, firstSome, List.head?_cons, Option.getD_some]
    exact ih

theorem propagateBack_cons (x : Option Nat) (rest : List (Option Nat)) :
    propagateBack (x :: rest) = firstSome (x :: rest) :: propagateBack rest := by
  cases x with
  | some i => rfl
  | none =>
    simp only [propagateBack, firstSome]
    rw [propagateBack_head]

theorem propagateBack_length : ∀ l : List (Option Nat), (propagateBack l).length = l.length
  | [] => rfl
  | x :: r => by rw [propagateBack_cons]; simp [propagateBack_length r]

theorem propagateBack_drop : ∀ (i : Nat) (l : List (Option Nat)),
    (propagateBack l).drop i = propagateBack (l.drop i)
  | 0, l => rfl
  | i + 1, [] => rfl
  | i + 1, x :: r => by rw [propagateBack_cons]; simp [propagateBack_drop i r]

/-- `propagateBack l` at index `i` is the first `some` of `l` at an index ≥ `i`. -/
theorem propagateBack_getElem? (l : List (Option Nat)) (i : Nat) :
    (propagateBack l)[i]?.getD none = firstSome (l.drop i) := by
  rw [← propagateBack_head, ← propagateBack_drop]
  simp [List.head?_drop]

theorem firstSome_none_all : ∀ {l : List (Option Nat)}, firstSome l = none →
    ∀ y ∈ propagateBack l, y = none
  | [], _ => by simp [propagateBack]
  | some i :: r, h => by simp [firstSome] at h
  | none :: r, h => by
    intro y hy
    rw [propagateBack_cons] at hy
    simp only [firstSome] at h hy
    rcases List.mem_cons.mp hy with rfl | hy
    · exact h
    · exact firstSome_none_all h y hy

/-! ### cases against their own-body ids -/

/-- Pointwise relation between the cases of a switch and the ids of their *own* body chunks:
`none` exactly for the body-less cases, and a body chunk satisfies `P body id`. -/
inductive CasesOK (P : List Stmt → Nat → Prop) : List SwitchCase → List (Option Nat) → Prop
  | nil : CasesOK P [] []
  | consNone {v d r ids} : CasesOK P r ids → CasesOK P ((v, d, []) :: r) (none :: ids)
  | consSome {v d b r ids id} : b ≠ [] → P b id → CasesOK P r ids →
      CasesOK P ((v, d, b) :: r) (some id :: ids)

theorem casesOK_of_indexed {P : List Stmt → Nat → Prop} :
    ∀ (cases : List SwitchCase) (ids0 : List (Option Nat)), ids0.length = cases.length →
      (∀ i (hi : i < cases.length), (ids0[i]? = some none ↔ (cases[i]).2.2 = [])) →
      (∀ i (hi : i < cases.length), ∀ b, ids0[i]? = some (some b) → P (cases[i]).2.2 b) →
      CasesOK P cases ids0
  | [], [], _, _, _ => .nil
  | [], _ :: _, hl, _, _ => by simp at hl
  | _ :: _, [], hl, _, _ => by simp at hl
  | (v, d, b) :: r, x :: ids, hl, hn, hb => by
    have htail : CasesOK P r ids :=
      casesOK_of_indexed r ids (by simpa using hl)
        (fun i hi => by
          have := hn (i + 1) (by simp; omega)
          simp only [List.getElem?_cons_succ, List.getElem_cons_succ] at this
          exact this)
        (fun i hi b' hb' => by
          have := hb (i + 1) (by simp; omega) b' (by simpa using hb')
          simp only [List.getElem_cons_succ] at this
          exact this)
    have h0 := hn 0 (by simp)
    simp only [List.getElem?_cons_zero, List.getElem_cons_zero, Option.some.injEq] at h0
    cases x with
    | none =>
      have : b = [] := h0.mp rfl
      subst this
      exact .consNone htail
    | some id =>
      have hne : b ≠ [] := fun hb0 => by have := h0.mpr hb0; cases this
      have hp := hb 0 (by simp) id (by simp)
      exact .consSome hne (by simpa using hp) htail

theorem sharedBody_cons_nil (v : Tok) (d : Bool) (r : List SwitchCase) :
    sharedBody ((v, d, []) :: r) = sharedBody r := by simp [sharedBody]

theorem sharedBody_cons_ne {v : Tok} {d : Bool} {b : List Stmt} (r : List SwitchCase) (hb : b ≠ []) :
    sharedBody ((v, d, b) :: r) = b := by
  have : b.length > 0 := List.length_pos_iff.mpr hb
  simp [sharedBody, this]

/-- The propagated id of the first position is the chunk of the shared body (`none` iff there is
no body from here on). -/
theorem CasesOK.head_info {P : List Stmt → Nat → Prop} {cases : List SwitchCase}
    {ids0 : List (Option Nat)} (hok : CasesOK P cases ids0) :
    (∃ d, firstSome ids0 = some d ∧ P (sharedBody cases) d ∧ sharedBody cases ≠ []) ∨
    (firstSome ids0 = none ∧ sharedBody cases = []) := by
  induction hok with
  | nil => exact .inr ⟨rfl, rfl⟩
  | consNone _ ih => simpa only [firstSome, sharedBody_cons_nil] using ih
  | consSome hb hp _ _ =>
    refine .inl ⟨_, rfl, ?_, ?_⟩ <;> rw [sharedBody_cons_ne _ hb]
    · exact hp
    · exact hb

theorem CasesOK.tail {P : List Stmt → Nat → Prop} {c : SwitchCase} {r : List SwitchCase}
    {x : Option Nat} {ids : List (Option Nat)} (hok : CasesOK P (c :: r) (x :: ids)) :
    CasesOK P r ids := by
  cases hok with
  | consNone h => exact h
  | consSome _ _ h => exact h

/-- `sharedBody (cases.drop i)` is the body whose chunk `propagateBack` puts at index `i`. -/
theorem CasesOK.drop {P : List Stmt → Nat → Prop} : ∀ (i : Nat) {cases : List SwitchCase}
    {ids0 : List (Option Nat)}, CasesOK P cases ids0 → CasesOK P (cases.drop i) (ids0.drop i)
  | 0, _, _, h => h
  | _ + 1, _, _, .nil => .nil
  | i + 1, _, _, .consNone h => CasesOK.drop i h
  | i + 1, _, _, .consSome _ _ h => CasesOK.drop i h

theorem CasesOK.index_info {P : List Stmt → Nat → Prop} {cases : List SwitchCase}
    {ids0 : List (Option Nat)} (hok : CasesOK P cases ids0) (i : Nat) :
    (∃ d, (propagateBack ids0)[i]?.getD none = some d ∧ P (sharedBody (cases.drop i)) d ∧
        sharedBody (cases.drop i) ≠ []) ∨
    ((propagateBack ids0)[i]?.getD none = none ∧ sharedBody (cases.drop i) = []) := by
  rw [propagateBack_getElem?]
  exact (hok.drop i).head_info

/-! ### unfolding the emitter's list functions over `zip` -/

theorem switchBranchCases_nil_right (cases : List SwitchCase) : switchBranchCases cases [] = [] := by
  simp [switchBranchCases]

theorem switchBranchCases_cons (c : SwitchCase) (r : List SwitchCase) (y : Option Nat)
    (ids : List (Option Nat)) :
    switchBranchCases (c :: r) (y :: ids) =
      if c.2.1 then switchBranchCases r ids
      else match y with
        | some d => { value := c.1, dest := d } :: switchBranchCases r ids
        | none => switchBranchCases r ids := by
  by_cases hd : c.2.1 = true
  · simp [switchBranchCases, hd]
  · cases y <;> simp [switchBranchCases, hd]

theorem switchTrailing_nil_right (cases : List SwitchCase) : switchTrailing cases [] = [] := by
  simp [switchTrailing]

theorem switchTrailing_cons (c : SwitchCase) (r : List SwitchCase) (y : Option Nat)
    (ids : List (Option Nat)) :
    switchTrailing (c :: r) (y :: ids) =
      if (!c.2.1 && y.isNone) = true then c :: switchTrailing r ids else switchTrailing r ids := by
  by_cases hd : (!c.2.1 && y.isNone) = true
  · simp [switchTrailing, hd]
  · simp [switchTrailing, hd]

/-- The fold inside `switchDefaultDest`, from an arbitrary accumulator. -/
def ddFold (acc : Option Nat) (cases : List SwitchCase) (ids : List (Option Nat)) : Option Nat :=
  (cases.zip ids).foldl (fun acc (cb : SwitchCase × Option Nat) =>
    if cb.1.2.1 then (match cb.2 with | some d => some d | none => acc) else acc) acc

theorem switchDefaultDest_eq (cases : List SwitchCase) (ids : List (Option Nat)) :
    switchDefaultDest cases ids = ddFold none cases ids := rfl

theorem ddFold_cons (acc : Option Nat) (c : SwitchCase) (r : List SwitchCase) (y : Option Nat)
    (ids : List (Option Nat)) :
    ddFold acc (c :: r) (y :: ids) =
      ddFold (if c.2.1 then (match y with | some d => some d | none => acc) else acc) r ids := by
  simp [ddFold]

theorem ddFold_nodefault : ∀ (cases : List SwitchCase) (ids : List (Option Nat)) (acc : Option Nat),
    (∀ c ∈ cases, c.2.1 = false) → ddFold acc cases ids = acc
  | [], _, _, _ => by simp [ddFold]
  | _ :: _, [], _, _ => by simp [ddFold]
  | c :: r, y :: ids, acc, h => by
    rw [ddFold_cons, h c (by simp)]
    exact ddFold_nodefault r ids acc (fun c' hc' => h c' (by simp [hc']))

theorem switchBranchCases_allNone : ∀ (cases : List SwitchCase) (ids : List (Option Nat)),
    (∀ y ∈ ids, y = none) → switchBranchCases cases ids = []
  | [], _, _ => by simp [switchBranchCases]
  | _ :: _, [], _ => switchBranchCases_nil_right _
  | c :: r, y :: ids, h => by
    have hy : y = none := h y (by simp)
    subst hy
    rw [switchBranchCases_cons]
    have := switchBranchCases_allNone r ids (fun y hy => h y (by simp [hy]))
    simp [this]

/-! ### `firstCase` -/

variable (w : SWorld) (h : Hist) (op : Tok)

theorem firstCase_append (a b : List SwitchCaseBranch) :
    firstCase w h op (a ++ b) =
      match firstCase w h op a with
      | some d => some d
      | none => firstCase w h op b := by
  induction a with
  | nil => simp [firstCase]
  | cons c r ih =>
    simp only [List.cons_append, firstCase]
    by_cases hc : w.caseEq h op c.value = true
    · simp [hc]
    · simp [hc, ih]

/-- The list of extra `case` lines for the trailing body-less cases. -/
def trailEntries (emptyId : Nat) (l : List SwitchCase) : List SwitchCaseBranch :=
  l.map fun (sc : SwitchCase) => { value := sc.1, dest := emptyId }

/-- A case that does not fire (a `default`, or a value that is not equal) is skipped by the
graph machine's scan of both case lists. -/
theorem firstCase_skip {c : SwitchCase} (hc : (!c.2.1 && w.caseEq h op c.1) = false)
    (r : List SwitchCase) (y : Option Nat) (ids : List (Option Nat)) (emptyId : Nat) :
    firstCase w h op (switchBranchCases (c :: r) (y :: ids)) =
      firstCase w h op (switchBranchCases r ids) ∧
    firstCase w h op (trailEntries emptyId (switchTrailing (c :: r) (y :: ids))) =
      firstCase w h op (trailEntries emptyId (switchTrailing r ids)) := by
  rw [switchBranchCases_cons, switchTrailing_cons]
  by_cases hd : c.2.1 = true
  · simp [hd]
  · have hd' : c.2.1 = false := by simpa using hd
    have hq : w.caseEq h op c.1 = false := by simpa [hd'] using hc
    cases y with
    | none => simp [hd', trailEntries, firstCase, hq]
    | some d => simp [hd', firstCase, hq]

/-- No case fires: the graph machine finds no `case` line. -/
theorem firstCase_none_of_matchCase_none (emptyId : Nat) :
    ∀ (cases : List SwitchCase) (ids : List (Option Nat)), matchCase w h op cases = none →
      firstCase w h op (switchBranchCases cases ids) = none ∧
      firstCase w h op (trailEntries emptyId (switchTrailing cases ids)) = none
  | [], _, _ => by simp [switchBranchCases, switchTrailing, trailEntries, firstCase]
  | _ :: _, [], _ => by
    simp [switchBranchCases_nil_right, switchTrailing_nil_right, trailEntries, firstCase]
  | (v, d, b) :: r, y :: ids, hm => by
    simp only [matchCase] at hm
    by_cases hc : (!d && w.caseEq h op v) = true
    · simp [hc] at hm
    · have hc' : (!d && w.caseEq h op v) = false := by simpa using hc
      simp only [hc', if_false, Bool.false_eq_true] at hm
      have ih := firstCase_none_of_matchCase_none emptyId r ids hm
      have hs := firstCase_skip w h op (c := (v, d, b)) hc' r y ids emptyId
      rw [hs.1, hs.2]; exact ih

/-- What the graph machine's `case` scan does when the source picks the cases `cs`. -/
def MatchGoal (P : List Stmt → Nat → Prop) (emptyId : Nat) (cases : List SwitchCase)
    (ids : List (Option Nat)) (cs : List SwitchCase) : Prop :=
  (sharedBody cs ≠ [] ∧ ∃ d, firstCase w h op (switchBranchCases cases ids) = some d ∧
      P (sharedBody cs) d) ∨
  (sharedBody cs = [] ∧ firstCase w h op (switchBranchCases cases ids) = none ∧
      firstCase w h op (trailEntries emptyId (switchTrailing cases ids)) = some emptyId)

/-- A case fires: the scan finds the chunk of the shared body, or (trailing body-less case) only the
line added for the empty chunk. -/
theorem match_graph {P : List Stmt → Nat → Prop} (emptyId : Nat) :
    ∀ {cases : List SwitchCase} {ids0 : List (Option Nat)}, CasesOK P cases ids0 →
      ∀ cs, matchCase w h op cases = some cs →
        MatchGoal w h op P emptyId cases (propagateBack ids0) cs
  | [], _, _, cs, hm => by simp [matchCase] at hm
  | _ :: _, [], hok, _, _ => by cases hok
  | (v, d, b) :: r, x :: ids, hok, cs, hm => by
    simp only [matchCase] at hm
    rw [propagateBack_cons]
    by_cases hc : (!d && w.caseEq h op v) = true
    · simp only [hc, if_true, Option.some.injEq] at hm
      subst hm
      have hd : d = false := by
        cases d <;> simp_all
      have hq : w.caseEq h op v = true := by simpa [hd] using hc
      rcases hok.head_info with ⟨id, hfs, hp, hne⟩ | ⟨hfs, hnil⟩
      · refine .inl ⟨hne, id, ?_, hp⟩
        rw [hfs, switchBranchCases_cons]
        simp [hd, firstCase, hq]
      · refine .inr ⟨hnil, ?_, ?_⟩
        · rw [switchBranchCases_cons, hfs]
          have hall := firstSome_none_all hfs
          rw [propagateBack_cons] at hall
          have := switchBranchCases_allNone r (propagateBack ids)
            (fun y hy => hall y (by simp [hy]))
          simp [hd, this, firstCase]
        · rw [switchTrailing_cons, hfs]
          simp [hd, trailEntries, firstCase, hq]
    · have hc' : (!d && w.caseEq h op v) = false := by simpa using hc
      simp only [hc', if_false, Bool.false_eq_true] at hm
      have ih := match_graph emptyId hok.tail cs hm
      have hs := firstCase_skip w h op (c := (v, d, b)) hc' r (firstSome (x :: ids))
        (propagateBack ids) emptyId
      unfold MatchGoal at ih ⊢
      rw [hs.1, hs.2]; exact ih

/-- `default`: with at most one default case, `switchDefaultDest` is the chunk of the body shared
from the default case on. -/
theorem default_graph {P : List Stmt → Nat → Prop} :
    ∀ {cases : List SwitchCase} {ids0 : List (Option Nat)}, CasesOK P cases ids0 →
      (cases.filter (·.2.1)).length ≤ 1 →
      match fromDefault cases with
      | some cs =>
        (sharedBody cs ≠ [] ∧ ∃ d, switchDefaultDest cases (propagateBack ids0) = some d ∧
            P (sharedBody cs) d) ∨
        (sharedBody cs = [] ∧ switchDefaultDest cases (propagateBack ids0) = none)
      | none => switchDefaultDest cases (propagateBack ids0) = none
  | [], _, _, _ => by simp [fromDefault, switchDefaultDest]
  | _ :: _, [], hok, _ => by cases hok
  | (v, d, b) :: r, x :: ids, hok, h1 => by
    rw [propagateBack_cons, switchDefaultDest_eq, ddFold_cons]
    cases d with
    | true =>
      have hnd : ∀ c ∈ r, c.2.1 = false := by
        intro c hc
        simp only [List.filter_cons, if_true, List.length_cons] at h1
        have : (r.filter (·.2.1)).length = 0 := by omega
        have hnil := List.length_eq_zero_iff.mp this
        have := List.filter_eq_nil_iff.mp hnil c hc
        simpa using this
      simp only [fromDefault, if_true]
      rw [ddFold_nodefault r _ _ hnd]
      rcases hok.head_info with ⟨id, hfs, hp, hne⟩ | ⟨hfs, hnil⟩
      · exact .inl ⟨hne, id, by simp [hfs], hp⟩
      · exact .inr ⟨hnil, by simp [hfs]⟩
    | false =>
      have h1' : (r.filter (·.2.1)).length ≤ 1 := by
        simpa [List.filter_cons] using h1
      have ih := default_graph hok.tail h1'
      simp only [fromDefault, Bool.false_eq_true, if_false]
      rw [← switchDefaultDest_eq]
      exact ih

/-! ### suffix facts (for the all-empty switch) -/

theorem matchCase_sub : ∀ {cases cs : List SwitchCase}, matchCase w h op cases = some cs →
    ∀ c ∈ cs, c ∈ cases
  | [], _, hm => by simp [matchCase] at hm
  | (v, d, b) :: r, cs, hm => by
    simp only [matchCase] at hm
    by_cases hc : (!d && w.caseEq h op v) = true
    · simp only [hc, if_true, Option.some.injEq] at hm
      subst hm; exact fun c hc => hc
    · simp only [hc] at hm
      exact fun c hc' => List.mem_cons_of_mem _ (matchCase_sub hm c hc')

theorem fromDefault_sub : ∀ {cases cs : List SwitchCase}, fromDefault cases = some cs →
    ∀ c ∈ cs, c ∈ cases
  | [], _, hm => by simp [fromDefault] at hm
  | (v, d, b) :: r, cs, hm => by
    simp only [fromDefault] at hm
    cases d with
    | true =>
      simp only [if_true, Option.some.injEq] at hm
      subst hm; exact fun c hc => hc
    | false =>
      simp only [Bool.false_eq_true, if_false] at hm
      exact fun c hc' => List.mem_cons_of_mem _ (fromDefault_sub hm c hc')

theorem sharedBody_allEmpty : ∀ {cs : List SwitchCase}, (∀ c ∈ cs, c.2.2 = []) → sharedBody cs = []
  | [], _ => rfl
  | (v, d, b) :: r, hall => by
    have : b = [] := hall (v, d, b) (by simp)
    subst this
    rw [sharedBody_cons_nil]
    exact sharedBody_allEmpty (fun c hc => hall c (by simp [hc]))

theorem switchBody_allEmpty {cases : List SwitchCase} (hall : ∀ c ∈ cases, c.2.2 = []) :
    switchBody w h op cases = [] := by
  unfold switchBody
  cases hm : matchCase w h op cases with
  | some cs => exact sharedBody_allEmpty (fun c hc => hall c (matchCase_sub w h op hm c hc))
  | none =>
    cases hf : fromDefault cases with
    | some cs => exact sharedBody_allEmpty (fun c hc => hall c (fromDefault_sub hf c hc))
    | none => rfl

end Pory.Sem
