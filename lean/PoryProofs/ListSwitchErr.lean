import PoryProofs.TopParse
/-
P2d helpers, part 1: movement AND mart lists with (nested) `poryswitch` elements, with ALL outcomes.

`C14b.parse_movement_list_switch` (ListSwitch.lean) covers movement lists for which the expansion succeeds
(`expItems env items = some out`, the switch is defined …).  Here the same mutual parse∘print induction is done
* for both list kinds (`parseListValue env kind`, `kind = .movement closing` or `.mart`), and
* as an EQUATION between the parser and a reference elaboration into `Except PFail`:
  the located errors of `parsePoryswitchHeader` (no `-s` at all / this switch undefined, environment errors on),
  the "no poryswitch case found" error, and the three located errors of a bad multiplier (`step * N`) are part
  of the reference (`elItem / elCases / elItems`).

Syntax: `C14b.ItemP / Cases / Items` (reused).  Well-formedness `wfItem m` is about token TYPES only (`m = true`:
mart list — plain elements are single IDENT tokens; `m = false`: movement list — `step`, `step * INT`, `,`).
-/
namespace Pory.P2d
open Pory Pory.Parser Pory.C02P Pory.TopParse
open Pory.C14b (Item ItemP Cases Items swVal mulCheck mulErrMsg MulErr needItem needCases needItems)

/-! ### the located errors of a poryswitch -/

def noSwitchesErr (psw : Tok) : PFail :=
  newParseError psw "poryswitch used, but no compile switches were specified with the '-s' option"
def undefSwitchErr (x : Tok) : PFail :=
  newParseError x s!"no poryswitch for '{x.lit}' was specified with the '-s' option"
def noCaseErr (env : Env) (psw x : Tok) : PFail :=
  newParseError psw s!"no poryswitch case found for '{x.lit}={swVal env x.lit}', which was specified with the '-s' option"

/-- What `parsePoryswitchHeader` rejects (environment errors on): no `-s` option at all (located on the
`poryswitch` token), or this switch not defined (located on the switch name). -/
def headerErr (env : Env) (psw x : Tok) : Option PFail :=
  if env.envErrors = true ∧ env.switches = [] then some (noSwitchesErr psw)
  else if env.envErrors = true ∧ env.switches.lookup x.lit = none then some (undefSwitchErr x)
  else none

/-- **The selection**: in the case table `cs` (newest entry first) the entry for the `-s` value of the switch,
else the entry for `_`, else (environment errors on) the located error, else (lint parser) `dflt`. -/
def pick {α : Type} (env : Env) (psw x : Tok) (cs : List (String × α)) (dflt : α) : Except PFail α :=
  match cs.lookup (swVal env x.lit) with
  | some v => .ok v
  | none =>
    match cs.lookup "_" with
    | some v => .ok v
    | none => if env.envErrors then .error (noCaseErr env psw x) else .ok dflt

/-- The header on `poryswitch ( X ) {`: the located error, or (switch name, switch value) with the window
behind the `{`. -/
theorem header_total (env : Env) (s : PState) (psw lp x rp lb : Tok) (tl : List Tok)
    (hlp : lp.type = .LPAREN) (hx : x.type = .IDENT) (hrp : rp.type = .RPAREN) (hlb : lb.type = .LBRACE) :
    (parsePoryswitchHeader env).run (st s (psw :: lp :: x :: rp :: lb :: tl)) =
      match headerErr env psw x with
      | some e => .error e
      | none => .ok ((x.lit, swVal env x.lit), st s tl) := by
  unfold headerErr
  by_cases he : env.envErrors = true
  · by_cases hs : env.switches = []
    · simp only [he, hs, and_self, if_true]
      exact header_no_switches env s psw _ he hs
    · by_cases hl : env.switches.lookup x.lit = none
      · simp only [he, hs, hl, and_false, and_self, if_false, if_true]
        exact header_undefined_switch env s psw lp x _ hlp hx he hs hl
      · simp only [he, hs, hl, and_false, if_false]
        refine header_run env s psw lp x rp lb tl hlp hx hrp hlb (Or.inr ⟨hs, ?_⟩)
        cases h : env.switches.lookup x.lit with
        | none => exact absurd h hl
        | some v => rfl
  · have he' : env.envErrors = false := by cases h : env.envErrors <;> simp_all
    simp only [he', Bool.false_eq_true, false_and, if_false]
    exact header_run env s psw lp x rp lb tl hlp hx hrp hlb (Or.inl he')

/-! ### well-formedness (token types only) -/

/-- A plain element: in a mart list a single IDENT token, in a movement list `step`, `step * INT`, `,`. -/
def plainWF (m : Bool) : Item → Prop
  | .step n => n.type = .IDENT
  | .stepMul n s x => m = false ∧ n.type = .IDENT ∧ s.type = .MUL ∧ x.type = .INT
  | .comma t => m = false ∧ t.type = .COMMA

instance (m : Bool) : DecidablePred (plainWF m) := fun i => by cases i <;> unfold plainWF <;> exact inferInstance

mutual
def wfItem (m : Bool) : ItemP → Prop
  | .plain i => plainWF m i
  | .sw psw lp x rp lb cases rb =>
    psw.type = .PORYSWITCH ∧ lp.type = .LPAREN ∧ x.type = .IDENT ∧ rp.type = .RPAREN ∧
    lb.type = .LBRACE ∧ rb.type = .RBRACE ∧ wfCases m cases
def wfCases (m : Bool) : Cases → Prop
  | .nil => True
  | .colon v c e rest =>
    (v.type = .IDENT ∨ v.type = .INT) ∧ c.type = .COLON ∧ wfItem m e ∧ wfCases m rest
  | .brace v lb items rb rest =>
    (v.type = .IDENT ∨ v.type = .INT) ∧ lb.type = .LBRACE ∧ rb.type = .RBRACE ∧
    wfItems m items ∧ wfCases m rest
def wfItems (m : Bool) : Items → Prop
  | .nil => True
  | .cons i r => wfItem m i ∧ wfItems m r
end

mutual
def decItem (m : Bool) : (i : ItemP) → Decidable (wfItem m i)
  | .plain i => by unfold wfItem; exact inferInstance
  | .sw psw lp x rp lb cases rb =>
    have := decCases m cases
    by unfold wfItem; exact inferInstance
def decCases (m : Bool) : (c : Cases) → Decidable (wfCases m c)
  | .nil => isTrue trivial
  | .colon v c e rest =>
    have := decItem m e
    have := decCases m rest
    by unfold wfCases; exact inferInstance
  | .brace v lb items rb rest =>
    have := decItems m items
    have := decCases m rest
    by unfold wfCases; exact inferInstance
def decItems (m : Bool) : (is : Items) → Decidable (wfItems m is)
  | .nil => isTrue trivial
  | .cons i r =>
    have := decItem m i
    have := decItems m r
    by unfold wfItems; exact inferInstance
end
instance (m : Bool) : DecidablePred (wfItem m) := decItem m
instance (m : Bool) : DecidablePred (wfCases m) := decCases m
instance (m : Bool) : DecidablePred (wfItems m) := decItems m

/-! ### the reference elaboration -/

def badMulErr (x : Tok) (e : MulErr) : PFail := newParseError x (mulErrMsg x.lit e)

/-- A plain element: the step, N copies of the step (N a base-0 literal in 1..9999, else the located error of
C14b), nothing for a comma. -/
def plainEl : Item → Except PFail (List Tok)
  | .step n => .ok [n]
  | .stepMul n _ x =>
    match mulCheck x.lit with
    | .ok k => .ok (List.replicate k n)
    | .error e => .error (badMulErr x e)
  | .comma _ => .ok []

mutual
/-- One element: a poryswitch element is EXACTLY the elements of the selected case (all case bodies are
elaborated first, in source order: an error inside an unselected case is an error of the statement). -/
def elItem (env : Env) : ItemP → Except PFail (List Tok)
  | .plain i => plainEl i
  | .sw psw _ x _ _ cases _ =>
    match headerErr env psw x with
    | some e => .error e
    | none =>
      match elCases env cases [] with
      | .error e => .error e
      | .ok cs => pick env psw x cs []
/-- The case table, newest first. -/
def elCases (env : Env) : Cases → List (String × List Tok) → Except PFail (List (String × List Tok))
  | .nil, acc => .ok acc
  | .colon v _ e rest, acc =>
    match elItem env e with
    | .error e => .error e
    | .ok l => elCases env rest ((v.lit, l) :: acc)
  | .brace v _ items _ rest, acc =>
    match elItems env items with
    | .error e => .error e
    | .ok l => elCases env rest ((v.lit, l) :: acc)
def elItems (env : Env) : Items → Except PFail (List Tok)
  | .nil => .ok []
  | .cons i r =>
    match elItem env i with
    | .error e => .error e
    | .ok a =>
      match elItems env r with
      | .error e => .error e
      | .ok b => .ok (a ++ b)
end

/-! ### list kinds -/

def isMart : ListKind → Bool
  | .mart => true
  | .movement _ => false

/-- Closing token types a list can end with (`}` and `)` are). -/
structure GoodKind (k : ListKind) : Prop where
  ident : k.closing ≠ .IDENT
  comma : k.closing ≠ .COMMA
  mul : k.closing ≠ .MUL
  psw : k.closing ≠ .PORYSWITCH

theorem good_mart : GoodKind .mart := ⟨by decide, by decide, by decide, by decide⟩
theorem good_movement_rbrace : GoodKind (.movement .RBRACE) := ⟨by decide, by decide, by decide, by decide⟩
theorem good_movement_rparen : GoodKind (.movement .RPAREN) := ⟨by decide, by decide, by decide, by decide⟩
theorem good_nested (k : ListKind) : GoodKind k.nested := by
  cases k
  · exact good_movement_rbrace
  · exact good_mart
theorem isMart_nested (k : ListKind) : isMart k.nested = isMart k := by cases k <;> rfl
theorem nested_closing (k : ListKind) : k.nested.closing = .RBRACE := by cases k <;> rfl

/-! ### first tokens -/

theorem item_head (m : Bool) (i : ItemP) (h : wfItem m i) : ∃ a l, i.toks = a :: l ∧ a.type ≠ .MUL := by
  cases i with
  | plain it =>
    simp only [wfItem] at h
    cases it with
    | step n => exact ⟨n, _, rfl, by simp only [plainWF] at h; simp [h]⟩
    | stepMul n st' x => exact ⟨n, _, rfl, by simp only [plainWF] at h; simp [h.2.1]⟩
    | comma t => exact ⟨t, _, rfl, by simp only [plainWF] at h; simp [h.2]⟩
  | sw psw lp x rp lb cases rb =>
    simp only [wfItem] at h
    exact ⟨psw, lp :: x :: rp :: lb :: (cases.toks ++ [rb]), by simp [ItemP.toks], by simp [h.1]⟩

theorem items_head (m : Bool) (is : Items) (nx : Tok) (tl : List Tok) (h : wfItems m is)
    (hnx : nx.type ≠ .MUL) : ∃ a l, is.toks ++ nx :: tl = a :: l ∧ a.type ≠ .MUL := by
  cases is with
  | nil => exact ⟨nx, tl, by simp [Items.toks], hnx⟩
  | cons i r =>
    simp only [wfItems] at h
    obtain ⟨a, l, he, ha⟩ := item_head m i h.1
    exact ⟨a, l ++ (r.toks ++ nx :: tl), by simp [Items.toks, he], ha⟩

theorem cases_head (m : Bool) (cs : Cases) (nx : Tok) (tl : List Tok) (h : wfCases m cs)
    (hnx : nx.type ≠ .MUL) : ∃ a l, cs.toks ++ nx :: tl = a :: l ∧ a.type ≠ .MUL := by
  cases cs with
  | nil => exact ⟨nx, tl, by simp [Cases.toks], hnx⟩
  | colon v c e rest =>
    simp only [wfCases] at h
    exact ⟨v, c :: (e.toks ++ (rest.toks ++ nx :: tl)), by simp [Cases.toks],
      by rcases h.1 with h | h <;> simp [h]⟩
  | brace v lb items rb rest =>
    simp only [wfCases] at h
    exact ⟨v, lb :: (items.toks ++ rb :: (rest.toks ++ nx :: tl)), by simp [Cases.toks],
      by rcases h.1 with h | h <;> simp [h]⟩

/-! ### one-step lemmas, any kind, any `allowMultiple` -/

/-- What `parseListValue` does after one element: loop or stop. -/
def afterK (env : Env) (k : ListKind) (am : Bool) (f : Nat) (acc' : List Tok) (s' : PState) :
    Except PFail (List Tok × PState) :=
  if am = true then (parseListValue env k am f acc').run s' else .ok (acc', s')

theorem afterK_movement (env : Env) (closing : TT) (am : Bool) (f : Nat) (acc' : List Tok) (s' : PState) :
    afterK env (.movement closing) am f acc' s' = C14b.after env closing am f acc' s' := rfl

section
variable (env : Env) (k : ListKind) (am : Bool) (f : Nat) (acc : List Tok) (s : PState)

theorem plvK_close (c : Tok) (tl : List Tok) (hc : c.type = k.closing) :
    (parseListValue env k am (f + 1) acc).run (st s (c :: tl)) = .ok (acc, st s (c :: tl)) := by
  rw [parseListValue]
  simp [hc]

theorem plvK_mart_item (c : Tok) (tl : List Tok) (hc : c.type = .IDENT) :
    (parseListValue env .mart am (f + 1) acc).run (st s (c :: tl)) =
      afterK env .mart am f (acc ++ [c]) (st s tl) := by
  rw [parseListValue]
  cases am <;> simp [hc, ListKind.closing, afterK]

/-- A `poryswitch` element: the statement parser, then loop or stop. -/
theorem plvK_sw (psw : Tok) (tl : List Tok) (hp : psw.type = .PORYSWITCH) (hcl : k.closing ≠ .PORYSWITCH) :
    (parseListValue env k am (f + 1) acc).run (st s (psw :: tl)) =
      match (parsePoryswitchListStatement env k f).run (st s (psw :: tl)) with
      | .error e => .error e
      | .ok (items, s1) => afterK env k am f (acc ++ items) s1 := by
  rw [parseListValue]
  have h1 : (TT.PORYSWITCH == k.closing) = false := by
    simpa using fun h => hcl h.symm
  simp only [StateT.run_bind, run_cur, ex_bind_ok, st_toks, List.headD_cons, hp, h1, Bool.false_eq_true,
    if_false, beq_self_eq_true, if_true]
  generalize (parsePoryswitchListStatement env k f).run (st s (psw :: tl)) = X
  cases X with
  | error e => rfl
  | ok p =>
    obtain ⟨items, s1⟩ := p
    cases am <;> simp [afterK]

/-- A rejected multiplier (any `allowMultiple`): the error is located on the multiplier token. -/
theorem plvA_mul_bad (closing : TT) (name star num : Tok) (tl : List Tok) (e : MulErr)
    (hn : name.type = .IDENT) (hs : star.type = .MUL) (hm : num.type = .INT) (hcl : closing ≠ .IDENT)
    (he : mulCheck num.lit = .error e) :
    (parseListValue env (.movement closing) am (f + 1) acc).run (st s (name :: star :: num :: tl)) =
      .error (badMulErr num e) := by
  unfold mulCheck at he
  unfold badMulErr
  rcases hp : parseInt num.lit with ⟨n, _ | ie⟩
  · rw [hp] at he
    by_cases h0 : n ≤ 0
    · simp [h0] at he; subst he
      rw [parseListValue]
      simp [hn, hs, hm, ListKind.closing, Ne.symm hcl, hp, h0]
      rfl
    · by_cases h1 : 9999 < n
      · have h1' : (Facts.multiplierMax : Int) < n := by simpa [Facts.multiplierMax] using h1
        simp [h0, h1] at he; subst he
        rw [parseListValue]
        simp [hn, hs, hm, ListKind.closing, Ne.symm hcl, hp, h0, h1']
        rfl
      · simp [h0, h1] at he
  · rw [hp] at he
    simp at he; subst he
    rw [parseListValue]
    simp [hn, hs, hm, ListKind.closing, Ne.symm hcl, hp]
    rfl

end

/-- One plain element, as one iteration of `parseListValue`. -/
theorem plainP (env : Env) (s : PState) (k : ListKind) (hg : GoodKind k) (am : Bool) (acc : List Tok)
    (it : Item) (nx : Tok) (tl : List Tok) (hnx : nx.type ≠ .MUL) (hwf : plainWF (isMart k) it) (f : Nat) :
    (parseListValue env k am (f + 1) acc).run (st s (it.toks ++ nx :: tl)) =
      match plainEl it with
      | .error e => .error e
      | .ok out => afterK env k am f (acc ++ out) (st s (nx :: tl)) := by
  cases k with
  | mart =>
    cases it with
    | step n =>
      simp only [plainWF] at hwf
      exact plvK_mart_item env am f acc s n (nx :: tl) hwf
    | stepMul n st' x => simp [plainWF, isMart] at hwf
    | comma t => simp [plainWF, isMart] at hwf
  | movement closing =>
    have hid : closing ≠ .IDENT := hg.ident
    have hco : closing ≠ .COMMA := hg.comma
    cases it with
    | step n =>
      simp only [plainWF] at hwf
      exact C14b.plvA_step env closing am f acc s n nx tl hwf hid hnx
    | stepMul n st' x =>
      simp only [plainWF] at hwf
      obtain ⟨-, h1, h2, h3⟩ := hwf
      simp only [plainEl]
      cases hk : mulCheck x.lit with
      | error e =>
        exact plvA_mul_bad env am f acc s closing n st' x (nx :: tl) e h1 h2 h3 hid hk
      | ok kk =>
        exact C14b.plvA_mul env closing am f acc s n st' x (nx :: tl) kk h1 h2 h3 hid hk
    | comma t =>
      simp only [plainWF] at hwf
      have := C14b.plvA_comma env closing am f acc s t (nx :: tl) hwf.2 hco
      simp only [plainEl, Item.toks, List.cons_append, List.nil_append, List.append_nil]
      exact this

/-! ### statement and cases -/

/-- `parsePoryswitchListStatement` given what the case loop does. -/
theorem stmt_total (env : Env) (k : ListKind) (n : Nat) (s : PState) (psw lp x rp lb : Tok)
    (tl : List Tok) (R : Except PFail (List (String × List Tok))) (rb : Tok) (tl' : List Tok)
    (hlp : lp.type = .LPAREN) (hx : x.type = .IDENT) (hrp : rp.type = .RPAREN) (hlb : lb.type = .LBRACE)
    (hrun : ∀ stt, (parsePoryswitchListCases env k stt n []).run (st s tl) =
      match R with
      | .error e => .error e
      | .ok cs => .ok (cs, st s (rb :: tl'))) :
    (parsePoryswitchListStatement env k (n + 1)).run (st s (psw :: lp :: x :: rp :: lb :: tl)) =
      match headerErr env psw x with
      | some e => .error e
      | none =>
        match (generalizing := false) R with
        | .error e => .error e
        | .ok cs =>
          match pick env psw x cs [] with
          | .error e => .error e
          | .ok items => .ok (items, st s tl') := by
  rw [parsePoryswitchListStatement]
  simp only [StateT.run_bind, run_cur, ex_bind_ok, header_total env s psw lp x rp lb tl hlp hx hrp hlb]
  cases headerErr env psw x with
  | some e => rfl
  | none =>
    simp only [ex_bind_ok, hrun]
    cases R with
    | error e => rfl
    | ok cs =>
      simp only [ex_bind_ok, pick]
      cases h1 : cs.lookup (swVal env x.lit) with
      | some it1 => simp
      | none =>
        cases h2 : cs.lookup "_" with
        | some it2 => simp
        | none => cases he : env.envErrors <;> simp [noCaseErr]

section
variable (env : Env) (k : ListKind) (stt : Tok) (n : Nat) (acc : List (String × List Tok)) (s : PState)

theorem casesK_close (c : Tok) (tl : List Tok) (hc : c.type = .RBRACE) :
    (parsePoryswitchListCases env k stt (n + 1) acc).run (st s (c :: tl)) = .ok (acc, st s (c :: tl)) := by
  rw [parsePoryswitchListCases]
  simp [hc]

theorem casesK_colon (v c : Tok) (tl : List Tok) (hv : v.type = .IDENT ∨ v.type = .INT) (hc : c.type = .COLON) :
    (parsePoryswitchListCases env k stt (n + 1) acc).run (st s (v :: c :: tl)) =
      match (parseListValue env k.nested false n []).run (st s tl) with
      | .error e => .error e
      | .ok (items, s1) => (parsePoryswitchListCases env k stt n ((v.lit, items) :: acc)).run s1 := by
  rw [parsePoryswitchListCases]
  have hb : (TT.COLON == TT.LBRACE) = false := by decide
  generalize hX : (parseListValue env k.nested false n []).run (st s tl) = X
  rcases hv with hv | hv <;> cases X with
  | error e => simp [hv, hc, hb, hX]
  | ok p => obtain ⟨items, s1⟩ := p; simp [hv, hc, hb, hX]

theorem casesK_brace (v lb : Tok) (tl : List Tok) (hv : v.type = .IDENT ∨ v.type = .INT)
    (hlb : lb.type = .LBRACE)
    (R : Except PFail (List Tok)) (rb : Tok) (tl' : List Tok) (hrb : rb.type = .RBRACE)
    (hrun : (parseListValue env k.nested true n []).run (st s tl) =
      match R with
      | .error e => .error e
      | .ok items => .ok (items, st s (rb :: tl'))) :
    (parsePoryswitchListCases env k stt (n + 1) acc).run (st s (v :: lb :: tl)) =
      match (generalizing := false) R with
      | .error e => .error e
      | .ok items => (parsePoryswitchListCases env k stt n ((v.lit, items) :: acc)).run (st s tl') := by
  rw [parsePoryswitchListCases]
  cases R with
  | error e => rcases hv with hv | hv <;> simp [hv, hlb, hrun]
  | ok items => rcases hv with hv | hv <;> simp [hv, hlb, hrb, hrun]

end

/-! ### the mutual parse∘print induction -/
section
variable (env : Env) (s : PState)

mutual
/-- One element, as one iteration of `parseListValue` (looping or not). -/
theorem stepP (i : ItemP) (k : ListKind) (hg : GoodKind k) (am : Bool) (acc : List Tok)
    (nx : Tok) (tl : List Tok) (hnx : nx.type ≠ .MUL) (hwf : wfItem (isMart k) i) (f : Nat)
    (hf : needItem i ≤ f) :
    (parseListValue env k am (f + 1) acc).run (st s (i.toks ++ nx :: tl)) =
      match elItem env i with
      | .error e => .error e
      | .ok out => afterK env k am f (acc ++ out) (st s (nx :: tl)) := by
  cases i with
  | plain it =>
    simp only [wfItem] at hwf
    simp only [elItem, ItemP.toks]
    exact plainP env s k hg am acc it nx tl hnx hwf f
  | sw psw lp x rp lb cases rb =>
    simp only [wfItem] at hwf
    obtain ⟨hpsw, hlp, hx, hrp, hlb, hrb, hwc⟩ := hwf
    obtain ⟨n, rfl⟩ : ∃ n, f = n + 1 := ⟨f - 1, by simp [needItem] at hf; omega⟩
    have hC := fun stt => casesP cases k stt [] rb (nx :: tl) hrb hwc n (by simp [needItem] at hf; omega)
    have hS := stmt_total env k n s psw lp x rp lb _ (elCases env cases []) rb (nx :: tl) hlp hx hrp hlb hC
    have hw : (ItemP.sw psw lp x rp lb cases rb).toks ++ nx :: tl =
        psw :: lp :: x :: rp :: lb :: (cases.toks ++ rb :: nx :: tl) := by simp [ItemP.toks]
    rw [hw, plvK_sw env k am (n + 1) acc s psw _ hpsw hg.psw, hS]
    simp only [elItem]
    cases headerErr env psw x with
    | some e => rfl
    | none =>
      cases elCases env cases [] with
      | error e => rfl
      | ok cs =>
        dsimp only
        cases pick env psw x cs [] with
        | error e => rfl
        | ok items => rfl
/-- The case list of a poryswitch up to its closing `}`. -/
theorem casesP (cs : Cases) (k : ListKind) (stt : Tok) (acc : List (String × List Tok)) (rb : Tok)
    (tl : List Tok) (hrb : rb.type = .RBRACE) (hwf : wfCases (isMart k) cs) (f : Nat)
    (hf : needCases cs ≤ f) :
    (parsePoryswitchListCases env k stt f acc).run (st s (cs.toks ++ rb :: tl)) =
      match elCases env cs acc with
      | .error e => .error e
      | .ok res => .ok (res, st s (rb :: tl)) := by
  obtain ⟨n, rfl⟩ : ∃ n, f = n + 1 := ⟨f - 1, by cases cs <;> simp [needCases] at hf <;> omega⟩
  cases cs with
  | nil =>
    simpa [Cases.toks, elCases] using casesK_close env k stt n acc s rb tl hrb
  | colon v c e rest =>
    simp only [wfCases] at hwf
    obtain ⟨hv, hc, hwe, hwr⟩ := hwf
    obtain ⟨m, rfl⟩ : ∃ m, n = m + 1 := ⟨n - 1, by simp [needCases] at hf; omega⟩
    obtain ⟨a, t', heq, ha⟩ := cases_head (isMart k) rest rb tl hwr (by simp [hrb])
    have hE := stepP e k.nested (good_nested k) false [] a t' ha (by rw [isMart_nested]; exact hwe) m
      (by simp [needCases] at hf; omega)
    simp only [afterK, Bool.false_eq_true, if_false, List.nil_append] at hE
    have hR := fun l => casesP rest k stt ((v.lit, l) :: acc) rb tl hrb hwr (m + 1)
      (by simp [needCases] at hf; omega)
    have hw : (Cases.colon v c e rest).toks ++ rb :: tl = v :: c :: (e.toks ++ a :: t') := by
      simp [Cases.toks, heq]
    rw [hw, casesK_colon env k stt (m + 1) acc s v c _ hv hc, hE]
    simp only [elCases]
    cases elItem env e with
    | error e => rfl
    | ok l =>
      simp only
      rw [← heq, hR l]
  | brace v lb items rb' rest =>
    simp only [wfCases] at hwf
    obtain ⟨hv, hlb, hrb', hwi, hwr⟩ := hwf
    have hI := itemsP items k.nested (good_nested k) [] rb' (rest.toks ++ rb :: tl)
      (by rw [nested_closing]; exact hrb') (by rw [isMart_nested]; exact hwi) n
      (by simp [needCases] at hf; omega)
    simp only [List.nil_append] at hI
    have hR := fun l => casesP rest k stt ((v.lit, l) :: acc) rb tl hrb hwr n
      (by simp [needCases] at hf; omega)
    have hw : (Cases.brace v lb items rb' rest).toks ++ rb :: tl =
        v :: lb :: (items.toks ++ rb' :: (rest.toks ++ rb :: tl)) := by simp [Cases.toks]
    rw [hw, casesK_brace env k stt n acc s v lb _ hv hlb (elItems env items) rb' _ hrb' hI]
    simp only [elCases]
    cases elItems env items with
    | error e => rfl
    | ok l =>
      simp only
      rw [hR l]
/-- A whole list up to its closing token. -/
theorem itemsP (is : Items) (k : ListKind) (hg : GoodKind k) (acc : List Tok) (close : Tok)
    (tl : List Tok) (hclose : close.type = k.closing) (hwf : wfItems (isMart k) is) (f : Nat)
    (hf : needItems is ≤ f) :
    (parseListValue env k true f acc).run (st s (is.toks ++ close :: tl)) =
      match elItems env is with
      | .error e => .error e
      | .ok out => .ok (acc ++ out, st s (close :: tl)) := by
  obtain ⟨n, rfl⟩ : ∃ n, f = n + 1 := ⟨f - 1, by cases is <;> simp [needItems] at hf <;> omega⟩
  cases is with
  | nil =>
    simpa [Items.toks, elItems] using plvK_close env k true n acc s close tl hclose
  | cons i r =>
    simp only [wfItems] at hwf
    obtain ⟨x, t', heq, hx⟩ := items_head (isMart k) r close tl hwf.2 (by rw [hclose]; exact hg.mul)
    have hS := stepP i k hg true acc x t' hx hwf.1 n (by simp [needItems] at hf; omega)
    simp only [afterK, if_true] at hS
    have hR := fun a => itemsP r k hg (acc ++ a) close tl hclose hwf.2 n (by simp [needItems] at hf; omega)
    have hw : (Items.cons i r).toks ++ close :: tl = i.toks ++ x :: t' := by simp [Items.toks, heq]
    rw [hw, hS]
    simp only [elItems]
    cases elItem env i with
    | error e => rfl
    | ok a =>
      simp only
      rw [← heq, hR a]
      cases elItems env r with
      | error e => rfl
      | ok b => simp
end

end

/-- **Lists with poryswitch elements, all outcomes** (`}`- or `)`-closed movement lists, mart lists): the parser
on the printed list followed by its closing token is the reference elaboration; on success the accumulator is
extended, the window is left on the closing token, nothing else in the state changes. Fuel: number of printed
tokens + 1. -/
theorem parse_list_ps (env : Env) (k : ListKind) (hg : GoodKind k) (s : PState) (items : Items) (close : Tok)
    (rest : List Tok) (hwf : wfItems (isMart k) items) (hclose : close.type = k.closing) (acc : List Tok)
    (fuel : Nat) (hf : items.toks.length + 1 ≤ fuel) :
    (parseListValue env k true fuel acc).run (st s (items.toks ++ close :: rest)) =
      match elItems env items with
      | .error e => .error e
      | .ok out => .ok (acc ++ out, st s (close :: rest)) := by
  have := C14b.needItems_le items
  exact itemsP env s items k hg acc close rest hclose hwf fuel (by omega)

/-! ### relation to the poryswitch-free grammar of C14b / P2 -/

theorem elItems_ofList_of_expand : ∀ (env : Env) (l : List Item) (out : List Tok),
    C14b.expand l = some out → elItems env (Items.ofList l) = .ok out
  | _, [], out, h => by
    simp only [C14b.expand, Option.some.injEq] at h
    subst h
    simp [Items.ofList, elItems]
  | env, i :: r, out, h => by
    unfold C14b.expand at h
    cases hie : i.expand with
    | none => simp [hie] at h
    | some a =>
      cases hre : C14b.expand r with
      | none => simp [hie, hre] at h
      | some b =>
        simp [hie, hre] at h
        subst h
        have ih := elItems_ofList_of_expand env r b hre
        have hi : plainEl i = .ok a := by
          cases i with
          | step n => simp [Item.expand] at hie; subst hie; rfl
          | stepMul n s' x =>
            simp only [Item.expand, C14b.mulOf] at hie
            cases hk : mulCheck x.lit with
            | error e => simp [hk] at hie
            | ok kk => simp [hk] at hie; subst hie; simp [plainEl, hk]
          | comma t => simp [Item.expand] at hie; subst hie; rfl
        simp [Items.ofList, elItems, elItem, hi, ih]

theorem wfItems_ofList_movement : ∀ (l : List Item), (∀ i ∈ l, i.WF) → wfItems false (Items.ofList l)
  | [], _ => by simp [Items.ofList, wfItems]
  | i :: r, h => by
    simp only [Items.ofList, wfItems, wfItem]
    refine ⟨?_, wfItems_ofList_movement r (fun j hj => h j (by simp [hj]))⟩
    have := h i (by simp)
    cases i <;> simp_all [plainWF, Item.WF]

/-- A mart list of plain IDENT tokens as `Items`. -/
def martItems : List Tok → Items
  | [] => .nil
  | t :: r => .cons (.plain (.step t)) (martItems r)

theorem martItems_toks : ∀ (l : List Tok), (martItems l).toks = l
  | [] => rfl
  | t :: r => by simp [martItems, Items.toks, ItemP.toks, Item.toks, martItems_toks r]

theorem martItems_el (env : Env) : ∀ (l : List Tok), elItems env (martItems l) = .ok l
  | [] => rfl
  | t :: r => by simp [martItems, elItems, elItem, plainEl, martItems_el env r]

theorem martItems_wf : ∀ (l : List Tok), (∀ t ∈ l, t.type = .IDENT) → wfItems true (martItems l)
  | [], _ => by simp [martItems, wfItems]
  | t :: r, h => by
    simp only [martItems, wfItems, wfItem, plainWF]
    exact ⟨h t (by simp), martItems_wf r (fun j hj => h j (by simp [hj]))⟩

end Pory.P2d
