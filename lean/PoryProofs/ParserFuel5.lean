import PoryProofs.ParserFuel4
/-
C18 (totality of the parser), part 6: no function below the statement level runs out of fuel when
its fuel is at least `4 * (remaining tokens) + (a constant per function)`.
-/
namespace Pory.Parser
open Pory

/-- `m` never runs out of fuel (it has no fuel-bounded loop). -/
def NFree {α} (m : PM α) : Prop := ∀ s, nf m s

theorem NFree.iff {α} {m : PM α} (h : NFree m) (s : PState) : nf m s ↔ True := iff_true_intro (h s)

/-- Side conditions of a call: the `EOF` assumption, error values, a fuel bound. -/
macro "nfside" : tactic =>
  `(tactic| first
    | assumption
    | exact (notFuel_err _ _).2 trivial
    | exact (notFuel_rerr _ _ _).2 trivial
    | grind [getD_cases, headD_cases, withEof_eof, withEof_toks, upd_toks, upd_eof, setSid_toks, setSid_eof,
        setB_toks, setB_eof, setC_toks, setC_eof])

theorem nfree_parsePoryswitchHeader (env : Env) : NFree (parsePoryswitchHeader env) := by
  intro s; unfold parsePoryswitchHeader; vcfin

theorem nfree_parseScopeModifier (d : TT) : NFree (parseScopeModifier d) := by
  intro s; unfold parseScopeModifier; vcfin

theorem nf_formatNamedParams : ∀ (n : Nat) (fp : FmtParams) (s : PState), s.eof.type = .EOF →
    s.toks.length + 1 ≤ n → nf (formatNamedParams n fp) s := by
  intro n
  induction n with
  | zero => intro fp s _ h; omega
  | succ n ih =>
    intro fp s he hn
    rw [formatNamedParams]
    vcfin
    all_goals (apply ih <;> nfside)

theorem nf_fmtMatch {α} (x : Except String (List Char)) (f : List Char → PM α) (g : String → PM α)
    (s : PState) :
    nf (parseFormatStringOperator.match_1 (fun _ => PM α) x f g) s ↔
      (∀ a, x = .ok a → nf (f a) s) ∧ (∀ e, x = .error e → nf (g e) s) := by
  cases x <;> simp

theorem nf_parseFormatStringOperator (env : Env) (n : Nat) (s : PState) (he : s.eof.type = .EOF)
    (hn : s.toks.length + 1 ≤ n) : nf (parseFormatStringOperator env n) s := by
  unfold parseFormatStringOperator
  vcfin [(frame_formatNamedParams _ _).dec_iff (dec_formatNamedParams _ _), iff_true_intro he, wp_fmtMatch,
    nf_fmtMatch]
  all_goals (apply nf_formatNamedParams <;> nfside)

theorem nf_parseTextValue (env : Env) (n : Nat) (s : PState) (he : s.eof.type = .EOF)
    (hn : s.toks.length + 1 ≤ n) : nf (parseTextValue env n) s := by
  unfold parseTextValue
  vcfin [(frame_parseFormatStringOperator _ _).dec_iff (dec_parseFormatStringOperator _ _), iff_true_intro he]
  all_goals (apply nf_parseFormatStringOperator <;> nfside)

theorem nf_poryswitchTextCases (env : Env) (tok : Tok) :
    ∀ (n : Nat) (acc : List (String × String × String)) (s : PState), s.eof.type = .EOF →
      s.toks.length + 2 ≤ n → nf (poryswitchTextCases env tok n acc) s := by
  intro n
  induction n with
  | zero => intro acc s _ h; omega
  | succ n ih =>
    intro acc s he hn
    rw [poryswitchTextCases]
    vcfin [(frame_parseTextValue _ _).dec_iff (dec_parseTextValue _ _), iff_true_intro he]
    all_goals first
      | (apply ih <;> nfside)
      | (apply nf_parseTextValue <;> nfside)

theorem nf_parsePoryswitchTextStatement (env : Env) (n : Nat) (s : PState) (he : s.eof.type = .EOF)
    (hn : s.toks.length + 2 ≤ n) : nf (parsePoryswitchTextStatement env n) s := by
  unfold parsePoryswitchTextStatement
  vcfin [(frame_parsePoryswitchHeader _).dec_iff (dec_parsePoryswitchHeader _),
    (frame_poryswitchTextCases _ _ _ _).dec_iff (dec_poryswitchTextCases _ _ _ _), iff_true_intro he,
    (nfree_parsePoryswitchHeader _).iff]
  all_goals (apply nf_poryswitchTextCases <;> nfside)

theorem nf_listBlock (env : Env) : ∀ n : Nat,
    (∀ kind am acc (s : PState), s.eof.type = .EOF → 4 * s.toks.length + 3 ≤ n →
      nf (parseListValue env kind am n acc) s) ∧
    (∀ kind (s : PState), s.eof.type = .EOF → 4 * s.toks.length + 2 ≤ n →
      nf (parsePoryswitchListStatement env kind n) s) ∧
    (∀ kind tok acc (s : PState), s.eof.type = .EOF → 4 * s.toks.length + 1 ≤ n →
      nf (parsePoryswitchListCases env kind tok n acc) s) := by
  intro n
  induction n with
  | zero =>
    refine ⟨?_, ?_, ?_⟩
    · intro kind am acc s _ h; omega
    · intro kind s _ h; omega
    · intro kind tok acc s _ h; omega
  | succ n ih =>
    obtain ⟨ih1, ih2, ih3⟩ := ih
    have f1 := fun kind am acc =>
      ((frame_listBlock env n).1 kind am acc).dec_iff ((dec_listBlock env n).1 kind am acc)
    have f2 := fun kind => ((frame_listBlock env n).2.1 kind).dec_iff ((dec_listBlock env n).2.1 kind)
    have f3 := fun kind tok acc =>
      ((frame_listBlock env n).2.2 kind tok acc).dec_iff ((dec_listBlock env n).2.2 kind tok acc)
    refine ⟨?_, ?_, ?_⟩
    · intro kind am acc s he hn
      rw [parseListValue]
      cases kind <;> vcfin [f1, f2, iff_true_intro he]
      all_goals first
        | (apply ih1 <;> nfside)
        | (apply ih2 <;> nfside)
    · intro kind s he hn
      rw [parsePoryswitchListStatement]
      vcfin [f3, (frame_parsePoryswitchHeader _).dec_iff (dec_parsePoryswitchHeader _), iff_true_intro he,
        (nfree_parsePoryswitchHeader _).iff]
      all_goals (apply ih3 <;> nfside)
    · intro kind tok acc s he hn
      rw [parsePoryswitchListCases]
      vcfin [f1, f3, iff_true_intro he]
      all_goals first
        | (apply ih1 <;> nfside)
        | (apply ih3 <;> nfside)

theorem nf_parseListValue (env : Env) (kind : ListKind) (am : Bool) (n : Nat) (acc : List Tok) (s : PState)
    (he : s.eof.type = .EOF) (hn : 4 * s.toks.length + 3 ≤ n) : nf (parseListValue env kind am n acc) s :=
  (nf_listBlock env n).1 kind am acc s he hn

theorem nf_parseMovesOperator (env : Env) (n : Nat) (s : PState) (he : s.eof.type = .EOF)
    (hn : 4 * s.toks.length + 3 ≤ n) : nf (parseMovesOperator env n) s := by
  unfold parseMovesOperator
  vcfin [iff_true_intro he]
  all_goals (apply nf_parseListValue <;> nfside)

theorem nf_cmdArgsLoop (env : Env) (sn : String) (id : Nat) (tok : Tok) :
    ∀ (n : Nat) (a : CmdAcc) (s : PState), s.eof.type = .EOF → 4 * s.toks.length + 4 ≤ n →
      nf (cmdArgsLoop env sn id tok n a) s := by
  intro n
  induction n with
  | zero => intro a s _ h; omega
  | succ n ih =>
    intro a s he hn
    rw [cmdArgsLoop]
    vcfin [(frame_parseFormatStringOperator _ _).dec_iff (dec_parseFormatStringOperator _ _),
      (frame_parseMovesOperator _ _).dec_iff (dec_parseMovesOperator _ _), iff_true_intro he]
    all_goals first
      | (apply ih <;> nfside)
      | (apply nf_parseFormatStringOperator <;> nfside)
      | (apply nf_parseMovesOperator <;> nfside)

theorem nf_parseCommandStatement (env : Env) (sn : String) (n : Nat) (s : PState) (he : s.eof.type = .EOF)
    (hn : 4 * s.toks.length + 4 ≤ n) : nf (parseCommandStatement env sn n) s := by
  unfold parseCommandStatement
  vcfin [wp_bumpCmdId, iff_true_intro he]
  all_goals (apply nf_cmdArgsLoop <;> nfside)

theorem nf_expectPeekVarOrAutoVar (env : Env) (sn : String) (n : Nat) (s : PState) (he : s.eof.type = .EOF)
    (hn : 4 * s.toks.length + 4 ≤ n) : nf (expectPeekVarOrAutoVar env sn n) s := by
  unfold expectPeekVarOrAutoVar
  vcfin [(frame_parseCommandStatement _ _ _).dec_iff (dec_parseCommandStatement _ _ _), iff_true_intro he]
  all_goals (apply nf_parseCommandStatement <;> nfside)

theorem nf_parseConditionVarOperator (e : OpExpr) (n : Nat) (s : PState) (he : s.eof.type = .EOF)
    (hn : s.toks.length + 1 ≤ n) : nf (parseConditionVarOperator e n) s := by
  unfold parseConditionVarOperator
  vcfin [iff_true_intro he]
  all_goals first
    | (apply valueLoop_fuel_partial <;> nfside)
    | (apply collectUntilRange_fuel_partial <;> nfside)

theorem nfree_parseConditionFlagLikeOperator (e : OpExpr) (nm : String) :
    NFree (parseConditionFlagLikeOperator e nm) := by
  intro s; unfold parseConditionFlagLikeOperator; vcfin

theorem nf_parseLeafBooleanExpression (env : Env) (sn : String) (n : Nat) (s : PState)
    (he : s.eof.type = .EOF) (hn : 4 * s.toks.length + 4 ≤ n) : nf (parseLeafBooleanExpression env sn n) s := by
  unfold parseLeafBooleanExpression
  vcfin [peekTokenIsAutoVar, (frame_collectUntil _ _ _ _).dec_iff (dec_collectUntil _ _ _ _),
    (frame_expectPeekVarOrAutoVar _ _ _).dec_iff (dec_expectPeekVarOrAutoVar _ _ _),
    (nfree_parseConditionFlagLikeOperator _ _).iff, iff_true_intro he]
  all_goals first
    | (apply collectUntil_fuel_partial <;> nfside)
    | (apply nf_expectPeekVarOrAutoVar <;> nfside)
    | (apply nf_parseConditionVarOperator <;> nfside)

theorem nf_boolBlock (env : Env) (sn : String) : ∀ n : Nat,
    (∀ single negated (s : PState), s.eof.type = .EOF → 4 * s.toks.length + 5 ≤ n →
      nf (parseBooleanExpression env sn single negated n) s) ∧
    (∀ left single negated (s : PState), s.eof.type = .EOF → 4 * s.toks.length + 6 ≤ n →
      nf (parseRightSideExpression env sn left single negated n) s) := by
  intro n
  induction n with
  | zero =>
    refine ⟨?_, ?_⟩
    · intro a b s _ h; omega
    · intro l a b s _ h; omega
  | succ n ih =>
    obtain ⟨ih1, ih2⟩ := ih
    have f1 := fun a b => ((frame_boolBlock env sn n).1 a b).dec_iff ((dec_boolBlock env sn n).1 a b)
    have f2 := fun l a b => ((frame_boolBlock env sn n).2 l a b).dec_iff ((dec_boolBlock env sn n).2 l a b)
    refine ⟨?_, ?_⟩
    · intro a b s he hn
      rw [parseBooleanExpression]
      vcfin [f1, f2, (frame_parseLeafBooleanExpression _ _ _).dec_iff (dec_parseLeafBooleanExpression _ _ _),
        iff_true_intro he]
      all_goals first
        | (apply ih1 <;> nfside)
        | (apply ih2 <;> nfside)
        | (apply nf_parseLeafBooleanExpression <;> nfside)
    · intro l a b s he hn
      rw [parseRightSideExpression]
      vcfin [f1, f2, iff_true_intro he]
      all_goals first
        | (apply ih1 <;> nfside)
        | (apply ih2 <;> nfside)

theorem nf_parseBooleanExpression (env : Env) (sn : String) (single negated : Bool) (n : Nat) (s : PState)
    (he : s.eof.type = .EOF) (hn : 4 * s.toks.length + 5 ≤ n) :
    nf (parseBooleanExpression env sn single negated n) s := (nf_boolBlock env sn n).1 single negated s he hn

theorem nfree_tryParseLabelStatement : NFree tryParseLabelStatement := by
  intro s; unfold tryParseLabelStatement; vcfin

end Pory.Parser
