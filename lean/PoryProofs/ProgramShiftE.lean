import PoryProofs.StmtGrammarMS
import PoryProofs.ProgramShift
/-
P2f helpers (ProgramShift re-run over the body grammar of P1c, `P1c.SStmt`): the reference elaboration of a
script body of P1c commutes with a shift of the two counters.

Interface lemmas about commands: `elabC_shift` (`CmdM.elabC` from `cid + dc` = the node / implicit data from `cid`
with the command id shifted — including the hoisted movement of a `movesS` element, which carries the command id),
`res_shift` (leaves of conditions), `elabOr_shift` (conditions over any leaf type), then the six-function induction
`elabS_shiftE … elabPCases_shiftE`.
-/
namespace Pory.P2f
open Pory Pory.Parser Pory.C02P Pory.C10b Pory.SwitchParse Pory.BoolGen Pory.CmdGen Pory.LeafGen Pory.P1c
open Pory.C14b (swVal)
open Pory.StmtG (caseValue caseTok autoPosBad operandOf Ctx ctxOf)
open Pory.C11b (operandName Form autoLeafT autoE)
open Pory.C12c
open Pory.P2
open Pory.TextValueParse

theorem elabL_nilE (env : Env) (sn : String) (σ : String → String) (B C : List Nat) (last : Bool)
    (sid cid : Nat) : elabL env sn σ B C last [] sid cid = .ok ([], {}, sid, cid) := by
  rw [elabL]

theorem elabL_consE (env : Env) (sn : String) (σ : String → String) (B C : List Nat) (last : Bool)
    (x : SStmt) (r : List SStmt) (sid cid : Nat) :
    elabL env sn σ B C last (x :: r) sid cid =
      match elabS env sn σ B C (r.isEmpty && last) x sid cid with
      | .error e => .error e
      | .ok (a, m1, sid1, cid1) =>
        match elabL env sn σ B C last r sid1 cid1 with
        | .error e => .error e
        | .ok (b, m2, sid2, cid2) => .ok (a ++ b, m1.add m2, sid2, cid2) := by
  rw [elabL]; rfl

/-! ### commands -/

theorem impOfM_shift (env : Env) (sn : String) (cid dc : Nat) (ct : Tok) (pos : Nat) (e : MElem) :
    impOfM env sn (cid + dc) ct pos e = mapImp (· + dc) (impOfM env sn cid ct pos e) := by
  cases e with
  | base e =>
    cases e with
    | base e => simp only [impOfM, impOfI]; exact impOf_shift sn cid dc ct pos e
    | fmt fm lp sty text P rp => simp [impOfM, impOfI, fmtImp, mapImp]
  | movesS mv lp items rp => simp [impOfM, movImp, mapImp]

theorem impArgM_shift (env : Env) (sn : String) (cid dc : Nat) (ct : Tok) (pos : Nat) :
    ∀ (a : List MElem), impArgM env sn (cid + dc) ct pos a = mapImp (· + dc) (impArgM env sn cid ct pos a)
  | [] => rfl
  | e :: r => by simp only [impArgM, mapImp_add, impOfM_shift, impArgM_shift env sn cid dc ct pos r]

theorem impArgsM_shift (env : Env) (sn : String) (cid dc : Nat) (ct : Tok) :
    ∀ (pos : Nat) (l : List (List MElem)),
      impArgsM env sn (cid + dc) ct pos l = mapImp (· + dc) (impArgsM env sn cid ct pos l)
  | _, [] => rfl
  | pos, a :: r => by simp only [impArgsM, mapImp_add, impArgM_shift, impArgsM_shift env sn cid dc ct (pos + 1) r]

/-- **Commands**: the node and the implicit data (hoisted texts, hoisted movements of `moves( … )` — with or
without poryswitch) from the shifted counter are those from the counter, with the command id shifted. -/
theorem elabC_shift (env : Env) (sn : String) (σ : String → String) (cid dc : Nat) (c : CmdM) :
    c.elabC env sn σ (cid + dc) =
      match c.elabC env sn σ cid with
      | .error e => .error e
      | .ok (cmd, m) => .ok (mapCmd (· + dc) cmd, mapImp (· + dc) m) := by
  unfold CmdM.elabC
  cases argsErrM env c.argList with
  | some e => rfl
  | none => simp [CmdM.node, CmdM.imp, mapCmd, impArgsM_shift]

/-! ### leaves and conditions -/

def shL (dc : Nat) : Except PFail (OpExpr × ImpData × Nat) → Except PFail (OpExpr × ImpData × Nat)
  | .error e => .error e
  | .ok (t, m, j) => .ok (mapOp (· + dc) t, mapImp (· + dc) m, j + dc)

def shC (dc : Nat) : Except PFail (BoolExpr × ImpData × Nat) → Except PFail (BoolExpr × ImpData × Nat)
  | .error e => .error e
  | .ok (t, m, j) => .ok (mapB (· + dc) t, mapImp (· + dc) m, j + dc)

@[simp] theorem shL_error (dc : Nat) (e : PFail) : shL dc (.error e) = .error e := rfl
@[simp] theorem shL_ok (dc : Nat) (t : OpExpr) (m : ImpData) (j : Nat) :
    shL dc (.ok (t, m, j)) = .ok (mapOp (· + dc) t, mapImp (· + dc) m, j + dc) := rfl
@[simp] theorem shC_error (dc : Nat) (e : PFail) : shC dc (.error e) = .error e := rfl
@[simp] theorem shC_ok (dc : Nat) (t : BoolExpr) (m : ImpData) (j : Nat) :
    shC dc (.ok (t, m, j)) = .ok (mapB (· + dc) t, mapImp (· + dc) m, j + dc) := rfl

theorem mapOp_noPre (f : Nat → Nat) {e : OpExpr} (h : e.preamble = none) : mapOp f e = e := by
  cases e
  simp_all [mapOp]

theorem leafT_pre (σ : String → String) (l : Leaf) : (leafT σ l).preamble = none := by cases l <;> rfl

theorem applyVal_pre (σ : String → String) (e : OpExpr) (op : TT) (v : CmpVal) :
    (applyVal σ e op v).preamble = e.preamble := by cases v <;> rfl

theorem ktree_pre (σ : String → String) (l : KLeaf) : (l.tree σ).preamble = none := by
  obtain ⟨nt, kw, lp, o, ops, rp, post⟩ := l
  cases nt with
  | some t => rfl
  | none =>
    cases post with
    | none => simp only [KLeaf.tree]; split <;> rfl
    | flag a b => rfl
    | var a v => simp only [KLeaf.tree, applyVal_pre]

theorem mapOp_negLeaf (f : Nat → Nat) (neg : Bool) (t : OpExpr) :
    mapOp f (negLeaf neg t) = negLeaf neg (mapOp f t) := by
  cases neg <;> rfl

theorem mapOp_applyVal (f : Nat → Nat) (σ : String → String) (e : OpExpr) (op : TT) (v : CmpVal) :
    mapOp f (applyVal σ e op v) = applyVal σ (mapOp f e) op v := by cases v <;> rfl

theorem res_shift (env : Env) (sn : String) (σ : String → String) (dc id : Nat) (lf : CLeaf) :
    CLeaf.res env sn σ (id + dc) lf = shL dc (CLeaf.res env sn σ id lf) := by
  cases lf with
  | plain l => simp [CLeaf.res, mapOp_noPre _ (leafT_pre σ l), mapImp_nil]
  | kw l => simp [CLeaf.res, mapOp_noPre _ (ktree_pre σ l), mapImp_nil]
  | auto fm c =>
    simp only [CLeaf.res]
    cases env.autoVars.lookup c.name.lit with
    | none => rfl
    | some av =>
      simp only [elabC_shift]
      cases c.elabC env sn σ id with
      | error e => rfl
      | ok q =>
        obtain ⟨cmd, imp⟩ := q
        simp only
        cases autoPosBad av c.nargs with
        | some pos => rfl
        | none =>
          simp only [shL_ok, mapOp, autoLeafT, mapCmd, Option.map_some, Except.ok.injEq, Prod.mk.injEq, true_and]
          omega
  | autoV c opTok v =>
    simp only [CLeaf.res]
    cases env.autoVars.lookup c.name.lit with
    | none => rfl
    | some av =>
      simp only [elabC_shift]
      cases c.elabC env sn σ id with
      | error e => rfl
      | ok q =>
        obtain ⟨cmd, imp⟩ := q
        simp only
        cases autoPosBad av c.nargs with
        | some pos => rfl
        | none =>
          have h1 : mapOp (· + dc) (autoE {} (operandName av cmd.args) cmd) =
              autoE {} (operandName av (mapCmd (· + dc) cmd).args) (mapCmd (· + dc) cmd) := rfl
          have e : id + dc + 1 = id + 1 + dc := by omega
          simp only [shL_ok, mapOp_applyVal, h1, e]

section
variable {L : Type} (res : (String → String) → Nat → L → Except PFail (OpExpr × ImpData × Nat))
  (σ : String → String) (dc : Nat)

mutual
theorem elabOr_shift (hres : ∀ id lf, res σ (id + dc) lf = shL dc (res σ id lf)) :
    ∀ (neg : Bool) (g : GOr L) (id : Nat), elabOr res σ neg g (id + dc) = shC dc (elabOr res σ neg g id)
  | neg, .one a, id => by rw [elabOr, elabOr]; exact elabAnd_shift hres neg a id
  | neg, .more a p r, id => by
    rw [elabOr, elabOr, elabAnd_shift hres neg a id]
    cases elabAnd res σ neg a id with
    | error e => rfl
    | ok q =>
      obtain ⟨ta, ma, j⟩ := q
      simp only [shC_ok, elabOr_shift hres neg r j]
      cases elabOr res σ neg r j with
      | error e => rfl
      | ok q2 => obtain ⟨tr, mr, j'⟩ := q2; simp [mapB, mapImp_add]
theorem elabAnd_shift (hres : ∀ id lf, res σ (id + dc) lf = shL dc (res σ id lf)) :
    ∀ (neg : Bool) (g : GAnd L) (id : Nat), elabAnd res σ neg g (id + dc) = shC dc (elabAnd res σ neg g id)
  | neg, .one u, id => by rw [elabAnd, elabAnd]; exact elabUn_shift hres neg u id
  | neg, .more u p r, id => by
    rw [elabAnd, elabAnd, elabUn_shift hres neg u id]
    cases elabUn res σ neg u id with
    | error e => rfl
    | ok q =>
      obtain ⟨t, m, j⟩ := q
      simp only [shC_ok, elabAcc_shift hres neg t r j]
      cases elabAcc res σ neg t r j with
      | error e => rfl
      | ok q2 => obtain ⟨t', m', j'⟩ := q2; simp [mapImp_add]
theorem elabAcc_shift (hres : ∀ id lf, res σ (id + dc) lf = shL dc (res σ id lf)) :
    ∀ (neg : Bool) (left : BoolExpr) (g : GAnd L) (id : Nat),
      elabAcc res σ neg (mapB (· + dc) left) g (id + dc) = shC dc (elabAcc res σ neg left g id)
  | neg, left, .one u, id => by
    rw [elabAcc, elabAcc, elabUn_shift hres neg u id]
    cases elabUn res σ neg u id with
    | error e => rfl
    | ok q => obtain ⟨t, m, j⟩ := q; simp [mapB]
  | neg, left, .more u p r, id => by
    rw [elabAcc, elabAcc, elabUn_shift hres neg u id]
    cases elabUn res σ neg u id with
    | error e => rfl
    | ok q =>
      obtain ⟨t, m, j⟩ := q
      have h := elabAcc_shift hres neg (.bin left (andOp neg) t) r j
      simp only [mapB] at h
      simp only [shC_ok, h]
      cases elabAcc res σ neg (.bin left (andOp neg) t) r j with
      | error e => rfl
      | ok q2 => obtain ⟨t', m', j'⟩ := q2; simp [mapImp_add]
theorem elabUn_shift (hres : ∀ id lf, res σ (id + dc) lf = shL dc (res σ id lf)) :
    ∀ (neg : Bool) (g : GUn L) (id : Nat), elabUn res σ neg g (id + dc) = shC dc (elabUn res σ neg g id)
  | neg, .leaf lf, id => by
    rw [elabUn, elabUn, hres]
    cases res σ id lf with
    | error e => rfl
    | ok q => obtain ⟨t, m, j⟩ := q; simp [mapB, mapOp_negLeaf]
  | neg, .paren n _ _ _ e, id => by rw [elabUn, elabUn]; exact elabOr_shift hres (neg != n) e id
end
end

theorem elabCond_shiftE (env : Env) (sn : String) (σ : String → String) (dc : Nat) (c : SCond) (cid : Nat) :
    elabCond env sn σ c (cid + dc) = shC dc (elabCond env sn σ c cid) :=
  elabOr_shift (CLeaf.res env sn) σ dc (fun id lf => res_shift env sn σ dc id lf) false c cid

/-! ### the shift lemma -/

section
variable (env : Env) (sn : String) (σ : String → String) (ds dc : Nat)

mutual
theorem elabS_shiftE : ∀ (x : SStmt) (B C : List Nat) (nx : Bool) (sid cid : Nat),
    elabS env sn σ (B.map (· + ds)) (C.map (· + ds)) nx x (sid + ds) (cid + dc) =
      shG (mapL (· + dc) (· + ds)) ds dc (elabS env sn σ B C nx x sid cid)
  | .cmd c, _, _, _, _, cid => by
    rw [elabS, elabS, elabC_shift]
    cases c.elabC env sn σ cid with
    | error e => rfl
    | ok q => obtain ⟨cmd, m⟩ := q; simp [mapL_cons, mapL_nil, mapS_cmd]; omega
  | .label .., _, _, _, _, _ => by
    rw [elabS, elabS]; simp [mapL_cons, mapL_nil, mapS_label, mapImp_nil]
  | .labelS .., _, _, _, _, _ => by
    rw [elabS, elabS]; simp [mapL_cons, mapL_nil, mapS_label, mapImp_nil]
  | .brk t, B, C, nx, sid, cid => by
    cases B <;> simp only [List.map_nil, List.map_cons] <;> rw [elabS, elabS] <;>
      simp [mapL_cons, mapL_nil, mapS_brk, mapImp_nil]
  | .cont t, B, C, nx, sid, cid => by
    cases C with
    | nil => simp only [List.map_nil]; rw [elabS, elabS]; simp
    | cons c Ct =>
      cases nx <;> simp only [List.map_cons] <;> rw [elabS, elabS] <;>
        simp [mapL_cons, mapL_nil, mapS_cont, mapImp_nil]
  | .ite i lp c rp lb body rb elifs els, B, C, nx, sid, cid => by
    rw [elabS, elabS, elabCond_shiftE]
    cases elabCond env sn σ c cid with
    | error e => rfl
    | ok q =>
      obtain ⟨t, mc, c0⟩ := q
      simp only [shC_ok, elabL_shiftE body B C true sid c0]
      cases elabL env sn σ B C true body sid c0 with
      | error e => rfl
      | ok q2 =>
        obtain ⟨b, m1, s1, c1⟩ := q2
        simp only [shG_ok, elabElifs_shiftE elifs B C s1 c1]
        cases elabElifs env sn σ B C elifs s1 c1 with
        | error e => rfl
        | ok q3 =>
          obtain ⟨es, m2, s2, c2⟩ := q3
          simp only [shG_ok, elabElse_shiftE els B C s2 c2]
          cases elabElse env sn σ B C els s2 c2 with
          | error e => rfl
          | ok q4 =>
            obtain ⟨el, m3, s3, c3⟩ := q4
            simp [mapL_cons, mapL_nil, mapS_ite, mapImp_add]
  | .while_ w lp c rp lb body rb, B, C, nx, sid, cid => by
    rw [elabS, elabS, elabCond_shiftE]
    cases elabCond env sn σ c cid with
    | error e => rfl
    | ok q =>
      obtain ⟨t, mc, c0⟩ := q
      have e1 : sid + ds + 1 = sid + 1 + ds := by omega
      simp only [shC_ok, stack_cons, e1, elabL_shiftE body (sid :: B) (sid :: C) true (sid + 1) c0]
      cases elabL env sn σ (sid :: B) (sid :: C) true body (sid + 1) c0 with
      | error e => rfl
      | ok q2 =>
        obtain ⟨b, m1, s1, c1⟩ := q2
        simp [mapL_cons, mapL_nil, mapS_while, mapImp_add]
  | .whileInf w lb body rb, B, C, nx, sid, cid => by
    rw [elabS, elabS]
    have e1 : sid + ds + 1 = sid + 1 + ds := by omega
    simp only [stack_cons, e1, elabL_shiftE body (sid :: B) (sid :: C) true (sid + 1) cid]
    cases elabL env sn σ (sid :: B) (sid :: C) true body (sid + 1) cid with
    | error e => rfl
    | ok q2 =>
      obtain ⟨b, m1, s1, c1⟩ := q2
      simp [mapL_cons, mapL_nil, mapS_while]
  | .doWhile d lb body rb w lp c rp, B, C, nx, sid, cid => by
    rw [elabS, elabS]
    have e1 : sid + ds + 1 = sid + 1 + ds := by omega
    simp only [stack_cons, e1, elabL_shiftE body (sid :: B) (sid :: C) true (sid + 1) cid]
    cases elabL env sn σ (sid :: B) (sid :: C) true body (sid + 1) cid with
    | error e => rfl
    | ok q2 =>
      obtain ⟨b, m1, s1, c1⟩ := q2
      simp only [shG_ok, elabCond_shiftE]
      cases elabCond env sn σ c c1 with
      | error e => rfl
      | ok q =>
        obtain ⟨t, mc, c2⟩ := q
        simp [mapL_cons, mapL_nil, mapS_doWhile, mapImp_add]
  | .switch_ sw lp v lp2 ops rp2 rp lb cases rb, B, C, nx, sid, cid => by
    rw [elabS, elabS]
    have e1 : sid + ds + 1 = sid + 1 + ds := by omega
    simp only [stack_cons, e1, elabCases_shiftE cases (sid :: B) C [] false (sid + 1) cid]
    cases elabCases env sn σ (sid :: B) C cases [] false (sid + 1) cid with
    | error e => rfl
    | ok q =>
      obtain ⟨cs, m1, s1, c1⟩ := q
      simp only [shG_ok, mapCases_isEmpty]
      cases cs.isEmpty <;> simp [mapL_cons, mapL_nil, mapS_switch]
  | .switchA sw lp c rp lb cases rb, B, C, nx, sid, cid => by
    rw [elabS, elabS]
    cases env.autoVars.lookup c.name.lit with
    | none => rfl
    | some av =>
      simp only [elabC_shift]
      cases c.elabC env sn σ cid with
      | error e => rfl
      | ok qc =>
        obtain ⟨cmd, mc⟩ := qc
        simp only
        cases autoPosBad av c.nargs with
        | some pos => rfl
        | none =>
          have e1 : sid + ds + 1 = sid + 1 + ds := by omega
          have e2 : cid + dc + 1 = cid + 1 + dc := by omega
          simp only [stack_cons, e1, e2, elabCases_shiftE cases (sid :: B) C [] false (sid + 1) (cid + 1)]
          cases elabCases env sn σ (sid :: B) C cases [] false (sid + 1) (cid + 1) with
          | error e => rfl
          | ok q =>
            obtain ⟨cs, m1, s1, c1⟩ := q
            simp only [shG_ok, mapCases_isEmpty]
            cases cs.isEmpty <;> simp [mapL_cons, mapL_nil, mapS_switch, mapS_cmd, mapCmd, mapImp_add]
  | .pory ps lp x rp lb cases rb, B, C, nx, sid, cid => by
    rw [elabS, elabS]
    cases (env.envErrors && env.switches.isEmpty) with
    | true => rfl
    | false =>
      cases (env.envErrors && (env.switches.lookup x.lit).isNone) with
      | true => rfl
      | false =>
        simp only [Bool.false_eq_true, if_false]
        have h0 := elabPCases_shiftE cases B C [] sid cid
        simp only [mapT, List.map_nil] at h0
        rw [h0]
        cases elabPCases env sn σ B C cases [] sid cid with
        | error e => rfl
        | ok q =>
          obtain ⟨tb, s1, c1⟩ := q
          simp only [shT_ok, selectCase_mapT]
          cases selectCase env tb (swVal env x.lit) with
          | some r => simp
          | none => cases env.envErrors <;> simp [mapL_nil, mapImp_nil]
theorem elabL_shiftE : ∀ (b : List SStmt) (B C : List Nat) (last : Bool) (sid cid : Nat),
    elabL env sn σ (B.map (· + ds)) (C.map (· + ds)) last b (sid + ds) (cid + dc) =
      shG (mapL (· + dc) (· + ds)) ds dc (elabL env sn σ B C last b sid cid)
  | [], _, _, _, _, _ => by simp [elabL_nilE, mapL_nil, mapImp_nil]
  | x :: rest, B, C, last, sid, cid => by
    rw [elabL_consE, elabL_consE, elabS_shiftE x B C (rest.isEmpty && last) sid cid]
    cases elabS env sn σ B C (rest.isEmpty && last) x sid cid with
    | error e => rfl
    | ok q =>
      obtain ⟨a1, m1, s1, c1⟩ := q
      simp only [shG_ok, elabL_shiftE rest B C last s1 c1]
      cases elabL env sn σ B C last rest s1 c1 with
      | error e => rfl
      | ok q2 =>
        obtain ⟨a2, m2, s2, c2⟩ := q2
        simp [mapL_append, mapImp_add]
theorem elabElifs_shiftE : ∀ (es : List SElif) (B C : List Nat) (sid cid : Nat),
    elabElifs env sn σ (B.map (· + ds)) (C.map (· + ds)) es (sid + ds) (cid + dc) =
      shG (mapElifs (· + dc) (· + ds)) ds dc (elabElifs env sn σ B C es sid cid)
  | [], _, _, _, _ => by rw [elabElifs, elabElifs]; simp [mapElifs_nil, mapImp_nil]
  | .mk e lp c rp lb body rb :: rest, B, C, sid, cid => by
    rw [elabElifs, elabElifs, elabCond_shiftE]
    cases elabCond env sn σ c cid with
    | error e => rfl
    | ok q =>
      obtain ⟨t, mc, c0⟩ := q
      simp only [shC_ok, elabL_shiftE body B C true sid c0]
      cases elabL env sn σ B C true body sid c0 with
      | error e => rfl
      | ok q2 =>
        obtain ⟨b, m1, s1, c1⟩ := q2
        simp only [shG_ok, elabElifs_shiftE rest B C s1 c1]
        cases elabElifs env sn σ B C rest s1 c1 with
        | error e => rfl
        | ok q3 =>
          obtain ⟨es, m2, s2, c2⟩ := q3
          simp [mapElifs_cons, mapImp_add]
theorem elabElse_shiftE : ∀ (el : SElse) (B C : List Nat) (sid cid : Nat),
    elabElse env sn σ (B.map (· + ds)) (C.map (· + ds)) el (sid + ds) (cid + dc) =
      shG (Option.map (mapL (· + dc) (· + ds))) ds dc (elabElse env sn σ B C el sid cid)
  | .none, _, _, _, _ => by rw [elabElse, elabElse]; simp [mapImp_nil]
  | .some e lb body rb, B, C, sid, cid => by
    rw [elabElse, elabElse, elabL_shiftE body B C true sid cid]
    cases elabL env sn σ B C true body sid cid with
    | error e => rfl
    | ok q2 => obtain ⟨b, m1, s1, c1⟩ := q2; simp
theorem elabCases_shiftE : ∀ (cases : List SCase) (B C : List Nat) (seen : List String) (hd : Bool)
    (sid cid : Nat),
    elabCases env sn σ (B.map (· + ds)) (C.map (· + ds)) cases seen hd (sid + ds) (cid + dc) =
      shG (mapCases (· + dc) (· + ds)) ds dc (elabCases env sn σ B C cases seen hd sid cid)
  | [], _, _, _, _, _, _ => by rw [elabCases, elabCases]; simp [mapCases_nil, mapImp_nil]
  | .case ct vs colon body :: rest, B, C, seen, hd, sid, cid => by
    rw [elabCases, elabCases]
    cases seen.contains (caseValue σ vs) with
    | true => rfl
    | false =>
      simp only [Bool.false_eq_true, if_false, elabL_shiftE body B C rest.isEmpty sid cid]
      cases elabL env sn σ B C rest.isEmpty body sid cid with
      | error e => rfl
      | ok q2 =>
        obtain ⟨b, m1, s1, c1⟩ := q2
        simp only [shG_ok, elabCases_shiftE rest B C (caseValue σ vs :: seen) hd s1 c1]
        cases elabCases env sn σ B C rest (caseValue σ vs :: seen) hd s1 c1 with
        | error e => rfl
        | ok q3 => obtain ⟨cs, m2, s2, c2⟩ := q3; simp [mapCases_cons, mapImp_add]
  | .dflt d colon body :: rest, B, C, seen, hd, sid, cid => by
    rw [elabCases, elabCases]
    cases hd with
    | true => rfl
    | false =>
      simp only [Bool.false_eq_true, if_false, elabL_shiftE body B C rest.isEmpty sid cid]
      cases elabL env sn σ B C rest.isEmpty body sid cid with
      | error e => rfl
      | ok q2 =>
        obtain ⟨b, m1, s1, c1⟩ := q2
        simp only [shG_ok, elabCases_shiftE rest B C seen true s1 c1]
        cases elabCases env sn σ B C rest seen true s1 c1 with
        | error e => rfl
        | ok q3 => obtain ⟨cs, m2, s2, c2⟩ := q3; simp [mapCases_cons, mapImp_add]
theorem elabPCases_shiftE : ∀ (cases : List SPCase) (B C : List Nat) (acc : List (String × List Stmt × ImpData))
    (sid cid : Nat),
    elabPCases env sn σ (B.map (· + ds)) (C.map (· + ds)) cases (mapT ds dc acc) (sid + ds) (cid + dc) =
      shT ds dc (elabPCases env sn σ B C cases acc sid cid)
  | [], _, _, _, _, _ => by rw [elabPCases, elabPCases]; rfl
  | .colon key ct x :: rest, B, C, acc, sid, cid => by
    rw [elabPCases, elabPCases, elabS_shiftE x B C rest.isEmpty sid cid]
    cases elabS env sn σ B C rest.isEmpty x sid cid with
    | error e => rfl
    | ok q =>
      obtain ⟨a1, m1, s1, c1⟩ := q
      simp only [shG_ok, mapT_cons]
      exact elabPCases_shiftE rest B C _ s1 c1
  | .colon0 key ct :: rest, B, C, acc, sid, cid => by
    rw [elabPCases, elabPCases]
    have h := elabPCases_shiftE rest B C ((key.lit, [], {}) :: acc) sid cid
    rw [← mapT_cons, mapL_nil, mapImp_nil] at h
    exact h
  | .brace key lbt body rbt :: rest, B, C, acc, sid, cid => by
    rw [elabPCases, elabPCases, elabL_shiftE body B C true sid cid]
    cases elabL env sn σ B C true body sid cid with
    | error e => rfl
    | ok q =>
      obtain ⟨a1, m1, s1, c1⟩ := q
      simp only [shG_ok, mapT_cons]
      exact elabPCases_shiftE rest B C _ s1 c1
end
end

end Pory.P2f
