import PoryProofs.BoolParseTokens
import PoryModel.EmitRender
/-
L2 helpers, stage 0: **position erasure on the AST** (`Program` and everything below it).

`pe t` forgets the six position fields of a token (type and literal stay); `peS`, `peL`, … `peProgram`
apply it to every token record stored in the AST.  Two programs with the same `peProgram` differ only in
the positions of their token records.  `peEFail` does the same to the token of a located emitter error.
-/
namespace Pory.L2
open Pory Pory.Emit

/-- Forget the positions of a token (type and literal stay). -/
def pe (t : Tok) : Tok := C02P.erase t

@[simp] theorem pe_type (t : Tok) : (pe t).type = t.type := rfl
@[simp] theorem pe_lit (t : Tok) : (pe t).lit = t.lit := rfl
@[simp] theorem pe_line (t : Tok) : (pe t).line = 0 := rfl
@[simp] theorem pe_pe (t : Tok) : pe (pe t) = pe t := rfl
theorem pe_eq_iff (t u : Tok) : pe t = pe u ↔ t.type = u.type ∧ t.lit = u.lit := by
  cases t; cases u
  simp [pe, C02P.erase, C02P.tk, C02P.tkp]
theorem pe_with_lit (t : Tok) (l : String) : pe { t with lit := l } = { pe t with lit := l } := rfl
@[simp] theorem pe_default : pe ({} : Tok) = {} := rfl

def peCmd (c : Cmd) : Cmd := { c with tok := pe c.tok }

def peOp (e : OpExpr) : OpExpr := { e with operand := pe e.operand, preamble := e.preamble.map peCmd }

def peBool : BoolExpr → BoolExpr
  | .leaf e => .leaf (peOp e)
  | .bin l op r => .bin (peBool l) op (peBool r)

mutual
def peS : Stmt → Stmt
  | .cmd c => .cmd (peCmd c)
  | .label t n g => .label (pe t) n g
  | .ite t c b es e =>
      .ite (pe t) (peBool c) (peL b) (peElifs es) (match e with | some l => some (peL l) | none => none)
  | .while_ t sid c b => .while_ (pe t) sid (c.map peBool) (peL b)
  | .doWhile t sid c b => .doWhile (pe t) sid (peBool c) (peL b)
  | .brk t sid => .brk (pe t) sid
  | .cont t sid => .cont (pe t) sid
  | .switch_ t sid op cs => .switch_ (pe t) sid (pe op) (peCases cs)
def peL : List Stmt → List Stmt
  | [] => []
  | s :: r => peS s :: peL r
def peElifs : List (BoolExpr × List Stmt) → List (BoolExpr × List Stmt)
  | [] => []
  | (c, b) :: r => (peBool c, peL b) :: peElifs r
def peCases : List SwitchCase → List SwitchCase
  | [] => []
  | (v, d, b) :: r => (pe v, d, peL b) :: peCases r
end

def peElse : Option (List Stmt) → Option (List Stmt)
  | none => none
  | some l => some (peL l)

theorem peL_eq_map : ∀ (l : List Stmt), peL l = l.map peS
  | [] => by rw [peL]; rfl
  | x :: r => by rw [peL, peL_eq_map r]; rfl

theorem peL_append (a b : List Stmt) : peL (a ++ b) = peL a ++ peL b := by
  simp [peL_eq_map]

theorem peElifs_eq_map : ∀ (es : List (BoolExpr × List Stmt)),
    peElifs es = es.map fun p => (peBool p.1, p.2.map peS)
  | [] => by rw [peElifs]; rfl
  | (c, b) :: r => by rw [peElifs, peElifs_eq_map r, peL_eq_map]; rfl

theorem peCases_eq_map : ∀ (cs : List SwitchCase),
    peCases cs = cs.map fun p => (pe p.1, p.2.1, p.2.2.map peS)
  | [] => by rw [peCases]; rfl
  | (v, d, b) :: r => by rw [peCases, peCases_eq_map r, peL_eq_map]; rfl

theorem peCases_isEmpty (cs : List SwitchCase) : (peCases cs).isEmpty = cs.isEmpty := by
  cases cs with
  | nil => rfl
  | cons c r => obtain ⟨v, d, b⟩ := c; rfl

def peScript (s : Script) : Script := { s with tok := pe s.tok, body := peL s.body }

def peText (t : Text) : Text := { t with tok := pe t.tok }

def peMovement (m : MovementStmt) : MovementStmt := { m with tok := pe m.tok, cmds := m.cmds.map pe }

def peMapScript (m : MapScript) : MapScript :=
  { type := pe m.type, name := m.name, script := m.script.map peScript }

def peTableEntry (e : TableEntry) : TableEntry :=
  { condition := pe e.condition, comparison := e.comparison, name := e.name, script := e.script.map peScript }

def peTable (t : TableMapScript) : TableMapScript :=
  { type := pe t.type, name := t.name, entries := t.entries.map peTableEntry }

def peMapScripts (m : MapScripts) : MapScripts :=
  { tok := pe m.tok, name := m.name, mapScripts := m.mapScripts.map peMapScript,
    tables := m.tables.map peTable, scope := m.scope }

def peTop : Top → Top
  | .script s => .script (peScript s)
  | .raw t v s => .raw (pe t) (pe v) s
  | .text t => .text (peText t)
  | .movement m => .movement (peMovement m)
  | .mart t n tis items sc => .mart (pe t) n (tis.map pe) items sc
  | .mapscripts m => .mapscripts (peMapScripts m)

/-- **Position erasure of a program.** -/
def peProgram (p : Program) : Program :=
  { tops := p.tops.map peTop, texts := p.texts.map peText, patches := p.patches }

/-- … of a located emitter error. -/
def peEFail : EFail → EFail
  | .perr t m => .perr (pe t) m
  | e => e

/-- … of the result of an emitter function. -/
def peRes {α : Type} : Except EFail α → Except EFail α
  | .error e => .error (peEFail e)
  | .ok a => .ok a

@[simp] theorem peRes_ok {α : Type} (a : α) : peRes (.ok a : Except EFail α) = .ok a := rfl
@[simp] theorem peRes_error {α : Type} (e : EFail) : peRes (.error e : Except EFail α) = .error (peEFail e) := rfl

end Pory.L2
