import PoryProofs.Sim
/-
Static scoping of `break` / `continue` and its preservation by the source machine:
`WellScoped s` (every `break sid` lies inside a loop or switch with scope id `sid`, every
`continue sid` inside a loop with scope id `sid`, for the current block and all frames) is
preserved by `sstep` and implies the side condition `StepScoped` of `sim`.
-/
namespace Pory.Sem
open Pory Pory.Emit

mutual
/-- `B` = scope ids a `break` may name, `C` = scope ids a `continue` may name. -/
def scopedStmt (B C : List Nat) : Stmt → Prop
  | .cmd _ => True
  | .label .. => True
  | .ite _ _ t elifs els =>
    scopedStmts B C t ∧ scopedElifs B C elifs ∧
      (match els with | some e => scopedStmts B C e | none => True)
  | .while_ _ sid _ b => scopedStmts (sid :: B) (sid :: C) b
  | .doWhile _ sid _ b => scopedStmts (sid :: B) (sid :: C) b
  | .brk _ sid => sid ∈ B
  | .cont _ sid => sid ∈ C
  | .switch_ _ sid _ cases => scopedCases (sid :: B) C cases
def scopedStmts (B C : List Nat) : List Stmt → Prop
  | [] => True
  | s :: r => scopedStmt B C s ∧ scopedStmts B C r
def scopedElifs (B C : List Nat) : List (BoolExpr × List Stmt) → Prop
  | [] => True
  | (_, b) :: r => scopedStmts B C b ∧ scopedElifs B C r
def scopedCases (B C : List Nat) : List SwitchCase → Prop
  | [] => True
  | (_, _, b) :: r => scopedStmts B C b ∧ scopedCases B C r
end

theorem scopedStmt_ite (B C : List Nat) (tok : Tok) (c : BoolExpr) (t : List Stmt)
    (elifs : List (BoolExpr × List Stmt)) (els : Option (List Stmt)) :
    scopedStmt B C (.ite tok c t elifs els) ↔
      (scopedStmts B C t ∧ scopedElifs B C elifs ∧
        (match els with | some e => scopedStmts B C e | none => True)) := by
  cases els with
  | none => simp only [scopedStmt]
  | some e => simp only [scopedStmt]

def brkScopes : List Frame → List Nat
  | [] => []
  | .seq _ :: K => brkScopes K
  | .whileF s _ _ :: K => s :: brkScopes K
  | .doF s _ _ :: K => s :: brkScopes K
  | .switchF s :: K => s :: brkScopes K

def contScopes : List Frame → List Nat
  | [] => []
  | .seq _ :: K => contScopes K
  | .whileF s _ _ :: K => s :: contScopes K
  | .doF s _ _ :: K => s :: contScopes K
  | .switchF _ :: K => contScopes K

def scopedK : List Frame → Prop
  | [] => True
  | .seq rest :: K => scopedStmts (brkScopes K) (contScopes K) rest ∧ scopedK K
  | .whileF s _ b :: K => scopedStmts (s :: brkScopes K) (s :: contScopes K) b ∧ scopedK K
  | .doF s _ b :: K => scopedStmts (s :: brkScopes K) (s :: contScopes K) b ∧ scopedK K
  | .switchF _ :: K => scopedK K

/-- Static scoping of a source configuration. -/
def WellScoped (s : SCfg) : Prop :=
  scopedStmts (brkScopes s.K) (contScopes s.K) s.cur ∧ scopedK s.K

/-! ### `WellScoped` implies the step side condition -/

theorem unwindBreak_isSome {sid : Nat} : ∀ {K : List Frame}, sid ∈ brkScopes K →
    unwindBreak sid K ≠ none
  | [], h => by simp [brkScopes] at h
  | .seq _ :: K, h => by
    simp only [unwindBreak]; exact unwindBreak_isSome (K := K) (by simpa [brkScopes] using h)
  | .whileF s _ _ :: K, h => by
    simp only [unwindBreak]
    by_cases hs : s = sid
    · simp [hs]
    · simp only [hs, if_false]
      refine unwindBreak_isSome (K := K) ?_
      simp only [brkScopes, List.mem_cons] at h
      rcases h with h | h
      · exact absurd h.symm hs
      · exact h
  | .doF s _ _ :: K, h => by
    simp only [unwindBreak]
    by_cases hs : s = sid
    · simp [hs]
    · simp only [hs, if_false]
      refine unwindBreak_isSome (K := K) ?_
      simp only [brkScopes, List.mem_cons] at h
      rcases h with h | h
      · exact absurd h.symm hs
      · exact h
  | .switchF s :: K, h => by
    simp only [unwindBreak]
    by_cases hs : s = sid
    · simp [hs]
    · simp only [hs, if_false]
      refine unwindBreak_isSome (K := K) ?_
      simp only [brkScopes, List.mem_cons] at h
      rcases h with h | h
      · exact absurd h.symm hs
      · exact h

theorem unwindContinue_isSome {sid : Nat} : ∀ {K : List Frame}, sid ∈ contScopes K →
    unwindContinue sid K ≠ none
  | [], h => by simp [contScopes] at h
  | .seq _ :: K, h => by
    simp only [unwindContinue]; exact unwindContinue_isSome (K := K) (by simpa [contScopes] using h)
  | .whileF s _ _ :: K, h => by
    simp only [unwindContinue]
    by_cases hs : s = sid
    · simp [hs]
    · simp only [hs, if_false]
      refine unwindContinue_isSome (K := K) ?_
      simp only [contScopes, List.mem_cons] at h
      rcases h with h | h
      · exact absurd h.symm hs
      · exact h
  | .doF s _ _ :: K, h => by
    simp only [unwindContinue]
    by_cases hs : s = sid
    · simp [hs]
    · simp only [hs, if_false]
      refine unwindContinue_isSome (K := K) ?_
      simp only [contScopes, List.mem_cons] at h
      rcases h with h | h
      · exact absurd h.symm hs
      · exact h
  | .switchF s :: K, h => by
    simp only [unwindContinue]
    exact unwindContinue_isSome (K := K) (by simpa [contScopes] using h)

theorem wellScoped_stepScoped {s : SCfg} (hw : WellScoped s) : StepScoped s := by
  obtain ⟨hc, _⟩ := hw
  constructor
  · intro tok sid rest he
    rw [he] at hc
    simp only [scopedStmts, scopedStmt] at hc
    exact unwindBreak_isSome hc.1
  · intro tok sid rest he
    rw [he] at hc
    simp only [scopedStmts, scopedStmt] at hc
    exact unwindContinue_isSome hc.1

/-! ### preservation -/

theorem brkScopes_pushSeq (rest : List Stmt) (K : List Frame) :
    brkScopes (pushSeq rest K) = brkScopes K := by
  cases rest <;> simp [pushSeq, brkScopes]

theorem contScopes_pushSeq (rest : List Stmt) (K : List Frame) :
    contScopes (pushSeq rest K) = contScopes K := by
  cases rest <;> simp [pushSeq, contScopes]

theorem scopedK_pushSeq {rest : List Stmt} {K : List Frame}
    (hr : scopedStmts (brkScopes K) (contScopes K) rest) (hk : scopedK K) :
    scopedK (pushSeq rest K) := by
  cases rest with
  | nil => exact hk
  | cons a r => exact ⟨hr, hk⟩

variable (w : SWorld)

theorem popK_scoped : ∀ {K : List Frame} {h : Hist} {s' : SCfg}, scopedK K →
    popK w h K = .next s' → WellScoped s'
  | [], _, _, _, hp => by simp [popK] at hp
  | .seq rest :: K, h, s', hk, hp => by
    simp only [popK, Res.next.injEq] at hp
    subst hp
    exact hk
  | .whileF s c b :: K, h, s', hk, hp => by
    simp only [popK] at hp
    rcases hev : evalOpt w h c with ⟨h', bb⟩
    rw [hev] at hp
    cases bb with
    | true =>
      simp only [Res.next.injEq] at hp
      subst hp
      exact ⟨hk.1, hk⟩
    | false => exact popK_scoped hk.2 hp
  | .doF s c b :: K, h, s', hk, hp => by
    simp only [popK] at hp
    rcases hev : evalCond w h c with ⟨h', bb⟩
    rw [hev] at hp
    cases bb with
    | true =>
      simp only [Res.next.injEq] at hp
      subst hp
      exact ⟨hk.1, hk⟩
    | false => exact popK_scoped hk.2 hp
  | .switchF s :: K, h, s', hk, hp => by
    simp only [popK] at hp
    exact popK_scoped (K := K) hk hp

theorem contRest_scoped {rest : List Stmt} {K : List Frame} {h : Hist} {s' : SCfg}
    (hr : scopedStmts (brkScopes K) (contScopes K) rest) (hk : scopedK K)
    (hp : contRest w h rest K = .next s') : WellScoped s' := by
  cases rest with
  | nil => exact popK_scoped w hk hp
  | cons a r =>
    simp only [contRest, Res.next.injEq] at hp
    subst hp
    exact ⟨hr, hk⟩

theorem unwindBreak_scoped {sid : Nat} : ∀ {K K' : List Frame}, scopedK K →
    unwindBreak sid K = some K' → scopedK K'
  | [], _, _, hu => by simp [unwindBreak] at hu
  | .seq _ :: K, K', hk, hu => unwindBreak_scoped (K := K) hk.2 (by simpa [unwindBreak] using hu)
  | .whileF s _ _ :: K, K', hk, hu => by
    simp only [unwindBreak] at hu
    by_cases hs : s = sid
    · simp only [hs, if_true, Option.some.injEq] at hu
      subst hu; exact hk.2
    · simp only [hs, if_false] at hu
      exact unwindBreak_scoped (K := K) hk.2 hu
  | .doF s _ _ :: K, K', hk, hu => by
    simp only [unwindBreak] at hu
    by_cases hs : s = sid
    · simp only [hs, if_true, Option.some.injEq] at hu
      subst hu; exact hk.2
    · simp only [hs, if_false] at hu
      exact unwindBreak_scoped (K := K) hk.2 hu
  | .switchF s :: K, K', hk, hu => by
    simp only [unwindBreak] at hu
    by_cases hs : s = sid
    · simp only [hs, if_true, Option.some.injEq] at hu
      subst hu; exact hk
    · simp only [hs, if_false] at hu
      exact unwindBreak_scoped (K := K) hk hu

theorem unwindContinue_scoped {sid : Nat} : ∀ {K K' : List Frame} {f : Frame}, scopedK K →
    unwindContinue sid K = some (f, K') → scopedK (f :: K')
  | [], _, _, _, hu => by simp [unwindContinue] at hu
  | .seq _ :: K, K', f, hk, hu =>
    unwindContinue_scoped (K := K) hk.2 (by simpa [unwindContinue] using hu)
  | .whileF s _ _ :: K, K', f, hk, hu => by
    simp only [unwindContinue] at hu
    by_cases hs : s = sid
    · simp only [hs, if_true, Option.some.injEq, Prod.mk.injEq] at hu
      obtain ⟨rfl, rfl⟩ := hu
      subst hs; exact hk
    · simp only [hs, if_false] at hu
      exact unwindContinue_scoped (K := K) hk.2 hu
  | .doF s _ _ :: K, K', f, hk, hu => by
    simp only [unwindContinue] at hu
    by_cases hs : s = sid
    · simp only [hs, if_true, Option.some.injEq, Prod.mk.injEq] at hu
      obtain ⟨rfl, rfl⟩ := hu
      subst hs; exact hk
    · simp only [hs, if_false] at hu
      exact unwindContinue_scoped (K := K) hk.2 hu
  | .switchF s :: K, K', f, hk, hu => by
    simp only [unwindContinue] at hu
    exact unwindContinue_scoped (K := K) hk hu

theorem evalElifs_scoped {B C : List Nat} : ∀ {elifs : List (BoolExpr × List Stmt)} {h h' : Hist}
    {b : List Stmt}, scopedElifs B C elifs → evalElifs w h elifs = (h', some b) → scopedStmts B C b
  | [], _, _, _, _, he => by simp [evalElifs] at he
  | (c, body) :: r, h, h', b, hs, he => by
    simp only [evalElifs] at he
    simp only [scopedElifs] at hs
    rcases hev : evalCond w h c with ⟨h1, bb⟩
    rw [hev] at he
    cases bb with
    | true =>
      simp only [Prod.mk.injEq, Option.some.injEq] at he
      rw [← he.2]; exact hs.1
    | false => exact evalElifs_scoped hs.2 he

theorem sharedBody_scoped {B C : List Nat} : ∀ {cs : List SwitchCase}, scopedCases B C cs →
    scopedStmts B C (sharedBody cs)
  | [], _ => by simp [sharedBody, scopedStmts]
  | (v, d, b) :: r, hs => by
    simp only [scopedCases] at hs
    simp only [sharedBody]
    by_cases hb : b.length > 0
    · simp only [hb, if_true]; exact hs.1
    · simp only [hb, if_false]; exact sharedBody_scoped hs.2

theorem matchCase_scoped {B C : List Nat} {h : Hist} {op : Tok} : ∀ {cases cs : List SwitchCase},
    scopedCases B C cases → matchCase w h op cases = some cs → scopedCases B C cs
  | [], _, _, hm => by simp [matchCase] at hm
  | (v, d, b) :: r, cs, hs, hm => by
    simp only [matchCase] at hm
    by_cases hc : (!d && w.caseEq h op v) = true
    · simp only [hc, if_true, Option.some.injEq] at hm
      subst hm; exact hs
    · simp only [hc] at hm
      simp only [scopedCases] at hs
      exact matchCase_scoped hs.2 hm

theorem fromDefault_scoped {B C : List Nat} : ∀ {cases cs : List SwitchCase},
    scopedCases B C cases → fromDefault cases = some cs → scopedCases B C cs
  | [], _, _, hm => by simp [fromDefault] at hm
  | (v, d, b) :: r, cs, hs, hm => by
    simp only [fromDefault] at hm
    cases d with
    | true =>
      simp only [if_true, Option.some.injEq] at hm
      subst hm; exact hs
    | false =>
      simp only [Bool.false_eq_true, if_false] at hm
      simp only [scopedCases] at hs
      exact fromDefault_scoped hs.2 hm

theorem switchBody_scoped {B C : List Nat} {h : Hist} {op : Tok} {cases : List SwitchCase}
    (hs : scopedCases B C cases) : scopedStmts B C (switchBody w h op cases) := by
  unfold switchBody
  cases hm : matchCase w h op cases with
  | some cs => exact sharedBody_scoped (matchCase_scoped w hs hm)
  | none =>
    cases hf : fromDefault cases with
    | some cs => exact sharedBody_scoped (fromDefault_scoped hs hf)
    | none => simp [scopedStmts]

/-- `sstep` preserves static scoping. -/
theorem wellScoped_step {s s' : SCfg} (hw : WellScoped s) (hss : sstep w s = .next s') :
    WellScoped s' := by
  obtain ⟨cur, K, h⟩ := s
  obtain ⟨hc, hk⟩ := hw
  simp only at hc hk
  cases cur with
  | nil => exact popK_scoped w hk (by simpa [sstep] using hss)
  | cons st rest =>
    simp only [scopedStmts] at hc
    obtain ⟨hst, hrest⟩ := hc
    cases st with
    | cmd c =>
      simp only [sstep] at hss
      cases hsp : specialCmd c with
      | some o => rw [hsp] at hss; cases hss
      | none =>
        rw [hsp] at hss
        simp only [Res.next.injEq] at hss
        subst hss; exact ⟨hrest, hk⟩
    | label tok n gl =>
      simp only [sstep, Res.next.injEq] at hss
      subst hss; exact ⟨hrest, hk⟩
    | ite tok c t elifs els =>
      rw [scopedStmt_ite] at hst
      obtain ⟨ht, hel, hels⟩ := hst
      have hpk : scopedK (pushSeq rest K) := scopedK_pushSeq hrest hk
      simp only [sstep] at hss
      rcases hev : evalCond w h c with ⟨h1, bb⟩
      rw [hev] at hss
      cases bb with
      | true =>
        simp only [Res.next.injEq] at hss
        subst hss
        exact ⟨by simpa only [brkScopes_pushSeq, contScopes_pushSeq] using ht, hpk⟩
      | false =>
        simp only at hss
        rcases hev2 : evalElifs w h1 elifs with ⟨h2, ob⟩
        rw [hev2] at hss
        cases ob with
        | some b =>
          simp only [Res.next.injEq] at hss
          subst hss
          exact ⟨by simpa only [brkScopes_pushSeq, contScopes_pushSeq] using
            evalElifs_scoped w hel hev2, hpk⟩
        | none =>
          cases els with
          | some eb =>
            simp only [Res.next.injEq] at hss
            subst hss
            exact ⟨by simpa only [brkScopes_pushSeq, contScopes_pushSeq] using hels, hpk⟩
          | none => exact contRest_scoped w hrest hk hss
    | while_ tok sid c b =>
      simp only [scopedStmt] at hst
      simp only [sstep] at hss
      rcases hev : evalOpt w h c with ⟨h1, bb⟩
      rw [hev] at hss
      cases bb with
      | true =>
        simp only [Res.next.injEq] at hss
        subst hss
        have hb' : scopedStmts (sid :: brkScopes (pushSeq rest K)) (sid :: contScopes (pushSeq rest K)) b := by
          simpa only [brkScopes_pushSeq, contScopes_pushSeq] using hst
        exact ⟨hb', hb', scopedK_pushSeq hrest hk⟩
      | false => exact contRest_scoped w hrest hk hss
    | doWhile tok sid c b =>
      simp only [scopedStmt] at hst
      simp only [sstep, Res.next.injEq] at hss
      subst hss
      have hb' : scopedStmts (sid :: brkScopes (pushSeq rest K)) (sid :: contScopes (pushSeq rest K)) b := by
        simpa only [brkScopes_pushSeq, contScopes_pushSeq] using hst
      exact ⟨hb', hb', scopedK_pushSeq hrest hk⟩
    | brk tok sid =>
      simp only [sstep] at hss
      cases hu : unwindBreak sid K with
      | none => rw [hu] at hss; cases hss
      | some K' =>
        rw [hu] at hss
        exact popK_scoped w (unwindBreak_scoped hk hu) hss
    | cont tok sid =>
      simp only [sstep] at hss
      cases hu : unwindContinue sid K with
      | none => rw [hu] at hss; cases hss
      | some fk =>
        obtain ⟨f, K'⟩ := fk
        rw [hu] at hss
        have hfk := unwindContinue_scoped hk hu
        cases f with
        | doF s' c b =>
          simp only [Res.next.injEq] at hss
          subst hss
          exact ⟨hfk.1, hfk⟩
        | seq r => exact popK_scoped w hfk hss
        | whileF s' c b => exact popK_scoped w hfk hss
        | switchF s' => exact popK_scoped w hfk hss
    | switch_ tok sid operand cases =>
      simp only [scopedStmt] at hst
      simp only [sstep] at hss
      have hsb := switchBody_scoped w (h := h) (op := operand) hst
      cases hb : switchBody w h operand cases with
      | nil => rw [hb] at hss; exact contRest_scoped w hrest hk hss
      | cons b bs =>
        rw [hb] at hss hsb
        simp only [Res.next.injEq] at hss
        subst hss
        refine ⟨?_, scopedK_pushSeq hrest hk⟩
        simpa only [brkScopes, contScopes, brkScopes_pushSeq, contScopes_pushSeq] using hsb

/-- Static scoping holds along the whole source run. -/
theorem wellScoped_siter : ∀ (k : Nat) {s s' : SCfg}, WellScoped s → siter w k s = .next s' →
    WellScoped s'
  | 0, s, s', hw, hk => by
    simp only [siter, Res.next.injEq] at hk
    subst hk; exact hw
  | k + 1, s, s', hw, hk => by
    simp only [siter] at hk
    cases hss : sstep w s with
    | next s1 =>
      rw [hss] at hk
      exact wellScoped_siter k (wellScoped_step w hw hss) hk
    | fin o h => rw [hss] at hk; cases hk

end Pory.Sem
