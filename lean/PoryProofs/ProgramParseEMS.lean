import PoryProofs.ProgramGrammarE
/-
P2e, stage 2a: the entry loop / row loop of `parseMapscriptsStatement` on printed entries whose inline bodies are
written in P1c's grammar. This is the text of the corresponding part of PoryProofs/ProgramParseMS.lean (P2b:
`block_run`, `rows_run`, `entries_run`) with `P1c.parse_block_elab` / `P1c.elabE_stacks` in the
place of the lemmas of P1; the names carry the suffix `E`. The one-step lemmas of the two loops
(`MapScriptsParse.trow_*`, `ment_*`), `C15b.parse_mapscripts_statement_gen`, `P2b.parse_mapscripts_statement_err`,
`setC`, `SameFrame` do not mention the body grammar and are reused.
-/
namespace Pory.P2e
open Pory Pory.Parser Pory.C02P Pory.P1c Pory.TopParse Pory.P2 Pory.P2b
open Pory.StmtG (Ctx ctxOf)
open Pory.MapScriptsParse
open Pory.C12c (addImp)

theorem ctxOf_setC_of_elabEE {env : Env} {sn : String} {s : PState} {b : List SStmt} {stmts : List Stmt}
    {imp : ImpData} {c' : Ctx} (h : elabE env sn (ctxOf s) b = .ok (stmts, imp, c')) :
    ctxOf (setC s c') = c' := by
  unfold elabE at h
  split at h
  · cases h
  · cases h; rfl


theorem elabE_sameFrameE {env : Env} {sn : String} {c c' : Ctx} {b : List SStmt} {stmts : List Stmt}
    {imp : ImpData} (h : elabE env sn c b = .ok (stmts, imp, c')) : SameFrame c c' := by
  obtain ⟨h1, h2, h3⟩ := elabE_stacks h
  exact ⟨h3, h1, h2⟩


theorem elabRows_sameFrameE (env : Env) (ms ty : String) :
    ∀ (rows : List SRowE) (i : Nat) (c : Ctx) (es : List TableEntry) (imp : ImpData) (c' : Ctx),
      elabRowsE env ms ty rows i c = .ok (es, imp, c') → SameFrame c c'
  | [], i, c, es, imp, c', h => by
    simp only [elabRowsE] at h
    cases h
    exact SameFrame.refl _
  | .plain cs comma vs colon name :: rs, i, c, es, imp, c', h => by
    simp only [elabRowsE] at h
    split at h
    · cases h
    · split at h
      · cases h
      · cases hr : elabRowsE env ms ty rs (i + 1) c with
        | error e => rw [hr] at h; cases h
        | ok r =>
          obtain ⟨es1, imp1, c1⟩ := r
          rw [hr] at h
          cases h
          exact elabRows_sameFrameE env ms ty rs (i + 1) c _ _ _ hr
  | .inline cs comma vs lb body rb :: rs, i, c, es, imp, c', h => by
    simp only [elabRowsE] at h
    split at h
    · cases h
    · split at h
      · cases h
      · cases he : elabE env (rowName ms ty i) c body with
        | error e => rw [he] at h; cases h
        | ok r0 =>
          obtain ⟨stmts, bimp, c0⟩ := r0
          rw [he] at h
          simp only at h
          cases hr : elabRowsE env ms ty rs (i + 1) c0 with
          | error e => rw [hr] at h; cases h
          | ok r =>
            obtain ⟨es1, imp1, c1⟩ := r
            rw [hr] at h
            cases h
            exact (elabE_sameFrameE he).trans (elabRows_sameFrameE env ms ty rs (i + 1) c0 _ _ _ hr)


/-- P1 on a printed body, the resulting state written with `setC`. -/
theorem block_runE (env : Env) (sn : String) (lb : Tok) (b : List SStmt) (rb : Tok) (rest : List Tok)
    (s : PState) (n : Nat) (hwf : SWF b) (hrb : rb.type = .RBRACE) (hn : needL b ≤ n) :
    (parseBlockStatement env sn lb n [] {}).run (st s (printStmts b ++ rb :: rest)) =
      match elabE env sn (ctxOf s) b with
      | .ok (stmts, imp, c') => .ok ((stmts, imp), st (setC s c') (rb :: rest))
      | .error e => .error e := by
  have h := P1c.parse_block_elab env sn lb b rb rest hwf hrb (st s (printStmts b ++ rb :: rest)) rfl n hn
  rw [ctxOf_st] at h
  rw [h]
  cases elabE env sn (ctxOf s) b with
  | error e => rfl
  | ok r => obtain ⟨stmts, imp, c'⟩ := r; rfl

/-! ### the row loop -/

theorem rows_runE (env : Env) (ms ty : String) :
    ∀ (rows : List SRowE) (n i : Nat) (acc : List TableEntry) (imp : ImpData) (s : PState) (rbr : Tok)
      (rest : List Tok), RowsWFE rows → rbr.type = .RBRACKET → needRowsE rows ≤ n →
      (parseTableEntries env ms ty n i acc imp).run (st s (printRowsE rows ++ rbr :: rest)) =
        match elabRowsE env ms ty rows i (ctxOf s) with
        | .error e => .error e
        | .ok (es, imp', c') => .ok ((acc ++ es, imp.add imp'), st (setC s c') (rbr :: rest))
  | [], n, i, acc, imp, s, rbr, rest, _, hrbr, hn => by
    obtain ⟨m, rfl⟩ : ∃ m, n = m + 1 := ⟨n - 1, by simp only [needRowsE] at hn; omega⟩
    simp only [printRowsE, List.nil_append, elabRowsE]
    rw [trow_done env ms ty m i acc imp _ (by simpa using hrbr)]
    simp only [List.append_nil, impData_add_empty, setC_self]
  | .plain cs comma vs colon name :: rs, n, i, acc, imp, s, rbr, rest, hwf, hrbr, hn => by
    obtain ⟨m, rfl⟩ : ∃ m, n = m + 1 := ⟨n - 1, by simp only [needRowsE] at hn; omega⟩
    obtain ⟨⟨hsyn, hcolon, hname⟩, hwf'⟩ := hwf
    obtain ⟨g0, g1, g2, g3, g4, g5⟩ := hsyn
    simp only [needRowsE, needRowE] at hn
    have hn1 : cs.length < m := by omega
    have hn2 : vs.length < m := by omega
    have hwin : printRowsE (.plain cs comma vs colon name :: rs) ++ rbr :: rest =
        cs ++ comma :: (vs ++ colon :: name :: (printRowsE rs ++ rbr :: rest)) := by
      simp [printRowsE, printRowE]
    rw [hwin]
    simp only [elabRowsE, ctxOf_consts]
    by_cases h1 : collVal s.constants cs = ""
    · rw [trow_empty_condition env ms ty m i acc imp s cs comma _ g0 g1 g2 g3 hn1 h1]
      simp only [h1, if_true, emptyCondErr]
    · by_cases h2 : collVal s.constants vs = ""
      · rw [trow_empty_comparison env ms ty m i acc imp s cs comma vs colon _ g0 g1 g2 g3 hn1 h1 g4 g5
          (Or.inl hcolon) hn2 h2]
        simp only [h1, h2, if_true, if_false, emptyCmpErr]
      · rw [trow_plain env ms ty m i acc imp s cs comma vs colon name _
          ⟨⟨g0, g1, g2, g3, g4, g5, h1, h2⟩, hcolon, hname⟩ hn1 hn2,
          rows_runE env ms ty rs m (i + 1) _ imp s rbr rest hwf' hrbr (by omega)]
        simp only [h1, h2, if_false]
        cases elabRowsE env ms ty rs (i + 1) (ctxOf s) with
        | error e => rfl
        | ok r =>
          obtain ⟨es, imp', c'⟩ := r
          simp only [List.append_assoc, List.singleton_append]
          rfl
  | .inline cs comma vs lb body rb :: rs, n, i, acc, imp, s, rbr, rest, hwf, hrbr, hn => by
    obtain ⟨m, rfl⟩ : ∃ m, n = m + 1 := ⟨n - 1, by simp only [needRowsE] at hn; omega⟩
    obtain ⟨⟨hsyn, hlb, hbody, hrb⟩, hwf'⟩ := hwf
    obtain ⟨g0, g1, g2, g3, g4, g5⟩ := hsyn
    simp only [needRowsE, needRowE] at hn
    have hn1 : cs.length < m := by omega
    have hn2 : vs.length < m := by omega
    have hwin : printRowsE (.inline cs comma vs lb body rb :: rs) ++ rbr :: rest =
        cs ++ comma :: (vs ++ lb :: (printStmts body ++ rb :: (printRowsE rs ++ rbr :: rest))) := by
      simp [printRowsE, printRowE]
    rw [hwin]
    simp only [elabRowsE, ctxOf_consts]
    by_cases h1 : collVal s.constants cs = ""
    · rw [trow_empty_condition env ms ty m i acc imp s cs comma _ g0 g1 g2 g3 hn1 h1]
      simp only [h1, if_true, emptyCondErr]
    · by_cases h2 : collVal s.constants vs = ""
      · rw [trow_empty_comparison env ms ty m i acc imp s cs comma vs lb _ g0 g1 g2 g3 hn1 h1 g4 g5
          (Or.inr hlb) hn2 h2]
        simp only [h1, h2, if_true, if_false, emptyCmpErr]
      · rw [trow_inline env ms ty m i acc imp s cs comma vs lb _ ⟨g0, g1, g2, g3, g4, g5, h1, h2⟩ hlb hn1 hn2,
          block_runE env (rowName ms ty i) lb body rb _ s m hbody hrb (by omega)]
        simp only [h1, h2, if_false]
        cases he : elabE env (rowName ms ty i) (ctxOf s) body with
        | error e => rfl
        | ok r =>
          obtain ⟨stmts, bimp, c1⟩ := r
          simp only [afterRowBody, st_toks, List.tail_cons, st_st]
          rw [rows_runE env ms ty rs m (i + 1) _ (imp.add bimp) (setC s c1) rbr rest hwf' hrbr (by omega),
            ctxOf_setC_of_elabEE he]
          cases elabRowsE env ms ty rs (i + 1) c1 with
          | error e => rfl
          | ok r =>
            obtain ⟨es, imp', c'⟩ := r
            simp only [List.append_assoc, List.singleton_append, impData_add_assoc, setC_setC]
            rfl

/-! ### the entry loop -/

theorem entries_runE (env : Env) (ms : String) :
    ∀ (es : List SEntryE) (n : Nat) (mss : List MapScript) (tables : List TableMapScript) (imp : ImpData)
      (s : PState) (rb : Tok) (rest : List Tok), EntriesWFE es → rb.type = .RBRACE → needEntriesE es ≤ n →
      (parseMapScriptEntries env ms n mss tables imp).run (st s (printEntriesE es ++ rb :: rest)) =
        match elabEntriesE env ms es (ctxOf s) with
        | .error e => .error e
        | .ok (mss', tbs', imp', c') =>
          .ok ((mss ++ mss', tables ++ tbs', imp.add imp'), st (setC s c') (rb :: rest))
  | [], n, mss, tables, imp, s, rb, rest, _, hrb, hn => by
    obtain ⟨m, rfl⟩ : ∃ m, n = m + 1 := ⟨n - 1, by simp only [needEntriesE] at hn; omega⟩
    simp only [printEntriesE, List.nil_append, elabEntriesE]
    rw [ment_done env ms m mss tables imp _ (by simpa using hrb)]
    simp only [List.append_nil, impData_add_empty, setC_self]
  | .plain ty colon name :: es, n, mss, tables, imp, s, rb, rest, hwf, hrb, hn => by
    obtain ⟨m, rfl⟩ : ∃ m, n = m + 1 := ⟨n - 1, by simp only [needEntriesE] at hn; omega⟩
    obtain ⟨hwf1, hwf'⟩ := hwf
    simp only [needEntriesE, needEntryE] at hn
    have hwin : printEntriesE (.plain ty colon name :: es) ++ rb :: rest =
        ty :: colon :: name :: (printEntriesE es ++ rb :: rest) := by
      simp [printEntriesE, printEntryE]
    rw [hwin, ment_plain env ms m mss tables imp s ty colon name _ hwf1,
      entries_runE env ms es m _ tables imp s rb rest hwf' hrb (by omega)]
    simp only [elabEntriesE]
    cases elabEntriesE env ms es (ctxOf s) with
    | error e => rfl
    | ok r =>
      obtain ⟨mss', tbs', imp', c'⟩ := r
      simp only [List.append_assoc, List.singleton_append]
  | .inline ty lb body rbb :: es, n, mss, tables, imp, s, rb, rest, hwf, hrb, hn => by
    obtain ⟨m, rfl⟩ : ∃ m, n = m + 1 := ⟨n - 1, by simp only [needEntriesE] at hn; omega⟩
    obtain ⟨⟨hty, hlb, hbody, hrbb⟩, hwf'⟩ := hwf
    simp only [needEntriesE, needEntryE] at hn
    have hwin : printEntriesE (.inline ty lb body rbb :: es) ++ rb :: rest =
        ty :: lb :: (printStmts body ++ rbb :: (printEntriesE es ++ rb :: rest)) := by
      simp [printEntriesE, printEntryE]
    rw [hwin, ment_inline env ms m mss tables imp s ty lb _ hty hlb,
      block_runE env (entryName ms ty.lit) lb body rbb _ s m hbody hrbb (by omega)]
    simp only [elabEntriesE]
    cases he : elabE env (entryName ms ty.lit) (ctxOf s) body with
    | error e => rfl
    | ok r =>
      obtain ⟨stmts, bimp, c1⟩ := r
      simp only [afterEntryBody, st_toks, List.tail_cons, st_st]
      rw [entries_runE env ms es m _ tables (imp.add bimp) (setC s c1) rb rest hwf' hrb (by omega),
        ctxOf_setC_of_elabEE he]
      cases elabEntriesE env ms es c1 with
      | error e => rfl
      | ok r =>
        obtain ⟨mss', tbs', imp', c'⟩ := r
        simp only [List.append_assoc, List.singleton_append, impData_add_assoc, setC_setC]
        rfl
  | .table ty lbr rows rbr :: es, n, mss, tables, imp, s, rb, rest, hwf, hrb, hn => by
    obtain ⟨m, rfl⟩ : ∃ m, n = m + 1 := ⟨n - 1, by simp only [needEntriesE] at hn; omega⟩
    obtain ⟨⟨hty, hlbr, hrows, hrbr⟩, hwf'⟩ := hwf
    simp only [needEntriesE, needEntryE] at hn
    have hwin : printEntriesE (.table ty lbr rows rbr :: es) ++ rb :: rest =
        ty :: lbr :: (printRowsE rows ++ rbr :: (printEntriesE es ++ rb :: rest)) := by
      simp [printEntriesE, printEntryE]
    rw [hwin, ment_table env ms m mss tables imp s ty lbr _ hty hlbr,
      rows_runE env ms ty.lit rows m 0 [] {} s rbr _ hrows hrbr (by omega)]
    simp only [elabEntriesE]
    cases he : elabRowsE env ms ty.lit rows 0 (ctxOf s) with
    | error e => rfl
    | ok r =>
      obtain ⟨entries, rimp, c1⟩ := r
      have hc1 : ctxOf (setC s c1) = c1 := ctxOf_setC (elabRows_sameFrameE env ms ty.lit rows 0 _ _ _ _ he)
      simp only [afterTable, st_toks, List.tail_cons, st_st, List.nil_append, impData_empty_add]
      rw [entries_runE env ms es m mss _ (imp.add rimp) (setC s c1) rb rest hwf' hrb (by omega), hc1]
      cases elabEntriesE env ms es c1 with
      | error e => rfl
      | ok r =>
        obtain ⟨mss', tbs', imp', c'⟩ := r
        simp only [List.append_assoc, List.singleton_append, impData_add_assoc, setC_setC]

end Pory.P2e
