import PoryProofs.RetokElabTop
import PoryProofs.ProgramGrammarMS
/-
L2 helpers, stage 7: the file grammar with `mapscripts` statements (`P2b.STopM`): position erasure `eTopM`
(`eRow`, `eEntry`), re-decoration `retok_topsM`, well-formedness `twfM_of_shape`, and the reference elaboration
commutes with position erasure (`elabFileM_eTopM`, `elabFileM_shape`).
-/
namespace Pory.L2
open Pory Pory.Parser Pory.C02P Pory.StmtG Pory.TopParse Pory.P2 Pory.P2b
open Pory.MapScriptsParse (collVal rowName entryName)
open Pory.C12c (addImp)

def eRow : SRow → SRow
  | .plain cs comma vs colon name =>
      .plain (cs.map erase) (erase comma) (vs.map erase) (erase colon) (erase name)
  | .inline cs comma vs lb body rb =>
      .inline (cs.map erase) (erase comma) (vs.map erase) (erase lb) (eL body) (erase rb)

def eEntry : SEntry → SEntry
  | .plain ty colon name => .plain (erase ty) (erase colon) (erase name)
  | .inline ty lb body rb => .inline (erase ty) (erase lb) (eL body) (erase rb)
  | .table ty lbr rows rbr => .table (erase ty) (erase lbr) (rows.map eRow) (erase rbr)

/-- Position erasure of a top-level statement of the grammar with `mapscripts`. -/
def eTopM : STopM → STopM
  | .base t => .base (eTop t)
  | .mapscripts kw md name lb es rb =>
      .mapscripts (erase kw) (eMod md) (erase name) (erase lb) (es.map eEntry) (erase rb)

def SameShapeM (ts' ts : List STopM) : Prop := ts'.map eTopM = ts.map eTopM

/-! ### re-decoration -/

theorem retokRow (r : SRow) (l : List Tok) (h : l.map erase = (printRow r).map erase) :
    ∃ r', printRow r' = l ∧ eRow r' = eRow r := by
  cases r with
  | plain cs comma vs colon name =>
    simp only [printRow] at h
    obtain ⟨cs', l1, rfl, e1, k1⟩ := st_append h
    obtain ⟨comma', l2, rfl, e2, k2⟩ := st_cons k1
    obtain ⟨vs', l3, rfl, e3, k3⟩ := st_append k2
    obtain ⟨colon', l4, rfl, e4, k4⟩ := st_cons k3
    obtain ⟨name', rfl, e5⟩ := st_single k4
    exact ⟨.plain cs' comma' vs' colon' name', rfl, by simp only [eRow, e1, e2, e3, e4, e5]⟩
  | inline cs comma vs lb body rb =>
    simp only [printRow] at h
    obtain ⟨cs', l1, rfl, e1, k1⟩ := st_append h
    obtain ⟨comma', l2, rfl, e2, k2⟩ := st_cons k1
    obtain ⟨vs', l3, rfl, e3, k3⟩ := st_append k2
    obtain ⟨lb', l4, rfl, e4, k4⟩ := st_cons k3
    obtain ⟨l5, l6, rfl, k5, k6⟩ := st_append k4
    obtain ⟨body', rfl, e5⟩ := retokL body l5 k5
    obtain ⟨rb', rfl, e6⟩ := st_single k6
    exact ⟨.inline cs' comma' vs' lb' body' rb', rfl, by simp only [eRow, e1, e2, e3, e4, e5, e6]⟩

theorem retokRows : ∀ (rs : List SRow) (l : List Tok), l.map erase = (printRows rs).map erase →
    ∃ rs', printRows rs' = l ∧ rs'.map eRow = rs.map eRow
  | [], l, h => by
    have hl : l = [] := st_nil (by simpa [printRows] using h)
    subst hl
    exact ⟨[], rfl, rfl⟩
  | r :: rs, l, h => by
    simp only [printRows] at h
    obtain ⟨l1, l2, rfl, k1, k2⟩ := st_append h
    obtain ⟨r', rfl, e1⟩ := retokRow r l1 k1
    obtain ⟨rs', rfl, e2⟩ := retokRows rs l2 k2
    exact ⟨r' :: rs', rfl, by simp only [List.map_cons, e1, e2]⟩

theorem retokEntry (e : SEntry) (l : List Tok) (h : l.map erase = (printEntry e).map erase) :
    ∃ e', printEntry e' = l ∧ eEntry e' = eEntry e := by
  cases e with
  | plain ty colon name =>
    simp only [printEntry] at h
    obtain ⟨a1, l1, rfl, e1, k1⟩ := st_cons h
    obtain ⟨a2, l2, rfl, e2, k2⟩ := st_cons k1
    obtain ⟨a3, rfl, e3⟩ := st_single k2
    exact ⟨.plain a1 a2 a3, rfl, by simp only [eEntry, e1, e2, e3]⟩
  | inline ty lb body rb =>
    simp only [printEntry] at h
    obtain ⟨a1, l1, rfl, e1, k1⟩ := st_cons h
    obtain ⟨a2, l2, rfl, e2, k2⟩ := st_cons k1
    obtain ⟨l3, l4, rfl, k3, k4⟩ := st_append k2
    obtain ⟨body', rfl, e3⟩ := retokL body l3 k3
    obtain ⟨a4, rfl, e4⟩ := st_single k4
    exact ⟨.inline a1 a2 body' a4, rfl, by simp only [eEntry, e1, e2, e3, e4]⟩
  | table ty lbr rows rbr =>
    simp only [printEntry] at h
    obtain ⟨a1, l1, rfl, e1, k1⟩ := st_cons h
    obtain ⟨a2, l2, rfl, e2, k2⟩ := st_cons k1
    obtain ⟨l3, l4, rfl, k3, k4⟩ := st_append k2
    obtain ⟨rows', rfl, e3⟩ := retokRows rows l3 k3
    obtain ⟨a4, rfl, e4⟩ := st_single k4
    exact ⟨.table a1 a2 rows' a4, rfl, by simp only [eEntry, e1, e2, e3, e4]⟩

theorem retokEntries : ∀ (es : List SEntry) (l : List Tok), l.map erase = (printEntries es).map erase →
    ∃ es', printEntries es' = l ∧ es'.map eEntry = es.map eEntry
  | [], l, h => by
    have hl : l = [] := st_nil (by simpa [printEntries] using h)
    subst hl
    exact ⟨[], rfl, rfl⟩
  | e :: es, l, h => by
    simp only [printEntries] at h
    obtain ⟨l1, l2, rfl, k1, k2⟩ := st_append h
    obtain ⟨e', rfl, e1⟩ := retokEntry e l1 k1
    obtain ⟨es', rfl, e2⟩ := retokEntries es l2 k2
    exact ⟨e' :: es', rfl, by simp only [List.map_cons, e1, e2]⟩

theorem retokTopM (t : STopM) (l : List Tok) (h : l.map erase = (printTopM t).map erase) :
    ∃ t', printTopM t' = l ∧ eTopM t' = eTopM t := by
  cases t with
  | base t =>
    obtain ⟨t', h1, h2⟩ := retokTop t l (by simpa only [printTopM] using h)
    exact ⟨.base t', by simpa only [printTopM] using h1, by simp only [eTopM, h2]⟩
  | mapscripts kw md name lb es rb =>
    simp only [printTopM] at h
    obtain ⟨kw', l1, rfl, e1, k1⟩ := st_cons h
    obtain ⟨l2, l3, rfl, k2, k3⟩ := st_append k1
    obtain ⟨md', rfl, e2⟩ := mod_retok md l2 k2
    obtain ⟨name', l4, rfl, e3, k4⟩ := st_cons k3
    obtain ⟨lb', l5, rfl, e4, k5⟩ := st_cons k4
    obtain ⟨l6, l7, rfl, k6, k7⟩ := st_append k5
    obtain ⟨es', rfl, e5⟩ := retokEntries es l6 k6
    obtain ⟨rb', rfl, e6⟩ := st_single k7
    exact ⟨.mapscripts kw' md' name' lb' es' rb', rfl, by simp only [eTopM, e1, e2, e3, e4, e5, e6]⟩

theorem retokTopsM : ∀ (ts : List STopM) (l : List Tok), l.map erase = (printTopsM ts).map erase →
    ∃ ts', printTopsM ts' = l ∧ SameShapeM ts' ts
  | [], l, h => by
    have hl : l = [] := st_nil (by simpa [printTopsM] using h)
    subst hl
    exact ⟨[], rfl, rfl⟩
  | t :: r, l, h => by
    simp only [printTopsM] at h
    obtain ⟨l1, l2, rfl, k1, k2⟩ := st_append h
    obtain ⟨t', rfl, e1⟩ := retokTopM t l1 k1
    obtain ⟨r', rfl, e2⟩ := retokTopsM r l2 k2
    exact ⟨t' :: r', rfl, by unfold SameShapeM at e2 ⊢; simp only [List.map_cons, e1, e2]⟩

/-! ### well-formedness -/

theorem rowSyn_erase (cs : List Tok) (comma : Tok) (vs : List Tok) :
    RowSyn (cs.map erase) (erase comma) (vs.map erase) ↔ RowSyn cs comma vs := by
  unfold RowSyn
  rw [headD_map_erase, ← List.map_tail, ← List.map_tail,
    forall_mem_map erase (fun v => v.type ≠ .COMMA) (fun _ => Iff.rfl),
    forall_mem_map erase (fun v => v.type ≠ .EOF) (fun _ => Iff.rfl),
    forall_mem_map erase (fun v => v.type ≠ .COLON ∧ v.type ≠ .LBRACE) (fun _ => Iff.rfl),
    forall_mem_map erase (fun v => v.type ≠ .EOF) (fun _ => Iff.rfl)]
  exact Iff.rfl

theorem rowWF_eRow (r : SRow) : RowWF (eRow r) ↔ RowWF r := by
  cases r with
  | plain cs comma vs colon name => simp only [eRow, RowWF, rowSyn_erase, erase_type']
  | inline cs comma vs lb body rb => simp only [eRow, RowWF, rowSyn_erase, erase_type', SWF, swfL_eL]

theorem rowsWF_map : ∀ rs : List SRow, RowsWF (rs.map eRow) ↔ RowsWF rs
  | [] => Iff.rfl
  | r :: rs => by simp only [List.map_cons, RowsWF, rowWF_eRow, rowsWF_map rs]

theorem entryWF_eEntry (e : SEntry) : EntryWF (eEntry e) ↔ EntryWF e := by
  cases e with
  | plain ty colon name => exact Iff.rfl
  | inline ty lb body rb => simp only [eEntry, EntryWF, erase_type', SWF, swfL_eL]
  | table ty lbr rows rbr => simp only [eEntry, EntryWF, erase_type', rowsWF_map]

theorem entriesWF_map : ∀ es : List SEntry, EntriesWF (es.map eEntry) ↔ EntriesWF es
  | [] => Iff.rfl
  | e :: es => by simp only [List.map_cons, EntriesWF, entryWF_eEntry, entriesWF_map es]

theorem topWFM_eTopM (t : STopM) : TopWFM (eTopM t) ↔ TopWFM t := by
  cases t with
  | base t => exact topWF_eTop t
  | mapscripts kw md name lb es rb => simp only [eTopM, TopWFM, erase_type', modWF_eMod, entriesWF_map]

theorem isConst_eTopM (t : STopM) : (eTopM t).isConst = t.isConst := by
  cases t with
  | base t => exact isConst_eTop t
  | mapscripts => rfl

theorem twfM_map : ∀ ts : List STopM, TWFM (ts.map eTopM) ↔ TWFM ts
  | [] => Iff.rfl
  | t :: r => by
    simp only [List.map_cons, TWFM, topWFM_eTopM, isConst_eTopM, twfM_map r, ne_eq, List.map_eq_nil_iff]

theorem twfM_of_shape {ts ts' : List STopM} (h : SameShapeM ts' ts) (hwf : TWFM ts) : TWFM ts' := by
  rw [← twfM_map, h, twfM_map]
  exact hwf

/-- **retok for the file grammar with `mapscripts`.** -/
theorem retok_topsM (ts : List STopM) (l : List Tok) (h : SameText l (printTopsM ts)) :
    ∃ ts', printTopsM ts' = l ∧ SameShapeM ts' ts ∧ (TWFM ts → TWFM ts') := by
  obtain ⟨ts', h1, h2⟩ := retokTopsM ts l h
  exact ⟨ts', h1, h2, twfM_of_shape h2⟩

/-! ### the reference elaboration -/

theorem collVal_erase (K : List (String × String)) (vs : List Tok) : collVal K (vs.map erase) = collVal K vs :=
  constAcc_erase K vs ""

theorem condTok_erase (K : List (String × String)) (cs : List Tok) (comma : Tok) :
    condTok K (cs.map erase) (erase comma) = pe (condTok K cs comma) := by
  unfold condTok
  rw [headD_map_erase, collVal_erase]
  rfl

theorem elabRows_e (env : Env) (ms ty : String) : ∀ (rs : List SRow) (i : Nat) (c : Ctx),
    elabRows env ms ty (rs.map eRow) i c =
      peEx (fun r => (r.1.map peTableEntry, peImp r.2.1, r.2.2)) (elabRows env ms ty rs i c)
  | [], _, _ => rfl
  | .plain cs comma vs colon name :: rs, i, c => by
    simp only [List.map_cons, eRow, elabRows, collVal_erase, headD_map_erase, condTok_erase,
      elabRows_e env ms ty rs]
    split
    · rfl
    · split
      · rfl
      · cases elabRows env ms ty rs (i + 1) c <;> rfl
  | .inline cs comma vs lb body rb :: rs, i, c => by
    simp only [List.map_cons, eRow, elabRows, collVal_erase, headD_map_erase, condTok_erase, elabE_eL]
    split
    · rfl
    · split
      · rfl
      · cases elabE env (rowName ms ty i) c body with
        | error e => rfl
        | ok q =>
          simp only [peEx_ok, elabRows_e env ms ty rs]
          cases elabRows env ms ty rs (i + 1) q.2.2 with
          | error e => rfl
          | ok q1 =>
            simp only [peEx_ok, peImp_add, List.map_cons]
            rfl

theorem elabEntries_e (env : Env) (ms : String) : ∀ (es : List SEntry) (c : Ctx),
    elabEntries env ms (es.map eEntry) c =
      peEx (fun r => (r.1.map peMapScript, r.2.1.map peTable, peImp r.2.2.1, r.2.2.2)) (elabEntries env ms es c)
  | [], _ => rfl
  | .plain ty colon name :: es, c => by
    simp only [List.map_cons, eEntry, elabEntries, elabEntries_e env ms es]
    cases elabEntries env ms es c <;> rfl
  | .inline ty lb body rb :: es, c => by
    simp only [List.map_cons, eEntry, elabEntries]
    rw [show (erase ty).lit = ty.lit from rfl, elabE_eL]
    cases elabE env (entryName ms ty.lit) c body with
    | error e => rfl
    | ok q =>
      simp only [peEx_ok, elabEntries_e env ms es]
      cases elabEntries env ms es q.2.2 with
      | error e => rfl
      | ok q1 =>
        simp only [peEx_ok, peImp_add, List.map_cons]
        rfl
  | .table ty lbr rows rbr :: es, c => by
    simp only [List.map_cons, eEntry, elabEntries]
    rw [show (erase ty).lit = ty.lit from rfl, elabRows_e]
    cases elabRows env ms ty.lit rows 0 c with
    | error e => rfl
    | ok q =>
      simp only [peEx_ok, elabEntries_e env ms es]
      cases elabEntries env ms es q.2.2 with
      | error e => rfl
      | ok q1 =>
        simp only [peEx_ok, peImp_add, List.map_cons]
        rfl

theorem stepTopM_e (env : Env) (t : STopM) (s : PState) :
    stepTopM env (eTopM t) (peState s) = peStep (stepTopM env t s) := by
  cases t with
  | base t => exact stepTop_eTop env t s
  | mapscripts kw md name lb es rb =>
    simp only [eTopM, stepTopM]
    rw [show (erase name).lit = name.lit from rfl, show ctxOf (peState s) = ctxOf s from rfl, elabEntries_e]
    cases elabEntries env name.lit es (ctxOf s) with
    | error e => rfl
    | ok q =>
      simp only [peEx_ok, afterScript]
      rw [show ({ peState s with nextSid := q.2.2.2.nextSid, nextCmdId := q.2.2.2.nextCmdId } : PState) =
        peState { s with nextSid := q.2.2.2.nextSid, nextCmdId := q.2.2.2.nextCmdId } from rfl, addImp_pe]
      simp only [Option.map_some, peTop, mapScriptsOf, peMapScripts, modScope_e]
      rfl

theorem elabTopsM_e (env : Env) : ∀ (ts : List STopM) (s : PState),
    elabTopsM env (ts.map eTopM) (peState s) =
      peEx (fun r => (r.1.map peTop, peState r.2)) (elabTopsM env ts s)
  | [], s => rfl
  | t :: r, s => by
    simp only [List.map_cons, elabTopsM, stepTopM_e]
    cases stepTopM env t s with
    | error e => rfl
    | ok q =>
      simp only [peEx_ok, elabTopsM_e env r]
      cases elabTopsM env r q.2 with
      | error e => rfl
      | ok q1 => simp only [peEx_ok, optTop_map, List.map_append]

theorem elabFileM_eTopM (env : Env) (ts : List STopM) (s : PState) :
    elabFileM env (ts.map eTopM) (peState s) = peEx peProgram (elabFileM env ts s) := by
  unfold elabFileM
  rw [elabTopsM_e]
  cases elabTopsM env ts s with
  | error e => rfl
  | ok q => simp only [peEx_ok, finish_pe]

/-- Files of the same shape elaborate to the same program up to token positions. -/
theorem elabFileM_shape (env : Env) {ts' ts : List STopM} (h : SameShapeM ts' ts) (eof' eof : Tok) :
    peEx peProgram (elabFileM env ts' (initState eof')) = peEx peProgram (elabFileM env ts (initState eof)) := by
  rw [← elabFileM_eTopM, ← elabFileM_eTopM, h]
  rfl

end Pory.L2
