import PoryProofs.ProgramParseMS
import PoryProofs.ListSwitchErr
import PoryProofs.TextSwitchErr
/-
P2d (whole-file grammar completed), stage 1: the surface syntax `STopP` = `P2b.STopM` (script / raw / const /
movement / mart / text with PLAIN lists and values / mapscripts) + three constructors

  movementP  `movement [(mod)] Name { elements }`   elements: `step`, `step * N`, `,`,
                                                    `poryswitch ( X ) { key : element | key { elements } … }`
                                                    nested to any depth (`C14b.Items`)
  martP      `mart [(mod)] Name { elements }`       elements: `ITEM`, poryswitch as above (nested to any depth)
  textP      `text [(mod)] Name { body }`           body (`TBody`): a text value `STRING` | `STRINGTYPE STRING` |
                                                    `format ( [STRINGTYPE] STRING [, params] )` (`TVal`, parameters
                                                    as C07b covers them), or
                                                    `poryswitch ( X ) { key : value | key { value } … }` over such
                                                    values (so `format()` may also sit inside a case)

its printer, well-formedness (token types only; decidable) and reference elaboration `stepTopP / elabTopsP /
elabFileP`: a poryswitch contributes EXACTLY the selected case — the newest entry for the `-s` value of the switch,
else the newest `_` entry —, all cases are elaborated (an error in an unselected case is an error), and the
located errors are part of the reference: no `-s` option at all (on the `poryswitch` token), switch undefined
(on the switch name), no case found (on the `poryswitch` token; in the lint parser: nothing / the empty text),
a multiplier that is not a base-0 literal in 1..9999 (on the multiplier), a `format()` with an unknown font.
The new statements change the parser state exactly as their plain counterparts do: a text statement is appended
to `textStatements`, nothing else; nothing is hoisted.
-/
namespace Pory.P2d
open Pory Pory.Parser Pory.C02P Pory.StmtG Pory.TopParse Pory.P2 Pory.P2b
open Pory.C14b (Items)

/-! ### surface syntax -/

inductive STopP where
  | base (t : STopM)
  | movementP (kw : Tok) (md : Mod) (name lb : Tok) (items : Items) (rb : Tok)
  | martP (kw : Tok) (md : Mod) (name lb : Tok) (items : Items) (rb : Tok)
  | textP (kw : Tok) (md : Mod) (name lb : Tok) (b : TBody) (rb : Tok)

/-- The embedding of the grammar of P2b (hence, through `P2b.embed`, of P2). -/
abbrev embedM : List STopM → List STopP := List.map STopP.base

def printTopP : STopP → List Tok
  | .base t => printTopM t
  | .movementP kw md name lb items rb => kw :: (md.toks ++ name :: lb :: (items.toks ++ [rb]))
  | .martP kw md name lb items rb => kw :: (md.toks ++ name :: lb :: (items.toks ++ [rb]))
  | .textP kw md name lb b rb => kw :: (md.toks ++ name :: lb :: (b.toks ++ [rb]))

def printTopsP : List STopP → List Tok
  | [] => []
  | t :: r => printTopP t ++ printTopsP r

theorem printTopsP_append (a b : List STopP) : printTopsP (a ++ b) = printTopsP a ++ printTopsP b := by
  induction a with
  | nil => rfl
  | cons t r ih => simp [printTopsP, ih]

theorem printTopsP_embed (ts : List STopM) : printTopsP (embedM ts) = printTopsM ts := by
  induction ts with
  | nil => rfl
  | cons t r ih => simp only [embedM, List.map_cons, printTopsP, printTopsM, printTopP] at ih ⊢; rw [ih]

def STopP.kw : STopP → Tok
  | .base t => t.kw
  | .movementP kw .. => kw
  | .martP kw .. => kw
  | .textP kw .. => kw

def STopP.last : STopP → Tok
  | .base t => t.last
  | .movementP _ _ _ _ _ rb => rb
  | .martP _ _ _ _ _ rb => rb
  | .textP _ _ _ _ _ rb => rb

def STopP.isConst : STopP → Bool
  | .base t => t.isConst
  | _ => false

/-! ### well-formedness -/

def TopWFP : STopP → Prop
  | .base t => TopWFM t
  | .movementP kw md name lb items rb =>
      kw.type = .MOVEMENT ∧ md.WF ∧ name.type = .IDENT ∧ lb.type = .LBRACE ∧ wfItems false items ∧
        rb.type = .RBRACE
  | .martP kw md name lb items rb =>
      kw.type = .MART ∧ md.WF ∧ name.type = .IDENT ∧ lb.type = .LBRACE ∧ wfItems true items ∧
        rb.type = .RBRACE
  | .textP kw md name lb b rb =>
      kw.type = .TEXT ∧ md.WF ∧ name.type = .IDENT ∧ lb.type = .LBRACE ∧ b.WF ∧ rb.type = .RBRACE

instance : DecidablePred TopWFP := fun t => by cases t <;> unfold TopWFP <;> exact inferInstance

/-- A well-formed file: every statement is well-formed and a `const` is followed by another statement. -/
def TWFP : List STopP → Prop
  | [] => True
  | t :: r => TopWFP t ∧ (t.isConst = true → r ≠ []) ∧ TWFP r

def decTWFP : (ts : List STopP) → Decidable (TWFP ts)
  | [] => isTrue trivial
  | t :: r =>
    have := decTWFP r
    by unfold TWFP; exact inferInstance
instance : DecidablePred TWFP := decTWFP

theorem TWFP_embed (ts : List STopM) : TWFP (embedM ts) ↔ TWFM ts := by
  induction ts with
  | nil => exact Iff.rfl
  | cons t r ih =>
    simp only [embedM, List.map_cons, TWFP, TWFM, TopWFP, STopP.isConst] at ih ⊢
    rw [ih]
    simp

theorem TopWFP.kw_top {t : STopP} (h : TopWFP t) : t.kw.type ∈ Facts.topLevelTokens := by
  cases t with
  | base t => exact TopWFM.kw_top h
  | movementP kw md name lb items rb =>
    simp only [TopWFP] at h
    simp [STopP.kw, h.1, Facts.topLevelTokens]
  | martP kw md name lb items rb =>
    simp only [TopWFP] at h
    simp [STopP.kw, h.1, Facts.topLevelTokens]
  | textP kw md name lb b rb =>
    simp only [TopWFP] at h
    simp [STopP.kw, h.1, Facts.topLevelTokens]

/-! ### the reference elaboration -/

/-- What one top-level statement contributes and what it does to the parser state. -/
def stepTopP (env : Env) (t : STopP) (s : PState) : Except PFail (Option Top × PState) :=
  match t with
  | .base t => stepTopM env t s
  | .movementP kw md name _ items _ =>
      match elItems env items with
      | .error e => .error e
      | .ok out =>
        .ok (some (.movement { tok := kw, name := name.lit, cmds := out,
                               scope := md.scope (defaultScopeOf "parseMovementStatement") }), s)
  | .martP kw md name _ items _ =>
      match elItems env items with
      | .error e => .error e
      | .ok out =>
        .ok (some (.mart kw name.lit out (out.map fun t => substC s.constants t.lit)
                     (md.scope (defaultScopeOf "parseMartStatement"))), s)
  | .textP kw md name _ b _ =>
      match elBody env b with
      | .error e => .error e
      | .ok v =>
        let t := C15b.mkText kw name (md.scope (defaultScopeOf "parseTextStatement")) v
        .ok (some (.text t), { s with textStatements := s.textStatements ++ [t] })

/-- **The reference elaboration of a file** of the completed grammar. -/
def elabTopsP (env : Env) : List STopP → PState → Except PFail (List Top × PState)
  | [], s => .ok ([], s)
  | t :: r, s =>
      match stepTopP env t s with
      | .error e => .error e
      | .ok (o, s1) =>
        match elabTopsP env r s1 with
        | .error e => .error e
        | .ok (tops, s2) => .ok (optTop o ++ tops, s2)

/-- The parse result of a whole file (post-passes of `ParseProgram`: `P2.finish`). -/
def elabFileP (env : Env) (ts : List STopP) (s : PState) : Except PFail Program :=
  match elabTopsP env ts s with
  | .error e => .error e
  | .ok (tops, s') => finish tops s'

theorem elabTopsP_embed (env : Env) (ts : List STopM) (s : PState) :
    elabTopsP env (embedM ts) s = elabTopsM env ts s := by
  induction ts generalizing s with
  | nil => rfl
  | cons t r ih =>
    simp only [embedM, List.map_cons, elabTopsP, elabTopsM, stepTopP] at ih ⊢
    cases stepTopM env t s with
    | error e => rfl
    | ok q =>
      obtain ⟨o, s1⟩ := q
      simp only [ih]
      cases elabTopsM env r s1 with
      | error e => rfl
      | ok q1 => rfl

theorem elabFileP_embed (env : Env) (ts : List STopM) (s : PState) :
    elabFileP env (embedM ts) s = elabFileM env ts s := by
  unfold elabFileP elabFileM
  rw [elabTopsP_embed]
  cases elabTopsM env ts s with
  | error e => rfl
  | ok q => rfl

theorem elabTopsP_append (env : Env) (a b : List STopP) (s : PState) :
    elabTopsP env (a ++ b) s =
      match elabTopsP env a s with
      | .error e => .error e
      | .ok (t1, s1) =>
        match elabTopsP env b s1 with
        | .error e => .error e
        | .ok (t2, s2) => .ok (t1 ++ t2, s2) := by
  induction a generalizing s with
  | nil =>
    simp only [List.nil_append, elabTopsP]
    cases elabTopsP env b s with
    | error e => rfl
    | ok q => rfl
  | cons t r ih =>
    simp only [List.cons_append, elabTopsP]
    cases stepTopP env t s with
    | error e => rfl
    | ok q =>
      obtain ⟨o, s1⟩ := q
      simp only [ih]
      cases elabTopsP env r s1 with
      | error e => rfl
      | ok q1 =>
        obtain ⟨t1, s2⟩ := q1
        simp only
        cases elabTopsP env b s2 with
        | error e => rfl
        | ok q2 => simp

/-! ### fuel -/

def needTopP : STopP → Nat
  | .base t => needTopM t
  | .movementP _ _ _ _ items _ => items.toks.length + 1
  | .martP _ _ _ _ items _ => items.toks.length + 1
  | .textP _ _ _ _ b _ => b.need

theorem needTopP_le (t : STopP) : needTopP t ≤ 2 * (printTopP t).length + 1 := by
  cases t with
  | base t => exact needTopM_le t
  | movementP kw md name lb items rb =>
    simp only [needTopP, printTopP, List.length_append, List.length_cons, List.length_nil]
    omega
  | martP kw md name lb items rb =>
    simp only [needTopP, printTopP, List.length_append, List.length_cons, List.length_nil]
    omega
  | textP kw md name lb b rb =>
    have := b.need_le
    simp only [needTopP, printTopP, List.length_append, List.length_cons, List.length_nil]
    omega

end Pory.P2d
