import PoryProofs.BoolParseLeaf
/-
Helpers for C14 (parser half): movement lists `step`, `step * N`, `,` and mart lists, without
poryswitch. Reference syntax (`Item`), printer (`printItems`), the expected expansion (`expand`),
one-step lemmas for `parseListValue` and the parse∘print induction (`parse_prefix`), from which
the property theorems in `PoryProofs/Properties/C14b.lean` follow.

Run-lemmas of the parser monad (`st`, `run_cur`, …) come from `PoryProofs/BoolParseLeaf.lean`
(namespace `Pory.C02P`).
-/
namespace Pory.C14b
open Pory Pory.Parser Pory.C02P

/-! ### `strconv.ParseInt(s, 0, 64)` as modelled by `parseInt`: closed facts -/

theorem parseInt_decimal : parseInt "12" = (12, none) ∧ parseInt "9999" = (9999, none) ∧
    parseInt "10000" = (10000, none) := by decide
theorem parseInt_hex : parseInt "0x1F" = (31, none) ∧ parseInt "0XfF" = (255, none) := by decide
theorem parseInt_octal : parseInt "010" = (8, none) ∧ parseInt "0o17" = (15, none) ∧
    parseInt "0777" = (511, none) := by decide
theorem parseInt_binary : parseInt "0b101" = (5, none) := by decide
theorem parseInt_zero : parseInt "0" = (0, none) ∧ parseInt "00" = (0, none) := by decide
theorem parseInt_syntax_errors :
    parseInt "09" = (0, some .syntax) ∧ parseInt "0x" = (0, some .syntax) ∧
    parseInt "" = (0, some .syntax) ∧
    parseInt "12a" = (0, some .syntax) ∧ parseInt "-" = (0, some .syntax) := by decide
/-- MODEL ≠ Go on this input: `strconv.ParseInt("1_000", 0, 64)` is 1000 (base 0 allows digit
separators), the model reports a syntax error. Unreachable from the lexer: `readNumber` /
`readHexNumber` only collect digits, so an INT token never contains `_` (see `ParserBase.lean`). -/
theorem parseInt_underscore_model_only : parseInt "1_000" = (0, some .syntax) := by decide
theorem parseInt_negative : parseInt "-2" = (-2, none) ∧ parseInt "+7" = (7, none) ∧
    parseInt "-0x10" = (-16, none) := by decide
theorem parseInt_range :
    parseInt "9223372036854775807" = (9223372036854775807, none) ∧
    parseInt "9223372036854775808" = (9223372036854775807, some .range) ∧
    parseInt "-9223372036854775808" = (-9223372036854775808, none) ∧
    parseInt "99999999999999999999" = (9223372036854775807, some .range) := by decide

/-! ### multipliers -/

deriving instance DecidableEq for Except

/-- Why a multiplier literal is rejected. -/
inductive MulErr
  | unparsable (e : IntErr)      -- `strconv.ParseInt` failed
  | nonPositive                  -- value ≤ 0
  | tooLarge                     -- value > 9999
  deriving DecidableEq, Repr

/-- The multiplier denoted by an INT literal: Go base-0 rules (the model's `parseInt`), 1..9999. -/
def mulCheck (lit : String) : Except MulErr Nat :=
  match parseInt lit with
  | (_, some e) => .error (.unparsable e)
  | (n, none) => if n ≤ 0 then .error .nonPositive else if 9999 < n then .error .tooLarge else .ok n.toNat

def mulOf (lit : String) : Option Nat :=
  match mulCheck lit with
  | .ok n => some n
  | .error _ => none

/-- The message of the error for a rejected multiplier literal (texts of `parseMovementValue`). -/
def mulErrMsg (lit : String) : MulErr → String
  | .unparsable e => s!"invalid movement mulplier integer '{lit}': {parseIntErrMsg lit e}"
  | .nonPositive => s!"movement mulplier must be a positive integer, but got '{lit}' instead"
  | .tooLarge => s!"movement mulplier '{lit}' is too large. Maximum is {Facts.multiplierMax}"

theorem mulCheck_ok_iff (lit : String) (k : Nat) :
    mulCheck lit = .ok k ↔ ∃ n : Int, parseInt lit = (n, none) ∧ 1 ≤ n ∧ n ≤ 9999 ∧ k = n.toNat := by
  unfold mulCheck
  rcases h : parseInt lit with ⟨n, _ | e⟩
  · by_cases h0 : n ≤ 0
    · simp [h0]; intro _ _; omega
    · by_cases h1 : 9999 < n
      · simp [h0, h1]; intro _ _; omega
      · simp [h0, h1]
        constructor
        · intro hk; exact ⟨by omega, by omega, hk.symm⟩
        · intro hk; exact hk.2.2.symm
  · simp

theorem mulCheck_range (lit : String) (k : Nat) (h : mulCheck lit = .ok k) : 1 ≤ k ∧ k ≤ 9999 := by
  obtain ⟨n, -, h1, h2, rfl⟩ := (mulCheck_ok_iff lit k).mp h
  omega

example : mulCheck "3" = .ok 3 ∧ mulCheck "0x10" = .ok 16 ∧ mulCheck "010" = .ok 8 ∧
    mulCheck "9999" = .ok 9999 ∧ mulCheck "10000" = .error .tooLarge ∧
    mulCheck "0" = .error .nonPositive ∧ mulCheck "09" = .error (.unparsable .syntax) ∧
    mulCheck "99999999999999999999" = .error (.unparsable .range) := by decide

/-! ### reference syntax -/

/-- One element of a movement list (no poryswitch). Tokens are arbitrary records (any positions,
any literals) constrained only by `Item.WF`. -/
inductive Item
  | step (name : Tok)                                -- `walk_up`
  | stepMul (name : Tok) (star : Tok) (num : Tok)    -- `walk_up * 3`
  | comma (t : Tok)                                  -- `,` (ignored by the parser)

def Item.WF : Item → Prop
  | .step n => n.type = .IDENT
  | .stepMul n s m => n.type = .IDENT ∧ s.type = .MUL ∧ m.type = .INT
  | .comma t => t.type = .COMMA

def Item.toks : Item → List Tok
  | .step n => [n]
  | .stepMul n s m => [n, s, m]
  | .comma t => [t]

def printItems : List Item → List Tok
  | [] => []
  | i :: r => i.toks ++ printItems r

def Item.expand : Item → Option (List Tok)
  | .step n => some [n]
  | .stepMul n _ m =>
    match mulOf m.lit with
    | some k => some (List.replicate k n)
    | none => none
  | .comma _ => some []

/-- The steps a list denotes: source order, `step * N` is N copies, commas vanish; `none` when
some multiplier is not a base-0 literal in 1..9999. -/
def expand : List Item → Option (List Tok)
  | [] => some []
  | i :: r =>
    match i.expand, expand r with
    | some a, some b => some (a ++ b)
    | _, _ => none

theorem printItems_append (a b : List Item) : printItems (a ++ b) = printItems a ++ printItems b := by
  induction a with
  | nil => rfl
  | cons i r ih => simp [printItems, ih]

theorem length_le_printItems (items : List Item) : items.length ≤ (printItems items).length := by
  induction items with
  | nil => simp [printItems]
  | cons i r ih => cases i <;> simp [printItems, Item.toks] <;> omega

/-- The first token of a printed (well-formed) list followed by a non-`*` token is not `*`. -/
theorem head_not_mul (items : List Item) (nx : Tok) (tl : List Tok)
    (hwf : ∀ i ∈ items, i.WF) (hnx : nx.type ≠ .MUL) :
    ∃ a l, printItems items ++ nx :: tl = a :: l ∧ a.type ≠ .MUL := by
  cases items with
  | nil => exact ⟨nx, tl, rfl, hnx⟩
  | cons i r =>
    have hi := hwf i (by simp)
    cases i with
    | step n => exact ⟨n, _, rfl, by simp [Item.WF] at hi; simp [hi]⟩
    | stepMul n s m => exact ⟨n, _, rfl, by simp [Item.WF] at hi; simp [hi.1]⟩
    | comma t => exact ⟨t, _, rfl, by simp [Item.WF] at hi; simp [hi]⟩

/-! ### one-step lemmas for `parseListValue` on movement lists -/
section
variable (env : Env) (closing : TT) (f : Nat) (acc : List Tok) (s : PState)

theorem plv_close (c : Tok) (tl : List Tok) (hc : c.type = closing) :
    (parseListValue env (.movement closing) true (f + 1) acc).run (st s (c :: tl)) =
      .ok (acc, st s (c :: tl)) := by
  rw [parseListValue]
  simp [hc, ListKind.closing]

theorem plv_step (name nx : Tok) (tl : List Tok)
    (hn : name.type = .IDENT) (hcl : closing ≠ .IDENT) (hnx : nx.type ≠ .MUL) :
    (parseListValue env (.movement closing) true (f + 1) acc).run (st s (name :: nx :: tl)) =
      (parseListValue env (.movement closing) true f (acc ++ [name])).run (st s (nx :: tl)) := by
  rw [parseListValue]
  simp [hn, ListKind.closing, Ne.symm hcl, hnx]

theorem plv_comma (c : Tok) (tl : List Tok) (hc : c.type = .COMMA) (hcl : closing ≠ .COMMA) :
    (parseListValue env (.movement closing) true (f + 1) acc).run (st s (c :: tl)) =
      (parseListValue env (.movement closing) true f acc).run (st s tl) := by
  rw [parseListValue]
  simp [hc, ListKind.closing, Ne.symm hcl]

theorem plv_mul (name star num : Tok) (tl : List Tok) (k : Nat)
    (hn : name.type = .IDENT) (hs : star.type = .MUL) (hm : num.type = .INT) (hcl : closing ≠ .IDENT)
    (hk : mulCheck num.lit = .ok k) :
    (parseListValue env (.movement closing) true (f + 1) acc).run (st s (name :: star :: num :: tl)) =
      (parseListValue env (.movement closing) true f (acc ++ List.replicate k name)).run (st s tl) := by
  obtain ⟨n, hp, h0, h1, rfl⟩ := (mulCheck_ok_iff _ _).mp hk
  have h0' : ¬ n ≤ 0 := by omega
  have h1' : ¬ (Facts.multiplierMax : Int) < n := by simp [Facts.multiplierMax]; omega
  rw [parseListValue]
  simp [hn, hs, hm, ListKind.closing, Ne.symm hcl, hp, h0', h1']

/-- A rejected multiplier: the error is located on the multiplier token. -/
theorem plv_mul_bad (name star num : Tok) (tl : List Tok) (e : MulErr)
    (hn : name.type = .IDENT) (hs : star.type = .MUL) (hm : num.type = .INT) (hcl : closing ≠ .IDENT)
    (he : mulCheck num.lit = .error e) :
    (parseListValue env (.movement closing) true (f + 1) acc).run (st s (name :: star :: num :: tl)) =
      .error (newParseError num (mulErrMsg num.lit e)) := by
  unfold mulCheck at he
  rcases hp : parseInt num.lit with ⟨n, _ | ie⟩
  · rw [hp] at he
    by_cases h0 : n ≤ 0
    · simp [h0] at he; subst he
      rw [parseListValue]
      simp [hn, hs, hm, ListKind.closing, Ne.symm hcl, hp, h0]
      rfl
    · by_cases h1 : 9999 < n
      · have h1' : (Facts.multiplierMax : Int) < n := by simpa [Facts.multiplierMax] using h1
        simp [h0, h1] at he; subst he
        rw [parseListValue]
        simp [hn, hs, hm, ListKind.closing, Ne.symm hcl, hp, h0, h1']
        rfl
      · simp [h0, h1] at he
  · rw [hp] at he
    simp at he; subst he
    rw [parseListValue]
    simp [hn, hs, hm, ListKind.closing, Ne.symm hcl, hp]
    rfl

/-- `step *` followed by something that is not an INT token. -/
theorem plv_mul_noint (name star num : Tok) (tl : List Tok)
    (hn : name.type = .IDENT) (hs : star.type = .MUL) (hm : num.type ≠ .INT) (hcl : closing ≠ .IDENT) :
    (parseListValue env (.movement closing) true (f + 1) acc).run (st s (name :: star :: num :: tl)) =
      .error (newParseError num
        s!"expected mulplier number for movement command, but got '{num.lit}' instead") := by
  rw [parseListValue]
  simp [hn, hs, hm, ListKind.closing, Ne.symm hcl]

/-- Any token that is not the closing token, an identifier, a comma or `poryswitch`. -/
theorem plv_other (c : Tok) (tl : List Tok) (h1 : c.type ≠ closing) (h2 : c.type ≠ .IDENT)
    (h3 : c.type ≠ .COMMA) (h4 : c.type ≠ .PORYSWITCH) :
    (parseListValue env (.movement closing) true (f + 1) acc).run (st s (c :: tl)) =
      .error (newParseError c s!"expected movement command, but got '{c.lit}' instead") := by
  rw [parseListValue]
  simp [h1, h2, h3, h4, ListKind.closing]

end

/-! ### the parser on a printed prefix -/

/-- Running the list parser over the printed items `pre` (all multipliers valid) leaves it at the
first token after them with the expansion appended to the accumulator; one unit of fuel per item. -/
theorem parse_prefix (env : Env) (closing : TT) (s : PState) (hc1 : closing ≠ .IDENT)
    (hc2 : closing ≠ .COMMA) (pre : List Item) (nx : Tok) (tl : List Tok) (hnx : nx.type ≠ .MUL)
    (hwf : ∀ i ∈ pre, i.WF) (out : List Tok) (hex : expand pre = some out) (acc : List Tok) (f : Nat) :
    (parseListValue env (.movement closing) true (pre.length + f) acc).run
        (st s (printItems pre ++ nx :: tl)) =
      (parseListValue env (.movement closing) true f (acc ++ out)).run (st s (nx :: tl)) := by
  induction pre generalizing acc out with
  | nil =>
    simp [expand] at hex; subst hex
    simp [printItems]
  | cons i r ih =>
    have hi := hwf i (by simp)
    have hr : ∀ j ∈ r, j.WF := fun j hj => hwf j (by simp [hj])
    have hlen : (i :: r).length + f = (r.length + f) + 1 := by simp; omega
    rw [hlen]
    unfold expand at hex
    cases hie : i.expand with
    | none => simp [hie] at hex
    | some a =>
      cases hre : expand r with
      | none => simp [hie, hre] at hex
      | some b =>
        simp [hie, hre] at hex; subst hex
        cases i with
        | step n =>
          simp [Item.expand] at hie; subst hie
          simp only [Item.WF] at hi
          obtain ⟨a, l, heq, ha⟩ := head_not_mul r nx tl hr hnx
          simp only [printItems, Item.toks, List.cons_append, List.nil_append]
          rw [heq, plv_step env closing _ acc s n a l hi hc1 ha, ← heq, ih hr b hre]
          simp
        | stepMul n st' m =>
          simp only [Item.WF] at hi
          simp only [Item.expand, mulOf] at hie
          cases hk : mulCheck m.lit with
          | error e => simp [hk] at hie
          | ok k =>
            simp [hk] at hie; subst hie
            simp only [printItems, Item.toks, List.cons_append, List.nil_append]
            rw [plv_mul env closing _ acc s n st' m _ k hi.1 hi.2.1 hi.2.2 hc1 hk, ih hr b hre]
            simp
        | comma t =>
          simp [Item.expand] at hie; subst hie
          simp only [Item.WF] at hi
          simp only [printItems, Item.toks, List.cons_append, List.nil_append]
          rw [plv_comma env closing _ acc s t _ hi hc2, ih hr b hre]

/-! ### mart lists -/

theorem pmart_close (env : Env) (f : Nat) (acc : List Tok) (s : PState) (c : Tok) (tl : List Tok)
    (hc : c.type = .RBRACE) :
    (parseListValue env .mart true (f + 1) acc).run (st s (c :: tl)) = .ok (acc, st s (c :: tl)) := by
  rw [parseListValue]
  simp [hc, ListKind.closing]

theorem pmart_item (env : Env) (f : Nat) (acc : List Tok) (s : PState) (c : Tok) (tl : List Tok)
    (hc : c.type = .IDENT) :
    (parseListValue env .mart true (f + 1) acc).run (st s (c :: tl)) =
      (parseListValue env .mart true f (acc ++ [c])).run (st s tl) := by
  rw [parseListValue]
  simp [hc, ListKind.closing]

/-- Anything else (a comma in particular) is an error located on that token. -/
theorem pmart_other (env : Env) (f : Nat) (acc : List Tok) (s : PState) (c : Tok) (tl : List Tok)
    (h1 : c.type ≠ .RBRACE) (h2 : c.type ≠ .IDENT) (h3 : c.type ≠ .PORYSWITCH) :
    (parseListValue env .mart true (f + 1) acc).run (st s (c :: tl)) =
      .error (newParseError c s!"expected mart item, but got '{c.lit}' instead") := by
  rw [parseListValue]
  simp [h1, h2, h3, ListKind.closing]

theorem mart_prefix (env : Env) (s : PState) (items : List Tok) (tail : List Tok)
    (hi : ∀ t ∈ items, t.type = .IDENT) (acc : List Tok) (f : Nat) :
    (parseListValue env .mart true (items.length + f) acc).run (st s (items ++ tail)) =
      (parseListValue env .mart true f (acc ++ items)).run (st s tail) := by
  induction items generalizing acc with
  | nil => simp
  | cons t r ih =>
    have hlen : (t :: r).length + f = (r.length + f) + 1 := by simp; omega
    rw [hlen, List.cons_append, pmart_item env _ acc s t _ (hi t (by simp)),
      ih (fun x hx => hi x (by simp [hx]))]
    simp

end Pory.C14b
