import PoryProofs.ProgramParse
import PoryProofs.MapScriptsParse
/-
P2b (whole-file grammar with `mapscripts`), stage 1: the extended surface syntax `STopM` = `STop` (P2) + a
`mapscripts` constructor, its printer, well-formedness and reference elaboration.

* `SRow`   — a table row: `plain cs comma vs colon name` (`c₁ … cₖ , v₁ … vₗ : Name`) or
             `inline cs comma vs lb body rb` (`c₁ … cₖ , v₁ … vₗ { body }`), `body : List StmtG.SStmt` (the
             statement grammar of P1).  The condition / value are token LISTS (a single plain token is the
             special case `[c]` / `[v]`); `RowSyn` fixes the token types only: the condition tokens are not `,`,
             the first one is not `]`, the value tokens are neither `:` nor `{`, no end-of-input token inside.
* `SEntry` — `plain ty colon name` (`TYPE : Name`), `inline ty lb body rb` (`TYPE { body }`),
             `table ty lbr rows rbr` (`TYPE [ rows ]`).
* `STopM`  — `base t` (`t : P2.STop`; `STopM.base` IS the embedding of `STop`) or
             `mapscripts kw md name lb es rb` (`mapscripts [(global|local)] Name { entries }`).
* `printTopM` / `printTopsM`, `TopWFM` / `TWFM` (decidable).
* reference elaboration: `elabRows`, `elabEntries` (the inline bodies through `StmtG.elabE` under the generated
  names `<Name>_<TYPE>` / `<Name>_<TYPE>_<i>`, `i` = 0-based index of the row among ALL rows of its table; the
  context — scope-id / command-id counters — threaded from body to body, the implicit data of the bodies
  concatenated in source order), `stepTopM`, `elabTopsM`, `elabFileM` (post-passes: `P2.finish`).
  The only located errors of a `mapscripts` statement of the grammar: the violations inside an inline body
  (P1), a row whose collected condition is empty (`emptyCondErr`), a row whose collected value is empty
  (`emptyCmpErr`) — both depend on the constants (a constant may be defined as the empty string literal).
-/
namespace Pory.P2b
open Pory Pory.Parser Pory.C02P Pory.StmtG Pory.TopParse Pory.P2
open Pory.MapScriptsParse (collVal rowName entryName)

/-! ### surface syntax -/

inductive SRow where
  | plain (cs : List Tok) (comma : Tok) (vs : List Tok) (colon name : Tok)
  | inline (cs : List Tok) (comma : Tok) (vs : List Tok) (lb : Tok) (body : List SStmt) (rb : Tok)

inductive SEntry where
  | plain (ty colon name : Tok)
  | inline (ty lb : Tok) (body : List SStmt) (rb : Tok)
  | table (ty lbr : Tok) (rows : List SRow) (rbr : Tok)

inductive STopM where
  | base (t : STop)
  | mapscripts (kw : Tok) (md : Mod) (name lb : Tok) (es : List SEntry) (rb : Tok)

/-- The embedding of the grammar of P2. -/
abbrev embed : List STop → List STopM := List.map STopM.base

def printRow : SRow → List Tok
  | .plain cs comma vs colon name => cs ++ comma :: (vs ++ [colon, name])
  | .inline cs comma vs lb body rb => cs ++ comma :: (vs ++ lb :: (printStmts body ++ [rb]))

def printRows : List SRow → List Tok
  | [] => []
  | r :: rs => printRow r ++ printRows rs

def printEntry : SEntry → List Tok
  | .plain ty colon name => [ty, colon, name]
  | .inline ty lb body rb => ty :: lb :: (printStmts body ++ [rb])
  | .table ty lbr rows rbr => ty :: lbr :: (printRows rows ++ [rbr])

def printEntries : List SEntry → List Tok
  | [] => []
  | e :: es => printEntry e ++ printEntries es

def printTopM : STopM → List Tok
  | .base t => printTop t
  | .mapscripts kw md name lb es rb => kw :: (md.toks ++ name :: lb :: (printEntries es ++ [rb]))

def printTopsM : List STopM → List Tok
  | [] => []
  | t :: r => printTopM t ++ printTopsM r

theorem printTopsM_append (a b : List STopM) : printTopsM (a ++ b) = printTopsM a ++ printTopsM b := by
  induction a with
  | nil => rfl
  | cons t r ih => simp [printTopsM, ih]

theorem printTopsM_embed (ts : List STop) : printTopsM (embed ts) = printTops ts := by
  induction ts with
  | nil => rfl
  | cons t r ih => simp only [embed, List.map_cons, printTopsM, printTops, printTopM] at ih ⊢; rw [ih]

def STopM.kw : STopM → Tok
  | .base t => t.kw
  | .mapscripts kw .. => kw

def STopM.last : STopM → Tok
  | .base t => t.last
  | .mapscripts _ _ _ _ _ rb => rb

def STopM.isConst : STopM → Bool
  | .base t => t.isConst
  | .mapscripts .. => false

/-! ### well-formedness -/

/-- Token types of `c₁ … cₖ , v₁ … vₗ` (the syntactic part of `MapScriptsParse.HdWF`). -/
def RowSyn (cs : List Tok) (comma : Tok) (vs : List Tok) : Prop :=
  (cs.headD comma).type ≠ .RBRACKET ∧ (∀ v ∈ cs, v.type ≠ .COMMA) ∧ (∀ v ∈ cs.tail, v.type ≠ .EOF) ∧
  comma.type = .COMMA ∧ (∀ v ∈ vs, v.type ≠ .COLON ∧ v.type ≠ .LBRACE) ∧ (∀ v ∈ vs.tail, v.type ≠ .EOF)

instance (cs : List Tok) (comma : Tok) (vs : List Tok) : Decidable (RowSyn cs comma vs) := by
  unfold RowSyn; exact inferInstance

def RowWF : SRow → Prop
  | .plain cs comma vs colon name => RowSyn cs comma vs ∧ colon.type = .COLON ∧ name.type = .IDENT
  | .inline cs comma vs lb body rb => RowSyn cs comma vs ∧ lb.type = .LBRACE ∧ SWF body ∧ rb.type = .RBRACE

instance : DecidablePred RowWF := fun r => by cases r <;> unfold RowWF <;> exact inferInstance

def RowsWF : List SRow → Prop
  | [] => True
  | r :: rs => RowWF r ∧ RowsWF rs

def decRowsWF : (rs : List SRow) → Decidable (RowsWF rs)
  | [] => isTrue trivial
  | r :: rs =>
    have := decRowsWF rs
    by unfold RowsWF; exact inferInstance
instance : DecidablePred RowsWF := decRowsWF

def EntryWF : SEntry → Prop
  | .plain ty colon name => ty.type = .IDENT ∧ colon.type = .COLON ∧ name.type = .IDENT
  | .inline ty lb body rb => ty.type = .IDENT ∧ lb.type = .LBRACE ∧ SWF body ∧ rb.type = .RBRACE
  | .table ty lbr rows rbr => ty.type = .IDENT ∧ lbr.type = .LBRACKET ∧ RowsWF rows ∧ rbr.type = .RBRACKET

instance : DecidablePred EntryWF := fun e => by cases e <;> unfold EntryWF <;> exact inferInstance

def EntriesWF : List SEntry → Prop
  | [] => True
  | e :: es => EntryWF e ∧ EntriesWF es

def decEntriesWF : (es : List SEntry) → Decidable (EntriesWF es)
  | [] => isTrue trivial
  | e :: es =>
    have := decEntriesWF es
    by unfold EntriesWF; exact inferInstance
instance : DecidablePred EntriesWF := decEntriesWF

def TopWFM : STopM → Prop
  | .base t => TopWF t
  | .mapscripts kw md name lb es rb =>
      kw.type = .MAPSCRIPTS ∧ md.WF ∧ name.type = .IDENT ∧ lb.type = .LBRACE ∧ EntriesWF es ∧ rb.type = .RBRACE

instance : DecidablePred TopWFM := fun t => by cases t <;> unfold TopWFM <;> exact inferInstance

/-- A well-formed file: every statement is well-formed and a `const` is followed by another statement. -/
def TWFM : List STopM → Prop
  | [] => True
  | t :: r => TopWFM t ∧ (t.isConst = true → r ≠ []) ∧ TWFM r

def decTWFM : (ts : List STopM) → Decidable (TWFM ts)
  | [] => isTrue trivial
  | t :: r =>
    have := decTWFM r
    by unfold TWFM; exact inferInstance
instance : DecidablePred TWFM := decTWFM

theorem TWFM_embed (ts : List STop) : TWFM (embed ts) ↔ TWF ts := by
  induction ts with
  | nil => exact Iff.rfl
  | cons t r ih =>
    simp only [embed, List.map_cons, TWFM, TWF, TopWFM, STopM.isConst] at ih ⊢
    rw [ih]
    simp

theorem TopWFM.kw_top {t : STopM} (h : TopWFM t) : t.kw.type ∈ Facts.topLevelTokens := by
  cases t with
  | base t => exact TopWF.kw_top h
  | mapscripts kw md name lb es rb =>
    simp only [TopWFM] at h
    simp [STopM.kw, h.1, Facts.topLevelTokens]

/-! ### the reference elaboration -/

def emptyCondErr (t : Tok) : PFail :=
  newParseError t "expected condition for map script table entry, but it was empty"
def emptyCmpErr (a d : Tok) : PFail :=
  newRangeParseError a d "expected comparison value for map script table entry, but it was empty"

/-- The inline script generated for a body. -/
def inlineScript (nm : String) (stmts : List Stmt) : Script :=
  { tok := {}, name := nm, body := stmts, scope := .LOCAL }

/-- The condition token of a row: its first token carrying the collected condition string. -/
def condTok (K : List (String × String)) (cs : List Tok) (comma : Tok) : Tok :=
  { cs.headD comma with lit := collVal K cs }

/-- The rows of a table, the first one in position `i`: the table entries, the implicit data of the inline
bodies (in order), the context after the last body. -/
def elabRows (env : Env) (ms ty : String) : List SRow → Nat → Ctx → Except PFail (List TableEntry × ImpData × Ctx)
  | [], _, c => .ok ([], {}, c)
  | .plain cs comma vs colon name :: rs, i, c =>
      if collVal c.consts cs = "" then .error (emptyCondErr (cs.headD comma))
      else if collVal c.consts vs = "" then .error (emptyCmpErr (cs.headD comma) colon)
      else
        match elabRows env ms ty rs (i + 1) c with
        | .error e => .error e
        | .ok (es, imp, c') =>
          .ok ({ condition := condTok c.consts cs comma, comparison := collVal c.consts vs, name := name.lit,
                 script := none } :: es, imp, c')
  | .inline cs comma vs lb body _ :: rs, i, c =>
      if collVal c.consts cs = "" then .error (emptyCondErr (cs.headD comma))
      else if collVal c.consts vs = "" then .error (emptyCmpErr (cs.headD comma) lb)
      else
        match elabE env (rowName ms ty i) c body with
        | .error e => .error e
        | .ok (stmts, bimp, c1) =>
          match elabRows env ms ty rs (i + 1) c1 with
          | .error e => .error e
          | .ok (es, imp, c') =>
            .ok ({ condition := condTok c.consts cs comma, comparison := collVal c.consts vs,
                   name := rowName ms ty i, script := some (inlineScript (rowName ms ty i) stmts) } :: es,
                 bimp.add imp, c')

/-- The entries of a `mapscripts` statement: the map scripts (plain and inline entries, in order), the tables (in
order), the implicit data, the context after the last body. -/
def elabEntries (env : Env) (ms : String) :
    List SEntry → Ctx → Except PFail (List MapScript × List TableMapScript × ImpData × Ctx)
  | [], c => .ok ([], [], {}, c)
  | .plain ty _ name :: es, c =>
      match elabEntries env ms es c with
      | .error e => .error e
      | .ok (mss, tbs, imp, c') => .ok ({ type := ty, name := name.lit, script := none } :: mss, tbs, imp, c')
  | .inline ty _ body _ :: es, c =>
      match elabE env (entryName ms ty.lit) c body with
      | .error e => .error e
      | .ok (stmts, bimp, c1) =>
        match elabEntries env ms es c1 with
        | .error e => .error e
        | .ok (mss, tbs, imp, c') =>
          .ok ({ type := ty, name := entryName ms ty.lit,
                 script := some (inlineScript (entryName ms ty.lit) stmts) } :: mss, tbs, bimp.add imp, c')
  | .table ty _ rows _ :: es, c =>
      match elabRows env ms ty.lit rows 0 c with
      | .error e => .error e
      | .ok (entries, rimp, c1) =>
        match elabEntries env ms es c1 with
        | .error e => .error e
        | .ok (mss, tbs, imp, c') =>
          .ok (mss, { type := ty, name := entryName ms ty.lit, entries := entries } :: tbs, rimp.add imp, c')

/-- The node of a `mapscripts` statement (its token is the NAME token, as in Go). -/
def mapScriptsOf (md : Mod) (name : Tok) (mss : List MapScript) (tbs : List TableMapScript) : MapScripts :=
  { tok := name, name := name.lit, mapScripts := mss, tables := tbs,
    scope := md.scope (defaultScopeOf "parseMapscriptsStatement") }

/-- What one top-level statement contributes and what it does to the parser state. A `mapscripts` statement
advances the two id counters through all its inline bodies and records their implicit texts / movements ONCE,
after the statement (all texts first, then all movements — `C12c.addImp`), under the generated script names. -/
def stepTopM (env : Env) (t : STopM) (s : PState) : Except PFail (Option Top × PState) :=
  match t with
  | .base t => stepTop env t s
  | .mapscripts _ md name _ es _ =>
      match elabEntries env name.lit es (ctxOf s) with
      | .error e => .error e
      | .ok (mss, tbs, imp, c') => .ok (some (.mapscripts (mapScriptsOf md name mss tbs)), afterScript s imp c')

/-- **The reference elaboration of a file** of the extended grammar. -/
def elabTopsM (env : Env) : List STopM → PState → Except PFail (List Top × PState)
  | [], s => .ok ([], s)
  | t :: r, s =>
      match stepTopM env t s with
      | .error e => .error e
      | .ok (o, s1) =>
        match elabTopsM env r s1 with
        | .error e => .error e
        | .ok (tops, s2) => .ok (optTop o ++ tops, s2)

/-- The parse result of a whole file (post-passes of `ParseProgram`: `P2.finish`). -/
def elabFileM (env : Env) (ts : List STopM) (s : PState) : Except PFail Program :=
  match elabTopsM env ts s with
  | .error e => .error e
  | .ok (tops, s') => finish tops s'

theorem elabTopsM_embed (env : Env) (ts : List STop) (s : PState) :
    elabTopsM env (embed ts) s = elabTops env ts s := by
  induction ts generalizing s with
  | nil => rfl
  | cons t r ih =>
    simp only [embed, List.map_cons, elabTopsM, elabTops, stepTopM] at ih ⊢
    cases stepTop env t s with
    | error e => rfl
    | ok q =>
      obtain ⟨o, s1⟩ := q
      simp only [ih]
      cases elabTops env r s1 with
      | error e => rfl
      | ok q1 => rfl

theorem elabFileM_embed (env : Env) (ts : List STop) (s : PState) :
    elabFileM env (embed ts) s = elabFile env ts s := by
  unfold elabFileM elabFile
  rw [elabTopsM_embed]
  cases elabTops env ts s with
  | error e => rfl
  | ok q => rfl

theorem elabTopsM_append (env : Env) (a b : List STopM) (s : PState) :
    elabTopsM env (a ++ b) s =
      match elabTopsM env a s with
      | .error e => .error e
      | .ok (t1, s1) =>
        match elabTopsM env b s1 with
        | .error e => .error e
        | .ok (t2, s2) => .ok (t1 ++ t2, s2) := by
  induction a generalizing s with
  | nil =>
    simp only [List.nil_append, elabTopsM]
    cases elabTopsM env b s with
    | error e => rfl
    | ok q => rfl
  | cons t r ih =>
    simp only [List.cons_append, elabTopsM]
    cases stepTopM env t s with
    | error e => rfl
    | ok q =>
      obtain ⟨o, s1⟩ := q
      simp only [ih]
      cases elabTopsM env r s1 with
      | error e => rfl
      | ok q1 =>
        obtain ⟨t1, s2⟩ := q1
        simp only
        cases elabTopsM env b s2 with
        | error e => rfl
        | ok q2 => simp

/-! ### fuel -/

def needRow : SRow → Nat
  | .plain cs _ vs _ _ => cs.length + vs.length + 1
  | .inline cs _ vs _ body _ => cs.length + vs.length + 1 + needL body

def needRows : List SRow → Nat
  | [] => 1
  | r :: rs => 1 + needRow r + needRows rs

def needEntry : SEntry → Nat
  | .plain .. => 0
  | .inline _ _ body _ => needL body
  | .table _ _ rows _ => needRows rows

def needEntries : List SEntry → Nat
  | [] => 1
  | e :: es => 1 + needEntry e + needEntries es

def needTopM : STopM → Nat
  | .base t => needTop t
  | .mapscripts _ _ _ _ es _ => needEntries es

theorem needRows_le : (rs : List SRow) → needRows rs ≤ 2 * (printRows rs).length + 1
  | [] => by simp [needRows, printRows]
  | .plain cs comma vs colon name :: rs => by
    have := needRows_le rs
    simp only [needRows, needRow, printRows, printRow, List.length_append, List.length_cons, List.length_nil]
    omega
  | .inline cs comma vs lb body rb :: rs => by
    have := needRows_le rs
    have := needL_le body
    simp only [needRows, needRow, printRows, printRow, printStmts, List.length_append, List.length_cons,
      List.length_nil]
    omega

theorem needEntries_le : (es : List SEntry) → needEntries es ≤ 2 * (printEntries es).length + 1
  | [] => by simp [needEntries, printEntries]
  | .plain ty colon name :: es => by
    have := needEntries_le es
    simp only [needEntries, needEntry, printEntries, printEntry, List.length_append, List.length_cons,
      List.length_nil]
    omega
  | .inline ty lb body rb :: es => by
    have := needEntries_le es
    have := needL_le body
    simp only [needEntries, needEntry, printEntries, printEntry, printStmts, List.length_append, List.length_cons,
      List.length_nil]
    omega
  | .table ty lbr rows rbr :: es => by
    have := needEntries_le es
    have := needRows_le rows
    simp only [needEntries, needEntry, printEntries, printEntry, List.length_append, List.length_cons,
      List.length_nil]
    omega

theorem needTopM_le (t : STopM) : needTopM t ≤ 2 * (printTopM t).length + 1 := by
  cases t with
  | base t => exact needTop_le t
  | mapscripts kw md name lb es rb =>
    have := needEntries_le es
    simp only [needTopM, printTopM, List.length_append, List.length_cons, List.length_nil]
    omega

end Pory.P2b
