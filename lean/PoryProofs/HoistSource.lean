import PoryProofs.HoistSourceImp
import PoryProofs.HoistModel
import PoryProofs.Properties.C06b
/-
HoistSource (helper module of PoryProofs/Properties/C06d.lean).

* the slots of the implicit data of ONE written command (`CmdM.imp`): every item carries the id handed to the
  command, the script name, and the index of the argument it was written in (`imp_items_slot`); the items written
  in argument `i` are those of the elements of that argument (`imp_items_at`);
* `last_patch_of_unique_slot`: if patches and items correspond position by position (`HoistModel.model_patches`)
  and exactly one item has the slot `(id, i)`, the last patch for `(id, i)` is the label of that item.
-/
namespace Pory.C06d
open Pory Pory.Parser Pory.P1c Pory.C10c Pory.C10b Pory.CmdGen Pory.TextValueParse Pory.C10e Pory.HoistModel Pory.C06b Pory.Emit

/-- All items of `d` were written at command `cid`, argument `pos`, in script `sn`. -/
def ownerOf : Item → String
  | .inl t => t.scriptName
  | .inr m => m.scriptName

def AtSlot (sn : String) (cid pos : Nat) (d : ImpData) : Prop :=
  ∀ it ∈ itemsOf d, slotOf it = (cid, pos) ∧ ownerOf it = sn

theorem mem_itemsOf_add (a b : ImpData) (it : Item) : it ∈ itemsOf (a.add b) ↔ it ∈ itemsOf a ∨ it ∈ itemsOf b := by
  cases it with
  | inl t => simp [itemsOf, ImpData.add]
  | inr m => simp [itemsOf, ImpData.add]

theorem itemsOf_empty : itemsOf {} = [] := rfl

theorem impOfM_atSlot (env : Env) (sn : String) (cid : Nat) (tok : Tok) (pos : Nat) (e : MElem) :
    AtSlot sn cid pos (impOfM env sn cid tok pos e) := by
  intro it hit
  cases e with
  | movesS mv lp items rp =>
    simp only [impOfM, movImp, itemsOf, List.map_nil, List.nil_append, List.map_cons, List.mem_singleton] at hit
    subst hit
    exact ⟨rfl, rfl⟩
  | base ie =>
    cases ie with
    | fmt fm lp sty text P rp =>
      simp only [impOfM, impOfI, fmtImp, itemsOf, List.map_nil, List.append_nil, List.map_cons,
        List.mem_singleton] at hit
      subst hit
      exact ⟨rfl, rfl⟩
    | base ae =>
      cases ae with
      | tok t => simp [impOfM, impOfI, impOf, itemsOf] at hit
      | str t =>
        simp only [impOfM, impOfI, impOf, itemsOf, List.map_nil, List.append_nil, List.map_cons,
          List.mem_singleton] at hit
        subst hit
        exact ⟨rfl, rfl⟩
      | tstr ty t =>
        simp only [impOfM, impOfI, impOf, itemsOf, List.map_nil, List.append_nil, List.map_cons,
          List.mem_singleton] at hit
        subst hit
        exact ⟨rfl, rfl⟩
      | moves mv lp items rp =>
        simp only [impOfM, impOfI, impOf, itemsOf, List.map_nil, List.nil_append, List.map_cons,
          List.mem_singleton] at hit
        subst hit
        exact ⟨rfl, rfl⟩

theorem mem_impArgM (env : Env) (sn : String) (cid : Nat) (tok : Tok) (pos : Nat) (a : List MElem) (it : Item) :
    it ∈ itemsOf (impArgM env sn cid tok pos a) ↔ ∃ e ∈ a, it ∈ itemsOf (impOfM env sn cid tok pos e) := by
  induction a with
  | nil => simp [impArgM, itemsOf_empty]
  | cons e r ih => simp only [impArgM, mem_itemsOf_add, ih, List.mem_cons, exists_eq_or_imp]

theorem mem_impArgsM (env : Env) (sn : String) (cid : Nat) (tok : Tok) (args : List (List MElem)) :
    ∀ (pos : Nat) (it : Item), it ∈ itemsOf (impArgsM env sn cid tok pos args) ↔
      ∃ j a, args[j]? = some a ∧ it ∈ itemsOf (impArgM env sn cid tok (pos + j) a) := by
  induction args with
  | nil => intro pos it; simp [impArgsM, itemsOf_empty]
  | cons a r ih =>
    intro pos it
    simp only [impArgsM, mem_itemsOf_add, ih]
    constructor
    · rintro (h | ⟨j, a', hj, h⟩)
      · exact ⟨0, a, rfl, h⟩
      · exact ⟨j + 1, a', by simpa using hj, by rw [← Nat.add_assoc, Nat.add_right_comm]; exact h⟩
    · rintro ⟨j, a', hj, h⟩
      cases j with
      | zero =>
        simp only [List.getElem?_cons_zero, Option.some.injEq] at hj
        subst hj
        exact Or.inl h
      | succ k =>
        refine Or.inr ⟨k, a', by simpa using hj, ?_⟩
        rw [Nat.add_assoc, Nat.add_comm 1 k]; exact h

/-- **The items of a written command**: an item of `w.imp env sn cid` was written in some element `e` of some
argument `j` of `w`; it carries the slot `(cid, j)` and the script name. -/
theorem imp_items (env : Env) (sn : String) (cid : Nat) (w : CmdM) (it : Item) :
    it ∈ itemsOf (w.imp env sn cid) ↔
      ∃ j a e, w.argList[j]? = some a ∧ e ∈ a ∧ it ∈ itemsOf (impOfM env sn cid w.name j e) := by
  unfold CmdM.imp
  rw [mem_impArgsM]
  constructor
  · rintro ⟨j, a, hj, h⟩
    rw [Nat.zero_add, mem_impArgM] at h
    obtain ⟨e, he, h⟩ := h
    exact ⟨j, a, e, hj, he, h⟩
  · rintro ⟨j, a, e, hj, he, h⟩
    exact ⟨j, a, hj, by rw [Nat.zero_add, mem_impArgM]; exact ⟨e, he, h⟩⟩

theorem imp_items_slot (env : Env) (sn : String) (cid : Nat) (w : CmdM) (it : Item)
    (h : it ∈ itemsOf (w.imp env sn cid)) :
    (slotOf it).1 = cid ∧ (slotOf it).2 < w.nargs ∧ ownerOf it = sn := by
  obtain ⟨j, a, e, hj, _, hit⟩ := (imp_items env sn cid w it).1 h
  obtain ⟨h1, h2⟩ := impOfM_atSlot env sn cid w.name j e it hit
  have hlt : j < w.argList.length := by
    rcases Nat.lt_or_ge j w.argList.length with h | h
    · exact h
    · rw [List.getElem?_eq_none h] at hj; cases hj
  rw [h1]
  exact ⟨rfl, hlt, h2⟩

/-- **The items written in argument `i`** of a written command, when the argument consists of the single element
`e`: exactly the items of `e`. -/
theorem imp_items_at (env : Env) (sn : String) (cid : Nat) (w : CmdM) (i : Nat) (e : MElem)
    (halone : w.argList[i]? = some [e]) (it : Item) :
    (it ∈ itemsOf (w.imp env sn cid) ∧ (slotOf it).2 = i) ↔ it ∈ itemsOf (impOfM env sn cid w.name i e) := by
  constructor
  · rintro ⟨h, hi⟩
    obtain ⟨j, a, e', hj, he', hit⟩ := (imp_items env sn cid w it).1 h
    have hs := (impOfM_atSlot env sn cid w.name j e' it hit).1
    rw [hs] at hi
    simp only at hi
    subst hi
    rw [halone] at hj
    cases hj
    rw [List.mem_singleton.1 he'] at hit
    exact hit
  · intro h
    refine ⟨(imp_items env sn cid w it).2 ⟨i, [e], e, halone, List.mem_singleton.2 rfl, h⟩, ?_⟩
    rw [(impOfM_atSlot env sn cid w.name i e it h).1]

/-! ### the last patch of a slot that is written once -/

theorem lastPatch_mem (patches : List ((Nat × Nat) × String)) (id i : Nat) (label : String)
    (h : lastPatch patches id i = some label) : ((id, i), label) ∈ patches := by
  unfold lastPatch at h
  cases hg : ((patches.filter fun p => p.1.1 == id).filter fun p => p.1.2 == i).getLast? with
  | none => rw [hg] at h; cases h
  | some q =>
    rw [hg] at h
    simp only [Option.map_some, Option.some.injEq] at h
    have hm := List.mem_of_getLast? hg
    simp only [List.mem_filter, beq_iff_eq] at hm
    obtain ⟨⟨hq, h1⟩, h2⟩ := hm
    obtain ⟨⟨a, b⟩, l⟩ := q
    simp only at h1 h2 h
    subst h1 h2 h
    exact hq

theorem lastPatch_some_of_mem (patches : List ((Nat × Nat) × String)) (id i : Nat) (q : (Nat × Nat) × String)
    (hq : q ∈ patches) (hs : q.1 = (id, i)) : ∃ label, lastPatch patches id i = some label := by
  unfold lastPatch
  cases hg : ((patches.filter fun p => p.1.1 == id).filter fun p => p.1.2 == i).getLast? with
  | some q' => exact ⟨q'.2, rfl⟩
  | none =>
    rw [List.getLast?_eq_none_iff] at hg
    have : q ∈ ((patches.filter fun p => p.1.1 == id).filter fun p => p.1.2 == i) := by
      simp only [List.mem_filter, beq_iff_eq]
      rw [hs]
      exact ⟨⟨hq, rfl⟩, rfl⟩
    rw [hg] at this
    cases this

/-- **last_patch_of_unique_slot**: patches and items correspond position by position; the item `it` is the only
one written at its slot: then the last patch for that slot exists and carries a label with `D it label`. -/
theorem last_patch_of_unique_slot {D : Item → String → Prop} (patches : List ((Nat × Nat) × String))
    (items : List Item) (hlen : patches.length = items.length)
    (hpt : ∀ (k : Nat) (q : (Nat × Nat) × String) (it : Item), patches[k]? = some q → items[k]? = some it →
      q.1 = slotOf it ∧ D it q.2)
    (it : Item) (hit : it ∈ items) (huniq : ∀ it' ∈ items, slotOf it' = slotOf it → it' = it) :
    ∃ label, lastPatch patches (slotOf it).1 (slotOf it).2 = some label ∧ D it label := by
  obtain ⟨k, hk⟩ := List.getElem?_of_mem hit
  have hklt : k < patches.length := by
    rcases Nat.lt_or_ge k items.length with h | h
    · omega
    · rw [List.getElem?_eq_none h] at hk; cases hk
  have hq : patches[k]? = some patches[k] := List.getElem?_eq_getElem hklt
  obtain ⟨hs, _⟩ := hpt k _ it hq hk
  obtain ⟨label, hl⟩ := lastPatch_some_of_mem patches (slotOf it).1 (slotOf it).2 patches[k]
    (List.getElem_mem hklt) hs
  refine ⟨label, hl, ?_⟩
  have hm := lastPatch_mem _ _ _ _ hl
  obtain ⟨k', hk'⟩ := List.getElem?_of_mem hm
  have hk'lt : k' < items.length := by
    rcases Nat.lt_or_ge k' patches.length with h | h
    · omega
    · rw [List.getElem?_eq_none h] at hk'; cases hk'
  have hi' : items[k']? = some items[k'] := List.getElem?_eq_getElem hk'lt
  obtain ⟨hs', hd⟩ := hpt k' _ _ hk' hi'
  have : items[k'] = it := huniq _ (List.getElem_mem hk'lt) hs'.symm
  rw [this] at hd
  exact hd

end Pory.C06d
