import PoryProofs.SourceCensus
/-
Source census, command ids (helper module of PoryProofs/Properties/C10e.lean): the command ids attached to the
written commands by `surfL` … are STRICTLY INCREASING in source order and lie between the counter at entry and
the counter at exit — so no written command is listed twice and the hoisting patches (keyed by command id) of
different written commands never collide.
-/
namespace Pory.C10e
open Pory Pory.Parser Pory.P1c Pory.BoolGen Pory.CmdGen Pory.LeafGen
open Pory.C14b (swVal)

/-- the ids of `L` increase strictly and lie in `[lo, hi)`; `lo ≤ hi` -/
def Rng (L : List SCmd) (lo hi : Nat) : Prop :=
  lo ≤ hi ∧ (L.map (·.2)).Pairwise (· < ·) ∧ ∀ p ∈ L, lo ≤ p.2 ∧ p.2 < hi

theorem Rng.nil {lo hi : Nat} (h : lo ≤ hi) : Rng [] lo hi :=
  ⟨h, List.Pairwise.nil, fun _ hp => absurd hp List.not_mem_nil⟩

theorem Rng.single (c : CmdM) (id : Nat) : Rng [(c, id)] id (id + 1) := by
  refine ⟨Nat.le_succ _, by simp, ?_⟩
  intro p hp
  rw [List.mem_singleton.1 hp]
  exact ⟨Nat.le_refl _, Nat.lt_succ_self _⟩

theorem Rng.append {A B : List SCmd} {a b c : Nat} (h1 : Rng A a b) (h2 : Rng B b c) : Rng (A ++ B) a c := by
  obtain ⟨l1, p1, m1⟩ := h1
  obtain ⟨l2, p2, m2⟩ := h2
  refine ⟨Nat.le_trans l1 l2, ?_, ?_⟩
  · rw [List.map_append, List.pairwise_append]
    refine ⟨p1, p2, ?_⟩
    intro x hx y hy
    obtain ⟨p, hp, rfl⟩ := List.mem_map.1 hx
    obtain ⟨q, hq, rfl⟩ := List.mem_map.1 hy
    exact Nat.lt_of_lt_of_le (m1 p hp).2 (m2 q hq).1
  · intro p hp
    rcases List.mem_append.1 hp with h | h
    · exact ⟨(m1 p h).1, Nat.lt_of_lt_of_le (m1 p h).2 l2⟩
    · exact ⟨Nat.le_trans l1 (m2 p h).1, (m2 p h).2⟩

theorem Rng.mono {L : List SCmd} {a b a' b' : Nat} (h : Rng L a b) (ha : a' ≤ a) (hb : b ≤ b') : Rng L a' b' :=
  ⟨Nat.le_trans ha (Nat.le_trans h.1 hb), h.2.1,
   fun p hp => ⟨Nat.le_trans ha (h.2.2 p hp).1, Nat.lt_of_lt_of_le (h.2.2 p hp).2 hb⟩⟩

theorem Rng.cons {c : CmdM} {id hi : Nat} {A : List SCmd} (h : Rng A (id + 1) hi) : Rng ((c, id) :: A) id hi :=
  Rng.append (Rng.single c id) h

theorem leafI_rng (lf : CLeaf) (id : Nat) : Rng (leafI lf id).1 id (leafI lf id).2 := by
  cases lf with
  | plain l => exact Rng.nil (Nat.le_refl _)
  | kw l => exact Rng.nil (Nat.le_refl _)
  | auto fm c => exact Rng.single c id
  | autoV c o v => exact Rng.single c id

mutual
theorem orI_rng : (c : GOr CLeaf) → ∀ id : Nat, Rng (orI c id).1 id (orI c id).2
  | .one a, id => by simp only [orI]; exact andI_rng a id
  | .more a _ r, id => by simp only [orI]; exact (andI_rng a id).append (orI_rng r _)
theorem andI_rng : (c : GAnd CLeaf) → ∀ id : Nat, Rng (andI c id).1 id (andI c id).2
  | .one u, id => by simp only [andI]; exact unI_rng u id
  | .more u _ r, id => by simp only [andI]; exact (unI_rng u id).append (andI_rng r _)
theorem unI_rng : (c : GUn CLeaf) → ∀ id : Nat, Rng (unI c id).1 id (unI c id).2
  | .leaf lf, id => by simp only [unI]; exact leafI_rng lf id
  | .paren _ _ _ _ e, id => by simp only [unI]; exact orI_rng e id
end

theorem lookup_mem' {α : Type} {T : List (String × α)} {k : String} {r : α} (h : T.lookup k = some r) :
    ∃ k', (k', r) ∈ T := by
  induction T with
  | nil => cases h
  | cons e t ih =>
    obtain ⟨k1, v1⟩ := e
    simp only [List.lookup_cons] at h
    cases hk : (k == k1) with
    | true => rw [hk] at h; cases h; exact ⟨k1, List.mem_cons_self⟩
    | false =>
      rw [hk] at h
      obtain ⟨k', hk'⟩ := ih h
      exact ⟨k', List.mem_cons_of_mem _ hk'⟩

theorem selectCase_mem' {α : Type} {env : Env} {T : List (String × α)} {v : String} {r : α}
    (h : selectCase env T v = some r) : ∃ k', (k', r) ∈ T := by
  unfold selectCase at h
  split at h
  · rename_i x hx
    cases h
    exact lookup_mem' hx
  · exact lookup_mem' h

/-- every entry of a case table has its ids in `[lo, hi)` -/
def TR (T : List (String × List SCmd)) (lo hi : Nat) : Prop := ∀ e ∈ T, Rng e.2 lo hi

theorem TR.push {T : List (String × List SCmd)} {lo cid hi : Nat} (h : TR T lo cid) (hlo : lo ≤ cid)
    (k : String) {L : List SCmd} (hL : Rng L cid hi) : TR ((k, L) :: T) lo hi := by
  intro e he
  rcases List.mem_cons.1 he with h1 | h1
  · rw [h1]; exact hL.mono hlo (Nat.le_refl _)
  · exact (h e h1).mono (Nat.le_refl _) hL.1

section
variable (env : Env)

mutual
theorem surfS_rng : (x : SStmt) → ∀ cid : Nat, Rng (surfS env x cid).1 cid (surfS env x cid).2
  | .cmd c, cid => by simp only [surfS]; exact Rng.single c cid
  | .label .., cid => by simp only [surfS]; exact Rng.nil (Nat.le_refl _)
  | .labelS .., cid => by simp only [surfS]; exact Rng.nil (Nat.le_refl _)
  | .ite _ _ c _ _ body _ elifs els, cid => by
    simp only [surfS]
    exact (orI_rng c cid).append ((surfL_rng body _).append ((surfElifs_rng elifs _).append (surfElse_rng els _)))
  | .while_ _ _ c _ _ body _, cid => by
    simp only [surfS]
    exact (orI_rng c cid).append (surfL_rng body _)
  | .whileInf _ _ body _, cid => by simp only [surfS]; exact surfL_rng body cid
  | .doWhile _ _ body _ _ _ c _, cid => by
    simp only [surfS]
    exact (surfL_rng body cid).append (orI_rng c _)
  | .brk _, cid => by simp only [surfS]; exact Rng.nil (Nat.le_refl _)
  | .cont _, cid => by simp only [surfS]; exact Rng.nil (Nat.le_refl _)
  | .switch_ _ _ _ _ _ _ _ _ cases _, cid => by simp only [surfS]; exact surfCases_rng cases cid
  | .switchA _ _ c _ _ cases _, cid => by
    simp only [surfS]
    exact Rng.cons (surfCases_rng cases _)
  | .pory _ _ x _ _ cases _, cid => by
    simp only [surfS]
    obtain ⟨h1, h2⟩ := surfPCases_rng cases [] cid cid (fun _ he => absurd he List.not_mem_nil) (Nat.le_refl _)
    cases hs : selectCase env (surfPCases env cases [] cid).1 (swVal env x.lit) with
    | none => exact Rng.nil h2
    | some L =>
      obtain ⟨k, hk⟩ := selectCase_mem' hs
      exact h1 _ hk
theorem surfL_rng : (b : List SStmt) → ∀ cid : Nat, Rng (surfL env b cid).1 cid (surfL env b cid).2
  | [], cid => by simp only [surfL]; exact Rng.nil (Nat.le_refl _)
  | x :: r, cid => by simp only [surfL]; exact (surfS_rng x cid).append (surfL_rng r _)
theorem surfElifs_rng : (es : List SElif) → ∀ cid : Nat, Rng (surfElifs env es cid).1 cid (surfElifs env es cid).2
  | [], cid => by simp only [surfElifs]; exact Rng.nil (Nat.le_refl _)
  | .mk _ _ c _ _ body _ :: r, cid => by
    simp only [surfElifs]
    exact (orI_rng c cid).append ((surfL_rng body _).append (surfElifs_rng r _))
theorem surfElse_rng : (e : SElse) → ∀ cid : Nat, Rng (surfElse env e cid).1 cid (surfElse env e cid).2
  | .none, cid => by simp only [surfElse]; exact Rng.nil (Nat.le_refl _)
  | .some _ _ body _, cid => by simp only [surfElse]; exact surfL_rng body cid
theorem surfCases_rng : (cs : List SCase) → ∀ cid : Nat, Rng (surfCases env cs cid).1 cid (surfCases env cs cid).2
  | [], cid => by simp only [surfCases]; exact Rng.nil (Nat.le_refl _)
  | .case _ _ _ body :: r, cid => by
    simp only [surfCases]; exact (surfL_rng body cid).append (surfCases_rng r _)
  | .dflt _ _ body :: r, cid => by
    simp only [surfCases]; exact (surfL_rng body cid).append (surfCases_rng r _)
theorem surfPCases_rng : (cs : List SPCase) → ∀ (acc : List (String × List SCmd)) (lo cid : Nat),
    TR acc lo cid → lo ≤ cid →
    TR (surfPCases env cs acc cid).1 lo (surfPCases env cs acc cid).2 ∧ lo ≤ (surfPCases env cs acc cid).2
  | [], acc, lo, cid, h, hlo => by simp only [surfPCases]; exact ⟨h, hlo⟩
  | .colon key _ x :: r, acc, lo, cid, h, hlo => by
    simp only [surfPCases]
    have hx := surfS_rng x cid
    exact surfPCases_rng r _ lo _ (h.push hlo key.lit hx) (Nat.le_trans hlo hx.1)
  | .colon0 key _ :: r, acc, lo, cid, h, hlo => by
    simp only [surfPCases]
    exact surfPCases_rng r _ lo _ (h.push hlo key.lit (Rng.nil (Nat.le_refl _))) hlo
  | .brace key _ body _ :: r, acc, lo, cid, h, hlo => by
    simp only [surfPCases]
    have hx := surfL_rng body cid
    exact surfPCases_rng r _ lo _ (h.push hlo key.lit hx) (Nat.le_trans hlo hx.1)
end

end

/-! ### the written command forms without ids: a plain recursion over the surface syntax -/

def leafW : CLeaf → List CmdM
  | .auto _ c => [c]
  | .autoV c _ _ => [c]
  | _ => []

mutual
def orW : GOr CLeaf → List CmdM
  | .one a => andW a
  | .more a _ r => andW a ++ orW r
def andW : GAnd CLeaf → List CmdM
  | .one u => unW u
  | .more u _ r => unW u ++ andW r
def unW : GUn CLeaf → List CmdM
  | .leaf lf => leafW lf
  | .paren _ _ _ _ e => orW e
end

mutual
def writtenS (env : Env) : SStmt → List CmdM
  | .cmd c => [c]
  | .label .. => []
  | .labelS .. => []
  | .ite _ _ c _ _ body _ elifs els => orW c ++ (writtenL env body ++ (writtenElifs env elifs ++ writtenElse env els))
  | .while_ _ _ c _ _ body _ => orW c ++ writtenL env body
  | .whileInf _ _ body _ => writtenL env body
  | .doWhile _ _ body _ _ _ c _ => writtenL env body ++ orW c
  | .brk _ => []
  | .cont _ => []
  | .switch_ _ _ _ _ _ _ _ _ cases _ => writtenCases env cases
  | .switchA _ _ c _ _ cases _ => c :: writtenCases env cases
  | .pory _ _ x _ _ cases _ => (selectCase env (writtenPCases env cases []) (swVal env x.lit)).getD []
def writtenL (env : Env) : List SStmt → List CmdM
  | [] => []
  | x :: r => writtenS env x ++ writtenL env r
def writtenElifs (env : Env) : List SElif → List CmdM
  | [] => []
  | .mk _ _ c _ _ body _ :: r => orW c ++ (writtenL env body ++ writtenElifs env r)
def writtenElse (env : Env) : SElse → List CmdM
  | .none => []
  | .some _ _ body _ => writtenL env body
def writtenCases (env : Env) : List SCase → List CmdM
  | [] => []
  | .case _ _ _ body :: r => writtenL env body ++ writtenCases env r
  | .dflt _ _ body :: r => writtenL env body ++ writtenCases env r
/-- the case table of a statement poryswitch, newest first -/
def writtenPCases (env : Env) : List SPCase → List (String × List CmdM) → List (String × List CmdM)
  | [], acc => acc
  | .colon key _ x :: r, acc => writtenPCases env r ((key.lit, writtenS env x) :: acc)
  | .colon0 key _ :: r, acc => writtenPCases env r ((key.lit, []) :: acc)
  | .brace key _ body _ :: r, acc => writtenPCases env r ((key.lit, writtenL env body) :: acc)
end

/-- forget the ids -/
def fst (L : List SCmd) : List CmdM := L.map (·.1)
theorem fst_nil : fst [] = [] := rfl
theorem fst_cons (p : SCmd) (L : List SCmd) : fst (p :: L) = p.1 :: fst L := rfl
theorem fst_append (A B : List SCmd) : fst (A ++ B) = fst A ++ fst B := by unfold fst; rw [List.map_append]
/-- … in a case table -/
def fstT (T : List (String × List SCmd)) : List (String × List CmdM) := T.map fun e => (e.1, fst e.2)

theorem lookup_fstT (T : List (String × List SCmd)) (k : String) : (fstT T).lookup k = (T.lookup k).map fst := by
  induction T with
  | nil => rfl
  | cons e t ih =>
    obtain ⟨k1, v1⟩ := e
    simp only [fstT, List.map_cons, List.lookup_cons] at ih ⊢
    cases (k == k1) with
    | true => rfl
    | false => exact ih

theorem select_fstT (env : Env) (T : List (String × List SCmd)) (v : String) :
    (selectCase env (fstT T) v).getD [] = fst ((selectCase env T v).getD []) := by
  unfold selectCase
  rw [lookup_fstT, lookup_fstT]
  cases T.lookup v with
  | some x => rfl
  | none =>
    cases T.lookup "_" with
    | some y => rfl
    | none => rfl

theorem leafI_fst (lf : CLeaf) (id : Nat) : fst (leafI lf id).1 = leafW lf := by
  cases lf <;> rfl

mutual
theorem orI_fst : (c : GOr CLeaf) → ∀ id : Nat, fst (orI c id).1 = orW c
  | .one a, id => by simp only [orI, orW]; exact andI_fst a id
  | .more a _ r, id => by simp only [orI, orW, fst_append]; rw [andI_fst a id, orI_fst r _]
theorem andI_fst : (c : GAnd CLeaf) → ∀ id : Nat, fst (andI c id).1 = andW c
  | .one u, id => by simp only [andI, andW]; exact unI_fst u id
  | .more u _ r, id => by simp only [andI, andW, fst_append]; rw [unI_fst u id, andI_fst r _]
theorem unI_fst : (c : GUn CLeaf) → ∀ id : Nat, fst (unI c id).1 = unW c
  | .leaf lf, id => by simp only [unI, unW]; exact leafI_fst lf id
  | .paren _ _ _ _ e, id => by simp only [unI, unW]; exact orI_fst e id
end

section
variable (env : Env)

mutual
theorem surfS_fst : (x : SStmt) → ∀ cid : Nat, fst (surfS env x cid).1 = writtenS env x
  | .cmd c, cid => by simp only [surfS, writtenS, fst_cons, fst_nil]
  | .label .., cid => by simp only [surfS, writtenS, fst_nil]
  | .labelS .., cid => by simp only [surfS, writtenS, fst_nil]
  | .ite _ _ c _ _ body _ elifs els, cid => by
    simp only [surfS, writtenS, fst_append]
    rw [orI_fst c cid, surfL_fst body _, surfElifs_fst elifs _, surfElse_fst els _]
  | .while_ _ _ c _ _ body _, cid => by
    simp only [surfS, writtenS, fst_append]
    rw [orI_fst c cid, surfL_fst body _]
  | .whileInf _ _ body _, cid => by simp only [surfS, writtenS]; exact surfL_fst body cid
  | .doWhile _ _ body _ _ _ c _, cid => by
    simp only [surfS, writtenS, fst_append]
    rw [surfL_fst body cid, orI_fst c _]
  | .brk _, cid => by simp only [surfS, writtenS, fst_nil]
  | .cont _, cid => by simp only [surfS, writtenS, fst_nil]
  | .switch_ _ _ _ _ _ _ _ _ cases _, cid => by simp only [surfS, writtenS]; exact surfCases_fst cases cid
  | .switchA _ _ c _ _ cases _, cid => by
    simp only [surfS, writtenS, fst_cons]
    rw [surfCases_fst cases _]
  | .pory _ _ x _ _ cases _, cid => by
    simp only [surfS, writtenS]
    rw [← select_fstT, surfPCases_fst cases [] cid]
    rfl
theorem surfL_fst : (b : List SStmt) → ∀ cid : Nat, fst (surfL env b cid).1 = writtenL env b
  | [], cid => by simp only [surfL, writtenL, fst_nil]
  | x :: r, cid => by
    simp only [surfL, writtenL, fst_append]
    rw [surfS_fst x cid, surfL_fst r _]
theorem surfElifs_fst : (es : List SElif) → ∀ cid : Nat, fst (surfElifs env es cid).1 = writtenElifs env es
  | [], cid => by simp only [surfElifs, writtenElifs, fst_nil]
  | .mk _ _ c _ _ body _ :: r, cid => by
    simp only [surfElifs, writtenElifs, fst_append]
    rw [orI_fst c cid, surfL_fst body _, surfElifs_fst r _]
theorem surfElse_fst : (e : SElse) → ∀ cid : Nat, fst (surfElse env e cid).1 = writtenElse env e
  | .none, cid => by simp only [surfElse, writtenElse, fst_nil]
  | .some _ _ body _, cid => by simp only [surfElse, writtenElse]; exact surfL_fst body cid
theorem surfCases_fst : (cs : List SCase) → ∀ cid : Nat, fst (surfCases env cs cid).1 = writtenCases env cs
  | [], cid => by simp only [surfCases, writtenCases, fst_nil]
  | .case _ _ _ body :: r, cid => by
    simp only [surfCases, writtenCases, fst_append]
    rw [surfL_fst body cid, surfCases_fst r _]
  | .dflt _ _ body :: r, cid => by
    simp only [surfCases, writtenCases, fst_append]
    rw [surfL_fst body cid, surfCases_fst r _]
theorem surfPCases_fst : (cs : List SPCase) → ∀ (acc : List (String × List SCmd)) (cid : Nat),
    fstT (surfPCases env cs acc cid).1 = writtenPCases env cs (fstT acc)
  | [], acc, cid => by simp only [surfPCases, writtenPCases]
  | .colon key _ x :: r, acc, cid => by
    simp only [surfPCases, writtenPCases]
    rw [surfPCases_fst r _ _, ← surfS_fst x cid]
    rfl
  | .colon0 key _ :: r, acc, cid => by
    simp only [surfPCases, writtenPCases]
    rw [surfPCases_fst r _ _]
    rfl
  | .brace key _ body _ :: r, acc, cid => by
    simp only [surfPCases, writtenPCases]
    rw [surfPCases_fst r _ _, ← surfL_fst body cid]
    rfl
end

end

end Pory.C10e
