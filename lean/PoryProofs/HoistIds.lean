import PoryProofs.HoistFrame
/-
Command ids and argument slots of the implicit data (helper module of C06c, part 4).

* `TFrame m` : `m` changes only the token window — in particular not `nextCmdId`; proved for every parser
  function below the statement level except `parseCommandStatement` and its callers (the proofs are those
  of ParserFrames*.lean with the stronger postcondition).
* `parseCommandStatement_slots` : a command statement takes the id `nextCmdId`, increments the counter by
  one, and every inline item it collects carries that id, an argument index that exists in the command
  (`argPos < args.length`) and the script name.
(The id-range invariant of the 13 statement functions is in HoistIds2.lean.)
-/
namespace Pory.Parser
open Pory

/-- `m` changes only the token window (in particular not `nextCmdId`). -/
def TFrame {α} (m : PM α) : Prop := ∀ s, wp m s (fun _ s' => ∃ l, s' = upd s l s.nextCmdId)

theorem TFrame.wp_iff {α} {m : PM α} (hm : TFrame m) (s : PState) (Q : α → PState → Prop) :
    wp m s Q ↔ ∀ a l, m.run s = .ok (a, upd s l s.nextCmdId) → Q a (upd s l s.nextCmdId) := by
  constructor
  · intro h a l hr; exact h a _ hr
  · intro h a s' hr
    obtain ⟨l, rfl⟩ := hm s a s' hr
    exact h a l hr

theorem tframe_refl (s : PState) : (∃ l, s = upd s l s.nextCmdId) ↔ True :=
  iff_true_intro ⟨s.toks, rfl⟩
theorem tframe_upd (s : PState) (l1 : List Tok) : (∃ l, upd s l1 s.nextCmdId = upd s l s.nextCmdId) ↔ True :=
  iff_true_intro ⟨l1, rfl⟩

theorem TFrame.frame {α} {m : PM α} (h : TFrame m) : Frame m := by
  intro s a s' hr
  obtain ⟨l, rfl⟩ := h s a s' hr
  exact ⟨l, _, rfl⟩

syntax "tsimp" (" [" Lean.Parser.Tactic.simpLemma,* "]")? : tactic
macro_rules
  | `(tactic| tsimp) => `(tactic| wpsimp [tframe_refl, tframe_upd])
  | `(tactic| tsimp [$ts,*]) => `(tactic| wpsimp [tframe_refl, tframe_upd, $ts,*])

syntax "tfin" (" [" Lean.Parser.Tactic.simpLemma,* "]")? : tactic
macro_rules
  | `(tactic| tfin) => `(tactic| repeat' (first | trivial | tsimp | (intros; split)))
  | `(tactic| tfin [$ts,*]) => `(tactic| repeat' (first | trivial | tsimp [$ts,*] | (intros; split)))

theorem tframe_parsePoryswitchHeader (env : Env) : TFrame (parsePoryswitchHeader env) := by
  intro s
  unfold parsePoryswitchHeader
  tsimp

theorem tframe_parseScopeModifier (d : TT) : TFrame (parseScopeModifier d) := by
  intro s
  unfold parseScopeModifier
  tsimp

theorem tframe_formatNamedParams : ∀ (n : Nat) (fp : FmtParams), TFrame (formatNamedParams n fp) := by
  intro n
  induction n with
  | zero => intro fp s; rw [formatNamedParams]; tsimp
  | succ n ih =>
    intro fp s
    rw [formatNamedParams]
    tsimp [(ih _).wp_iff]

theorem tframe_parseFormatStringOperator (env : Env) (n : Nat) : TFrame (parseFormatStringOperator env n) := by
  intro s
  unfold parseFormatStringOperator
  tsimp [(tframe_formatNamedParams _ _).wp_iff, wp_fmtMatch]

theorem tframe_parseTextValue (env : Env) (n : Nat) : TFrame (parseTextValue env n) := by
  intro s
  unfold parseTextValue
  tsimp [(tframe_parseFormatStringOperator _ _).wp_iff]

theorem tframe_listBlock (env : Env) : ∀ n : Nat,
    (∀ kind am acc, TFrame (parseListValue env kind am n acc)) ∧
    (∀ kind, TFrame (parsePoryswitchListStatement env kind n)) ∧
    (∀ kind tok acc, TFrame (parsePoryswitchListCases env kind tok n acc)) := by
  intro n
  induction n with
  | zero =>
    refine ⟨?_, ?_, ?_⟩
    · intro kind am acc s; rw [parseListValue]; tsimp
    · intro kind s; rw [parsePoryswitchListStatement]; tsimp
    · intro kind tok acc s; rw [parsePoryswitchListCases]; tsimp
  | succ n ih =>
    obtain ⟨ih1, ih2, ih3⟩ := ih
    refine ⟨?_, ?_, ?_⟩
    · intro kind am acc s
      rw [parseListValue]
      cases kind <;>
        tsimp [(ih1 _ _ _).wp_iff, (ih2 _).wp_iff] <;>
        (repeat' split)
      all_goals (try tsimp [(ih1 _ _ _).wp_iff, (ih2 _).wp_iff])
      all_goals ((repeat' split) <;> first | trivial | tsimp [(ih1 _ _ _).wp_iff, (ih2 _).wp_iff])
    · intro kind s
      rw [parsePoryswitchListStatement]
      tsimp [(ih3 _ _ _).wp_iff, (tframe_parsePoryswitchHeader _).wp_iff]
      intros
      (repeat' split) <;> tsimp
    · intro kind tok acc s
      rw [parsePoryswitchListCases]
      tsimp [(ih1 _ _ _).wp_iff, (ih3 _ _ _).wp_iff]

theorem tframe_parseListValue (env : Env) (kind : ListKind) (am : Bool) (n : Nat) (acc : List Tok) :
    TFrame (parseListValue env kind am n acc) := (tframe_listBlock env n).1 kind am acc

theorem tframe_parseMovesOperator (env : Env) (n : Nat) : TFrame (parseMovesOperator env n) := by
  intro s
  unfold parseMovesOperator
  tsimp [(tframe_parseListValue _ _ _ _ _).wp_iff]

theorem tframe_peekTokenIsAutoVar (env : Env) : TFrame (peekTokenIsAutoVar env) := by
  intro s
  unfold peekTokenIsAutoVar
  tsimp

theorem tframe_collectUntil (stop : Tok → Bool) (onEOF : PFail) :
    ∀ (n : Nat) (parts : List String), TFrame (collectUntil stop onEOF n parts) := by
  intro n
  induction n with
  | zero => intro parts s; rw [collectUntil]; tsimp
  | succ n ih => intro parts s; rw [collectUntil]; tsimp [(ih _).wp_iff]

theorem tframe_valueLoop (vt : Tok) :
    ∀ (n k : Nat) (parts : List String), TFrame (valueLoop vt n k parts) := by
  intro n
  induction n with
  | zero => intro k parts s; rw [valueLoop]; tsimp
  | succ n ih => intro k parts s; rw [valueLoop]; tsimp [(ih _ _).wp_iff]

theorem tframe_collectUntilRange (st : Tok) :
    ∀ (n : Nat) (parts : List String), TFrame (parseConditionVarOperator.collectUntilRange st n parts) := by
  intro n
  induction n with
  | zero => intro parts s; rw [parseConditionVarOperator.collectUntilRange]; tsimp
  | succ n ih => intro parts s; rw [parseConditionVarOperator.collectUntilRange]; tsimp [(ih _).wp_iff]

theorem tframe_parseConditionVarOperator (e : OpExpr) (n : Nat) : TFrame (parseConditionVarOperator e n) := by
  intro s
  unfold parseConditionVarOperator
  tsimp [(tframe_valueLoop _ _ _ _).wp_iff, (tframe_collectUntilRange _ _ _).wp_iff]

theorem tframe_parseConditionFlagLikeOperator (e : OpExpr) (nm : String) :
    TFrame (parseConditionFlagLikeOperator e nm) := by
  intro s
  unfold parseConditionFlagLikeOperator
  tsimp

theorem tframe_tryParseLabelStatement : TFrame tryParseLabelStatement := by
  intro s
  unfold tryParseLabelStatement
  tsimp

theorem tframe_switchOperandLoop (ot : Tok) :
    ∀ (n : Nat) (parts : List String), TFrame (parseSwitchStatement.switchOperandLoop ot n parts) := by
  intro n
  induction n with
  | zero => intro parts s; rw [parseSwitchStatement.switchOperandLoop]; tsimp
  | succ n ih => intro parts s; rw [parseSwitchStatement.switchOperandLoop]; tsimp [(ih _).wp_iff]

theorem tframe_tableCollect (stop : Tok → Bool) (onEOF : PFail) :
    ∀ (n : Nat) (acc : String), TFrame (tableCollect stop onEOF n acc) := by
  intro n
  induction n with
  | zero => intro acc s; rw [tableCollect]; tsimp
  | succ n ih => intro acc s; rw [tableCollect]; tsimp [(ih _).wp_iff]

theorem tframe_constLoop : ∀ (n : Nat) (acc : String), TFrame (constLoop n acc) := by
  intro n
  induction n with
  | zero => intro acc s; rw [constLoop]; tsimp
  | succ n ih => intro acc s; rw [constLoop]; tsimp [(ih _).wp_iff]

theorem tframe_poryswitchTextCases (env : Env) (tok : Tok) :
    ∀ (n : Nat) (acc : List (String × String × String)), TFrame (poryswitchTextCases env tok n acc) := by
  intro n
  induction n with
  | zero => intro acc s; rw [poryswitchTextCases]; tsimp
  | succ n ih =>
    intro acc s
    rw [poryswitchTextCases]
    tsimp [(ih _).wp_iff, (tframe_parseTextValue _ _).wp_iff]

theorem tframe_parsePoryswitchTextStatement (env : Env) (n : Nat) :
    TFrame (parsePoryswitchTextStatement env n) := by
  intro s
  unfold parsePoryswitchTextStatement
  tsimp [(tframe_parsePoryswitchHeader _).wp_iff, (tframe_poryswitchTextCases _ _ _ _).wp_iff]
  tfin

theorem tframe_parseRawStatement : TFrame parseRawStatement := by
  intro s; unfold parseRawStatement; tsimp

theorem tframe_parseMovementStatement (env : Env) (n : Nat) : TFrame (parseMovementStatement env n) := by
  intro s
  unfold parseMovementStatement
  tsimp [(tframe_parseScopeModifier _).wp_iff, (tframe_parseListValue _ _ _ _ _).wp_iff]

theorem tframe_mapM_tryReplace : ∀ (l : List Tok),
    TFrame (l.mapM fun t => tryReplaceWithConstant t.lit) := by
  intro l
  induction l with
  | nil => intro s; simp only [List.mapM_nil]; tsimp
  | cons x r ih => intro s; simp only [List.mapM_cons]; tsimp [(ih).wp_iff]

theorem tframe_parseMartStatement (env : Env) (n : Nat) : TFrame (parseMartStatement env n) := by
  intro s
  unfold parseMartStatement
  tsimp [(tframe_parseScopeModifier _).wp_iff, (tframe_parseListValue _ _ _ _ _).wp_iff,
    (tframe_mapM_tryReplace _).wp_iff]

/-! ### the items of one command statement -/

/-- The number of arguments the command under construction will have at least. -/
def cap (a : CmdAcc) : Nat := a.args.length + (if a.argParts.length > 0 then 1 else 0)

/-- All items carry the command id `id`, an argument index below `bound`, and the owner `sn`. -/
def ItemsOf (id : Nat) (sn : String) (bound : Nat) (d : ImpData) : Prop :=
  (∀ t ∈ d.texts, t.cmdId = id ∧ t.argPos < bound ∧ t.scriptName = sn) ∧
  (∀ m ∈ d.movements, m.cmdId = id ∧ m.argPos < bound ∧ m.scriptName = sn)

theorem ItemsOf.mono {id sn b b' d} (h : ItemsOf id sn b d) (hb : b ≤ b') : ItemsOf id sn b' d :=
  ⟨fun t ht => ⟨(h.1 t ht).1, Nat.lt_of_lt_of_le (h.1 t ht).2.1 hb, (h.1 t ht).2.2⟩,
   fun m hm => ⟨(h.2 m hm).1, Nat.lt_of_lt_of_le (h.2 m hm).2.1 hb, (h.2 m hm).2.2⟩⟩

theorem ite_prop_intro {c : Prop} [Decidable c] {p q : Prop} (hp : c → p) (hq : ¬ c → q) :
    (if c then p else q) := by
  split
  · exact hp ‹_›
  · exact hq ‹_›

theorem itemsOf_text {id sn b} {d : ImpData} (h : ItemsOf id sn b d) (t : ImpText)
    (ht : t.cmdId = id ∧ t.argPos < b ∧ t.scriptName = sn) :
    ItemsOf id sn b { texts := d.texts ++ [t], movements := d.movements } := by
  refine ⟨?_, h.2⟩
  intro x hx
  rcases List.mem_append.1 hx with hx | hx
  · exact h.1 x hx
  · rw [List.mem_singleton] at hx; subst hx; exact ht

theorem itemsOf_move {id sn b} {d : ImpData} (h : ItemsOf id sn b d) (m : ImpMovement)
    (hm : m.cmdId = id ∧ m.argPos < b ∧ m.scriptName = sn) :
    ItemsOf id sn b { texts := d.texts, movements := d.movements ++ [m] } := by
  refine ⟨h.1, ?_⟩
  intro x hx
  rcases List.mem_append.1 hx with hx | hx
  · exact h.2 x hx
  · rw [List.mem_singleton] at hx; subst hx; exact hm

theorem cmdArgsLoop_slots (env : Env) (sn : String) (id : Nat) (tok : Tok) :
    ∀ (n : Nat) (a : CmdAcc) (s : PState), ItemsOf id sn (cap a) a.imp →
    wp (cmdArgsLoop env sn id tok n a) s (fun r s' =>
      s'.nextCmdId = s.nextCmdId ∧ ItemsOf id sn (cap r) r.imp) := by
  intro n
  induction n with
  | zero => intro a s _; rw [cmdArgsLoop]; tsimp
  | succ n ih =>
    intro a s h
    rw [cmdArgsLoop]
    tsimp [(tframe_parseFormatStringOperator _ _).wp_iff, (tframe_parseMovesOperator _ _).wp_iff]
    have step : ∀ (a' : CmdAcc) (l : List Tok), ItemsOf id sn (cap a') a'.imp →
        wp (cmdArgsLoop env sn id tok n a') (upd s l s.nextCmdId)
          (fun r s' => s'.nextCmdId = s.nextCmdId ∧ ItemsOf id sn (cap r) r.imp) := by
      intro a' l h'
      refine wp_mono (ih a' _ h') ?_
      intro r s' hq; exact ⟨hq.1.trans (upd_nextCmdId _ _ _), hq.2⟩
    have hc1 : ∀ (x : String) (k : Nat) (d : ImpData),
        cap { args := a.args, argParts := a.argParts ++ [x], numOpenParens := k, imp := d } =
          a.args.length + 1 := by
      intro x k d; simp [cap]
    have hc2 : ∀ (x : String) (k : Nat) (d : ImpData),
        cap { args := a.args ++ [x], numOpenParens := k, imp := d } = a.args.length + 1 := by
      intro x k d; simp [cap]
    have hc0 : cap a ≤ a.args.length + 1 := by unfold cap; split <;> omega
    repeat' (first
      | trivial
      | exact ⟨trivial, h⟩
      | (apply ite_prop_intro <;> intro _)
      | (intros; apply step; first
          | (rw [hc2]; exact h.mono hc0)
          | (rw [hc1]; exact h.mono hc0)
          | (rw [hc1]; exact itemsOf_text (h.mono hc0) _ ⟨rfl, Nat.lt_succ_self _, rfl⟩)
          | (rw [hc1]; exact itemsOf_move (h.mono hc0) _ ⟨rfl, Nat.lt_succ_self _, rfl⟩)))

theorem itemsOf_empty (id : Nat) (sn : String) (b : Nat) : ItemsOf id sn b {} :=
  ⟨fun _ h => absurd h List.not_mem_nil, fun _ h => absurd h List.not_mem_nil⟩

/-- **One command statement**: it takes the id `nextCmdId` and increments the counter by one; every
inline item it collects carries that id, an argument index that exists in the command, and the owner. -/
theorem parseCommandStatement_slots (env : Env) (sn : String) (n : Nat) (s : PState) :
    wp (parseCommandStatement env sn n) s (fun r s' =>
      r.1.id = s.nextCmdId ∧ s'.nextCmdId = s.nextCmdId + 1 ∧ ItemsOf r.1.id sn r.1.args.length r.2) := by
  unfold parseCommandStatement
  tsimp [wp_bumpCmdId]
  apply ite_prop_intro <;> intro _
  · refine wp_mono (cmdArgsLoop_slots env sn s.nextCmdId _ n {} _ (itemsOf_empty _ _ _)) ?_
    intro a s1 hq
    refine ⟨trivial, hq.1.trans (upd_nextCmdId _ _ _), ?_⟩
    have : (if a.argParts.length > 0 then a.args ++ [joinSp a.argParts] else a.args).length = cap a := by
      unfold cap; split <;> simp
    rw [this]; exact hq.2
  · exact ⟨trivial, trivial, itemsOf_empty _ _ _⟩

end Pory.Parser
