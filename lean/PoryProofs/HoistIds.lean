import PoryProofs.HoistFrame
/-
Command ids and argument slots of the implicit data (helper module of C06c, part 4).

* `KN m` : `m` does not change `nextCmdId`; proved for every parser function below the statement level
  except `parseCommandStatement` and its callers.
* `parseCommandStatement_slots` : a command statement takes the id `nextCmdId`, increments the counter by
  one, and every inline item it collects carries that id, an argument index that exists in the command
  (`argPos < args.length`) and the script name.
* `IdsAll` : for the 13 statement functions, the ids of the collected items lie in
  `[nextCmdId at entry, nextCmdId at exit)`, the counter never decreases, and the items are owned by
  the script name passed down.
-/
namespace Pory.Parser
open Pory

/-- `m` leaves the command counter alone. -/
def KN {α} (m : PM α) : Prop := ∀ s, wp m s (fun _ s' => s'.nextCmdId = s.nextCmdId)

theorem KN.wp_iff {α} {m : PM α} (hm : KN m) (s : PState) (Q : α → PState → Prop) :
    wp m s Q ↔ ∀ a s', m.run s = .ok (a, s') → s'.nextCmdId = s.nextCmdId → Q a s' :=
  wp_spec (hm s) Q

syntax "nfin" (" [" Lean.Parser.Tactic.simpLemma,* "]")? : tactic
macro_rules
  | `(tactic| nfin) => `(tactic| repeat' (first | (exact True.intro) | rfl | (with_reducible intro _) | (swp) | (split) | (simp_all; done)))
  | `(tactic| nfin [$ts,*]) => `(tactic| repeat' (first | (exact True.intro) | rfl | (with_reducible intro _) | (swp [$ts,*]) | (split) | (simp_all; done)))

theorem kn_parsePoryswitchHeader (env : Env) : KN (parsePoryswitchHeader env) := by
  intro s; unfold parsePoryswitchHeader; nfin

theorem kn_parseScopeModifier (d : TT) : KN (parseScopeModifier d) := by
  intro s; unfold parseScopeModifier; nfin

theorem kn_formatNamedParams : ∀ (n : Nat) (fp : FmtParams), KN (formatNamedParams n fp) := by
  intro n
  induction n with
  | zero => intro fp s; rw [formatNamedParams]; nfin
  | succ n ih => intro fp s; rw [formatNamedParams]; nfin [(ih _).wp_iff]

theorem kn_parseFormatStringOperator (env : Env) (n : Nat) : KN (parseFormatStringOperator env n) := by
  intro s
  unfold parseFormatStringOperator
  nfin [(kn_formatNamedParams _ _).wp_iff, wp_fmtMatch]

theorem kn_parseTextValue (env : Env) (n : Nat) : KN (parseTextValue env n) := by
  intro s
  unfold parseTextValue
  nfin [(kn_parseFormatStringOperator _ _).wp_iff]

theorem kn_listBlock (env : Env) : ∀ n : Nat,
    (∀ kind am acc, KN (parseListValue env kind am n acc)) ∧
    (∀ kind, KN (parsePoryswitchListStatement env kind n)) ∧
    (∀ kind tok acc, KN (parsePoryswitchListCases env kind tok n acc)) := by
  intro n
  induction n with
  | zero =>
    refine ⟨?_, ?_, ?_⟩
    · intro kind am acc s; rw [parseListValue]; nfin
    · intro kind s; rw [parsePoryswitchListStatement]; nfin
    · intro kind tok acc s; rw [parsePoryswitchListCases]; nfin
  | succ n ih =>
    obtain ⟨ih1, ih2, ih3⟩ := ih
    refine ⟨?_, ?_, ?_⟩
    · intro kind am acc s
      rw [parseListValue]
      cases kind <;> nfin [(ih1 _ _ _).wp_iff, (ih2 _).wp_iff]
    · intro kind s
      rw [parsePoryswitchListStatement]
      nfin [(ih3 _ _ _).wp_iff, (kn_parsePoryswitchHeader _).wp_iff]
    · intro kind tok acc s
      rw [parsePoryswitchListCases]
      nfin [(ih1 _ _ _).wp_iff, (ih3 _ _ _).wp_iff]

theorem kn_parseListValue (env : Env) (kind : ListKind) (am : Bool) (n : Nat) (acc : List Tok) :
    KN (parseListValue env kind am n acc) := (kn_listBlock env n).1 kind am acc

theorem kn_parseMovesOperator (env : Env) (n : Nat) : KN (parseMovesOperator env n) := by
  intro s
  unfold parseMovesOperator
  nfin [(kn_parseListValue _ _ _ _ _).wp_iff]

theorem kn_peekTokenIsAutoVar (env : Env) : KN (peekTokenIsAutoVar env) := by
  intro s; unfold peekTokenIsAutoVar; nfin

theorem kn_collectUntil (stop : Tok → Bool) (onEOF : PFail) :
    ∀ (n : Nat) (parts : List String), KN (collectUntil stop onEOF n parts) := by
  intro n
  induction n with
  | zero => intro parts s; rw [collectUntil]; nfin
  | succ n ih => intro parts s; rw [collectUntil]; nfin [(ih _).wp_iff]

theorem kn_valueLoop (vt : Tok) : ∀ (n k : Nat) (parts : List String), KN (valueLoop vt n k parts) := by
  intro n
  induction n with
  | zero => intro k parts s; rw [valueLoop]; nfin
  | succ n ih => intro k parts s; rw [valueLoop]; nfin [(ih _ _).wp_iff]

theorem kn_collectUntilRange (st : Tok) :
    ∀ (n : Nat) (parts : List String), KN (parseConditionVarOperator.collectUntilRange st n parts) := by
  intro n
  induction n with
  | zero => intro parts s; rw [parseConditionVarOperator.collectUntilRange]; nfin
  | succ n ih => intro parts s; rw [parseConditionVarOperator.collectUntilRange]; nfin [(ih _).wp_iff]

theorem kn_parseConditionVarOperator (e : OpExpr) (n : Nat) : KN (parseConditionVarOperator e n) := by
  intro s
  unfold parseConditionVarOperator
  nfin [(kn_valueLoop _ _ _ _).wp_iff, (kn_collectUntilRange _ _ _).wp_iff]

theorem kn_parseConditionFlagLikeOperator (e : OpExpr) (nm : String) :
    KN (parseConditionFlagLikeOperator e nm) := by
  intro s; unfold parseConditionFlagLikeOperator; nfin

theorem kn_tryParseLabelStatement : KN tryParseLabelStatement := by
  intro s; unfold tryParseLabelStatement; nfin

theorem kn_switchOperandLoop (ot : Tok) :
    ∀ (n : Nat) (parts : List String), KN (parseSwitchStatement.switchOperandLoop ot n parts) := by
  intro n
  induction n with
  | zero => intro parts s; rw [parseSwitchStatement.switchOperandLoop]; nfin
  | succ n ih => intro parts s; rw [parseSwitchStatement.switchOperandLoop]; nfin [(ih _).wp_iff]

theorem kn_tableCollect (stop : Tok → Bool) (onEOF : PFail) :
    ∀ (n : Nat) (acc : String), KN (tableCollect stop onEOF n acc) := by
  intro n
  induction n with
  | zero => intro acc s; rw [tableCollect]; nfin
  | succ n ih => intro acc s; rw [tableCollect]; nfin [(ih _).wp_iff]

theorem kn_constLoop : ∀ (n : Nat) (acc : String), KN (constLoop n acc) := by
  intro n
  induction n with
  | zero => intro acc s; rw [constLoop]; nfin
  | succ n ih => intro acc s; rw [constLoop]; nfin [(ih _).wp_iff]

end Pory.Parser
