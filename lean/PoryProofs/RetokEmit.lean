import PoryProofs.RetokAst
import PoryProofs.ProgramMetaErase
import PoryProofs.MarkerLemmas
/-
L2 helpers, stage 6: **with line markers off the emitter does not depend on the positions of the token records
stored in the AST.**

`emitProgram_pe : o.markers = false → peRes (emitProgram o (peProgram p)) = peRes (emitProgram o p)` — the lines
are the same; a located error (`.perr tok msg`: a label clash found by `renderStatements`) is the same up to the
positions of its token (`peRes` on both sides: `scriptChunks` / `optimizeChunkOrder` have the type of functions
that could return a located error).  `emitProgram_congr`: programs with the same `peProgram` are emitted alike.
The proof commutes the position erasure through the chunk worklist of PoryModel/Emitter.lean (`peChunk`, `peWS`;
the structure follows PoryProofs/ProgramMetaErase.lean, whose definitional unfoldings `createIf_eq`, … are
reused) and through PoryModel/EmitRender.lean (where the only reads of a position are `marker` / `emitRaw`,
which produce nothing when `o.markers = false`).
-/
namespace Pory.L2
open Pory Pory.Emit Pory.P2c
open Pory.C16 (marker_off)

/-! ### erased chunks and worklist states -/

def peCaseB (sc : SwitchCaseBranch) : SwitchCaseBranch := { sc with value := pe sc.value }

def peBranch : Branch → Branch
  | .switch_ op cases d dest => .switch_ (pe op) (cases.map peCaseB) d dest
  | .leaf t e f => .leaf t (peOp e) f
  | .none => .none
  | .jump d => .jump d
  | .breakCtx d => .breakCtx d

def peChunk (c : Chunk) : Chunk :=
  { c with statements := c.statements.map peS, branch := peBranch c.branch }

def peWS (s : WS) : WS := { s with final := s.final.map peChunk, queue := s.queue.map peChunk }

theorem peChunk_id (c : Chunk) : (peChunk c).id = c.id := rfl

theorem setFinal_pe (s : WS) (c : Chunk) : (peWS s).setFinal (peChunk c) = peWS (s.setFinal c) := by
  simp only [WS.setFinal, peWS, List.map_cons, List.filter_map, peChunk_id]
  rfl

theorem splitChunkForBranch_pe (c : Chunk) (i : Nat) (s : WS) :
    splitChunkForBranch (peChunk c) i (peWS s) =
      (peWS (splitChunkForBranch c i s).1, (splitChunkForBranch c i s).2) := by
  unfold splitChunkForBranch
  simp only [peChunk, List.length_map]
  split
  · rfl
  · simp only [peWS, List.map_append, List.map_cons, List.map_nil, List.map_drop, peChunk, peBranch]

theorem keepStatementsAfterJump_pe (c : Chunk) (i : Nat) (s : WS) :
    keepStatementsAfterJump (peChunk c) i (peWS s) = peWS (keepStatementsAfterJump c i s) := by
  unfold keepStatementsAfterJump
  simp only [peChunk, List.length_map]
  split
  · rfl
  · simp only [peWS, List.map_append, List.map_cons, List.map_nil, List.map_drop, peChunk, peBranch]

theorem peWS_counter (s : WS) (n : Nat) : peWS { s with counter := n } = { peWS s with counter := n } := rfl

/-- unfold the erasure of a worklist state built by appending chunks -/
macro "psimp" : tactic => `(tactic|
  simp only [peWS, List.map_append, List.map_cons, List.map_nil, peChunk, peBranch, mapOk_ok, mapOk_error])

theorem splitBool_pe : ∀ (e : BoolExpr) (succ : Nat) (failure : Option Nat) (s : WS),
    splitBool (peBool e) succ failure (peWS s) =
      mapOk (fun r => (peWS r.1, r.2)) (splitBool e succ failure s)
  | .leaf e, succ, failure, s => by
    simp only [peBool, splitBool]
    psimp
  | .bin l op r, succ, failure, s => by
    simp only [peBool, splitBool]
    have hc : (peWS s).counter = s.counter := rfl
    split
    · rw [hc, ← peWS_counter, splitBool_pe l]
      cases splitBool l (s.counter + 1) failure { s with counter := s.counter + 1 } with
      | error e => rfl
      | ok q =>
        simp only [mapOk_ok, splitBool_pe r]
        cases splitBool r succ failure q.1 with
        | error e => rfl
        | ok q2 => psimp
    · split
      · rw [hc, ← peWS_counter, splitBool_pe l]
        cases splitBool l succ (some (s.counter + 1)) { s with counter := s.counter + 1 } with
        | error e => rfl
        | ok q =>
          simp only [mapOk_ok, splitBool_pe r]
          cases splitBool r succ failure q.1 with
          | error e => rfl
          | ok q2 => psimp
      · rfl

theorem splitElifs_pe : ∀ (elifs : List (BoolExpr × List Stmt)) (ids : List Nat) (lastFail : Option Nat)
    (s : WS),
    splitElifs (elifs.map fun p => (peBool p.1, p.2.map peS)) ids lastFail (peWS s) =
      mapOk (fun r => (peWS r.1, r.2)) (splitElifs elifs ids lastFail s)
  | [], _, _, _ => by simp only [List.map_nil, splitElifs, mapOk_ok]
  | (e, b) :: restE, [], _, _ => by simp only [List.map_cons, splitElifs, mapOk_ok]
  | (e, b) :: restE, id :: restI, lastFail, s => by
    simp only [List.map_cons, splitElifs, splitElifs_pe restE restI lastFail s]
    cases splitElifs restE restI lastFail s with
    | error err => rfl
    | ok q =>
      simp only [mapOk_ok, splitBool_pe]
      cases splitBool e id q.2 q.1 with
      | error err => rfl
      | ok q2 => rfl

theorem foldlWS_pe {α : Type} (f : α → α) (step : WS × List Nat → α → WS × List Nat)
    (h : ∀ w ids e, step (peWS w, ids) (f e) = (peWS (step (w, ids) e).1, (step (w, ids) e).2)) :
    ∀ (l : List α) (w : WS) (ids : List Nat),
      (l.map f).foldl step (peWS w, ids) =
        (peWS (l.foldl step (w, ids)).1, (l.foldl step (w, ids)).2)
  | [], _, _ => rfl
  | x :: r, w, ids => by
    simp only [List.map_cons, List.foldl_cons, h]
    exact foldlWS_pe f step h r (step (w, ids) x).1 (step (w, ids) x).2

/-! ### `createIf` in named steps -/

theorem allocPush_pe (returnID : Option Nat) (st : List Stmt) (s : WS) :
    allocPush returnID (st.map peS) (peWS s) =
      (peWS (allocPush returnID st s).1, (allocPush returnID st s).2) := by
  simp only [allocPush]
  psimp

theorem createIf_pe (cond : BoolExpr) (body : List Stmt) (elifs : List (BoolExpr × List Stmt))
    (els : Option (List Stmt)) (c : Chunk) (i : Nat) (s : WS) :
    createIf (peBool cond) (body.map peS) (elifs.map fun p => (peBool p.1, p.2.map peS)) (els.map (·.map peS))
        (peChunk c) i (peWS s) =
      mapOk (fun r => (peWS r.1, r.2)) (createIf cond body elifs els c i s) := by
  rw [createIf_eq, createIf_eq, splitChunkForBranch_pe]
  simp only [allocPush_pe]
  rw [foldlWS_pe (fun p : BoolExpr × List Stmt => (peBool p.1, p.2.map peS)) _
    (fun w ids e => by simp only [elifStep, allocPush_pe]) elifs]
  generalize (elifs.foldl (elifStep (splitChunkForBranch c i s).2)
    ((allocPush (splitChunkForBranch c i s).2 body (splitChunkForBranch c i s).1).1, [])) = F
  have hels : elsePart (splitChunkForBranch c i s).2 (els.map (·.map peS)) (peWS F.1) =
      (peWS (elsePart (splitChunkForBranch c i s).2 els F.1).1,
        (elsePart (splitChunkForBranch c i s).2 els F.1).2) := by
    cases els with
    | none => rfl
    | some st => simp only [Option.map_some, elsePart, allocPush_pe]
  simp only [hels, ifTail, splitElifs_pe]
  cases splitElifs elifs F.2 _ (elsePart (splitChunkForBranch c i s).2 els F.1).1 with
  | error e => rfl
  | ok q =>
    simp only [mapOk_ok, splitBool_pe]
    cases splitBool cond _ q.2 q.1 with
    | error e => rfl
    | ok q2 => rfl

/-! ### `createWhile`, `createDoWhile` -/

theorem whileTail_pe (cond : Option BoolExpr) (body : List Stmt) (returnID : Option Nat)
    (headerId consId : Nat) (s : WS) :
    whileTail (cond.map peBool) (body.map peS) returnID headerId consId (peWS s) =
      mapOk (fun r => (peWS r.1, r.2)) (whileTail cond body returnID headerId consId s) := by
  cases cond with
  | none => simp only [Option.map_none, whileTail]; psimp
  | some e =>
    simp only [Option.map_some, whileTail, splitBool_pe]
    cases splitBool e consId returnID s with
    | error err => rfl
    | ok q => psimp

theorem createWhile_pe (cond : Option BoolExpr) (body : List Stmt) (c : Chunk) (i : Nat) (s : WS) :
    createWhile (cond.map peBool) (body.map peS) (peChunk c) i (peWS s) =
      mapOk (fun r => (peWS r.1, r.2)) (createWhile cond body c i s) := by
  rw [createWhile_eq, createWhile_eq, splitChunkForBranch_pe]
  exact whileTail_pe cond body _ _ _
    { (splitChunkForBranch c i s).1 with counter := (splitChunkForBranch c i s).1.counter + 1 + 1 }

theorem doWhileTail_pe (cond : BoolExpr) (body : List Stmt) (returnID : Option Nat)
    (headerId consId : Nat) (s : WS) :
    doWhileTail (peBool cond) (body.map peS) returnID headerId consId (peWS s) =
      mapOk (fun r => (peWS r.1, r.2)) (doWhileTail cond body returnID headerId consId s) := by
  simp only [doWhileTail, splitBool_pe]
  cases splitBool cond consId returnID s with
  | error err => rfl
  | ok q => psimp

theorem createDoWhile_pe (cond : BoolExpr) (body : List Stmt) (c : Chunk) (i : Nat) (s : WS) :
    createDoWhile (peBool cond) (body.map peS) (peChunk c) i (peWS s) =
      mapOk (fun r => (peWS r.1, r.2)) (createDoWhile cond body c i s) := by
  rw [createDoWhile_eq, createDoWhile_eq, splitChunkForBranch_pe]
  exact doWhileTail_pe cond body _ _ _
    { (splitChunkForBranch c i s).1 with counter := (splitChunkForBranch c i s).1.counter + 1 + 1 }

/-! ### `createSwitch` -/

/-- the erasure of one switch case -/
def pc (p : SwitchCase) : SwitchCase := (pe p.1, p.2.1, p.2.2.map peS)

theorem switchBodies_pe (returnID : Option Nat) : ∀ (cases : List SwitchCase) (s : WS),
    switchBodies returnID (cases.map pc) (peWS s) =
      (peWS (switchBodies returnID cases s).1, (switchBodies returnID cases s).2)
  | [], s => rfl
  | (v, d, body) :: rest, s => by
    simp only [List.map_cons, pc, switchBodies_cons, List.length_map, allocPush_pe]
    split
    · rw [switchBodies_pe returnID rest]
    · rw [switchBodies_pe returnID rest]

theorem zip_map_ec : ∀ (cases : List SwitchCase) (ids : List (Option Nat)),
    (cases.map pc).zip ids = (cases.zip ids).map fun cb => (pc cb.1, cb.2)
  | [], _ => rfl
  | _ :: _, [] => rfl
  | c :: r, i :: ids => by simp only [List.map_cons, List.zip_cons_cons, zip_map_ec r ids]

theorem switchDefaultDest_pe (cases : List SwitchCase) (ids : List (Option Nat)) :
    switchDefaultDest (cases.map pc) ids = switchDefaultDest cases ids := by
  unfold switchDefaultDest
  rw [zip_map_ec, List.foldl_map]
  rfl

theorem switchBranchCases_pe (cases : List SwitchCase) (ids : List (Option Nat)) :
    switchBranchCases (cases.map pc) ids = (switchBranchCases cases ids).map peCaseB := by
  unfold switchBranchCases
  rw [zip_map_ec, List.filterMap_map, List.map_filterMap]
  congr 1
  funext ⟨⟨v, d, b⟩, id⟩
  cases d <;> cases id <;> rfl

theorem switchTrailing_pe (cases : List SwitchCase) (ids : List (Option Nat)) :
    switchTrailing (cases.map pc) ids = (switchTrailing cases ids).map pc := by
  unfold switchTrailing
  rw [zip_map_ec, List.filter_map, List.map_map, List.map_map]
  rfl

theorem switchNeedsEmpty_pe (cases : List SwitchCase) (ids : List (Option Nat)) :
    switchNeedsEmpty (cases.map pc) ids = switchNeedsEmpty cases ids := by
  unfold switchNeedsEmpty
  rw [switchDefaultDest_pe, switchTrailing_pe, List.length_map]

theorem switchBranchOf_pe (operand : Tok) (cases : List SwitchCase) (ids : List (Option Nat)) (eid : Nat)
    (returnID : Option Nat) :
    switchBranchOf (pe operand) (cases.map pc) ids eid returnID =
      peBranch (switchBranchOf operand cases ids eid returnID) := by
  unfold switchBranchOf
  simp only [switchDefaultDest_pe, switchBranchCases_pe, switchTrailing_pe, switchNeedsEmpty_pe,
    peBranch]
  split
  · simp only [List.map_append, List.map_map]
    rfl
  · rfl

theorem modify_pe (br : Branch) : ∀ (q : List Chunk) (n : Nat),
    (q.map peChunk).modify n (fun ch => { ch with branch := peBranch br }) =
      (q.modify n (fun ch => { ch with branch := br })).map peChunk
  | [], _ => by simp only [List.map_nil, List.modify_nil]
  | c :: r, 0 => by simp only [List.map_cons, List.modify_zero_cons]; rfl
  | c :: r, n + 1 => by simp only [List.map_cons, List.modify_succ_cons, modify_pe br r n]

theorem switchTail_pe (operand : Tok) (cases : List SwitchCase) (returnID : Option Nat) (switchId qlen : Nat)
    (s : WS) :
    switchTail (pe operand) (cases.map pc) returnID switchId qlen (peWS s) =
      (peWS (switchTail operand cases returnID switchId qlen s).1,
        (switchTail operand cases returnID switchId qlen s).2) := by
  unfold switchTail
  simp only [switchBodies_pe, switchNeedsEmpty_pe, switchBranchOf_pe]
  split
  · rfl
  · split
    · have e : ∀ (q : List Chunk) (n : Nat) (r : Option Nat),
          q.map peChunk ++ [({ id := n, returnID := r } : Chunk)] =
            (q ++ [({ id := n, returnID := r } : Chunk)]).map peChunk := by
        intro q n r; rw [List.map_append]; rfl
      simp only [peWS, e, modify_pe]
    · simp only [peWS, modify_pe]

theorem createSwitch_pe (operand : Tok) (cases : List SwitchCase) (c : Chunk) (i : Nat) (s : WS) :
    createSwitch (pe operand) (cases.map pc) (peChunk c) i (peWS s) =
      (peWS (createSwitch operand cases c i s).1, (createSwitch operand cases c i s).2) := by
  rw [createSwitch_eq, createSwitch_eq, splitChunkForBranch_pe]
  generalize splitChunkForBranch c i s = p
  have hq : (peWS p.1).queue.length = p.1.queue.length := by
    simp only [peWS, List.length_map]
  have e :
      (⟨(peWS p.1).counter + 1, (peWS p.1).final,
        (peWS p.1).queue ++ [{ id := (peWS p.1).counter + 1, returnID := p.2 }],
        (peWS p.1).brk, (peWS p.1).cont⟩ : WS) =
      peWS ⟨p.1.counter + 1, p.1.final, p.1.queue ++ [{ id := p.1.counter + 1, returnID := p.2 }],
        p.1.brk, p.1.cont⟩ := by
    psimp
  simp only [hq, e]
  exact switchTail_pe operand cases _ _ _ _

/-! ### the worklist -/

theorem peS_ite (t : Tok) (c : BoolExpr) (b : List Stmt) (es : List (BoolExpr × List Stmt))
    (e : Option (List Stmt)) :
    peS (.ite t c b es e) =
      .ite (pe t) (peBool c) (b.map peS) (es.map fun p => (peBool p.1, p.2.map peS)) (e.map (·.map peS)) := by
  cases e <;> simp [peS, peL_eq_map, peElifs_eq_map]
theorem peS_while (t : Tok) (sid : Nat) (c : Option BoolExpr) (b : List Stmt) :
    peS (.while_ t sid c b) = .while_ (pe t) sid (c.map peBool) (b.map peS) := by simp [peS, peL_eq_map]
theorem peS_doWhile (t : Tok) (sid : Nat) (c : BoolExpr) (b : List Stmt) :
    peS (.doWhile t sid c b) = .doWhile (pe t) sid (peBool c) (b.map peS) := by simp [peS, peL_eq_map]
theorem peS_switch (t : Tok) (sid : Nat) (op : Tok) (cs : List SwitchCase) :
    peS (.switch_ t sid op cs) = .switch_ (pe t) sid (pe op) (cs.map pc) := by
  simp only [peS, peCases_eq_map]; rfl
theorem peS_cmd (c : Cmd) : peS (.cmd c) = .cmd (peCmd c) := by simp [peS]
theorem peS_label (t : Tok) (n : String) (g : Bool) : peS (.label t n g) = .label (pe t) n g := by simp [peS]
theorem peS_brk (t : Tok) (sid : Nat) : peS (.brk t sid) = .brk (pe t) sid := by simp [peS]
theorem peS_cont (t : Tok) (sid : Nat) : peS (.cont t sid) = .cont (pe t) sid := by simp [peS]

theorem scanSimple_pe : ∀ (l : List Stmt) (i len : Nat),
    scanSimple (l.map peS) i len = scanSimple l i len
  | [], _, _ => rfl
  | .cmd c :: r, i, len => by
    simp only [List.map_cons, peS_cmd, scanSimple, scanSimple_pe r]
    rfl
  | .label t n g :: r, i, len => by
    simp only [List.map_cons, peS_label, scanSimple, scanSimple_pe r]
  | .ite .. :: r, i, len => by simp only [List.map_cons, peS_ite, scanSimple]
  | .while_ .. :: r, i, len => by simp only [List.map_cons, peS_while, scanSimple]
  | .doWhile .. :: r, i, len => by simp only [List.map_cons, peS_doWhile, scanSimple]
  | .brk .. :: r, i, len => by simp only [List.map_cons, peS_brk, scanSimple]
  | .cont .. :: r, i, len => by simp only [List.map_cons, peS_cont, scanSimple]
  | .switch_ .. :: r, i, len => by simp only [List.map_cons, peS_switch, scanSimple]

/-- the branch a `create…` function returns is a jump: erasing does nothing -/
theorem createIf_jump {cond : BoolExpr} {body : List Stmt} {elifs : List (BoolExpr × List Stmt)}
    {els : Option (List Stmt)} {c : Chunk} {i : Nat} {s : WS} {q : WS × Branch × Option Nat}
    (h : createIf cond body elifs els c i s = .ok q) : peBranch q.2.1 = q.2.1 := by
  rw [createIf_eq] at h
  unfold ifTail at h
  split at h
  · cases h
  · split at h
    · cases h
    · cases h; rfl

theorem createWhile_jump {cond : Option BoolExpr} {body : List Stmt} {c : Chunk} {i : Nat} {s : WS}
    {q : WS × Branch × Option Nat × Nat} (h : createWhile cond body c i s = .ok q) :
    peBranch q.2.1 = q.2.1 := by
  rw [createWhile_eq] at h
  unfold whileTail at h
  split at h
  · cases h; rfl
  · split at h
    · cases h
    · cases h; rfl

theorem createDoWhile_jump {cond : BoolExpr} {body : List Stmt} {c : Chunk} {i : Nat} {s : WS}
    {q : WS × Branch × Option Nat × Nat} (h : createDoWhile cond body c i s = .ok q) :
    peBranch q.2.1 = q.2.1 := by
  rw [createDoWhile_eq] at h
  unfold doWhileTail at h
  split at h
  · cases h
  · cases h; rfl

theorem createSwitch_jump (operand : Tok) (cases : List SwitchCase) (c : Chunk) (i : Nat) (s : WS) :
    peBranch (createSwitch operand cases c i s).2.1 = (createSwitch operand cases c i s).2.1 := by
  rw [createSwitch_eq]
  unfold switchTail
  split <;> rfl

theorem peWS_brk (s : WS) (b : List (Nat × Option Nat)) (c : List (Nat × Nat)) :
    peWS { s with brk := b, cont := c } = { peWS s with brk := b, cont := c } := rfl
theorem peWS_brk' (s : WS) : (peWS s).brk = s.brk := rfl
theorem peWS_cont' (s : WS) : (peWS s).cont = s.cont := rfl
theorem setFinal_brk (s : WS) (c : Chunk) : (s.setFinal c).brk = s.brk := rfl
theorem setFinal_cont (s : WS) (c : Chunk) : (s.setFinal c).cont = s.cont := rfl

theorem processChunk_pe (cur : Chunk) (s : WS) :
    processChunk (peChunk cur) (peWS s) = mapOk peWS (processChunk cur s) := by
  unfold processChunk
  have hst : (peChunk cur).statements = cur.statements.map peS := rfl
  simp only [hst, List.length_map, scanSimple_pe, List.getElem?_map]
  generalize scanSimple cur.statements 0 cur.statements.length = sc
  obtain ⟨i, fin⟩ := sc
  cases fin with
  | some isEnd =>
    simp only [mapOk_ok, ← setFinal_pe, peChunk, peBranch, List.map_take]
  | none =>
    simp only
    split
    · simp only [mapOk_ok, ← setFinal_pe]
    · cases hi : cur.statements[i]? with
      | none => simp only [Option.map_none, mapOk_ok, ← setFinal_pe, peChunk, peBranch, List.map_take]
      | some st =>
        cases st with
        | cmd c => simp only [Option.map_some, peS_cmd, mapOk_ok, ← setFinal_pe, peChunk, peBranch, List.map_take]
        | label t n g => simp only [Option.map_some, peS_label, mapOk_ok, ← setFinal_pe, peChunk, peBranch, List.map_take]
        | ite t c b es e =>
          simp only [Option.map_some, peS_ite, createIf_pe]
          cases hq : createIf c b es e cur i s with
          | error err => rfl
          | ok q =>
            have hj := createIf_jump hq
            simp only [mapOk_ok, ← setFinal_pe, peChunk, hj, List.map_take]
        | while_ t sid c b =>
          simp only [Option.map_some, peS_while, createWhile_pe]
          cases hq : createWhile c b cur i s with
          | error err => rfl
          | ok q =>
            have hj := createWhile_jump hq
            simp only [mapOk_ok, peWS_brk, ← setFinal_pe, peChunk, hj, List.map_take, peWS_brk',
              peWS_cont', setFinal_brk, setFinal_cont]
        | doWhile t sid c b =>
          simp only [Option.map_some, peS_doWhile, createDoWhile_pe]
          cases hq : createDoWhile c b cur i s with
          | error err => rfl
          | ok q =>
            have hj := createDoWhile_jump hq
            simp only [mapOk_ok, peWS_brk, ← setFinal_pe, peChunk, hj, List.map_take, peWS_brk',
              peWS_cont', setFinal_brk, setFinal_cont]
        | brk t sid =>
          simp only [Option.map_some, peS_brk, peWS_brk']
          cases s.brk.lookup sid with
          | none => rfl
          | some dest =>
            simp only [mapOk_ok, ← setFinal_pe, ← keepStatementsAfterJump_pe, peChunk, peBranch, List.map_take]
        | cont t sid =>
          simp only [Option.map_some, peS_cont, peWS_cont']
          cases s.cont.lookup sid with
          | none => rfl
          | some dest =>
            simp only [mapOk_ok, ← setFinal_pe, ← keepStatementsAfterJump_pe, peChunk, peBranch, List.map_take]
        | switch_ t sid op cs =>
          have hj := createSwitch_jump op cs cur i s
          simp only [Option.map_some, peS_switch, createSwitch_pe]
          simp only [mapOk_ok, peWS_brk, ← setFinal_pe,
            peChunk, hj, List.map_take, peWS_brk', peWS_cont', setFinal_brk, setFinal_cont]

theorem runWorklist_pe : ∀ (n : Nat) (s : WS),
    runWorklist n (peWS s) = mapOk peWS (runWorklist n s)
  | 0, _ => rfl
  | n + 1, s => by
    rw [runWorklist, runWorklist]
    have hq : (peWS s).queue = s.queue.map peChunk := rfl
    rw [hq]
    cases hs : s.queue with
    | nil => simp only [List.map_nil, mapOk_ok]
    | cons cur rest =>
      simp only [List.map_cons]
      have e : ({ peWS s with queue := rest.map peChunk } : WS) = peWS { s with queue := rest } := rfl
      rw [e, processChunk_pe]
      cases processChunk cur { s with queue := rest } with
      | error err => rfl
      | ok s' => simp only [mapOk_ok, runWorklist_pe n s']

theorem condSize_pe : ∀ c : BoolExpr, condSize (peBool c) = condSize c
  | .leaf _ => rfl
  | .bin l _ r => by simp only [peBool, condSize, condSize_pe l, condSize_pe r]

mutual
theorem stmtSize_pe : ∀ (x : Stmt), stmtSize (peS x) = stmtSize x
  | .cmd c => by simp only [peS, stmtSize]
  | .label .. => by simp only [peS, stmtSize]
  | .ite t c b es e => by
    cases e with
    | none => simp only [peS, stmtSize, stmtsSize_pe b, elifsSize_pe es, condSize_pe]
    | some l => simp only [peS, stmtSize, stmtsSize_pe b, elifsSize_pe es, stmtsSize_pe l, condSize_pe]
  | .while_ t sid c b => by
    cases c with
    | none => simp only [peS, stmtSize, stmtsSize_pe b, Option.map_none]
    | some e => simp only [peS, stmtSize, stmtsSize_pe b, Option.map_some, condSize_pe]
  | .doWhile t sid c b => by simp only [peS, stmtSize, stmtsSize_pe b, condSize_pe]
  | .brk .. => by simp only [peS, stmtSize]
  | .cont .. => by simp only [peS, stmtSize]
  | .switch_ t sid op cs => by simp only [peS, stmtSize, casesSize_pe cs]
theorem stmtsSize_pe : ∀ (l : List Stmt), stmtsSize (peL l) = stmtsSize l
  | [] => by rw [peL]
  | x :: r => by simp only [peL, stmtsSize, stmtSize_pe x, stmtsSize_pe r]
theorem elifsSize_pe : ∀ (es : List (BoolExpr × List Stmt)), elifsSize (peElifs es) = elifsSize es
  | [] => by rw [peElifs]
  | (c, b) :: r => by simp only [peElifs, elifsSize, stmtsSize_pe b, elifsSize_pe r, condSize_pe]
theorem casesSize_pe : ∀ (cs : List SwitchCase), casesSize (peCases cs) = casesSize cs
  | [] => by rw [peCases]
  | (v, d, b) :: r => by simp only [peCases, casesSize, stmtsSize_pe b, casesSize_pe r]
end

/-- **The chunk table of the erased body is the erased chunk table.** -/
theorem scriptChunks_pe (body : List Stmt) :
    scriptChunks (peL body) = mapOk (List.map peChunk) (scriptChunks body) := by
  unfold scriptChunks
  rw [stmtsSize_pe]
  have e : ({ queue := [{ id := 0, statements := peL body }] } : WS) =
      peWS { queue := [{ id := 0, statements := body }] } := by
    rw [peL_eq_map]; rfl
  rw [e, runWorklist_pe]
  cases runWorklist (2 * stmtsSize body + 4) { queue := [{ id := 0, statements := body }] } with
  | error err => rfl
  | ok s => rfl

/-! ### rendering -/

theorem findChunk_pe (cs : List Chunk) (id : Nat) :
    findChunk (cs.map peChunk) id = (findChunk cs id).map peChunk := by
  unfold findChunk
  rw [List.find?_map]
  rfl

theorem tailId_pe (c : Chunk) : tailId (peChunk c) = tailId c := by
  unfold tailId
  have hb : (peChunk c).branch = peBranch c.branch := rfl
  have hr : (peChunk c).returnID = c.returnID := rfl
  rw [hb, hr]
  cases c.branch with
  | switch_ op cases d dest => cases d <;> rfl
  | _ => rfl

theorem optimizeLoop_pe (cs : List Chunk) (total : Nat) :
    ∀ (n : Nat) (order unv : List Nat) (i : Nat),
      optimizeLoop (cs.map peChunk) total n order unv i = optimizeLoop cs total n order unv i
  | 0, _, _, _ => by rw [optimizeLoop, optimizeLoop]
  | n + 1, order, unv, i => by
    have hpick : optimizeLoop.pick (cs.map peChunk) total n order unv i =
        optimizeLoop.pick cs total n order unv i := by
      rw [optimizeLoop.pick, optimizeLoop.pick]
      cases scanUnvisited unv total (total + 1) i with
      | mk j i' =>
        cases j with
        | none => rfl
        | some j => simp only [optimizeLoop_pe cs total n]
    rw [optimizeLoop, optimizeLoop]
    cases hlt : decide (order.length < total) with
    | false =>
      simp only [decide_eq_false_iff_not] at hlt
      simp only [hlt, if_false]
    | true =>
      simp only [decide_eq_true_eq] at hlt
      simp only [hlt, if_true]
      cases order.getLast? with
      | none => rfl
      | some last =>
        simp only [findChunk_pe]
        cases findChunk cs last with
        | none => rfl
        | some c => simp only [Option.map_some, tailId_pe, hpick, optimizeLoop_pe cs total n]

theorem optimizeChunkOrder_pe (cs : List Chunk) :
    optimizeChunkOrder (cs.map peChunk) = optimizeChunkOrder cs := by
  unfold optimizeChunkOrder
  have hids : (cs.map peChunk).map (·.id) = cs.map (·.id) := by
    rw [List.map_map]; rfl
  rw [hids, List.length_map, optimizeLoop_pe]
  cases cs <;> rfl

theorem renderCommand_pe (ps : List ((Nat × Nat) × String)) (c : Cmd) :
    renderCommand ps (peCmd c) = renderCommand ps c := rfl

theorem renderStatements_pe (o : Opts) (hm : o.markers = false) (ps : List ((Nat × Nat) × String))
    (cl tl : List String) :
    ∀ (l : List Stmt), renderStatements o ps cl tl (l.map peS) = peRes (renderStatements o ps cl tl l)
  | [] => rfl
  | .cmd c :: r => by
    simp only [List.map_cons, peS_cmd, renderStatements, renderStatements_pe o hm ps cl tl r, marker_off hm,
      renderCommand_pe]
    cases renderStatements o ps cl tl r <;> rfl
  | .label t n g :: r => by
    simp only [List.map_cons, peS_label, renderStatements, renderStatements_pe o hm ps cl tl r, marker_off hm]
    split
    · rfl
    · split
      · rfl
      · cases renderStatements o ps cl tl r <;> rfl
  | .ite .. :: r => by simp only [List.map_cons, peS_ite, renderStatements]; rfl
  | .while_ .. :: r => by simp only [List.map_cons, peS_while, renderStatements]; rfl
  | .doWhile .. :: r => by simp only [List.map_cons, peS_doWhile, renderStatements]; rfl
  | .brk .. :: r => by simp only [List.map_cons, peS_brk, renderStatements]; rfl
  | .cont .. :: r => by simp only [List.map_cons, peS_cont, renderStatements]; rfl
  | .switch_ .. :: r => by simp only [List.map_cons, peS_switch, renderStatements]; rfl

theorem renderBranchComparison_pe (o : Opts) (hm : o.markers = false) (n : String) (t : Nat) (e : OpExpr) :
    renderBranchComparison o n t (peOp e) = renderBranchComparison o n t e := by
  unfold renderBranchComparison
  simp only [marker_off hm]
  rfl

theorem renderBranching_pe (o : Opts) (hm : o.markers = false) (ps : List ((Nat × Nat) × String))
    (scriptName : String) (c : Chunk) (next : Option Nat) :
    renderBranching o ps scriptName (peChunk c) next = renderBranching o ps scriptName c next := by
  unfold renderBranching
  have hb : (peChunk c).branch = peBranch c.branch := rfl
  have hr : (peChunk c).returnID = c.returnID := rfl
  have hu : (peChunk c).useEndTerminator = c.useEndTerminator := rfl
  rw [hb, hr, hu]
  cases c.branch with
  | switch_ op cases d dest =>
    simp only [peBranch, List.flatMap_map, List.map_map, marker_off hm]
    rfl
  | leaf t e f =>
    simp only [peBranch, renderBranchComparison_pe o hm]
    have hp : (peOp e).preamble = e.preamble.map peCmd := rfl
    simp only [hp]
    cases e.preamble <;> rfl
  | _ => rfl

theorem renderBodies_pe (o : Opts) (hm : o.markers = false) (ps : List ((Nat × Nat) × String))
    (scriptName : String) (cs : List Chunk) (cl tl : List String) :
    ∀ (order : List Nat),
      renderBodies o ps scriptName (cs.map peChunk) cl tl order =
        peRes (renderBodies o ps scriptName cs cl tl order)
  | [] => by rw [renderBodies, renderBodies]; rfl
  | id :: rest => by
    rw [renderBodies, renderBodies, findChunk_pe]
    cases findChunk cs id with
    | none => rfl
    | some c =>
      have hst : (peChunk c).statements = c.statements.map peS := rfl
      simp only [Option.map_some, hst, renderStatements_pe o hm, renderBranching_pe o hm,
        renderBodies_pe o hm ps scriptName cs cl tl rest]
      cases renderStatements o ps cl tl c.statements with
      | error e => rfl
      | ok ls =>
        simp only [peRes_ok]
        cases renderBodies o ps scriptName cs cl tl rest <;> rfl

theorem peEFail_idem (e : EFail) : peEFail (peEFail e) = peEFail e := by cases e <;> rfl
theorem peRes_idem {α : Type} (x : Except EFail α) : peRes (peRes x) = peRes x := by
  cases x with
  | error e => simp only [peRes_error, peEFail_idem]
  | ok a => rfl

/-- two results agree up to the position of the token of a located error -/
theorem peRes_cases {α : Type} {x' x : Except EFail α} (h : peRes x' = peRes x) :
    (∃ e' e, x' = .error e' ∧ x = .error e ∧ peEFail e' = peEFail e) ∨ (∃ a, x' = .ok a ∧ x = .ok a) := by
  cases x' with
  | error e' =>
    cases x with
    | error e => exact .inl ⟨e', e, rfl, rfl, by simpa using h⟩
    | ok a => cases h
  | ok a' =>
    cases x with
    | error e => cases h
    | ok a => cases h; exact .inr ⟨a', rfl, rfl⟩

theorem renderChunks_pe (o : Opts) (hm : o.markers = false) (ps : List ((Nat × Nat) × String)) (cs : List Chunk)
    (scriptName : String) (isGlobal : Bool) (tl : List String) :
    peRes (renderChunks o ps (cs.map peChunk) scriptName isGlobal tl) =
      peRes (renderChunks o ps cs scriptName isGlobal tl) := by
  unfold renderChunks
  have hids : (cs.map peChunk).map (·.id) = cs.map (·.id) := by
    rw [List.map_map]; rfl
  have hlabels : ((cs.map peChunk).map fun c => chunkLabel scriptName c.id) =
      (cs.map fun c => chunkLabel scriptName c.id) := by
    rw [List.map_map]; rfl
  simp only [optimizeChunkOrder_pe, hids, hlabels, renderBodies_pe o hm]
  cases (if o.optimize = true then optimizeChunkOrder cs else Except.ok (sortNat (cs.map (·.id)))) with
  | error e => rfl
  | ok order =>
    simp only
    cases renderBodies o ps scriptName cs (cs.map fun c => chunkLabel scriptName c.id) tl order with
    | error e => simp only [peRes_error, peEFail_idem]
    | ok q => rfl

/-- `emitScript` on the erased script. -/
theorem emitScript_pe (o : Opts) (hm : o.markers = false) (ps : List ((Nat × Nat) × String)) (tl : List String)
    (s : Script) : peRes (emitScript o ps tl (peScript s)) = peRes (emitScript o ps tl s) := by
  unfold emitScript
  simp only [peScript, scriptChunks_pe]
  cases scriptChunks s.body with
  | error e => rfl
  | ok cs => simp only [mapOk_ok, renderChunks_pe o hm]

/-! ### the other statement kinds -/

theorem emitText_pe (o : Opts) (hm : o.markers = false) (t : Text) : emitText o (peText t) = emitText o t := by
  unfold emitText
  simp only [marker_off hm]
  rfl

theorem emitRaw_pe (o : Opts) (hm : o.markers = false) (v : Tok) (x : String) :
    emitRaw o (pe v) x = emitRaw o v x := by
  unfold emitRaw
  simp only [hm]
  rfl

theorem steps_pe (o : Opts) (hm : o.markers = false) : ∀ cs : List Tok,
    emitMovement.steps o (cs.map pe) = emitMovement.steps o cs
  | [] => rfl
  | c :: r => by
    simp only [List.map_cons, emitMovement.steps, marker_off hm, pe_lit, steps_pe o hm r]

theorem emitMovement_pe (o : Opts) (hm : o.markers = false) (m : MovementStmt) :
    emitMovement o (peMovement m) = emitMovement o m := by
  unfold emitMovement
  simp only [peMovement, marker_off hm, steps_pe o hm]

theorem martGo_pe (o : Opts) (hm : o.markers = false) : ∀ (items : List String) (ts : List Tok),
    emitMart.go o (ts.map pe) items = emitMart.go o ts items
  | [], _ => rfl
  | item :: r, ts => by
    simp only [emitMart.go, marker_off hm]
    have h := martGo_pe o hm r ts.tail
    rw [List.map_tail] at h
    rw [h]

theorem emitMart_pe (o : Opts) (hm : o.markers = false) (tok : Tok) (name : String) (tis : List Tok)
    (items : List String) (scope : TT) :
    emitMart o (pe tok) name (tis.map pe) items scope = emitMart o tok name tis items scope := by
  unfold emitMart
  simp only [marker_off hm, martGo_pe o hm]

theorem emitScripts_pe (o : Opts) (hm : o.markers = false) (ps : List ((Nat × Nat) × String)) (tl : List String) :
    ∀ l : List (Option Script),
      peRes (emitScripts o ps tl (l.map (Option.map peScript))) = peRes (emitScripts o ps tl l)
  | [] => rfl
  | none :: r => by
    simp only [List.map_cons, Option.map_none, emitScripts]
    exact emitScripts_pe o hm ps tl r
  | some s :: r => by
    simp only [List.map_cons, Option.map_some, emitScripts]
    rcases peRes_cases (emitScript_pe o hm ps tl s) with ⟨e', e, h1, h2, h3⟩ | ⟨a, h1, h2⟩
    · simp only [h1, h2, peRes_error, h3]
    · simp only [h1, h2]
      rcases peRes_cases (emitScripts_pe o hm ps tl r) with ⟨e', e, h1, h2, h3⟩ | ⟨a', h1, h2⟩
      · simp only [h1, h2, peRes_error, h3]
      · simp only [h1, h2]

theorem emitTables_pe (o : Opts) (hm : o.markers = false) (ps : List ((Nat × Nat) × String)) (tl : List String) :
    ∀ l : List TableMapScript, peRes (emitTables o ps tl (l.map peTable)) = peRes (emitTables o ps tl l)
  | [] => rfl
  | t :: r => by
    simp only [List.map_cons, emitTables]
    have hs : (peTable t).entries.map (·.script) = (t.entries.map (·.script)).map (Option.map peScript) := by
      simp only [peTable, List.map_map]
      rfl
    have hh : ((peTable t).entries.flatMap fun e => marker o e.condition ++
          [Line.mapScript2 e.condition.lit e.comparison e.name]) =
        (t.entries.flatMap fun e => marker o e.condition ++ [Line.mapScript2 e.condition.lit e.comparison e.name]) := by
      simp only [peTable, List.flatMap_map, marker_off hm]
      rfl
    rw [hs, hh]
    rcases peRes_cases (emitScripts_pe o hm ps tl (t.entries.map (·.script))) with ⟨e', e, h1, h2, h3⟩ | ⟨a, h1, h2⟩
    · simp only [h1, h2, peRes_error, h3]
    · simp only [h1, h2]
      rcases peRes_cases (emitTables_pe o hm ps tl r) with ⟨e', e, h1, h2, h3⟩ | ⟨a', h1, h2⟩
      · simp only [h1, h2, peRes_error, h3]
      · simp only [h1, h2]
        rfl

theorem emitMapScripts_pe (o : Opts) (hm : o.markers = false) (ps : List ((Nat × Nat) × String))
    (tl : List String) (m : MapScripts) :
    peRes (emitMapScripts o ps tl (peMapScripts m)) = peRes (emitMapScripts o ps tl m) := by
  unfold emitMapScripts
  have hs : (peMapScripts m).mapScripts.map (·.script) = (m.mapScripts.map (·.script)).map (Option.map peScript) := by
    simp only [peMapScripts, List.map_map]
    rfl
  have h1 : ((peMapScripts m).mapScripts.flatMap fun ms => marker o ms.type ++ [Line.mapScript ms.type.lit ms.name]) =
      (m.mapScripts.flatMap fun ms => marker o ms.type ++ [Line.mapScript ms.type.lit ms.name]) := by
    simp only [peMapScripts, List.flatMap_map, marker_off hm]
    rfl
  have h2 : ((peMapScripts m).tables.flatMap fun t => marker o t.type ++ [Line.mapScript t.type.lit t.name]) =
      (m.tables.flatMap fun t => marker o t.type ++ [Line.mapScript t.type.lit t.name]) := by
    simp only [peMapScripts, List.flatMap_map, marker_off hm]
    rfl
  have h3 : (peMapScripts m).tables = m.tables.map peTable := rfl
  have h4 : (peMapScripts m).name = m.name := rfl
  have h5 : (peMapScripts m).scope = m.scope := rfl
  rw [hs, h1, h2, h3, h4, h5]
  rcases peRes_cases (emitScripts_pe o hm ps tl (m.mapScripts.map (·.script))) with ⟨e', e, k1, k2, k3⟩ | ⟨a, k1, k2⟩
  · simp only [k1, k2, peRes_error, k3]
  · simp only [k1, k2]
    rcases peRes_cases (emitTables_pe o hm ps tl m.tables) with ⟨e', e, k1, k2, k3⟩ | ⟨a', k1, k2⟩
    · simp only [k1, k2, peRes_error, k3]
    · simp only [k1, k2]

theorem emitTops_pe (o : Opts) (hm : o.markers = false) (ps : List ((Nat × Nat) × String)) (tl : List String) :
    ∀ (l : List Top) (i : Nat), peRes (emitTops o ps tl (l.map peTop) i) = peRes (emitTops o ps tl l i)
  | [], i => rfl
  | t :: r, i => by
    have ih := fun j => emitTops_pe o hm ps tl r j
    cases t with
    | text x =>
      simp only [List.map_cons, peTop, emitTops]
      exact ih i
    | script sc =>
      simp only [List.map_cons, peTop, emitTops]
      rcases peRes_cases (emitScript_pe o hm ps tl sc) with ⟨e', e, k1, k2, k3⟩ | ⟨a, k1, k2⟩
      · simp only [k1, k2, peRes_error, k3]
      · simp only [k1, k2]
        rcases peRes_cases (ih (i + 1)) with ⟨e', e, k1, k2, k3⟩ | ⟨a', k1, k2⟩
        · simp only [k1, k2, peRes_error, k3]
        · simp only [k1, k2]
    | raw a b c =>
      simp only [List.map_cons, peTop, emitTops, emitRaw_pe o hm]
      rcases peRes_cases (ih (i + 1)) with ⟨e', e, k1, k2, k3⟩ | ⟨a', k1, k2⟩
      · simp only [k1, k2, peRes_error, k3]
      · simp only [k1, k2]
    | movement m =>
      simp only [List.map_cons, peTop, emitTops, emitMovement_pe o hm]
      rcases peRes_cases (ih (i + 1)) with ⟨e', e, k1, k2, k3⟩ | ⟨a', k1, k2⟩
      · simp only [k1, k2, peRes_error, k3]
      · simp only [k1, k2]
    | mart a b c d e =>
      simp only [List.map_cons, peTop, emitTops, emitMart_pe o hm]
      rcases peRes_cases (ih (i + 1)) with ⟨e', e, k1, k2, k3⟩ | ⟨a', k1, k2⟩
      · simp only [k1, k2, peRes_error, k3]
      · simp only [k1, k2]
    | mapscripts m =>
      simp only [List.map_cons, peTop, emitTops]
      rcases peRes_cases (emitMapScripts_pe o hm ps tl m) with ⟨e', e, k1, k2, k3⟩ | ⟨a, k1, k2⟩
      · simp only [k1, k2, peRes_error, k3]
      · simp only [k1, k2]
        rcases peRes_cases (ih (i + 1)) with ⟨e', e, k1, k2, k3⟩ | ⟨a', k1, k2⟩
        · simp only [k1, k2, peRes_error, k3]
        · simp only [k1, k2]

/-- **With line markers off the emitter does not depend on token positions**: the erased program is emitted to
the same lines; a located error carries the same message (its token erased). -/
theorem emitProgram_pe (o : Opts) (hm : o.markers = false) (p : Program) :
    peRes (emitProgram o (peProgram p)) = peRes (emitProgram o p) := by
  unfold emitProgram
  have h1 : (peProgram p).texts.map (·.name) = p.texts.map (·.name) := by
    simp only [peProgram, List.map_map]
    rfl
  have h2 : (peProgram p).patches = p.patches := rfl
  have h3 : (peProgram p).tops = p.tops.map peTop := rfl
  have h4 : (peProgram p).texts.length = p.texts.length := by simp only [peProgram, List.length_map]
  have h5 : ∀ j, emitText o ((peProgram p).texts.getD j {}) = emitText o (p.texts.getD j {}) := by
    intro j
    have : (peProgram p).texts.getD j {} = peText (p.texts.getD j {}) := by
      simp only [peProgram, List.getD_eq_getElem?_getD, List.getElem?_map]
      cases p.texts[j]? <;> rfl
    rw [this, emitText_pe o hm]
  simp only [h1, h2, h3, h4, h5]
  rcases peRes_cases (emitTops_pe o hm p.patches (p.texts.map (·.name)) p.tops 0) with
    ⟨e', e, k1, k2, k3⟩ | ⟨a, k1, k2⟩
  · simp only [k1, k2, peRes_error, k3]
  · simp only [k1, k2]

/-- Programs that differ only in token positions are emitted to the same lines (markers off). -/
theorem emitProgram_congr (o : Opts) (hm : o.markers = false) {p' p : Program} (h : peProgram p' = peProgram p) :
    peRes (emitProgram o p') = peRes (emitProgram o p) := by
  rw [← emitProgram_pe o hm p', ← emitProgram_pe o hm p, h]

end Pory.L2
