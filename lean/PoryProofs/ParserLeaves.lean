import PoryProofs.ParserTotal
import PoryProofs.TableFacts
import PorySpec.LeafSem
/-
Condition leaves as the parser builds them.

Every `OpExpr` leaf of every condition (`if` / `elif` / `while` / `do…while`) in every script body the
parser produces satisfies `Spec.WellFormedLeaf`: its `type` is `VAR` with a comparison operator
(`== != < <= > >=`), or `FLAG` / `DEFEATED` with operator `==` / `!=` and comparison value `TRUE` /
`FALSE`.

* `leaf_spec` — `parseLeafBooleanExpression` (with `varOp_spec`, `flagOp_spec` for the operator
  parsers); `wf_negated` — `getNegatedBooleanOperator` preserves well-formedness (De Morgan push-down
  of `!( … )`);
* `bool_spec` / `cond_spec` — `parseBooleanExpression` / `parseRightSideExpression`, by induction on fuel;
* `leafAll : ∀ n, LeafAll n` — the 13 functions of the mutual statement block, by simultaneous induction
  on fuel (the pattern of `specAll` in ParserScopes.lean; postconditions here do not mention the state);
* `lf_script_spec`, `lf_tableEntries_spec`, `lf_mapScriptEntries_spec`, `lf_mapscripts_spec`,
  `lf_topLevel_spec`, `lf_topLoop_spec`, `lf_program_spec` — the top level;
* `program_leaves : parseTokens env toks = .ok prog → ∀ t ∈ prog.tops, TopLeaves t`.
Everything is proved for all inputs and all fuel values; nothing is partial.
-/
namespace Pory.Parser
open Pory Pory.Emit

theorem cmp_of_not (t : TT)
    (h : ¬ (t != .GT && t != .GTE && t != .LT && t != .LTE && t != .EQ && t != .NEQ) = true) :
    Spec.isCmpOp t = true := by
  revert h
  cases t <;> decide

theorem varOp_spec (e : OpExpr) (n : Nat) (s : PState) :
    wp (parseConditionVarOperator e n) s
      (fun r _ => r.type = e.type ∧ Spec.isCmpOp r.operator = true) := by
  unfold parseConditionVarOperator
  wpsimp [(frame_valueLoop _ _ _ _).wp_iff, (frame_collectUntilRange _ _ _).wp_iff]
  split
  · exact ⟨trivial, by decide⟩
  · rename_i h
    have hc := cmp_of_not _ h
    repeat' (first | trivial | (intros; split))
    all_goals (intros; exact ⟨trivial, hc⟩)

theorem eqneq_of_not (t : TT) (h : ¬ (t != .EQ && t != .NEQ) = true) : t = .EQ ∨ t = .NEQ := by
  revert h
  cases t <;> decide

theorem tf_of_not (t : TT) (h : ¬ (t != .TRUE && t != .FALSE) = true) :
    t.str = TT.TRUE.str ∨ t.str = TT.FALSE.str := by
  revert h
  cases t <;> decide

theorem flagOp_spec (e : OpExpr) (nm : String) (s : PState) :
    wp (parseConditionFlagLikeOperator e nm) s
      (fun r _ => r.type = e.type ∧ (r.operator = .EQ ∨ r.operator = .NEQ) ∧
        (r.cmpValue = TT.TRUE.str ∨ r.cmpValue = TT.FALSE.str)) := by
  unfold parseConditionFlagLikeOperator
  wpsimp
  split
  · exact ⟨trivial, .inl trivial, .inl trivial⟩
  · rename_i h
    split
    · trivial
    · split
      · trivial
      · rename_i h2
        exact ⟨trivial, eqneq_of_not _ h, tf_of_not _ h2⟩

theorem tail_headD {α} (l : List α) (d : α) : l.tail.headD d = l.getD 1 d := by
  cases l with
  | nil => rfl
  | cons a r => cases r <;> rfl

theorem leaf_spec (env : Env) (sn : String) (n : Nat) (s : PState) :
    wp (parseLeafBooleanExpression env sn n) s (fun r _ => Spec.WellFormedLeaf r.1) := by
  unfold parseLeafBooleanExpression
  wpsimp [wp_spec (peekTokenIsAutoVar_true _ _), (frame_collectUntil _ _ _ _).wp_iff,
    (frame_expectPeekVarOrAutoVar _ _ _).wp_iff, wp_spec (varOp_spec _ _ _), wp_spec (flagOp_spec _ _ _)]
  wpfin [wp_spec (varOp_spec _ _ _), wp_spec (flagOp_spec _ _ _)]
  all_goals (intros)
  all_goals (simp_all [Spec.WellFormedLeaf, Spec.isCmpOp])

theorem negated_cmp (t : TT) (h : Spec.isCmpOp t = true) :
    Spec.isCmpOp (getNegatedBooleanOperator t) = true := by
  revert h
  cases t <;> decide

theorem negated_eqneq (t : TT) (h : t = .EQ ∨ t = .NEQ) :
    getNegatedBooleanOperator t = .EQ ∨ getNegatedBooleanOperator t = .NEQ := by
  rcases h with rfl | rfl <;> decide

theorem wf_negated (e : OpExpr) (h : Spec.WellFormedLeaf e) :
    Spec.WellFormedLeaf { e with operator := getNegatedBooleanOperator e.operator } := by
  rcases h with ⟨h1, h2⟩ | ⟨h1, h2, h3⟩
  · exact .inl ⟨h1, negated_cmp _ h2⟩
  · exact .inr ⟨h1, negated_eqneq _ h2, h3⟩

theorem wf_ifneg (e : OpExpr) (b : Bool) (h : Spec.WellFormedLeaf e) :
    Spec.WellFormedLeaf (if b = true then { e with operator := getNegatedBooleanOperator e.operator } else e) := by
  split
  · exact wf_negated e h
  · exact h

/-! ### conditions -/

theorem condLeaves_leaf {L : OpExpr → Prop} {e : OpExpr} (h : L e) : CondLeaves L (.leaf e) := by
  intro x hx
  simp only [leavesOf, List.mem_singleton] at hx
  exact hx ▸ h

theorem condLeaves_bin {L : OpExpr → Prop} {l r : BoolExpr} {op : TT} (hl : CondLeaves L l)
    (hr : CondLeaves L r) : CondLeaves L (.bin l op r) := by
  intro x hx
  simp only [leavesOf, List.mem_append] at hx
  rcases hx with hx | hx
  · exact hl x hx
  · exact hr x hx

abbrev WFLeaf := Spec.WellFormedLeaf

theorem bool_spec (env : Env) (sn : String) : ∀ n : Nat,
    (∀ single negated s, wp (parseBooleanExpression env sn single negated n) s
      (fun r _ => CondLeaves WFLeaf r.1)) ∧
    (∀ left single negated s, CondLeaves WFLeaf left →
      wp (parseRightSideExpression env sn left single negated n) s (fun r _ => CondLeaves WFLeaf r.1)) := by
  intro n
  induction n with
  | zero =>
    refine ⟨?_, ?_⟩
    · intro a b s; rw [parseBooleanExpression]; wpsimp
    · intro l a b s _; rw [parseRightSideExpression]; wpsimp
  | succ n ih =>
    obtain ⟨ih1, ih2⟩ := ih
    refine ⟨?_, ?_⟩
    · intro a b s
      rw [parseBooleanExpression]
      wpsimp [wp_spec (ih1 _ _ _), wp_spec (leaf_spec _ _ _ _)]
      repeat' (first | trivial | (intros; split))
      all_goals first
        | assumption
        | (apply ih2; assumption)
        | (apply condLeaves_leaf; assumption)
        | (apply condLeaves_leaf; apply wf_negated; assumption)
        | (apply condLeaves_leaf; apply wf_ifneg; assumption)
        | (apply ih2; apply condLeaves_leaf; assumption)
        | (apply ih2; apply condLeaves_leaf; apply wf_negated; assumption)
        | (apply ih2; apply condLeaves_leaf; apply wf_ifneg; assumption)
    · intro l a b s hl
      rw [parseRightSideExpression]
      wpsimp [wp_spec (ih1 _ _ _)]
      repeat' (first | trivial | (intros; split))
      all_goals first
        | assumption
        | (apply ih2; apply condLeaves_bin <;> assumption)
        | (apply condLeaves_bin <;> assumption)

theorem cond_spec (env : Env) (sn : String) (single negated : Bool) (n : Nat) (s : PState) :
    wp (parseBooleanExpression env sn single negated n) s (fun r _ => CondLeaves WFLeaf r.1) :=
  (bool_spec env sn n).1 single negated s

/-! ### statements -/

abbrev LL (l : List Stmt) : Prop := LeavesL WFLeaf l

theorem LL.nil : LL [] := trivial

theorem LL.append {a b : List Stmt} (ha : LL a) (hb : LL b) : LL (a ++ b) :=
  (LeavesL_append a b).2 ⟨ha, hb⟩

theorem LL.single {x : Stmt} (h : LeavesS WFLeaf x) : LL [x] := ⟨h, trivial⟩

theorem leavesE_snoc {a : List (BoolExpr × List Stmt)} {c : BoolExpr} {b : List Stmt}
    (ha : LeavesE WFLeaf a) (hc : CondLeaves WFLeaf c) (hb : LL b) : LeavesE WFLeaf (a ++ [(c, b)]) := by
  induction a with
  | nil => exact ⟨hc, hb, trivial⟩
  | cons x r ih =>
    obtain ⟨c', b'⟩ := x
    rw [List.cons_append, leavesE_cons]
    rw [leavesE_cons] at ha
    exact ⟨ha.1, ha.2.1, ih ha.2.2⟩

theorem leavesC_snoc {a : List SwitchCase} {t : Tok} {d : Bool} {b : List Stmt}
    (ha : LeavesC WFLeaf a) (hb : LL b) : LeavesC WFLeaf (a ++ [(t, d, b)]) := by
  induction a with
  | nil => exact ⟨hb, trivial⟩
  | cons x r ih =>
    obtain ⟨t', d', b'⟩ := x
    rw [List.cons_append, leavesC_cons]
    rw [leavesC_cons] at ha
    exact ⟨ha.1, ih ha.2⟩

/-- postcondition of the statement-level functions -/
abbrev SPost : List Stmt × ImpData → PState → Prop := fun r _ => LL r.1

/-- The leaf invariant of the whole mutual block at fuel `n`. -/
structure LeafAll (n : Nat) : Prop where
  block : ∀ env sn tok acc imp s, LL acc → wp (parseBlockStatement env sn tok n acc imp) s SPost
  swblock : ∀ env sn tok acc imp s, LL acc → wp (parseSwitchBlockStatement env sn tok n acc imp) s SPost
  stmt : ∀ env sn s, wp (parseStatement env sn n) s SPost
  cond : ∀ env sn req s, wp (parseConditionExpression env sn req n) s
    (fun r _ => (∀ c, r.1 = some c → CondLeaves WFLeaf c) ∧ LL r.2.1)
  elifs : ∀ env sn acc imp s, LeavesE WFLeaf acc →
    wp (parseElifs env sn n acc imp) s (fun r _ => LeavesE WFLeaf r.1)
  ifs : ∀ env sn s, wp (parseIfStatement env sn n) s SPost
  whiles : ∀ env sn s, wp (parseWhileStatement env sn n) s SPost
  doWhiles : ∀ env sn s, wp (parseDoWhileStatement env sn n) s SPost
  cases : ∀ env sn tok cs vals hd imp s, LeavesC WFLeaf cs →
    wp (parseSwitchCases env sn tok n cs vals hd imp) s (fun r _ => LeavesC WFLeaf r.1)
  switch : ∀ env sn s, wp (parseSwitchStatement env sn n) s SPost
  pory : ∀ env sn s, wp (parsePoryswitchStatement env sn n) s SPost
  poryCases : ∀ env sn tok acc s, (∀ e ∈ acc, LL e.2.1) →
    wp (parsePoryswitchStatementCases env sn tok n acc) s (fun r _ => ∀ e ∈ r, LL e.2.1)
  poryStmts : ∀ env sn am acc imp s, LL acc → wp (parsePoryswitchStatements env sn am n acc imp) s SPost

theorem LL.cmd (c : Cmd) : LL [.cmd c] := ⟨trivial, trivial⟩
theorem LL.label (t : Tok) (nm : String) (g : Bool) : LL [.label t nm g] := ⟨trivial, trivial⟩
theorem LL.brk (t : Tok) (sid : Nat) : LL [.brk t sid] := ⟨trivial, trivial⟩
theorem LL.cont (t : Tok) (sid : Nat) : LL [.cont t sid] := ⟨trivial, trivial⟩

theorem LL.while_ (t : Tok) (sid : Nat) {o : Option BoolExpr} {b : List Stmt}
    (ho : ∀ c, o = some c → CondLeaves WFLeaf c) (hb : LL b) : LL [.while_ t sid o b] := by
  refine ⟨?_, trivial⟩
  rw [leavesS_while]
  cases o with
  | none => exact ⟨trivial, hb⟩
  | some c => exact ⟨ho c rfl, hb⟩

theorem LL.doWhile (t : Tok) (sid : Nat) {c : BoolExpr} {b : List Stmt}
    (hc : CondLeaves WFLeaf c) (hb : LL b) : LL [.doWhile t sid c b] := ⟨⟨hc, hb⟩, trivial⟩

theorem LL.switch_ (t : Tok) (sid : Nat) (op : Tok) {cs : List SwitchCase}
    (hc : LeavesC WFLeaf cs) : LL [.switch_ t sid op cs] := ⟨hc, trivial⟩

theorem LL.ite (tok : Tok) {c : BoolExpr} {t : List Stmt} {el : List (BoolExpr × List Stmt)}
    {els : Option (List Stmt)} (hc : CondLeaves WFLeaf c) (ht : LL t) (hel : LeavesE WFLeaf el)
    (hels : ∀ e, els = some e → LL e) : LL [.ite tok c t el els] := by
  refine ⟨?_, trivial⟩
  rw [leavesS_ite]
  cases els with
  | none => exact ⟨hc, ht, hel, trivial⟩
  | some e => exact ⟨hc, ht, hel, hels e rfl⟩

theorem lf_while_step {n : Nat} (ih : LeafAll n) (env : Env) (sn : String) (s : PState) :
    wp (parseWhileStatement env sn (n + 1)) s SPost := by
  rw [parseWhileStatement]
  swp [wp_spec (ih.cond _ _ _ _)]
  intro a s' _ h
  exact LL.while_ _ _ h.1 h.2

theorem lf_doWhile_step {n : Nat} (ih : LeafAll n) (env : Env) (sn : String) (s : PState) :
    wp (parseDoWhileStatement env sn (n + 1)) s SPost := by
  rw [parseDoWhileStatement]
  swp [wp_spec (ih.block _ _ _ [] _ _ LL.nil), wp_spec (cond_spec _ _ _ _ _ _)]
  repeat' (first | trivial | (intros; split))
  all_goals (intros; apply LL.doWhile <;> assumption)

theorem lf_stmt_step {n : Nat} (ih : LeafAll n) (env : Env) (sn : String) (s : PState) :
    wp (parseStatement env sn (n + 1)) s SPost := by
  rw [parseStatement]
  swp
  split
  · -- IDENT
    swp [wp_spec (tryParseLabel_spec _)]
    intro a s' _ h
    obtain ⟨⟨l, k, rfl⟩, hl⟩ := h
    cases a with
    | some st =>
      obtain ⟨t, nm, g, rfl⟩ := hl st rfl
      swp
      exact LL.label _ _ _
    | none =>
      swp [(frame_parseCommandStatement _ _ _).wp_iff]
      intro a l k _
      exact LL.cmd _
  · exact ih.ifs env sn s
  · exact ih.whiles env sn s
  · exact ih.doWhiles env sn s
  · -- BREAK
    swp
    split
    · swp
    · swp
      exact LL.brk _ _
  · -- CONTINUE
    swp
    split
    · swp
    · swp
      split
      · trivial
      · exact LL.cont _ _
  · exact ih.switch env sn s
  · exact ih.pory env sn s
  · swp

theorem lf_block_step {n : Nat} (ih : LeafAll n) (env : Env) (sn : String) (tok : Tok) (acc : List Stmt)
    (imp : ImpData) (s : PState) (hacc : LL acc) :
    wp (parseBlockStatement env sn tok (n + 1) acc imp) s SPost := by
  rw [parseBlockStatement]
  swp [wp_spec (ih.stmt _ _ _)]
  split
  · exact hacc
  · split
    · trivial
    · intro a s' _ h
      exact ih.block env sn tok (acc ++ a.1) _ _ (hacc.append h)

theorem lf_swblock_step {n : Nat} (ih : LeafAll n) (env : Env) (sn : String) (tok : Tok) (acc : List Stmt)
    (imp : ImpData) (s : PState) (hacc : LL acc) :
    wp (parseSwitchBlockStatement env sn tok (n + 1) acc imp) s SPost := by
  rw [parseSwitchBlockStatement]
  swp [wp_spec (ih.stmt _ _ _)]
  split
  · exact hacc
  · split
    · trivial
    · intro a s' _ h
      exact ih.swblock env sn tok (acc ++ a.1) _ _ (hacc.append h)

theorem lf_cond_step {n : Nat} (ih : LeafAll n) (env : Env) (sn : String) (req : Bool) (s : PState) :
    wp (parseConditionExpression env sn req (n + 1)) s
      (fun r _ => (∀ c, r.1 = some c → CondLeaves WFLeaf c) ∧ LL r.2.1) := by
  rw [parseConditionExpression]
  swp [wp_spec (ih.block _ _ _ [] _ _ LL.nil), wp_spec (cond_spec _ _ _ _ _ _)]
  repeat' (first | trivial | (intros; split))
  · intro a s' _ hc _ b s1 _ hb
    exact ⟨fun c hcc => (by cases hcc; exact hc), hb⟩
  · intro _ a s' _ hb
    exact ⟨fun c hcc => (by cases hcc), hb⟩

theorem lf_elifs_step {n : Nat} (ih : LeafAll n) (env : Env) (sn : String)
    (acc : List (BoolExpr × List Stmt)) (imp : ImpData) (s : PState) (hacc : LeavesE WFLeaf acc) :
    wp (parseElifs env sn (n + 1) acc imp) s (fun r _ => LeavesE WFLeaf r.1) := by
  rw [parseElifs]
  swp [wp_spec (ih.cond _ _ _ _)]
  split
  · exact hacc
  · intro a s' _ h
    split
    · swp
    · rename_i e he
      exact ih.elifs env sn _ _ _ (leavesE_snoc hacc (h.1 e he) h.2)

theorem lf_if_step {n : Nat} (ih : LeafAll n) (env : Env) (sn : String) (s : PState) :
    wp (parseIfStatement env sn (n + 1)) s SPost := by
  rw [parseIfStatement]
  swp [wp_spec (ih.cond _ _ _ _)]
  intro a s1 _ h
  split
  · rename_i c hc
    swp [wp_spec (ih.elifs _ _ [] _ _ trivial), wp_spec (ih.block _ _ _ [] _ _ LL.nil)]
    intro b s2 _ hel
    split
    · split
      · intro e s3 _ he
        exact LL.ite _ (h.1 c hc) h.2 hel (fun e' he' => by cases he'; exact he)
      · trivial
    · exact LL.ite _ (h.1 c hc) h.2 hel (fun e' he' => by cases he')
  · swp

theorem lf_cases_step {n : Nat} (ih : LeafAll n) (env : Env) (sn : String) (tok : Tok)
    (cs : List SwitchCase) (vals : List String) (hd : Bool) (imp : ImpData) (s : PState)
    (hcs : LeavesC WFLeaf cs) :
    wp (parseSwitchCases env sn tok (n + 1) cs vals hd imp) s (fun r _ => LeavesC WFLeaf r.1) := by
  rw [parseSwitchCases]
  swp [(frame_collectUntil _ _ _ _).wp_iff, wp_spec (ih.swblock _ _ _ [] _ _ LL.nil)]
  repeat' (first | trivial | (intros; split))
  all_goals first
    | exact hcs
    | (intros; apply ih.cases; apply leavesC_snoc hcs; assumption)

theorem lf_switch_step {n : Nat} (ih : LeafAll n) (env : Env) (sn : String) (s : PState) :
    wp (parseSwitchStatement env sn (n + 1)) s SPost := by
  rw [parseSwitchStatement]
  swp [(frame_expectPeekVarOrAutoVar _ _ _).wp_iff]
  split
  · intro a l k _
    split
    · -- `var(...)` operand
      swp [(frame_switchOperandLoop _ _ _).wp_iff, wp_spec (ih.cases _ _ _ [] [] false _ _ trivial)]
      repeat' (first | trivial | (intros; split))
      all_goals (intros; apply LL.switch_; assumption)
    · -- auto-var operand
      swp [wp_spec (ih.cases _ _ _ [] [] false _ _ trivial)]
      repeat' (first | trivial | (intros; split))
      all_goals (intros; exact (LL.cmd _).append (LL.switch_ _ _ _ (by assumption)))
  · trivial

theorem lf_pory_step {n : Nat} (ih : LeafAll n) (env : Env) (sn : String) (s : PState) :
    wp (parsePoryswitchStatement env sn (n + 1)) s SPost := by
  rw [parsePoryswitchStatement]
  swp [(frame_parsePoryswitchHeader _).wp_iff,
    wp_spec (ih.poryCases _ _ _ [] _ (fun _ he => absurd he List.not_mem_nil))]
  intro hdr l k _ cs s' _ hall
  split
  · rename_i r hr
    swp
    obtain ⟨key, hmem⟩ := selectCase_mem hr
    exact hall _ hmem
  · swp
    split
    · trivial
    · exact LL.nil

theorem lf_poryCases_step {n : Nat} (ih : LeafAll n) (env : Env) (sn : String) (tok : Tok)
    (acc : List (String × List Stmt × ImpData)) (s : PState) (hacc : ∀ e ∈ acc, LL e.2.1) :
    wp (parsePoryswitchStatementCases env sn tok (n + 1) acc) s (fun r _ => ∀ e ∈ r, LL e.2.1) := by
  rw [parsePoryswitchStatementCases]
  swp [wp_spec (ih.poryStmts _ _ _ [] _ _ LL.nil)]
  have hrec : ∀ (lit : String) (a : List Stmt × ImpData) (s'' : PState), LL a.1 →
      wp (parsePoryswitchStatementCases env sn tok n ((lit, a.1, a.2) :: acc)) s''
        (fun r _ => ∀ e ∈ r, LL e.2.1) := by
    intro lit a s'' ha
    apply ih.poryCases
    intro e he
    rcases List.mem_cons.1 he with rfl | he
    · exact ha
    · exact hacc e he
  repeat' (first | trivial | (intros; split))
  all_goals first
    | exact hacc
    | (intros; apply hrec; assumption)

theorem lf_poryStmts_step {n : Nat} (ih : LeafAll n) (env : Env) (sn : String) (am : Bool)
    (acc : List Stmt) (imp : ImpData) (s : PState) (hacc : LL acc) :
    wp (parsePoryswitchStatements env sn am (n + 1) acc imp) s SPost := by
  rw [parsePoryswitchStatements]
  swp [wp_spec (ih.stmt _ _ _), wp_spec (ih.pory _ _ _)]
  repeat' (first | trivial | (intros; split))
  all_goals first
    | exact hacc
    | (intros; apply LL.append hacc; assumption)
    | (intros; apply ih.poryStmts; apply LL.append hacc; assumption)

/-- **The leaf invariant** of the statement block, for every fuel. -/
theorem leafAll : ∀ n : Nat, LeafAll n
  | 0 =>
    { block := by intros; rw [parseBlockStatement]; swp
      swblock := by intros; rw [parseSwitchBlockStatement]; swp
      stmt := by intros; rw [parseStatement]; swp
      cond := by intros; rw [parseConditionExpression]; swp
      elifs := by intros; rw [parseElifs]; swp
      ifs := by intros; rw [parseIfStatement]; swp
      whiles := by intros; rw [parseWhileStatement]; swp
      doWhiles := by intros; rw [parseDoWhileStatement]; swp
      cases := by intros; rw [parseSwitchCases]; swp
      switch := by intros; rw [parseSwitchStatement]; swp
      pory := by intros; rw [parsePoryswitchStatement]; swp
      poryCases := by intros; rw [parsePoryswitchStatementCases]; swp
      poryStmts := by intros; rw [parsePoryswitchStatements]; swp }
  | n + 1 =>
    have ih := leafAll n
    { block := lf_block_step ih
      swblock := lf_swblock_step ih
      stmt := lf_stmt_step ih
      cond := lf_cond_step ih
      elifs := lf_elifs_step ih
      ifs := lf_if_step ih
      whiles := lf_while_step ih
      doWhiles := lf_doWhile_step ih
      cases := lf_cases_step ih
      switch := lf_switch_step ih
      pory := lf_pory_step ih
      poryCases := lf_poryCases_step ih
      poryStmts := lf_poryStmts_step ih }


/-! ### top level -/

/-- An optional (inline) script has well-formed leaves. -/
def ScriptLeaves (o : Option Script) : Prop := ∀ scr, o = some scr → LL scr.body

theorem ScriptLeaves.none : ScriptLeaves none := fun _ h => by cases h
theorem ScriptLeaves.some {scr : Script} (h : LL scr.body) : ScriptLeaves (some scr) :=
  fun _ hs => by cases hs; exact h

def MSLeaves (mss : List MapScript) (tables : List TableMapScript) : Prop :=
  (∀ m ∈ mss, ScriptLeaves m.script) ∧ (∀ t ∈ tables, ∀ e ∈ t.entries, ScriptLeaves e.script)

theorem MSLeaves.nil : MSLeaves [] [] :=
  ⟨fun _ h => absurd h List.not_mem_nil, fun _ h => absurd h List.not_mem_nil⟩

/-- what the leaf invariant says about one top-level statement -/
def TopLeaves : Top → Prop
  | .script scr => LL scr.body
  | .mapscripts m => MSLeaves m.mapScripts m.tables
  | _ => True

theorem lf_script_spec (env : Env) (fuel : Nat) (s : PState) :
    wp (parseScriptStatement env fuel) s (fun r _ => LL r.1.body) := by
  unfold parseScriptStatement
  swp [(frame_parseScopeModifier _).wp_iff, wp_spec ((leafAll fuel).block _ _ _ [] _ _ LL.nil)]
  vc

theorem lf_tableEntries_spec (env : Env) (ms ty : String) : ∀ (n i : Nat) (acc : List TableEntry)
    (imp : ImpData) (s : PState), (∀ e ∈ acc, ScriptLeaves e.script) →
    wp (parseTableEntries env ms ty n i acc imp) s (fun r _ => ∀ e ∈ r.1, ScriptLeaves e.script) := by
  intro n
  induction n with
  | zero => intro i acc imp s _; rw [parseTableEntries]; swp
  | succ n ih =>
    intro i acc imp s hacc
    have hrec : ∀ (e : TableEntry) (s'' : PState) (i' : Nat) (imp' : ImpData), ScriptLeaves e.script →
        wp (parseTableEntries env ms ty n i' (acc ++ [e]) imp') s''
          (fun r _ => ∀ e ∈ r.1, ScriptLeaves e.script) := by
      intro e s'' i' imp' he
      apply ih
      intro x hx
      rcases List.mem_append.1 hx with hx | hx
      · exact hacc x hx
      · rw [List.mem_singleton] at hx; subst hx; exact he
    rw [parseTableEntries]
    swp [(frame_tableCollect _ _ _ _).wp_iff, wp_spec ((leafAll n).block _ _ _ [] _ _ LL.nil)]
    repeat' (first | trivial | (intros; split))
    all_goals first
      | exact hacc
      | (intros; apply hrec; exact ScriptLeaves.none)
      | (intros; apply hrec; apply ScriptLeaves.some; assumption)

theorem lf_mapScriptEntries_spec (env : Env) (ms : String) : ∀ (n : Nat) (mss : List MapScript)
    (tables : List TableMapScript) (imp : ImpData) (s : PState), MSLeaves mss tables →
    wp (parseMapScriptEntries env ms n mss tables imp) s (fun r _ => MSLeaves r.1 r.2.1) := by
  intro n
  induction n with
  | zero => intro mss tables imp s _; rw [parseMapScriptEntries]; swp
  | succ n ih =>
    intro mss tables imp s hacc
    have hrec1 : ∀ (m : MapScript) (s'' : PState) (imp' : ImpData), ScriptLeaves m.script →
        wp (parseMapScriptEntries env ms n (mss ++ [m]) tables imp') s''
          (fun r _ => MSLeaves r.1 r.2.1) := by
      intro m s'' imp' hm
      apply ih
      refine ⟨?_, hacc.2⟩
      intro x hx
      rcases List.mem_append.1 hx with hx | hx
      · exact hacc.1 x hx
      · rw [List.mem_singleton] at hx; subst hx; exact hm
    have hrec2 : ∀ (t : TableMapScript) (s'' : PState) (imp' : ImpData),
        (∀ e ∈ t.entries, ScriptLeaves e.script) →
        wp (parseMapScriptEntries env ms n mss (tables ++ [t]) imp') s''
          (fun r _ => MSLeaves r.1 r.2.1) := by
      intro t s'' imp' ht
      apply ih
      refine ⟨hacc.1, ?_⟩
      intro x hx e he
      rcases List.mem_append.1 hx with hx | hx
      · exact hacc.2 x hx e he
      · rw [List.mem_singleton] at hx; subst hx; exact ht e he
    rw [parseMapScriptEntries]
    swp [wp_spec ((leafAll n).block _ _ _ [] _ _ LL.nil),
      wp_spec (lf_tableEntries_spec _ _ _ _ _ [] _ _ (fun _ h => absurd h List.not_mem_nil))]
    repeat' (first | trivial | (intros; split))
    all_goals first
      | exact hacc
      | (intros; apply hrec1; exact ScriptLeaves.none)
      | (intros; apply hrec1; apply ScriptLeaves.some; assumption)
      | (intros; apply hrec2; assumption)

theorem lf_mapscripts_spec (env : Env) (fuel : Nat) (s : PState) :
    wp (parseMapscriptsStatement env fuel) s (fun r _ => MSLeaves r.1.mapScripts r.1.tables) := by
  unfold parseMapscriptsStatement
  swp [(frame_parseScopeModifier _).wp_iff, wp_spec (lf_mapScriptEntries_spec _ _ _ [] [] _ _ MSLeaves.nil)]
  vc

theorem lf_raw (s : PState) : wp parseRawStatement s (fun r _ => TopLeaves r) := by
  unfold parseRawStatement
  swp
  vc
  all_goals (intros; trivial)

theorem lf_text (env : Env) (n : Nat) (s : PState) :
    wp (parseTextStatement env n) s (fun r _ => TopLeaves r) := by
  unfold parseTextStatement
  swp [(frame_parseScopeModifier _).wp_iff, (frame_parsePoryswitchTextStatement _ _).wp_iff,
    (frame_parseTextValue _ _).wp_iff, wp_modify]
  vc
  all_goals (intros; trivial)

theorem lf_movement (env : Env) (n : Nat) (s : PState) :
    wp (parseMovementStatement env n) s (fun r _ => TopLeaves r) := by
  unfold parseMovementStatement
  swp [(frame_parseScopeModifier _).wp_iff, (frame_parseListValue _ _ _ _ _).wp_iff]
  vc
  all_goals (intros; trivial)

theorem lf_mart (env : Env) (n : Nat) (s : PState) :
    wp (parseMartStatement env n) s (fun r _ => TopLeaves r) := by
  unfold parseMartStatement
  swp [(frame_parseScopeModifier _).wp_iff, (frame_parseListValue _ _ _ _ _).wp_iff,
    (frame_mapM_tryReplace _).wp_iff]
  vc
  all_goals (intros; trivial)

theorem lf_topLevel_spec (env : Env) (fuel : Nat) (s : PState) :
    wp (parseTopLevelStatement env fuel) s (fun r _ => ∀ t, r = some t → TopLeaves t) := by
  unfold parseTopLevelStatement
  swp
  split
  · -- script
    swp [wp_spec (lf_script_spec _ _ _)]
    intro a s1 _ h
    refine wp_mono (wp_true _ _) ?_
    intro u s2 _
    try swp
    intro t ht; cases ht
    exact h
  · swp [wp_spec (lf_raw s)]
    intro a s' _ h t ht; cases ht; exact h
  · swp [wp_spec (lf_text env fuel s)]
    intro a s' _ h t ht; cases ht; exact h
  · swp [wp_spec (lf_movement env fuel s)]
    intro a s' _ h t ht; cases ht; exact h
  · swp [wp_spec (lf_mart env fuel s)]
    intro a s' _ h t ht; cases ht; exact h
  · -- mapscripts
    swp [wp_spec (lf_mapscripts_spec _ _ _)]
    intro a s1 _ h
    refine wp_mono (wp_true _ _) ?_
    intro u s2 _
    try swp
    intro t ht; cases ht
    exact h
  · swp
    intro a s1 _ t ht
    cases ht
  · swp

theorem lf_topLoop_spec (env : Env) (fuel : Nat) : ∀ (n : Nat) (acc : List Top) (s : PState),
    (∀ t ∈ acc, TopLeaves t) → wp (topLoop env fuel n acc) s (fun r _ => ∀ t ∈ r, TopLeaves t) := by
  intro n
  induction n with
  | zero => intro acc s _; rw [topLoop]; swp
  | succ n ih =>
    intro acc s hacc
    rw [topLoop]
    swp [wp_spec (lf_topLevel_spec _ _ _)]
    split
    · exact hacc
    · intro a s' _ h
      apply ih
      intro t ht
      cases a with
      | none => exact hacc t ht
      | some x =>
        rcases List.mem_append.1 ht with ht | ht
        · exact hacc t ht
        · rw [List.mem_singleton] at ht; subst ht
          exact h _ rfl

/-- `ParseProgram`: every condition leaf of every script of the result is well formed. -/
theorem lf_program_spec (env : Env) (fuel : Nat) (s : PState) :
    wp (parseProgramM env fuel) s (fun r _ => ∀ t ∈ r.tops, TopLeaves t) := by
  unfold parseProgramM
  swp [wp_spec (lf_topLoop_spec _ _ _ [] _ (fun _ h => absurd h List.not_mem_nil))]
  intro tops s' _ hw
  have key : ∀ t ∈ tops ++ List.map Top.movement s'.inlineMovements, TopLeaves t := by
    intro t ht
    rcases List.mem_append.1 ht with ht | ht
    · exact hw t ht
    · obtain ⟨m, _, rfl⟩ := List.mem_map.1 ht
      trivial
  repeat' (first | trivial | (intros; split))
  all_goals first | swp | skip
  all_goals first | exact key | skip

theorem program_leaves {env : Env} {toks : List Tok} {prog : Program}
    (h : parseTokens env toks = .ok prog) : ∀ t ∈ prog.tops, TopLeaves t := by
  unfold parseTokens at h
  simp only [StateT.run'] at h
  generalize hr : (parseProgramM env (4 * toks.length + 50))
    { toks := toks, eof := toks.getLastD { type := .EOF } } = res at h
  cases res with
  | error e => simp [Functor.map, Except.map] at h
  | ok r =>
    obtain ⟨p, s'⟩ := r
    simp only [Functor.map, Except.map, Except.ok.injEq] at h
    subst h
    exact lf_program_spec env _ _ p s' hr

/-! ### non-vacuity: `script S { if (!flag(A) && var(B) > 3) { } }` -/
section Example
private def tk (t : TT) (l : String := "") : Tok := { type := t, lit := l }
private def exToks : List Tok :=
  [tk .SCRIPT, tk .IDENT "S", tk .LBRACE, tk .IF, tk .LPAREN, tk .NOT, tk .FLAG, tk .LPAREN, tk .IDENT "A",
   tk .RPAREN, tk .AND, tk .VAR, tk .LPAREN, tk .IDENT "B", tk .RPAREN, tk .GT, tk .INT "3", tk .RPAREN,
   tk .LBRACE, tk .RBRACE, tk .RBRACE, tk .EOF]

example : ∃ prog, parseTokens {} exToks = .ok prog ∧ prog.tops.length = 1 ∧ ∀ t ∈ prog.tops, TopLeaves t := by
  refine ⟨_, rfl, rfl, ?_⟩
  exact program_leaves (env := {}) (toks := exToks) rfl
end Example

#print axioms leaf_spec
#print axioms leafAll
#print axioms program_leaves

end Pory.Parser
