import PoryProofs.LexPrintChars
/-
Helpers for L1 (`PoryProofs/Properties/L1.lean`), part 1: the token classes the lexer can produce
from their own literal, their source spelling, and "one `nextToken` call reads the spelling back".

* `fixedToks`, `identLit`, `decLit`, `negLit`, `hexLit`, `strChar`, `rawLit`, `tokOK` / `TokOK`
  (decidable): the per-token condition.  `tokOKw L D` is the condition over arbitrary letter / digit
  predicates; `tokOK = tokOKw isLetter isDigit`, and `tokOKfast = tokOKw isLetterL isDigitL` (tables as
  lists, `LexPrintChars.lean`) is what the `Decidable` instance evaluates, so `decide +kernel` works on
  concrete tokens;
* `Cls ty lit`: the same as an inductive classification (one constructor per lexeme class), and
  `TokOK.cls`;
* `textOf ty lit` / `text t`: the source spelling (string literals re-quoted, raw strings in
  back-quotes, everything else its literal);
* `TailOK ty tail` / `Reads lex toks ty`: what may follow a spelling inside a rendering (nothing, or
  whitespace; after a string literal the next non-blank character is not a quote) and the statement
  that one call of the counter-free lexer `nextE` reads exactly `toks` from `lex ++ tail`;
* `Cls.reads`, `reads_typed`: every class is read back (from the `LexemeAt` lemmas of
  `LexLayout.lean` / `LexString.lean`), a string type directly followed by its literal is read back
  as the pair; `Cls.head`: the first character of a spelling is not whitespace and is a quote only for
  `STRING`.
-/
namespace Pory.L1
open Pory Pory.Lexer Pory.LexPos Pory.LexLayout Pory.LexString Pory.C19b

/-! ### The per-token condition -/

/-- punctuation and operators with their fixed literal -/
def fixedToks : List (TT × String) :=
  punct.map (fun p => (p.2, String.singleton p.1)) ++
    (cmp1.map (fun p => (p.2, String.singleton p.1)) ++
      ops2.map (fun p => (p.2.2, String.ofList [p.1, p.2.1])))

theorem fixedToks_eq : fixedToks =
    [(.MUL, "*"), (.LPAREN, "("), (.RPAREN, ")"), (.LBRACKET, "["), (.RBRACKET, "]"), (.COMMA, ","),
      (.COLON, ":"), (.LBRACE, "{"), (.RBRACE, "}"),
      (.ASSIGN, "="), (.NOT, "!"), (.LT, "<"), (.GT, ">"),
      (.EQ, "=="), (.NEQ, "!="), (.LTE, "<="), (.GTE, ">="), (.AND, "&&"), (.OR, "||")] := by decide

/-- identifier class over given letter / digit predicates: a letter, then letters and digits -/
def identLitW (L D : Char → Bool) : List Char → Bool
  | [] => false
  | c :: cs => L c && cs.all fun x => L x || D x

/-- a non-empty run of digits -/
def decLitW (D : Char → Bool) : List Char → Bool
  | [] => false
  | c :: ds => D c && ds.all D

/-- `-` directly followed by a non-empty run of digits -/
def negLitW (D : Char → Bool) : List Char → Bool
  | a :: c :: ds => a == '-' && D c && ds.all D
  | _ => false

/-- the lexer's identifier class: a letter (Unicode letter or `_`), then letters and Unicode digits -/
def identLit : List Char → Bool := identLitW isLetter isDigit
/-- decimal number as `readNumber` reads it: a non-empty run of (Unicode) digits -/
def decLit : List Char → Bool := decLitW isDigit
/-- `-` directly followed by digits -/
def negLit : List Char → Bool := negLitW isDigit

/-- `0x` followed by (possibly no) hexadecimal digits -/
def hexLit : List Char → Bool
  | a :: b :: hs => a == '0' && b == 'x' && hs.all isHexDigit
  | _ => false

/-- a character that stands for itself inside a string literal: anything except the quote, NUL and
the two line-break characters (a backslash is an ordinary character for the lexer) -/
def strChar (c : Char) : Bool := c != '"' && c != NUL && c != '\n' && c != '\r'

/-- a raw-string body that is its own literal: no back-quote, no NUL, no trailing white space -/
def rawLit (l : List Char) : Bool := l.all rawP && trimRightSpace l == l

/-- `tokOK` over given letter / digit predicates (cheap tests first, so that it evaluates quickly) -/
def tokOKw (L D : Char → Bool) (t : Tok) : Bool :=
  decide ((t.type, t.lit) ∈ fixedToks)
  || ((t.type == getIdentType t.lit || t.type == .STRINGTYPE) && identLitW L D t.lit.toList)
  || (t.type == .INT && (hexLit t.lit.toList || negLitW D t.lit.toList || decLitW D t.lit.toList))
  || (t.type == .STRING && t.lit.toList.all strChar)
  || (t.type == .RAWSTRING && rawLit t.lit.toList)

/-- **TokOK**, as a Boolean. -/
def tokOK (t : Tok) : Bool := tokOKw isLetter isDigit t

/-- the same over the list form of the Unicode tables: this one evaluates in the kernel -/
def tokOKfast (t : Tok) : Bool := tokOKw isLetterL isDigitL t

theorem tokOKfast_eq (t : Tok) : tokOKfast t = tokOK t := by
  unfold tokOKfast tokOK
  rw [isLetterL_eq, isDigitL_eq]

/-- **TokOK**: the token is one the lexer produces from its own literal.
* punctuation / operator types with their fixed literal (`fixedToks`);
* a literal of the identifier class with the type `getIdentType` gives it — `IDENT` when it is not a
  keyword, the keyword's type when it is (`Facts.keywords`) — or with type `STRINGTYPE` (then the
  rendering puts it directly in front of the following string literal);
* `INT` with a decimal, negative decimal or hexadecimal literal;
* `STRING` whose literal has no quote, NUL, newline, carriage return;
* `RAWSTRING` whose literal has no back-quote, NUL and no trailing white space. -/
def TokOK (t : Tok) : Prop := tokOK t = true

/-- decided through `tokOKfast`, so that `decide +kernel` works on concrete tokens -/
instance (t : Tok) : Decidable (TokOK t) :=
  decidable_of_iff (tokOKfast t = true) (by rw [tokOKfast_eq]; rfl)

theorem TokOK.of_fast {t : Tok} (h : tokOKfast t = true) : TokOK t := by
  rw [tokOKfast_eq] at h; exact h

/-! ### The classes, inductively -/

/-- `Cls ty lit`: type `ty` with the literal characters `lit` is one of the lexeme classes. -/
inductive Cls : TT → List Char → Prop
  | punct (c : Char) (ty : TT) : (c, ty) ∈ punct → Cls ty [c]
  | cmp1 (c : Char) (ty : TT) : (c, ty) ∈ cmp1 → Cls ty [c]
  | ops2 (c d : Char) (ty : TT) : (c, d, ty) ∈ ops2 → Cls ty [c, d]
  | ident (c : Char) (cs : List Char) : isLetter c = true → (∀ x ∈ cs, identP x = true) →
      Cls (getIdentType (String.ofList (c :: cs))) (c :: cs)
  | styp (c : Char) (cs : List Char) : isLetter c = true → (∀ x ∈ cs, identP x = true) →
      Cls .STRINGTYPE (c :: cs)
  | dec (c : Char) (ds : List Char) : isDigit c = true → (∀ x ∈ ds, isDigit x = true) →
      Cls .INT (c :: ds)
  | neg (c : Char) (ds : List Char) : isDigit c = true → (∀ x ∈ ds, isDigit x = true) →
      Cls .INT ('-' :: c :: ds)
  | hex (hs : List Char) : (∀ x ∈ hs, isHexDigit x = true) → Cls .INT ('0' :: 'x' :: hs)
  | str (src : List Char) : (∀ x ∈ src, strChar x = true) → Cls .STRING src
  | raw (body : List Char) : (∀ x ∈ body, rawP x = true) → trimRightSpace body = body →
      Cls .RAWSTRING body

theorem all_iff {P : Char → Bool} {l : List Char} : l.all P = true ↔ ∀ x ∈ l, P x = true := by
  simp

theorem TokOK.cls {t : Tok} (h : TokOK t) : Cls t.type t.lit.toList := by
  unfold TokOK tokOK tokOKw at h
  simp only [Bool.or_eq_true, Bool.and_eq_true, decide_eq_true_eq, beq_iff_eq] at h
  rcases h with (((h | h) | h) | h) | h
  · simp only [fixedToks, List.mem_append, List.mem_map] at h
    rcases h with ⟨⟨c, ty⟩, hp, he⟩ | ⟨⟨c, ty⟩, hp, he⟩ | ⟨⟨c, d, ty⟩, hp, he⟩
    · simp only [Prod.mk.injEq] at he
      rw [← he.1, ← he.2]
      simpa using Cls.punct c ty hp
    · simp only [Prod.mk.injEq] at he
      rw [← he.1, ← he.2]
      simpa using Cls.cmp1 c ty hp
    · simp only [Prod.mk.injEq] at he
      rw [← he.1, ← he.2]
      simpa using Cls.ops2 c d ty hp
  · obtain ⟨hty, hi⟩ := h
    cases hl : t.lit.toList with
    | nil => rw [hl] at hi; exact absurd hi (by simp [identLitW])
    | cons c cs =>
      rw [hl] at hi
      simp only [identLitW, Bool.and_eq_true] at hi
      have hlit : t.lit = String.ofList (c :: cs) := by rw [← hl, String.ofList_toList]
      rcases hty with hty | hty
      · rw [hty, hlit]
        exact .ident c cs hi.1 (all_iff.1 hi.2)
      · rw [hty]
        exact .styp c cs hi.1 (all_iff.1 hi.2)
  · obtain ⟨hty, hi⟩ := h
    rw [hty]
    rcases hi with (hi | hi) | hi
    · cases hl : t.lit.toList with
      | nil => rw [hl] at hi; exact absurd hi (by simp [hexLit])
      | cons a r =>
        cases r with
        | nil => rw [hl] at hi; exact absurd hi (by simp [hexLit])
        | cons b hs =>
          rw [hl] at hi
          simp only [hexLit, Bool.and_eq_true, beq_iff_eq] at hi
          obtain ⟨⟨rfl, rfl⟩, h3⟩ := hi
          exact .hex hs (all_iff.1 h3)
    · cases hl : t.lit.toList with
      | nil => rw [hl] at hi; exact absurd hi (by simp [negLitW])
      | cons a r =>
        cases r with
        | nil => rw [hl] at hi; exact absurd hi (by simp [negLitW])
        | cons c ds =>
          rw [hl] at hi
          simp only [negLitW, Bool.and_eq_true, beq_iff_eq] at hi
          obtain ⟨⟨rfl, h2⟩, h3⟩ := hi
          exact .neg c ds h2 (all_iff.1 h3)
    · cases hl : t.lit.toList with
      | nil => rw [hl] at hi; exact absurd hi (by simp [decLitW])
      | cons c ds =>
        rw [hl] at hi
        simp only [decLitW, Bool.and_eq_true] at hi
        exact .dec c ds hi.1 (all_iff.1 hi.2)
  · rw [h.1]
    exact .str _ (all_iff.1 h.2)
  · rw [h.1]
    simp only [rawLit, Bool.and_eq_true, beq_iff_eq] at h
    exact .raw _ (all_iff.1 h.2.1) h.2.2

/-! ### `getIdentType` never yields a literal type -/

theorem lookup_mem {k : String} {v : TT} :
    ∀ l : List (String × TT), l.lookup k = some v → (k, v) ∈ l := by
  intro l
  induction l with
  | nil => intro h; simp at h
  | cons a l ih =>
    obtain ⟨a, b⟩ := a
    intro h
    rw [List.lookup_cons] at h
    split at h
    · next hk =>
      have hk' : k = a := by simpa using hk
      cases h
      rw [hk']
      exact List.mem_cons_self ..
    · exact List.mem_cons_of_mem _ (ih h)

theorem getIdentType_cases (s : String) :
    getIdentType s = .IDENT ∨ (s, getIdentType s) ∈ Facts.keywords := by
  unfold getIdentType
  cases h : Facts.keywords.lookup s with
  | none => exact Or.inl rfl
  | some v => exact Or.inr (lookup_mem _ h)

theorem keywords_types : ∀ p ∈ Facts.keywords,
    p.2 ≠ TT.STRING ∧ p.2 ≠ TT.RAWSTRING ∧ p.2 ≠ TT.STRINGTYPE ∧ p.2 ≠ TT.INT := by decide

theorem getIdentType_ne (s : String) :
    getIdentType s ≠ .STRING ∧ getIdentType s ≠ .RAWSTRING ∧ getIdentType s ≠ .STRINGTYPE ∧
      getIdentType s ≠ .INT := by
  rcases getIdentType_cases s with h | h
  · rw [h]; decide
  · exact keywords_types _ h

/-! ### Source spelling -/

/-- the source spelling of a token of type `ty` with literal `lit` -/
def textOf (ty : TT) (lit : List Char) : List Char :=
  if ty = .STRING then '"' :: (lit ++ ['"'])
  else if ty = .RAWSTRING then '`' :: (lit ++ ['`'])
  else lit

/-- the source spelling of a token: string literals re-quoted, raw strings between back-quotes,
every other token its literal -/
def text (t : Tok) : List Char := textOf t.type t.lit.toList

theorem textOf_plain {ty : TT} (lit : List Char) (h1 : ty ≠ .STRING) (h2 : ty ≠ .RAWSTRING) :
    textOf ty lit = lit := by
  simp [textOf, h1, h2]

theorem punct_types : ∀ p ∈ punct, p.2 ≠ TT.STRING ∧ p.2 ≠ TT.RAWSTRING ∧ p.2 ≠ TT.STRINGTYPE ∧
    isWs p.1 = false ∧ p.1 ≠ '"' := by decide
theorem cmp1_types : ∀ p ∈ cmp1, p.2 ≠ TT.STRING ∧ p.2 ≠ TT.RAWSTRING ∧ p.2 ≠ TT.STRINGTYPE ∧
    isWs p.1 = false ∧ p.1 ≠ '"' := by decide
theorem ops2_types : ∀ p ∈ ops2, p.2.2 ≠ TT.STRING ∧ p.2.2 ≠ TT.RAWSTRING ∧ p.2.2 ≠ TT.STRINGTYPE ∧
    isWs p.1 = false ∧ p.1 ≠ '"' := by decide

/-! ### Reading a spelling back -/

/-- What follows a spelling inside a rendering: nothing, or something that starts with a whitespace
character; after a string literal, moreover, the first character after the whitespace is not a quote
(the lexer would read it as a further part of the same literal). -/
def TailOK (ty : TT) (tail : List Char) : Prop :=
  (∀ d ∈ tail.head?, isWs d = true) ∧ (ty = .STRING → okStr tail)

/-- One call of the counter-free lexer reads exactly `toks` from `lex` followed by any admissible
tail, and stops in the tail after (at most) leading whitespace. -/
def Reads (lex : List Char) (toks : List (TT × String)) (ty : TT) : Prop :=
  ∀ tail, TailOK ty tail → ∃ tail', nextE (lex ++ tail) = (toks, tail', false) ∧ Skips tail tail'

theorem reads_of_lexemeAt {ok : List Char → Prop} {lex : List Char} {toks : List (TT × String)}
    {ty : TT} (h : LexemeAt ok lex toks) (hok : ∀ tail, TailOK ty tail → ok tail) :
    Reads lex toks ty := fun tail ht => h.2 tail (hok tail ht)

theorem tailOK_oks {ty : TT} {tail : List Char} (h : TailOK ty tail) :
    okAny tail ∧ okNoEq tail ∧ okIdent tail ∧ okNum tail ∧ okHex tail :=
  ok_of_sepStart tail fun d hd => Or.inl (h.1 d hd)

theorem strChar_plain {src : List Char} (h : ∀ x ∈ src, strChar x = true) :
    ∀ c ∈ src, c ≠ '"' ∧ c ≠ NUL ∧ c ≠ '\n' ∧ c ≠ '\r' := by
  intro c hc
  have := h c hc
  simp only [strChar, Bool.and_eq_true, bne_iff_ne, ne_eq] at this
  exact ⟨this.1.1.1, this.1.1.2, this.1.2, this.2⟩

theorem rawP_plain {body : List Char} (h : ∀ x ∈ body, rawP x = true) :
    ∀ x ∈ body, x ≠ '`' ∧ x ≠ NUL := by
  intro c hc
  have := h c hc
  simp only [rawP, Bool.and_eq_true, bne_iff_ne, ne_eq] at this
  exact this

theorem joinParts_single (src : List Char) : joinParts [src] = src := by
  simp [joinParts, addPart]

/-- **Every class is read back**: one call on the spelling (followed by an admissible tail) returns
the single token with this type and literal. -/
theorem Cls.reads {ty : TT} {lit : List Char} (h : Cls ty lit) (hst : ty ≠ .STRINGTYPE) :
    Reads (textOf ty lit) [(ty, String.ofList lit)] ty := by
  cases h with
  | punct c ty hp =>
    obtain ⟨h1, h2, -⟩ := punct_types _ hp
    rw [textOf_plain _ h1 h2]
    exact reads_of_lexemeAt (lexemeAt_punct c ty hp) fun _ _ => trivial
  | cmp1 c ty hp =>
    obtain ⟨h1, h2, -⟩ := cmp1_types _ hp
    rw [textOf_plain _ h1 h2]
    exact reads_of_lexemeAt (lexemeAt_cmp1 c ty hp) fun _ ht => (tailOK_oks ht).2.1
  | ops2 c d ty hp =>
    obtain ⟨h1, h2, -⟩ := ops2_types _ hp
    rw [textOf_plain _ h1 h2]
    exact reads_of_lexemeAt (lexemeAt_ops2 c d ty hp) fun _ _ => trivial
  | ident c cs hl hcs =>
    obtain ⟨h1, h2, -⟩ := getIdentType_ne (String.ofList (c :: cs))
    rw [textOf_plain _ h1 h2]
    exact reads_of_lexemeAt (lexemeAt_ident c cs hl hcs) fun _ ht => (tailOK_oks ht).2.2.1
  | styp c cs hl hcs => exact absurd rfl hst
  | dec c ds hd hds =>
    rw [textOf_plain _ (by decide) (by decide)]
    exact reads_of_lexemeAt (lexemeAt_num c ds hd (digit_not_letter c hd) hds)
      fun _ ht => (tailOK_oks ht).2.2.2.1
  | neg c ds hd hds =>
    rw [textOf_plain _ (by decide) (by decide)]
    exact reads_of_lexemeAt (lexemeAt_neg c ds hd hds) fun _ ht => (tailOK_oks ht).2.2.2.1
  | hex hs hh =>
    rw [textOf_plain _ (by decide) (by decide)]
    exact reads_of_lexemeAt (lexemeAt_hex hs hh) fun _ ht => (tailOK_oks ht).2.2.2.2
  | str _ hs =>
    have := lexemeAt_string [] (by intro q hq; simp at hq) lit lit (Part.plain lit (strChar_plain hs))
    simp only [partsSrc, List.nil_append, List.map_nil, joinParts_single] at this
    exact reads_of_lexemeAt this fun _ ht => ht.2 rfl
  | raw _ hb ht =>
    have := lexemeAt_raw lit (rawP_plain hb)
    rw [ht] at this
    exact reads_of_lexemeAt this fun _ _ => trivial

/-- **String type + literal**: the identifier-class literal directly followed by the quoted string
is read by ONE call as the pair `STRINGTYPE`, `STRING`. -/
theorem reads_typed {lit src : List Char} (h : Cls .STRINGTYPE lit) (hs : Cls .STRING src) :
    Reads (textOf .STRINGTYPE lit ++ textOf .STRING src)
      [(.STRINGTYPE, String.ofList lit), (.STRING, String.ofList src)] .STRING := by
  have key : ∀ c cs, isLetter c = true → (∀ x ∈ cs, identP x = true) →
      (∀ x ∈ src, strChar x = true) →
      Reads (textOf .STRINGTYPE (c :: cs) ++ textOf .STRING src)
        [(.STRINGTYPE, String.ofList (c :: cs)), (.STRING, String.ofList src)] .STRING := by
    intro c cs hl hcs hsrc
    have := lexemeAt_stringtype c cs hl hcs [] (by intro q hq; simp at hq) src src
      (Part.plain src (strChar_plain hsrc))
    simp only [partsSrc, List.nil_append, List.map_nil, joinParts_single] at this
    rw [textOf_plain _ (by decide) (by decide)]
    exact reads_of_lexemeAt this fun _ ht => ht.2 rfl
  have hsrc : ∀ x ∈ src, strChar x = true := by
    generalize hty : TT.STRING = ty at hs
    cases hs with
    | str _ h => exact h
    | ident c cs => exact absurd hty.symm (getIdentType_ne _).1
    | punct c ty hp => exact absurd hty.symm (punct_types _ hp).1
    | cmp1 c ty hp => exact absurd hty.symm (cmp1_types _ hp).1
    | ops2 c d ty hp => exact absurd hty.symm (ops2_types _ hp).1
    | _ => cases hty
  generalize hty : TT.STRINGTYPE = ty at h
  cases h with
  | styp c cs hl hcs => exact key c cs hl hcs hsrc
  | ident c cs => exact absurd hty.symm (getIdentType_ne _).2.2.1
  | punct c ty hp => exact absurd hty.symm (punct_types _ hp).2.2.1
  | cmp1 c ty hp => exact absurd hty.symm (cmp1_types _ hp).2.2.1
  | ops2 c d ty hp => exact absurd hty.symm (ops2_types _ hp).2.2.1
  | _ => cases hty

/-- The first character of a spelling is not whitespace, and it is a quote only for `STRING`. -/
theorem Cls.head {ty : TT} {lit : List Char} (h : Cls ty lit) :
    ∃ c r, textOf ty lit = c :: r ∧ isWs c = false ∧ (c = '"' → ty = .STRING) := by
  have letter : ∀ c, isLetter c = true → isWs c = false ∧ c ≠ '"' := by
    intro c hl
    have hne := letter_ne_special hl
    refine ⟨?_, hne '"' (by decide)⟩
    simp [isWs, hne ' ' (by decide), hne '\t' (by decide), hne '\n' (by decide),
      hne '\r' (by decide)]
  cases h with
  | punct c ty hp =>
    obtain ⟨h1, h2, -, h3, h4⟩ := punct_types _ hp
    exact ⟨c, [], textOf_plain _ h1 h2, h3, fun e => absurd e h4⟩
  | cmp1 c ty hp =>
    obtain ⟨h1, h2, -, h3, h4⟩ := cmp1_types _ hp
    exact ⟨c, [], textOf_plain _ h1 h2, h3, fun e => absurd e h4⟩
  | ops2 c d ty hp =>
    obtain ⟨h1, h2, -, h3, h4⟩ := ops2_types _ hp
    exact ⟨c, [d], textOf_plain _ h1 h2, h3, fun e => absurd e h4⟩
  | ident c cs hl hcs =>
    obtain ⟨h1, h2, -⟩ := getIdentType_ne (String.ofList (c :: cs))
    exact ⟨c, cs, textOf_plain _ h1 h2, (letter c hl).1, fun e => absurd e (letter c hl).2⟩
  | styp c cs hl hcs =>
    exact ⟨c, cs, textOf_plain _ (by decide) (by decide), (letter c hl).1,
      fun e => absurd e (letter c hl).2⟩
  | dec c ds hd hds =>
    have hne := digit_ne_special hd
    by_cases hz : c = '0'
    · subst hz
      exact ⟨'0', ds, textOf_plain _ (by decide) (by decide), by decide, fun e => absurd e (by decide)⟩
    · refine ⟨c, ds, textOf_plain _ (by decide) (by decide), ?_, fun e => absurd e (hne '"' (by decide))⟩
      simp [isWs, hne ' ' (by decide), hne '\t' (by decide), hne '\n' (by decide),
        hne '\r' (by decide)]
  | neg c ds hd hds =>
    exact ⟨'-', c :: ds, textOf_plain _ (by decide) (by decide), by decide, fun e => absurd e (by decide)⟩
  | hex hs hh =>
    exact ⟨'0', 'x' :: hs, textOf_plain _ (by decide) (by decide), by decide, fun e => absurd e (by decide)⟩
  | str _ hs => exact ⟨'"', lit ++ ['"'], by simp [textOf], by decide, fun _ => rfl⟩
  | raw _ hb ht =>
    exact ⟨'`', lit ++ ['`'], by simp [textOf], by decide, fun e => absurd e (by decide)⟩

end Pory.L1
