import PoryProofs.TokProvenance3
import PoryProofs.MarkerLinesND
/-
Token provenance in the parser (C16, parser side), part 4: top-level statements, the implicit
texts / movements, `parseProgramM` and `parseTokens`.
-/
namespace Pory.Parser
open Pory

/-! ### predicates on top-level pieces -/

def OptSOK (I : List Tok) (o : Option Script) : Prop := AllPos I (C16nd.optScriptToks o)
def MsOK (I : List Tok) (mss : List MapScript) : Prop :=
  AllPos I (mss.flatMap fun ms => ms.type :: C16nd.optScriptToks ms.script)
def TEOK (I : List Tok) (es : List TableEntry) : Prop :=
  AllPos I (es.flatMap fun e => e.condition :: C16nd.optScriptToks e.script)
def TBOK (I : List Tok) (ts : List TableMapScript) : Prop := AllPos I (ts.flatMap C16nd.tableToks)

theorem AllPos_flatMap_nil {α} (I : List Tok) (f : α → List Tok) : AllPos I (([] : List α).flatMap f) ↔ True := by
  simp [AllPos_nil]
theorem AllPos_flatMap_snoc {α} (I : List Tok) (f : α → List Tok) (l : List α) (x : α) :
    AllPos I ((l ++ [x]).flatMap f) ↔ AllPos I (l.flatMap f) ∧ AllPos I (f x) := by
  simp [List.flatMap_append, AllPos_append]

theorem MSOK_nil (I : List Tok) : MsOK I [] ↔ True := AllPos_flatMap_nil I _
theorem TEOK_nil (I : List Tok) : TEOK I [] ↔ True := AllPos_flatMap_nil I _
theorem TBOK_nil (I : List Tok) : TBOK I [] ↔ True := AllPos_flatMap_nil I _
theorem MSOK_snoc (I : List Tok) (l : List MapScript) (x : MapScript) :
    MsOK I (l ++ [x]) ↔ MsOK I l ∧ Pos I x.type ∧ OptSOK I x.script := by
  simp only [MsOK, OptSOK, AllPos_flatMap_snoc, AllPos_cons]
theorem TEOK_snoc (I : List Tok) (l : List TableEntry) (x : TableEntry) :
    TEOK I (l ++ [x]) ↔ TEOK I l ∧ Pos I x.condition ∧ OptSOK I x.script := by
  simp only [TEOK, OptSOK, AllPos_flatMap_snoc, AllPos_cons]
theorem TBOK_snoc (I : List Tok) (l : List TableMapScript) (x : TableMapScript) :
    TBOK I (l ++ [x]) ↔ TBOK I l ∧ Pos I x.type ∧ TEOK I x.entries := by
  simp only [TBOK, TEOK, AllPos_flatMap_snoc, C16nd.tableToks, AllPos_cons]
theorem OptSOK_none (I : List Tok) : OptSOK I none ↔ True := by simp [OptSOK, C16nd.optScriptToks, AllPos_nil]
theorem OptSOK_some (I : List Tok) (scr : Script) : OptSOK I (some scr) ↔ SOK I scr.body := by
  simp [OptSOK, C16nd.optScriptToks, SOK]

/-- What is recorded about one top-level statement beyond the positions of its tokens: a mart
statement has a token for every item; the value of a raw statement is the literal of its value
token, which is a `RAWSTRING` token of `I` (not only positioned at one). -/
def TopX (I : List Tok) : Top → Prop
  | .mart _ _ tis items _ => items.length ≤ tis.length
  | .raw _ v val => v ∈ I ∧ val = v.lit ∧ v.type = .RAWSTRING
  | _ => True

def TopG (I : List Tok) (t : Top) : Prop := AllPos I (C16nd.topToks t) ∧ TopX I t
def TopsOK (I : List Tok) (l : List Top) : Prop := ∀ t ∈ l, TopG I t

theorem TopsOK_nil (I : List Tok) : TopsOK I [] ↔ True := iff_true_intro (fun _ h => absurd h List.not_mem_nil)
theorem TopsOK_snoc (I : List Tok) (l : List Top) (t : Top) : TopsOK I (l ++ [t]) ↔ TopsOK I l ∧ TopG I t := by
  simp only [TopsOK, List.mem_append, List.mem_singleton]
  exact ⟨fun h => ⟨fun x hx => h x (Or.inl hx), h t (Or.inr rfl)⟩,
    fun h x hx => hx.elim (h.1 x) (fun e => e ▸ h.2)⟩

theorem TopG_script (I : List Tok) (scr : Script) : TopG I (.script scr) ↔ Pos I scr.tok ∧ SOK I scr.body := by
  simp [TopG, TopX, C16nd.topToks, AllPos_cons, SOK]
theorem TopG_raw (I : List Tok) (tok v : Tok) (val : String) :
    TopG I (.raw tok v val) ↔ (Pos I tok ∧ Pos I v) ∧ v ∈ I ∧ val = v.lit ∧ v.type = .RAWSTRING := by
  simp [TopG, TopX, C16nd.topToks, AllPos_cons, AllPos_nil]
theorem TopG_text (I : List Tok) (t : Text) : TopG I (.text t) ↔ Pos I t.tok := by
  simp [TopG, TopX, C16nd.topToks, AllPos_cons, AllPos_nil]
theorem TopG_movement (I : List Tok) (m : MovementStmt) : TopG I (.movement m) ↔ Pos I m.tok ∧ AllPos I m.cmds := by
  simp [TopG, TopX, C16nd.topToks, AllPos_cons]
theorem TopG_mart (I : List Tok) (tok : Tok) (nm : String) (tis : List Tok) (items : List String) (sc : TT) :
    TopG I (.mart tok nm tis items sc) ↔ (Pos I tok ∧ AllPos I tis) ∧ items.length ≤ tis.length := by
  simp [TopG, TopX, C16nd.topToks, AllPos_cons]
theorem TopG_mapscripts (I : List Tok) (m : MapScripts) :
    TopG I (.mapscripts m) ↔ Pos I m.tok ∧ MsOK I m.mapScripts ∧ TBOK I m.tables := by
  simp [TopG, TopX, C16nd.topToks, C16nd.mapScriptsToks, AllPos_cons, AllPos_append, MsOK, TBOK]

/-! ### state updates of the top level -/

def addTextStmt (s : PState) (t : Text) : PState := { s with textStatements := s.textStatements ++ [t] }
def addConst (s : PState) (k v : String) : PState := { s with constants := (k, v) :: s.constants }

theorem wp_addTextStmt (t : Text) (s : PState) (Q : PUnit → PState → Prop) :
    wp (modify fun s => { s with textStatements := s.textStatements ++ [t] }) s Q ↔ Q ⟨⟩ (addTextStmt s t) := by
  rw [wp_modify]; rfl
theorem wp_addConst (k v : String) (s : PState) (Q : PUnit → PState → Prop) :
    wp (modify fun s => { s with constants := (k, v) :: s.constants }) s Q ↔ Q ⟨⟩ (addConst s k v) := by
  rw [wp_modify]; rfl

theorem addTextStmt_toks (s : PState) (t : Text) : (addTextStmt s t).toks = s.toks := id rfl
theorem addTextStmt_eof (s : PState) (t : Text) : (addTextStmt s t).eof = s.eof := id rfl
theorem addConst_toks (s : PState) (k v : String) : (addConst s k v).toks = s.toks := id rfl
theorem addConst_eof (s : PState) (k v : String) : (addConst s k v).eof = s.eof := id rfl
theorem Stored_addConst (I : List Tok) (s : PState) (k v : String) : Stored I (addConst s k v) ↔ Stored I s :=
  ⟨fun h => ⟨h.1, h.2, h.3⟩, fun h => ⟨h.1, h.2, h.3⟩⟩
theorem Stored_addTextStmt (I : List Tok) (s : PState) (t : Text) :
    Stored I (addTextStmt s t) ↔ Stored I s ∧ Pos I t.tok := by
  constructor
  · intro h
    exact ⟨⟨h.1, fun x hx => h.2 x (List.mem_append.2 (Or.inl hx)), h.3⟩,
      h.2 t (List.mem_append.2 (Or.inr (List.mem_singleton.2 rfl)))⟩
  · intro h
    refine ⟨h.1.1, fun x hx => ?_, h.1.3⟩
    rcases List.mem_append.1 hx with hx | hx
    · exact h.1.2 x hx
    · rw [List.mem_singleton] at hx; subst hx; exact h.2

/-! ### implicit texts and movements -/

theorem addTextStep_inv {I : List Tok} {s : PState} {t : ImpText} (hs : Inv I s) (ht : Pos I t.text) :
    Inv I (addTextStep s t) := by
  cases hlk : s.inlineTextsSet.lookup (t.text.lit, t.stringType) <;> simp only [addTextStep, hlk]
  · refine ⟨hs.1, fun x hx => ?_, hs.2.2, hs.2.3⟩
    rcases List.mem_append.1 hx with hx | hx
    · exact hs.2.1 x hx
    · rw [List.mem_singleton] at hx; subst hx; exact ht
  · exact ⟨hs.1, hs.2.1, hs.2.2, hs.2.3⟩

theorem addMovementStep_inv {I : List Tok} {s : PState} {m : ImpMovement} (hs : Inv I s)
    (h1 : Pos I m.cmdTok) (h2 : ∀ c ∈ m.movements, Pos I c) : Inv I (addMovementStep s m) := by
  cases hlk : s.inlineMovementsSet.lookup (getMovementsKey m.movements) <;> simp only [addMovementStep, hlk]
  · refine ⟨hs.1, hs.2.1, hs.2.2, fun x hx => ?_⟩
    rcases List.mem_append.1 hx with hx | hx
    · exact hs.2.3 x hx
    · rw [List.mem_singleton] at hx; subst hx; exact ⟨h1, h2⟩
  · exact ⟨hs.1, hs.2.1, hs.2.2, hs.2.3⟩

theorem foldl_addTextStep_inv {I : List Tok} : ∀ (l : List ImpText) (s : PState), Inv I s →
    (∀ x ∈ l, Pos I x.text) → Inv I (l.foldl addTextStep s)
  | [], _, hs, _ => hs
  | x :: r, s, hs, h => by
    rw [List.foldl_cons]
    exact foldl_addTextStep_inv r _ (addTextStep_inv hs (h x List.mem_cons_self))
      (fun y hy => h y (List.mem_cons_of_mem _ hy))

theorem foldl_addMovementStep_inv {I : List Tok} : ∀ (l : List ImpMovement) (s : PState), Inv I s →
    (∀ m ∈ l, Pos I m.cmdTok ∧ ∀ c ∈ m.movements, Pos I c) → Inv I (l.foldl addMovementStep s)
  | [], _, hs, _ => hs
  | x :: r, s, hs, h => by
    rw [List.foldl_cons]
    exact foldl_addMovementStep_inv r _
      (addMovementStep_inv hs (h x List.mem_cons_self).1 (h x List.mem_cons_self).2)
      (fun y hy => h y (List.mem_cons_of_mem _ hy))

/-- `addImplicitData` keeps the invariant when the data satisfies `ImpOK`. -/
theorem addImplicitData_spec (I : List Tok) (d : ImpData) (s : PState) :
    wp (addImplicitData d) s (fun _ s' => Inv I s → ImpOK I d → Inv I s') := by
  unfold addImplicitData addImplicitTexts addImplicitMovements
  swp [wp_modify]
  intro hs hd
  exact foldl_addMovementStep_inv _ _ (foldl_addTextStep_inv _ _ hs hd.1) hd.2

theorem addImplicitData_wp_iff (I : List Tok) (d : ImpData) (s : PState) (Q : Unit → PState → Prop) :
    wp (addImplicitData d) s Q ↔ ∀ a s', (addImplicitData d).run s = .ok (a, s') →
      (Inv I s → ImpOK I d → Inv I s') → Q a s' := wp_spec (addImplicitData_spec I d s) Q

/-- Symbolic execution at top level. -/
syntax "tpvc" (" [" Lean.Parser.Tactic.simpLemma,* "]")? : tactic
macro_rules
  | `(tactic| tpvc) => `(tactic| spvc [MSOK_nil, TEOK_nil, TBOK_nil, MSOK_snoc, TEOK_snoc, TBOK_snoc, OptSOK_none,
      OptSOK_some, TopsOK_nil, TopsOK_snoc, TopG_script, TopG_raw, TopG_text, TopG_movement, TopG_mart,
      TopG_mapscripts, wp_addTextStmt, wp_addConst, addTextStmt_toks, addTextStmt_eof, addConst_toks, addConst_eof,
      Stored_addConst, Stored_addTextStmt, Option.some.injEq, forall_eq', reduceCtorEq])
  | `(tactic| tpvc [$ts,*]) => `(tactic| spvc [MSOK_nil, TEOK_nil, TBOK_nil, MSOK_snoc, TEOK_snoc, TBOK_snoc,
      OptSOK_none, OptSOK_some, TopsOK_nil, TopsOK_snoc, TopG_script, TopG_raw, TopG_text, TopG_movement, TopG_mart,
      TopG_mapscripts, wp_addTextStmt, wp_addConst, addTextStmt_toks, addTextStmt_eof, addConst_toks, addConst_eof,
      Stored_addConst, Stored_addTextStmt, Option.some.injEq, forall_eq', reduceCtorEq, $ts,*])

theorem prov_parseBlockStatement (I : List Tok) (env : Env) (sn : String) (tok : Tok) (n : Nat) (acc : List Stmt)
    (imp : ImpData) :
    Prov I (parseBlockStatement env sn tok n acc imp) (fun r => SOK I acc → ImpOK I imp → SR I r) :=
  (provAll I n).block env sn tok acc imp

theorem prov_parseScriptStatement (I : List Tok) (env : Env) (n : Nat) :
    Prov I (parseScriptStatement env n) (fun r => Pos I r.1.tok ∧ SOK I r.1.body ∧ ImpOK I r.2) := by
  intro s hi
  obtain ⟨hp, hs⟩ := hi
  have hf := hp.facts
  have hs' := iff_true_intro hs
  unfold parseScriptStatement
  tpvc [(prov_parseScopeModifier I _).wp_iff, (prov_parseBlockStatement I _ _ _ _ _ _).wp_iff, hf, hs']
  all_goals spfin

theorem headD_drop_one (l : List Tok) (e : Tok) : (l.drop 1).headD e = l.getD 1 e := by
  cases l with
  | nil => rfl
  | cons a r => cases r <;> rfl

theorem prov_parseRawStatement (I : List Tok) : Prov I parseRawStatement (TopG I) := by
  intro s hi
  obtain ⟨hp, hs⟩ := hi
  have hf := hp.facts
  have hs' := iff_true_intro hs
  unfold parseRawStatement
  tpvc [hf, hs']
  all_goals pfin [headD_drop_one]

theorem prov_parseTextStatement (I : List Tok) (env : Env) (n : Nat) :
    Prov I (parseTextStatement env n) (TopG I) := by
  intro s hi
  obtain ⟨hp, hs⟩ := hi
  have hf := hp.facts
  have hs' := iff_true_intro hs
  unfold parseTextStatement
  tpvc [(prov_parseScopeModifier I _).wp_iff, (prov_parsePoryswitchTextStatement I _ _).wp_iff,
    (prov_parseTextValue I _ _).wp_iff, hf, hs']
  all_goals spfin

theorem prov_parseMovementStatement (I : List Tok) (env : Env) (n : Nat) :
    Prov I (parseMovementStatement env n) (TopG I) := by
  intro s hi
  obtain ⟨hp, hs⟩ := hi
  have hf := hp.facts
  have hs' := iff_true_intro hs
  unfold parseMovementStatement
  tpvc [(prov_parseScopeModifier I _).wp_iff, (prov_parseListValue I _ _ _ _ _).wp_iff, hf, hs']
  all_goals spfin

theorem prov_parseMartStatement (I : List Tok) (env : Env) (n : Nat) :
    Prov I (parseMartStatement env n) (TopG I) := by
  intro s hi
  obtain ⟨hp, hs⟩ := hi
  have hf := hp.facts
  have hs' := iff_true_intro hs
  unfold parseMartStatement
  tpvc [(prov_parseScopeModifier I _).wp_iff, (prov_parseListValue I _ _ _ _ _).wp_iff,
    (prov_mapM_tryReplace I _).wp_iff, hf, hs']
  all_goals spfin

theorem prov_parseTableEntries (I : List Tok) (env : Env) (ms ty : String) : ∀ (n i : Nat) (acc : List TableEntry)
    (imp : ImpData), Prov I (parseTableEntries env ms ty n i acc imp)
      (fun r => TEOK I acc → ImpOK I imp → TEOK I r.1 ∧ ImpOK I r.2) := by
  intro n
  induction n with
  | zero => intro i acc imp s hi; rw [parseTableEntries]; swp
  | succ n ih =>
    intro i acc imp s hi
    obtain ⟨hp, hs⟩ := hi
    have hf := hp.facts
    have hs' := iff_true_intro hs
    rw [parseTableEntries]
    tpvc [(ih _ _ _).wp_iff, (prov_tableCollect I _ _ _ _).wp_iff, (prov_parseBlockStatement I _ _ _ _ _ _).wp_iff,
      hf, hs']
    all_goals spfin

theorem prov_parseMapScriptEntries (I : List Tok) (env : Env) (ms : String) : ∀ (n : Nat) (mss : List MapScript)
    (tables : List TableMapScript) (imp : ImpData), Prov I (parseMapScriptEntries env ms n mss tables imp)
      (fun r => MsOK I mss → TBOK I tables → ImpOK I imp → MsOK I r.1 ∧ TBOK I r.2.1 ∧ ImpOK I r.2.2) := by
  intro n
  induction n with
  | zero => intro mss tables imp s hi; rw [parseMapScriptEntries]; swp
  | succ n ih =>
    intro mss tables imp s hi
    obtain ⟨hp, hs⟩ := hi
    have hf := hp.facts
    have hs' := iff_true_intro hs
    rw [parseMapScriptEntries]
    tpvc [(ih _ _ _).wp_iff, (prov_parseTableEntries I _ _ _ _ _ _ _).wp_iff,
      (prov_parseBlockStatement I _ _ _ _ _ _).wp_iff, hf, hs']
    all_goals spfin

theorem prov_parseMapscriptsStatement (I : List Tok) (env : Env) (n : Nat) :
    Prov I (parseMapscriptsStatement env n) (fun r => TopG I (.mapscripts r.1) ∧ ImpOK I r.2) := by
  intro s hi
  obtain ⟨hp, hs⟩ := hi
  have hf := hp.facts
  have hs' := iff_true_intro hs
  unfold parseMapscriptsStatement
  tpvc [(prov_parseScopeModifier I _).wp_iff, (prov_parseMapScriptEntries I _ _ _ _ _ _).wp_iff, hf, hs']
  all_goals spfin

theorem prov_parseConstant (I : List Tok) (n : Nat) : Prov I (parseConstant n) (fun _ => True) := by
  intro s hi
  obtain ⟨hp, hs⟩ := hi
  have hf := hp.facts
  have hs' := iff_true_intro hs
  unfold parseConstant
  tpvc [(prov_constLoop I _ _).wp_iff, hf, hs']
  all_goals spfin

theorem prov_parseTopLevelStatement (I : List Tok) (env : Env) (n : Nat) :
    Prov I (parseTopLevelStatement env n) (fun r => ∀ t, r = some t → TopG I t) := by
  intro s hi
  obtain ⟨hp, hs⟩ := hi
  have hf := hp.facts
  have hs' := iff_true_intro hs
  unfold parseTopLevelStatement
  tpvc [(prov_parseScriptStatement I _ _).wp_iff, addImplicitData_wp_iff I, (prov_parseRawStatement I).wp_iff,
    (prov_parseTextStatement I _ _).wp_iff, (prov_parseMovementStatement I _ _).wp_iff,
    (prov_parseMartStatement I _ _).wp_iff, (prov_parseMapscriptsStatement I _ _).wp_iff,
    (prov_parseConstant I _).wp_iff, hf, hs']
  all_goals spfin

/-! ### the program -/

theorem prov_topLoop (I : List Tok) (env : Env) (fuel : Nat) : ∀ (n : Nat) (acc : List Top),
    Prov I (topLoop env fuel n acc) (fun r => TopsOK I acc → TopsOK I r) := by
  intro n
  induction n with
  | zero => intro acc s hi; rw [topLoop]; swp
  | succ n ih =>
    intro acc s hi
    obtain ⟨hp, hs⟩ := hi
    have hf := hp.facts
    have hs' := iff_true_intro hs
    rw [topLoop]
    tpvc [(prov_parseTopLevelStatement I _ _).wp_iff, (ih _).wp_iff, hf, hs']
    all_goals (cases ‹Option Top› <;> simp only [TopsOK_snoc] at * <;> spfin)

/-- What the provenance invariant says about a program. -/
structure ProgOK (I : List Tok) (p : Program) : Prop where
  tops : TopsOK I p.tops
  texts : ∀ x ∈ p.texts, Pos I x.tok

theorem progOK_of {I : List Tok} {s : PState} {tops : List Top} {ps : List ((Nat × Nat) × String)}
    (hs : Stored I s) (ht : TopsOK I tops) :
    ProgOK I { tops := tops ++ s.inlineMovements.map Top.movement, texts := s.inlineTexts ++ s.textStatements,
               patches := ps } := by
  refine ⟨fun t h => ?_, fun x hx => ?_⟩
  · rcases List.mem_append.1 h with h | h
    · exact ht t h
    · obtain ⟨m, hm, rfl⟩ := List.mem_map.1 h
      exact (TopG_movement I m).2 (hs.moves m hm)
  · rcases List.mem_append.1 hx with h | h
    · exact hs.texts x h
    · exact hs.stmts x h

theorem prov_parseProgramM (I : List Tok) (env : Env) (fuel : Nat) :
    Prov I (parseProgramM env fuel) (ProgOK I) := by
  intro s hi
  obtain ⟨hp, hs⟩ := hi
  have hf := hp.facts
  have hs' := iff_true_intro hs
  unfold parseProgramM
  tpvc [(prov_topLoop I _ _ _ _).wp_iff, hf, hs']
  all_goals pfin [progOK_of]

/-- The input token list together with the end-of-input token `parseTokens` uses. -/
def inputToks (toks : List Tok) : List Tok := toks ++ [toks.getLastD { type := .EOF }]

theorem inv_initial (toks : List Tok) :
    Inv (inputToks toks) { toks := toks, eof := toks.getLastD { type := .EOF } } :=
  ⟨⟨fun _ ht => List.mem_append.2 (Or.inl ht), List.mem_append.2 (Or.inr (List.mem_singleton.2 rfl))⟩,
   ⟨fun _ h => absurd h List.not_mem_nil, fun _ h => absurd h List.not_mem_nil,
    fun _ h => absurd h List.not_mem_nil⟩⟩

theorem parseTokens_run {env : Env} {toks : List Tok} {p : Program} (h : parseTokens env toks = .ok p) :
    ∃ s', (parseProgramM env (4 * toks.length + 50)).run
      { toks := toks, eof := toks.getLastD { type := .EOF } } = .ok (p, s') := by
  have h' : (fun x : Program × PState => x.1) <$> (parseProgramM env (4 * toks.length + 50)).run
      { toks := toks, eof := toks.getLastD { type := .EOF } } = .ok p := h
  cases hr : (parseProgramM env (4 * toks.length + 50)).run
      { toks := toks, eof := toks.getLastD { type := .EOF } } with
  | error e => rw [hr] at h'; cases h'
  | ok r =>
    obtain ⟨p', s'⟩ := r
    rw [hr] at h'
    cases h'
    exact ⟨s', rfl⟩

/-- **Provenance of a parsed program.** -/
theorem parseTokens_progOK {env : Env} {toks : List Tok} {p : Program} (h : parseTokens env toks = .ok p) :
    ProgOK (inputToks toks) p := by
  obtain ⟨s', hr⟩ := parseTokens_run h
  exact (prov_parseProgramM (inputToks toks) env _ _ (inv_initial toks) p s' hr).2

end Pory.Parser
