import PoryProofs.ParserFuel2
/-
C18 (totality of the parser), part 4: token consumption of lists, commands, conditions.
-/
namespace Pory.Parser
open Pory

theorem dec_listBlock (env : Env) : ∀ n : Nat,
    (∀ kind am acc, Dec 0 (parseListValue env kind am n acc)) ∧
    (∀ kind, Dec 1 (parsePoryswitchListStatement env kind n)) ∧
    (∀ kind tok acc, Dec 0 (parsePoryswitchListCases env kind tok n acc)) := by
  intro n
  induction n with
  | zero =>
    refine ⟨?_, ?_, ?_⟩
    · intro kind am acc s he; rw [parseListValue]; wpsimp
    · intro kind s he; rw [parsePoryswitchListStatement]; wpsimp
    · intro kind tok acc s he; rw [parsePoryswitchListCases]; wpsimp
  | succ n ih =>
    obtain ⟨ih1, ih2, ih3⟩ := ih
    have f1 := fun kind am acc => ((frame_listBlock env n).1 kind am acc).dec_iff (ih1 kind am acc)
    have f2 := fun kind => ((frame_listBlock env n).2.1 kind).dec_iff (ih2 kind)
    have f3 := fun kind tok acc => ((frame_listBlock env n).2.2 kind tok acc).dec_iff (ih3 kind tok acc)
    refine ⟨?_, ?_, ?_⟩
    · intro kind am acc s he
      rw [parseListValue]
      cases kind <;> vcfin [f1, f2, iff_true_intro he]
      all_goals lenfin
    · intro kind s he
      rw [parsePoryswitchListStatement]
      vcfin [f3, (frame_parsePoryswitchHeader _).dec_iff (dec_parsePoryswitchHeader _), iff_true_intro he]
      all_goals lenfin
    · intro kind tok acc s he
      rw [parsePoryswitchListCases]
      vcfin [f1, f3, iff_true_intro he]
      all_goals lenfin

theorem dec_parseListValue (env : Env) (kind : ListKind) (am : Bool) (n : Nat) (acc : List Tok) :
    Dec 0 (parseListValue env kind am n acc) := (dec_listBlock env n).1 kind am acc

theorem dec_parseMovesOperator (env : Env) (n : Nat) : Dec 0 (parseMovesOperator env n) := by
  intro s he
  unfold parseMovesOperator
  vcfin [(frame_parseListValue _ _ _ _ _).dec_iff (dec_parseListValue _ _ _ _ _), iff_true_intro he]
  all_goals lenfin

theorem dec_cmdArgsLoop (env : Env) (sn : String) (id : Nat) (tok : Tok) :
    ∀ (n : Nat) (a : CmdAcc), Dec 0 (cmdArgsLoop env sn id tok n a) := by
  intro n
  induction n with
  | zero => intro a s he; rw [cmdArgsLoop]; wpsimp
  | succ n ih =>
    intro a s he
    rw [cmdArgsLoop]
    vcfin [(frame_cmdArgsLoop _ _ _ _ _ _).dec_iff (ih _),
      (frame_parseFormatStringOperator _ _).dec_iff (dec_parseFormatStringOperator _ _),
      (frame_parseMovesOperator _ _).dec_iff (dec_parseMovesOperator _ _), iff_true_intro he]
    all_goals lenfin

theorem dec_parseCommandStatement (env : Env) (sn : String) (n : Nat) :
    Dec 0 (parseCommandStatement env sn n) := by
  intro s he
  unfold parseCommandStatement
  vcfin [(frame_cmdArgsLoop _ _ _ _ _ _).dec_iff (dec_cmdArgsLoop _ _ _ _ _ _), wp_bumpCmdId, iff_true_intro he]
  all_goals lenfin

theorem dec_expectPeekVarOrAutoVar (env : Env) (sn : String) (n : Nat) :
    Dec 0 (expectPeekVarOrAutoVar env sn n) := by
  intro s he
  unfold expectPeekVarOrAutoVar
  vcfin [(frame_parseCommandStatement _ _ _).dec_iff (dec_parseCommandStatement _ _ _), iff_true_intro he]
  all_goals lenfin

theorem dec_peekTokenIsAutoVar (env : Env) : Dec 0 (peekTokenIsAutoVar env) := by
  intro s he
  unfold peekTokenIsAutoVar
  vcfin
  all_goals lenfin

theorem dec_collectUntil (stop : Tok → Bool) (onEOF : PFail) :
    ∀ (n : Nat) (parts : List String), Dec 0 (collectUntil stop onEOF n parts) := by
  intro n
  induction n with
  | zero => intro parts s he; rw [collectUntil]; wpsimp
  | succ n ih =>
    intro parts s he; rw [collectUntil]
    vcfin [(frame_collectUntil _ _ _ _).dec_iff (ih _), iff_true_intro he]
    all_goals lenfin

theorem dec_valueLoop (vt : Tok) :
    ∀ (n k : Nat) (parts : List String), Dec 0 (valueLoop vt n k parts) := by
  intro n
  induction n with
  | zero => intro k parts s he; rw [valueLoop]; wpsimp
  | succ n ih =>
    intro k parts s he; rw [valueLoop]
    vcfin [(frame_valueLoop _ _ _ _).dec_iff (ih _ _), iff_true_intro he]
    all_goals lenfin

theorem dec_collectUntilRange (st : Tok) :
    ∀ (n : Nat) (parts : List String), Dec 0 (parseConditionVarOperator.collectUntilRange st n parts) := by
  intro n
  induction n with
  | zero => intro parts s he; rw [parseConditionVarOperator.collectUntilRange]; wpsimp
  | succ n ih =>
    intro parts s he; rw [parseConditionVarOperator.collectUntilRange]
    vcfin [(frame_collectUntilRange _ _ _).dec_iff (ih _), iff_true_intro he]
    all_goals lenfin

theorem dec_parseConditionVarOperator (e : OpExpr) (n : Nat) : Dec 0 (parseConditionVarOperator e n) := by
  intro s he
  unfold parseConditionVarOperator
  vcfin [(frame_valueLoop _ _ _ _).dec_iff (dec_valueLoop _ _ _ _),
    (frame_collectUntilRange _ _ _).dec_iff (dec_collectUntilRange _ _ _), iff_true_intro he]
  all_goals lenfin

theorem dec_parseConditionFlagLikeOperator (e : OpExpr) (nm : String) :
    Dec 0 (parseConditionFlagLikeOperator e nm) := by
  intro s he
  unfold parseConditionFlagLikeOperator
  vcfin
  all_goals lenfin

theorem dec_parseLeafBooleanExpression (env : Env) (sn : String) (n : Nat) :
    Dec 1 (parseLeafBooleanExpression env sn n) := by
  intro s he
  unfold parseLeafBooleanExpression
  vcfin [peekTokenIsAutoVar, (frame_collectUntil _ _ _ _).dec_iff (dec_collectUntil _ _ _ _),
    (frame_expectPeekVarOrAutoVar _ _ _).dec_iff (dec_expectPeekVarOrAutoVar _ _ _),
    (frame_parseConditionVarOperator _ _).dec_iff (dec_parseConditionVarOperator _ _),
    (frame_parseConditionFlagLikeOperator _ _).dec_iff (dec_parseConditionFlagLikeOperator _ _),
    iff_true_intro he]
  all_goals lenfin

theorem dec_boolBlock (env : Env) (sn : String) : ∀ n : Nat,
    (∀ single negated, Dec 1 (parseBooleanExpression env sn single negated n)) ∧
    (∀ left single negated, Dec 0 (parseRightSideExpression env sn left single negated n)) := by
  intro n
  induction n with
  | zero =>
    refine ⟨?_, ?_⟩
    · intro a b s he; rw [parseBooleanExpression]; wpsimp
    · intro l a b s he; rw [parseRightSideExpression]; wpsimp
  | succ n ih =>
    obtain ⟨ih1, ih2⟩ := ih
    have f1 := fun a b => ((frame_boolBlock env sn n).1 a b).dec_iff (ih1 a b)
    have f2 := fun l a b => ((frame_boolBlock env sn n).2 l a b).dec_iff (ih2 l a b)
    refine ⟨?_, ?_⟩
    · intro a b s he
      rw [parseBooleanExpression]
      vcfin [f1, f2, (frame_parseLeafBooleanExpression _ _ _).dec_iff (dec_parseLeafBooleanExpression _ _ _),
        iff_true_intro he]
      all_goals lenfin
    · intro l a b s he
      rw [parseRightSideExpression]
      vcfin [f1, f2, iff_true_intro he]
      all_goals lenfin

theorem dec_parseBooleanExpression (env : Env) (sn : String) (single negated : Bool) (n : Nat) :
    Dec 1 (parseBooleanExpression env sn single negated n) := (dec_boolBlock env sn n).1 single negated

theorem dec_tryParseLabelStatement : Dec 0 tryParseLabelStatement := by
  intro s he
  unfold tryParseLabelStatement
  vcfin
  all_goals lenfin

theorem dec_switchOperandLoop (ot : Tok) :
    ∀ (n : Nat) (parts : List String), Dec 0 (parseSwitchStatement.switchOperandLoop ot n parts) := by
  intro n
  induction n with
  | zero => intro parts s he; rw [parseSwitchStatement.switchOperandLoop]; wpsimp
  | succ n ih =>
    intro parts s he; rw [parseSwitchStatement.switchOperandLoop]
    vcfin [(frame_switchOperandLoop _ _ _).dec_iff (ih _), iff_true_intro he]
    all_goals lenfin

theorem dec_tableCollect (stop : Tok → Bool) (onEOF : PFail) :
    ∀ (n : Nat) (acc : String), Dec 0 (tableCollect stop onEOF n acc) := by
  intro n
  induction n with
  | zero => intro acc s he; rw [tableCollect]; wpsimp
  | succ n ih =>
    intro acc s he; rw [tableCollect]
    vcfin [(frame_tableCollect _ _ _ _).dec_iff (ih _), iff_true_intro he]
    all_goals lenfin

/-- On success `tableCollect` stops at a token satisfying `stop`. -/
theorem tableCollect_stop (stop : Tok → Bool) (onEOF : PFail) :
    ∀ (n : Nat) (acc : String) (s : PState),
      wp (tableCollect stop onEOF n acc) s (fun _ s' => stop (s'.toks.headD s'.eof) = true) := by
  intro n
  induction n with
  | zero => intro acc s; rw [tableCollect]; wpsimp
  | succ n ih =>
    intro acc s; rw [tableCollect]
    vcfin [wp_spec (ih _ _)]
    all_goals (first | assumption | skip)

theorem dec_constLoop : ∀ (n : Nat) (acc : String), Dec 0 (constLoop n acc) := by
  intro n
  induction n with
  | zero => intro acc s he; rw [constLoop]; wpsimp
  | succ n ih =>
    intro acc s he; rw [constLoop]
    vcfin [(frame_constLoop _ _).dec_iff (ih _), iff_true_intro he]
    all_goals lenfin

theorem dec_mapM_tryReplace : ∀ (l : List Tok), Dec 0 (l.mapM fun t => tryReplaceWithConstant t.lit) := by
  intro l
  induction l with
  | nil => intro s he; simp only [List.mapM_nil]; wpsimp; omega
  | cons x r ih =>
    intro s he; simp only [List.mapM_cons]
    vcfin [(frame_mapM_tryReplace _).dec_iff ih, iff_true_intro he]
    all_goals lenfin

end Pory.Parser
