import PoryProofs.Properties.P1
import PoryProofs.Properties.C13b
import PoryProofs.EmitIds
/-
P2 (whole-file grammar), stage 1: the surface syntax of whole files, its printer, well-formedness, the
reference elaboration of a file (`elabTops`) and the post-passes of `ParseProgram` (`finish`).

* `STop` — one constructor per covered top-level kind, carrying the tokens it is printed with (arbitrary
  records; `TopWF` fixes token types only, plus "the multipliers of a movement list are valid"):
    script     `script [(global|local)] Name { body }`           body : `List StmtG.SStmt` (the grammar of P1)
    raw        `raw RAWSTRING`
    const      `const NAME = v₁ … vₖ`                            value tokens: not a top-level keyword, not EOF
    movement   `movement [(mod)] Name { step | step * N | , … }` (`C14b.Item`; no poryswitch inside the list)
    mart       `mart [(mod)] Name { ITEM* }`                     plain IDENT items
    text       `text [(mod)] Name { STRING | STRINGTYPE STRING }` (`TopParse.TextVal`; no `format()`, no poryswitch)
* `printTops`, `TWF` (every statement `TopWF`; a `const` is not the last statement of the file: see P2.lean,
  NOT COVERED).
* `stepTop env t s` — what one top-level statement does to the parser state (`PState` with the token window
  ignored) and the `Top` it contributes; `elabTops env ts s` threads it.  Scripts reuse `StmtG.elabE`; their
  implicit texts / movements are recorded with `C12c.addImp` (= `addImplicitData`).
* `finish tops s` — the post-passes of `parseProgramM`: duplicate text labels, implicit movements appended,
  duplicate movement labels.
-/
namespace Pory.P2
open Pory Pory.Parser Pory.C02P Pory.StmtG Pory.TopParse
open Pory.C14b (Item printItems expand)
open Pory.C12c (addImp)

/-! ### surface syntax -/

inductive STop where
  | script (kw : Tok) (md : Mod) (name lb : Tok) (body : List SStmt) (rb : Tok)
  | raw (kw v : Tok)
  | const (kw name eq : Tok) (vs : List Tok)
  | movement (kw : Tok) (md : Mod) (name lb : Tok) (items : List Item) (rb : Tok)
  | mart (kw : Tok) (md : Mod) (name lb : Tok) (items : List Tok) (rb : Tok)
  | text (kw : Tok) (md : Mod) (name lb : Tok) (v : TextVal) (rb : Tok)

def printTop : STop → List Tok
  | .script kw md name lb body rb => kw :: (md.toks ++ name :: lb :: (printStmts body ++ [rb]))
  | .raw kw v => [kw, v]
  | .const kw name eq vs => kw :: name :: eq :: vs
  | .movement kw md name lb items rb => kw :: (md.toks ++ name :: lb :: (printItems items ++ [rb]))
  | .mart kw md name lb items rb => kw :: (md.toks ++ name :: lb :: (items ++ [rb]))
  | .text kw md name lb v rb => kw :: (md.toks ++ name :: lb :: (v.toks ++ [rb]))

def printTops : List STop → List Tok
  | [] => []
  | t :: r => printTop t ++ printTops r

theorem printTops_append (a b : List STop) : printTops (a ++ b) = printTops a ++ printTops b := by
  induction a with
  | nil => rfl
  | cons t r ih => simp [printTops, ih]

/-- The keyword token of a statement. -/
def STop.kw : STop → Tok
  | .script kw .. => kw
  | .raw kw _ => kw
  | .const kw .. => kw
  | .movement kw .. => kw
  | .mart kw .. => kw
  | .text kw .. => kw

/-- The last token of a statement (the parser stops on it). -/
def STop.last : STop → Tok
  | .script _ _ _ _ _ rb => rb
  | .raw _ v => v
  | .const _ _ eq vs => vs.getLastD eq
  | .movement _ _ _ _ _ rb => rb
  | .mart _ _ _ _ _ rb => rb
  | .text _ _ _ _ _ rb => rb

def STop.isConst : STop → Bool
  | .const .. => true
  | _ => false

/-! ### well-formedness -/

instance : DecidablePred Mod.WF := fun m => by cases m <;> unfold Mod.WF <;> exact inferInstance
instance : DecidablePred TextVal.WF := fun v => by cases v <;> unfold TextVal.WF <;> exact inferInstance
instance : DecidablePred Item.WF := fun i => by cases i <;> unfold Item.WF <;> exact inferInstance

/-- Token types of one statement (and: the multipliers of a movement list are base-0 literals in 1..9999). -/
def TopWF : STop → Prop
  | .script kw md name lb body rb =>
      kw.type = .SCRIPT ∧ md.WF ∧ name.type = .IDENT ∧ lb.type = .LBRACE ∧ SWF body ∧ rb.type = .RBRACE
  | .raw kw v => kw.type = .RAW ∧ v.type = .RAWSTRING
  | .const kw name eq vs =>
      kw.type = .CONST ∧ name.type = .IDENT ∧ eq.type = .ASSIGN ∧ ∀ v ∈ vs, ValTok v
  | .movement kw md name lb items rb =>
      kw.type = .MOVEMENT ∧ md.WF ∧ name.type = .IDENT ∧ lb.type = .LBRACE ∧ (∀ i ∈ items, i.WF) ∧
        (expand items).isSome = true ∧ rb.type = .RBRACE
  | .mart kw md name lb items rb =>
      kw.type = .MART ∧ md.WF ∧ name.type = .IDENT ∧ lb.type = .LBRACE ∧ (∀ t ∈ items, t.type = .IDENT) ∧
        rb.type = .RBRACE
  | .text kw md name lb v rb =>
      kw.type = .TEXT ∧ md.WF ∧ name.type = .IDENT ∧ lb.type = .LBRACE ∧ v.WF ∧ rb.type = .RBRACE

instance : DecidablePred TopWF := fun t => by cases t <;> unfold TopWF <;> exact inferInstance

/-- A well-formed file: every statement is well-formed and a `const` is followed by another statement. -/
def TWF : List STop → Prop
  | [] => True
  | t :: r => TopWF t ∧ (t.isConst = true → r ≠ []) ∧ TWF r

def decTWF : (ts : List STop) → Decidable (TWF ts)
  | [] => isTrue trivial
  | t :: r =>
    have := decTWF r
    by unfold TWF; exact inferInstance
instance : DecidablePred TWF := decTWF

theorem TopWF.kw_top {t : STop} (h : TopWF t) : t.kw.type ∈ Facts.topLevelTokens := by
  cases t <;> simp only [TopWF] at h <;> simp [STop.kw, h.1, Facts.topLevelTokens]

theorem TWF.append : ∀ {a b : List STop}, TWF a → TWF b → (b = [] → ∀ t, a.getLast? = some t → t.isConst = false) →
    TWF (a ++ b)
  | [], _, _, hb, _ => hb
  | t :: r, b, ha, hb, hl => by
    obtain ⟨h1, h2, h3⟩ := ha
    refine ⟨h1, ?_, TWF.append h3 hb ?_⟩
    · intro hc hn
      have hr : r = [] := by cases r <;> simp_all
      have hb' : b = [] := by cases b <;> simp_all
      subst hr
      have := hl hb' t rfl
      rw [hc] at this; cases this
    · intro hb' t' ht'
      apply hl hb' t'
      cases r with
      | nil => simp at ht'
      | cons x y => simpa [List.getLast?_cons_cons] using ht'

/-! ### the reference elaboration of a file -/

def dupConstErr (name : Tok) : PFail :=
  newParseError name s!"duplicate const '{name.lit}'. Must use unique const names"
def emptyConstErr (kw eq name : Tok) : PFail :=
  newRangeParseError kw eq s!"missing value for const '{name.lit}'"

/-- The script node of a `script` statement. -/
def scriptOf (kw : Tok) (md : Mod) (name : Tok) (stmts : List Stmt) : Script :=
  { tok := kw, name := name.lit, body := stmts, scope := md.scope (defaultScopeOf "parseScriptStatement") }

/-- The state after a script body: the two counters advanced, the implicit data recorded. -/
def afterScript (s : PState) (imp : ImpData) (c' : Ctx) : PState :=
  addImp imp { s with nextSid := c'.nextSid, nextCmdId := c'.nextCmdId }

/-- What one top-level statement contributes (`none` for `const`) and what it does to the parser state
(the token window of the state is not looked at and not changed). -/
def stepTop (env : Env) (t : STop) (s : PState) : Except PFail (Option Top × PState) :=
  match t with
  | .script kw md name _ body _ =>
      match elabE env name.lit (ctxOf s) body with
      | .error e => .error e
      | .ok (stmts, imp, c') => .ok (some (.script (scriptOf kw md name stmts)), afterScript s imp c')
  | .raw kw v => .ok (some (.raw kw v v.lit), s)
  | .const kw name eq vs =>
      if (s.constants.lookup name.lit).isSome then .error (dupConstErr name)
      else if constAcc s.constants vs "" = "" then .error (emptyConstErr kw eq name)
      else .ok (none, { s with constants := (name.lit, constAcc s.constants vs "") :: s.constants })
  | .movement kw md name _ items _ =>
      .ok (some (.movement { tok := kw, name := name.lit, cmds := (expand items).getD [],
                             scope := md.scope (defaultScopeOf "parseMovementStatement") }), s)
  | .mart kw md name _ items _ =>
      .ok (some (.mart kw name.lit items (items.map fun t => substC s.constants t.lit)
                   (md.scope (defaultScopeOf "parseMartStatement"))), s)
  | .text kw md name _ v _ =>
      let t := C15b.mkText kw name (md.scope (defaultScopeOf "parseTextStatement")) v.value
      .ok (some (.text t), { s with textStatements := s.textStatements ++ [t] })

def optTop : Option Top → List Top
  | some t => [t]
  | none => []

/-- **The reference elaboration of a file**: the statements left to right, threading the parser state. -/
def elabTops (env : Env) : List STop → PState → Except PFail (List Top × PState)
  | [], s => .ok ([], s)
  | t :: r, s =>
      match stepTop env t s with
      | .error e => .error e
      | .ok (o, s1) =>
        match elabTops env r s1 with
        | .error e => .error e
        | .ok (tops, s2) => .ok (optTop o ++ tops, s2)

def dupTextErr (t : Text) : PFail :=
  newParseError t.tok s!"duplicate text label '{t.name}'. Choose a unique label that won't clash with the auto-generated text labels"
def dupMovementErr (tok : Tok) (name : String) : PFail :=
  newParseError tok s!"duplicate movement label '{name}'. Choose a unique label that won't clash with the auto-generated movement labels"

/-- The post-passes of `ParseProgram`. -/
def finish (tops : List Top) (s : PState) : Except PFail Program :=
  match firstDuplicateText (s.inlineTexts ++ s.textStatements) [] with
  | some t => .error (dupTextErr t)
  | none =>
    match firstDuplicateMovement (tops ++ s.inlineMovements.map Top.movement) [] with
    | some (tok, name) => .error (dupMovementErr tok name)
    | none => .ok { tops := tops ++ s.inlineMovements.map Top.movement,
                    texts := s.inlineTexts ++ s.textStatements, patches := s.patches }

/-- The parse result of a whole file. -/
def elabFile (env : Env) (ts : List STop) (s : PState) : Except PFail Program :=
  match elabTops env ts s with
  | .error e => .error e
  | .ok (tops, s') => finish tops s'

/-! ### fuel -/

def needTop : STop → Nat
  | .script _ _ _ _ body _ => needL body
  | .raw .. => 0
  | .const _ _ _ vs => vs.length + 1
  | .movement _ _ _ _ items _ => (printItems items).length + 1
  | .mart _ _ _ _ items _ => items.length + 1
  | .text .. => 0

theorem needTop_le (t : STop) : needTop t ≤ 2 * (printTop t).length + 1 := by
  cases t with
  | script kw md name lb body rb =>
    have := needL_le body
    simp only [needTop, printTop, printStmts, List.length_cons, List.length_append, List.length_nil]
    omega
  | raw => simp [needTop]
  | const => simp [needTop, printTop]; omega
  | movement => simp [needTop, printTop]; omega
  | mart => simp [needTop, printTop]; omega
  | text => simp [needTop]

end Pory.P2
