import PoryProofs.StmtParseErr
import PoryProofs.BoolGen
import PoryProofs.CmdGen
import PoryProofs.CmdGenMS
import PoryProofs.LeafGen
/-
P1c (statement grammar with poryswitch inside `moves( … )` arguments), stage 1: surface syntax, printer, token-type
side conditions, reference elaboration.

THIS FILE IS `PoryProofs/StmtGrammar2.lean` (P1b, namespace `Pory.P1b`) RE-RUN in namespace `Pory.P1c` WITH THE
COMMAND FORM `CmdGen.CmdF` REPLACED BY `P1c.CmdM` (`PoryProofs/CmdGenMS.lean`) — the text is otherwise identical
(the existing files may not be edited, and an inductive type cannot be extended after the fact).  Differences in
content:

* ONE command form `CmdM`: `name ( a0 , … )` with arguments made of plain tokens, balanced parentheses, string
  literals, typed strings, `moves( … )`, inline `format( … )` AND `moves( items )` whose list may contain
  (nested) `poryswitch` elements (`MElem.movesS`); `name ( )`; `name` — as a statement (`SStmt.cmd`), as the
  command of an auto-var condition leaf and as the operand of `switch ( cmd )` (`SStmt.switchA`);
* everything else as in P1b: conditions `SCond := GOr CLeaf`, `SPCase.colon0`, …

The reference elaboration `elabL` hands out command ids / scope ids in source order, collects the implicit data
in source order, and returns the located error of the FIRST violation in source order; new violations compared
with P1b: a `moves( … )` argument whose list cannot be elaborated (`P2d.elItems env items = .error e`, reported
through `CmdM.elabC`).
-/
namespace Pory.P1c
open Pory Pory.Parser Pory.C02P Pory.C10b Pory.SwitchParse Pory.BoolGen Pory.CmdGen Pory.LeafGen
open Pory.C14b (swVal)
open Pory.C10c (add_assoc nil_add add_nil)
open Pory.C11b (operandName badPosMsg Form autoLeafT leftSideMsg autoE)
open Pory.StmtG (breakOutsideErr continueOutsideErr continueNotLastErr duplicateCaseErr secondDefaultErr
  emptySwitchErr notAutoVarErr badPosErr autoPosBad notLeafErr noSwitchesErr undefinedSwitchErr noPoryCaseErr
  caseValue caseTok operandOf caseValTok operandTok Ctx ctxOf)

/-! ### condition leaves -/

/-- Fuel the operator part of an auto-var leaf needs. -/
def formNeed : Form → Nat
  | .cmp .. => 2
  | _ => 0

/-- A leaf of a condition: one of the non-autovar forms of C02P (`plain`: one-token operand and value), a
`flag( … )` / `defeated( … )` / `var( … )` leaf with a multi-token operand and a comparison value of any written
form (`kw`, `LeafGen.KLeaf`), `[!] cmd [op N]` on a configured auto-var command written in any of its forms
(`auto`), or `cmd op value` with a comparison value of any written form — several tokens or `value( … )`
(`autoV`, `LeafGen.CmpVal`). -/
inductive CLeaf where
  | plain (l : Leaf)
  | auto (fm : Form) (c : CmdM)
  | kw (l : KLeaf)
  | autoV (c : CmdM) (opTok : Tok) (v : CmpVal)

namespace CLeaf

def print : CLeaf → List Tok
  | .plain l => printLeaf l
  | .auto fm c => fm.pre ++ (c.print ++ fm.post)
  | .kw l => l.print
  | .autoV c opTok v => c.print ++ opTok :: v.print

def wf : CLeaf → Bool
  | .plain _ => true
  | .auto _ c => c.ok
  | .kw l => l.ok
  | .autoV c opTok v => c.ok && isCmpTT opTok.type && v.ok

def need : CLeaf → Nat
  | .plain _ => 2
  | .auto fm c => c.need + formNeed fm
  | .kw l => l.need
  | .autoV c _ v => c.need + v.need

/-- What the leaf parser returns: the `OpExpr`, the implicit data of the leaf, the next command id — or the
located error: the command is not configured as auto-var command; an inline `format( … )` of the command cannot
be formatted; the configured argument position addresses no argument. -/
def res (env : Env) (sn : String) (σ : String → String) (id : Nat) : CLeaf → Except PFail (OpExpr × ImpData × Nat)
  | .plain l => .ok (leafT σ l, {}, id)
  | .auto fm c =>
    match env.autoVars.lookup c.name.lit with
    | none => .error (notLeafErr c.name)
    | some av =>
      match c.elabC env sn σ id with
      | .error e => .error e
      | .ok (cmd, imp) =>
        match autoPosBad av c.nargs with
        | some pos => .error (badPosErr c.name c.last pos c.nargs)
        | none => .ok (autoLeafT σ fm (operandName av cmd.args) cmd, imp, id + 1)
  | .kw l => .ok (l.tree σ, {}, id)
  | .autoV c opTok v =>
    match env.autoVars.lookup c.name.lit with
    | none => .error (notLeafErr c.name)
    | some av =>
      match c.elabC env sn σ id with
      | .error e => .error e
      | .ok (cmd, imp) =>
        match autoPosBad av c.nargs with
        | some pos => .error (badPosErr c.name c.last pos c.nargs)
        | none => .ok (applyVal σ (autoE {} (operandName av cmd.args) cmd) opTok.type v, imp, id + 1)

end CLeaf

/-- A condition. -/
abbrev SCond := GOr CLeaf

def printCond (c : SCond) : List Tok := printOr CLeaf.print c
def swfCond (c : SCond) : Bool := wfOr CLeaf.wf c
def needCond (c : SCond) : Nat := needOr CLeaf.need c

/-- The tree of a condition, its implicit data and the command id after it; or the located error of the first
failing leaf. -/
def elabCond (env : Env) (sn : String) (σ : String → String) (c : SCond) (cid : Nat) :
    Except PFail (BoolExpr × ImpData × Nat) :=
  elabOr (CLeaf.res env sn) σ false c cid

/-! ### surface syntax -/
mutual
inductive SStmt where
  /-- a command in any of its written forms -/
  | cmd (c : CmdM)
  /-- `name :` -/
  | label (name colon : Tok)
  /-- `name ( global ) :` / `name ( local ) :` -/
  | labelS (name lp scope rp colon : Tok)
  /-- `if ( c ) { body } elifs els` -/
  | ite (ifTok lp : Tok) (c : SCond) (rp lb : Tok) (body : List SStmt) (rb : Tok)
      (elifs : List SElif) (els : SElse)
  /-- `while ( c ) { body }` -/
  | while_ (wTok lp : Tok) (c : SCond) (rp lb : Tok) (body : List SStmt) (rb : Tok)
  /-- `while { body }` -/
  | whileInf (wTok lb : Tok) (body : List SStmt) (rb : Tok)
  /-- `do { body } while ( c )` -/
  | doWhile (doTok lb : Tok) (body : List SStmt) (rb wTok lp : Tok) (c : SCond) (rp : Tok)
  | brk (t : Tok)
  | cont (t : Tok)
  /-- `switch ( var ( operand… ) ) { cases }` -/
  | switch_ (swTok lp varTok lp2 : Tok) (operand : List Tok) (rp2 rp lb : Tok) (cases : List SCase)
      (rb : Tok)
  /-- `switch ( cmd ) { cases }` on a configured auto-var command -/
  | switchA (swTok lp : Tok) (c : CmdM) (rp lb : Tok) (cases : List SCase) (rb : Tok)
  /-- `poryswitch ( X ) { cases }` -/
  | pory (psTok lp x rp lb : Tok) (cases : List SPCase) (rb : Tok)
inductive SElif where
  /-- `elif ( c ) { body }` -/
  | mk (eTok lp : Tok) (c : SCond) (rp lb : Tok) (body : List SStmt) (rb : Tok)
inductive SElse where
  | none
  /-- `else { body }` -/
  | some (eTok lb : Tok) (body : List SStmt) (rb : Tok)
inductive SCase where
  /-- `case v… : body` -/
  | case (cTok : Tok) (vs : List Tok) (colon : Tok) (body : List SStmt)
  /-- `default : body` -/
  | dflt (dTok colon : Tok) (body : List SStmt)
inductive SPCase where
  /-- `key : stmt` (exactly one statement) -/
  | colon (key c : Tok) (stmt : SStmt)
  /-- `key :` without a statement — only directly before the `}` that closes the poryswitch -/
  | colon0 (key c : Tok)
  /-- `key { body }` -/
  | brace (key lb : Tok) (body : List SStmt) (rb : Tok)
end

/-! ### printer -/
mutual
def printS : SStmt → List Tok
  | .cmd c => c.print
  | .label name colon => [name, colon]
  | .labelS name lp sc rp colon => [name, lp, sc, rp, colon]
  | .ite ifTok lp c rp lb body rb elifs els =>
      ifTok :: lp :: (printCond c ++ rp :: lb :: (printL body ++ rb :: (printElifs elifs ++ printElse els)))
  | .while_ w lp c rp lb body rb => w :: lp :: (printCond c ++ rp :: lb :: (printL body ++ [rb]))
  | .whileInf w lb body rb => w :: lb :: (printL body ++ [rb])
  | .doWhile d lb body rb w lp c rp => d :: lb :: (printL body ++ rb :: w :: lp :: (printCond c ++ [rp]))
  | .brk t => [t]
  | .cont t => [t]
  | .switch_ sw lp v lp2 ops rp2 rp lb cases rb =>
      sw :: lp :: v :: lp2 :: (ops ++ rp2 :: rp :: lb :: (printCases cases ++ [rb]))
  | .switchA sw lp c rp lb cases rb =>
      sw :: lp :: (c.print ++ rp :: lb :: (printCases cases ++ [rb]))
  | .pory ps lp x rp lb cases rb => ps :: lp :: x :: rp :: lb :: (printPCases cases ++ [rb])
def printL : List SStmt → List Tok
  | [] => []
  | x :: r => printS x ++ printL r
def printElif : SElif → List Tok
  | .mk e lp c rp lb body rb => e :: lp :: (printCond c ++ rp :: lb :: (printL body ++ [rb]))
def printElifs : List SElif → List Tok
  | [] => []
  | e :: r => printElif e ++ printElifs r
def printElse : SElse → List Tok
  | .none => []
  | .some e lb body rb => e :: lb :: (printL body ++ [rb])
def printCase : SCase → List Tok
  | .case c vs colon body => c :: (vs ++ colon :: printL body)
  | .dflt d colon body => d :: colon :: printL body
def printCases : List SCase → List Tok
  | [] => []
  | c :: r => printCase c ++ printCases r
def printPCase : SPCase → List Tok
  | .colon key c x => key :: c :: printS x
  | .colon0 key c => [key, c]
  | .brace key lb body rb => key :: lb :: (printL body ++ [rb])
def printPCases : List SPCase → List Tok
  | [] => []
  | c :: r => printPCase c ++ printPCases r
end

/-- `printStmts` of the task statement. -/
abbrev printStmts : List SStmt → List Tok := printL

/-! ### token-type side conditions -/
mutual
def swfS : SStmt → Bool
  | .cmd c => c.ok
  | .label name colon => name.type == .IDENT && colon.type == .COLON
  | .labelS name lp sc rp colon =>
      name.type == .IDENT && lp.type == .LPAREN && (sc.type == .GLOBAL || sc.type == .LOCAL) &&
        rp.type == .RPAREN && colon.type == .COLON
  | .ite ifTok lp c rp lb body rb elifs els =>
      ifTok.type == .IF && lp.type == .LPAREN && rp.type == .RPAREN && lb.type == .LBRACE &&
        rb.type == .RBRACE && swfL body && swfElifs elifs && swfElse els && swfCond c
  | .while_ w lp c rp lb body rb =>
      w.type == .WHILE && lp.type == .LPAREN && rp.type == .RPAREN && lb.type == .LBRACE &&
        rb.type == .RBRACE && swfL body && swfCond c
  | .whileInf w lb body rb => w.type == .WHILE && lb.type == .LBRACE && rb.type == .RBRACE && swfL body
  | .doWhile d lb body rb w lp c rp =>
      d.type == .DO && lb.type == .LBRACE && rb.type == .RBRACE && w.type == .WHILE &&
        lp.type == .LPAREN && rp.type == .RPAREN && swfL body && swfCond c
  | .brk t => t.type == .BREAK
  | .cont t => t.type == .CONTINUE
  | .switch_ sw lp v lp2 ops rp2 rp lb cases rb =>
      sw.type == .SWITCH && lp.type == .LPAREN && v.type == .VAR && lp2.type == .LPAREN &&
        ops.all operandTok && rp2.type == .RPAREN && rp.type == .RPAREN && lb.type == .LBRACE &&
        rb.type == .RBRACE && swfCases cases
  | .switchA sw lp c rp lb cases rb =>
      sw.type == .SWITCH && lp.type == .LPAREN && c.ok && rp.type == .RPAREN && lb.type == .LBRACE &&
        rb.type == .RBRACE && swfCases cases
  | .pory ps lp x rp lb cases rb =>
      ps.type == .PORYSWITCH && lp.type == .LPAREN && x.type == .IDENT && rp.type == .RPAREN &&
        lb.type == .LBRACE && rb.type == .RBRACE && swfPCases cases
def swfL : List SStmt → Bool
  | [] => true
  | x :: r => swfS x && swfL r
def swfElif : SElif → Bool
  | .mk e lp c rp lb body rb =>
      e.type == .ELSEIF && lp.type == .LPAREN && rp.type == .RPAREN && lb.type == .LBRACE &&
        rb.type == .RBRACE && swfL body && swfCond c
def swfElifs : List SElif → Bool
  | [] => true
  | e :: r => swfElif e && swfElifs r
def swfElse : SElse → Bool
  | .none => true
  | .some e lb body rb => e.type == .ELSE && lb.type == .LBRACE && rb.type == .RBRACE && swfL body
def swfCase : SCase → Bool
  | .case c vs colon body => c.type == .CASE && vs.all caseValTok && colon.type == .COLON && swfL body
  | .dflt d colon body => d.type == .DEFAULT && colon.type == .COLON && swfL body
def swfCases : List SCase → Bool
  | [] => true
  | c :: r => swfCase c && swfCases r
def swfPCase : SPCase → Bool
  | .colon key c x => (key.type == .IDENT || key.type == .INT) && c.type == .COLON && swfS x
  | .colon0 key c => (key.type == .IDENT || key.type == .INT) && c.type == .COLON
  | .brace key lb body rb =>
      (key.type == .IDENT || key.type == .INT) && lb.type == .LBRACE && rb.type == .RBRACE && swfL body
def swfPCases : List SPCase → Bool
  | [] => true
  | .colon0 key c :: r => swfPCase (.colon0 key c) && r.isEmpty
  | c :: r => swfPCase c && swfPCases r
end

/-- Well-formedness of a printed block: the token types of the documented grammar. -/
def SWF (b : List SStmt) : Prop := swfL b = true
instance (b : List SStmt) : Decidable (SWF b) := by unfold SWF; exact inferInstance

/-! ### reference elaboration -/
mutual
/-- One statement. `nx` = the token after the statement is `}`. The result: the statements, their implicit
data (in source order), the counters after the statement. -/
def elabS (env : Env) (sn : String) (σ : String → String) (B C : List Nat) (nx : Bool) :
    SStmt → Nat → Nat → Except PFail (List Stmt × ImpData × Nat × Nat)
  | .cmd c, sid, cid =>
      match c.elabC env sn σ cid with
      | .error e => .error e
      | .ok (cmd, m) => .ok ([.cmd cmd], m, sid, cid + 1)
  | .label name _, sid, cid => .ok ([.label name name.lit false], {}, sid, cid)
  | .labelS name _ sc _ _, sid, cid => .ok ([.label name name.lit (sc.type == .GLOBAL)], {}, sid, cid)
  | .ite ifTok _ c _ _ body _ elifs els, sid, cid =>
      match elabCond env sn σ c cid with
      | .error e => .error e
      | .ok (t, mc, cid0) =>
        match elabL env sn σ B C true body sid cid0 with
        | .error e => .error e
        | .ok (b, m1, sid1, cid1) =>
          match elabElifs env sn σ B C elifs sid1 cid1 with
          | .error e => .error e
          | .ok (es, m2, sid2, cid2) =>
            match elabElse env sn σ B C els sid2 cid2 with
            | .error e => .error e
            | .ok (el, m3, sid3, cid3) =>
              .ok ([.ite ifTok t b es el], mc.add (m1.add (m2.add m3)), sid3, cid3)
  | .while_ w _ c _ _ body _, sid, cid =>
      match elabCond env sn σ c cid with
      | .error e => .error e
      | .ok (t, mc, cid0) =>
        match elabL env sn σ (sid :: B) (sid :: C) true body (sid + 1) cid0 with
        | .error e => .error e
        | .ok (b, m1, sid1, cid1) => .ok ([.while_ w sid (some t) b], mc.add m1, sid1, cid1)
  | .whileInf w _ body _, sid, cid =>
      match elabL env sn σ (sid :: B) (sid :: C) true body (sid + 1) cid with
      | .error e => .error e
      | .ok (b, m1, sid1, cid1) => .ok ([.while_ w sid none b], m1, sid1, cid1)
  | .doWhile d _ body _ _ _ c _, sid, cid =>
      match elabL env sn σ (sid :: B) (sid :: C) true body (sid + 1) cid with
      | .error e => .error e
      | .ok (b, m1, sid1, cid1) =>
        match elabCond env sn σ c cid1 with
        | .error e => .error e
        | .ok (t, mc, cid2) => .ok ([.doWhile d sid t b], m1.add mc, sid1, cid2)
  | .brk t, sid, cid =>
      match B with
      | [] => .error (breakOutsideErr t)
      | b :: _ => .ok ([.brk t b], {}, sid, cid)
  | .cont t, sid, cid =>
      match C with
      | [] => .error (continueOutsideErr t)
      | c :: _ => if nx then .ok ([.cont t c], {}, sid, cid) else .error (continueNotLastErr t)
  | .switch_ sw _ _ _ ops rp2 _ _ cases rb, sid, cid =>
      match elabCases env sn σ (sid :: B) C cases [] false (sid + 1) cid with
      | .error e => .error e
      | .ok (cs, m1, sid1, cid1) =>
        if cs.isEmpty then .error (emptySwitchErr sw rb)
        else .ok ([.switch_ sw sid (operandOf σ ops rp2) cs], m1, sid1, cid1)
  | .switchA sw _ c _ _ cases rb, sid, cid =>
      match env.autoVars.lookup c.name.lit with
      | none => .error (notAutoVarErr c.name)
      | some av =>
        match c.elabC env sn σ cid with
        | .error e => .error e
        | .ok (cmd, mc) =>
          match autoPosBad av c.nargs with
          | some pos => .error (badPosErr c.name c.last pos c.nargs)
          | none =>
            match elabCases env sn σ (sid :: B) C cases [] false (sid + 1) (cid + 1) with
            | .error e => .error e
            | .ok (cs, m1, sid1, cid1) =>
              if cs.isEmpty then .error (emptySwitchErr sw rb)
              else
                .ok ([.cmd cmd,
                      .switch_ sw sid { cmd.tok with type := .IDENT, lit := operandName av cmd.args } cs],
                     mc.add m1, sid1, cid1)
  | .pory ps _ x _ _ cases _, sid, cid =>
      if env.envErrors && env.switches.isEmpty then .error (noSwitchesErr ps)
      else if env.envErrors && (env.switches.lookup x.lit).isNone then .error (undefinedSwitchErr x)
      else
        match elabPCases env sn σ B C cases [] sid cid with
        | .error e => .error e
        | .ok (table, sid1, cid1) =>
          match selectCase env table (swVal env x.lit) with
          | some r => .ok (r.1, r.2, sid1, cid1)
          | none =>
            if env.envErrors then .error (noPoryCaseErr ps x (swVal env x.lit)) else .ok ([], {}, sid1, cid1)
/-- A statement list. `last` = the token after the list is `}`. -/
def elabL (env : Env) (sn : String) (σ : String → String) (B C : List Nat) (last : Bool) :
    List SStmt → Nat → Nat → Except PFail (List Stmt × ImpData × Nat × Nat)
  | [], sid, cid => .ok ([], {}, sid, cid)
  | x :: r, sid, cid =>
      match elabS env sn σ B C (r.isEmpty && last) x sid cid with
      | .error e => .error e
      | .ok (a, m1, sid1, cid1) =>
        match elabL env sn σ B C last r sid1 cid1 with
        | .error e => .error e
        | .ok (b, m2, sid2, cid2) => .ok (a ++ b, m1.add m2, sid2, cid2)
def elabElifs (env : Env) (sn : String) (σ : String → String) (B C : List Nat) :
    List SElif → Nat → Nat → Except PFail (List (BoolExpr × List Stmt) × ImpData × Nat × Nat)
  | [], sid, cid => .ok ([], {}, sid, cid)
  | .mk _ _ c _ _ body _ :: r, sid, cid =>
      match elabCond env sn σ c cid with
      | .error e => .error e
      | .ok (t, mc, cid0) =>
        match elabL env sn σ B C true body sid cid0 with
        | .error e => .error e
        | .ok (b, m1, sid1, cid1) =>
          match elabElifs env sn σ B C r sid1 cid1 with
          | .error e => .error e
          | .ok (es, m2, sid2, cid2) => .ok ((t, b) :: es, mc.add (m1.add m2), sid2, cid2)
def elabElse (env : Env) (sn : String) (σ : String → String) (B C : List Nat) :
    SElse → Nat → Nat → Except PFail (Option (List Stmt) × ImpData × Nat × Nat)
  | .none, sid, cid => .ok (none, {}, sid, cid)
  | .some _ _ body _, sid, cid =>
      match elabL env sn σ B C true body sid cid with
      | .error e => .error e
      | .ok (b, m1, sid1, cid1) => .ok (some b, m1, sid1, cid1)
/-- The cases of a switch. `seen` = the case values met so far, `hd` = a `default` was met. -/
def elabCases (env : Env) (sn : String) (σ : String → String) (B C : List Nat) :
    List SCase → List String → Bool → Nat → Nat → Except PFail (List SwitchCase × ImpData × Nat × Nat)
  | [], _, _, sid, cid => .ok ([], {}, sid, cid)
  | .case c vs colon body :: r, seen, hd, sid, cid =>
      if seen.contains (caseValue σ vs) then .error (duplicateCaseErr c colon (caseValue σ vs))
      else
        match elabL env sn σ B C r.isEmpty body sid cid with
        | .error e => .error e
        | .ok (b, m1, sid1, cid1) =>
          match elabCases env sn σ B C r (caseValue σ vs :: seen) hd sid1 cid1 with
          | .error e => .error e
          | .ok (cs, m2, sid2, cid2) => .ok ((caseTok σ vs colon, false, b) :: cs, m1.add m2, sid2, cid2)
  | .dflt d _ body :: r, seen, hd, sid, cid =>
      if hd then .error (secondDefaultErr d)
      else
        match elabL env sn σ B C r.isEmpty body sid cid with
        | .error e => .error e
        | .ok (b, m1, sid1, cid1) =>
          match elabCases env sn σ B C r seen true sid1 cid1 with
          | .error e => .error e
          | .ok (cs, m2, sid2, cid2) => .ok ((({} : Tok), true, b) :: cs, m1.add m2, sid2, cid2)
/-- The cases of a poryswitch: ALL of them are elaborated, in source order; the result is the table the parser
selects from (newest entry first), each entry with its statements and their implicit data. -/
def elabPCases (env : Env) (sn : String) (σ : String → String) (B C : List Nat) :
    List SPCase → List (String × List Stmt × ImpData) → Nat → Nat →
      Except PFail (List (String × List Stmt × ImpData) × Nat × Nat)
  | [], acc, sid, cid => .ok (acc, sid, cid)
  | .colon key _ x :: r, acc, sid, cid =>
      match elabS env sn σ B C r.isEmpty x sid cid with
      | .error e => .error e
      | .ok (a, m1, sid1, cid1) => elabPCases env sn σ B C r ((key.lit, a, m1) :: acc) sid1 cid1
  | .colon0 key _ :: r, acc, sid, cid => elabPCases env sn σ B C r ((key.lit, [], {}) :: acc) sid cid
  | .brace key _ body _ :: r, acc, sid, cid =>
      match elabL env sn σ B C true body sid cid with
      | .error e => .error e
      | .ok (a, m1, sid1, cid1) => elabPCases env sn σ B C r ((key.lit, a, m1) :: acc) sid1 cid1
end

/-- The reference elaboration with located errors, on a context (for a `{ … }` block). -/
def elabE (env : Env) (sn : String) (c : Ctx) (b : List SStmt) : Except PFail (List Stmt × ImpData × Ctx) :=
  match elabL env sn (substC c.consts) c.breakStack c.continueStack true b c.nextSid c.nextCmdId with
  | .error e => .error e
  | .ok (stmts, imp, sid, cid) => .ok (stmts, imp, { c with nextSid := sid, nextCmdId := cid })

/-- **The reference elaboration** of a `{ … }` block: `none` exactly for the documented violations. -/
def elaborate (env : Env) (sn : String) (c : Ctx) (b : List SStmt) : Option (List Stmt × ImpData × Ctx) :=
  (elabE env sn c b).toOption

theorem elaborate_some {env : Env} {sn : String} {c : Ctx} {b : List SStmt} {r : List Stmt × ImpData × Ctx}
    (h : elaborate env sn c b = some r) : elabE env sn c b = .ok r := by
  unfold elaborate at h
  cases h' : elabE env sn c b with
  | error e => rw [h'] at h; cases h
  | ok r' => rw [h'] at h; cases h; rfl

theorem elaborate_none {env : Env} {sn : String} {c : Ctx} {b : List SStmt}
    (h : elaborate env sn c b = none) : ∃ e, elabE env sn c b = .error e := by
  unfold elaborate at h
  cases h' : elabE env sn c b with
  | error e => exact ⟨e, rfl⟩
  | ok r' => rw [h'] at h; cases h

/-- The stacks of the resulting context are those at entry. -/
theorem elabE_stacks {env : Env} {sn : String} {c c' : Ctx} {b : List SStmt} {stmts : List Stmt}
    {imp : ImpData} (h : elabE env sn c b = .ok (stmts, imp, c')) :
    c'.breakStack = c.breakStack ∧ c'.continueStack = c.continueStack ∧ c'.consts = c.consts := by
  unfold elabE at h
  split at h
  · cases h
  · cases h; exact ⟨rfl, rfl, rfl⟩

/-! ### last token of a statement (where the parser stops) -/

def SElif.rb : SElif → Tok
  | .mk _ _ _ _ _ _ rb => rb

/-- The last token of `pre elifs…` (`pre` = the token before the first `elif`). -/
def lastElifs : List SElif → Tok → Tok
  | [], d => d
  | e :: r, _ => lastElifs r e.rb

def lastElse : SElse → Tok → Tok
  | .none, d => d
  | .some _ _ _ rb, _ => rb

/-- The last token of a statement. -/
def lastS : SStmt → Tok
  | .cmd c => c.last
  | .label _ colon => colon
  | .labelS _ _ _ _ colon => colon
  | .ite _ _ _ _ _ _ rb elifs els => lastElse els (lastElifs elifs rb)
  | .while_ _ _ _ _ _ _ rb => rb
  | .whileInf _ _ _ rb => rb
  | .doWhile _ _ _ _ _ _ _ rp => rp
  | .brk t => t
  | .cont t => t
  | .switch_ _ _ _ _ _ _ _ _ _ rb => rb
  | .switchA _ _ _ _ _ _ rb => rb
  | .pory _ _ _ _ _ _ rb => rb

/-! ### fuel -/
mutual
def needS : SStmt → Nat
  | .cmd c => c.need + 1
  | .label _ _ => 1
  | .labelS _ _ _ _ _ => 1
  | .ite _ _ c _ _ body _ elifs els => 3 + needCond c + needL body + needElifs elifs + needElse els
  | .while_ _ _ c _ _ body _ => 3 + needCond c + needL body
  | .whileInf _ _ body _ => 3 + needL body
  | .doWhile _ _ body _ _ _ c _ => 2 + needL body + needCond c
  | .brk _ => 1
  | .cont _ => 1
  | .switch_ _ _ _ _ ops _ _ _ cases _ => 3 + ops.length + needCases cases
  | .switchA _ _ c _ _ cases _ => 3 + c.need + needCases cases
  | .pory _ _ _ _ _ cases _ => 2 + needPCases cases
def needL : List SStmt → Nat
  | [] => 1
  | x :: r => 1 + needS x + needL r
def needElifs : List SElif → Nat
  | [] => 1
  | .mk _ _ c _ _ body _ :: r => 2 + needCond c + needL body + needElifs r
def needElse : SElse → Nat
  | .none => 0
  | .some _ _ body _ => needL body
def needCases : List SCase → Nat
  | [] => 1
  | .case _ vs _ body :: r => 2 + vs.length + needL body + needCases r
  | .dflt _ _ body :: r => 1 + needL body + needCases r
def needPCases : List SPCase → Nat
  | [] => 1
  | .colon _ _ x :: r => 2 + needS x + needPCases r
  | .colon0 _ _ :: r => 2 + needPCases r
  | .brace _ _ body _ :: r => 1 + needL body + needPCases r
end

/-! ### the fuel bound is linear in the number of tokens -/

theorem form_len (fm : Form) : formNeed fm ≤ fm.post.length := by
  cases fm <;> simp [formNeed, Form.post]

theorem cmpVal_len (v : CmpVal) : v.need ≤ v.print.length + 1 := by
  cases v <;> simp only [CmpVal.need, CmpVal.print, List.length_cons, List.length_append, List.length_nil] <;> omega

theorem cleaf_len (lf : CLeaf) : CLeaf.need lf + 2 ≤ 2 * (CLeaf.print lf).length := by
  cases lf with
  | plain l => have := printLeaf_length l; simp only [CLeaf.need, CLeaf.print]; omega
  | auto fm c =>
    have := c.need_le
    have := form_len fm
    simp only [CLeaf.need, CLeaf.print, List.length_append]
    omega
  | kw l =>
    obtain ⟨nt, kw, lp, o, ops, rp, post⟩ := l
    simp only [CLeaf.need, CLeaf.print, KLeaf.need, KLeaf.print, List.length_append, List.length_cons]
    cases post with
    | none => simp only [KLeaf.postToks, List.length_nil]; omega
    | flag a b => simp only [KLeaf.postToks, List.length_cons, List.length_nil]; omega
    | var a v =>
      have := cmpVal_len v
      simp only [KLeaf.postToks, List.length_cons]; omega
  | autoV c opTok v =>
    have := c.need_le
    have := cmpVal_len v
    simp only [CLeaf.need, CLeaf.print, List.length_append, List.length_cons]
    omega

theorem needCond_le (c : SCond) : needCond c ≤ 2 * (printCond c).length + 1 :=
  BoolGen.needOr_le CLeaf.print CLeaf.need cleaf_len c

mutual
theorem needS_le : (x : SStmt) → needS x + 1 ≤ 2 * (printS x).length
  | .cmd c => by have := c.need_le; simp only [needS, printS]; omega
  | .label _ _ => by simp [needS, printS]
  | .labelS _ _ _ _ _ => by simp [needS, printS]
  | .ite _ _ c _ _ body _ elifs els => by
    have := needCond_le c; have := needL_le body; have := needElifs_le elifs; have := needElse_le els
    simp only [needS, printS, List.length_cons, List.length_append]; omega
  | .while_ _ _ c _ _ body _ => by
    have := needCond_le c; have := needL_le body
    simp only [needS, printS, List.length_cons, List.length_append, List.length_nil]; omega
  | .whileInf _ _ body _ => by
    have := needL_le body
    simp only [needS, printS, List.length_cons, List.length_append, List.length_nil]; omega
  | .doWhile _ _ body _ _ _ c _ => by
    have := needCond_le c; have := needL_le body
    simp only [needS, printS, List.length_cons, List.length_append, List.length_nil]; omega
  | .brk _ => by simp [needS, printS]
  | .cont _ => by simp [needS, printS]
  | .switch_ _ _ _ _ ops _ _ _ cases _ => by
    have := needCases_le cases
    simp only [needS, printS, List.length_cons, List.length_append, List.length_nil]; omega
  | .switchA _ _ c _ _ cases _ => by
    have := needCases_le cases; have := c.need_le
    simp only [needS, printS, List.length_cons, List.length_append, List.length_nil]; omega
  | .pory _ _ _ _ _ cases _ => by
    have := needPCases_le cases
    simp only [needS, printS, List.length_cons, List.length_append, List.length_nil]; omega
theorem needL_le : (b : List SStmt) → needL b ≤ 2 * (printL b).length + 1
  | [] => by simp [needL, printL]
  | x :: r => by
    have := needS_le x; have := needL_le r
    simp only [needL, printL, List.length_append]; omega
theorem needElifs_le : (es : List SElif) → needElifs es ≤ 2 * (printElifs es).length + 1
  | [] => by simp [needElifs, printElifs]
  | .mk _ _ c _ _ body _ :: r => by
    have := needCond_le c; have := needL_le body; have := needElifs_le r
    simp only [needElifs, printElifs, printElif, List.length_cons, List.length_append, List.length_nil]; omega
theorem needElse_le : (e : SElse) → needElse e ≤ 2 * (printElse e).length + 1
  | .none => by simp [needElse]
  | .some _ _ body _ => by
    have := needL_le body
    simp only [needElse, printElse, List.length_cons, List.length_append, List.length_nil]; omega
theorem needCases_le : (cs : List SCase) → needCases cs ≤ 2 * (printCases cs).length + 1
  | [] => by simp [needCases, printCases]
  | .case _ vs _ body :: r => by
    have := needL_le body; have := needCases_le r
    simp only [needCases, printCases, printCase, List.length_cons, List.length_append]; omega
  | .dflt _ _ body :: r => by
    have := needL_le body; have := needCases_le r
    simp only [needCases, printCases, printCase, List.length_cons, List.length_append]; omega
theorem needPCases_le : (cs : List SPCase) → needPCases cs ≤ 2 * (printPCases cs).length + 1
  | [] => by simp [needPCases, printPCases]
  | .colon _ _ x :: r => by
    have := needS_le x; have := needPCases_le r
    simp only [needPCases, printPCases, printPCase, List.length_cons, List.length_append]; omega
  | .colon0 _ _ :: r => by
    have := needPCases_le r
    simp only [needPCases, printPCases, printPCase, List.length_cons, List.length_append, List.length_nil]; omega
  | .brace _ _ body _ :: r => by
    have := needL_le body; have := needPCases_le r
    simp only [needPCases, printPCases, printPCase, List.length_cons, List.length_append, List.length_nil]; omega
end

end Pory.P1c
