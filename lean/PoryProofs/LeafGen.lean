import PoryProofs.AutoVarParse
import PoryProofs.SwitchParse
/-
Helpers for P1b (b): condition leaves with multi-token operands, multi-token comparison values and
`value( … )` comparison values.

* `collect_rp` : `collectUntil` up to the first `)` (the operand of `flag( … )` / `defeated( … )` / `var( … )`);
* `range_run` : `parseConditionVarOperator.collectUntilRange` (a comparison value written as tokens, up to the
  first `)`, `&&` or `||`); `value_run` : `valueLoop` (the inside of `value( … )`, balanced parentheses);
* `CmpVal` (a written comparison value), `varOp_gen` : `parseConditionVarOperator` on `op value`;
  `flagOp_gen` : `parseConditionFlagLikeOperator` on `==|!= TRUE|FALSE`;
* `KLeaf` (a written `flag` / `defeated` / `var` leaf), `kleaf_run` : `parseLeafBooleanExpression` on it;
* `leaf_of_cmd_val` : an auto-var leaf `cmd op value` with a general comparison value, relative to any
  successful run of `parseCommandStatement` (as `C11b.leaf_of_cmd`).
-/
namespace Pory.LeafGen
open Pory Pory.Parser Pory.C02P Pory.SwitchParse
open Pory.C11b (leaf_auto epv_auto autoFinish_ok leafFinish autoE operandName PosOK)

def σlit (s : PState) (v : Tok) : String := substC s.constants v.lit

theorem σlit_eq (s : PState) : σlit s = fun t => substC s.constants t.lit := rfl

theorem bfl {a b : TT} (h : a ≠ b) : (a == b) = false := beq_eq_false_iff_ne.mpr h
theorem btr {a b : TT} (h : a = b) : (a == b) = true := beq_iff_eq.mpr h

/-! ### the three token loops -/

/-- `collectUntil` up to the first `)` on a known token list. -/
theorem collect_rp (onEOF : PFail) (s : PState) (rp : Tok) (rest : List Tok) (hrp : rp.type = .RPAREN) :
    ∀ (vs : List Tok) (n : Nat) (parts : List String),
      (∀ v ∈ vs, v.type ≠ .RPAREN) → (∀ v ∈ vs.tail, v.type ≠ .EOF) → vs.length < n →
      (collectUntil (fun t => t.type == .RPAREN) onEOF n parts).run (st s (vs ++ rp :: rest)) =
        .ok (parts ++ vs.map (σlit s), st s (rp :: rest)) := by
  intro vs
  induction vs with
  | nil =>
    intro n parts _ _ hn
    obtain ⟨n, rfl⟩ : ∃ k, n = k + 1 := ⟨n - 1, by simp at hn; omega⟩
    rw [collectUntil]
    rsimp [btr hrp, List.map_nil, List.append_nil]
  | cons v vs ih =>
    intro n parts h1 h2 hn
    obtain ⟨n, rfl⟩ : ∃ k, n = k + 1 := ⟨n - 1, by simp at hn; omega⟩
    rw [collectUntil]
    have hv : (v.type == TT.RPAREN) = false := bfl (h1 v (by simp))
    have hnext : (((vs ++ rp :: rest).headD s.eof).type == TT.EOF) = false := by
      cases vs with
      | nil => simp [hrp]
      | cons w ws => simpa using h2 w (by simp)
    have := ih n (parts ++ [substC s.constants v.lit]) (fun x hx => h1 x (by simp [hx]))
      (fun x hx => h2 x (by simp only [List.tail_cons]; exact List.mem_of_mem_tail hx))
      (by simp at hn; omega)
    rsimp [hv, hnext, this, List.map_cons, List.append_assoc, σlit]

/-- A token that ends a comparison value written as tokens. -/
def stopTok (t : Tok) : Bool := t.type == .RPAREN || t.type == .AND || t.type == .OR

theorem range_run (startTok : Tok) (s : PState) (x : Tok) (rest : List Tok) (hx : stopTok x = true) :
    ∀ (vs : List Tok) (n : Nat) (parts : List String),
      (∀ v ∈ vs, stopTok v = false) → (∀ v ∈ vs.tail, v.type ≠ .EOF) → vs.length < n →
      (parseConditionVarOperator.collectUntilRange startTok n parts).run (st s (vs ++ x :: rest)) =
        .ok (parts ++ vs.map (σlit s), st s (x :: rest)) := by
  have hxe : x.type ≠ .EOF := by
    simp only [stopTok, Bool.or_eq_true, beq_iff_eq] at hx
    rcases hx with (h | h) | h <;> rw [h] <;> decide
  intro vs
  induction vs with
  | nil =>
    intro n parts _ _ hn
    obtain ⟨n, rfl⟩ : ∃ k, n = k + 1 := ⟨n - 1, by simp at hn; omega⟩
    rw [parseConditionVarOperator.collectUntilRange]
    have : (x.type == TT.RPAREN || x.type == TT.AND || x.type == TT.OR) = true := hx
    rsimp [this, List.map_nil, List.append_nil]
  | cons v vs ih =>
    intro n parts h1 h2 hn
    obtain ⟨n, rfl⟩ : ∃ k, n = k + 1 := ⟨n - 1, by simp at hn; omega⟩
    rw [parseConditionVarOperator.collectUntilRange]
    have hv : (v.type == TT.RPAREN || v.type == TT.AND || v.type == TT.OR) = false := h1 v (by simp)
    have hnext : (((vs ++ x :: rest).headD s.eof).type == TT.EOF) = false := by
      cases vs with
      | nil => simp [hxe]
      | cons w ws => simpa using h2 w (by simp)
    have := ih n (parts ++ [substC s.constants v.lit]) (fun y hy => h1 y (by simp [hy]))
      (fun y hy => h2 y (by simp only [List.tail_cons]; exact List.mem_of_mem_tail hy))
      (by simp at hn; omega)
    rsimp [hv, hnext, this, List.map_cons, List.append_assoc, σlit]

/-- What `value( … )` returns for the collected parts: wrapped in parentheses when they contain a space. -/
def wrapV (ps : List String) : List String :=
  if (joinSp ps).toList.contains ' ' then ["("] ++ ps ++ [")"] else ps

open Pory.C10b (depthAfter) in
theorem value_run (vt : Tok) (s : PState) (rp : Tok) (rest : List Tok) (hrp : rp.type = .RPAREN) :
    ∀ (inner : List Tok) (n d : Nat) (parts : List String),
      depthAfter d inner = some 0 → (∀ v ∈ inner.tail, v.type ≠ .EOF) → inner.length < n →
      (valueLoop vt n d parts).run (st s (inner ++ rp :: rest)) =
        .ok (wrapV (parts ++ inner.map (σlit s)), st s rest) := by
  intro inner
  induction inner with
  | nil =>
    intro n d parts hd _ hn
    obtain ⟨n, rfl⟩ : ∃ k, n = k + 1 := ⟨n - 1, by simp at hn; omega⟩
    simp only [depthAfter, Option.some.injEq] at hd
    subst hd
    rw [valueLoop]
    by_cases hc : (joinSp parts).toList.contains ' ' = true
    · rsimp [btr hrp, List.map_nil, List.append_nil, wrapV, hc, beq_self_eq_true, Bool.and_self]
    · rsimp [btr hrp, List.map_nil, List.append_nil, wrapV, hc, beq_self_eq_true, Bool.and_self]
  | cons v vs ih =>
    intro n d parts hd h2 hn
    obtain ⟨n, rfl⟩ : ∃ k, n = k + 1 := ⟨n - 1, by simp at hn; omega⟩
    have hnext : (((vs ++ rp :: rest).headD s.eof).type == TT.EOF) = false := by
      cases vs with
      | nil => simp [hrp]
      | cons w ws => simpa using h2 w (by simp)
    have h2' : ∀ y ∈ vs.tail, y.type ≠ .EOF :=
      fun y hy => h2 y (by simp only [List.tail_cons]; exact List.mem_of_mem_tail hy)
    rw [valueLoop]
    by_cases hl : v.type = .LPAREN
    · simp only [depthAfter, hl, if_true] at hd
      have := ih n (d + 1) (parts ++ [substC s.constants v.lit]) hd h2' (by simp at hn; omega)
      have h1 : (TT.LPAREN == TT.RPAREN) = false := by decide
      rsimp [hl, h1, Bool.false_and, beq_self_eq_true, hnext, this, List.map_cons, List.append_assoc, σlit]
    · by_cases hr : v.type = .RPAREN
      · simp only [depthAfter, hr, if_true] at hd
        cases d with
        | zero => simp at hd
        | succ k =>
          have hl' : (TT.RPAREN == TT.LPAREN) = false := by decide
          simp only [reduceCtorEq, if_false] at hd
          have := ih n k (parts ++ [substC s.constants v.lit]) hd h2' (by simp at hn; omega)
          have hk : (k + 1 == 0) = false := by simp
          rsimp [hr, hl', hk, Bool.and_false, beq_self_eq_true, hnext, this, List.map_cons, List.append_assoc,
            σlit, Nat.add_sub_cancel]
      · simp only [depthAfter, hl, hr, if_false] at hd
        have := ih n d (parts ++ [substC s.constants v.lit]) hd h2' (by simp at hn; omega)
        rsimp [bfl hl, bfl hr, Bool.false_and, hnext, this, List.map_cons,
          List.append_assoc, σlit]

/-! ### comparison values -/

/-- A written comparison value of a `var` / auto-var leaf. -/
inductive CmpVal where
  /-- one or more tokens, up to the next `)`, `&&` or `||` -/
  | toks (v : Tok) (vs : List Tok)
  /-- `value ( inner… )` -/
  | value (vt lp : Tok) (inner : List Tok) (rp : Tok)

namespace CmpVal

def print : CmpVal → List Tok
  | .toks v vs => v :: vs
  | .value vt lp inner rp => vt :: lp :: (inner ++ [rp])

def ok : CmpVal → Bool
  | .toks v vs =>
      v.type != .VALUE && (v :: vs).all (fun t => !stopTok t) && vs.all (fun t => t.type != .EOF)
  | .value vt lp inner rp =>
      vt.type == .VALUE && lp.type == .LPAREN && rp.type == .RPAREN && inner.all (fun t => t.type != .EOF) &&
        C10b.depthAfter 0 inner == some 0

def need : CmpVal → Nat
  | .toks _ vs => vs.length + 2
  | .value _ _ inner _ => inner.length + 1

/-- The comparison value stored in the leaf. -/
def str (σ : String → String) : CmpVal → String
  | .toks v vs => joinSp ((v :: vs).map fun t => σ t.lit)
  | .value _ _ inner _ => joinSp (wrapV (inner.map fun t => σ t.lit))

def strict : CmpVal → Bool
  | .toks .. => false
  | .value .. => true

end CmpVal

/-- The six comparison operators. -/
def isCmpTT (t : TT) : Bool := t == .GT || t == .GTE || t == .LT || t == .LTE || t == .EQ || t == .NEQ

/-- The leaf after `op value`. -/
def applyVal (σ : String → String) (e : OpExpr) (op : TT) (v : CmpVal) : OpExpr :=
  match v with
  | .toks .. => { e with operator := op, cmpValue := v.str σ }
  | .value .. => { e with operator := op, strict := true, cmpValue := v.str σ }

theorem follow_stop {rest : List Tok} (h : Follow rest) : ∃ x tl, rest = x :: tl ∧ stopTok x = true := by
  obtain ⟨x, tl, rfl, hx⟩ := h
  refine ⟨x, tl, rfl, ?_⟩
  rcases hx with h | h | h <;> simp [stopTok, h]

/-- `parseConditionVarOperator` on `op value`. -/
theorem varOp_gen (e : OpExpr) (f : Nat) (s : PState) (opTok : Tok) (v : CmpVal) (rest : List Tok)
    (hop : isCmpTT opTok.type = true) (hv : v.ok = true) (hfo : Follow rest) (hf : v.need ≤ f) :
    (parseConditionVarOperator e f).run (st s (opTok :: (v.print ++ rest))) =
      .ok (applyVal (substC s.constants) e opTok.type v, st s rest) := by
  have hcond : (opTok.type != TT.GT && opTok.type != TT.GTE && opTok.type != TT.LT && opTok.type != TT.LTE &&
      opTok.type != TT.EQ && opTok.type != TT.NEQ) = false := by
    simp only [isCmpTT, Bool.or_eq_true, beq_iff_eq] at hop
    rcases hop with ((((h | h) | h) | h) | h) | h <;> rw [h] <;> decide
  unfold parseConditionVarOperator
  cases v with
  | toks v vs =>
    simp only [CmpVal.ok, Bool.and_eq_true, bne_iff_ne, List.all_eq_true, Bool.not_eq_true'] at hv
    obtain ⟨⟨h1, h2⟩, h3⟩ := hv
    simp only [CmpVal.need] at hf
    obtain ⟨x, tl, rfl, hx⟩ := follow_stop hfo
    have hvs : stopTok v = false := h2 v (by simp)
    have hv1 : (v.type == TT.RPAREN) = false := by
      simp only [stopTok, Bool.or_eq_false_iff] at hvs; exact hvs.1.1
    have hrun := range_run v s x tl hx (v :: vs) f [] h2 (fun y hy => h3 y (by simpa using hy))
      (by simp; omega)
    simp only [List.cons_append, List.nil_append] at hrun
    rsimp [hcond, CmpVal.print, hv1, bfl h1, hrun]
    rfl
  | value vt lp inner rp =>
    simp only [CmpVal.ok, Bool.and_eq_true, beq_iff_eq, bne_iff_ne, List.all_eq_true] at hv
    obtain ⟨⟨⟨⟨h1, h2⟩, h3⟩, h4⟩, h5⟩ := hv
    simp only [CmpVal.need] at hf
    have hv1 : (vt.type == TT.RPAREN) = false := by rw [h1]; decide
    have hrun := value_run vt s rp rest h3 inner f 0 [] h5
      (fun y hy => h4 y (List.mem_of_mem_tail hy)) (by omega)
    simp only [List.nil_append] at hrun
    have hpe : (expectPeekErr TT.LPAREN).run (st s (vt :: lp :: (inner ++ rp :: rest))) =
        .ok ((), st s (lp :: (inner ++ rp :: rest))) := by
      unfold expectPeekErr
      rsimp [btr h2]
    rsimp [hcond, CmpVal.print, hv1, btr h1, List.append_assoc, hpe, hrun]
    rfl

/-- `parseConditionFlagLikeOperator` on `==|!= TRUE|FALSE`. -/
theorem flagOp_gen (e : OpExpr) (name : String) (s : PState) (opTok valTok : Tok) (rest : List Tok)
    (hop : opTok.type = .EQ ∨ opTok.type = .NEQ) (hval : valTok.type = .TRUE ∨ valTok.type = .FALSE) :
    (parseConditionFlagLikeOperator e name).run (st s (opTok :: valTok :: rest)) =
      .ok ({ e with operator := opTok.type, cmpValue := valTok.type.str }, st s rest) := by
  unfold parseConditionFlagLikeOperator
  rcases hop with h1 | h1 <;> rcases hval with h2 | h2 <;> simp [h1, h2]

/-! ### `flag( … )` / `defeated( … )` / `var( … )` leaves -/

/-- What follows the operand of a non-autovar leaf. -/
inductive KPost where
  | none
  /-- `==|!= TRUE|FALSE` (flag / defeated) -/
  | flag (opTok valTok : Tok)
  /-- `op value` (var) -/
  | var (opTok : Tok) (v : CmpVal)

/-- `[!] kw ( o ops… ) [post]` with `kw` ∈ `flag`, `defeated`, `var`. -/
structure KLeaf where
  nt : Option Tok
  kw : Tok
  lp : Tok
  o : Tok
  ops : List Tok
  rp : Tok
  post : KPost

namespace KLeaf

def postToks : KPost → List Tok
  | .none => []
  | .flag a b => [a, b]
  | .var a v => a :: v.print

def print (l : KLeaf) : List Tok :=
  l.nt.toList ++ l.kw :: l.lp :: l.o :: (l.ops ++ l.rp :: postToks l.post)

def postOk (kwT : TT) (neg : Bool) : KPost → Bool
  | .none => true
  | .flag a b =>
      !neg && (kwT == .FLAG || kwT == .DEFEATED) && (a.type == .EQ || a.type == .NEQ) &&
        (b.type == .TRUE || b.type == .FALSE)
  | .var a v => !neg && kwT == .VAR && isCmpTT a.type && v.ok

def ok (l : KLeaf) : Bool :=
  (match l.nt with | some t => t.type == .NOT | none => true) &&
  (l.kw.type == .FLAG || l.kw.type == .DEFEATED || l.kw.type == .VAR) && l.lp.type == .LPAREN &&
  l.rp.type == .RPAREN && (l.o :: l.ops).all (fun t => t.type != .RPAREN && t.type != .EOF) &&
  postOk l.kw.type l.nt.isSome l.post

def need (l : KLeaf) : Nat :=
  l.ops.length + 2 + match l.post with | .var _ v => v.need | _ => 0

/-- The operand token: the first written operand token carrying the space-joined substituted literals. -/
def operand (σ : String → String) (l : KLeaf) : Tok :=
  { l.o with lit := joinSp ((l.o :: l.ops).map fun t => σ t.lit) }

/-- The `OpExpr` of the leaf. -/
def tree (σ : String → String) (l : KLeaf) : OpExpr :=
  match l.nt, l.post with
  | some _, _ =>
      { type := l.kw.type, operand := l.operand σ, operator := .EQ,
        cmpValue := if l.kw.type == .VAR then "0" else TT.FALSE.str }
  | none, .none =>
      if l.kw.type == .VAR then { type := .VAR, operand := l.operand σ, operator := .NEQ, cmpValue := "0" }
      else { type := l.kw.type, operand := l.operand σ, operator := .EQ, cmpValue := TT.TRUE.str }
  | none, .flag a b =>
      { type := l.kw.type, operand := l.operand σ, operator := a.type, cmpValue := b.type.str }
  | none, .var a v => applyVal σ { type := l.kw.type, operand := l.operand σ } a.type v

end KLeaf

theorem run_ptia_kw (env : Env) (s : PState) (h : (s.toks.getD 1 s.eof).type ≠ .IDENT) :
    (peekTokenIsAutoVar env).run s = .ok (false, s) := by
  rw [C11b.run_ptia]
  simp only [bfl h, Bool.false_and]

set_option maxRecDepth 4000 in
/-- `parseLeafBooleanExpression` on a printed `flag` / `defeated` / `var` leaf. -/
theorem kleaf_run (env : Env) (sn : String) (f : Nat) (s : PState) (pre : Tok) (l : KLeaf) (rest : List Tok)
    (hl : l.ok = true) (hfo : Follow rest) (hf : l.need ≤ f) :
    (parseLeafBooleanExpression env sn f).run (st s (pre :: (l.print ++ rest))) =
      .ok ((l.tree (substC s.constants), {}), st s rest) := by
  obtain ⟨nt, kw, lp, o, ops, rp, post⟩ := l
  simp only [KLeaf.ok, Bool.and_eq_true, beq_iff_eq, Bool.or_eq_true, List.all_eq_true, bne_iff_ne] at hl
  obtain ⟨⟨⟨⟨⟨hnt, hkw⟩, hlp⟩, hrp⟩, hops⟩, hpost⟩ := hl
  simp only [KLeaf.need] at hf
  have hkI : kw.type ≠ .IDENT := by rcases hkw with (h | h) | h <;> rw [h] <;> decide
  have hkN : (kw.type == TT.NOT) = false := by rcases hkw with (h | h) | h <;> rw [h] <;> decide
  have hchk : (kw.type != TT.VAR && !false && kw.type != TT.FLAG && kw.type != TT.DEFEATED) = false := by
    rcases hkw with (h | h) | h <;> rw [h] <;> decide
  have ho : (o.type == TT.RPAREN) = false := bfl (hops o (by simp)).1
  have hcol : ∀ tl, (collectUntil (fun t => t.type == .RPAREN)
        (newParseError kw "missing closing ')' for condition operator value") f []).run
        (st s ((o :: ops) ++ rp :: tl)) =
      .ok ([] ++ (o :: ops).map (σlit s), st s (rp :: tl)) := fun tl =>
    collect_rp _ s rp tl hrp (o :: ops) f [] (fun v hv => (hops v hv).1)
      (fun v hv => (hops v (List.mem_of_mem_tail hv)).2) (by simp; omega)
  simp only [List.cons_append, List.nil_append] at hcol
  have hpt : ∀ (x : Tok) (tl : List Tok), (peekTokenIsAutoVar env).run (st s (x :: kw :: tl)) =
      .ok (false, st s (x :: kw :: tl)) := fun x tl => run_ptia_kw env _ (by simpa using hkI)
  have ho' : o.type ≠ .RPAREN := (hops o (by simp)).1
  cases nt with
  | some t =>
    have ht : t.type = .NOT := by simpa using hnt
    -- after `!` nothing follows the operand
    have hp : post = .none := by
      cases post <;> simp [KLeaf.postOk] at hpost ⊢
    subst hp
    rcases hkw with (h | h) | h <;>
      simp [parseLeafBooleanExpression, KLeaf.print, KLeaf.postToks, hpt, ht, h, hlp, ho', hcol, KLeaf.tree,
        KLeaf.operand, σlit_eq]
  | none =>
    cases post with
    | none =>
      rcases hkw with (h | h) | h
      · simp [parseLeafBooleanExpression, KLeaf.print, KLeaf.postToks, hpt, h, hlp, ho', hcol, KLeaf.tree,
          KLeaf.operand, σlit_eq, flagOp_bare _ _ _ _ hfo]
      · simp [parseLeafBooleanExpression, KLeaf.print, KLeaf.postToks, hpt, h, hlp, ho', hcol, KLeaf.tree,
          KLeaf.operand, σlit_eq, flagOp_bare _ _ _ _ hfo]
      · simp [parseLeafBooleanExpression, KLeaf.print, KLeaf.postToks, hpt, h, hlp, ho', hcol, KLeaf.tree,
          KLeaf.operand, σlit_eq, varOp_bare _ _ _ _ hfo]
    | flag a b =>
      simp only [KLeaf.postOk, Bool.and_eq_true, Bool.or_eq_true, beq_iff_eq, Option.isSome_none,
        Bool.not_false, true_and] at hpost
      obtain ⟨⟨hk2, ha⟩, hb⟩ := hpost
      rcases hk2 with h | h
      · simp [parseLeafBooleanExpression, KLeaf.print, KLeaf.postToks, hpt, h, hlp, ho', hcol, KLeaf.tree,
          KLeaf.operand, σlit_eq, flagOp_gen _ _ _ a b rest ha hb]
      · simp [parseLeafBooleanExpression, KLeaf.print, KLeaf.postToks, hpt, h, hlp, ho', hcol, KLeaf.tree,
          KLeaf.operand, σlit_eq, flagOp_gen _ _ _ a b rest ha hb]
    | var a v =>
      simp only [KLeaf.postOk, Bool.and_eq_true, beq_iff_eq, Option.isSome_none, Bool.not_false,
        true_and] at hpost
      obtain ⟨⟨hk2, ha⟩, hv⟩ := hpost
      have hf' : v.need ≤ f := by
        have h0 := hf
        simp only at h0
        omega
      simp [parseLeafBooleanExpression, KLeaf.print, KLeaf.postToks, hpt, hk2, hlp, ho', hcol, KLeaf.tree,
        KLeaf.operand, σlit_eq, varOp_gen _ f s a v rest ha hv hfo hf']

/-! ### auto-var leaves with a general comparison value -/

/-- `cmd op value`: as `C11b.leaf_of_cmd`, for a comparison value of any written form. -/
theorem leaf_of_cmd_val (env : Env) (sn : String) (fuel : Nat) (s s' : PState) (pre name last : Tok)
    (tl rest : List Tok) (av : AutoVar) (opTok : Tok) (v : CmpVal) (cmd : Cmd) (imp : ImpData)
    (hname : name.type = .IDENT) (hav : env.autoVars.lookup name.lit = some av)
    (hcmd : (parseCommandStatement env sn fuel).run (st s (name :: tl)) =
      .ok ((cmd, imp), st s' (last :: (opTok :: (v.print ++ rest)))))
    (hpos : PosOK av cmd.args.length) (hop : isCmpTT opTok.type = true) (hv : v.ok = true)
    (hrest : Follow rest) (hfuel : v.need ≤ fuel) :
    (parseLeafBooleanExpression env sn fuel).run (st s (pre :: name :: tl)) =
      .ok ((applyVal (substC s'.constants) (autoE {} (operandName av cmd.args) cmd) opTok.type v, imp),
        st s' rest) := by
  have hnv : name.type ≠ .VAR := by simp [hname]
  rw [leaf_auto env sn _ s pre name tl av hname hav, epv_auto env sn _ s pre name tl av hnv hav, hcmd]
  simp only [autoFinish_ok av name cmd imp _ hpos, leafFinish, st_toks, List.tail_cons, st_st,
    varOp_gen _ fuel s' opTok v rest hop hv hrest hfuel]

end Pory.LeafGen
