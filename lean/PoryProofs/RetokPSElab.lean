import PoryProofs.RetokPS
/-
L2 helpers, stage 9: the reference elaboration of the completed grammar `P2d.STopP` commutes with position
erasure: `elabFileP_eTopP`, `elabFileP_shape`.
-/
namespace Pory.L2
open Pory Pory.Parser Pory.C02P Pory.StmtG Pory.TopParse Pory.P2 Pory.P2b Pory.P2d Pory.C07b
open Pory.C14b (Item ItemP Cases Items swVal printItems mulCheck)
open Pory.TextValueParse (TVal)

/-! ### `format( … )` -/

def eW (w : Written) : Written :=
  { font? := w.font?.map erase, maxLen? := w.maxLen?.map erase, numLines? := w.numLines?.map erase,
    overlap? := w.overlap?.map erase }

theorem set_eW (w : Written) (n : NamedP) : NamedP.set (eW w) (eNamed n) = eW (NamedP.set w n) := by
  obtain ⟨nm, nameTok, eq, val, sep⟩ := n
  cases nm <;> rfl

theorem posWritten_e (p : Pos) : (ePos p).written = eW p.written := by cases p <;> rfl

theorem foldl_set_eW : ∀ (ns : List NamedP) (w : Written),
    (ns.map eNamed).foldl NamedP.set (eW w) = eW (ns.foldl NamedP.set w)
  | [], _ => rfl
  | n :: r, w => by simp only [List.map_cons, List.foldl_cons, set_eW, foldl_set_eW r]

theorem paramsWritten_e (P : Params) : (eParams P).written = eW P.written := by
  unfold Params.written
  simp only [eParams, posWritten_e, foldl_set_eW]

theorem fontOf_eW (env : Env) (w : Written) : fontOf env (eW w) = fontOf env w := by
  unfold fontOf
  simp only [eW]
  cases w.font? <;> rfl

theorem resolve_eW (env : Env) (w : Written) : resolve env (eW w) = resolve env w := by
  unfold resolve
  simp only [fontOf_eW]
  obtain ⟨f, a, b, c⟩ := w
  cases a <;> cases b <;> cases c <;> rfl

theorem styLit_e (sty : Option Tok) : styLit (sty.map erase) = styLit sty := by cases sty <;> rfl

theorem strType_e (v : TVal) : (eTVal v).strType = v.strType := by
  cases v with
  | plain s => rfl
  | typed ty s => rfl
  | format fm lp sty text P rp => exact styLit_e sty

theorem raw_e (env : Env) (v : TVal) : (eTVal v).raw env = peEx (fun r => r) (v.raw env) := by
  cases v with
  | plain s => rfl
  | typed ty s => rfl
  | format fm lp sty text P rp =>
    simp only [eTVal, TVal.raw, paramsWritten_e, resolve_eW, erase_lit']
    cases Fmt.formatText env.fonts text.lit.toList (resolve env P.written).maxLineLength
        (resolve env P.written).cursorOverlapWidth (resolve env P.written).fontID
        (resolve env P.written).numLines with
    | ok out => rfl
    | error msg =>
      simp only
      cases env.envErrors with
      | false => rfl
      | true =>
        simp only [if_true, peEx_error]
        have : (eW P.written).font?.getD (erase text) = erase (P.written.font?.getD text) := by
          simp only [eW]
          cases P.written.font? <;> rfl
        rw [this]
        rfl

theorem elVal_e (env : Env) (v : TVal) : elVal env (eTVal v) = peEx (fun r => r) (elVal env v) := by
  unfold elVal
  rw [raw_e, strType_e]
  cases v.raw env <;> rfl

theorem tcase_key_e (c : TCaseV) : (eTCaseV c).key = c.key := by cases c <;> rfl
theorem tcase_val_e (c : TCaseV) : (eTCaseV c).val = eTVal c.val := by cases c <;> rfl

theorem elTCases_e (env : Env) : ∀ (cs : List TCaseV) (acc : List (String × String × String)),
    elTCases env (cs.map eTCaseV) acc = peEx (fun r => r) (elTCases env cs acc)
  | [], _ => rfl
  | c :: r, acc => by
    simp only [List.map_cons, elTCases, tcase_key_e, tcase_val_e, elVal_e]
    cases elVal env c.val with
    | error e => rfl
    | ok v => simp only [peEx_ok, elTCases_e env r]

/-! ### poryswitch header and selection -/

theorem headerErr_e (env : Env) (psw x : Tok) :
    headerErr env (erase psw) (erase x) = (headerErr env psw x).map pePFail := by
  unfold headerErr
  rw [show (erase x).lit = x.lit from rfl]
  split
  · rfl
  · split <;> rfl

theorem lookup_map_snd' {α : Type} (f : α → α) (k : String) :
    ∀ l : List (String × α), (l.map fun p => (p.1, f p.2)).lookup k = (l.lookup k).map f
  | [] => rfl
  | (a, b) :: r => by
    simp only [List.map_cons, List.lookup_cons]
    cases k == a
    · exact lookup_map_snd' f k r
    · rfl

theorem pick_e {α : Type} (f : α → α) (env : Env) (psw x : Tok) (cs : List (String × α)) (d : α) :
    pick env (erase psw) (erase x) (cs.map fun p => (p.1, f p.2)) (f d) = peEx f (pick env psw x cs d) := by
  unfold pick
  rw [show (erase x).lit = x.lit from rfl, lookup_map_snd', lookup_map_snd']
  cases cs.lookup (swVal env x.lit) with
  | some v => rfl
  | none =>
    simp only [Option.map_none]
    cases cs.lookup "_" with
    | some v => rfl
    | none => cases env.envErrors <;> rfl

theorem elBody_e (env : Env) (b : TBody) : elBody env (eTBody b) = peEx (fun r => r) (elBody env b) := by
  cases b with
  | val v => exact elVal_e env v
  | sw psw lp x rp lb cases rb =>
    simp only [eTBody, elBody, headerErr_e, elTCases_e]
    cases headerErr env psw x with
    | some e => rfl
    | none =>
      simp only [Option.map_none]
      cases elTCases env cases [] with
      | error e => rfl
      | ok cs =>
        simp only [peEx_ok]
        have h := pick_e (fun r : String × String => r) env psw x cs ("", "")
        have hid : (cs.map fun p : String × String × String => (p.1, (fun r : String × String => r) p.2)) = cs := by
          simp
        rw [hid] at h
        exact h

/-! ### lists -/

theorem plainEl_e (i : Item) : plainEl (eItem i) = peEx (List.map erase) (plainEl i) := by
  cases i with
  | step n => rfl
  | stepMul n s x =>
    simp only [eItem, plainEl, erase_lit']
    cases mulCheck x.lit with
    | ok k => simp only [peEx_ok, List.map_replicate]
    | error e => rfl
  | comma t => rfl

/-- erasure of a case table of a list poryswitch -/
def peTabL (T : List (String × List Tok)) : List (String × List Tok) := T.map fun p => (p.1, p.2.map erase)

mutual
theorem elItem_e (env : Env) : ∀ i : ItemP, elItem env (eItemP i) = peEx (List.map erase) (elItem env i)
  | .plain i => by simp only [eItemP, elItem, plainEl_e]
  | .sw psw lp x rp lb cases rb => by
    simp only [eItemP, elItem, headerErr_e]
    cases headerErr env psw x with
    | some e => rfl
    | none =>
      simp only [Option.map_none]
      have h := elCases_e env cases []
      simp only [peTabL, List.map_nil] at h
      rw [h]
      cases elCases env cases [] with
      | error e => rfl
      | ok cs =>
        simp only [peEx_ok]
        have h2 := pick_e (List.map erase) env psw x cs []
        simp only [List.map_nil] at h2
        exact h2
theorem elCases_e (env : Env) : ∀ (cs : Cases) (acc : List (String × List Tok)),
    elCases env (eCasesP cs) (peTabL acc) = peEx peTabL (elCases env cs acc)
  | .nil, acc => rfl
  | .colon v c e rest, acc => by
    simp only [eCasesP, elCases, elItem_e env e]
    cases elItem env e with
    | error err => rfl
    | ok l =>
      simp only [peEx_ok]
      exact elCases_e env rest ((v.lit, l) :: acc)
  | .brace v lb items rb rest, acc => by
    simp only [eCasesP, elCases, elItems_e env items]
    cases elItems env items with
    | error err => rfl
    | ok l =>
      simp only [peEx_ok]
      exact elCases_e env rest ((v.lit, l) :: acc)
theorem elItems_e (env : Env) : ∀ is : Items, elItems env (eItems is) = peEx (List.map erase) (elItems env is)
  | .nil => rfl
  | .cons i r => by
    simp only [eItems, elItems, elItem_e env i]
    cases elItem env i with
    | error err => rfl
    | ok a =>
      simp only [peEx_ok, elItems_e env r]
      cases elItems env r with
      | error err => rfl
      | ok b => simp only [peEx_ok, List.map_append]
end

/-! ### files -/

theorem stepTopP_e (env : Env) (t : STopP) (s : PState) :
    stepTopP env (eTopP t) (peState s) = peStep (stepTopP env t s) := by
  cases t with
  | base t => exact stepTopM_e env t s
  | movementP kw md name lb items rb =>
    simp only [eTopP, stepTopP, elItems_e, modScope_e]
    cases elItems env items <;> rfl
  | martP kw md name lb items rb =>
    simp only [eTopP, stepTopP, elItems_e, modScope_e]
    cases elItems env items with
    | error e => rfl
    | ok out =>
      simp only [peEx_ok, Option.map_some, peTop, List.map_map]
      rfl
  | textP kw md name lb b rb =>
    simp only [eTopP, stepTopP, elBody_e, modScope_e]
    cases elBody env b with
    | error e => rfl
    | ok v =>
      simp only [peEx_ok, Option.map_some, peTop]
      simp only [peState, List.map_append, List.map_cons, List.map_nil]
      rfl

theorem elabTopsP_e (env : Env) : ∀ (ts : List STopP) (s : PState),
    elabTopsP env (ts.map eTopP) (peState s) =
      peEx (fun r => (r.1.map peTop, peState r.2)) (elabTopsP env ts s)
  | [], s => rfl
  | t :: r, s => by
    simp only [List.map_cons, elabTopsP, stepTopP_e]
    cases stepTopP env t s with
    | error e => rfl
    | ok q =>
      simp only [peEx_ok, elabTopsP_e env r]
      cases elabTopsP env r q.2 with
      | error e => rfl
      | ok q1 => simp only [peEx_ok, optTop_map, List.map_append]

theorem elabFileP_eTopP (env : Env) (ts : List STopP) (s : PState) :
    elabFileP env (ts.map eTopP) (peState s) = peEx peProgram (elabFileP env ts s) := by
  unfold elabFileP
  rw [elabTopsP_e]
  cases elabTopsP env ts s with
  | error e => rfl
  | ok q => simp only [peEx_ok, finish_pe]

/-- Files of the same shape elaborate to the same program up to token positions. -/
theorem elabFileP_shape (env : Env) {ts' ts : List STopP} (h : SameShapeP ts' ts) (eof' eof : Tok) :
    peEx peProgram (elabFileP env ts' (initState eof')) = peEx peProgram (elabFileP env ts (initState eof)) := by
  rw [← elabFileP_eTopP, ← elabFileP_eTopP, h]
  rfl

end Pory.L2
