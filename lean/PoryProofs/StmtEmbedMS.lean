import PoryProofs.CmdEmbedMS
import PoryProofs.StmtParseMS
import PoryProofs.StmtParse2
/-
P1c: **nothing of P1b is lost.**  The surface syntax of P1b (`P1b.SStmt`, PoryProofs/StmtGrammar2.lean) embeds
into the syntax of P1c (`P1c.SStmt`, PoryProofs/StmtGrammarMS.lean) constructor by constructor, every command
`c : CmdF` becoming `ofF c : CmdM` (PoryProofs/CmdEmbedMS.lean); printing (`ofL_print`), the token-type side
conditions (`ofL_swf`) and the reference elaboration — statements, implicit data, counters, located errors —
(`ofL_elabE`) commute with the embedding, and P1b's main equation with the fuel bound in tokens is the instance
`ofL b` of `P1c.parse_block_elab` (`p1b_special_case`).
-/
namespace Pory.P1c
set_option linter.unusedSectionVars false
open Pory Pory.Parser Pory.C02P Pory.C10b Pory.BoolGen Pory.CmdGen Pory.LeafGen
open Pory.C10c (add_assoc nil_add add_nil)
open Pory.StmtG (Ctx ctxOf)

/-! ### conditions: mapping the leaves of a `GOr` -/
section
variable {L L' : Type} (f : L → L')

mutual
def mapOr : GOr L → GOr L'
  | .one a => .one (mapAnd a)
  | .more a p r => .more (mapAnd a) p (mapOr r)
def mapAnd : GAnd L → GAnd L'
  | .one u => .one (mapUn u)
  | .more u p r => .more (mapUn u) p (mapAnd r)
def mapUn : GUn L → GUn L'
  | .leaf lf => .leaf (f lf)
  | .paren n pn pl pr e => .paren n pn pl pr (mapOr e)
end

section
variable (print : L → List Tok) (print' : L' → List Tok) (hp : ∀ l, print' (f l) = print l)
include hp
mutual
theorem printOr_map : (g : GOr L) → printOr print' (mapOr f g) = printOr print g
  | .one a => by simp only [mapOr, BoolGen.printOr, printAnd_map a]
  | .more a p r => by simp only [mapOr, BoolGen.printOr, printAnd_map a, printOr_map r]
theorem printAnd_map : (a : GAnd L) → printAnd print' (mapAnd f a) = printAnd print a
  | .one u => by simp only [mapAnd, BoolGen.printAnd, printUn_map u]
  | .more u p r => by simp only [mapAnd, BoolGen.printAnd, printUn_map u, printAnd_map r]
theorem printUn_map : (u : GUn L) → printUn print' (mapUn f u) = printUn print u
  | .leaf lf => by simp only [mapUn, BoolGen.printUn, hp]
  | .paren n pn pl pr e => by simp only [mapUn, BoolGen.printUn, printOr_map e]
end
end

section
variable (wf : L → Bool) (wf' : L' → Bool) (hw : ∀ l, wf' (f l) = wf l)
include hw
mutual
theorem wfOr_map : (g : GOr L) → wfOr wf' (mapOr f g) = wfOr wf g
  | .one a => by simp only [mapOr, wfOr, wfAnd_map a]
  | .more a p r => by simp only [mapOr, wfOr, wfAnd_map a, wfOr_map r]
theorem wfAnd_map : (a : GAnd L) → wfAnd wf' (mapAnd f a) = wfAnd wf a
  | .one u => by simp only [mapAnd, wfAnd, wfUn_map u]
  | .more u p r => by simp only [mapAnd, wfAnd, wfUn_map u, wfAnd_map r]
theorem wfUn_map : (u : GUn L) → wfUn wf' (mapUn f u) = wfUn wf u
  | .leaf lf => by simp only [mapUn, wfUn, hw]
  | .paren n pn pl pr e => by simp only [mapUn, wfUn, wfOr_map e]
end
end

section
variable (res : (String → String) → Nat → L → Except PFail (OpExpr × ImpData × Nat))
  (res' : (String → String) → Nat → L' → Except PFail (OpExpr × ImpData × Nat))
  (σ : String → String) (hr : ∀ id l, res' σ id (f l) = res σ id l)
include hr
mutual
theorem elabOr_map : (g : GOr L) → ∀ (neg : Bool) (id : Nat),
    elabOr res' σ neg (mapOr f g) id = elabOr res σ neg g id
  | .one a, neg, id => by simp only [mapOr, elabOr, elabAnd_map a]
  | .more a p r, neg, id => by simp only [mapOr, elabOr, elabAnd_map a, elabOr_map r]
theorem elabAnd_map : (a : GAnd L) → ∀ (neg : Bool) (id : Nat),
    elabAnd res' σ neg (mapAnd f a) id = elabAnd res σ neg a id
  | .one u, neg, id => by simp only [mapAnd, elabAnd, elabUn_map u]
  | .more u p r, neg, id => by simp only [mapAnd, elabAnd, elabUn_map u, elabAcc_map r]
theorem elabAcc_map : (a : GAnd L) → ∀ (neg : Bool) (left : BoolExpr) (id : Nat),
    elabAcc res' σ neg left (mapAnd f a) id = elabAcc res σ neg left a id
  | .one u, neg, left, id => by simp only [mapAnd, elabAcc, elabUn_map u]
  | .more u p r, neg, left, id => by simp only [mapAnd, elabAcc, elabUn_map u, elabAcc_map r]
theorem elabUn_map : (u : GUn L) → ∀ (neg : Bool) (id : Nat),
    elabUn res' σ neg (mapUn f u) id = elabUn res σ neg u id
  | .leaf lf, neg, id => by simp only [mapUn, elabUn, hr]
  | .paren n pn pl pr e, neg, id => by simp only [mapUn, elabUn, elabOr_map e]
end
end

end

/-! ### leaves and conditions -/

def ofLeaf : P1b.CLeaf → CLeaf
  | .plain l => .plain l
  | .auto fm c => .auto fm (ofF c)
  | .kw l => .kw l
  | .autoV c opTok v => .autoV (ofF c) opTok v

theorem ofLeaf_print (l : P1b.CLeaf) : CLeaf.print (ofLeaf l) = P1b.CLeaf.print l := by
  cases l <;> simp only [ofLeaf, CLeaf.print, P1b.CLeaf.print, ofF_print]

theorem ofLeaf_wf (l : P1b.CLeaf) : CLeaf.wf (ofLeaf l) = P1b.CLeaf.wf l := by
  cases l <;> simp only [ofLeaf, CLeaf.wf, P1b.CLeaf.wf, ofF_ok]

theorem ofLeaf_res (env : Env) (sn : String) (σ : String → String) (id : Nat) (l : P1b.CLeaf) :
    CLeaf.res env sn σ id (ofLeaf l) = P1b.CLeaf.res env sn σ id l := by
  cases l <;> simp only [ofLeaf, CLeaf.res, P1b.CLeaf.res, ofF_elabC, ofF_name, ofF_last, ofF_nargs] <;> rfl

def ofCond (c : P1b.SCond) : SCond := mapOr ofLeaf c

theorem ofCond_print (c : P1b.SCond) : printCond (ofCond c) = P1b.printCond c :=
  printOr_map ofLeaf P1b.CLeaf.print CLeaf.print ofLeaf_print c

theorem ofCond_swf (c : P1b.SCond) : swfCond (ofCond c) = P1b.swfCond c :=
  wfOr_map ofLeaf P1b.CLeaf.wf CLeaf.wf ofLeaf_wf c

theorem ofCond_elab (env : Env) (sn : String) (σ : String → String) (c : P1b.SCond) (cid : Nat) :
    elabCond env sn σ (ofCond c) cid = P1b.elabCond env sn σ c cid :=
  elabOr_map ofLeaf (P1b.CLeaf.res env sn) (CLeaf.res env sn) σ (fun id l => ofLeaf_res env sn σ id l) c false cid

/-! ### statements -/
mutual
def ofS : P1b.SStmt → SStmt
  | .cmd c => .cmd (ofF c)
  | .label name colon => .label name colon
  | .labelS name lp sc rp colon => .labelS name lp sc rp colon
  | .ite ifTok lp c rp lb body rb elifs els =>
      .ite ifTok lp (ofCond c) rp lb (ofL body) rb (ofElifs elifs) (ofElse els)
  | .while_ w lp c rp lb body rb => .while_ w lp (ofCond c) rp lb (ofL body) rb
  | .whileInf w lb body rb => .whileInf w lb (ofL body) rb
  | .doWhile d lb body rb w lp c rp => .doWhile d lb (ofL body) rb w lp (ofCond c) rp
  | .brk t => .brk t
  | .cont t => .cont t
  | .switch_ sw lp v lp2 ops rp2 rp lb cases rb => .switch_ sw lp v lp2 ops rp2 rp lb (ofCases cases) rb
  | .switchA sw lp c rp lb cases rb => .switchA sw lp (ofF c) rp lb (ofCases cases) rb
  | .pory ps lp x rp lb cases rb => .pory ps lp x rp lb (ofPCases cases) rb
def ofL : List P1b.SStmt → List SStmt
  | [] => []
  | x :: r => ofS x :: ofL r
def ofElifs : List P1b.SElif → List SElif
  | [] => []
  | .mk e lp c rp lb body rb :: r => .mk e lp (ofCond c) rp lb (ofL body) rb :: ofElifs r
def ofElse : P1b.SElse → SElse
  | .none => .none
  | .some e lb body rb => .some e lb (ofL body) rb
def ofCases : List P1b.SCase → List SCase
  | [] => []
  | .case c vs colon body :: r => .case c vs colon (ofL body) :: ofCases r
  | .dflt d colon body :: r => .dflt d colon (ofL body) :: ofCases r
def ofPCases : List P1b.SPCase → List SPCase
  | [] => []
  | .colon key c x :: r => .colon key c (ofS x) :: ofPCases r
  | .colon0 key c :: r => .colon0 key c :: ofPCases r
  | .brace key lb body rb :: r => .brace key lb (ofL body) rb :: ofPCases r
end

theorem ofL_isEmpty (r : List P1b.SStmt) : (ofL r).isEmpty = r.isEmpty := by cases r <;> rfl
theorem ofCases_isEmpty (r : List P1b.SCase) : (ofCases r).isEmpty = r.isEmpty := by
  cases r with
  | nil => rfl
  | cons k r => cases k <;> rfl
theorem ofPCases_isEmpty (r : List P1b.SPCase) : (ofPCases r).isEmpty = r.isEmpty := by
  cases r with
  | nil => rfl
  | cons k r => cases k <;> rfl

/-! #### printing -/
mutual
theorem ofS_print : (x : P1b.SStmt) → printS (ofS x) = P1b.printS x
  | .cmd c => by simp only [ofS, printS, P1b.printS, ofF_print]
  | .label .. => rfl
  | .labelS .. => rfl
  | .ite ifTok lp c rp lb body rb elifs els => by
    simp only [ofS, printS, P1b.printS, ofCond_print, ofL_print body, ofElifs_print elifs, ofElse_print els]
  | .while_ w lp c rp lb body rb => by simp only [ofS, printS, P1b.printS, ofCond_print, ofL_print body]
  | .whileInf w lb body rb => by simp only [ofS, printS, P1b.printS, ofL_print body]
  | .doWhile d lb body rb w lp c rp => by simp only [ofS, printS, P1b.printS, ofCond_print, ofL_print body]
  | .brk _ => rfl
  | .cont _ => rfl
  | .switch_ sw lp v lp2 ops rp2 rp lb cases rb => by simp only [ofS, printS, P1b.printS, ofCases_print cases]
  | .switchA sw lp c rp lb cases rb => by simp only [ofS, printS, P1b.printS, ofCases_print cases, ofF_print]
  | .pory ps lp x rp lb cases rb => by simp only [ofS, printS, P1b.printS, ofPCases_print cases]
theorem ofL_print : (b : List P1b.SStmt) → printL (ofL b) = P1b.printL b
  | [] => rfl
  | x :: r => by simp only [ofL, printL, P1b.printL, ofS_print x, ofL_print r]
theorem ofElifs_print : (es : List P1b.SElif) → printElifs (ofElifs es) = P1b.printElifs es
  | [] => rfl
  | .mk e lp c rp lb body rb :: r => by
    simp only [ofElifs, printElifs, printElif, P1b.printElifs, P1b.printElif, ofCond_print, ofL_print body,
      ofElifs_print r]
theorem ofElse_print : (e : P1b.SElse) → printElse (ofElse e) = P1b.printElse e
  | .none => rfl
  | .some e lb body rb => by simp only [ofElse, printElse, P1b.printElse, ofL_print body]
theorem ofCases_print : (cs : List P1b.SCase) → printCases (ofCases cs) = P1b.printCases cs
  | [] => rfl
  | .case c vs colon body :: r => by
    simp only [ofCases, printCases, printCase, P1b.printCases, P1b.printCase, ofL_print body, ofCases_print r]
  | .dflt d colon body :: r => by
    simp only [ofCases, printCases, printCase, P1b.printCases, P1b.printCase, ofL_print body, ofCases_print r]
theorem ofPCases_print : (cs : List P1b.SPCase) → printPCases (ofPCases cs) = P1b.printPCases cs
  | [] => rfl
  | .colon key c x :: r => by
    simp only [ofPCases, printPCases, printPCase, P1b.printPCases, P1b.printPCase, ofS_print x, ofPCases_print r]
  | .colon0 key c :: r => by
    simp only [ofPCases, printPCases, printPCase, P1b.printPCases, P1b.printPCase, ofPCases_print r]
  | .brace key lb body rb :: r => by
    simp only [ofPCases, printPCases, printPCase, P1b.printPCases, P1b.printPCase, ofL_print body,
      ofPCases_print r]
end

/-! #### well-formedness -/
mutual
theorem ofS_swf : (x : P1b.SStmt) → swfS (ofS x) = P1b.swfS x
  | .cmd c => by simp only [ofS, swfS, P1b.swfS, ofF_ok]
  | .label .. => rfl
  | .labelS .. => rfl
  | .ite ifTok lp c rp lb body rb elifs els => by
    simp only [ofS, swfS, P1b.swfS, ofCond_swf, ofL_swf body, ofElifs_swf elifs, ofElse_swf els]
  | .while_ w lp c rp lb body rb => by simp only [ofS, swfS, P1b.swfS, ofCond_swf, ofL_swf body]
  | .whileInf w lb body rb => by simp only [ofS, swfS, P1b.swfS, ofL_swf body]
  | .doWhile d lb body rb w lp c rp => by simp only [ofS, swfS, P1b.swfS, ofCond_swf, ofL_swf body]
  | .brk _ => rfl
  | .cont _ => rfl
  | .switch_ sw lp v lp2 ops rp2 rp lb cases rb => by simp only [ofS, swfS, P1b.swfS, ofCases_swf cases]
  | .switchA sw lp c rp lb cases rb => by simp only [ofS, swfS, P1b.swfS, ofCases_swf cases, ofF_ok]
  | .pory ps lp x rp lb cases rb => by simp only [ofS, swfS, P1b.swfS, ofPCases_swf cases]
theorem ofL_swf : (b : List P1b.SStmt) → swfL (ofL b) = P1b.swfL b
  | [] => rfl
  | x :: r => by simp only [ofL, swfL, P1b.swfL, ofS_swf x, ofL_swf r]
theorem ofElifs_swf : (es : List P1b.SElif) → swfElifs (ofElifs es) = P1b.swfElifs es
  | [] => rfl
  | .mk e lp c rp lb body rb :: r => by
    simp only [ofElifs, swfElifs, swfElif, P1b.swfElifs, P1b.swfElif, ofCond_swf, ofL_swf body, ofElifs_swf r]
theorem ofElse_swf : (e : P1b.SElse) → swfElse (ofElse e) = P1b.swfElse e
  | .none => rfl
  | .some e lb body rb => by simp only [ofElse, swfElse, P1b.swfElse, ofL_swf body]
theorem ofCases_swf : (cs : List P1b.SCase) → swfCases (ofCases cs) = P1b.swfCases cs
  | [] => rfl
  | .case c vs colon body :: r => by
    simp only [ofCases, swfCases, swfCase, P1b.swfCases, P1b.swfCase, ofL_swf body, ofCases_swf r]
  | .dflt d colon body :: r => by
    simp only [ofCases, swfCases, swfCase, P1b.swfCases, P1b.swfCase, ofL_swf body, ofCases_swf r]
theorem ofPCases_swf : (cs : List P1b.SPCase) → swfPCases (ofPCases cs) = P1b.swfPCases cs
  | [] => rfl
  | .colon key c x :: r => by
    simp only [ofPCases, swfPCases, swfPCase, P1b.swfPCases, P1b.swfPCase, ofS_swf x, ofPCases_swf r,
      ofPCases_isEmpty]
  | .colon0 key c :: r => by
    simp only [ofPCases, swfPCases, swfPCase, P1b.swfPCases, P1b.swfPCase, ofPCases_swf r, ofPCases_isEmpty]
  | .brace key lb body rb :: r => by
    simp only [ofPCases, swfPCases, swfPCase, P1b.swfPCases, P1b.swfPCase, ofL_swf body, ofPCases_swf r,
      ofPCases_isEmpty]
end

/-- closes a goal whose two sides differ only in the (definitionally equal) auxiliary matchers of the two
elaborations -/
local macro "fin" : tactic => `(tactic| first | done | rfl)

/-! #### elaboration -/
section
variable (env : Env) (sn : String) (σ : String → String)

mutual
theorem ofS_elab : (x : P1b.SStmt) → ∀ (B C : List Nat) (nx : Bool) (i j : Nat),
    elabS env sn σ B C nx (ofS x) i j = P1b.elabS env sn σ B C nx x i j
  | .cmd c, B, C, nx, i, j => by simp only [ofS, elabS, P1b.elabS, ofF_elabC]; fin
  | .label .., B, C, nx, i, j => rfl
  | .labelS .., B, C, nx, i, j => rfl
  | .ite ifTok lp c rp lb body rb elifs els, B, C, nx, i, j => by
    simp only [ofS, elabS, P1b.elabS, ofCond_elab, ofL_elab body, ofElifs_elab elifs, ofElse_elab els]; fin
  | .while_ w lp c rp lb body rb, B, C, nx, i, j => by
    simp only [ofS, elabS, P1b.elabS, ofCond_elab, ofL_elab body]; fin
  | .whileInf w lb body rb, B, C, nx, i, j => by simp only [ofS, elabS, P1b.elabS, ofL_elab body]; fin
  | .doWhile d lb body rb w lp c rp, B, C, nx, i, j => by
    simp only [ofS, elabS, P1b.elabS, ofL_elab body, ofCond_elab]; fin
  | .brk _, B, C, nx, i, j => by cases B <;> rfl
  | .cont _, B, C, nx, i, j => by cases C <;> rfl
  | .switch_ sw lp v lp2 ops rp2 rp lb cases rb, B, C, nx, i, j => by
    simp only [ofS, elabS, P1b.elabS, ofCases_elab cases]; fin
  | .switchA sw lp c rp lb cases rb, B, C, nx, i, j => by
    simp only [ofS, elabS, P1b.elabS, ofCases_elab cases, ofF_elabC, ofF_name, ofF_last, ofF_nargs]; fin
  | .pory ps lp x rp lb cases rb, B, C, nx, i, j => by
    simp only [ofS, elabS, P1b.elabS, ofPCases_elab cases]; fin
theorem ofL_elab : (b : List P1b.SStmt) → ∀ (B C : List Nat) (last : Bool) (i j : Nat),
    elabL env sn σ B C last (ofL b) i j = P1b.elabL env sn σ B C last b i j
  | [], B, C, last, i, j => rfl
  | x :: r, B, C, last, i, j => by
    simp only [ofL, elabL, P1b.elabL, ofL_isEmpty, ofS_elab x, ofL_elab r]; fin
theorem ofElifs_elab : (es : List P1b.SElif) → ∀ (B C : List Nat) (i j : Nat),
    elabElifs env sn σ B C (ofElifs es) i j = P1b.elabElifs env sn σ B C es i j
  | [], B, C, i, j => rfl
  | .mk e lp c rp lb body rb :: r, B, C, i, j => by
    simp only [ofElifs, elabElifs, P1b.elabElifs, ofCond_elab, ofL_elab body, ofElifs_elab r]; fin
theorem ofElse_elab : (e : P1b.SElse) → ∀ (B C : List Nat) (i j : Nat),
    elabElse env sn σ B C (ofElse e) i j = P1b.elabElse env sn σ B C e i j
  | .none, B, C, i, j => rfl
  | .some e lb body rb, B, C, i, j => by simp only [ofElse, elabElse, P1b.elabElse, ofL_elab body]; fin
theorem ofCases_elab : (cs : List P1b.SCase) → ∀ (B C : List Nat) (seen : List String) (hd : Bool) (i j : Nat),
    elabCases env sn σ B C (ofCases cs) seen hd i j = P1b.elabCases env sn σ B C cs seen hd i j
  | [], B, C, seen, hd, i, j => rfl
  | .case c vs colon body :: r, B, C, seen, hd, i, j => by
    simp only [ofCases, elabCases, P1b.elabCases, ofCases_isEmpty, ofL_elab body, ofCases_elab r]; fin
  | .dflt d colon body :: r, B, C, seen, hd, i, j => by
    simp only [ofCases, elabCases, P1b.elabCases, ofCases_isEmpty, ofL_elab body, ofCases_elab r]; fin
theorem ofPCases_elab : (cs : List P1b.SPCase) → ∀ (B C : List Nat)
    (acc : List (String × List Stmt × ImpData)) (i j : Nat),
    elabPCases env sn σ B C (ofPCases cs) acc i j = P1b.elabPCases env sn σ B C cs acc i j
  | [], B, C, acc, i, j => rfl
  | .colon key c x :: r, B, C, acc, i, j => by
    simp only [ofPCases, elabPCases, P1b.elabPCases, ofPCases_isEmpty, ofS_elab x, ofPCases_elab r]; fin
  | .colon0 key c :: r, B, C, acc, i, j => by
    simp only [ofPCases, elabPCases, P1b.elabPCases, ofPCases_elab r]; fin
  | .brace key lb body rb :: r, B, C, acc, i, j => by
    simp only [ofPCases, elabPCases, P1b.elabPCases, ofL_elab body, ofPCases_elab r]; fin
end

end

theorem ofL_elabE (env : Env) (sn : String) (c : Ctx) (b : List P1b.SStmt) :
    elabE env sn c (ofL b) = P1b.elabE env sn c b := by
  simp only [elabE, P1b.elabE, ofL_elab]; fin

/-- **P1b is the special case `ofL b` of P1c**: `P1b.parse_block_elab` with the fuel bound in tokens, derived
from `P1c.parse_block_elab` through the embedding. -/
theorem p1b_special_case (env : Env) (sn : String) (startTok : Tok) (b : List P1b.SStmt) (rb : Tok)
    (rest : List Tok) (hwf : P1b.SWF b) (hrb : rb.type = .RBRACE) (s : PState)
    (htoks : s.toks = P1b.printStmts b ++ rb :: rest) (fuel : Nat)
    (hfuel : 2 * (P1b.printStmts b).length + 1 ≤ fuel) :
    (parseBlockStatement env sn startTok fuel [] {}).run s =
      match P1b.elabE env sn (ctxOf s) b with
      | .ok (stmts, imp, c') =>
        .ok ((stmts, imp), { s with toks := rb :: rest, nextSid := c'.nextSid, nextCmdId := c'.nextCmdId })
      | .error e => .error e := by
  have h := parse_block_elab env sn startTok (ofL b) rb rest (by unfold SWF; rw [ofL_swf]; exact hwf) hrb s
    (by rw [htoks]; show _ = printL (ofL b) ++ _; rw [ofL_print]) fuel
    (fuel_of_tokens (ofL b) fuel (by show 2 * (printL (ofL b)).length + 1 ≤ fuel; rw [ofL_print]; exact hfuel))
  rw [h, ofL_elabE]
  rfl

end Pory.P1c
