import PoryProofs.ProgramIndepE
import PoryProofs.ProgramInsertMS
/-
P2f helpers (ProgramInsertMS re-run over `P2e.STopE`): inserting / removing one unrelated top-level statement in a
file whose scripts carry bodies of P1c's grammar. `UnrelatedE` (decidable), `remove_statementE`.
-/
namespace Pory.P2f
open Pory Pory.Parser Pory.C02P Pory.TopParse Pory.P2 Pory.P2b Pory.P2d Pory.P2e Pory.Emit
open Pory.StmtG (Ctx ctxOf)
open Pory.C12c

theorem elabTopsE_selfD (env : Env) (henv : env.envErrors = true) (ts : List STopE) (s0 : PState) (hb : s0.breakStack = [])
    (hc : s0.continueStack = []) (tops : List Top) (s : PState) (h : elabTopsE env ts s0 = .ok (tops, s)) :
    s.breakStack = [] ∧ s.continueStack = [] ∧ s0.nextCmdId ≤ s.nextCmdId ∧
      All2 (RelTopM (Rb 0 0 s0.nextCmdId s.nextCmdId)) tops tops ∧
      Delta (Rb 0 0 s0.nextCmdId s.nextCmdId) s0 s0 s s := by
  have hf := elabTopsE_frame env henv domAll 0 0 ts (agree_self s0 hb hc) (uses_allE env ts s0)
  rw [h] at hf
  obtain ⟨topsB, b1, hb1, hA, hle, hr, hd⟩ := hf
  simp only [Except.ok.injEq, Prod.mk.injEq] at hb1
  obtain ⟨rfl, rfl⟩ := hb1
  exact ⟨hA.ba, hA.ca, hle, hr, hd⟩

theorem elabTopsE_single (env : Env) (t : STopE) (s : PState) :
    elabTopsE env [t] s =
      match stepTopE env t s with
      | .error e => .error e
      | .ok (o, s1) => .ok (optTop o, s1) := by
  simp only [elabTopsE]
  cases stepTopE env t s with
  | error e => rfl
  | ok q => obtain ⟨o, s1⟩ := q; simp

theorem stepTopE_base_sel (env : Env) (henv : env.envErrors = true) (t : STopP) (s st : PState) (o : Option Top)
    (h : stepTopE env (.base t) s = .ok (o, st)) :
    ∃ m, selTop env t = some m ∧ stepTopM env m s = .ok (o, st) := by
  simp only [stepTopE] at h
  cases hsel : selTop env t with
  | none =>
    obtain ⟨e, he⟩ := selTop_none_errU env henv t hsel
    rw [he s] at h
    cases h
  | some m => exact ⟨m, rfl, by rw [← stepTopP_sel env t m hsel s]; exact h⟩

theorem stepTopE_constants (env : Env) (henv : env.envErrors = true) (t : STopE) (s st : PState) (o : Option Top)
    (hnc : t.isConst = false) (h : stepTopE env t s = .ok (o, st)) : st.constants = s.constants := by
  cases t with
  | base t =>
    obtain ⟨m, hsel, hm⟩ := stepTopE_base_sel env henv t s st o h
    exact stepTopM_constants env m s st o (by rw [selTop_isConst hsel]; exact hnc) hm
  | scriptE kw md name lb body rb =>
    simp only [stepTopE] at h
    cases he : P1c.elabE env name.lit (ctxOf s) body with
    | error e => rw [he] at h; cases h
    | ok q =>
      obtain ⟨stmts, imp, c'⟩ := q
      rw [he] at h
      simp only [Except.ok.injEq, Prod.mk.injEq] at h
      rw [← h.2]
      unfold afterScript
      rw [addImp_constants]
  | mapscriptsE kw md name lb es rb =>
    simp only [stepTopE] at h
    cases he : elabEntriesE env name.lit es (ctxOf s) with
    | error e => rw [he] at h; cases h
    | ok q =>
      obtain ⟨mss, tbs, imp, c'⟩ := q
      rw [he] at h
      simp only [Except.ok.injEq, Prod.mk.injEq] at h
      rw [← h.2]
      unfold afterScript
      rw [addImp_constants]

/-- The scope-id counter does not decrease along a body of P1c. -/
theorem elabE_sid_leE (env : Env) (sn : String) (body : List P1c.SStmt) (c : Ctx) (hB : c.breakStack = [])
    (hC : c.continueStack = []) (stmts : List Stmt) (imp : ImpData) (c' : Ctx)
    (h : P1c.elabE env sn c body = .ok (stmts, imp, c')) : c.nextSid ≤ c'.nextSid := by
  have hA : AgreeC domAll c.nextCmdId c.nextSid { c with nextSid := 0, nextCmdId := 0 } c :=
    ⟨fun _ _ => rfl, hB, hC, hB, hC, (Nat.zero_add _).symm, (Nat.zero_add _).symm⟩
  have hf := body_frameE env sn hA body (fun _ _ => trivial)
  cases h0 : P1c.elabE env sn { c with nextSid := 0, nextCmdId := 0 } body with
  | error e => rw [h0] at hf; rw [hf] at h; cases h
  | ok q =>
    obtain ⟨stmts0, imp0, a'⟩ := q
    rw [h0] at hf
    obtain ⟨stmts', imp', b', hb, hA', _⟩ := hf
    rw [h] at hb
    simp only [Except.ok.injEq, Prod.mk.injEq] at hb
    obtain ⟨_, _, rfl⟩ := hb
    have := hA'.sid
    omega

/-- The scope-id counter does not decrease along the entries of a `mapscripts` statement. -/
theorem elabEntriesE_sid_le (env : Env) (ms : String) (es : List SEntryE) (c : Ctx) (hB : c.breakStack = [])
    (hC : c.continueStack = []) (mss : List MapScript) (tbs : List TableMapScript) (imp : ImpData) (c' : Ctx)
    (h : elabEntriesE env ms es c = .ok (mss, tbs, imp, c')) : c.nextSid ≤ c'.nextSid := by
  have hA : AgreeC domAll c.nextCmdId c.nextSid { c with nextSid := 0, nextCmdId := 0 } c :=
    ⟨fun _ _ => rfl, hB, hC, hB, hC, (Nat.zero_add _).symm, (Nat.zero_add _).symm⟩
  have hf := entries_frameE env ms es hA (fun _ _ => trivial)
  cases h0 : elabEntriesE env ms es { c with nextSid := 0, nextCmdId := 0 } with
  | error e => rw [h0] at hf; rw [hf] at h; cases h
  | ok q =>
    obtain ⟨mss0, tbs0, imp0, a'⟩ := q
    rw [h0] at hf
    obtain ⟨mss', tbs', imp', b', hb, hA', _⟩ := hf
    rw [h] at hb
    simp only [Except.ok.injEq, Prod.mk.injEq] at hb
    obtain ⟨_, _, _, rfl⟩ := hb
    have := hA'.sid
    omega

theorem stepTopE_sid_le (env : Env) (henv : env.envErrors = true) (t : STopE) (s st : PState) (o : Option Top)
    (hb : s.breakStack = []) (hc : s.continueStack = []) (h : stepTopE env t s = .ok (o, st)) :
    s.nextSid ≤ st.nextSid := by
  cases t with
  | base t =>
    obtain ⟨m, _, hm⟩ := stepTopE_base_sel env henv t s st o h
    exact stepTopM_sid_le env m s st o hb hc hm
  | scriptE kw md name lb body rb =>
    simp only [stepTopE] at h
    cases he : P1c.elabE env name.lit (ctxOf s) body with
    | error e => rw [he] at h; cases h
    | ok q =>
      obtain ⟨stmts, imp, c'⟩ := q
      rw [he] at h
      simp only [Except.ok.injEq, Prod.mk.injEq] at h
      rw [← h.2]
      unfold afterScript
      rw [addImp_nextSid]
      exact elabE_sid_leE env name.lit body (ctxOf s) hb hc stmts imp c' he
  | mapscriptsE kw md name lb es rb =>
    simp only [stepTopE] at h
    cases he : elabEntriesE env name.lit es (ctxOf s) with
    | error e => rw [he] at h; cases h
    | ok q =>
      obtain ⟨mss, tbs, imp, c'⟩ := q
      rw [he] at h
      simp only [Except.ok.injEq, Prod.mk.injEq] at h
      rw [← h.2]
      unfold afterScript
      rw [addImp_nextSid]
      exact elabEntriesE_sid_le env name.lit es (ctxOf s) hb hc mss tbs imp c' he

/-! ### inserting / removing a statement -/

/-- **The side condition** for the statement `t` between `pre` and `post` (`P2.Unrelated` on the extended
grammar; finite checks on the elaboration of `pre ++ t :: post`; vacuous when it fails before `post`):
* `t` is not a `const` definition;
* the scripts and inline scripts of `post` hoist only texts / movements whose dedupe-table entry `t` has not
  created, and — if they hoist something — the (generated) name they hoist under is not a name under which `t`
  has created a hoisted text or movement (`UsesE … (domBetween s st)`);
* no label statement inside a script or inline script of `pre` or `post` is the name of a text that `t`
  contributes. -/
def UnrelatedE (env : Env) (eofT : Tok) (pre : List STopE) (t : STopE) (post : List STopE) : Prop :=
  match elabTopsE env pre (initState eofT) with
  | .error _ => True
  | .ok (topsP, s) =>
    match stepTopE env t s with
    | .error _ => True
    | .ok (_, st) =>
      t.isConst = false ∧ UsesE env (domBetween s st) post s ∧
      match elabTopsE env post s with
      | .error _ => True
      | .ok (topsQ, _) => ∀ n ∈ labelNamesM (topsP ++ topsQ), n ∈ textNames st → n ∈ textNames s

/-- **Removing an unrelated statement.** If `pre ++ t :: post` compiles to `S'` and `t` is unrelated to the
rest, then `S'` consists, section by section, of blocks `P` (of `pre`), `T` (of `t`: at most one top-level
block, its hoisted movements / texts or its text), `Q` (of `post`), and `pre ++ post` compiles to `P` followed
by `Q`: every block of every other statement is unchanged, nothing else appears or disappears. -/
theorem remove_statementE (env : Env) (henv : env.envErrors = true) (o : Opts) (eofT : Tok) (pre : List STopE) (t : STopE) (post : List STopE)
    (h : UnrelatedE env eofT pre t post) (S' : Sections)
    (hc : compileFileE env o eofT (pre ++ t :: post) = .ok S') :
    ∃ P T Q : Sections, S' = P.append (T.append Q) ∧ T.tops.length ≤ 1 ∧
      compileFileE env o eofT (pre ++ post) = .ok (P.append Q) := by
  rw [compileFileE_ok_iff] at hc
  obtain ⟨tops', b0, he', nd1, nd2, hsec⟩ := hc
  unfold UnrelatedE at h
  rw [elabTopsE_append] at he'
  cases hpre : elabTopsE env pre (initState eofT) with
  | error e => rw [hpre] at he'; cases he'
  | ok q =>
    obtain ⟨topsP, s⟩ := q
    rw [hpre] at he' h
    simp only [elabTopsE] at he' h
    cases ht : stepTopE env t s with
    | error e => rw [ht] at he'; cases he'
    | ok q2 =>
      obtain ⟨ot, st⟩ := q2
      rw [ht] at he' h
      obtain ⟨hnc, hu, hlab⟩ := h
      simp only at he'
      cases hpost' : elabTopsE env post st with
      | error e => rw [hpost'] at he'; cases he'
      | ok q3 =>
        obtain ⟨topsQ', b1⟩ := q3
        rw [hpost'] at he'
        simp only [Except.ok.injEq, Prod.mk.injEq] at he'
        obtain ⟨rfl, rfl⟩ := he'
        -- facts about the prefix and about `t`
        obtain ⟨sb, sc, _, hrP, hdP⟩ := elabTopsE_selfD env henv pre (initState eofT) rfl rfl topsP s hpre
        have h1t : elabTopsE env [t] s = .ok (optTop ot, st) := by rw [elabTopsE_single, ht]
        obtain ⟨stb, stc, hle, hrT, hdT⟩ := elabTopsE_selfD env henv [t] s sb sc (optTop ot) st h1t
        have hsid := stepTopE_sid_le env henv t s st ot sb sc ht
        have hconst := stepTopE_constants env henv t s st ot hnc ht
        have hA : Agree (domBetween s st) (st.nextCmdId - s.nextCmdId) (st.nextSid - s.nextSid) s st :=
          ⟨fun _ _ => by rw [hconst], sb, sc, stb, stc, by omega, by omega,
            ⟨fun _ hk => hk, fun _ hn => hn.1, fun _ hk => hk, fun _ hn => hn.2⟩⟩
        have hf := elabTopsE_frame env henv (domBetween s st) _ _ post hA hu
        cases hpost : elabTopsE env post s with
        | error e => rw [hpost, hpost'] at hf; cases hf
        | ok q4 =>
          obtain ⟨topsQ, a1⟩ := q4
          rw [hpost] at hf hlab
          obtain ⟨topsB, b1'', hb, _, hleQ, hrQ, hdQ⟩ := hf
          rw [hpost'] at hb
          simp only [Except.ok.injEq, Prod.mk.injEq] at hb
          obtain ⟨rfl, rfl⟩ := hb
          -- the growth of the states
          obtain ⟨pP, pP', hpP, _, hpPall⟩ := hdP.patches
          obtain ⟨δT, hδT, _⟩ := hdT.texts
          obtain ⟨δM, hδM, _⟩ := hdT.moves
          obtain ⟨δS, hδS, _⟩ := hdT.stmts
          obtain ⟨δP, δP', hδP, hδP', hδall⟩ := hdT.patches
          have : δP' = δP := List.append_cancel_left (hδP'.symm.trans hδP)
          subst this
          obtain ⟨ΔT, hΔT, hΔT'⟩ := hdQ.texts
          obtain ⟨ΔM, hΔM, hΔM'⟩ := hdQ.moves
          obtain ⟨ΔS, hΔS, hΔS'⟩ := hdQ.stmts
          obtain ⟨ΔP, ΔP', hΔP, hΔP', hΔall⟩ := hdQ.patches
          have hsP : ∀ p ∈ s.patches, p.1.1 < s.nextCmdId := by
            intro p hp
            rw [hpP] at hp
            have hp' : p ∈ pP := by simpa [initState] using hp
            obtain ⟨x, _, hx⟩ := All2.mem_right hpPall p hp'
            exact hx.1.2.2
          have hδb : ∀ p ∈ δP', s.nextCmdId ≤ p.1.1 ∧ p.1.1 < st.nextCmdId := by
            intro p hp
            obtain ⟨x, _, hx⟩ := All2.mem_right hδall p hp
            exact ⟨hx.1.2.1, hx.1.2.2⟩
          have hΔb : ∀ p ∈ ΔP, s.nextCmdId ≤ p.1.1 := by
            intro p hp
            obtain ⟨x, _, hx⟩ := All2.mem_right hΔall p hp
            exact hx.1.2.1
          have hΔb' : ∀ p ∈ ΔP', st.nextCmdId ≤ p.1.1 := by
            intro p hp
            obtain ⟨x, _, hx⟩ := All2.mem_left hΔall p hp
            have h1 := hx.1.1
            have h2 := hx.1.2.1
            omega
          -- text names
          have hmem : ∀ n, n ∈ textNames b1 ↔ n ∈ textNames a1 ∨ n ∈ (δT ++ δS).map (·.name) := by
            intro n
            unfold textNames
            rw [hΔT', hΔS', hΔT, hΔS, hδT, hδS]
            simp only [List.map_append, List.mem_append]
            constructor
            · rintro (((h | h) | h) | ((h | h) | h))
              · exact .inl (.inl (.inl h))
              · exact .inr (.inl h)
              · exact .inl (.inl (.inr h))
              · exact .inl (.inr (.inl h))
              · exact .inr (.inr h)
              · exact .inl (.inr (.inr h))
            · rintro (((h | h) | (h | h)) | (h | h))
              · exact .inl (.inl (.inl h))
              · exact .inl (.inr h)
              · exact .inr (.inl (.inl h))
              · exact .inr (.inr h)
              · exact .inl (.inl (.inr h))
              · exact .inr (.inl (.inr h))
          have hlab' : ∀ n ∈ labelNamesM (topsP ++ topsQ), (textNames b1).contains n = (textNames a1).contains n := by
            intro n hn
            apply contains_congr
            rw [hmem]
            constructor
            · rintro (h | h)
              · exact h
              · have h1 : n ∈ textNames st := by
                  unfold textNames
                  rw [hδT, hδS]
                  simp only [List.map_append, List.mem_append] at h ⊢
                  rcases h with h | h
                  · exact .inl (.inr h)
                  · exact .inr (.inr h)
                have h2 := hlab n hn h1
                unfold textNames at h2 ⊢
                rw [hΔT, hΔS]
                simp only [List.map_append, List.mem_append] at h2 ⊢
                rcases h2 with h2 | h2
                · exact .inl (.inl h2)
                · exact .inr (.inl h2)
            · exact .inl
          -- the blocks
          unfold sectionsOf at hsec
          cases hbs : topBlocks o b1.patches (textNames b1) (topsP ++ (optTop ot ++ topsQ')) with
          | error e => rw [hbs] at hsec; cases hsec
          | ok bs =>
            rw [hbs] at hsec
            simp only [Except.ok.injEq] at hsec
            rw [topBlocks_append, topBlocks_append] at hbs
            cases hbP : topBlocks o b1.patches (textNames b1) topsP with
            | error e => rw [hbP] at hbs; cases hbs
            | ok bP =>
              rw [hbP] at hbs
              cases hbT : topBlocks o b1.patches (textNames b1) (optTop ot) with
              | error e => rw [hbT] at hbs; cases hbs
              | ok bT =>
                rw [hbT] at hbs
                cases hbQ : topBlocks o b1.patches (textNames b1) topsQ' with
                | error e => rw [hbQ] at hbs; cases hbs
                | ok bQ =>
                  rw [hbQ] at hbs
                  simp only [Except.ok.injEq] at hbs
                  have eP : topBlocks o b1.patches (textNames b1) topsP =
                      topBlocks o a1.patches (textNames a1) topsP := by
                    refine topBlocksM_frame o ?_ (Rb_mono_s 0 0 0 s.nextCmdId) hrP
                      (fun n hn => hlab' n (by rw [labelNamesM_append]; exact List.mem_append_left _ hn))
                    intro c' c hcc
                    obtain ⟨rfl, hlt⟩ := relCmd_Rb0_eq hcc
                    rw [hΔP', hδP, hΔP]
                    rw [patchedArgs_append_right _ ΔP', patchedArgs_append_right _ δP',
                      patchedArgs_append_right _ ΔP]
                    · intro p hp; have := hΔb p hp; omega
                    · intro p hp; have := (hδb p hp).1; omega
                    · intro p hp; have := hΔb' p hp; omega
                  have eQ : topBlocks o b1.patches (textNames b1) topsQ' =
                      topBlocks o a1.patches (textNames a1) topsQ := by
                    refine topBlocksM_frame o ?_ (Rb_mono_s _ _ s.nextCmdId a1.nextCmdId) hrQ
                      (fun n hn => hlab' n (by rw [labelNamesM_append]; exact List.mem_append_right _ hn))
                    intro c' c hcc
                    rw [hΔP', hΔP, patchedArgs_append_left st.patches, patchedArgs_append_left s.patches]
                    · exact patchedArgs_rel (Rb_mono_c _ _ _ _) hΔall hcc
                    · intro p hp; have h1 := hsP p hp; have h2 := hcc.1.2.1; omega
                    · intro p hp
                      have h2 := hcc.1.2.1
                      have h3 := hcc.1.1
                      rw [hδP] at hp
                      rcases List.mem_append.1 hp with hp | hp
                      · have h1 := hsP p hp; omega
                      · have h1 := (hδb p hp).2; omega
                  rw [eP] at hbP
                  rw [eQ] at hbQ
                  refine ⟨⟨bP, s.inlineMovements.map (emitMovement o), s.inlineTexts.map (emitText o),
                      s.textStatements.map (emitText o)⟩,
                    ⟨bT, δM.map (emitMovement o), δT.map (emitText o), δS.map (emitText o)⟩,
                    ⟨bQ, ΔM.map (emitMovement o), ΔT.map (emitText o), ΔS.map (emitText o)⟩, ?_, ?_, ?_⟩
                  · rw [← hsec, ← hbs, hΔM', hΔT', hΔS', hδM, hδT, hδS]
                    simp [Sections.append, List.map_append, List.append_assoc]
                  · have := topBlocks_length_le o _ _ _ _ hbT
                    have h2 : (optTop ot).length ≤ 1 := by cases ot <;> simp [optTop]
                    simp only; omega
                  · rw [compileFileE_ok_iff]
                    refine ⟨topsP ++ topsQ, a1, ?_, ?_, ?_, ?_⟩
                    · rw [elabTopsE_append, hpre]; simp only [hpost]
                    · refine List.Nodup.sublist ?_ nd1
                      unfold textNames
                      rw [hΔT', hΔS', hΔT, hΔS, hδT, hδS]
                      refine List.Sublist.map _ (List.Sublist.append ?_ ?_)
                      · exact List.Sublist.append (List.sublist_append_left _ _) (List.Sublist.refl _)
                      · exact List.Sublist.append (List.sublist_append_left _ _) (List.Sublist.refl _)
                    · refine List.Nodup.sublist ?_ nd2
                      unfold allMvNames
                      rw [mvNames_append, mvNames_append, mvNames_append, mvNames_relM hrQ, hΔM', hΔM, hδM]
                      refine List.Sublist.append ?_ ?_
                      · exact List.Sublist.append (List.Sublist.refl _) (List.sublist_append_right _ _)
                      · exact List.Sublist.map _
                          (List.Sublist.append (List.sublist_append_left _ _) (List.Sublist.refl _))
                    · unfold sectionsOf
                      rw [topBlocks_append, hbP, hbQ]
                      simp [Sections.append, hΔM, hΔT, hΔS, List.map_append]

instance (env : Env) (eofT : Tok) (pre : List STopE) (t : STopE) (post : List STopE) :
    Decidable (UnrelatedE env eofT pre t post) := by
  unfold UnrelatedE
  cases elabTopsE env pre (initState eofT) with
  | error e => exact isTrue trivial
  | ok q1 =>
    obtain ⟨topsP, s⟩ := q1
    dsimp only
    cases stepTopE env t s with
    | error e => exact isTrue trivial
    | ok q2 =>
      obtain ⟨ot, st⟩ := q2
      dsimp only
      cases elabTopsE env post s with
      | error e =>
        exact (inferInstance : Decidable (t.isConst = false ∧ UsesE env (domBetween s st) post s ∧ True))
      | ok q3 =>
        obtain ⟨topsQ, a1⟩ := q3
        exact (inferInstance : Decidable (t.isConst = false ∧ UsesE env (domBetween s st) post s ∧
          ∀ n ∈ labelNamesM (topsP ++ topsQ), n ∈ textNames st → n ∈ textNames s))

end Pory.P2f
