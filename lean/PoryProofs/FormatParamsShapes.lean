import PoryProofs.FormatParams
/-
Helpers for C07b, part 2: `parseFormatStringOperator` evaluated shape by shape.
* `reach_*` / `reach` : `format ( [stringtype] "text" <positional prefix> , …` up to the call of the
  named-parameter loop `formatNamedParams`, the rest of the function being `namedTail`;
* `posOnly_*` / `posOnly` : `format ( [stringtype] "text" <positional prefix> x` with `x` not a
  comma, the rest of the function being `tailM`;
* rejections that happen before the named-parameter loop.
Each lemma is one `simp` run over the whole function for one shape (two with the string type).
-/
namespace Pory.C07b
open Pory Pory.Parser Pory.C02P

/-! ### `parseFormatStringOperator` up to the named-parameter loop, shape by shape -/

def styLit (sty : Option Tok) : String :=
  match sty with
  | some t => t.lit
  | none => ""

section
variable (env : Env) (fuel : Nat) (s : PState) (fm lp : Tok) (sty : Option Tok) (text : Tok)
  (hlp : lp.type = .LPAREN) (hsty : ∀ t, sty = some t → t.type = .STRINGTYPE)
  (htext : text.type = .STRING)
include hlp hsty htext

/-- `format("t", name…` -/
theorem reach_none (c nt : Tok) (tl : List Tok) (hc : c.type = .COMMA)
    (hnt1 : nt.type ≠ .INT) (hnt2 : nt.type ≠ .STRING) :
    (parseFormatStringOperator env fuel).run
        (st s (fm :: lp :: (sty.toList ++ text :: c :: nt :: tl))) =
      (formatNamedParams fuel (fpOf env {} [] false) >>= namedTail env text (styLit sty)).run
        (st s (c :: nt :: tl)) := by
  cases sty with
  | none =>
    simp [parseFormatStringOperator, namedTail, tailM, fpOf, fontOf, intOf, styLit, hlp, htext, hc,
      hnt1, hnt2]
    rfl
  | some t =>
    have h := hsty t rfl
    simp [parseFormatStringOperator, namedTail, tailM, fpOf, fontOf, intOf, styLit, hlp, htext, hc,
      hnt1, hnt2, h]
    rfl

/-- `format("t", "font", name…` -/
theorem reach_font (c1 fnt c nt : Tok) (tl : List Tok) (hc1 : c1.type = .COMMA)
    (hf : fnt.type = .STRING) (hc : c.type = .COMMA) (hnt : nt.type = .IDENT) :
    (parseFormatStringOperator env fuel).run
        (st s (fm :: lp :: (sty.toList ++ text :: c1 :: fnt :: c :: nt :: tl))) =
      (formatNamedParams fuel (fpOf env { font? := some fnt } ["fontId"] true) >>=
        namedTail env text (styLit sty)).run (st s (c :: nt :: tl)) := by
  cases sty with
  | none =>
    simp [parseFormatStringOperator, namedTail, tailM, fpOf, fontOf, intOf, styLit, hlp, htext, hc1,
      hf, hc, hnt, Facts.formatParamFontId]
    rfl
  | some t =>
    have h := hsty t rfl
    simp [parseFormatStringOperator, namedTail, tailM, fpOf, fontOf, intOf, styLit, hlp, htext, hc1,
      hf, hc, hnt, h, Facts.formatParamFontId]
    rfl

/-- `format("t", 100, name…` -/
theorem reach_len (c1 n c nt : Tok) (tl : List Tok) (hc1 : c1.type = .COMMA)
    (hn : n.type = .INT) (hc : c.type = .COMMA) (hnt : nt.type = .IDENT) :
    (parseFormatStringOperator env fuel).run
        (st s (fm :: lp :: (sty.toList ++ text :: c1 :: n :: c :: nt :: tl))) =
      (formatNamedParams fuel (fpOf env { maxLen? := some n } ["maxLineLength"] true) >>=
        namedTail env text (styLit sty)).run (st s (c :: nt :: tl)) := by
  cases sty with
  | none =>
    simp [parseFormatStringOperator, namedTail, tailM, fpOf, fontOf, intOf, valOf, styLit, hlp,
      htext, hc1, hn, hc, hnt, Facts.formatParamMaxLineLength]
    rfl
  | some t =>
    have h := hsty t rfl
    simp [parseFormatStringOperator, namedTail, tailM, fpOf, fontOf, intOf, valOf, styLit, hlp,
      htext, hc1, hn, hc, hnt, h, Facts.formatParamMaxLineLength]
    rfl

/-- `format("t", "font", 100, …` (whatever follows the last comma) -/
theorem reach_fontLen (c1 fnt c2 n c nt : Tok) (tl : List Tok) (hc1 : c1.type = .COMMA)
    (hf : fnt.type = .STRING) (hc2 : c2.type = .COMMA) (hn : n.type = .INT) (hc : c.type = .COMMA) :
    (parseFormatStringOperator env fuel).run
        (st s (fm :: lp :: (sty.toList ++ text :: c1 :: fnt :: c2 :: n :: c :: nt :: tl))) =
      (formatNamedParams fuel (fpOf env { font? := some fnt, maxLen? := some n } ["fontId"] true) >>=
        namedTail env text (styLit sty)).run (st s (c :: nt :: tl)) := by
  cases sty with
  | none =>
    simp [parseFormatStringOperator, namedTail, tailM, fpOf, fontOf, intOf, valOf, styLit, hlp,
      htext, hc1, hf, hc2, hn, hc, Facts.formatParamFontId]
    rfl
  | some t =>
    have h := hsty t rfl
    simp [parseFormatStringOperator, namedTail, tailM, fpOf, fontOf, intOf, valOf, styLit, hlp,
      htext, hc1, hf, hc2, hn, hc, h, Facts.formatParamFontId]
    rfl

/-- `format("t", 100, "font", …` (whatever follows the last comma) -/
theorem reach_lenFont (c1 n c2 fnt c nt : Tok) (tl : List Tok) (hc1 : c1.type = .COMMA)
    (hn : n.type = .INT) (hc2 : c2.type = .COMMA) (hf : fnt.type = .STRING) (hc : c.type = .COMMA) :
    (parseFormatStringOperator env fuel).run
        (st s (fm :: lp :: (sty.toList ++ text :: c1 :: n :: c2 :: fnt :: c :: nt :: tl))) =
      (formatNamedParams fuel
          (fpOf env { font? := some fnt, maxLen? := some n } ["maxLineLength"] true) >>=
        namedTail env text (styLit sty)).run (st s (c :: nt :: tl)) := by
  cases sty with
  | none =>
    simp [parseFormatStringOperator, namedTail, tailM, fpOf, fontOf, intOf, valOf, styLit, hlp,
      htext, hc1, hf, hc2, hn, hc, Facts.formatParamMaxLineLength]
    rfl
  | some t =>
    have h := hsty t rfl
    simp [parseFormatStringOperator, namedTail, tailM, fpOf, fontOf, intOf, valOf, styLit, hlp,
      htext, hc1, hf, hc2, hn, hc, h, Facts.formatParamMaxLineLength]
    rfl

/-- All five prefixes at once. -/
theorem reach (pos : Pos) (c nt : Tok) (tl : List Tok) (hpos : pos.WF) (hc : c.type = .COMMA)
    (hnt : pos.ReachOK nt) :
    (parseFormatStringOperator env fuel).run
        (st s (fm :: lp :: (sty.toList ++ text :: (pos.toks ++ c :: nt :: tl)))) =
      (formatNamedParams fuel (fpOf env pos.written pos.spec pos.had) >>=
        namedTail env text (styLit sty)).run (st s (c :: nt :: tl)) := by
  cases pos with
  | none => exact reach_none env fuel s fm lp sty text hlp hsty htext c nt tl hc hnt.1 hnt.2
  | font c1 f =>
    exact reach_font env fuel s fm lp sty text hlp hsty htext c1 f c nt tl hpos.1 hpos.2 hc hnt
  | len c1 n =>
    exact reach_len env fuel s fm lp sty text hlp hsty htext c1 n c nt tl hpos.1 hpos.2 hc hnt
  | fontLen c1 f c2 n =>
    exact reach_fontLen env fuel s fm lp sty text hlp hsty htext c1 f c2 n c nt tl hpos.1 hpos.2.1
      hpos.2.2.1 hpos.2.2.2 hc
  | lenFont c1 n c2 f =>
    exact reach_lenFont env fuel s fm lp sty text hlp hsty htext c1 n c2 f c nt tl hpos.1 hpos.2.1
      hpos.2.2.1 hpos.2.2.2 hc

/-! ### positional parameters only -/

/-- `format("t" x` -/
theorem posOnly_none (x : Tok) (rest : List Tok) (hx : x.type ≠ .COMMA) :
    (parseFormatStringOperator env fuel).run (st s (fm :: lp :: (sty.toList ++ text :: x :: rest))) =
      (tailM env text (styLit sty) (fpOf env {} [] false)).run (st s (text :: x :: rest)) := by
  cases sty with
  | none =>
    simp [parseFormatStringOperator, tailM, fpOf, fontOf, intOf, styLit, hlp, htext, hx]
    rfl
  | some t =>
    have h := hsty t rfl
    simp [parseFormatStringOperator, tailM, fpOf, fontOf, intOf, styLit, hlp, htext, hx, h]
    rfl

/-- `format("t", "font" x` -/
theorem posOnly_font (c1 fnt x : Tok) (rest : List Tok) (hc1 : c1.type = .COMMA)
    (hf : fnt.type = .STRING) (hx : x.type ≠ .COMMA) :
    (parseFormatStringOperator env fuel).run
        (st s (fm :: lp :: (sty.toList ++ text :: c1 :: fnt :: x :: rest))) =
      (tailM env text (styLit sty) (fpOf env { font? := some fnt } ["fontId"] true)).run
        (st s (fnt :: x :: rest)) := by
  cases sty with
  | none =>
    simp [parseFormatStringOperator, tailM, fpOf, fontOf, intOf, styLit, hlp, htext, hx, hc1, hf,
      Facts.formatParamFontId]
    rfl
  | some t =>
    have h := hsty t rfl
    simp [parseFormatStringOperator, tailM, fpOf, fontOf, intOf, styLit, hlp, htext, hx, hc1, hf, h,
      Facts.formatParamFontId]
    rfl

/-- `format("t", 100 x` -/
theorem posOnly_len (c1 n x : Tok) (rest : List Tok) (hc1 : c1.type = .COMMA)
    (hn : n.type = .INT) (hx : x.type ≠ .COMMA) :
    (parseFormatStringOperator env fuel).run
        (st s (fm :: lp :: (sty.toList ++ text :: c1 :: n :: x :: rest))) =
      (tailM env text (styLit sty) (fpOf env { maxLen? := some n } ["maxLineLength"] true)).run
        (st s (n :: x :: rest)) := by
  cases sty with
  | none =>
    simp [parseFormatStringOperator, tailM, fpOf, fontOf, intOf, valOf, styLit, hlp, htext, hx, hc1,
      hn, Facts.formatParamMaxLineLength]
    rfl
  | some t =>
    have h := hsty t rfl
    simp [parseFormatStringOperator, tailM, fpOf, fontOf, intOf, valOf, styLit, hlp, htext, hx, hc1,
      hn, h, Facts.formatParamMaxLineLength]
    rfl

/-- `format("t", "font", 100 x` -/
theorem posOnly_fontLen (c1 fnt c2 n x : Tok) (rest : List Tok) (hc1 : c1.type = .COMMA)
    (hf : fnt.type = .STRING) (hc2 : c2.type = .COMMA) (hn : n.type = .INT) (hx : x.type ≠ .COMMA) :
    (parseFormatStringOperator env fuel).run
        (st s (fm :: lp :: (sty.toList ++ text :: c1 :: fnt :: c2 :: n :: x :: rest))) =
      (tailM env text (styLit sty)
        (fpOf env { font? := some fnt, maxLen? := some n } ["fontId"] true)).run
        (st s (n :: x :: rest)) := by
  cases sty with
  | none =>
    simp [parseFormatStringOperator, tailM, fpOf, fontOf, intOf, valOf, styLit, hlp, htext, hx, hc1,
      hf, hc2, hn, Facts.formatParamFontId]
    rfl
  | some t =>
    have h := hsty t rfl
    simp [parseFormatStringOperator, tailM, fpOf, fontOf, intOf, valOf, styLit, hlp, htext, hx, hc1,
      hf, hc2, hn, h, Facts.formatParamFontId]
    rfl

/-- `format("t", 100, "font" x` -/
theorem posOnly_lenFont (c1 n c2 fnt x : Tok) (rest : List Tok) (hc1 : c1.type = .COMMA)
    (hn : n.type = .INT) (hc2 : c2.type = .COMMA) (hf : fnt.type = .STRING) (hx : x.type ≠ .COMMA) :
    (parseFormatStringOperator env fuel).run
        (st s (fm :: lp :: (sty.toList ++ text :: c1 :: n :: c2 :: fnt :: x :: rest))) =
      (tailM env text (styLit sty)
        (fpOf env { font? := some fnt, maxLen? := some n } ["maxLineLength"] true)).run
        (st s (fnt :: x :: rest)) := by
  cases sty with
  | none =>
    simp [parseFormatStringOperator, tailM, fpOf, fontOf, intOf, valOf, styLit, hlp, htext, hx, hc1,
      hf, hc2, hn, Facts.formatParamMaxLineLength]
    rfl
  | some t =>
    have h := hsty t rfl
    simp [parseFormatStringOperator, tailM, fpOf, fontOf, intOf, valOf, styLit, hlp, htext, hx, hc1,
      hf, hc2, hn, h, Facts.formatParamMaxLineLength]
    rfl

/-- All five prefixes at once. -/
theorem posOnly (pos : Pos) (x : Tok) (rest : List Tok) (hpos : pos.WF) (hx : x.type ≠ .COMMA) :
    (parseFormatStringOperator env fuel).run
        (st s (fm :: lp :: (sty.toList ++ text :: (pos.toks ++ x :: rest)))) =
      (tailM env text (styLit sty) (fpOf env pos.written pos.spec pos.had)).run
        (st s (pos.lastTok text :: x :: rest)) := by
  cases pos with
  | none => exact posOnly_none env fuel s fm lp sty text hlp hsty htext x rest hx
  | font c1 f =>
    exact posOnly_font env fuel s fm lp sty text hlp hsty htext c1 f x rest hpos.1 hpos.2 hx
  | len c1 n =>
    exact posOnly_len env fuel s fm lp sty text hlp hsty htext c1 n x rest hpos.1 hpos.2 hx
  | fontLen c1 f c2 n =>
    exact posOnly_fontLen env fuel s fm lp sty text hlp hsty htext c1 f c2 n x rest hpos.1 hpos.2.1
      hpos.2.2.1 hpos.2.2.2 hx
  | lenFont c1 n c2 f =>
    exact posOnly_lenFont env fuel s fm lp sty text hlp hsty htext c1 n c2 f x rest hpos.1 hpos.2.1
      hpos.2.2.1 hpos.2.2.2 hx

/-! ### rejections before the named-parameter loop -/

omit hlp hsty htext in
/-- No `(` after `format`: range error from the `format` token to the next one. -/
theorem reject_no_lparen (x : Tok) (rest : List Tok) (hx : x.type ≠ .LPAREN) :
    (parseFormatStringOperator env fuel).run (st s (fm :: x :: rest)) =
      .error (newRangeParseError fm x "format operator must begin with an open parenthesis '('") := by
  simp [parseFormatStringOperator, hx]

omit htext in
/-- No string literal: error at the offending token. -/
theorem reject_no_text (x : Tok) (rest : List Tok) (hx : x.type ≠ .STRING)
    (hx2 : sty = none → x.type ≠ .STRINGTYPE) :
    (parseFormatStringOperator env fuel).run (st s (fm :: lp :: (sty.toList ++ x :: rest))) =
      .error (newParseError x s!"invalid format() argument '{x.lit}'. Expected a string literal") := by
  cases sty with
  | none =>
    have h := hx2 rfl
    simp [parseFormatStringOperator, hlp, h, hx]
  | some t =>
    have h := hsty t rfl
    simp [parseFormatStringOperator, hlp, h, hx]

/-- `format("t", "font", x` with `x` neither a length nor a name: error at `x`. -/
theorem reject_after_font (c1 fnt c2 x : Tok) (rest : List Tok) (hc1 : c1.type = .COMMA)
    (hf : fnt.type = .STRING) (hc2 : c2.type = .COMMA) (hx1 : x.type ≠ .IDENT)
    (hx2 : x.type ≠ .INT) :
    (parseFormatStringOperator env fuel).run
        (st s (fm :: lp :: (sty.toList ++ text :: c1 :: fnt :: c2 :: x :: rest))) =
      .error (newParseError x s!"invalid format() maxLineLength '{x.lit}'. Expected integer") := by
  cases sty with
  | none => simp [parseFormatStringOperator, hlp, htext, hc1, hf, hc2, hx1, hx2]
  | some t =>
    have h := hsty t rfl
    simp [parseFormatStringOperator, hlp, htext, hc1, hf, hc2, hx1, hx2, h]

/-- `format("t", 100, x` with `x` neither a font id nor a name: error at `x`. -/
theorem reject_after_len (c1 n c2 x : Tok) (rest : List Tok) (hc1 : c1.type = .COMMA)
    (hn : n.type = .INT) (hc2 : c2.type = .COMMA) (hx1 : x.type ≠ .IDENT)
    (hx2 : x.type ≠ .STRING) :
    (parseFormatStringOperator env fuel).run
        (st s (fm :: lp :: (sty.toList ++ text :: c1 :: n :: c2 :: x :: rest))) =
      .error (newParseError x s!"invalid format() fontId '{x.lit}'. Expected string") := by
  cases sty with
  | none => simp [parseFormatStringOperator, hlp, htext, hc1, hn, hc2, hx1, hx2]
  | some t =>
    have h := hsty t rfl
    simp [parseFormatStringOperator, hlp, htext, hc1, hn, hc2, hx1, hx2, h]

end

end Pory.C07b
