import PoryModel.Compile
/-
Shared lemmas about where label-definition lines can come from in the emitter model.
-/
namespace Pory.Emit
open Pory

def labelOf : Line → Option (String × Bool)
  | .labelDef n g => some (n, g)
  | _ => none

/-- The label definitions among some lines, in order. -/
def labelsOf (ls : List Line) : List (String × Bool) := ls.filterMap labelOf

@[simp] theorem labelsOf_nil : labelsOf [] = [] := rfl
@[simp] theorem labelsOf_append (a b : List Line) : labelsOf (a ++ b) = labelsOf a ++ labelsOf b := by
  simp [labelsOf]
@[simp] theorem labelsOf_cons_label (n : String) (g : Bool) (r : List Line) :
    labelsOf (.labelDef n g :: r) = (n, g) :: labelsOf r := by simp [labelsOf, labelOf]
theorem labelsOf_cons (l : Line) (r : List Line) :
    labelsOf (l :: r) = (match labelOf l with | some x => x :: labelsOf r | none => labelsOf r) := by
  simp only [labelsOf, List.filterMap_cons]; split <;> simp_all

@[simp] theorem labelsOf_marker (o : Opts) (t : Tok) : labelsOf (marker o t) = [] := by
  unfold marker; split <;> simp [labelsOf, labelOf]

@[simp] theorem labelsOf_movement_steps (o : Opts) (cmds : List Tok) :
    labelsOf (emitMovement.steps o cmds) = [] := by
  induction cmds with
  | nil => simp [emitMovement.steps, labelsOf, labelOf]
  | cons c r ih =>
    unfold emitMovement.steps
    split <;> simp [labelsOf_cons, labelOf, ih]

@[simp] theorem labelsOf_mart_go (o : Opts) (ts : List Tok) (items : List String) :
    labelsOf (emitMart.go o ts items) = [] := by
  induction items generalizing ts with
  | nil => simp [emitMart.go, labelsOf, labelOf]
  | cons i r ih =>
    unfold emitMart.go
    split <;> simp [labelsOf_cons, labelOf, ih]

@[simp] theorem labelsOf_branchComparison (o : Opts) (n : String) (t : Nat) (e : OpExpr) :
    labelsOf (renderBranchComparison o n t e) = [] := by
  unfold renderBranchComparison
  simp only [labelsOf_append, labelsOf_marker, List.nil_append]
  split
  · split <;> simp [labelsOf, labelOf]
  · split <;> simp [labelsOf, labelOf]
  · simp [labelsOf, labelOf]
  · rfl

theorem labelsOf_case_lines (o : Opts) (n : String) (cases : List SwitchCaseBranch) :
    labelsOf (cases.flatMap fun sc => marker o sc.value ++ [Line.case_ sc.value.lit (jumpLabel n sc.dest)]) = [] := by
  induction cases with
  | nil => rfl
  | cons c r ih => simp [List.flatMap_cons, labelsOf_cons, labelOf, ih]

@[simp] theorem labelsOf_renderBranching (o : Opts) (patches : List ((Nat × Nat) × String)) (n : String)
    (c : Chunk) (next : Option Nat) : labelsOf (renderBranching o patches n c next).1 = [] := by
  unfold renderBranching
  split
  · split
    · simp [labelsOf, labelOf]
    · split <;> simp [labelsOf, labelOf]
  · split <;> simp [labelsOf, labelOf]
  · simp only []
    split
    · simp [labelsOf, labelOf]
    · split <;> simp [labelsOf, labelOf]
  · simp only []
    split
    · split <;> simp [labelsOf_cons, labelOf, renderCommand]
    · split
      · split <;> simp [labelsOf_cons, labelOf, renderCommand]
      · split <;> simp [labelsOf_cons, labelOf, renderCommand]
  · simp only []
    split
    · split <;> simp [labelsOf_cons, labelOf, labelsOf_case_lines]
    · split
      · split <;> simp [labelsOf_cons, labelOf, labelsOf_case_lines]
      · simp [labelsOf_cons, labelOf, labelsOf_case_lines]

end Pory.Emit

namespace Pory.Emit
open Pory

/-- Label statements of a straight-line statement list, in order. -/
def stmtLabels : List Stmt → List (String × Bool)
  | [] => []
  | .label _ n g :: r => (n, g) :: stmtLabels r
  | _ :: r => stmtLabels r

/-- The label lines of a rendered straight-line stretch are exactly its label statements. -/
theorem labelsOf_renderStatements (o : Opts) (patches : List ((Nat × Nat) × String))
    (cl tl : List String) (ss : List Stmt) (ls : List Line)
    (h : renderStatements o patches cl tl ss = .ok ls) : labelsOf ls = stmtLabels ss := by
  induction ss generalizing ls with
  | nil => simp [renderStatements] at h; subst h; rfl
  | cons s r ih =>
    cases s with
    | cmd c =>
      simp only [renderStatements] at h
      split at h
      · simp at h
      · next ls' hr =>
        simp at h; subst h
        simp [labelsOf_cons, labelOf, renderCommand, stmtLabels, ih ls' hr]
    | label tok n g =>
      simp only [renderStatements] at h
      split at h
      · simp at h
      · split at h
        · simp at h
        · split at h
          · simp at h
          · next ls' hr =>
            simp at h; subst h
            simp [stmtLabels, ih ls' hr]
    | ite => simp [renderStatements] at h
    | while_ => simp [renderStatements] at h
    | doWhile => simp [renderStatements] at h
    | brk => simp [renderStatements] at h
    | cont => simp [renderStatements] at h
    | switch_ => simp [renderStatements] at h

/-- User labels of the chunks with the given ids, in that order. -/
def orderLabels (chunks : List Chunk) : List Nat → List (String × Bool)
  | [] => []
  | id :: r => (match findChunk chunks id with | some c => stmtLabels c.statements | none => []) ++ orderLabels chunks r

theorem labelsOf_renderBodies (o : Opts) (patches : List ((Nat × Nat) × String)) (name : String)
    (chunks : List Chunk) (cl tl : List String) (order : List Nat)
    (bodies : List (Nat × List Line)) (regs : List Nat)
    (h : renderBodies o patches name chunks cl tl order = .ok (bodies, regs)) :
    bodies.map (·.1) = order ∧
    ∀ id ls, (id, ls) ∈ bodies → ∃ c, findChunk chunks id = some c ∧ labelsOf ls = stmtLabels c.statements := by
  induction order generalizing bodies regs with
  | nil => simp [renderBodies] at h; obtain ⟨rfl, rfl⟩ := h; simp
  | cons id r ih =>
    simp only [renderBodies] at h
    split at h
    · simp at h
    · next c hc =>
      split at h
      · simp at h
      · next stmtLines hs =>
        split at h
        · simp at h
        · next bodies' regs' hb =>
          simp at h
          obtain ⟨rfl, rfl⟩ := h
          obtain ⟨ih1, ih2⟩ := ih bodies' regs' hb
          constructor
          · simp [ih1]
          · intro id' ls hmem
            simp at hmem
            rcases hmem with ⟨rfl, rfl⟩ | hmem
            · refine ⟨c, hc, ?_⟩
              have := labelsOf_renderStatements o patches cl tl c.statements stmtLines hs
              split <;> simp [this, labelsOf_cons, labelOf]
            · exact ih2 id' ls hmem

end Pory.Emit
