import PoryProofs.ParserFuel4
/-
The statement block of the parser never changes the table of constants (`PState.constants`):
constants are only defined by top-level `const` statements.  Needed by `SwitchParse.lean`: all case
values of one `switch` are substituted with the same table, whatever the case bodies contain.
-/
namespace Pory.Parser
open Pory

/-- `m` keeps the table of constants. -/
def KC {α} (m : PM α) : Prop := ∀ s, wp m s (fun _ s' => s'.constants = s.constants)

theorem KC.wp_iff {α} {m : PM α} (hm : KC m) (s : PState) (Q : α → PState → Prop) :
    wp m s Q ↔ ∀ a s', m.run s = .ok (a, s') → s'.constants = s.constants → Q a s' :=
  wp_spec (hm s) Q

theorem Frame.kc {α} {m : PM α} (hf : Frame m) : KC m := by
  intro s a s' hr
  obtain ⟨l, c, rfl⟩ := hf s a s' hr
  rfl

/-- Symbolic execution, then close the leaves: chains of equalities between constant tables. -/
syntax "kcfin" (" [" Lean.Parser.Tactic.simpLemma,* "]")? : tactic
macro_rules
  | `(tactic| kcfin) => `(tactic| repeat' (first | (exact True.intro) | rfl | (with_reducible intro _) | (swp) | (split) | (simp_all; done)))
  | `(tactic| kcfin [$ts,*]) => `(tactic| repeat' (first | (exact True.intro) | rfl | (with_reducible intro _) | (swp [$ts,*]) | (split) | (simp_all; done)))

/-- Every function of the statement block keeps the constants, at fuel `n`. -/
structure KCAll (n : Nat) : Prop where
  block : ∀ env sn tok acc imp, KC (parseBlockStatement env sn tok n acc imp)
  swblock : ∀ env sn tok acc imp, KC (parseSwitchBlockStatement env sn tok n acc imp)
  stmt : ∀ env sn, KC (parseStatement env sn n)
  cond : ∀ env sn req, KC (parseConditionExpression env sn req n)
  elifs : ∀ env sn acc imp, KC (parseElifs env sn n acc imp)
  ifs : ∀ env sn, KC (parseIfStatement env sn n)
  whiles : ∀ env sn, KC (parseWhileStatement env sn n)
  doWhiles : ∀ env sn, KC (parseDoWhileStatement env sn n)
  cases : ∀ env sn tok cs vals hd imp, KC (parseSwitchCases env sn tok n cs vals hd imp)
  switch : ∀ env sn, KC (parseSwitchStatement env sn n)
  pory : ∀ env sn, KC (parsePoryswitchStatement env sn n)
  poryCases : ∀ env sn tok acc, KC (parsePoryswitchStatementCases env sn tok n acc)
  poryStmts : ∀ env sn am acc imp, KC (parsePoryswitchStatements env sn am n acc imp)

theorem kcAll_zero : KCAll 0 :=
  { block := by intros; intro s; rw [parseBlockStatement]; swp
    swblock := by intros; intro s; rw [parseSwitchBlockStatement]; swp
    stmt := by intros; intro s; rw [parseStatement]; swp
    cond := by intros; intro s; rw [parseConditionExpression]; swp
    elifs := by intros; intro s; rw [parseElifs]; swp
    ifs := by intros; intro s; rw [parseIfStatement]; swp
    whiles := by intros; intro s; rw [parseWhileStatement]; swp
    doWhiles := by intros; intro s; rw [parseDoWhileStatement]; swp
    cases := by intros; intro s; rw [parseSwitchCases]; swp
    switch := by intros; intro s; rw [parseSwitchStatement]; swp
    pory := by intros; intro s; rw [parsePoryswitchStatement]; swp
    poryCases := by intros; intro s; rw [parsePoryswitchStatementCases]; swp
    poryStmts := by intros; intro s; rw [parsePoryswitchStatements]; swp }

theorem kcAll_succ {n : Nat} (ih : KCAll n) : KCAll (n + 1) :=
  { block := by
      intro env sn tok acc imp s
      rw [parseBlockStatement]
      kcfin [(ih.stmt _ _).wp_iff, (ih.block _ _ _ _ _).wp_iff]
    swblock := by
      intro env sn tok acc imp s
      rw [parseSwitchBlockStatement]
      kcfin [(ih.stmt _ _).wp_iff, (ih.swblock _ _ _ _ _).wp_iff]
    stmt := by
      intro env sn s
      rw [parseStatement]
      kcfin [(ih.ifs _ _).wp_iff, (ih.whiles _ _).wp_iff, (ih.doWhiles _ _).wp_iff, (ih.switch _ _).wp_iff,
        (ih.pory _ _).wp_iff, frame_tryParseLabelStatement.wp_iff,
        (frame_parseCommandStatement _ _ _).wp_iff]
    cond := by
      intro env sn req s
      rw [parseConditionExpression]
      kcfin [(ih.block _ _ _ _ _).wp_iff, (frame_parseBooleanExpression _ _ _ _ _).wp_iff]
    elifs := by
      intro env sn acc imp s
      rw [parseElifs]
      kcfin [(ih.cond _ _ _).wp_iff, (ih.elifs _ _ _ _).wp_iff]
    ifs := by
      intro env sn s
      rw [parseIfStatement]
      kcfin [(ih.cond _ _ _).wp_iff, (ih.elifs _ _ _ _).wp_iff, (ih.block _ _ _ _ _).wp_iff]
    whiles := by
      intro env sn s
      rw [parseWhileStatement]
      kcfin [(ih.cond _ _ _).wp_iff]
    doWhiles := by
      intro env sn s
      rw [parseDoWhileStatement]
      kcfin [(ih.block _ _ _ _ _).wp_iff, (frame_parseBooleanExpression _ _ _ _ _).wp_iff]
    cases := by
      intro env sn tok cs vals hd imp s
      rw [parseSwitchCases]
      kcfin [(ih.swblock _ _ _ _ _).wp_iff, (ih.cases _ _ _ _ _ _ _).wp_iff,
        (frame_collectUntil _ _ _ _).wp_iff]
    switch := by
      intro env sn s
      rw [parseSwitchStatement]
      kcfin [(ih.cases _ _ _ _ _ _ _).wp_iff, (frame_expectPeekVarOrAutoVar _ _ _).wp_iff,
        (frame_switchOperandLoop _ _ _).wp_iff]
    pory := by
      intro env sn s
      rw [parsePoryswitchStatement]
      kcfin [(ih.poryCases _ _ _ _).wp_iff, (frame_parsePoryswitchHeader _).wp_iff]
    poryCases := by
      intro env sn tok acc s
      rw [parsePoryswitchStatementCases]
      kcfin [(ih.poryStmts _ _ _ _ _).wp_iff, (ih.poryCases _ _ _ _).wp_iff]
    poryStmts := by
      intro env sn am acc imp s
      rw [parsePoryswitchStatements]
      kcfin [(ih.stmt _ _).wp_iff, (ih.pory _ _).wp_iff, (ih.poryStmts _ _ _ _ _).wp_iff] }

theorem kcAll : ∀ n : Nat, KCAll n
  | 0 => kcAll_zero
  | n + 1 => kcAll_succ (kcAll n)

theorem kc_parseSwitchBlockStatement (env : Env) (sn : String) (tok : Tok) (n : Nat) (acc : List Stmt)
    (imp : ImpData) : KC (parseSwitchBlockStatement env sn tok n acc imp) :=
  (kcAll n).swblock env sn tok acc imp

theorem kc_parseBlockStatement (env : Env) (sn : String) (tok : Tok) (n : Nat) (acc : List Stmt)
    (imp : ImpData) : KC (parseBlockStatement env sn tok n acc imp) :=
  (kcAll n).block env sn tok acc imp

theorem kc_parseStatement (env : Env) (sn : String) (n : Nat) : KC (parseStatement env sn n) :=
  (kcAll n).stmt env sn

theorem kc_parseSwitchCases (env : Env) (sn : String) (tok : Tok) (n : Nat) (cs : List SwitchCase)
    (vals : List String) (hd : Bool) (imp : ImpData) : KC (parseSwitchCases env sn tok n cs vals hd imp) :=
  (kcAll n).cases env sn tok cs vals hd imp

theorem kc_parseSwitchStatement (env : Env) (sn : String) (n : Nat) : KC (parseSwitchStatement env sn n) :=
  (kcAll n).switch env sn

end Pory.Parser
