import PorySpec.Sem
import PorySpec.LeafSem
/-
The assembly-level abstract machine: executes the *structured lines* (`Emit.Line`) of ONE
rendered script, line by line.  This file is part of the specification (it says what the
emitted instructions mean); the simulation proof is in `PoryProofs/RenderSim.lean`.

Design decisions (chosen to keep the simulation proof simple, and said so as requested):

* The machine runs on the plain `List Line` that `renderChunks` produces — no annotated view.
  Every line kind has its own small-step meaning; a leaf's rendered block is therefore executed
  line by line, and the fact "the block jumps to the truthy label iff the leaf holds" is a
  *lemma* (`RenderSim.test_block`, via `Spec.execTest`), not a primitive.  The machine's tests
  are answered by an assembly-level world `AWorld` (flags, trainer flags, var comparisons,
  `case` comparisons — all on the *strings* that occur in the lines).  The tie to the graph
  machine's `SWorld` is the hypothesis `RenderSim.Compat` ("the rendered test block of leaf `e`
  jumps iff `w.test h e`"; "`case` comparison on the literals = `w.caseEq`"); for the world
  induced by an `AWorld` through the documented meaning `Spec.leafHolds` it is discharged by
  `C02.leaf_rendering_sound` (`RenderSim.compat_induced`).
* History = list of executed command *lines* (`Line.command name args`).  The graph machine's
  history (`List Cmd`) is related to it through `List.map (renderCommand patches)`.
* Registers: `Spec.Regs` (result of the last `compare`, of the last `checktrainerflag`) and the
  switch register (operand of the last `switch`).
* `labelDef`, `marker` and `blank` lines are skipped.  A command line named `end` / `return` /
  `goto` finishes the segment (as `Sem.specialCmd` does in `gstep`); `terminator` finishes with
  `end_` / `ret`; a generated `goto_ l` jumps to the line defining `l`.  Running past the last
  line is the distinguished outcome `runOff`.  Lines that are not script instructions (raw
  blocks, map-script tables, movement steps, mart items, text) are `stuck`.
-/
namespace Pory.Asm
open Pory Pory.Emit

/-- History of the assembly machine: the command lines executed so far. -/
abbrev AHist := List Line

/-- Game state as the assembly sees it: an arbitrary answer to every flag / trainer-flag / var
comparison / `case` comparison after every history. -/
structure AWorld where
  flag : AHist → String → Bool
  trainer : AHist → String → Bool
  /-- sign of `var - value` -/
  cmp : AHist → String → String → Int
  /-- does the switched operand equal this `case` value -/
  caseEq : AHist → String → String → Bool

/-- The `Spec.World` an assembly world is after history `h` (used to reuse `Spec.execTest`). -/
def AWorld.at (aw : AWorld) (h : AHist) : Spec.World :=
  { flag := fun _ => aw.flag h, trainer := fun _ => aw.trainer h, cmp := fun _ => aw.cmp h }

inductive AOutcome
  | ret
  | end_
  | jump (args : List String)     -- a user `goto …` command line: leaves the segment
  | runOff                        -- ran past the last line of the script
  | stuck (why : String)
  deriving Repr, DecidableEq

structure ACfg where
  pc : Nat
  h : AHist
  regs : Spec.Regs := {}
  sw : String := ""

inductive ARes
  | next (c : ACfg)
  | fin (o : AOutcome) (h : AHist)

/-- Command lines that end execution of the segment (cf. `Sem.specialCmd`). -/
def specialLine (name : String) (args : List String) : Option AOutcome :=
  if name == "end" then some .end_
  else if name == "return" then some .ret
  else if name == "goto" then some (.jump args)
  else none

/-- Index of the first line defining label `l`. -/
def findLabel : List Line → String → Option Nat
  | [], _ => none
  | .labelDef n _ :: r, l => if n = l then some 0 else (findLabel r l).map (· + 1)
  | _ :: r, l => (findLabel r l).map (· + 1)

/-- Transfer control to label `l`. -/
def jumpTo (ls : List Line) (l : String) (c : ACfg) : ARes :=
  match findLabel ls l with
  | some i => .next { c with pc := i }
  | none => .fin (.stuck "undefined label") c.h

def fallThrough (c : ACfg) : ARes := .next { c with pc := c.pc + 1 }

/-- Meaning of one line in configuration `c` (`c.pc` is the index of the line). -/
def exec (aw : AWorld) (ls : List Line) (c : ACfg) : Line → ARes
  | .labelDef _ _ => fallThrough c
  | .marker _ _ => fallThrough c
  | .blank => fallThrough c
  | .command n args =>
    match specialLine n args with
    | some o => .fin o c.h
    | none => .next { c with pc := c.pc + 1, h := c.h ++ [.command n args] }
  | .goto_ l => jumpTo ls l c
  | .terminator isEnd => .fin (if isEnd then .end_ else .ret) c.h
  | .gotoIfSet f l => if aw.flag c.h f then jumpTo ls l c else fallThrough c
  | .gotoIfUnset f l => if !aw.flag c.h f then jumpTo ls l c else fallThrough c
  | .compare _ v x => fallThrough { c with regs := { c.regs with cmp := aw.cmp c.h v x } }
  | .gotoIfCmp op l => if Spec.cmpHolds op c.regs.cmp then jumpTo ls l c else fallThrough c
  | .checkTrainerFlag t => fallThrough { c with regs := { c.regs with trainer := aw.trainer c.h t } }
  | .gotoIfTrainer set l => if c.regs.trainer == set then jumpTo ls l c else fallThrough c
  | .switch_ operand => fallThrough { c with sw := operand }
  | .case_ v l => if aw.caseEq c.h c.sw v then jumpTo ls l c else fallThrough c
  | _ => .fin (.stuck "not a script instruction") c.h

/-- One step of the assembly machine: execute the line at the program counter. -/
def astep (aw : AWorld) (ls : List Line) (c : ACfg) : ARes :=
  match ls[c.pc]? with
  | none => .fin .runOff c.h
  | some line => exec aw ls c line

def aiter (aw : AWorld) (ls : List Line) : Nat → ACfg → ARes
  | 0, c => .next c
  | n + 1, c =>
    match astep aw ls c with
    | .next c' => aiter aw ls n c'
    | .fin o h => .fin o h

/-- Zero or more assembly steps, on results. -/
inductive AStar (aw : AWorld) (ls : List Line) : ARes → ARes → Prop
  | refl (r) : AStar aw ls r r
  | step {c r} : AStar aw ls (astep aw ls c) r → AStar aw ls (.next c) r

/-- One or more assembly steps. -/
def APlus (aw : AWorld) (ls : List Line) (c : ACfg) (r : ARes) : Prop := AStar aw ls (astep aw ls c) r

theorem AStar.trans {aw : AWorld} {ls : List Line} {a b c : ARes}
    (h1 : AStar aw ls a b) (h2 : AStar aw ls b c) : AStar aw ls a c := by
  induction h1 with
  | refl => exact h2
  | step _ ih => exact .step (ih h2)

theorem APlus.star {aw : AWorld} {ls : List Line} {c : ACfg} {r : ARes} (h : APlus aw ls c r) :
    AStar aw ls (.next c) r := .step h

/-- A finished run of `aiter` is a finished `AStar` run and conversely. -/
theorem aiter_star (aw : AWorld) (ls : List Line) : ∀ (n : Nat) (c : ACfg),
    AStar aw ls (.next c) (aiter aw ls n c) := by
  intro n
  induction n with
  | zero => intro c; exact .refl _
  | succ n ih =>
    intro c
    refine .step ?_
    rw [aiter]
    cases hs : astep aw ls c with
    | next c' => exact ih c'
    | fin o h => exact .refl _

theorem star_aiter {aw : AWorld} {ls : List Line} {r r' : ARes} (h : AStar aw ls r r') :
    ∀ c, r = .next c → ∀ o hh, r' = .fin o hh → ∃ n, aiter aw ls n c = .fin o hh := by
  induction h with
  | refl r => intro c hc o hh hf; rw [hc] at hf; cases hf
  | @step c0 r0 hst ih =>
    intro c hc o hh hf
    injection hc with hc
    subst hc
    cases hs : astep aw ls c0 with
    | next c' =>
      obtain ⟨n, hn⟩ := ih c' hs o hh hf
      exact ⟨n + 1, by rw [aiter, hs]; exact hn⟩
    | fin o' h' =>
      rw [hs] at hst
      cases hst with
      | refl =>
        injection hf with h1 h2
        subst h1; subst h2
        exact ⟨1, by rw [aiter, hs]⟩

/-! A tiny program: `S: lock; goto_if_set F, S_2; release; end;  S_2: msgbox; return`. -/
def demo : List Line :=
  [ .labelDef "S" true, .command "lock" [], .gotoIfSet "F" "S_2", .command "release" [],
    .terminator true, .blank, .labelDef "S_2" false, .command "msgbox" [], .terminator false ]

def demoWorld (b : Bool) : AWorld :=
  { flag := fun _ _ => b, trainer := fun _ _ => false, cmp := fun _ _ _ => 0, caseEq := fun _ _ _ => false }

example : (match aiter (demoWorld true) demo 10 ⟨0, [], {}, ""⟩ with
    | .fin o h => some (o, h) | .next _ => none) =
    some (.ret, [.command "lock" [], .command "msgbox" []]) := by decide
example : (match aiter (demoWorld false) demo 10 ⟨0, [], {}, ""⟩ with
    | .fin o h => some (o, h) | .next _ => none) =
    some (.end_, [.command "lock" [], .command "release" []]) := by decide
example : (match aiter (demoWorld false) (demo.take 4) 10 ⟨0, [], {}, ""⟩ with
    | .fin o _ => some o | .next _ => none) = some .runOff := by decide

end Pory.Asm
