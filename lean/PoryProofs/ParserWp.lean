import PoryModel.ParserTop
/-
Weakest-precondition calculus for the parser monad `PM = StateT PState (Except PFail)`
(partial correctness: only successful runs are constrained).

* `wp m s Q` : every successful run of `m` from `s` ends in a result / state satisfying `Q`.
* `wp_bind`, `wp_pure`, `wp_fail`, `wp_ite` and one lemma per primitive (`wp_cur`, `wp_peek`, …) are
  `iff`s, so that a single `simp only [wp_simps…]` symbolically executes a `do` block.
* `upd s l k` : the state `s` with the token window and the command counter replaced.  The parser
  functions below the statement level change nothing else (`Frame`); `Frame.wp_iff` turns such a
  fact into a rewrite rule for `wp`.
* `wp_spec` turns any proved specification `wp m s Q₀` into a rewrite rule.
-/
namespace Pory.Parser
open Pory

def wp {α} (m : PM α) (s : PState) (Q : α → PState → Prop) : Prop :=
  ∀ a s', m.run s = .ok (a, s') → Q a s'

theorem wp_bind {α β} (m : PM α) (f : α → PM β) (s : PState) (Q : β → PState → Prop) :
    wp (m >>= f) s Q ↔ wp m s (fun a s1 => wp (f a) s1 Q) := by
  unfold wp
  simp only [StateT.run_bind]
  cases h : m.run s with
  | error e => simp [bind, Except.bind]
  | ok r =>
    obtain ⟨a, s1⟩ := r
    simp [bind, Except.bind]

theorem wp_pure {α} (a : α) (s : PState) (Q : α → PState → Prop) : wp (pure a) s Q ↔ Q a s := by
  simp [wp, pure, StateT.pure, StateT.run, Except.pure]

theorem wp_fail {α} (e : PFail) (s : PState) (Q : α → PState → Prop) : wp (fail e) s Q ↔ True := by
  simp [wp, fail, throw, throwThe, MonadExceptOf.throw, StateT.run, StateT.lift, bind, Except.bind]

theorem wp_ite {α} (c : Prop) [Decidable c] (a b : PM α) (s : PState) (Q : α → PState → Prop) :
    wp (if c then a else b) s Q ↔ if c then wp a s Q else wp b s Q := by
  split <;> rfl

theorem wp_mono {α} {m : PM α} {s : PState} {Q Q' : α → PState → Prop} (h : wp m s Q)
    (hq : ∀ a s', Q a s' → Q' a s') : wp m s Q' := fun a s' hr => hq a s' (h a s' hr)

/-- A proved specification as a rewrite rule. -/
theorem wp_spec {α} {m : PM α} {s : PState} {Q₀ : α → PState → Prop} (h : wp m s Q₀)
    (Q : α → PState → Prop) :
    wp m s Q ↔ ∀ a s', m.run s = .ok (a, s') → Q₀ a s' → Q a s' :=
  ⟨fun hq a s' hr _ => hq a s' hr, fun hq a s' hr => hq a s' hr (h a s' hr)⟩

theorem wp_true {α} (m : PM α) (s : PState) : wp m s (fun _ _ => True) := fun _ _ _ => trivial

/-! ### the state with token window and command counter replaced -/

def upd (s : PState) (l : List Tok) (k : Nat) : PState := { s with toks := l, nextCmdId := k }

@[simp] theorem upd_toks (s : PState) (l : List Tok) (k : Nat) : (upd s l k).toks = l := id rfl
@[simp] theorem upd_nextCmdId (s : PState) (l : List Tok) (k : Nat) : (upd s l k).nextCmdId = k := id rfl
@[simp] theorem upd_eof (s : PState) (l : List Tok) (k : Nat) : (upd s l k).eof = s.eof := id rfl
@[simp] theorem upd_constants (s : PState) (l : List Tok) (k : Nat) :
    (upd s l k).constants = s.constants := id rfl
@[simp] theorem upd_breakStack (s : PState) (l : List Tok) (k : Nat) :
    (upd s l k).breakStack = s.breakStack := id rfl
@[simp] theorem upd_continueStack (s : PState) (l : List Tok) (k : Nat) :
    (upd s l k).continueStack = s.continueStack := id rfl
@[simp] theorem upd_nextSid (s : PState) (l : List Tok) (k : Nat) : (upd s l k).nextSid = s.nextSid := id rfl
@[simp] theorem upd_upd (s : PState) (l l' : List Tok) (k k' : Nat) :
    upd (upd s l k) l' k' = upd s l' k' := id rfl
theorem upd_self (s : PState) : upd s s.toks s.nextCmdId = s := rfl

/-! ### primitives -/

theorem wp_get (s : PState) (Q : PState → PState → Prop) : wp get s Q ↔ Q s s := by
  simp [wp, StateT.run, get, getThe, MonadStateOf.get, StateT.get, pure, Except.pure]

theorem wp_set (s1 s : PState) (Q : PUnit → PState → Prop) : wp (set s1) s Q ↔ Q ⟨⟩ s1 := by
  simp [wp, StateT.run, set, StateT.set, pure, Except.pure]
  exact ⟨fun h => h _, fun h _ => h⟩

theorem wp_modify (f : PState → PState) (s : PState) (Q : PUnit → PState → Prop) :
    wp (modify f) s Q ↔ Q ⟨⟩ (f s) := by
  simp [wp, StateT.run, modify, modifyGet, MonadStateOf.modifyGet, StateT.modifyGet, pure, Except.pure]
  exact ⟨fun h => h _, fun h _ => h⟩

theorem wp_cur (s : PState) (Q : Tok → PState → Prop) : wp cur s Q ↔ Q (s.toks.headD s.eof) s := by
  unfold cur; simp only [wp_bind, wp_get, wp_pure]

theorem wp_peekAt (n : Nat) (s : PState) (Q : Tok → PState → Prop) :
    wp (peekAt n) s Q ↔ Q (s.toks.getD n s.eof) s := by
  unfold peekAt; simp only [wp_bind, wp_get, wp_pure]

theorem wp_peek (s : PState) (Q : Tok → PState → Prop) : wp peek s Q ↔ Q (s.toks.getD 1 s.eof) s :=
  wp_peekAt 1 s Q
theorem wp_peek2 (s : PState) (Q : Tok → PState → Prop) : wp peek2 s Q ↔ Q (s.toks.getD 2 s.eof) s :=
  wp_peekAt 2 s Q
theorem wp_peek3 (s : PState) (Q : Tok → PState → Prop) : wp peek3 s Q ↔ Q (s.toks.getD 3 s.eof) s :=
  wp_peekAt 3 s Q
theorem wp_peek4 (s : PState) (Q : Tok → PState → Prop) : wp peek4 s Q ↔ Q (s.toks.getD 4 s.eof) s :=
  wp_peekAt 4 s Q

theorem wp_nextToken (s : PState) (Q : Unit → PState → Prop) :
    wp nextToken s Q ↔ Q () (upd s s.toks.tail s.nextCmdId) := by
  unfold nextToken; rw [wp_modify]; rfl

theorem wp_curIs (t : TT) (s : PState) (Q : Bool → PState → Prop) :
    wp (curIs t) s Q ↔ Q ((s.toks.headD s.eof).type == t) s := by
  unfold curIs; simp only [wp_bind, wp_cur, wp_pure]

theorem wp_peekIs (t : TT) (s : PState) (Q : Bool → PState → Prop) :
    wp (peekIs t) s Q ↔ Q ((s.toks.getD 1 s.eof).type == t) s := by
  unfold peekIs; simp only [wp_bind, wp_peek, wp_pure]

theorem wp_peek2Is (t : TT) (s : PState) (Q : Bool → PState → Prop) :
    wp (peek2Is t) s Q ↔ Q ((s.toks.getD 2 s.eof).type == t) s := by
  unfold peek2Is; simp only [wp_bind, wp_peek2, wp_pure]

theorem wp_expectPeek (t : TT) (s : PState) (Q : Bool → PState → Prop) :
    wp (expectPeek t) s Q ↔
      if (s.toks.getD 1 s.eof).type == t then Q true (upd s s.toks.tail s.nextCmdId) else Q false s := by
  unfold expectPeek
  simp only [wp_bind, wp_peekIs, wp_ite, wp_nextToken, wp_pure]

theorem wp_expectPeekErr (t : TT) (s : PState) (Q : Unit → PState → Prop) :
    wp (expectPeekErr t) s Q ↔
      ((s.toks.getD 1 s.eof).type == t → Q () (upd s s.toks.tail s.nextCmdId)) := by
  unfold expectPeekErr
  simp only [wp_bind, wp_peek, wp_ite, wp_nextToken, wp_fail]
  split <;> simp_all

theorem wp_tryReplace (v : String) (s : PState) (Q : String → PState → Prop) :
    wp (tryReplaceWithConstant v) s Q ↔ Q ((s.constants.lookup v).getD v) s := by
  unfold tryReplaceWithConstant; simp only [wp_bind, wp_get, wp_pure]

/-! ### frames: only `toks` and `nextCmdId` change -/

def Frame {α} (m : PM α) : Prop := ∀ s, wp m s (fun _ s' => ∃ l k, s' = upd s l k)

theorem Frame.wp_iff {α} {m : PM α} (hm : Frame m) (s : PState) (Q : α → PState → Prop) :
    wp m s Q ↔ ∀ a l k, m.run s = .ok (a, upd s l k) → Q a (upd s l k) := by
  constructor
  · intro h a l k hr; exact h a _ hr
  · intro h a s' hr
    obtain ⟨l, k, rfl⟩ := hm s a s' hr
    exact h a l k hr

theorem frame_refl (s : PState) : (∃ l k, s = upd s l k) ↔ True :=
  iff_true_intro ⟨s.toks, s.nextCmdId, rfl⟩
theorem frame_upd (s : PState) (l1 : List Tok) (k1 : Nat) : (∃ l k, upd s l1 k1 = upd s l k) ↔ True :=
  iff_true_intro ⟨l1, k1, rfl⟩

end Pory.Parser
