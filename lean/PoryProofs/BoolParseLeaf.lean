import PoryModel.ParserStmts
import PorySpec.Basic
import PoryProofs.Properties.C02
/-
Helpers for C02 (precedence half), part 1: run-lemmas for the parser monad on a state whose token
list is known, the leaf forms of a condition, and `parseLeafBooleanExpression` on every leaf form.
Part 2 (reference grammar and the parse∘print induction) is `PoryProofs/BoolParse.lean`.

All run-lemmas are deliberately *not* `rfl`-lemmas (`id rfl`): when `simp` uses a `rfl`-lemma it
leaves no proof step behind and the kernel has to re-discover the reduction of the monadic code,
which costs tens of seconds per leaf.
-/
namespace Pory.C02P
open Pory Pory.Parser Pory.Spec

/-! ### `Except` / `StateT` plumbing -/
@[simp] theorem ex_map_ok {ε α β} (f : α → β) (a : α) :
    f <$> (Except.ok a : Except ε α) = .ok (f a) := id rfl
@[simp] theorem ex_map_err {ε α β} (f : α → β) (e : ε) :
    f <$> (Except.error e : Except ε α) = .error e := id rfl
@[simp] theorem ex_bind_ok {ε α β} (f : α → Except ε β) (a : α) :
    ((Except.ok a : Except ε α) >>= f) = f a := id rfl
@[simp] theorem ex_bind_err {ε α β} (f : α → Except ε β) (e : ε) :
    ((Except.error e : Except ε α) >>= f) = .error e := id rfl
@[simp] theorem ex_pure {ε α} (a : α) : (pure a : Except ε α) = .ok a := id rfl
@[simp] theorem run_fail {α} (e : PFail) (s : PState) : (fail e : PM α).run s = .error e := id rfl
@[simp] theorem run_throw {α} (e : PFail) (s : PState) : (throw e : PM α).run s = .error e := id rfl

/-- The state `s` with the token window replaced. -/
def st (s : PState) (l : List Tok) : PState := { s with toks := l }

@[simp] theorem st_toks (s : PState) (l : List Tok) : (st s l).toks = l := rfl
@[simp] theorem st_eof (s : PState) (l : List Tok) : (st s l).eof = s.eof := rfl
@[simp] theorem st_constants (s : PState) (l : List Tok) : (st s l).constants = s.constants := rfl
@[simp] theorem st_st (s : PState) (l l' : List Tok) : st (st s l) l' = st s l' := rfl
theorem st_self (s : PState) : st s s.toks = s := rfl

/-- `tryReplaceWithConstant` as a function. -/
def substC (cs : List (String × String)) (v : String) : String := (cs.lookup v).getD v

theorem substC_nil : substC [] = fun v => v := rfl

/-! ### the token window -/
@[simp] theorem run_cur (s : PState) : cur.run s = .ok (s.toks.headD s.eof, s) := id rfl
@[simp] theorem run_peekAt (n : Nat) (s : PState) :
    (peekAt n).run s = .ok (s.toks.getD n s.eof, s) := id rfl
@[simp] theorem run_peek (s : PState) : peek.run s = .ok (s.toks.getD 1 s.eof, s) := id rfl
@[simp] theorem run_peek2 (s : PState) : peek2.run s = .ok (s.toks.getD 2 s.eof, s) := id rfl
@[simp] theorem run_nextToken (s : PState) : nextToken.run s = .ok ((), st s s.toks.tail) := id rfl
@[simp] theorem run_curIs (t : TT) (s : PState) :
    (curIs t).run s = .ok ((s.toks.headD s.eof).type == t, s) := id rfl
@[simp] theorem run_peekIs (t : TT) (s : PState) :
    (peekIs t).run s = .ok ((s.toks.getD 1 s.eof).type == t, s) := id rfl
@[simp] theorem run_peek2Is (t : TT) (s : PState) :
    (peek2Is t).run s = .ok ((s.toks.getD 2 s.eof).type == t, s) := id rfl
@[simp] theorem run_tryReplace (v : String) (s : PState) :
    (tryReplaceWithConstant v).run s = .ok (substC s.constants v, s) := id rfl
@[simp] theorem run_expectPeek (t : TT) (s : PState) :
    (expectPeek t).run s =
      if (s.toks.getD 1 s.eof).type == t then .ok (true, st s s.toks.tail) else .ok (false, s) := by
  unfold expectPeek
  simp only [StateT.run_bind, run_peekIs, ex_bind_ok]
  cases (s.toks.getD 1 s.eof).type == t <;> simp

@[simp] theorem getD_one (a b : Tok) (l : List Tok) (d : Tok) : (a :: b :: l).getD 1 d = b := rfl
@[simp] theorem getD_two (a b c : Tok) (l : List Tok) (d : Tok) : (a :: b :: c :: l).getD 2 d = c := rfl

theorem joinSp_single (a : String) : joinSp [a] = a := by rfl

/-! ### tokens -/
/-- The six position fields of a token. -/
structure TPos where
  line : Nat := 0
  startChar : Nat := 0
  startUtf8 : Nat := 0
  endLine : Nat := 0
  endChar : Nat := 0
  endUtf8 : Nat := 0
  deriving DecidableEq, Repr, Inhabited

/-- A token with the given positions, type and literal. -/
def tkp (p : TPos) (t : TT) (l : String) : Tok :=
  { type := t, lit := l, line := p.line, startChar := p.startChar, startUtf8 := p.startUtf8,
    endLine := p.endLine, endChar := p.endChar, endUtf8 := p.endUtf8 }
@[simp] theorem tkp_type (p : TPos) (t : TT) (l : String) : (tkp p t l).type = t := rfl
@[simp] theorem tkp_lit (p : TPos) (t : TT) (l : String) : (tkp p t l).lit = l := rfl

/-- A token with all positions zero. -/
def tk (t : TT) (l : String) : Tok := tkp {} t l
@[simp] theorem tk_type (t : TT) (l : String) : (tk t l).type = t := rfl
@[simp] theorem tk_lit (t : TT) (l : String) : (tk t l).lit = l := rfl

/-- Every token is `tkp` of its fields. -/
theorem tok_eq_tkp (t : Tok) :
    t = tkp ⟨t.line, t.startChar, t.startUtf8, t.endLine, t.endChar, t.endUtf8⟩ t.type t.lit := rfl

/-- Tokens that may follow an operand inside a condition: `&&`, `||`, `)`. -/
def Follow (ts : List Tok) : Prop :=
  ∃ t tl, ts = t :: tl ∧ (t.type = .AND ∨ t.type = .OR ∨ t.type = .RPAREN)

theorem follow_cons (t : Tok) (tl : List Tok) (h : t.type = .AND ∨ t.type = .OR ∨ t.type = .RPAREN) :
    Follow (t :: tl) := ⟨t, tl, rfl, h⟩

/-! ### the operator part of a leaf -/

theorem flagOp_bare (e : OpExpr) (name : String) (s : PState) (rest : List Tok) (hf : Follow rest) :
    (parseConditionFlagLikeOperator e name).run (st s rest) =
      .ok ({ e with operator := .EQ, cmpValue := TT.TRUE.str }, st s rest) := by
  obtain ⟨t, tl, rfl, ht⟩ := hf
  unfold parseConditionFlagLikeOperator
  rcases ht with ht | ht | ht <;> simp [ht]

theorem flagOp_cmp (e : OpExpr) (name : String) (s : PState) (rest : List Tok) (eqv tv : Bool)
    (p1 p2 : TPos) (l1 l2 : String) :
    (parseConditionFlagLikeOperator e name).run
        (st s (tkp p1 (if eqv then .EQ else .NEQ) l1 :: tkp p2 (if tv then .TRUE else .FALSE) l2 :: rest)) =
      .ok ({ e with operator := if eqv then .EQ else .NEQ,
                    cmpValue := if tv then TT.TRUE.str else TT.FALSE.str }, st s rest) := by
  unfold parseConditionFlagLikeOperator
  cases eqv <;> cases tv <;> simp

/-- The six comparison operators of a `var` leaf. -/
inductive CmpOp | eq | neq | lt | lte | gt | gte
  deriving DecidableEq, Repr

def CmpOp.tt : CmpOp → TT
  | .eq => .EQ | .neq => .NEQ | .lt => .LT | .lte => .LTE | .gt => .GT | .gte => .GTE

def CmpOp.lit : CmpOp → String
  | .eq => "==" | .neq => "!=" | .lt => "<" | .lte => "<=" | .gt => ">" | .gte => ">="

/-- Comparison value of a `var` leaf: a single INT or IDENT token. -/
structure Val where
  isInt : Bool
  lit : String
  deriving DecidableEq, Repr

def Val.tok (p : TPos) (v : Val) : Tok := tkp p (if v.isInt then .INT else .IDENT) v.lit

theorem varOp_bare (e : OpExpr) (f : Nat) (s : PState) (rest : List Tok) (hf : Follow rest) :
    (parseConditionVarOperator e f).run (st s rest) =
      .ok ({ e with operator := .NEQ, cmpValue := "0" }, st s rest) := by
  obtain ⟨t, tl, rfl, ht⟩ := hf
  unfold parseConditionVarOperator
  rcases ht with ht | ht | ht <;> simp [ht]

theorem varOp_cmp (e : OpExpr) (f : Nat) (s : PState) (rest : List Tok) (op : CmpOp) (p1 p2 : TPos)
    (l1 : String) (v : Val) (hf : Follow rest) :
    (parseConditionVarOperator e (f + 2)).run (st s (tkp p1 op.tt l1 :: v.tok p2 :: rest)) =
      .ok ({ e with operator := op.tt, cmpValue := substC s.constants v.lit }, st s rest) := by
  obtain ⟨t, tl, rfl, ht⟩ := hf
  obtain ⟨isInt, lit⟩ := v
  unfold parseConditionVarOperator
  have h1 : (t.type = .RPAREN ∨ t.type = .AND) ∨ t.type = .OR := by
    rcases ht with ht | ht | ht <;> simp [ht]
  have h2 : ¬ t.type = .EOF := by
    rcases ht with ht | ht | ht <;> simp [ht]
  cases op <;> cases isInt <;>
    simp [CmpOp.tt, Val.tok, parseConditionVarOperator.collectUntilRange, h1, h2, joinSp_single]

/-! ### leaves -/

/-- The non-autovar leaf forms of a condition (operand and comparison value: one token each).
`ps k` is the position record of the `k`-th token of the leaf: the theorems hold for every
assignment of positions. -/
inductive Leaf
  | flagBare (ps : Nat → TPos) (defeated : Bool) (x : String)              -- `flag(X)` / `defeated(X)`
  | flagNot (ps : Nat → TPos) (defeated : Bool) (x : String)               -- `!flag(X)`
  | flagCmp (ps : Nat → TPos) (defeated : Bool) (x : String) (eqv tv : Bool)  -- `flag(X) ==|!= TRUE|FALSE`
  | varBare (ps : Nat → TPos) (x : String)                                 -- `var(X)`
  | varNot (ps : Nat → TPos) (x : String)                                  -- `!var(X)`
  | varCmp (ps : Nat → TPos) (x : String) (op : CmpOp) (n : Val)           -- `var(X) op N`

def kindTT (defeated : Bool) : TT := if defeated then .DEFEATED else .FLAG
def kindTok (p : TPos) (defeated : Bool) : Tok :=
  if defeated then tkp p .DEFEATED "defeated" else tkp p .FLAG "flag"
/-- `( X )` with the positions `ps i`, `ps (i+1)`, `ps (i+2)` -/
def operandToks (ps : Nat → TPos) (i : Nat) (x : String) : List Tok :=
  [tkp (ps i) .LPAREN "(", tkp (ps (i + 1)) .IDENT x, tkp (ps (i + 2)) .RPAREN ")"]

def printLeaf : Leaf → List Tok
  | .flagBare ps d x => kindTok (ps 0) d :: operandToks ps 1 x
  | .flagNot ps d x => tkp (ps 0) .NOT "!" :: kindTok (ps 1) d :: operandToks ps 2 x
  | .flagCmp ps d x eqv tv =>
      kindTok (ps 0) d :: operandToks ps 1 x ++
        [tkp (ps 4) (if eqv then .EQ else .NEQ) (if eqv then "==" else "!="),
         tkp (ps 5) (if tv then .TRUE else .FALSE) (if tv then "TRUE" else "FALSE")]
  | .varBare ps x => tkp (ps 0) .VAR "var" :: operandToks ps 1 x
  | .varNot ps x => tkp (ps 0) .NOT "!" :: tkp (ps 1) .VAR "var" :: operandToks ps 2 x
  | .varCmp ps x op n => tkp (ps 0) .VAR "var" :: operandToks ps 1 x ++ [tkp (ps 4) op.tt op.lit, n.tok (ps 5)]

/-- The `OpExpr` the parser builds for a leaf (`σ` = constant substitution). The operand token
keeps the positions of the written operand token. -/
def leafT (σ : String → String) : Leaf → OpExpr
  | .flagBare ps d x =>
      { type := kindTT d, operand := tkp (ps 2) .IDENT (σ x), operator := .EQ, cmpValue := TT.TRUE.str }
  | .flagNot ps d x =>
      { type := kindTT d, operand := tkp (ps 3) .IDENT (σ x), operator := .EQ, cmpValue := TT.FALSE.str }
  | .flagCmp ps d x eqv tv =>
      { type := kindTT d, operand := tkp (ps 2) .IDENT (σ x), operator := if eqv then .EQ else .NEQ,
        cmpValue := if tv then TT.TRUE.str else TT.FALSE.str }
  | .varBare ps x => { type := .VAR, operand := tkp (ps 2) .IDENT (σ x), operator := .NEQ, cmpValue := "0" }
  | .varNot ps x => { type := .VAR, operand := tkp (ps 3) .IDENT (σ x), operator := .EQ, cmpValue := "0" }
  | .varCmp ps x op n =>
      { type := .VAR, operand := tkp (ps 2) .IDENT (σ x), operator := op.tt, cmpValue := σ n.lit }

set_option maxRecDepth 2000 in
theorem parseLeaf_print (env : Env) (sn : String) (f : Nat) (s : PState) (pre : Tok) (lf : Leaf)
    (rest : List Tok) (hf : Follow rest) :
    (parseLeafBooleanExpression env sn (f + 2)).run (st s (pre :: printLeaf lf ++ rest)) =
      .ok ((leafT (substC s.constants) lf, {}), st s rest) := by
  cases lf with
  | flagBare ps d x =>
    cases d <;>
    simp [parseLeafBooleanExpression, peekTokenIsAutoVar, collectUntil, joinSp_single, printLeaf,
      kindTok, operandToks, flagOp_bare _ _ _ _ hf, leafT, kindTT, tkp]
  | flagNot ps d x =>
    cases d <;>
    simp [parseLeafBooleanExpression, peekTokenIsAutoVar, collectUntil, joinSp_single, printLeaf,
      kindTok, operandToks, leafT, kindTT, tkp]
  | flagCmp ps d x eqv tv =>
    cases d <;>
    simp [parseLeafBooleanExpression, peekTokenIsAutoVar, collectUntil, joinSp_single, printLeaf,
      kindTok, operandToks, flagOp_cmp, leafT, kindTT]
    <;> simp [tkp]
  | varBare ps x =>
    simp [parseLeafBooleanExpression, peekTokenIsAutoVar, collectUntil, joinSp_single, printLeaf,
      operandToks, varOp_bare _ _ _ _ hf, leafT, tkp]
  | varNot ps x =>
    simp [parseLeafBooleanExpression, peekTokenIsAutoVar, collectUntil, joinSp_single, printLeaf,
      operandToks, leafT, tkp]
  | varCmp ps x op n =>
    simp [parseLeafBooleanExpression, peekTokenIsAutoVar, collectUntil, joinSp_single, printLeaf,
      operandToks, varOp_cmp _ _ _ _ _ _ _ _ _ hf, leafT]
    simp [tkp]

end Pory.C02P
