import PoryProofs.Worklist
import PoryProofs.WorklistFuel
/-
Worklist proof, part 4: the worklist cannot fail on well-formed input.

* `ScopesWellFormed body` — every `break` lies inside a loop / switch with its scope id, every
  `continue` inside a loop with its scope id.  Invariant `ScopeOK`: every scope id free in a queued
  chunk is already registered in `brk` / `cont`; hence the lookups of `processChunk` succeed and the
  Go errors "could not emit 'break' / 'continue' statement because its return point is unknown" are
  unreachable (`no_unknown_return_point`).
* `BoolOpsOK body` — every binary operator in a condition is `&&` or `||`; otherwise `splitBool`
  panics (nil dereference in Go).  With both hypotheses `scriptChunks` succeeds
  (`scriptChunks_total`, using `scriptChunks_fuel` from WorklistFuel.lean); `emit_impl_total` is
  `emit_impl` with success derived instead of assumed.
* Conversely `BoolOpsOK` is a consequence of `Impl` (`impl_boolOps`: `ImplCond` only relates
  `&&` / `||` nodes), hence of success (`scriptChunks_ok_boolOps`, `scriptChunks_ok_iff`).
* `break_lookup_succeeds`, `continue_lookup_succeeds`, `ext_cx_brk`, `ext_cx_cont`: the lookup done
  when a `break` / `continue` is processed succeeds and yields the target `Impl.brk` / `Impl.cont`
  demand.
Nothing in this file is partial.
-/
namespace Pory.Emit
open Pory Pory.Sem

/-! ### well-scoped `break` / `continue` -/
mutual
def WFS : Stmt → List Nat → List Nat → Prop
  | .cmd _, _, _ => True
  | .label .., _, _ => True
  | .ite _ _ b es e, be, ce =>
    WFL b be ce ∧ WFE es be ce ∧ (match e with | some l => WFL l be ce | none => True)
  | .while_ _ sid _ b, be, ce => WFL b (sid :: be) (sid :: ce)
  | .doWhile _ sid _ b, be, ce => WFL b (sid :: be) (sid :: ce)
  | .brk _ sid, be, _ => sid ∈ be
  | .cont _ sid, _, ce => sid ∈ ce
  | .switch_ _ sid _ cs, be, ce => WFC cs (sid :: be) ce
def WFL : List Stmt → List Nat → List Nat → Prop
  | [], _, _ => True
  | s :: r, be, ce => WFS s be ce ∧ WFL r be ce
def WFE : List (BoolExpr × List Stmt) → List Nat → List Nat → Prop
  | [], _, _ => True
  | (_, b) :: r, be, ce => WFL b be ce ∧ WFE r be ce
def WFC : List SwitchCase → List Nat → List Nat → Prop
  | [], _, _ => True
  | (_, _, b) :: r, be, ce => WFL b be ce ∧ WFC r be ce
end

/-- every `break` / `continue` refers to an enclosing scope of the right kind -/
def ScopesWellFormed (body : List Stmt) : Prop := WFL body [] []

theorem wfs_ite (tok : Tok) (c : BoolExpr) (b : List Stmt) (es : List (BoolExpr × List Stmt))
    (e : Option (List Stmt)) (be ce : List Nat) : WFS (.ite tok c b es e) be ce ↔
      (WFL b be ce ∧ WFE es be ce ∧ (match e with | some l => WFL l be ce | none => True)) := by
  cases e <;> exact Iff.rfl
theorem wfl_cons (s : Stmt) (r : List Stmt) (be ce : List Nat) :
    WFL (s :: r) be ce ↔ (WFS s be ce ∧ WFL r be ce) := Iff.rfl
theorem wfe_cons (c : BoolExpr) (b : List Stmt) (r : List (BoolExpr × List Stmt)) (be ce : List Nat) :
    WFE ((c, b) :: r) be ce ↔ (WFL b be ce ∧ WFE r be ce) := Iff.rfl
theorem wfc_cons (v : Tok) (d : Bool) (b : List Stmt) (r : List SwitchCase) (be ce : List Nat) :
    WFC ((v, d, b) :: r) be ce ↔ (WFL b be ce ∧ WFC r be ce) := Iff.rfl

theorem WFL_append (a b : List Stmt) (be ce : List Nat) :
    WFL (a ++ b) be ce ↔ WFL a be ce ∧ WFL b be ce := by
  induction a with
  | nil => simp [WFL]
  | cons s r ih => simp [wfl_cons, ih, and_assoc]

theorem WFE_mem (be ce : List Nat) : ∀ (es : List (BoolExpr × List Stmt)), WFE es be ce →
    ∀ b ∈ es.map (·.2), WFL b be ce := by
  intro es
  induction es with
  | nil => intro _ b hb; simp at hb
  | cons e r ih =>
    obtain ⟨c, b0⟩ := e
    intro h b hb
    rw [wfe_cons] at h
    simp only [List.map_cons, List.mem_cons] at hb
    rcases hb with rfl | hb
    · exact h.1
    · exact ih h.2 b hb

theorem WFC_mem (be ce : List Nat) : ∀ (cs : List SwitchCase), WFC cs be ce →
    ∀ b ∈ cs.map (·.2.2), WFL b be ce := by
  intro cs
  induction cs with
  | nil => intro _ b hb; simp at hb
  | cons e r ih =>
    obtain ⟨v, d, b0⟩ := e
    intro h b hb
    rw [wfc_cons] at h
    simp only [List.map_cons, List.mem_cons] at hb
    rcases hb with rfl | hb
    · exact h.1
    · exact ih h.2 b hb

/-- the blocks inside a well-scoped statement are well scoped in the scopes it opens -/
theorem WFS_sub (x : Stmt) (be ce : List Nat) (h : WFS x be ce) :
    ∀ b ∈ subBlocks x, WFL b (scopeB x ++ be) (scopeC x ++ ce) := by
  intro b hb
  cases x with
  | cmd c => simp [subBlocks] at hb
  | label t n g => simp [subBlocks] at hb
  | brk t s => simp [subBlocks] at hb
  | cont t s => simp [subBlocks] at hb
  | ite tok c b0 es e =>
    rw [wfs_ite] at h
    simp only [subBlocks, List.mem_cons, List.mem_append] at hb
    simp only [scopeB, scopeC, List.nil_append]
    rcases hb with rfl | hb | hb
    · exact h.1
    · exact WFE_mem be ce es h.2.1 b hb
    · cases e with
      | none => simp at hb
      | some l => simp only [List.mem_singleton] at hb; subst hb; exact h.2.2
  | while_ tok sid c b0 =>
    simp only [subBlocks, List.mem_singleton] at hb; subst hb; exact h
  | doWhile tok sid c b0 =>
    simp only [subBlocks, List.mem_singleton] at hb; subst hb; exact h
  | switch_ tok sid o cs =>
    simp only [subBlocks] at hb
    exact WFC_mem _ _ cs h b hb

theorem scopeC_sub (x : Stmt) : ∀ s ∈ scopeC x, s ∈ scopeB x := by
  cases x <;> simp [scopeC, scopeB]

/-! ### the scope invariant -/

/-- every scope id free in the chunk is already registered -/
def ScopeOK (st : WS) (p : Chunk) : Prop :=
  ∃ be ce, WFL p.statements be ce ∧ (∀ s ∈ be, s ∈ st.brk.map (·.1)) ∧ (∀ s ∈ ce, s ∈ st.cont.map (·.1))

theorem ScopeOK.mono {st st1 : WS} {p : Chunk} (h : ScopeOK st p)
    (hb : ∀ s ∈ st.brk.map (·.1), s ∈ st1.brk.map (·.1))
    (hc : ∀ s ∈ st.cont.map (·.1), s ∈ st1.cont.map (·.1)) : ScopeOK st1 p := by
  obtain ⟨be, ce, h1, h2, h3⟩ := h
  exact ⟨be, ce, h1, fun s hs => hb s (h2 s hs), fun s hs => hc s (h3 s hs)⟩

section
variable {p : Chunk} {st0 st1 : WS} {nw : List Chunk} {ch : Chunk} {sc : List (Nat × Option Nat × Nat)}

theorem StepOut.brk_keys (so : StepOut p st0 st1 nw ch sc) :
    st1.brk.map (·.1) = sc.map (·.1) ++ st0.brk.map (·.1) := by
  rw [so.brk_eq, List.map_append, List.map_map]; rfl

theorem StepOut.cont_keys (so : StepOut p st0 st1 nw ch sc) :
    st1.cont.map (·.1) = sc.map (·.1) ++ st0.cont.map (·.1) := by
  rw [so.cont_eq, List.map_append, List.map_map]; rfl

theorem step_scope_old (so : StepOut p st0 st1 nw ch sc) {q : Chunk} (h : ScopeOK st0 q) :
    ScopeOK st1 q :=
  h.mono (fun s hs => by rw [so.brk_keys]; simp [hs]) (fun s hs => by rw [so.cont_keys]; simp [hs])

theorem step_scope_new (so : StepOut p st0 st1 nw ch sc) (h : ScopeOK st0 p) :
    ∀ q ∈ nw, ScopeOK st1 q := by
  intro q hq
  obtain ⟨be, ce, h1, h2, h3⟩ := h
  rcases so.nw_stmts q hq with he | ⟨pre, x, r, hst, hr⟩
  · exact ⟨[], [], by rw [he]; trivial, by simp, by simp⟩
  · rw [hst, WFL_append, wfl_cons] at h1
    rcases hr with hr | ⟨hr, hsc⟩
    · refine ⟨be, ce, by rw [hr]; exact h1.2.2, ?_, ?_⟩
      · intro s hs; rw [so.brk_keys]; simp [h2 s hs]
      · intro s hs; rw [so.cont_keys]; simp [h3 s hs]
    · refine ⟨scopeB x ++ be, scopeC x ++ ce, WFS_sub x be ce h1.2.1 _ hr, ?_, ?_⟩
      · intro s hs
        rw [so.brk_keys]
        rcases List.mem_append.1 hs with hs | hs
        · exact List.mem_append_left _ (hsc s hs)
        · exact List.mem_append_right _ (h2 s hs)
      · intro s hs
        rw [so.cont_keys]
        rcases List.mem_append.1 hs with hs | hs
        · exact List.mem_append_left _ (hsc s (scopeC_sub x s hs))
        · exact List.mem_append_right _ (h3 s hs)
end

/-! ### boolean operators -/

def CondOK : BoolExpr → Prop
  | .leaf _ => True
  | .bin l op r => (op = .AND ∨ op = .OR) ∧ CondOK l ∧ CondOK r

/-- the conditions directly attached to a statement -/
def condsOf : Stmt → List BoolExpr
  | .ite _ c _ es _ => c :: es.map (·.1)
  | .while_ _ _ (some c) _ => [c]
  | .doWhile _ _ c _ => [c]
  | _ => []

mutual
def CondsS : Stmt → Prop
  | .cmd _ => True
  | .label .. => True
  | .ite _ c b es e =>
    CondOK c ∧ CondsL b ∧ CondsE es ∧ (match e with | some l => CondsL l | none => True)
  | .while_ _ _ c b => (match c with | some c => CondOK c | none => True) ∧ CondsL b
  | .doWhile _ _ c b => CondOK c ∧ CondsL b
  | .brk .. => True
  | .cont .. => True
  | .switch_ _ _ _ cs => CondsC cs
def CondsL : List Stmt → Prop
  | [] => True
  | s :: r => CondsS s ∧ CondsL r
def CondsE : List (BoolExpr × List Stmt) → Prop
  | [] => True
  | (c, b) :: r => CondOK c ∧ CondsL b ∧ CondsE r
def CondsC : List SwitchCase → Prop
  | [] => True
  | (_, _, b) :: r => CondsL b ∧ CondsC r
end

/-- every binary operator in a condition is `&&` or `||` -/
def BoolOpsOK (body : List Stmt) : Prop := CondsL body

theorem condsS_ite (tok : Tok) (c : BoolExpr) (b : List Stmt) (es : List (BoolExpr × List Stmt))
    (e : Option (List Stmt)) : CondsS (.ite tok c b es e) ↔
      (CondOK c ∧ CondsL b ∧ CondsE es ∧ (match e with | some l => CondsL l | none => True)) := by
  cases e <;> exact Iff.rfl
theorem condsS_while (tok : Tok) (sid : Nat) (c : Option BoolExpr) (b : List Stmt) :
    CondsS (.while_ tok sid c b) ↔ ((match c with | some c => CondOK c | none => True) ∧ CondsL b) := by
  cases c <;> exact Iff.rfl
theorem condsL_cons (s : Stmt) (r : List Stmt) : CondsL (s :: r) ↔ (CondsS s ∧ CondsL r) := Iff.rfl
theorem condsE_cons (c : BoolExpr) (b : List Stmt) (r : List (BoolExpr × List Stmt)) :
    CondsE ((c, b) :: r) ↔ (CondOK c ∧ CondsL b ∧ CondsE r) := Iff.rfl
theorem condsC_cons (v : Tok) (d : Bool) (b : List Stmt) (r : List SwitchCase) :
    CondsC ((v, d, b) :: r) ↔ (CondsL b ∧ CondsC r) := Iff.rfl

theorem CondsL_append (a b : List Stmt) : CondsL (a ++ b) ↔ CondsL a ∧ CondsL b := by
  induction a with
  | nil => simp [CondsL]
  | cons s r ih => simp [condsL_cons, ih, and_assoc]

theorem CondsE_mem : ∀ (es : List (BoolExpr × List Stmt)), CondsE es →
    (∀ e ∈ es, CondOK e.1) ∧ ∀ b ∈ es.map (·.2), CondsL b := by
  intro es
  induction es with
  | nil => intro _; exact ⟨by simp, by simp⟩
  | cons e r ih =>
    obtain ⟨c, b0⟩ := e
    intro h
    rw [condsE_cons] at h
    obtain ⟨i1, i2⟩ := ih h.2.2
    refine ⟨?_, ?_⟩
    · intro e he
      simp only [List.mem_cons] at he
      rcases he with rfl | he
      · exact h.1
      · exact i1 e he
    · intro b hb
      simp only [List.map_cons, List.mem_cons] at hb
      rcases hb with rfl | hb
      · exact h.2.1
      · exact i2 b hb

theorem CondsC_mem : ∀ (cs : List SwitchCase), CondsC cs → ∀ b ∈ cs.map (·.2.2), CondsL b := by
  intro cs
  induction cs with
  | nil => intro _ b hb; simp at hb
  | cons e r ih =>
    obtain ⟨v, d, b0⟩ := e
    intro h b hb
    rw [condsC_cons] at h
    simp only [List.map_cons, List.mem_cons] at hb
    rcases hb with rfl | hb
    · exact h.1
    · exact ih h.2 b hb

theorem CondsS_sub (x : Stmt) (h : CondsS x) : ∀ b ∈ subBlocks x, CondsL b := by
  intro b hb
  cases x with
  | cmd c => simp [subBlocks] at hb
  | label t n g => simp [subBlocks] at hb
  | brk t s => simp [subBlocks] at hb
  | cont t s => simp [subBlocks] at hb
  | ite tok c b0 es e =>
    rw [condsS_ite] at h
    simp only [subBlocks, List.mem_cons, List.mem_append] at hb
    rcases hb with rfl | hb | hb
    · exact h.2.1
    · exact (CondsE_mem es h.2.2.1).2 b hb
    · cases e with
      | none => simp at hb
      | some l => simp only [List.mem_singleton] at hb; subst hb; exact h.2.2.2
  | while_ tok sid c b0 =>
    rw [condsS_while] at h
    simp only [subBlocks, List.mem_singleton] at hb; subst hb; exact h.2
  | doWhile tok sid c b0 =>
    simp only [subBlocks, List.mem_singleton] at hb; subst hb; exact h.2
  | switch_ tok sid o cs =>
    simp only [subBlocks] at hb
    exact CondsC_mem cs h b hb

/-- a property of statement lists inherited by the statements after a compound statement and by
the blocks inside it -/
structure Hereditary (H : List Stmt → Prop) : Prop where
  nil : H []
  tail : ∀ pre x r, H (pre ++ x :: r) → H r
  sub : ∀ pre x r b, H (pre ++ x :: r) → b ∈ subBlocks x → H b

theorem hereditary_true : Hereditary (fun _ => True) := ⟨trivial, fun _ _ _ _ => trivial, fun _ _ _ _ _ _ => trivial⟩

theorem hereditary_conds : Hereditary CondsL := by
  refine ⟨trivial, ?_, ?_⟩
  · intro pre x r h
    rw [CondsL_append, condsL_cons] at h; exact h.2.2
  · intro pre x r b h hb
    rw [CondsL_append, condsL_cons] at h; exact CondsS_sub x h.2.1 b hb

/-! ### which errors the builders can produce -/

def IsPanic (e : EFail) : Prop := ∃ m, e = .panic m

theorem condOK_bin (l : BoolExpr) (op : TT) (r : BoolExpr) :
    CondOK (.bin l op r) ↔ ((op = .AND ∨ op = .OR) ∧ CondOK l ∧ CondOK r) := Iff.rfl

theorem splitBool_error (e : BoolExpr) : ∀ (succ : Nat) (fail : Option Nat) (s : WS) (err : EFail),
    splitBool e succ fail s = .error err → IsPanic err ∧ ¬ CondOK e := by
  induction e with
  | leaf x => intro succ fail s err h; simp [splitBool] at h
  | bin l op r ihl ihr =>
    intro succ fail s err h
    rw [splitBool] at h
    split at h
    · simp only at h
      split at h
      · rename_i e1 hl
        injection h with h; subst h
        obtain ⟨p1, p2⟩ := ihl _ _ _ _ hl
        exact ⟨p1, fun hc => p2 ((condOK_bin _ _ _).1 hc).2.1⟩
      · rename_i s2 le hl
        split at h
        · rename_i e2 hr
          injection h with h; subst h
          obtain ⟨p1, p2⟩ := ihr _ _ _ _ hr
          exact ⟨p1, fun hc => p2 ((condOK_bin _ _ _).1 hc).2.2⟩
        · cases h
    · rename_i h1
      split at h
      · simp only at h
        split at h
        · rename_i e1 hl
          injection h with h; subst h
          obtain ⟨p1, p2⟩ := ihl _ _ _ _ hl
          exact ⟨p1, fun hc => p2 ((condOK_bin _ _ _).1 hc).2.1⟩
        · rename_i s2 le hl
          split at h
          · rename_i e2 hr
            injection h with h; subst h
            obtain ⟨p1, p2⟩ := ihr _ _ _ _ hr
            exact ⟨p1, fun hc => p2 ((condOK_bin _ _ _).1 hc).2.2⟩
          · cases h
      · rename_i h2
        injection h with h; subst h
        refine ⟨⟨_, rfl⟩, fun hc => ?_⟩
        rcases ((condOK_bin _ _ _).1 hc).1 with rfl | rfl
        · simp at h1
        · simp at h2

theorem splitElifs_error (lastFail : Option Nat) :
    ∀ (elifs : List (BoolExpr × List Stmt)) (ids : List Nat) (s : WS) (err : EFail),
    splitElifs elifs ids lastFail s = .error err → IsPanic err ∧ ¬ (∀ e ∈ elifs, CondOK e.1) := by
  intro elifs
  induction elifs with
  | nil => intro ids s err h; simp [splitElifs] at h
  | cons a restE ih =>
    intro ids s err h
    obtain ⟨c, b0⟩ := a
    cases ids with
    | nil => simp [splitElifs] at h
    | cons id restI =>
      rw [splitElifs] at h
      split at h
      · rename_i e1 h1
        injection h with h; subst h
        obtain ⟨p1, p2⟩ := ih _ _ _ h1
        exact ⟨p1, fun hc => p2 (fun e he => hc e (by simp [he]))⟩
      · rename_i s1 ne h1
        split at h
        · rename_i e2 h2
          injection h with h; subst h
          obtain ⟨p1, p2⟩ := splitBool_error _ _ _ _ _ h2
          exact ⟨p1, fun hc => p2 (hc (c, b0) (by simp))⟩
        · cases h

theorem createIf_error (cond : BoolExpr) (body : List Stmt) (elifs : List (BoolExpr × List Stmt))
    (els : Option (List Stmt)) (c : Chunk) (i : Nat) (s : WS) (err : EFail)
    (h : createIf cond body elifs els c i s = .error err) :
    IsPanic err ∧ ¬ (CondOK cond ∧ ∀ e ∈ elifs, CondOK e.1) := by
  rw [createIf_eq] at h
  unfold ifTail at h
  split at h
  · rename_i e1 h1
    injection h with h; subst h
    obtain ⟨p1, p2⟩ := splitElifs_error _ _ _ _ _ h1
    exact ⟨p1, fun hc => p2 hc.2⟩
  · rename_i s1 ac h1
    split at h
    · rename_i e2 h2
      injection h with h; subst h
      obtain ⟨p1, p2⟩ := splitBool_error _ _ _ _ _ h2
      exact ⟨p1, fun hc => p2 hc.1⟩
    · cases h

theorem createWhile_error (cond : Option BoolExpr) (body : List Stmt) (c : Chunk) (i : Nat) (s : WS)
    (err : EFail) (h : createWhile cond body c i s = .error err) :
    IsPanic err ∧ ¬ (∀ e, cond = some e → CondOK e) := by
  unfold createWhile at h
  simp only [alloc] at h
  cases cond with
  | none => simp at h
  | some e =>
    simp only at h
    split at h
    · rename_i e1 h1
      injection h with h; subst h
      obtain ⟨p1, p2⟩ := splitBool_error _ _ _ _ _ h1
      exact ⟨p1, fun hc => p2 (hc e rfl)⟩
    · cases h

theorem createDoWhile_error (cond : BoolExpr) (body : List Stmt) (c : Chunk) (i : Nat) (s : WS)
    (err : EFail) (h : createDoWhile cond body c i s = .error err) :
    IsPanic err ∧ ¬ CondOK cond := by
  unfold createDoWhile at h
  simp only [alloc] at h
  split at h
  · rename_i e1 h1
    injection h with h; subst h
    exact splitBool_error _ _ _ _ _ h1
  · cases h

/-- **`processChunk` on a well-scoped chunk fails only by panicking on a bad operator**; in
particular the `break` / `continue` lookups succeed -/
theorem process_error (p : Chunk) (st0 : WS) (err : EFail) (hs : ScopeOK st0 p)
    (h : processChunk p st0 = .error err) : IsPanic err ∧ ¬ CondsL p.statements := by
  unfold processChunk at h
  generalize hscan : scanSimple p.statements 0 p.statements.length = scn at h
  obtain ⟨i, fin⟩ := scn
  obtain ⟨pre, rest, hst, hsim, hi, hcase⟩ := scan_facts p i fin hscan
  subst hi
  simp only at h
  rcases hcase with ⟨rfl, hrest⟩ | ⟨c, rfl, rfl, hname⟩
  · simp only at h
    rcases hrest with rfl | ⟨x, r, rfl, hx⟩
    · have hlen : pre.length = p.statements.length := by rw [hst]; simp
      rw [if_pos (by simp [hlen])] at h
      cases h
    · have hne : ¬ ((pre.length == p.statements.length) = true) := by
        have : pre.length < p.statements.length := by rw [hst]; simp
        simp; omega
      have hget : p.statements[pre.length]? = some x := by rw [hst]; simp
      rw [if_neg hne] at h
      simp only [hget] at h
      obtain ⟨be, ce, hwf, hbe, hce⟩ := hs
      rw [hst, WFL_append, wfl_cons] at hwf
      have hcx : CondsL p.statements → CondsS x := by
        intro hc; rw [hst, CondsL_append, condsL_cons] at hc; exact hc.2.1
      cases x with
      | cmd c => cases h
      | label t n g => cases h
      | ite tok cond body elifs els =>
        simp only at h
        split at h
        · rename_i e1 h1
          injection h with h; subst h
          obtain ⟨p1, p2⟩ := createIf_error _ _ _ _ _ _ _ _ h1
          refine ⟨p1, fun hc => p2 ?_⟩
          have := (condsS_ite _ _ _ _ _).1 (hcx hc)
          exact ⟨this.1, (CondsE_mem elifs this.2.2.1).1⟩
        · cases h
      | while_ tok sid cond body =>
        simp only at h
        split at h
        · rename_i e1 h1
          injection h with h; subst h
          obtain ⟨p1, p2⟩ := createWhile_error _ _ _ _ _ _ h1
          refine ⟨p1, fun hc => p2 ?_⟩
          intro e he; subst he
          exact ((condsS_while _ _ _ _).1 (hcx hc)).1
        · cases h
      | doWhile tok sid cond body =>
        simp only at h
        split at h
        · rename_i e1 h1
          injection h with h; subst h
          obtain ⟨p1, p2⟩ := createDoWhile_error _ _ _ _ _ _ h1
          exact ⟨p1, fun hc => p2 (hcx hc).1⟩
        · cases h
      | brk tok sid =>
        simp only at h
        split at h
        · rename_i hl
          exfalso
          obtain ⟨v, hv⟩ := lookup_isSome_of_mem (hbe sid hwf.2.1)
          rw [hv] at hl; cases hl
        · cases h
      | cont tok sid =>
        simp only at h
        split at h
        · rename_i hl
          exfalso
          obtain ⟨v, hv⟩ := lookup_isSome_of_mem (hce sid hwf.2.1)
          rw [hv] at hl; cases hl
        · cases h
      | switch_ tok sid operand cases => cases h
  · cases h


/-! ### `break` / `continue`: the lookup succeeds and yields the target `Impl` demands -/

theorem break_lookup_succeeds {st : WS} {p : Chunk} (hs : ScopeOK st p) {pre r : List Stmt} {tok : Tok}
    {sid : Nat} (hst : p.statements = pre ++ .brk tok sid :: r) :
    ∃ dest, st.brk.lookup sid = some dest := by
  obtain ⟨be, ce, hwf, hbe, _⟩ := hs
  rw [hst, WFL_append, wfl_cons] at hwf
  exact lookup_isSome_of_mem (hbe sid hwf.2.1)

theorem continue_lookup_succeeds {st : WS} {p : Chunk} (hs : ScopeOK st p) {pre r : List Stmt}
    {tok : Tok} {sid : Nat} (hst : p.statements = pre ++ .cont tok sid :: r) :
    ∃ dest, st.cont.lookup sid = some dest := by
  obtain ⟨be, ce, hwf, _, hce⟩ := hs
  rw [hst, WFL_append, wfl_cons] at hwf
  exact lookup_isSome_of_mem (hce sid hwf.2.1)

/-- the target found when the `break` is processed is the one the final context reports
(`Impl.brk` demands `ch.branch = .breakCtx (cx.brk sid)`) -/
theorem ext_cx_brk {st st' : WS} (h : Ext st st') {sid : Nat} {dest : Option Nat}
    (hl : st.brk.lookup sid = some dest) : st'.cx.brk sid = dest := by
  simp [WS.cx, h.brk _ _ hl]

theorem ext_cx_cont {st st' : WS} (h : Ext st st') {sid dest : Nat}
    (hl : st.cont.lookup sid = some dest) : st'.cx.cont sid = some dest := by
  simp [WS.cx, h.cont _ _ hl]

/-! ### the whole run -/

/-- A run on a well-scoped queue fails only by running out of fuel or with an error `E` that
`processChunk` can produce on chunks satisfying the hereditary property `H`. -/
theorem run_error (H : List Stmt → Prop) (hH : Hereditary H) (E : EFail → Prop)
    (hE : ∀ p st0 err, ScopeOK st0 p → H p.statements → processChunk p st0 = .error err → E err) :
    ∀ (f : Nat) (st : WS) (err : EFail),
      (∀ p ∈ st.queue, QOK p ∧ ScopeOK st p ∧ H p.statements) →
      runWorklist f st = .error err → err = .outOfFuel ∨ E err := by
  intro f
  induction f with
  | zero =>
    intro st err _ h
    simp only [runWorklist] at h
    injection h with h; exact .inl h.symm
  | succ f ih =>
    intro st err hinv h
    rw [runWorklist_succ] at h
    cases hq : st.queue with
    | nil => simp [hq] at h
    | cons p q =>
      simp only [hq] at h
      obtain ⟨hqok, hsc, hHp⟩ := hinv p (by simp [hq])
      have hsc0 : ScopeOK { st with queue := q } p := hsc
      cases hp : processChunk p { st with queue := q } with
      | error e =>
        simp only [hp] at h
        injection h with h; subst h
        exact .inr (hE p _ e hsc0 hHp hp)
      | ok st1 =>
        simp only [hp] at h
        obtain ⟨nw, ch, sc, so⟩ := process_spec p _ st1 hqok hp
        apply ih st1 err ?_ h
        intro x hx
        rw [so.queue_eq] at hx
        simp only [List.mem_append] at hx
        rcases hx with hx | hx
        · obtain ⟨a1, a2, a3⟩ := hinv x (by simp [hq, hx])
          exact ⟨a1, step_scope_old so (show ScopeOK { st with queue := q } x from a2), a3⟩
        · refine ⟨so.nw_qok x hx, step_scope_new so hsc0 x hx, ?_⟩
          rcases so.nw_stmts x hx with he | ⟨pre, y, r, hst, hr⟩
          · rw [he]; exact hH.nil
          · rw [hst] at hHp
            rcases hr with hr | ⟨hr, _⟩
            · rw [hr]; exact hH.tail pre y r hHp
            · exact hH.sub pre y r _ hHp hr

theorem scopeOK_init (body : List Stmt) (hw : ScopesWellFormed body) (st : WS) :
    ScopeOK st { id := 0, statements := body } :=
  ⟨[], [], hw, by simp, by simp⟩

/-- On well-scoped input `scriptChunks` fails only by panicking. -/
theorem scriptChunks_error_panic (body : List Stmt) (hw : ScopesWellFormed body) (err : EFail)
    (h : scriptChunks body = .error err) : IsPanic err := by
  have hfuel := scriptChunks_fuel body
  unfold scriptChunks at h
  split at h
  · rename_i e he
    injection h with h; subst h
    have := run_error (fun _ => True) hereditary_true IsPanic
      (fun p st0 err hs _ hp => (process_error p st0 err hs hp).1) _ _ e
      (by
        intro p hp
        simp only [List.mem_singleton] at hp; subst hp
        exact ⟨IsCode.qok ⟨rfl, rfl⟩, scopeOK_init body hw _, trivial⟩) he
    rcases this with rfl | this
    · exfalso; apply hfuel; unfold scriptChunks; rw [he]
    · exact this
  · cases h

/-- **The Go errors "could not emit 'break' / 'continue' statement because its return point is
unknown" (and every other `errors.New`-style error) are unreachable on well-scoped input.** -/
theorem no_unknown_return_point (body : List Stmt) (hw : ScopesWellFormed body) (m : String) :
    scriptChunks body ≠ .error (.plain m) := by
  intro h
  obtain ⟨m', hm⟩ := scriptChunks_error_panic body hw _ h
  cases hm

/-- **Totality**: on well-scoped input whose conditions only use `&&` / `||`, the worklist
terminates within its fuel and produces a chunk table. -/
theorem scriptChunks_total (body : List Stmt) (hw : ScopesWellFormed body) (hb : BoolOpsOK body) :
    ∃ chunks, scriptChunks body = .ok chunks := by
  cases h : scriptChunks body with
  | ok chunks => exact ⟨chunks, rfl⟩
  | error err =>
    exfalso
    have hfuel := scriptChunks_fuel body
    unfold scriptChunks at h
    split at h
    · rename_i e he
      injection h with h; subst h
      have := run_error CondsL hereditary_conds (fun _ => False)
        (fun p st0 err hs hc hp => (process_error p st0 err hs hp).2 hc) _ _ e
        (by
          intro p hp
          simp only [List.mem_singleton] at hp; subst hp
          exact ⟨IsCode.qok ⟨rfl, rfl⟩, scopeOK_init body hw _, hb⟩) he
      rcases this with rfl | this
      · apply hfuel; unfold scriptChunks; rw [he]
      · exact this
    · cases h

/-- `emit_impl` with success derived instead of assumed. -/
theorem emit_impl_total (body : List Stmt) (hw : ScopesWellFormed body) (hb : BoolOpsOK body)
    (hs : ScopeIdsDistinct body) (hd : OneDefaultL body) :
    ∃ chunks cx, scriptChunks body = .ok chunks ∧ Sem.Impl chunks cx 0 0 body none := by
  obtain ⟨chunks, h⟩ := scriptChunks_total body hw hb
  obtain ⟨cx, hcx⟩ := emit_impl body chunks hs hd h
  exact ⟨chunks, cx, h, hcx⟩

/-! ### `BoolOpsOK` is a consequence of the compilation relation (hence of success) -/

theorem implCond_condOK {G : List Chunk} (c : BoolExpr) : ∀ (e t : Nat) (f : Option Nat),
    ImplCond G e c t f → CondOK c := by
  induction c with
  | leaf x => intro _ _ _ _; trivial
  | bin a op b iha ihb =>
    intro e t f h
    rw [ImplCond] at h
    rw [condOK_bin]
    rcases h with ⟨hop, s, eb, h1, _, h2⟩ | ⟨hop, fc, eb, h1, _, h2⟩
    · exact ⟨.inl hop, iha _ _ _ h1, ihb _ _ _ h2⟩
    · exact ⟨.inr hop, iha _ _ _ h1, ihb _ _ _ h2⟩

theorem CondsE_of_index : ∀ (es : List (BoolExpr × List Stmt)),
    (∀ i (hi : i < es.length), CondOK (es[i]).1 ∧ CondsL (es[i]).2) → CondsE es := by
  intro es
  induction es with
  | nil => intro _; trivial
  | cons e r ih =>
    obtain ⟨c, b⟩ := e
    intro h
    rw [condsE_cons]
    have h0 := h 0 (by simp)
    refine ⟨h0.1, h0.2, ih (fun i hi => ?_)⟩
    have := h (i + 1) (by simpa using hi)
    simpa using this

theorem CondsC_of_index : ∀ (cs : List SwitchCase),
    (∀ i (hi : i < cs.length), CondsL (cs[i]).2.2) → CondsC cs := by
  intro cs
  induction cs with
  | nil => intro _; trivial
  | cons e r ih =>
    obtain ⟨v, d, b⟩ := e
    intro h
    rw [condsC_cons]
    refine ⟨h 0 (by simp), ih (fun i hi => ?_)⟩
    have := h (i + 1) (by simpa using hi)
    simpa using this

/-- every condition below a compiled statement list only uses `&&` / `||` -/
theorem impl_boolOps {G : List Chunk} {cx : Ctx} {k o : Nat} {ss : List Stmt} {ret : Option Nat}
    (h : Impl G cx k o ss ret) : CondsL ss := by
  induction h with
  | nil => trivial
  | endLast => exact ⟨trivial, trivial⟩
  | cmd _ _ _ ih => exact ⟨trivial, ih⟩
  | label _ _ _ ih => exact ⟨trivial, ih⟩
  | @ite k o tok c t elifs els rest ret ch post p entries bodies elseId elseTarget _ _ _ hrest hle hlb _
      hconds _ _ _ _ ihrest ihbodies ihelse =>
    have hr : CondsL rest := by
      cases rest with
      | nil => trivial
      | cons a b => exact ihrest (by simp)
    rw [condsL_cons, condsS_ite]
    have harm : ∀ i (hi : i < ((c, t) :: elifs).length),
        CondOK (((c, t) :: elifs)[i]).1 ∧ CondsL (((c, t) :: elifs)[i]).2 := by
      intro i hi
      have he : entries[i]? = some (entries[i]'(by rw [hle]; exact hi)) := List.getElem?_eq_getElem _
      have hb : bodies[i]? = some (bodies[i]'(by rw [hlb]; exact hi)) := List.getElem?_eq_getElem _
      exact ⟨implCond_condOK _ _ _ _ (hconds i hi _ _ he hb), ihbodies i hi _ hb⟩
    have h0 := harm 0 (by simp)
    refine ⟨⟨h0.1, h0.2, CondsE_of_index elifs (fun i hi => ?_), ?_⟩, hr⟩
    · have := harm (i + 1) (by simpa using hi)
      simpa using this
    · cases els with
      | none => trivial
      | some eb => exact ihelse eb rfl
  | @whileInf k o tok sid b rest ret ch hd post bId p _ _ _ _ hrest _ _ _ _ ihrest ihb =>
    have hr : CondsL rest := by
      cases rest with
      | nil => trivial
      | cons a b => exact ihrest (by simp)
    exact ⟨(condsS_while _ _ _ _).2 ⟨trivial, ihb⟩, hr⟩
  | @while_ k o tok sid cc b rest ret ch hd post bId e0 p _ _ _ _ hrest _ _ _ _ hc ihrest ihb =>
    have hr : CondsL rest := by
      cases rest with
      | nil => trivial
      | cons a b => exact ihrest (by simp)
    exact ⟨(condsS_while _ _ _ _).2 ⟨implCond_condOK _ _ _ _ hc, ihb⟩, hr⟩
  | @doWhile k o tok sid cc b rest ret ch hd post bId e0 p _ _ _ _ hrest _ _ _ _ hc ihrest ihb =>
    have hr : CondsL rest := by
      cases rest with
      | nil => trivial
      | cons a b => exact ihrest (by simp)
    exact ⟨⟨implCond_condOK _ _ _ _ hc, ihb⟩, hr⟩
  | @brk k o tok sid rest ret ch p _ _ _ hrest ihrest =>
    have hr : CondsL rest := by
      cases rest with
      | nil => trivial
      | cons a b => exact ihrest (by simp)
    exact ⟨trivial, hr⟩
  | @cont k o tok sid rest ret ch p _ _ _ hrest ihrest =>
    have hr : CondsL rest := by
      cases rest with
      | nil => trivial
      | cons a b => exact ihrest (by simp)
    exact ⟨trivial, hr⟩
  | @switchEmpty k o tok sid operand cases rest ret ch post swId sw p _ _ _ _ hrest _ hall _ _ _ _ _ ihrest =>
    have hr : CondsL rest := by
      cases rest with
      | nil => trivial
      | cons a b => exact ihrest (by simp)
    refine ⟨CondsC_of_index cases (fun i hi => ?_), hr⟩
    rw [hall _ (List.getElem_mem hi)]; trivial
  | @switch_ k o tok sid operand cases rest ret ch post swId sw bodyIds0 emptyId p _ _ _ _ hrest _ hlen hiff
      _ _ _ _ _ _ _ ihrest ihbodies _ =>
    have hr : CondsL rest := by
      cases rest with
      | nil => trivial
      | cons a b => exact ihrest (by simp)
    refine ⟨CondsC_of_index cases (fun i hi => ?_), hr⟩
    have hb : bodyIds0[i]? = some (bodyIds0[i]'(by rw [hlen]; exact hi)) := List.getElem?_eq_getElem _
    cases hx : bodyIds0[i]'(by rw [hlen]; exact hi) with
    | none => rw [hx] at hb; rw [(hiff i hi).1 hb]; trivial
    | some b => rw [hx] at hb; exact ihbodies i hi b hb

/-- `BoolOpsOK` need not be assumed: it follows from the success of `scriptChunks`. -/
theorem scriptChunks_ok_boolOps (body : List Stmt) (chunks : List Chunk) (hs : ScopeIdsDistinct body)
    (hd : OneDefaultL body) (h : scriptChunks body = .ok chunks) : BoolOpsOK body := by
  obtain ⟨cx, hcx⟩ := emit_impl body chunks hs hd h
  exact impl_boolOps hcx

/-- On well-formed input, `scriptChunks` succeeds exactly when the conditions only use `&&` / `||`. -/
theorem scriptChunks_ok_iff (body : List Stmt) (hw : ScopesWellFormed body)
    (hs : ScopeIdsDistinct body) (hd : OneDefaultL body) :
    (∃ chunks, scriptChunks body = .ok chunks) ↔ BoolOpsOK body :=
  ⟨fun ⟨chunks, h⟩ => scriptChunks_ok_boolOps body chunks hs hd h,
   fun hb => scriptChunks_total body hw hb⟩

theorem demo_wellFormed : ScopesWellFormed demoBody := by
  unfold ScopesWellFormed demoBody
  repeat' (first | decide | constructor)
theorem demo_boolOps : BoolOpsOK demoBody := by
  unfold BoolOpsOK demoBody
  repeat' (first | decide | constructor)

/-- non-vacuity: all four hypotheses hold for `demoBody` -/
example : ∃ chunks cx, scriptChunks demoBody = .ok chunks ∧ Sem.Impl chunks cx 0 0 demoBody none :=
  emit_impl_total demoBody demo_wellFormed demo_boolOps demo_scopes demo_oneDefault

#print axioms no_unknown_return_point
#print axioms scriptChunks_total
#print axioms emit_impl_total
#print axioms scriptChunks_ok_iff

end Pory.Emit
