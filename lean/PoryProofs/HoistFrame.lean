import PoryProofs.ParserConsts
import PoryProofs.ParserScopesTop
/-
Frame lemma for the hoisting fields of the parser state (helper module of C06c).

`hz7 s` collects the seven fields written by `addImplicitData` (`inlineTexts`, `inlineTextsSet`,
`inlineTextCounts`, `inlineMovements`, `inlineMovementsSet`, `inlineMovementCounts`, `patches`);
`hz s` adds `textStatements`.  `KH m`: the parser action `m` leaves all eight fields unchanged.

* `khAll` : the 13 mutually recursive statement functions (and, through `Frame.kh`, every function they
  call) are `KH`;
* `kh_parseScriptStatement`, `kh_parseMapscriptsStatement`, `kh_parseConstant`, … : the top-level
  statement functions; `parseTextStatement` keeps `hz7` and appends to `textStatements`.
-/
namespace Pory.Parser
open Pory

/-- The seven hoisting fields. -/
def hz7 (s : PState) :=
  (s.inlineTexts, s.inlineTextsSet, s.inlineTextCounts, s.inlineMovements, s.inlineMovementsSet,
   s.inlineMovementCounts, s.patches)

/-- The hoisting fields and the list of `text` statements. -/
def hz (s : PState) := (hz7 s, s.textStatements)

@[simp] theorem hz_upd (s : PState) (l : List Tok) (k : Nat) : hz (upd s l k) = hz s := id rfl
@[simp] theorem hz_setSid (s : PState) (n : Nat) : hz (setSid s n) = hz s := id rfl
@[simp] theorem hz_setB (s : PState) (B : List Nat) : hz (setB s B) = hz s := id rfl
@[simp] theorem hz_setC (s : PState) (C : List Nat) : hz (setC s C) = hz s := id rfl

theorem hz7_of_hz {s s' : PState} (h : hz s' = hz s) : hz7 s' = hz7 s := congrArg Prod.fst h

/-- `m` leaves the hoisting tables, counters, patches and `textStatements` unchanged. -/
def KH {α} (m : PM α) : Prop := ∀ s, wp m s (fun _ s' => hz s' = hz s)

theorem KH.wp_iff {α} {m : PM α} (hm : KH m) (s : PState) (Q : α → PState → Prop) :
    wp m s Q ↔ ∀ a s', m.run s = .ok (a, s') → hz s' = hz s → Q a s' :=
  wp_spec (hm s) Q

theorem Frame.kh {α} {m : PM α} (hf : Frame m) : KH m := by
  intro s a s' hr
  obtain ⟨l, c, rfl⟩ := hf s a s' hr
  rfl

/-- Symbolic execution, then close the leaves: chains of equalities between `hz` values. -/
syntax "hfin" (" [" Lean.Parser.Tactic.simpLemma,* "]")? : tactic
macro_rules
  | `(tactic| hfin) => `(tactic| repeat' (first | (exact True.intro) | rfl | (with_reducible intro _) | (swp [hz_upd, hz_setSid, hz_setB, hz_setC]) | (split) | (simp_all; done)))
  | `(tactic| hfin [$ts,*]) => `(tactic| repeat' (first | (exact True.intro) | rfl | (with_reducible intro _) | (swp [hz_upd, hz_setSid, hz_setB, hz_setC, $ts,*]) | (split) | (simp_all; done)))

/-- Every function of the statement block keeps the hoisting fields, at fuel `n`. -/
structure KHAll (n : Nat) : Prop where
  block : ∀ env sn tok acc imp, KH (parseBlockStatement env sn tok n acc imp)
  swblock : ∀ env sn tok acc imp, KH (parseSwitchBlockStatement env sn tok n acc imp)
  stmt : ∀ env sn, KH (parseStatement env sn n)
  cond : ∀ env sn req, KH (parseConditionExpression env sn req n)
  elifs : ∀ env sn acc imp, KH (parseElifs env sn n acc imp)
  ifs : ∀ env sn, KH (parseIfStatement env sn n)
  whiles : ∀ env sn, KH (parseWhileStatement env sn n)
  doWhiles : ∀ env sn, KH (parseDoWhileStatement env sn n)
  cases : ∀ env sn tok cs vals hd imp, KH (parseSwitchCases env sn tok n cs vals hd imp)
  switch : ∀ env sn, KH (parseSwitchStatement env sn n)
  pory : ∀ env sn, KH (parsePoryswitchStatement env sn n)
  poryCases : ∀ env sn tok acc, KH (parsePoryswitchStatementCases env sn tok n acc)
  poryStmts : ∀ env sn am acc imp, KH (parsePoryswitchStatements env sn am n acc imp)

theorem khAll_zero : KHAll 0 :=
  { block := by intros; intro s; rw [parseBlockStatement]; swp
    swblock := by intros; intro s; rw [parseSwitchBlockStatement]; swp
    stmt := by intros; intro s; rw [parseStatement]; swp
    cond := by intros; intro s; rw [parseConditionExpression]; swp
    elifs := by intros; intro s; rw [parseElifs]; swp
    ifs := by intros; intro s; rw [parseIfStatement]; swp
    whiles := by intros; intro s; rw [parseWhileStatement]; swp
    doWhiles := by intros; intro s; rw [parseDoWhileStatement]; swp
    cases := by intros; intro s; rw [parseSwitchCases]; swp
    switch := by intros; intro s; rw [parseSwitchStatement]; swp
    pory := by intros; intro s; rw [parsePoryswitchStatement]; swp
    poryCases := by intros; intro s; rw [parsePoryswitchStatementCases]; swp
    poryStmts := by intros; intro s; rw [parsePoryswitchStatements]; swp }

theorem khAll_succ {n : Nat} (ih : KHAll n) : KHAll (n + 1) :=
  { block := by
      intro env sn tok acc imp s
      rw [parseBlockStatement]
      hfin [(ih.stmt _ _).wp_iff, (ih.block _ _ _ _ _).wp_iff]
    swblock := by
      intro env sn tok acc imp s
      rw [parseSwitchBlockStatement]
      hfin [(ih.stmt _ _).wp_iff, (ih.swblock _ _ _ _ _).wp_iff]
    stmt := by
      intro env sn s
      rw [parseStatement]
      hfin [(ih.ifs _ _).wp_iff, (ih.whiles _ _).wp_iff, (ih.doWhiles _ _).wp_iff, (ih.switch _ _).wp_iff,
        (ih.pory _ _).wp_iff, frame_tryParseLabelStatement.wp_iff,
        (frame_parseCommandStatement _ _ _).wp_iff]
    cond := by
      intro env sn req s
      rw [parseConditionExpression]
      hfin [(ih.block _ _ _ _ _).wp_iff, (frame_parseBooleanExpression _ _ _ _ _).wp_iff]
    elifs := by
      intro env sn acc imp s
      rw [parseElifs]
      hfin [(ih.cond _ _ _).wp_iff, (ih.elifs _ _ _ _).wp_iff]
    ifs := by
      intro env sn s
      rw [parseIfStatement]
      hfin [(ih.cond _ _ _).wp_iff, (ih.elifs _ _ _ _).wp_iff, (ih.block _ _ _ _ _).wp_iff]
    whiles := by
      intro env sn s
      rw [parseWhileStatement]
      hfin [(ih.cond _ _ _).wp_iff]
    doWhiles := by
      intro env sn s
      rw [parseDoWhileStatement]
      hfin [(ih.block _ _ _ _ _).wp_iff, (frame_parseBooleanExpression _ _ _ _ _).wp_iff]
    cases := by
      intro env sn tok cs vals hd imp s
      rw [parseSwitchCases]
      hfin [(ih.swblock _ _ _ _ _).wp_iff, (ih.cases _ _ _ _ _ _ _).wp_iff,
        (frame_collectUntil _ _ _ _).wp_iff]
    switch := by
      intro env sn s
      rw [parseSwitchStatement]
      hfin [(ih.cases _ _ _ _ _ _ _).wp_iff, (frame_expectPeekVarOrAutoVar _ _ _).wp_iff,
        (frame_switchOperandLoop _ _ _).wp_iff]
    pory := by
      intro env sn s
      rw [parsePoryswitchStatement]
      hfin [(ih.poryCases _ _ _ _).wp_iff, (frame_parsePoryswitchHeader _).wp_iff]
    poryCases := by
      intro env sn tok acc s
      rw [parsePoryswitchStatementCases]
      hfin [(ih.poryStmts _ _ _ _ _).wp_iff, (ih.poryCases _ _ _ _).wp_iff]
    poryStmts := by
      intro env sn am acc imp s
      rw [parsePoryswitchStatements]
      hfin [(ih.stmt _ _).wp_iff, (ih.pory _ _).wp_iff, (ih.poryStmts _ _ _ _ _).wp_iff] }

theorem khAll : ∀ n : Nat, KHAll n
  | 0 => khAll_zero
  | n + 1 => khAll_succ (khAll n)

theorem kh_parseBlockStatement (env : Env) (sn : String) (tok : Tok) (n : Nat) (acc : List Stmt)
    (imp : ImpData) : KH (parseBlockStatement env sn tok n acc imp) :=
  (khAll n).block env sn tok acc imp

/-! ### top-level statement functions -/

theorem kh_parseScriptStatement (env : Env) (fuel : Nat) : KH (parseScriptStatement env fuel) := by
  intro s
  unfold parseScriptStatement
  hfin [(frame_parseScopeModifier _).wp_iff, (kh_parseBlockStatement _ _ _ _ _ _).wp_iff]

theorem kh_parseTableEntries (env : Env) (ms ty : String) : ∀ (n i : Nat) (acc : List TableEntry)
    (imp : ImpData), KH (parseTableEntries env ms ty n i acc imp) := by
  intro n
  induction n with
  | zero => intro i acc imp s; rw [parseTableEntries]; swp
  | succ n ih =>
    intro i acc imp s
    rw [parseTableEntries]
    hfin [(frame_tableCollect _ _ _ _).wp_iff, (kh_parseBlockStatement _ _ _ _ _ _).wp_iff,
      (ih _ _ _).wp_iff]

theorem kh_parseMapScriptEntries (env : Env) (ms : String) : ∀ (n : Nat) (mss : List MapScript)
    (tables : List TableMapScript) (imp : ImpData), KH (parseMapScriptEntries env ms n mss tables imp) := by
  intro n
  induction n with
  | zero => intro mss tables imp s; rw [parseMapScriptEntries]; swp
  | succ n ih =>
    intro mss tables imp s
    rw [parseMapScriptEntries]
    hfin [(kh_parseBlockStatement _ _ _ _ _ _).wp_iff, (kh_parseTableEntries _ _ _ _ _ _ _).wp_iff,
      (ih _ _ _).wp_iff]

theorem kh_parseMapscriptsStatement (env : Env) (fuel : Nat) : KH (parseMapscriptsStatement env fuel) := by
  intro s
  unfold parseMapscriptsStatement
  hfin [(frame_parseScopeModifier _).wp_iff, (kh_parseMapScriptEntries _ _ _ _ _ _).wp_iff]

/-- `const` statements write `constants` only. -/
theorem kh_parseConstant (fuel : Nat) : KH (parseConstant fuel) := by
  intro s
  unfold parseConstant
  hfin [(frame_constLoop _ _).wp_iff, wp_modify]

/-- `text` statements append exactly one record to `textStatements` — the returned one — and leave
the seven hoisting fields alone. -/
theorem parseTextStatement_hoist (env : Env) (fuel : Nat) (s : PState) :
    wp (parseTextStatement env fuel) s (fun r s' => hz7 s' = hz7 s ∧
      ∃ t, r = .text t ∧ s'.textStatements = s.textStatements ++ [t]) := by
  unfold parseTextStatement
  swp [(frame_parseScopeModifier _).wp_iff, (frame_parsePoryswitchTextStatement _ _).wp_iff,
    (frame_parseTextValue _ _).wp_iff, wp_modify]
  vc
  all_goals exact ⟨rfl, _, rfl, rfl⟩

end Pory.Parser
