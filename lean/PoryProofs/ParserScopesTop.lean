import PoryProofs.ParserScopes
/-
C20 (scopes well-formed), top level: script statements and the inline scripts of `mapscripts`
statements are parsed with the statement-block invariant of `ParserScopes.lean`.
-/
namespace Pory.Parser
open Pory Pory.Sem

/-- An optional (inline) script has a well-formed body. -/
def ScriptOK (B C : List Nat) (lo hi : Nat) (o : Option Script) : Prop :=
  ∀ scr, o = some scr → WF B C lo hi scr.body

theorem ScriptOK.mono {B C lo hi lo' hi' o} (h : ScriptOK B C lo hi o) (h1 : lo' ≤ lo) (h2 : hi ≤ hi') :
    ScriptOK B C lo' hi' o := fun scr hs => (h scr hs).mono h1 h2

theorem ScriptOK.none {B C lo hi} : ScriptOK B C lo hi none := fun _ h => by cases h

theorem ScriptOK.some {B C lo hi} {scr : Script} (h : WF B C lo hi scr.body) :
    ScriptOK B C lo hi (some scr) := fun _ hs => by cases hs; exact h

/-- All inline scripts of parsed map-script entries are well formed. -/
def MSOK (B C : List Nat) (lo hi : Nat) (mss : List MapScript) (tables : List TableMapScript) : Prop :=
  (∀ m ∈ mss, ScriptOK B C lo hi m.script) ∧ (∀ t ∈ tables, ∀ e ∈ t.entries, ScriptOK B C lo hi e.script)

theorem frame_tableCollect (stop : Tok → Bool) (onEOF : PFail) :
    ∀ (n : Nat) (acc : String), Frame (tableCollect stop onEOF n acc) := by
  intro n
  induction n with
  | zero => intro acc s; rw [tableCollect]; wpsimp
  | succ n ih => intro acc s; rw [tableCollect]; wpsimp [(ih _).wp_iff]

/-- `parseScriptStatement`: stacks restored, body well formed w.r.t. the stacks at entry. -/
theorem script_spec (env : Env) (fuel : Nat) (s : PState) :
    wp (parseScriptStatement env fuel) s
      (fun r s' => Same s s' ∧ WF s.breakStack s.continueStack s.nextSid s'.nextSid r.1.body) := by
  unfold parseScriptStatement
  swp [(frame_parseScopeModifier _).wp_iff,
    wp_spec ((specAll fuel).block _ _ _ [] _ _ _ (Nat.le_refl _) WF.nil)]
  vc

theorem tableEntries_spec (env : Env) (ms ty : String) : ∀ (n i : Nat) (acc : List TableEntry)
    (imp : ImpData) (s : PState) (lo : Nat), lo ≤ s.nextSid →
    (∀ e ∈ acc, ScriptOK s.breakStack s.continueStack lo s.nextSid e.script) →
    wp (parseTableEntries env ms ty n i acc imp) s
      (fun r s' => Same s s' ∧ ∀ e ∈ r.1, ScriptOK s.breakStack s.continueStack lo s'.nextSid e.script) := by
  intro n
  induction n with
  | zero => intro i acc imp s lo _ _; rw [parseTableEntries]; swp
  | succ n ih =>
    intro i acc imp s lo hlo hacc
    have hrec : ∀ (e : TableEntry) (s'' : PState) (i' : Nat) (imp' : ImpData),
        s''.breakStack = s.breakStack → s''.continueStack = s.continueStack → s.nextSid ≤ s''.nextSid →
        ScriptOK s.breakStack s.continueStack s.nextSid s''.nextSid e.script →
        wp (parseTableEntries env ms ty n i' (acc ++ [e]) imp') s''
          (fun r s' => Same s s' ∧
            ∀ e ∈ r.1, ScriptOK s.breakStack s.continueStack lo s'.nextSid e.script) := by
      intro e s'' i' imp' hb hc hn he
      refine wp_mono (ih i' (acc ++ [e]) imp' s'' lo (Nat.le_trans hlo hn) ?_) ?_
      · intro x hx
        rw [hb, hc]
        rcases List.mem_append.1 hx with hx | hx
        · exact (hacc x hx).mono (Nat.le_refl _) hn
        · rw [List.mem_singleton] at hx; subst hx
          exact he.mono hlo (Nat.le_refl _)
      · intro r s3 h
        exact post_trans (P := fun B C m => ∀ e ∈ r.1, ScriptOK B C lo m e.script) h hb hc hn
    rw [parseTableEntries]
    swp [(frame_tableCollect _ _ _ _).wp_iff,
      wp_spec ((specAll n).block _ _ _ [] _ _ _ (Nat.le_refl _) WF.nil)]
    split
    · exact hacc
    · intro a l k _
      split
      · trivial
      · intro a2 l1 k1 _
        split
        · trivial
        · split
          · split
            · exact hrec _ _ _ _ rfl rfl (Nat.le_refl _) ScriptOK.none
            · trivial
          · intro a4 s' _ h
            obtain ⟨⟨hb, hc, hn⟩, hw⟩ := h
            exact hrec _ _ _ _ hb hc hn (ScriptOK.some hw)

theorem MSOK.nil {B C lo hi} : MSOK B C lo hi [] [] :=
  ⟨fun _ h => absurd h List.not_mem_nil, fun _ h => absurd h List.not_mem_nil⟩

theorem mapScriptEntries_spec (env : Env) (ms : String) : ∀ (n : Nat) (mss : List MapScript)
    (tables : List TableMapScript) (imp : ImpData) (s : PState) (lo : Nat), lo ≤ s.nextSid →
    MSOK s.breakStack s.continueStack lo s.nextSid mss tables →
    wp (parseMapScriptEntries env ms n mss tables imp) s
      (fun r s' => Same s s' ∧ MSOK s.breakStack s.continueStack lo s'.nextSid r.1 r.2.1) := by
  intro n
  induction n with
  | zero => intro mss tables imp s lo _ _; rw [parseMapScriptEntries]; swp
  | succ n ih =>
    intro mss tables imp s lo hlo hacc
    have hrec1 : ∀ (m : MapScript) (s'' : PState) (imp' : ImpData),
        s''.breakStack = s.breakStack → s''.continueStack = s.continueStack → s.nextSid ≤ s''.nextSid →
        ScriptOK s.breakStack s.continueStack s.nextSid s''.nextSid m.script →
        wp (parseMapScriptEntries env ms n (mss ++ [m]) tables imp') s''
          (fun r s' => Same s s' ∧ MSOK s.breakStack s.continueStack lo s'.nextSid r.1 r.2.1) := by
      intro m s'' imp' hb hc hn hm
      refine wp_mono (ih (mss ++ [m]) tables imp' s'' lo (Nat.le_trans hlo hn) ?_) ?_
      · rw [hb, hc]
        refine ⟨?_, fun t ht e he => (hacc.2 t ht e he).mono (Nat.le_refl _) hn⟩
        intro x hx
        rcases List.mem_append.1 hx with hx | hx
        · exact (hacc.1 x hx).mono (Nat.le_refl _) hn
        · rw [List.mem_singleton] at hx; subst hx
          exact hm.mono hlo (Nat.le_refl _)
      · intro r s3 h
        exact post_trans (P := fun B C m => MSOK B C lo m r.1 r.2.1) h hb hc hn
    have hrec2 : ∀ (t : TableMapScript) (s'' : PState) (imp' : ImpData),
        s''.breakStack = s.breakStack → s''.continueStack = s.continueStack → s.nextSid ≤ s''.nextSid →
        (∀ e ∈ t.entries, ScriptOK s.breakStack s.continueStack s.nextSid s''.nextSid e.script) →
        wp (parseMapScriptEntries env ms n mss (tables ++ [t]) imp') s''
          (fun r s' => Same s s' ∧ MSOK s.breakStack s.continueStack lo s'.nextSid r.1 r.2.1) := by
      intro t s'' imp' hb hc hn ht
      refine wp_mono (ih mss (tables ++ [t]) imp' s'' lo (Nat.le_trans hlo hn) ?_) ?_
      · rw [hb, hc]
        refine ⟨fun m hm => (hacc.1 m hm).mono (Nat.le_refl _) hn, ?_⟩
        intro x hx e he
        rcases List.mem_append.1 hx with hx | hx
        · exact (hacc.2 x hx e he).mono (Nat.le_refl _) hn
        · rw [List.mem_singleton] at hx; subst hx
          exact (ht e he).mono hlo (Nat.le_refl _)
      · intro r s3 h
        exact post_trans (P := fun B C m => MSOK B C lo m r.1 r.2.1) h hb hc hn
    rw [parseMapScriptEntries]
    swp [wp_spec ((specAll n).block _ _ _ [] _ _ _ (Nat.le_refl _) WF.nil),
      wp_spec (tableEntries_spec _ _ _ _ _ [] _ _ _ (Nat.le_refl _) (fun _ h => absurd h List.not_mem_nil))]
    repeat' (first | trivial | split)
    all_goals first
      | exact hacc
      | exact hrec1 _ _ _ rfl rfl (Nat.le_refl _) ScriptOK.none
      | (intro a s' _ h
         obtain ⟨⟨hb, hc, hn⟩, hw⟩ := h
         first
           | exact hrec1 _ _ _ hb hc hn (ScriptOK.some hw)
           | exact hrec2 _ _ _ hb hc hn hw)

/-- `parseMapscriptsStatement`: every inline script of the result is well formed. -/
theorem mapscripts_spec (env : Env) (fuel : Nat) (s : PState) :
    wp (parseMapscriptsStatement env fuel) s
      (fun r s' => Same s s' ∧
        MSOK s.breakStack s.continueStack s.nextSid s'.nextSid r.1.mapScripts r.1.tables) := by
  unfold parseMapscriptsStatement
  swp [(frame_parseScopeModifier _).wp_iff,
    wp_spec (mapScriptEntries_spec _ _ _ [] [] _ _ _ (Nat.le_refl _) MSOK.nil)]
  vc

/-! ### the other top-level statements leave stacks and `nextSid` alone -/

theorem frame_poryswitchTextCases (env : Env) (tok : Tok) :
    ∀ (n : Nat) (acc : List (String × String × String)), Frame (poryswitchTextCases env tok n acc) := by
  intro n
  induction n with
  | zero => intro acc s; rw [poryswitchTextCases]; wpsimp
  | succ n ih =>
    intro acc s
    rw [poryswitchTextCases]
    wpsimp [(ih _).wp_iff, (frame_parseTextValue _ _).wp_iff]

theorem frame_parsePoryswitchTextStatement (env : Env) (n : Nat) :
    Frame (parsePoryswitchTextStatement env n) := by
  intro s
  unfold parsePoryswitchTextStatement
  wpsimp [(frame_parsePoryswitchHeader _).wp_iff, (frame_poryswitchTextCases _ _ _ _).wp_iff]
  wpfin

theorem frame_parseRawStatement : Frame parseRawStatement := by
  intro s; unfold parseRawStatement; wpsimp

theorem frame_parseMovementStatement (env : Env) (n : Nat) : Frame (parseMovementStatement env n) := by
  intro s
  unfold parseMovementStatement
  wpsimp [(frame_parseScopeModifier _).wp_iff, (frame_parseListValue _ _ _ _ _).wp_iff]

theorem frame_mapM_tryReplace : ∀ (l : List Tok),
    Frame (l.mapM fun t => tryReplaceWithConstant t.lit) := by
  intro l
  induction l with
  | nil => intro s; simp only [List.mapM_nil]; wpsimp
  | cons x r ih => intro s; simp only [List.mapM_cons]; wpsimp [(ih).wp_iff]

theorem frame_parseMartStatement (env : Env) (n : Nat) : Frame (parseMartStatement env n) := by
  intro s
  unfold parseMartStatement
  wpsimp [(frame_parseScopeModifier _).wp_iff, (frame_parseListValue _ _ _ _ _).wp_iff,
    (frame_mapM_tryReplace _).wp_iff]

theorem frame_constLoop : ∀ (n : Nat) (acc : String), Frame (constLoop n acc) := by
  intro n
  induction n with
  | zero => intro acc s; rw [constLoop]; wpsimp
  | succ n ih => intro acc s; rw [constLoop]; wpsimp [(ih _).wp_iff]

/-- Stacks and `nextSid` unchanged (other fields may change). -/
def VFrame {α} (m : PM α) : Prop :=
  ∀ s, wp m s (fun _ s' => s'.breakStack = s.breakStack ∧ s'.continueStack = s.continueStack ∧
    s'.nextSid = s.nextSid)

theorem Frame.vframe {α} {m : PM α} (h : Frame m) : VFrame m := by
  intro s a s' hr
  obtain ⟨l, k, rfl⟩ := h s a s' hr
  exact ⟨rfl, rfl, rfl⟩

theorem VFrame.wp_iff {α} {m : PM α} (hm : VFrame m) (s : PState) (Q : α → PState → Prop) :
    wp m s Q ↔ ∀ a s', m.run s = .ok (a, s') →
      (s'.breakStack = s.breakStack ∧ s'.continueStack = s.continueStack ∧ s'.nextSid = s.nextSid) →
      Q a s' := wp_spec (hm s) Q

theorem vframe_parseTextStatement (env : Env) (n : Nat) : VFrame (parseTextStatement env n) := by
  intro s
  unfold parseTextStatement
  swp [(frame_parseScopeModifier _).wp_iff, (frame_parsePoryswitchTextStatement _ _).wp_iff,
    (frame_parseTextValue _ _).wp_iff, wp_modify]
  vc

theorem vframe_parseConstant (n : Nat) : VFrame (parseConstant n) := by
  intro s
  unfold parseConstant
  swp [(frame_constLoop _ _).wp_iff, wp_modify]
  vc

theorem vframe_addImplicitData (d : ImpData) : VFrame (addImplicitData d) := by
  intro s
  unfold addImplicitData addImplicitTexts addImplicitMovements
  swp [wp_modify]
  have h1 : ∀ (l : List ImpText) (s : PState),
      (l.foldl addTextStep s).breakStack = s.breakStack ∧
      (l.foldl addTextStep s).continueStack = s.continueStack ∧
      (l.foldl addTextStep s).nextSid = s.nextSid := by
    intro l
    induction l with
    | nil => intro s; exact ⟨rfl, rfl, rfl⟩
    | cons x r ih =>
      intro s
      simp only [List.foldl_cons]
      obtain ⟨a, b, c⟩ := ih (addTextStep s x)
      have : (addTextStep s x).breakStack = s.breakStack ∧ (addTextStep s x).continueStack = s.continueStack ∧
          (addTextStep s x).nextSid = s.nextSid := by
        cases hlk : s.inlineTextsSet.lookup (x.text.lit, x.stringType) <;> simp [addTextStep, hlk]
      exact ⟨a.trans this.1, b.trans this.2.1, c.trans this.2.2⟩
  have h2 : ∀ (l : List ImpMovement) (s : PState),
      (l.foldl addMovementStep s).breakStack = s.breakStack ∧
      (l.foldl addMovementStep s).continueStack = s.continueStack ∧
      (l.foldl addMovementStep s).nextSid = s.nextSid := by
    intro l
    induction l with
    | nil => intro s; exact ⟨rfl, rfl, rfl⟩
    | cons x r ih =>
      intro s
      simp only [List.foldl_cons]
      obtain ⟨a, b, c⟩ := ih (addMovementStep s x)
      have : (addMovementStep s x).breakStack = s.breakStack ∧
          (addMovementStep s x).continueStack = s.continueStack ∧
          (addMovementStep s x).nextSid = s.nextSid := by
        cases hlk : s.inlineMovementsSet.lookup (getMovementsKey x.movements) <;>
          simp [addMovementStep, hlk]
      exact ⟨a.trans this.1, b.trans this.2.1, c.trans this.2.2⟩
  obtain ⟨a, b, c⟩ := h2 d.movements (d.texts.foldl addTextStep s)
  obtain ⟨a', b', c'⟩ := h1 d.texts s
  exact ⟨a.trans a', b.trans b', c.trans c'⟩

/-! ### the whole program -/

/-- What C20 says about one top-level statement. -/
def TopOK (B C : List Nat) (lo hi : Nat) : Top → Prop
  | .script scr => WF B C lo hi scr.body
  | .mapscripts m => MSOK B C lo hi m.mapScripts m.tables
  | _ => True

theorem MSOK.mono {B C lo hi lo' hi' mss tables} (h : MSOK B C lo hi mss tables) (h1 : lo' ≤ lo)
    (h2 : hi ≤ hi') : MSOK B C lo' hi' mss tables :=
  ⟨fun m hm => (h.1 m hm).mono h1 h2, fun t ht e he => (h.2 t ht e he).mono h1 h2⟩

theorem TopOK.mono {B C lo hi lo' hi' t} (h : TopOK B C lo hi t) (h1 : lo' ≤ lo) (h2 : hi ≤ hi') :
    TopOK B C lo' hi' t := by
  cases t <;> first
    | exact WF.mono (B := B) (C := C) h h1 h2
    | exact MSOK.mono (B := B) (C := C) h h1 h2
    | trivial

theorem wp_and {α} {m : PM α} {s : PState} {P Q : α → PState → Prop} (hp : wp m s P) (hq : wp m s Q) :
    wp m s (fun a s' => P a s' ∧ Q a s') := fun a s' hr => ⟨hp a s' hr, hq a s' hr⟩

/-- Statements that are not scripts / mapscripts satisfy `TopOK` trivially. -/
def Plain (t : Top) : Prop := ∀ B C lo hi, TopOK B C lo hi t

theorem raw_plain (s : PState) : wp parseRawStatement s (fun r _ => Plain r) := by
  unfold parseRawStatement
  swp
  vc
  all_goals (intros; intro B C lo hi; trivial)

theorem text_plain (env : Env) (n : Nat) (s : PState) :
    wp (parseTextStatement env n) s (fun r _ => Plain r) := by
  unfold parseTextStatement
  swp [(frame_parseScopeModifier _).wp_iff, (frame_parsePoryswitchTextStatement _ _).wp_iff,
    (frame_parseTextValue _ _).wp_iff, wp_modify]
  vc
  all_goals (intros; intro B C lo hi; trivial)

theorem movement_plain (env : Env) (n : Nat) (s : PState) :
    wp (parseMovementStatement env n) s (fun r _ => Plain r) := by
  unfold parseMovementStatement
  swp [(frame_parseScopeModifier _).wp_iff, (frame_parseListValue _ _ _ _ _).wp_iff]
  vc
  all_goals (intros; intro B C lo hi; trivial)

theorem mart_plain (env : Env) (n : Nat) (s : PState) :
    wp (parseMartStatement env n) s (fun r _ => Plain r) := by
  unfold parseMartStatement
  swp [(frame_parseScopeModifier _).wp_iff, (frame_parseListValue _ _ _ _ _).wp_iff,
    (frame_mapM_tryReplace _).wp_iff]
  vc
  all_goals (intros; intro B C lo hi; trivial)

theorem topLevel_spec (env : Env) (fuel : Nat) (s : PState) :
    wp (parseTopLevelStatement env fuel) s
      (fun r s' => Same s s' ∧ ∀ t, r = some t → TopOK s.breakStack s.continueStack s.nextSid s'.nextSid t) := by
  unfold parseTopLevelStatement
  swp
  split
  · -- script
    swp [wp_spec (script_spec _ _ _)]
    intro a s1 _ h
    obtain ⟨⟨hb, hc, hn⟩, hw⟩ := h
    refine wp_mono (vframe_addImplicitData _ s1) ?_
    intro u s2 h2
    obtain ⟨hb2, hc2, hn2⟩ := h2
    try swp
    refine ⟨⟨hb2.trans hb, hc2.trans hc, by omega⟩, ?_⟩
    intro t ht; cases ht
    show WF _ _ _ _ _
    rw [hn2]; exact hw
  · swp [wp_spec (wp_and (frame_parseRawStatement s) (raw_plain s))]
    intro a s' _ h
    obtain ⟨⟨l, k, rfl⟩, hp⟩ := h
    first
      | exact fun t ht => by cases ht; exact hp _ _ _ _
      | exact ⟨⟨rfl, rfl, Nat.le_refl _⟩, fun t ht => by cases ht; exact hp _ _ _ _⟩
  · swp [wp_spec (wp_and (vframe_parseTextStatement env fuel s) (text_plain env fuel s))]
    intro a s1 _ h
    obtain ⟨⟨hb, hc, hn⟩, hp⟩ := h
    exact ⟨⟨hb, hc, Nat.le_of_eq hn.symm⟩, fun t ht => by cases ht; exact hp _ _ _ _⟩
  · swp [wp_spec (wp_and (frame_parseMovementStatement env fuel s) (movement_plain env fuel s))]
    intro a s' _ h
    obtain ⟨⟨l, k, rfl⟩, hp⟩ := h
    first
      | exact fun t ht => by cases ht; exact hp _ _ _ _
      | exact ⟨⟨rfl, rfl, Nat.le_refl _⟩, fun t ht => by cases ht; exact hp _ _ _ _⟩
  · swp [wp_spec (wp_and (frame_parseMartStatement env fuel s) (mart_plain env fuel s))]
    intro a s' _ h
    obtain ⟨⟨l, k, rfl⟩, hp⟩ := h
    first
      | exact fun t ht => by cases ht; exact hp _ _ _ _
      | exact ⟨⟨rfl, rfl, Nat.le_refl _⟩, fun t ht => by cases ht; exact hp _ _ _ _⟩
  · -- mapscripts
    swp [wp_spec (mapscripts_spec _ _ _)]
    intro a s1 _ h
    obtain ⟨⟨hb, hc, hn⟩, hw⟩ := h
    refine wp_mono (vframe_addImplicitData _ s1) ?_
    intro u s2 h2
    obtain ⟨hb2, hc2, hn2⟩ := h2
    try swp
    refine ⟨⟨hb2.trans hb, hc2.trans hc, by omega⟩, ?_⟩
    intro t ht; cases ht
    show MSOK _ _ _ _ _ _
    rw [hn2]; exact hw
  · swp [(vframe_parseConstant _).wp_iff]
    intro a s1 _ h
    exact ⟨⟨h.1, h.2.1, Nat.le_of_eq h.2.2.symm⟩, fun t ht => by cases ht⟩
  · swp

theorem topLoop_spec (env : Env) (fuel : Nat) : ∀ (n : Nat) (acc : List Top) (s : PState) (lo : Nat),
    lo ≤ s.nextSid → (∀ t ∈ acc, TopOK s.breakStack s.continueStack lo s.nextSid t) →
    wp (topLoop env fuel n acc) s
      (fun r s' => Same s s' ∧ ∀ t ∈ r, TopOK s.breakStack s.continueStack lo s'.nextSid t) := by
  intro n
  induction n with
  | zero => intro acc s lo _ _; rw [topLoop]; swp
  | succ n ih =>
    intro acc s lo hlo hacc
    rw [topLoop]
    swp [wp_spec (topLevel_spec _ _ _)]
    split
    · exact hacc
    · intro a s' _ h
      obtain ⟨⟨hb, hc, hn⟩, hw⟩ := h
      refine wp_mono (ih _ (upd s' s'.toks.tail s'.nextCmdId) lo (Nat.le_trans hlo hn) ?_) ?_
      · show ∀ t ∈ _, TopOK s'.breakStack s'.continueStack lo s'.nextSid t
        rw [hb, hc]
        intro t ht
        cases a with
        | none => exact (hacc t ht).mono (Nat.le_refl _) hn
        | some x =>
          rcases List.mem_append.1 ht with ht | ht
          · exact (hacc t ht).mono (Nat.le_refl _) hn
          · rw [List.mem_singleton] at ht; subst ht
            exact (hw _ rfl).mono hlo (Nat.le_refl _)
      · intro r s'' h
        exact post_trans (P := fun B C m => ∀ t ∈ r, TopOK B C lo m t) h hb hc hn

/-- `ParseProgram`: every top-level statement of the result satisfies C20. -/
theorem program_spec (env : Env) (fuel : Nat) (s : PState) :
    wp (parseProgramM env fuel) s
      (fun r s' => ∀ t ∈ r.tops, TopOK s.breakStack s.continueStack s.nextSid s'.nextSid t) := by
  unfold parseProgramM
  swp [wp_spec (topLoop_spec _ _ _ [] _ _ (Nat.le_refl _) (fun _ h => absurd h List.not_mem_nil))]
  intro tops s' _ h
  obtain ⟨_, hw⟩ := h
  have key : ∀ t ∈ tops ++ List.map Top.movement s'.inlineMovements,
      TopOK s.breakStack s.continueStack s.nextSid s'.nextSid t := by
    intro t ht
    rcases List.mem_append.1 ht with ht | ht
    · exact hw t ht
    · obtain ⟨m, _, rfl⟩ := List.mem_map.1 ht
      trivial
  repeat' (first | trivial | (intros; split))
  all_goals first | swp | skip
  all_goals first | exact key | skip

end Pory.Parser
