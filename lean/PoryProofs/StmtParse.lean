import PoryProofs.StmtGrammar
import PoryProofs.Properties.C02P
import PoryProofs.Properties.C10b
/-
P1 (statement grammar), stages 2 – 4: the parser model on printed script bodies.

`Spec n` is the specification of ALL 13 functions of the mutually recursive statement block
(`parseStatement`, `parseBlockStatement`, `parseSwitchBlockStatement`, `parseConditionExpression` (with and
without a condition), `parseElifs`, `parseIfStatement`, `parseWhileStatement`, `parseDoWhileStatement`,
`parseSwitchCases`, `parseSwitchStatement` (both operand forms), `parsePoryswitchStatement`,
`parsePoryswitchStatementCases`, `parsePoryswitchStatements` (both modes)) at fuel `n`: run on the printed
tokens of a well-formed piece of surface syntax (`PoryProofs/StmtGrammar.lean`) it returns exactly the result
of the reference elaboration — the elaborated tree, its implicit data, the window stopped on the documented
token, the two counters advanced, the stacks restored, nothing else changed — or, when the elaboration reports
an error, exactly that located error.
`spec : ∀ n, Spec n` is one induction on fuel (the `specAll` pattern of `ParserScopes.lean`), with
`C02P.parse_bool_tree` (conditions), `C11b.parse_autovar_leaf` (+ its rejections; auto-var conditions),
`C10b.parse_command` / `C10c.parse_command_imp` (commands), `C14b.parse_moves_operator` (inside the latter),
the case-header / switch-header lemmas of `SwitchParse.lean`, `AutoVarParse.epv_auto` and the poryswitch
header lemmas of `TopParse.lean` as black boxes.

Main theorems: `parse_block_elab` (both sides in one equation), `parse_block_print` (acceptance),
`parse_block_reject` (rejection), `fuel_of_tokens` (`2 * tokens + 1` fuel suffices).

States are written `S s l B C i j` = `s` with window `l`, break stack `B`, continue stack `C`, next scope id
`i`, next command id `j`.

Not covered: auto-var leaves INSIDE `&&` / `||` / parenthesised conditions, `value(…)` and multi-token
comparison values / operands, `format( … )` arguments, string / `moves` arguments in the command of an
auto-var condition or switch operand, the bare / `name()` forms of such a command, a poryswitch case
`key :` without statement.
-/
namespace Pory.StmtG
open Pory Pory.Parser Pory.C02P Pory.C10b Pory.SwitchParse Pory.TopParse
open Pory.C14b (swVal)
open Pory.C10c
open Pory.C11b (operandName badPosMsg autoFinish epv_auto Form printAuto autoLeafT leftSideMsg)

def S (s : PState) (l : List Tok) (B C : List Nat) (i j : Nat) : PState :=
  { s with toks := l, breakStack := B, continueStack := C, nextSid := i, nextCmdId := j }

theorem S_toks (s : PState) (l : List Tok) (B C : List Nat) (i j : Nat) : (S s l B C i j).toks = l := rfl
theorem S_eof (s : PState) (l : List Tok) (B C : List Nat) (i j : Nat) : (S s l B C i j).eof = s.eof := rfl
theorem S_constants (s : PState) (l : List Tok) (B C : List Nat) (i j : Nat) :
    (S s l B C i j).constants = s.constants := rfl
theorem S_breakStack (s : PState) (l : List Tok) (B C : List Nat) (i j : Nat) :
    (S s l B C i j).breakStack = B := rfl
theorem S_continueStack (s : PState) (l : List Tok) (B C : List Nat) (i j : Nat) :
    (S s l B C i j).continueStack = C := rfl
theorem S_nextSid (s : PState) (l : List Tok) (B C : List Nat) (i j : Nat) : (S s l B C i j).nextSid = i := rfl
theorem S_nextCmdId (s : PState) (l : List Tok) (B C : List Nat) (i j : Nat) :
    (S s l B C i j).nextCmdId = j := rfl
theorem st_S (s : PState) (l l' : List Tok) (B C : List Nat) (i j : Nat) :
    st (S s l B C i j) l' = S s l' B C i j := rfl

theorem cmd_S (env : Env) (sn : String) (s : PState) (B C : List Nat) (i j : Nat) (name lp : Tok)
    (a0 : List Tok) (more : List (Tok × List Tok)) (rp : Tok) (rest : List Tok)
    (hlp : lp.type = .LPAREN) (hrp : rp.type = .RPAREN) (h0 : ArgOK a0)
    (hm : ∀ p ∈ more, p.1.type = .COMMA ∧ ArgOK p.2) (fuel : Nat)
    (hf : a0.length + (printMore more).length + 1 ≤ fuel) :
    (parseCommandStatement env sn fuel).run (S s (printCmd name lp a0 more rp ++ rest) B C i j) =
      .ok (({ id := j, tok := name, name := name.lit,
              args := (a0 :: more.map (·.2)).map (renderArg (substC s.constants)) }, {}),
           S s (rp :: rest) B C i (j + 1)) :=
  parse_command env sn (S s [] B C i j) name lp a0 more rp rest hlp hrp h0 hm fuel hf

theorem bool_S (env : Env) (sn : String) (s : PState) (B C : List Nat) (i j : Nat) (g : SOr)
    (pre rp : Tok) (rest : List Tok) (hrp : rp.type = .RPAREN) (fuel : Nat) (hf : needOr g ≤ fuel) :
    (parseBooleanExpression env sn false false fuel).run (S s (pre :: (printOr g ++ rp :: rest)) B C i j) =
      .ok ((treeOr (substC s.constants) false g, {}), S s (rp :: rest) B C i j) :=
  parse_bool_tree env sn g false pre rp rest hrp (S s (pre :: (printOr g ++ rp :: rest)) B C i j) rfl fuel hf



theorem bt {a b : TT} (h : a = b) : (a == b) = true := beq_iff_eq.mpr h
theorem bf {a b : TT} (h : a ≠ b) : (a == b) = false := beq_eq_false_iff_ne.mpr h

theorem bnt {a b : TT} (h : a ≠ b) : (a != b) = true := bne_iff_ne.mpr h
theorem bnf {a b : TT} (h : a = b) : (a != b) = false := by simp [h]

/-- An error of the leaf parser is the error of the condition parser. -/
theorem pb_leaf_err (env : Env) (sn : String) (neg : Bool) (f : Nat) (s : PState) (pre a b : Tok)
    (tl : List Tok) (e : PFail)
    (hleaf : (parseLeafBooleanExpression env sn f).run (st s (pre :: a :: b :: tl)) = .error e)
    (ha : a.type ≠ .LPAREN) (hb : a.type = .NOT → b.type ≠ .LPAREN) :
    (parseBooleanExpression env sn false neg (f + 1)).run (st s (pre :: a :: b :: tl)) = .error e := by
  rw [parseBooleanExpression]
  by_cases hn : a.type = .NOT
  · have hb' := hb hn
    cases neg <;> simp [hn, hb', hleaf]
  · cases neg <;> simp [ha, hn, hleaf]

theorem autoPosBad_none {av : AutoVar} {n : Nat} (h : autoPosBad av n = none) : C11b.PosOK av n := by
  intro pos hp
  unfold autoPosBad at h
  rw [hp] at h
  simp only at h
  split at h
  · cases h
  · rename_i hc
    simp only [Bool.or_eq_true, decide_eq_true_eq, not_or, Int.not_lt] at hc
    omega

theorem autoPosBad_some {av : AutoVar} {n : Nat} {pos : Int} (h : autoPosBad av n = some pos) :
    av.argPos = some pos ∧ (pos < 0 ∨ pos ≥ (n : Int)) := by
  unfold autoPosBad at h
  cases hp : av.argPos with
  | none => rw [hp] at h; cases h
  | some p =>
    rw [hp] at h
    simp only at h
    split at h
    · rename_i hc
      cases h
      simp only [Bool.or_eq_true, decide_eq_true_eq] at hc
      exact ⟨rfl, by omega⟩
    · cases h

/-- **Conditions.** `parseBooleanExpression` on a printed condition: the tree and the command id after it,
or the located error of an auto-var leaf (not a configured command / bad argument position). -/
theorem cond_S (env : Env) (sn : String) (s : PState) (B C : List Nat) (i j : Nat) (c : SCond)
    (pre rp : Tok) (rest : List Tok) (hc : swfCond c = true) (hrp : rp.type = .RPAREN) (fuel : Nat)
    (hf : needCond c ≤ fuel) :
    (parseBooleanExpression env sn false false fuel).run (S s (pre :: (printCond c ++ rp :: rest)) B C i j) =
      match elabCond env (substC s.constants) c j with
      | .error e => .error e
      | .ok (t, j0) => .ok ((t, {}), S s (rp :: rest) B C i j0) := by
  cases c with
  | plain g => exact bool_S env sn s B C i j g pre rp rest hrp fuel hf
  | auto fm name lp a0 more rp' =>
    simp only [swfCond, Bool.and_eq_true, beq_iff_eq, decide_eq_true_eq, List.all_eq_true] at hc
    obtain ⟨⟨⟨⟨h1, h2⟩, h3⟩, h4⟩, h5⟩ := hc
    simp only [needCond] at hf
    obtain ⟨f, rfl⟩ : ∃ f, fuel = f + 1 := ⟨fuel - 1, by omega⟩
    -- the first two tokens of the leaf
    have hshape : ∃ a b tl, printCond (.auto fm name lp a0 more rp') ++ rp :: rest = a :: b :: tl ∧
        a.type ≠ .LPAREN ∧ (a.type = .NOT → b.type ≠ .LPAREN) := by
      cases fm with
      | bare =>
        exact ⟨name, lp, a0 ++ (printMore more ++ rp' :: (Form.bare.post ++ rp :: rest)),
          by simp [printCond, printAuto, printCmd, Form.pre], by simp [h1], by simp [h1]⟩
      | cmp p1 p2 l1 op v =>
        exact ⟨name, lp, a0 ++ (printMore more ++ rp' :: ((Form.cmp p1 p2 l1 op v).post ++ rp :: rest)),
          by simp [printCond, printAuto, printCmd, Form.pre], by simp [h1], by simp [h1]⟩
      | neg p l =>
        exact ⟨tkp p .NOT l, name,
          lp :: (a0 ++ (printMore more ++ rp' :: ((Form.neg p l).post ++ rp :: rest))),
          by simp [printCond, printAuto, printCmd, Form.pre], by simp, by simp [h1]⟩
    obtain ⟨a, b, tl, hsh, ha, hb⟩ := hshape
    have hS : S s (pre :: (printCond (.auto fm name lp a0 more rp') ++ rp :: rest)) B C i j =
        st (S s [] B C i j) (pre :: a :: b :: tl) := by rw [hsh]; rfl
    have hS' : st (S s [] B C i j) (pre :: a :: b :: tl) =
        st (S s [] B C i j) (pre :: (printAuto fm name lp a0 more rp' ++ rp :: rest)) := by
      rw [← hsh]; rfl
    simp only [elabCond]
    cases hav : env.autoVars.lookup name.lit with
    | none =>
      rw [hS]
      refine pb_leaf_err env sn false f _ pre a b tl _ ?_ ha hb
      rw [hS']
      have hx : C11b.NotLeafStart env name := ⟨by simp [h1], by simp [h1], by simp [h1], fun _ => hav⟩
      cases fm with
      | bare =>
        have := C11b.leaf_reject env sn f (S s [] B C i j) pre name
          (lp :: (a0 ++ (printMore more ++ [rp'])) ++ (rp :: rest)) (by simp [h1]) hx
        simpa [printAuto, printCmd, Form.pre, Form.post, notLeafErr] using this
      | cmp p1 p2 l1 op v =>
        have := C11b.leaf_reject env sn f (S s [] B C i j) pre name
          (lp :: (a0 ++ (printMore more ++ [rp'])) ++ ([tkp p1 op.tt l1, v.tok p2] ++ rp :: rest))
          (by simp [h1]) hx
        simpa [printAuto, printCmd, Form.pre, Form.post, notLeafErr] using this
      | neg p l =>
        have := C11b.leaf_reject_not env sn f (S s [] B C i j) pre (tkp p .NOT l) name
          (lp :: (a0 ++ (printMore more ++ [rp'])) ++ (rp :: rest)) rfl hx
        simpa [printAuto, printCmd, Form.pre, Form.post, notLeafErr] using this
    | some av =>
      simp only
      cases hbad : autoPosBad av (more.length + 1) with
      | some pos =>
        obtain ⟨hp, hb2⟩ := autoPosBad_some hbad
        rw [hS]
        refine pb_leaf_err env sn false f _ pre a b tl _ ?_ ha hb
        rw [hS']
        exact C11b.autovar_bad_position_rejected env sn (S s [] B C i j) pre name lp a0 more rp' (rp :: rest) av
          fm pos h1 hav h2 h3 h4 h5 hp hb2 f (by omega)
      | none =>
        have hleaf := C11b.parse_autovar_leaf env sn (S s [] B C i j) pre name lp a0 more rp' (rp :: rest) av fm
          h1 hav h2 h3 h4 h5 (autoPosBad_none hbad)
          (by cases fm <;> first | exact follow_rparen rp rest hrp | trivial) f (by omega)
        rw [← hS'] at hleaf
        obtain ⟨f', rfl⟩ : ∃ f', f = f' + 1 := ⟨f - 1, by omega⟩
        rw [hS]
        exact pb_leaf_multi env sn false (f' + 1) _ _ _ pre a b tl _ _ hleaf ha hb
          (pr_stop env sn _ false false f' _ rp rest (by simp [hrp]) (by simp [hrp]))

/-- Symbolic execution on `S`-states. -/
syntax "psimp" (" [" Lean.Parser.Tactic.simpLemma,* "]")? : tactic
macro_rules
  | `(tactic| psimp) => `(tactic| rsimp [S_toks, S_eof, S_constants, S_breakStack, S_continueStack, S_nextSid,
      S_nextCmdId, st_S, run_peekAt, List.getD_cons_zero, List.getD_cons_succ, beq_self_eq_true, imp_add_empty])
  | `(tactic| psimp [$ts,*]) => `(tactic| rsimp [S_toks, S_eof, S_constants, S_breakStack, S_continueStack,
      S_nextSid, S_nextCmdId, st_S, run_peekAt, List.getD_cons_zero, List.getD_cons_succ, beq_self_eq_true,
      imp_add_empty, $ts,*])

section
variable (s : PState) (B C : List Nat) (i j : Nat)

theorem label_colon (name colon : Tok) (rest : List Tok) (hc : colon.type = .COLON) :
    tryParseLabelStatement.run (S s (name :: colon :: rest) B C i j) =
      .ok (some (.label name name.lit false), S s (colon :: rest) B C i j) := by
  unfold tryParseLabelStatement peek3 peek4 peek2 peek
  psimp [bt hc]


theorem label_scoped (name lp sc rp colon : Tok) (rest : List Tok) (hlp : lp.type = .LPAREN)
    (hsc : sc.type = .GLOBAL ∨ sc.type = .LOCAL) (hrp : rp.type = .RPAREN) (hc : colon.type = .COLON) :
    tryParseLabelStatement.run (S s (name :: lp :: sc :: rp :: colon :: rest) B C i j) =
      .ok (some (.label name name.lit (sc.type == .GLOBAL)), S s (colon :: rest) B C i j) := by
  unfold tryParseLabelStatement peek3 peek4 peek2 peek
  have h1 : (lp.type == TT.COLON) = false := by rw [hlp]; decide
  rcases hsc with hsc | hsc <;>
    psimp [h1, bt hlp, bt hrp, bt hc, hsc, Bool.and_self,
      Bool.and_true, show (TT.LOCAL == TT.GLOBAL) = false by decide]

end

theorem label_none (st0 : PState) (h1 : (st0.toks.getD 1 st0.eof).type ≠ .COLON)
    (h2 : ¬ ((st0.toks.getD 1 st0.eof).type = .LPAREN ∧
      ((st0.toks.getD 2 st0.eof).type = .GLOBAL ∨ (st0.toks.getD 2 st0.eof).type = .LOCAL) ∧
      (st0.toks.getD 3 st0.eof).type = .RPAREN ∧ (st0.toks.getD 4 st0.eof).type = .COLON)) :
    tryParseLabelStatement.run st0 = .ok (none, st0) := by
  unfold tryParseLabelStatement peek3 peek4 peek2 peek
  have hc : ((st0.toks.getD 1 st0.eof).type == TT.LPAREN &&
      ((st0.toks.getD 2 st0.eof).type == TT.GLOBAL || (st0.toks.getD 2 st0.eof).type == TT.LOCAL) &&
      (st0.toks.getD 3 st0.eof).type == TT.RPAREN && (st0.toks.getD 4 st0.eof).type == TT.COLON) = false := by
    cases hb : ((st0.toks.getD 1 st0.eof).type == TT.LPAREN &&
      ((st0.toks.getD 2 st0.eof).type == TT.GLOBAL || (st0.toks.getD 2 st0.eof).type == TT.LOCAL) &&
      (st0.toks.getD 3 st0.eof).type == TT.RPAREN && (st0.toks.getD 4 st0.eof).type == TT.COLON) with
    | false => rfl
    | true =>
      exfalso; apply h2
      simpa [and_assoc] using hb
  rsimp [run_peekAt, bf h1, hc]

section
variable (env : Env) (sn : String) (s : PState) (B C : List Nat) (i j : Nat) (n : Nat)

theorem stmt_label (name colon : Tok) (rest : List Tok) (hn : name.type = .IDENT)
    (hc : colon.type = .COLON) :
    (parseStatement env sn (n + 1)).run (S s (name :: colon :: rest) B C i j) =
      .ok (([.label name name.lit false], {}), S s (colon :: rest) B C i j) := by
  rw [parseStatement]
  psimp [hn, label_colon s B C i j name colon rest hc]

theorem stmt_labelS (name lp sc rp colon : Tok) (rest : List Tok) (hn : name.type = .IDENT)
    (hlp : lp.type = .LPAREN) (hsc : sc.type = .GLOBAL ∨ sc.type = .LOCAL) (hrp : rp.type = .RPAREN)
    (hc : colon.type = .COLON) :
    (parseStatement env sn (n + 1)).run (S s (name :: lp :: sc :: rp :: colon :: rest) B C i j) =
      .ok (([.label name name.lit (sc.type == .GLOBAL)], {}), S s (colon :: rest) B C i j) := by
  rw [parseStatement]
  psimp [hn, label_scoped s B C i j name lp sc rp colon rest hlp hsc hrp hc]

/-- An identifier that does not start a label: the command statement. -/
theorem stmt_cmd_gen (st0 : PState) (hn : (st0.toks.headD st0.eof).type = .IDENT)
    (hl : tryParseLabelStatement.run st0 = .ok (none, st0)) :
    (parseStatement env sn (n + 1)).run st0 =
      match (parseCommandStatement env sn n).run st0 with
      | .ok ((cmd, imp), s1) => .ok (([.cmd cmd], imp), s1)
      | .error e => .error e := by
  rw [parseStatement]
  rsimp [hn, hl]
  cases (parseCommandStatement env sn n).run st0 with
  | error e => rfl
  | ok r => obtain ⟨⟨cmd, imp⟩, s1⟩ := r; rfl

theorem stmt_brk (t : Tok) (rest : List Tok) (ht : t.type = .BREAK) :
    (parseStatement env sn (n + 1)).run (S s (t :: rest) B C i j) =
      match B with
      | [] => .error (breakOutsideErr t)
      | b :: _ => .ok (([.brk t b], {}), S s (t :: rest) B C i j) := by
  rw [parseStatement]
  cases B with
  | nil => psimp [ht]; rfl
  | cons b B' => psimp [ht]

theorem stmt_cont (t nx : Tok) (rest : List Tok) (ht : t.type = .CONTINUE) :
    (parseStatement env sn (n + 1)).run (S s (t :: nx :: rest) B C i j) =
      match C with
      | [] => .error (continueOutsideErr t)
      | c :: _ =>
        if nx.type == .RBRACE then .ok (([.cont t c], {}), S s (t :: nx :: rest) B C i j)
        else .error (continueNotLastErr t) := by
  rw [parseStatement]
  cases C with
  | nil => psimp [ht]; rfl
  | cons c C' =>
    by_cases hnx : nx.type = .RBRACE
    · psimp [ht, bt hnx, bnf hnx]
    · psimp [ht, bf hnx, bnt hnx]; rfl

/-- `name ( a0 , … )` is never read as a scoped label. -/
theorem cmd_not_label (a0 : List Tok) (more : List (Tok × List Tok)) (rp t : Tok) (tl : List Tok) (d : Tok)
    (h0 : ArgOK a0) (hm : ∀ p ∈ more, p.1.type = .COMMA ∧ ArgOK p.2) (ht : t.type ≠ .COLON) :
    ¬ ((((a0 ++ (printMore more ++ rp :: t :: tl)).getD 0 d).type = .GLOBAL ∨
        ((a0 ++ (printMore more ++ rp :: t :: tl)).getD 0 d).type = .LOCAL) ∧
      ((a0 ++ (printMore more ++ rp :: t :: tl)).getD 1 d).type = .RPAREN ∧
      ((a0 ++ (printMore more ++ rp :: t :: tl)).getD 2 d).type = .COLON) := by
  obtain ⟨hne, htoks, hbal⟩ := h0
  cases a0 with
  | nil => exact absurd rfl hne
  | cons g a0' =>
    cases a0' with
    | nil =>
      cases more with
      | nil =>
        simp only [printMore, List.nil_append, List.cons_append, List.getD_cons_succ, List.getD_cons_zero]
        intro h; exact ht h.2.2
      | cons p m =>
        have := (hm p (by simp)).1
        simp only [printMore, List.nil_append, List.cons_append, List.getD_cons_succ, List.getD_cons_zero]
        intro h; rw [this] at h; exact absurd h.2.1 (by decide)
    | cons x a0'' =>
      simp only [List.cons_append, List.getD_cons_succ, List.getD_cons_zero]
      intro h
      have hg1 : g.type ≠ .LPAREN := by rcases h.1 with h | h <;> rw [h] <;> decide
      have hg2 : g.type ≠ .RPAREN := by rcases h.1 with h | h <;> rw [h] <;> decide
      simp [depthAfter, hg1, hg2, h.2.1] at hbal

theorem stmt_cmd (name lp : Tok) (a0 : List Tok) (more : List (Tok × List Tok)) (rp t : Tok)
    (tl : List Tok) (hn : name.type = .IDENT) (hlp : lp.type = .LPAREN) (hrp : rp.type = .RPAREN)
    (h0 : ArgOK a0) (hm : ∀ p ∈ more, p.1.type = .COMMA ∧ ArgOK p.2) (ht : t.type ≠ .COLON)
    (hf : a0.length + (printMore more).length + 1 ≤ n) :
    (parseStatement env sn (n + 1)).run (S s (printCmd name lp a0 more rp ++ t :: tl) B C i j) =
      .ok (([cmdNode j name ((a0 :: more.map (·.2)).map (renderArg (substC s.constants)))], {}),
        S s (rp :: t :: tl) B C i (j + 1)) := by
  rw [stmt_cmd_gen env sn n _ (by simp [printCmd, S_toks, hn]) (label_none _
      (by simp [printCmd, S_toks, hlp]) (by
        have := cmd_not_label a0 more rp t tl s.eof h0 hm ht
        simpa [printCmd, S_toks, S_eof, hlp] using this)),
    cmd_S env sn s B C i j name lp a0 more rp (t :: tl) hlp hrp h0 hm n hf]
  rfl

/-- `parse_command_imp` on `S`-states. -/
theorem cmdI_S (name lp : Tok) (a0 : List AElem) (more : List (Tok × List AElem)) (rp : Tok)
    (rest : List Tok) (hlp : lp.type = .LPAREN) (hrp : rp.type = .RPAREN) (h0 : argEOK a0 = true)
    (hm : ∀ p ∈ more, p.1.type = .COMMA ∧ argEOK p.2 = true) (fuel : Nat)
    (hf : needCmdE a0 more ≤ fuel) :
    (parseCommandStatement env sn fuel).run (S s (printCmdE name lp a0 more rp ++ rest) B C i j) =
      .ok (({ id := j, tok := name, name := name.lit,
              args := (a0 :: more.map (·.2)).map (renderArgE (substC s.constants)) },
            impArgs sn j name 0 (a0 :: more.map (·.2))),
           S s (rp :: rest) B C i (j + 1)) :=
  parse_command_imp env sn (S s [] B C i j) name lp a0 more rp rest hlp hrp h0 hm fuel hf

/-- `name ( a0 , … )` with string / `moves` arguments is never read as a scoped label. -/
theorem cmdI_not_label (a0 : List AElem) (more : List (Tok × List AElem)) (rp t : Tok) (tl : List Tok)
    (d : Tok) (h0 : argEOK a0 = true) (hm : ∀ p ∈ more, p.1.type = .COMMA ∧ argEOK p.2 = true)
    (ht : t.type ≠ .COLON) :
    ¬ ((((printArgE a0 ++ (printMoreE more ++ rp :: t :: tl)).getD 0 d).type = .GLOBAL ∨
        ((printArgE a0 ++ (printMoreE more ++ rp :: t :: tl)).getD 0 d).type = .LOCAL) ∧
      ((printArgE a0 ++ (printMoreE more ++ rp :: t :: tl)).getD 1 d).type = .RPAREN ∧
      ((printArgE a0 ++ (printMoreE more ++ rp :: t :: tl)).getD 2 d).type = .COLON) := by
  obtain ⟨hne, htoks, hbal⟩ := (argEOK_iff a0).mp h0
  cases a0 with
  | nil => exact absurd rfl hne
  | cons e a0' =>
    simp only [List.all_cons, Bool.and_eq_true] at htoks
    cases e with
    | tok g =>
      cases a0' with
      | nil =>
        cases more with
        | nil =>
          simp only [printArgE, AElem.toks, printMoreE, List.nil_append, List.cons_append, List.getD_cons_succ,
            List.getD_cons_zero, List.append_nil]
          intro h; exact ht h.2.2
        | cons p m =>
          have := (hm p (by simp)).1
          simp only [printArgE, AElem.toks, printMoreE, List.nil_append, List.cons_append, List.getD_cons_succ,
            List.getD_cons_zero, List.append_nil]
          intro h; rw [this] at h; exact absurd h.2.1 (by decide)
      | cons e2 a0'' =>
        simp only [List.all_cons, Bool.and_eq_true] at htoks
        cases e2 with
        | tok x =>
          simp only [printArgE, AElem.toks, List.cons_append, List.nil_append, List.getD_cons_succ,
            List.getD_cons_zero]
          intro h
          have hg1 : g.type ≠ .LPAREN := by rcases h.1 with h | h <;> rw [h] <;> decide
          have hg2 : g.type ≠ .RPAREN := by rcases h.1 with h | h <;> rw [h] <;> decide
          simp [depthE, hg1, hg2, h.2.1] at hbal
        | str x =>
          have hx : x.type = .STRING := by simpa [AElem.ok] using htoks.2.1
          simp only [printArgE, AElem.toks, List.cons_append, List.nil_append, List.getD_cons_succ,
            List.getD_cons_zero]
          intro h; rw [hx] at h; exact absurd h.2.1 (by decide)
        | tstr ty x =>
          have hx : ty.type = .STRINGTYPE := by
            have := htoks.2.1; simp only [AElem.ok, Bool.and_eq_true, beq_iff_eq] at this; exact this.1
          simp only [printArgE, AElem.toks, List.cons_append, List.nil_append, List.getD_cons_succ,
            List.getD_cons_zero]
          intro h; rw [hx] at h; exact absurd h.2.1 (by decide)
        | moves mv lp' items rp' =>
          have hx : mv.type = .MOVES := by
            have := htoks.2.1; simp only [AElem.ok, Bool.and_eq_true, beq_iff_eq] at this; exact this.1.1.1.1
          simp only [printArgE, AElem.toks, List.cons_append, List.nil_append, List.getD_cons_succ,
            List.getD_cons_zero]
          intro h; rw [hx] at h; exact absurd h.2.1 (by decide)
    | str x =>
      have hx : x.type = .STRING := by simpa [AElem.ok] using htoks.1
      simp only [printArgE, AElem.toks, List.cons_append, List.nil_append, List.getD_cons_zero]
      intro h; rw [hx] at h; rcases h.1 with h | h <;> exact absurd h (by decide)
    | tstr ty x =>
      have hx : ty.type = .STRINGTYPE := by
        have := htoks.1; simp only [AElem.ok, Bool.and_eq_true, beq_iff_eq] at this; exact this.1
      simp only [printArgE, AElem.toks, List.cons_append, List.nil_append, List.getD_cons_zero]
      intro h; rw [hx] at h; rcases h.1 with h | h <;> exact absurd h (by decide)
    | moves mv lp' items rp' =>
      have hx : mv.type = .MOVES := by
        have := htoks.1; simp only [AElem.ok, Bool.and_eq_true, beq_iff_eq] at this; exact this.1.1.1.1
      simp only [printArgE, AElem.toks, List.cons_append, List.getD_cons_zero]
      intro h; rw [hx] at h; rcases h.1 with h | h <;> exact absurd h (by decide)

theorem stmt_cmdI (name lp : Tok) (a0 : List AElem) (more : List (Tok × List AElem)) (rp t : Tok)
    (tl : List Tok) (hn : name.type = .IDENT) (hlp : lp.type = .LPAREN) (hrp : rp.type = .RPAREN)
    (h0 : argEOK a0 = true) (hm : ∀ p ∈ more, p.1.type = .COMMA ∧ argEOK p.2 = true) (ht : t.type ≠ .COLON)
    (hf : needCmdE a0 more ≤ n) :
    (parseStatement env sn (n + 1)).run (S s (printCmdE name lp a0 more rp ++ t :: tl) B C i j) =
      .ok (([cmdNode j name ((a0 :: more.map (·.2)).map (renderArgE (substC s.constants)))],
          impArgs sn j name 0 (a0 :: more.map (·.2))),
        S s (rp :: t :: tl) B C i (j + 1)) := by
  rw [stmt_cmd_gen env sn n _ (by simp [printCmdE, S_toks, hn]) (label_none _
      (by simp [printCmdE, S_toks, hlp]) (by
        have := cmdI_not_label a0 more rp t tl s.eof h0 hm ht
        simpa [printCmdE, S_toks, S_eof, hlp] using this)),
    cmdI_S env sn s B C i j name lp a0 more rp (t :: tl) hlp hrp h0 hm n hf]
  rfl

theorem stmt_cmdE (name lp rp : Tok) (rest : List Tok) (hn : name.type = .IDENT)
    (hlp : lp.type = .LPAREN) (hrp : rp.type = .RPAREN) :
    (parseStatement env sn (n + 2)).run (S s (name :: lp :: rp :: rest) B C i j) =
      .ok (([cmdNode j name []], {}), S s (rp :: rest) B C i (j + 1)) := by
  rw [stmt_cmd_gen env sn (n + 1) _ (by simp [S_toks, hn]) (label_none _
      (by simp [S_toks, hlp]) (by simp [S_toks, hrp])),
    show S s (name :: lp :: rp :: rest) B C i j = st (S s [] B C i j) (name :: lp :: rp :: rest) from rfl,
    parse_command_empty_parens env sn (S s [] B C i j) name lp rp rest hlp hrp (n + 1) (by omega)]
  rfl

theorem stmt_cmd0 (name t : Tok) (tl : List Tok) (hn : name.type = .IDENT)
    (h1 : t.type ≠ .COLON) (h2 : t.type ≠ .LPAREN) :
    (parseStatement env sn (n + 1)).run (S s (name :: t :: tl) B C i j) =
      .ok (([cmdNode j name []], {}), S s (name :: t :: tl) B C i (j + 1)) := by
  rw [stmt_cmd_gen env sn n _ (by simp [S_toks, hn]) (label_none _
      (by simp [S_toks, h1]) (by simp [S_toks, h2])),
    parse_command_bare env sn n _ (by simp [S_toks, h2])]
  rfl

/-- One iteration of the block loop. -/
theorem block_cons (tok : Tok) (acc : List Stmt) (imp : ImpData) (st0 : PState)
    (h1 : (st0.toks.headD st0.eof).type ≠ .RBRACE) (h2 : (st0.toks.headD st0.eof).type ≠ .EOF) :
    (parseBlockStatement env sn tok (n + 1) acc imp).run st0 =
      match (parseStatement env sn n).run st0 with
      | .error e => .error e
      | .ok ((stmts, simp), s1) =>
        (parseBlockStatement env sn tok n (acc ++ stmts) (imp.add simp)).run (st s1 s1.toks.tail) := by
  rw [parseBlockStatement]
  rsimp [bf h1, bf h2]
  cases (parseStatement env sn n).run st0 with
  | error e => rfl
  | ok r => obtain ⟨⟨stmts, simp⟩, s1⟩ := r; rfl

theorem block_nil (tok : Tok) (acc : List Stmt) (imp : ImpData) (st0 : PState)
    (h1 : (st0.toks.headD st0.eof).type = .RBRACE) :
    (parseBlockStatement env sn tok (n + 1) acc imp).run st0 = .ok ((acc, imp), st0) := by
  rw [parseBlockStatement]
  rsimp [bt h1]

theorem swblock_cons (tok : Tok) (acc : List Stmt) (imp : ImpData) (st0 : PState)
    (h1 : (st0.toks.headD st0.eof).type ≠ .RBRACE) (h2 : (st0.toks.headD st0.eof).type ≠ .EOF)
    (h3 : (st0.toks.headD st0.eof).type ≠ .CASE) (h4 : (st0.toks.headD st0.eof).type ≠ .DEFAULT) :
    (parseSwitchBlockStatement env sn tok (n + 1) acc imp).run st0 =
      match (parseStatement env sn n).run st0 with
      | .error e => .error e
      | .ok ((stmts, simp), s1) =>
        (parseSwitchBlockStatement env sn tok n (acc ++ stmts) (imp.add simp)).run (st s1 s1.toks.tail) := by
  rw [parseSwitchBlockStatement]
  rsimp [bf h1, bf h2, bf h3, bf h4]
  cases (parseStatement env sn n).run st0 with
  | error e => rfl
  | ok r => obtain ⟨⟨stmts, simp⟩, s1⟩ := r; rfl

theorem swblock_nil (tok : Tok) (acc : List Stmt) (imp : ImpData) (st0 : PState)
    (h1 : (st0.toks.headD st0.eof).type = .RBRACE ∨ (st0.toks.headD st0.eof).type = .CASE ∨
      (st0.toks.headD st0.eof).type = .DEFAULT) :
    (parseSwitchBlockStatement env sn tok (n + 1) acc imp).run st0 = .ok ((acc, imp), st0) := by
  rw [parseSwitchBlockStatement]
  rcases h1 with h1 | h1 | h1 <;> rsimp [h1] <;> rfl

end
/-! ### what may follow a statement -/

/-- Token types that start a statement. -/
def startT (t : Tok) : Bool :=
  t.type == .IDENT || t.type == .IF || t.type == .WHILE || t.type == .DO || t.type == .BREAK ||
    t.type == .CONTINUE || t.type == .SWITCH || t.type == .PORYSWITCH
/-- Token types that close a statement list: `}` (block), `case` / `default` (switch-case body). -/
def closeT (t : Tok) : Bool := t.type == .RBRACE || t.type == .CASE || t.type == .DEFAULT

/-- What may follow a statement: a statement start, a list closer, or the key of the next poryswitch case
(an identifier or an integer). -/
def folT (t : Tok) : Bool := startT t || closeT t || t.type == .INT

/-- The token list after a statement starts with such a token. -/
def Fol (rest : List Tok) : Prop := ∃ t tl, rest = t :: tl ∧ folT t = true

/-- The next token is `}`. -/
def isRB : List Tok → Bool
  | t :: _ => t.type == .RBRACE
  | [] => false

theorem startT_ne {t : Tok} (h : startT t = true) :
    t.type ≠ .RBRACE ∧ t.type ≠ .EOF ∧ t.type ≠ .CASE ∧ t.type ≠ .DEFAULT ∧ t.type ≠ .COLON ∧
      t.type ≠ .LPAREN ∧ t.type ≠ .ELSEIF ∧ t.type ≠ .ELSE := by
  simp only [startT, Bool.or_eq_true, beq_iff_eq] at h
  rcases h with ((((((h | h) | h) | h) | h) | h) | h) | h <;> rw [h] <;> decide

theorem closeT_ne {t : Tok} (h : closeT t = true) :
    t.type ≠ .EOF ∧ t.type ≠ .COLON ∧ t.type ≠ .LPAREN ∧ t.type ≠ .ELSEIF ∧ t.type ≠ .ELSE := by
  simp only [closeT, Bool.or_eq_true, beq_iff_eq] at h
  rcases h with (h | h) | h <;> rw [h] <;> decide

theorem fol_ne {t : Tok} (h : folT t = true) :
    t.type ≠ .EOF ∧ t.type ≠ .COLON ∧ t.type ≠ .LPAREN ∧ t.type ≠ .ELSEIF ∧ t.type ≠ .ELSE := by
  simp only [folT, Bool.or_eq_true, beq_iff_eq] at h
  rcases h with (h | h) | h
  · have := startT_ne h; exact ⟨this.2.1, this.2.2.2.2.1, this.2.2.2.2.2.1, this.2.2.2.2.2.2.1, this.2.2.2.2.2.2.2⟩
  · exact closeT_ne h
  · rw [h]; decide

/-- A printed statement starts with a statement-start token. -/
theorem printS_head (x : SStmt) (h : swfS x = true) :
    ∃ t tl, printS x = t :: tl ∧ startT t = true := by
  cases x <;> simp only [swfS, Bool.and_eq_true, beq_iff_eq] at h <;>
    refine ⟨_, _, by simp only [printS, printCmd]; rfl, ?_⟩ <;> simp [startT, h]

theorem fol_printL (r : List SStmt) (h : swfL r = true) (c : Tok) (tl : List Tok) (hc : closeT c = true) :
    Fol (printL r ++ c :: tl) := by
  cases r with
  | nil => exact ⟨c, tl, by simp [printL], by simp [folT, hc]⟩
  | cons x r' =>
    simp only [swfL, Bool.and_eq_true] at h
    obtain ⟨t, tl', hp, ht⟩ := printS_head x h.1
    exact ⟨t, tl' ++ (printL r' ++ c :: tl), by simp [printL, hp], by simp [folT, ht]⟩

theorem isRB_printL (r : List SStmt) (h : swfL r = true) (c : Tok) (tl : List Tok) :
    isRB (printL r ++ c :: tl) = (r.isEmpty && c.type == .RBRACE) := by
  cases r with
  | nil => simp [printL, isRB]
  | cons x r' =>
    simp only [swfL, Bool.and_eq_true] at h
    obtain ⟨t, tl', hp, ht⟩ := printS_head x h.1
    simp [printL, hp, isRB, (startT_ne ht).1]

def isPory : SStmt → Bool
  | .pory .. => true
  | _ => false

/-- Only a poryswitch statement starts with the `poryswitch` keyword. -/
theorem head_isPory (x : SStmt) (h : swfS x = true) (t : Tok) (tl : List Tok) (hp : printS x = t :: tl) :
    (t.type == .PORYSWITCH) = isPory x := by
  cases x <;> simp only [swfS, Bool.and_eq_true, beq_iff_eq] at h <;>
    simp only [printS, printCmd, List.cons.injEq] at hp <;> obtain ⟨rfl, -⟩ := hp <;> simp [isPory, h]

/-! ### results -/

/-- Result of a statement-level function from the reference elaboration. -/
def outS (s : PState) (l : List Tok) (B C : List Nat) :
    Except PFail (List Stmt × ImpData × Nat × Nat) → Except PFail ((List Stmt × ImpData) × PState)
  | .ok (a, m, i, j) => .ok ((a, m), S s l B C i j)
  | .error e => .error e

/-- Result of a block loop started with the accumulators `acc`, `imp`. -/
def outB (s : PState) (l : List Tok) (B C : List Nat) (acc : List Stmt) (imp : ImpData) :
    Except PFail (List Stmt × ImpData × Nat × Nat) → Except PFail ((List Stmt × ImpData) × PState)
  | .ok (a, m, i, j) => .ok ((acc ++ a, imp.add m), S s l B C i j)
  | .error e => .error e

/-- Result of `parseConditionExpression`. -/
def outC (s : PState) (l : List Tok) (B C : List Nat) (cond : Option BoolExpr) :
    Except PFail (List Stmt × ImpData × Nat × Nat) →
      Except PFail ((Option BoolExpr × List Stmt × ImpData) × PState)
  | .ok (a, m, i, j) => .ok ((cond, a, m), S s l B C i j)
  | .error e => .error e

/-- Result of `parseElifs`. -/
def outE (s : PState) (l : List Tok) (B C : List Nat) (acc : List (BoolExpr × List Stmt)) (imp : ImpData) :
    Except PFail (List (BoolExpr × List Stmt) × ImpData × Nat × Nat) →
      Except PFail ((List (BoolExpr × List Stmt) × ImpData) × PState)
  | .ok (a, m, i, j) => .ok ((acc ++ a, imp.add m), S s l B C i j)
  | .error e => .error e

/-- Result of `parseSwitchCases`. -/
def outK (s : PState) (l : List Tok) (B C : List Nat) (acc : List SwitchCase) (hd : Bool) (imp : ImpData) :
    Except PFail (List SwitchCase × ImpData × Nat × Nat) →
      Except PFail ((List SwitchCase × Bool × ImpData) × PState)
  | .ok (a, m, i, j) => .ok ((acc ++ a, hd, imp.add m), S s l B C i j)
  | .error e => .error e

/-- Result of `parsePoryswitchStatementCases`. -/
def outP (s : PState) (l : List Tok) (B C : List Nat) :
    Except PFail (List (String × List Stmt × ImpData) × Nat × Nat) →
      Except PFail (List (String × List Stmt × ImpData) × PState)
  | .ok (a, i, j) => .ok (a, S s l B C i j)
  | .error e => .error e

def SCase.isDflt : SCase → Bool
  | .case .. => false
  | .dflt .. => true

/-- The specification of the statement block at fuel `n` (parse ∘ print = elaborate, errors included). -/
structure Spec (n : Nat) : Prop where
  stmt : ∀ (env : Env) (sn : String) (s : PState) (B C : List Nat) (i j : Nat) (x : SStmt) (rest : List Tok),
    swfS x = true → Fol rest → needS x ≤ n →
    (parseStatement env sn n).run (S s (printS x ++ rest) B C i j) =
      outS s (lastS x :: rest) B C (elabS env sn (substC s.constants) B C (isRB rest) x i j)
  block : ∀ (env : Env) (sn : String) (tok : Tok) (s : PState) (B C : List Nat) (i j : Nat) (b : List SStmt)
    (acc : List Stmt) (imp : ImpData) (rb : Tok) (rest : List Tok),
    swfL b = true → rb.type = .RBRACE → needL b ≤ n →
    (parseBlockStatement env sn tok n acc imp).run (S s (printL b ++ rb :: rest) B C i j) =
      outB s (rb :: rest) B C acc imp (elabL env sn (substC s.constants) B C true b i j)
  swblock : ∀ (env : Env) (sn : String) (tok : Tok) (s : PState) (B C : List Nat) (i j : Nat)
    (b : List SStmt) (acc : List Stmt) (imp : ImpData) (c : Tok) (rest : List Tok),
    swfL b = true → closeT c = true → needL b ≤ n →
    (parseSwitchBlockStatement env sn tok n acc imp).run (S s (printL b ++ c :: rest) B C i j) =
      outB s (c :: rest) B C acc imp (elabL env sn (substC s.constants) B C (c.type == .RBRACE) b i j)
  cond1 : ∀ (env : Env) (sn : String) (req : Bool) (s : PState) (B C : List Nat) (i j : Nat) (pre lp : Tok)
    (c : SCond) (rp lb : Tok) (body : List SStmt) (rb : Tok) (rest : List Tok),
    lp.type = .LPAREN → rp.type = .RPAREN → lb.type = .LBRACE → rb.type = .RBRACE → swfL body = true →
    swfCond c = true → 1 + needCond c + needL body ≤ n →
    (parseConditionExpression env sn req n).run
        (S s (pre :: lp :: (printCond c ++ rp :: lb :: (printL body ++ rb :: rest))) B C i j) =
      match elabCond env (substC s.constants) c j with
      | .error e => .error e
      | .ok (t, j0) =>
        outC s (rb :: rest) B C (some t) (elabL env sn (substC s.constants) B C true body i j0)
  cond0 : ∀ (env : Env) (sn : String) (s : PState) (B C : List Nat) (i j : Nat) (pre lb : Tok)
    (body : List SStmt) (rb : Tok) (rest : List Tok),
    lb.type = .LBRACE → rb.type = .RBRACE → swfL body = true → 1 + needL body ≤ n →
    (parseConditionExpression env sn false n).run (S s (pre :: lb :: (printL body ++ rb :: rest)) B C i j) =
      outC s (rb :: rest) B C none (elabL env sn (substC s.constants) B C true body i j)
  elifs : ∀ (env : Env) (sn : String) (s : PState) (B C : List Nat) (i j : Nat)
    (acc : List (BoolExpr × List Stmt)) (imp : ImpData) (es : List SElif) (pre : Tok) (rest : List Tok),
    swfElifs es = true → (∃ t tl, rest = t :: tl ∧ t.type ≠ .ELSEIF) → needElifs es ≤ n →
    (parseElifs env sn n acc imp).run (S s (pre :: (printElifs es ++ rest)) B C i j) =
      outE s (lastElifs es pre :: rest) B C acc imp (elabElifs env sn (substC s.constants) B C es i j)
  ifs : ∀ (env : Env) (sn : String) (s : PState) (B C : List Nat) (i j : Nat) (ifTok lp : Tok) (c : SCond)
    (rp lb : Tok) (body : List SStmt) (rb : Tok) (elifs : List SElif) (els : SElse) (rest : List Tok),
    swfS (.ite ifTok lp c rp lb body rb elifs els) = true → Fol rest →
    needS (.ite ifTok lp c rp lb body rb elifs els) ≤ n + 1 →
    (parseIfStatement env sn n).run (S s (printS (.ite ifTok lp c rp lb body rb elifs els) ++ rest) B C i j) =
      outS s (lastS (.ite ifTok lp c rp lb body rb elifs els) :: rest) B C
        (elabS env sn (substC s.constants) B C (isRB rest) (.ite ifTok lp c rp lb body rb elifs els) i j)
  whiles : ∀ (env : Env) (sn : String) (s : PState) (B C : List Nat) (i j : Nat) (w lp : Tok) (c : SCond)
    (rp lb : Tok) (body : List SStmt) (rb : Tok) (rest : List Tok),
    swfS (.while_ w lp c rp lb body rb) = true → needS (.while_ w lp c rp lb body rb) ≤ n + 1 →
    (parseWhileStatement env sn n).run (S s (printS (.while_ w lp c rp lb body rb) ++ rest) B C i j) =
      outS s (rb :: rest) B C (elabS env sn (substC s.constants) B C (isRB rest) (.while_ w lp c rp lb body rb) i j)
  whileInfs : ∀ (env : Env) (sn : String) (s : PState) (B C : List Nat) (i j : Nat) (w lb : Tok)
    (body : List SStmt) (rb : Tok) (rest : List Tok),
    swfS (.whileInf w lb body rb) = true → needS (.whileInf w lb body rb) ≤ n + 1 →
    (parseWhileStatement env sn n).run (S s (printS (.whileInf w lb body rb) ++ rest) B C i j) =
      outS s (rb :: rest) B C (elabS env sn (substC s.constants) B C (isRB rest) (.whileInf w lb body rb) i j)
  doWhiles : ∀ (env : Env) (sn : String) (s : PState) (B C : List Nat) (i j : Nat) (d lb : Tok)
    (body : List SStmt) (rb w lp : Tok) (c : SCond) (rp : Tok) (rest : List Tok),
    swfS (.doWhile d lb body rb w lp c rp) = true → needS (.doWhile d lb body rb w lp c rp) ≤ n + 1 →
    (parseDoWhileStatement env sn n).run (S s (printS (.doWhile d lb body rb w lp c rp) ++ rest) B C i j) =
      outS s (rp :: rest) B C
        (elabS env sn (substC s.constants) B C (isRB rest) (.doWhile d lb body rb w lp c rp) i j)
  cases : ∀ (env : Env) (sn : String) (brace : Tok) (s : PState) (B C : List Nat) (i j : Nat)
    (acc : List SwitchCase) (seen : List String) (hd : Bool) (imp : ImpData) (cs : List SCase) (rb : Tok)
    (rest : List Tok),
    swfCases cs = true → rb.type = .RBRACE → needCases cs ≤ n →
    (parseSwitchCases env sn brace n acc seen hd imp).run (S s (printCases cs ++ rb :: rest) B C i j) =
      outK s (rb :: rest) B C acc (hd || cs.any SCase.isDflt) imp
        (elabCases env sn (substC s.constants) B C cs seen hd i j)
  switch : ∀ (env : Env) (sn : String) (s : PState) (B C : List Nat) (i j : Nat) (sw lp v lp2 : Tok)
    (ops : List Tok) (rp2 rp lb : Tok) (cs : List SCase) (rb : Tok) (rest : List Tok),
    swfS (.switch_ sw lp v lp2 ops rp2 rp lb cs rb) = true →
    needS (.switch_ sw lp v lp2 ops rp2 rp lb cs rb) ≤ n + 1 →
    (parseSwitchStatement env sn n).run
        (S s (printS (.switch_ sw lp v lp2 ops rp2 rp lb cs rb) ++ rest) B C i j) =
      outS s (rb :: rest) B C
        (elabS env sn (substC s.constants) B C (isRB rest) (.switch_ sw lp v lp2 ops rp2 rp lb cs rb) i j)
  switchA : ∀ (env : Env) (sn : String) (s : PState) (B C : List Nat) (i j : Nat) (sw lp name lp2 : Tok)
    (a0 : List Tok) (more : List (Tok × List Tok)) (rp2 rp lb : Tok) (cs : List SCase) (rb : Tok)
    (rest : List Tok),
    swfS (.switchA sw lp name lp2 a0 more rp2 rp lb cs rb) = true →
    needS (.switchA sw lp name lp2 a0 more rp2 rp lb cs rb) ≤ n + 1 →
    (parseSwitchStatement env sn n).run
        (S s (printS (.switchA sw lp name lp2 a0 more rp2 rp lb cs rb) ++ rest) B C i j) =
      outS s (rb :: rest) B C
        (elabS env sn (substC s.constants) B C (isRB rest) (.switchA sw lp name lp2 a0 more rp2 rp lb cs rb) i j)
  pory : ∀ (env : Env) (sn : String) (s : PState) (B C : List Nat) (i j : Nat) (ps lp x rp lb : Tok)
    (cs : List SPCase) (rb : Tok) (rest : List Tok),
    swfS (.pory ps lp x rp lb cs rb) = true → needS (.pory ps lp x rp lb cs rb) ≤ n + 1 →
    (parsePoryswitchStatement env sn n).run (S s (printS (.pory ps lp x rp lb cs rb) ++ rest) B C i j) =
      outS s (rb :: rest) B C
        (elabS env sn (substC s.constants) B C (isRB rest) (.pory ps lp x rp lb cs rb) i j)
  pcases : ∀ (env : Env) (sn : String) (startTok : Tok) (s : PState) (B C : List Nat) (i j : Nat)
    (acc : List (String × List Stmt × ImpData)) (cs : List SPCase) (rb : Tok) (rest : List Tok),
    swfPCases cs = true → rb.type = .RBRACE → needPCases cs ≤ n →
    (parsePoryswitchStatementCases env sn startTok n acc).run (S s (printPCases cs ++ rb :: rest) B C i j) =
      outP s (rb :: rest) B C (elabPCases env sn (substC s.constants) B C cs acc i j)
  pstmts : ∀ (env : Env) (sn : String) (s : PState) (B C : List Nat) (i j : Nat) (b : List SStmt)
    (acc : List Stmt) (imp : ImpData) (rb : Tok) (rest : List Tok),
    swfL b = true → rb.type = .RBRACE → needL b ≤ n →
    (parsePoryswitchStatements env sn true n acc imp).run (S s (printL b ++ rb :: rest) B C i j) =
      outB s (rb :: rest) B C acc imp (elabL env sn (substC s.constants) B C true b i j)
  pstmt1 : ∀ (env : Env) (sn : String) (s : PState) (B C : List Nat) (i j : Nat) (x : SStmt)
    (rest : List Tok), swfS x = true → Fol rest → needS x + 1 ≤ n →
    (parsePoryswitchStatements env sn false n [] {}).run (S s (printS x ++ rest) B C i j) =
      outB s rest B C [] {} (elabS env sn (substC s.constants) B C (isRB rest) x i j)

section
variable {n : Nat} (ih : Spec n) (env : Env) (sn : String) (s : PState) (B C : List Nat) (i j : Nat)
include ih

theorem block_step (tok : Tok) (b : List SStmt) (acc : List Stmt) (imp : ImpData) (rb : Tok)
    (rest : List Tok) (hb : swfL b = true) (hrb : rb.type = .RBRACE) (hf : needL b ≤ n + 1) :
    (parseBlockStatement env sn tok (n + 1) acc imp).run (S s (printL b ++ rb :: rest) B C i j) =
      outB s (rb :: rest) B C acc imp (elabL env sn (substC s.constants) B C true b i j) := by
  cases b with
  | nil =>
    rw [block_nil env sn n tok acc imp _ (by simp [printL, S_toks, hrb])]
    simp [printL, elabL, outB, add_nil]
  | cons x r =>
    simp only [swfL, Bool.and_eq_true] at hb
    simp only [needL] at hf
    obtain ⟨t, tl, hp, ht⟩ := printS_head x hb.1
    have hne := startT_ne ht
    have hfol := fol_printL r hb.2 rb rest (by simp [closeT, hrb])
    have h1 := ih.stmt env sn s B C i j x (printL r ++ rb :: rest) hb.1 hfol (by omega)
    rw [isRB_printL r hb.2] at h1
    have hw : printL (x :: r) ++ rb :: rest = printS x ++ (printL r ++ rb :: rest) := by
      simp [printL]
    rw [hw, block_cons env sn n tok acc imp _ (by simp [S_toks, hp, hne.1]) (by simp [S_toks, hp, hne.2.1]), h1]
    simp only [elabL, bt hrb]
    cases elabS env sn (substC s.constants) B C (r.isEmpty && true) x i j with
    | error e => rfl
    | ok v =>
      obtain ⟨a, m1, i1, j1⟩ := v
      simp only [outS, S_toks, st_S, List.tail_cons]
      rw [ih.block env sn tok s B C i1 j1 r (acc ++ a) (imp.add m1) rb rest hb.2 hrb (by omega)]
      cases elabL env sn (substC s.constants) B C true r i1 j1 with
      | error e => rfl
      | ok w => obtain ⟨b', m2, i2, j2⟩ := w; simp [outB, add_assoc]

theorem swblock_step (tok : Tok) (b : List SStmt) (acc : List Stmt) (imp : ImpData) (c : Tok)
    (rest : List Tok) (hb : swfL b = true) (hc : closeT c = true) (hf : needL b ≤ n + 1) :
    (parseSwitchBlockStatement env sn tok (n + 1) acc imp).run (S s (printL b ++ c :: rest) B C i j) =
      outB s (c :: rest) B C acc imp (elabL env sn (substC s.constants) B C (c.type == .RBRACE) b i j) := by
  cases b with
  | nil =>
    rw [swblock_nil env sn n tok acc imp _ (by
      simpa [printL, S_toks, closeT, or_assoc] using hc)]
    simp [printL, elabL, outB, add_nil]
  | cons x r =>
    simp only [swfL, Bool.and_eq_true] at hb
    simp only [needL] at hf
    obtain ⟨t, tl, hp, ht⟩ := printS_head x hb.1
    have hne := startT_ne ht
    have hfol := fol_printL r hb.2 c rest hc
    have h1 := ih.stmt env sn s B C i j x (printL r ++ c :: rest) hb.1 hfol (by omega)
    rw [isRB_printL r hb.2] at h1
    have hw : printL (x :: r) ++ c :: rest = printS x ++ (printL r ++ c :: rest) := by
      simp [printL]
    rw [hw, swblock_cons env sn n tok acc imp _ (by simp [S_toks, hp, hne.1]) (by simp [S_toks, hp, hne.2.1])
      (by simp [S_toks, hp, hne.2.2.1]) (by simp [S_toks, hp, hne.2.2.2.1]), h1]
    simp only [elabL]
    cases elabS env sn (substC s.constants) B C (r.isEmpty && c.type == .RBRACE) x i j with
    | error e => rfl
    | ok v =>
      obtain ⟨a, m1, i1, j1⟩ := v
      simp only [outS, S_toks, st_S, List.tail_cons]
      rw [ih.swblock env sn tok s B C i1 j1 r (acc ++ a) (imp.add m1) c rest hb.2 hc (by omega)]
      cases elabL env sn (substC s.constants) B C (c.type == .RBRACE) r i1 j1 with
      | error e => rfl
      | ok w => obtain ⟨b', m2, i2, j2⟩ := w; simp [outB, add_assoc]

end

/-! ### run-lemmas for the scope primitives and `expectPeekErr` -/
section
variable (s : PState) (l : List Tok) (B C : List Nat) (i j : Nat)

theorem run_newSid_S : newSid.run (S s l B C i j) = .ok (i, S s l B C (i + 1) j) := id rfl
theorem run_pushBreak_S (k : Nat) : (pushBreak k).run (S s l B C i j) = .ok ((), S s l (k :: B) C i j) := id rfl
theorem run_popBreak_S : popBreak.run (S s l B C i j) = .ok ((), S s l B.tail C i j) := id rfl
theorem run_pushContinue_S (k : Nat) :
    (pushContinue k).run (S s l B C i j) = .ok ((), S s l B (k :: C) i j) := id rfl
theorem run_popContinue_S : popContinue.run (S s l B C i j) = .ok ((), S s l B C.tail i j) := id rfl

theorem run_expectPeekErr_ok (t : TT) (st0 : PState) (h : (st0.toks.getD 1 st0.eof).type = t) :
    (expectPeekErr t).run st0 = .ok ((), st st0 st0.toks.tail) := by
  unfold expectPeekErr
  rsimp [bt h]

end

/-! ### dispatch of `parseStatement` -/
section
variable (env : Env) (sn : String) (n : Nat) (st0 : PState)

theorem stmt_if (h : (st0.toks.headD st0.eof).type = .IF) :
    (parseStatement env sn (n + 1)).run st0 = (parseIfStatement env sn n).run st0 := by
  rw [parseStatement]; rsimp [h]
theorem stmt_while (h : (st0.toks.headD st0.eof).type = .WHILE) :
    (parseStatement env sn (n + 1)).run st0 = (parseWhileStatement env sn n).run st0 := by
  rw [parseStatement]; rsimp [h]
theorem stmt_do (h : (st0.toks.headD st0.eof).type = .DO) :
    (parseStatement env sn (n + 1)).run st0 = (parseDoWhileStatement env sn n).run st0 := by
  rw [parseStatement]; rsimp [h]
theorem stmt_switch (h : (st0.toks.headD st0.eof).type = .SWITCH) :
    (parseStatement env sn (n + 1)).run st0 = (parseSwitchStatement env sn n).run st0 := by
  rw [parseStatement]; rsimp [h]
theorem stmt_pory (h : (st0.toks.headD st0.eof).type = .PORYSWITCH) :
    (parseStatement env sn (n + 1)).run st0 = (parsePoryswitchStatement env sn n).run st0 := by
  rw [parseStatement]; rsimp [h]

/-- The statement parser `parsePoryswitchStatements` calls for the current token. -/
def stmtOrPory (env : Env) (sn : String) (n : Nat) (st0 : PState) : PM (List Stmt × ImpData) :=
  if (st0.toks.headD st0.eof).type == .PORYSWITCH then parsePoryswitchStatement env sn n
  else parseStatement env sn n

/-- One iteration of the statement loop of a poryswitch case. -/
theorem pstmts_cons (am : Bool) (acc : List Stmt) (imp : ImpData)
    (h1 : (st0.toks.headD st0.eof).type ≠ .RBRACE) :
    (parsePoryswitchStatements env sn am (n + 1) acc imp).run st0 =
      match (stmtOrPory env sn n st0).run st0 with
      | .error e => .error e
      | .ok ((stmts, simp), s1) =>
        if am then
          (parsePoryswitchStatements env sn am n (acc ++ stmts) (imp.add simp)).run (st s1 s1.toks.tail)
        else .ok ((acc ++ stmts, imp.add simp), st s1 s1.toks.tail) := by
  rw [parsePoryswitchStatements]
  unfold stmtOrPory
  by_cases hp : (st0.toks.headD st0.eof).type = .PORYSWITCH
  · rsimp [bf h1, bt hp]
    cases (parsePoryswitchStatement env sn n).run st0 with
    | error e => rfl
    | ok r => obtain ⟨⟨stmts, simp⟩, s1⟩ := r; cases am <;> rfl
  · rsimp [bf h1, bf hp]
    cases (parseStatement env sn n).run st0 with
    | error e => rfl
    | ok r => obtain ⟨⟨stmts, simp⟩, s1⟩ := r; cases am <;> rfl

theorem pstmts_nil (am : Bool) (acc : List Stmt) (imp : ImpData)
    (h1 : (st0.toks.headD st0.eof).type = .RBRACE) :
    (parsePoryswitchStatements env sn am (n + 1) acc imp).run st0 = .ok ((acc, imp), st0) := by
  rw [parsePoryswitchStatements]
  rsimp [bt h1]

theorem pcases_colon (startTok : Tok) (acc : List (String × List Stmt × ImpData)) (s : PState)
    (B C : List Nat) (i j : Nat) (key c : Tok) (tl : List Tok)
    (hk : key.type = .IDENT ∨ key.type = .INT) (hc : c.type = .COLON) :
    (parsePoryswitchStatementCases env sn startTok (n + 1) acc).run (S s (key :: c :: tl) B C i j) =
      match (parsePoryswitchStatements env sn false n [] {}).run (S s tl B C i j) with
      | .error e => .error e
      | .ok ((stmts, simp), s1) =>
        (parsePoryswitchStatementCases env sn startTok n ((key.lit, stmts, simp) :: acc)).run s1 := by
  rw [parsePoryswitchStatementCases]
  have h1 : (key.type == TT.RBRACE) = false := by rcases hk with h | h <;> rw [h] <;> decide
  have h2 : (key.type == TT.EOF) = false := by rcases hk with h | h <;> rw [h] <;> decide
  have h3 : (key.type != TT.IDENT && key.type != TT.INT) = false := by
    rcases hk with h | h <;> rw [h] <;> decide
  have h5 : (c.type == TT.LBRACE) = false := by rw [hc]; decide
  psimp [h1, h2, h3, bt hc, h5]
  cases (parsePoryswitchStatements env sn false n [] {}).run (S s tl B C i j) with
  | error e => rfl
  | ok r => obtain ⟨⟨stmts, simp⟩, s1⟩ := r; rfl

theorem pcases_brace (startTok : Tok) (acc : List (String × List Stmt × ImpData)) (s : PState)
    (B C : List Nat) (i j : Nat) (key lb : Tok) (tl : List Tok)
    (hk : key.type = .IDENT ∨ key.type = .INT) (hlb : lb.type = .LBRACE) :
    (parsePoryswitchStatementCases env sn startTok (n + 1) acc).run (S s (key :: lb :: tl) B C i j) =
      match (parsePoryswitchStatements env sn true n [] {}).run (S s tl B C i j) with
      | .error e => .error e
      | .ok ((stmts, simp), s1) =>
        if (s1.toks.headD s1.eof).type == .RBRACE then
          (parsePoryswitchStatementCases env sn startTok n ((key.lit, stmts, simp) :: acc)).run
            (st s1 s1.toks.tail)
        else .error (newParseError key s!"missing closing curly brace for poryswitch case '{key.lit}'") := by
  rw [parsePoryswitchStatementCases]
  have h1 : (key.type == TT.RBRACE) = false := by rcases hk with h | h <;> rw [h] <;> decide
  have h2 : (key.type == TT.EOF) = false := by rcases hk with h | h <;> rw [h] <;> decide
  have h3 : (key.type != TT.IDENT && key.type != TT.INT) = false := by
    rcases hk with h | h <;> rw [h] <;> decide
  have h4 : (lb.type == TT.COLON) = false := by rw [hlb]; decide
  psimp [h1, h2, h3, h4, bt hlb]
  cases (parsePoryswitchStatements env sn true n [] {}).run (S s tl B C i j) with
  | error e => rfl
  | ok r =>
    obtain ⟨⟨stmts, simp⟩, s1⟩ := r
    by_cases hr : ((s1.toks.headD s1.eof).type == TT.RBRACE) = true
    · rsimp [hr]
    · rsimp [hr]

/-- The header of a poryswitch statement: what the environment decides. -/
def hdrErr (env : Env) (ps x : Tok) : Option PFail :=
  if env.envErrors && env.switches.isEmpty then some (noSwitchesErr ps)
  else if env.envErrors && (env.switches.lookup x.lit).isNone then some (undefinedSwitchErr x)
  else none

theorem header_S (s : PState) (B C : List Nat) (i j : Nat) (ps lp x rp lb : Tok) (tl : List Tok)
    (hlp : lp.type = .LPAREN) (hx : x.type = .IDENT) (hrp : rp.type = .RPAREN) (hlb : lb.type = .LBRACE) :
    (parsePoryswitchHeader env).run (S s (ps :: lp :: x :: rp :: lb :: tl) B C i j) =
      match hdrErr env ps x with
      | some e => .error e
      | none => .ok ((x.lit, swVal env x.lit), S s tl B C i j) := by
  unfold hdrErr
  cases he : env.envErrors with
  | false =>
    simp only [Bool.false_and, Bool.false_eq_true, if_false]
    exact header_run env (S s [] B C i j) ps lp x rp lb tl hlp hx hrp hlb (Or.inl he)
  | true =>
    cases hs : env.switches with
    | nil =>
      simp only [Bool.true_and, List.isEmpty_nil, if_true]
      exact header_no_switches env (S s [] B C i j) ps _ he hs
    | cons a r =>
      have hne : env.switches ≠ [] := by rw [hs]; simp
      rw [← hs]
      cases hl : env.switches.lookup x.lit with
      | none =>
        simp only [Bool.true_and, hs, List.isEmpty_cons, Bool.false_eq_true, if_false, Option.isNone_none,
          if_true]
        exact header_undefined_switch env (S s [] B C i j) ps lp x _ hlp hx he hne hl
      | some v =>
        simp only [Bool.true_and, hs, List.isEmpty_cons, Bool.false_eq_true, if_false, Option.isNone_some]
        exact header_run env (S s [] B C i j) ps lp x rp lb tl hlp hx hrp hlb (Or.inr ⟨hne, by rw [hl]; rfl⟩)

theorem pcases_nil (startTok : Tok) (acc : List (String × List Stmt × ImpData))
    (h1 : (st0.toks.headD st0.eof).type = .RBRACE) :
    (parsePoryswitchStatementCases env sn startTok (n + 1) acc).run st0 = .ok (acc, st0) := by
  rw [parsePoryswitchStatementCases]
  rsimp [bt h1]

end

section
variable {n : Nat} (ih : Spec n) (env : Env) (sn : String) (s : PState) (B C : List Nat) (i j : Nat)
include ih

theorem stmt_step (x : SStmt) (rest : List Tok) (hx : swfS x = true) (hfol : Fol rest)
    (hf : needS x ≤ n + 1) :
    (parseStatement env sn (n + 1)).run (S s (printS x ++ rest) B C i j) =
      outS s (lastS x :: rest) B C (elabS env sn (substC s.constants) B C (isRB rest) x i j) := by
  obtain ⟨t, tl, rfl, ht⟩ := hfol
  have hne := fol_ne ht
  cases x with
  | cmd name lp a0 more rp =>
    simp only [swfS, Bool.and_eq_true, beq_iff_eq, decide_eq_true_eq, List.all_eq_true] at hx
    simp only [needS] at hf
    obtain ⟨⟨⟨⟨h1, h2⟩, h3⟩, h4⟩, h5⟩ := hx
    simp only [printS, lastS, elabS, outS]
    exact stmt_cmd env sn s B C i j n name lp a0 more rp t tl h1 h2 h3 h4 h5 hne.2.1 (by omega)
  | cmdI name lp a0 more rp =>
    simp only [swfS, Bool.and_eq_true, beq_iff_eq, List.all_eq_true] at hx
    simp only [needS] at hf
    obtain ⟨⟨⟨⟨h1, h2⟩, h3⟩, h4⟩, h5⟩ := hx
    simp only [printS, lastS, elabS, outS]
    exact stmt_cmdI env sn s B C i j n name lp a0 more rp t tl h1 h2 h3 h4 h5 hne.2.1 (by omega)
  | cmdE name lp rp =>
    simp only [swfS, Bool.and_eq_true, beq_iff_eq] at hx
    simp only [needS] at hf
    obtain ⟨m, rfl⟩ : ∃ m, n = m + 1 := ⟨n - 1, by omega⟩
    simp only [printS, lastS, elabS, outS]
    exact stmt_cmdE env sn s B C i j m name lp rp _ hx.1.1 hx.1.2 hx.2
  | cmd0 name =>
    simp only [swfS, beq_iff_eq] at hx
    simp only [printS, lastS, elabS, outS]
    exact stmt_cmd0 env sn s B C i j n name t tl hx hne.2.1 hne.2.2.1
  | label name colon =>
    simp only [swfS, Bool.and_eq_true, beq_iff_eq] at hx
    simp only [printS, lastS, elabS, outS]
    exact stmt_label env sn s B C i j n name colon _ hx.1 hx.2
  | labelS name lp sc rp colon =>
    simp only [swfS, Bool.and_eq_true, beq_iff_eq, Bool.or_eq_true] at hx
    simp only [printS, lastS, elabS, outS]
    exact stmt_labelS env sn s B C i j n name lp sc rp colon _ hx.1.1.1.1 hx.1.1.1.2 hx.1.1.2 hx.1.2 hx.2
  | ite ifTok lp c rp lb body rb elifs els =>
    have h0 : ifTok.type = .IF := by
      simp only [swfS, Bool.and_eq_true, beq_iff_eq] at hx; exact hx.1.1.1.1.1.1.1.1
    rw [stmt_if env sn n _ (by simp [printS, S_toks, h0])]
    exact ih.ifs env sn s B C i j ifTok lp c rp lb body rb elifs els _ hx ⟨t, tl, rfl, ht⟩ hf
  | while_ w lp c rp lb body rb =>
    have h0 : w.type = .WHILE := by
      simp only [swfS, Bool.and_eq_true, beq_iff_eq] at hx; exact hx.1.1.1.1.1.1
    rw [stmt_while env sn n _ (by simp [printS, S_toks, h0])]
    exact ih.whiles env sn s B C i j w lp c rp lb body rb _ hx hf
  | whileInf w lb body rb =>
    have h0 : w.type = .WHILE := by
      simp only [swfS, Bool.and_eq_true, beq_iff_eq] at hx; exact hx.1.1.1
    rw [stmt_while env sn n _ (by simp [printS, S_toks, h0])]
    exact ih.whileInfs env sn s B C i j w lb body rb _ hx hf
  | doWhile d lb body rb w lp c rp =>
    have h0 : d.type = .DO := by
      simp only [swfS, Bool.and_eq_true, beq_iff_eq] at hx; exact hx.1.1.1.1.1.1.1
    rw [stmt_do env sn n _ (by simp [printS, S_toks, h0])]
    exact ih.doWhiles env sn s B C i j d lb body rb w lp c rp _ hx hf
  | brk b =>
    simp only [swfS, beq_iff_eq] at hx
    simp only [printS, lastS, elabS, List.cons_append, List.nil_append]
    rw [stmt_brk env sn s B C i j n b _ hx]
    cases B <;> rfl
  | cont c =>
    simp only [swfS, beq_iff_eq] at hx
    simp only [printS, lastS, elabS, List.cons_append, List.nil_append, isRB]
    rw [stmt_cont env sn s B C i j n c t tl hx]
    cases C with
    | nil => rfl
    | cons k C' =>
      by_cases hrb : (t.type == TT.RBRACE) = true
      · simp only [hrb, if_true]; rfl
      · simp only [hrb]; rfl
  | switch_ sw lp v lp2 ops rp2 rp lb cs rb =>
    have h0 : sw.type = .SWITCH := by
      simp only [swfS, Bool.and_eq_true, beq_iff_eq] at hx; exact hx.1.1.1.1.1.1.1.1.1
    rw [stmt_switch env sn n _ (by simp [printS, S_toks, h0])]
    exact ih.switch env sn s B C i j sw lp v lp2 ops rp2 rp lb cs rb _ hx hf
  | switchA sw lp name lp2 a0 more rp2 rp lb cs rb =>
    have h0 : sw.type = .SWITCH := by
      simp only [swfS, Bool.and_eq_true, beq_iff_eq] at hx; exact hx.1.1.1.1.1.1.1.1.1.1
    rw [stmt_switch env sn n _ (by simp [printS, S_toks, h0])]
    exact ih.switchA env sn s B C i j sw lp name lp2 a0 more rp2 rp lb cs rb _ hx hf
  | pory ps lp x rp lb cs rb =>
    have h0 : ps.type = .PORYSWITCH := by
      simp only [swfS, Bool.and_eq_true, beq_iff_eq] at hx; exact hx.1.1.1.1.1.1
    rw [stmt_pory env sn n _ (by simp [printS, S_toks, h0])]
    exact ih.pory env sn s B C i j ps lp x rp lb cs rb _ hx hf

theorem cond1_step (req : Bool) (pre lp : Tok) (c : SCond) (rp lb : Tok) (body : List SStmt) (rb : Tok)
    (rest : List Tok) (hlp : lp.type = .LPAREN) (hrp : rp.type = .RPAREN) (hlb : lb.type = .LBRACE)
    (hrb : rb.type = .RBRACE) (hb : swfL body = true) (hc : swfCond c = true)
    (hf : 1 + needCond c + needL body ≤ n + 1) :
    (parseConditionExpression env sn req (n + 1)).run
        (S s (pre :: lp :: (printCond c ++ rp :: lb :: (printL body ++ rb :: rest))) B C i j) =
      match elabCond env (substC s.constants) c j with
      | .error e => .error e
      | .ok (t, j0) =>
        outC s (rb :: rest) B C (some t) (elabL env sn (substC s.constants) B C true body i j0) := by
  rw [parseConditionExpression]
  have h1 : (lp.type == TT.LBRACE) = false := by rw [hlp]; decide
  psimp [h1, bt hlp, cond_S env sn s B C i j c lp rp _ hc hrp n (by omega)]
  cases elabCond env (substC s.constants) c j with
  | error e => rfl
  | ok v =>
    obtain ⟨t, j0⟩ := v
    simp only [ex_bind_ok]
    psimp [run_expectPeekErr_ok .LBRACE (S s (rp :: lb :: (printL body ++ rb :: rest)) B C i j0)
        (by simp [S_toks, hlb]),
      ih.block env sn lb s B C i j0 body [] {} rb rest hb hrb (by omega)]
    cases elabL env sn (substC s.constants) B C true body i j0 with
    | error e => rfl
    | ok v => obtain ⟨a, m1, i1, j1⟩ := v; rfl

theorem cond0_step (pre lb : Tok) (body : List SStmt) (rb : Tok) (rest : List Tok)
    (hlb : lb.type = .LBRACE) (hrb : rb.type = .RBRACE) (hb : swfL body = true)
    (hf : 1 + needL body ≤ n + 1) :
    (parseConditionExpression env sn false (n + 1)).run
        (S s (pre :: lb :: (printL body ++ rb :: rest)) B C i j) =
      outC s (rb :: rest) B C none (elabL env sn (substC s.constants) B C true body i j) := by
  rw [parseConditionExpression]
  psimp [bt hlb,
    run_expectPeekErr_ok .LBRACE (S s (pre :: lb :: (printL body ++ rb :: rest)) B C i j) (by simp [S_toks, hlb]),
    ih.block env sn lb s B C i j body [] {} rb rest hb hrb (by omega)]
  cases elabL env sn (substC s.constants) B C true body i j with
  | error e => rfl
  | ok v => obtain ⟨a, m1, i1, j1⟩ := v; rfl

theorem elifs_step (acc : List (BoolExpr × List Stmt)) (imp : ImpData) (es : List SElif) (pre : Tok)
    (rest : List Tok) (hes : swfElifs es = true) (hrest : ∃ t tl, rest = t :: tl ∧ t.type ≠ .ELSEIF)
    (hf : needElifs es ≤ n + 1) :
    (parseElifs env sn (n + 1) acc imp).run (S s (pre :: (printElifs es ++ rest)) B C i j) =
      outE s (lastElifs es pre :: rest) B C acc imp (elabElifs env sn (substC s.constants) B C es i j) := by
  cases es with
  | nil =>
    obtain ⟨t, tl, rfl, ht⟩ := hrest
    rw [parseElifs]
    psimp [printElifs, bnf, bnt ht]
    simp [lastElifs, elabElifs, outE, add_nil]
  | cons e r =>
    obtain ⟨eTok, lp, c, rp, lb, body, rb⟩ := e
    simp only [swfElifs, swfElif, Bool.and_eq_true, beq_iff_eq] at hes
    obtain ⟨⟨⟨⟨⟨⟨⟨h1, h2⟩, h3⟩, h4⟩, h5⟩, h6⟩, h8⟩, h7⟩ := hes
    simp only [needElifs] at hf
    rw [parseElifs]
    simp only [printElifs, printElif, List.cons_append, List.append_assoc, List.nil_append]
    psimp [bnf h1, ih.cond1 env sn true s B C i j eTok lp c rp lb body rb (printElifs r ++ rest) h2 h3 h4 h5 h6
      h8 (by omega)]
    simp only [elabElifs, lastElifs, SElif.rb]
    cases elabCond env (substC s.constants) c j with
    | error e => rfl
    | ok u =>
      obtain ⟨t, j0⟩ := u
      simp only
      cases elabL env sn (substC s.constants) B C true body i j0 with
      | error e => rfl
      | ok v =>
        obtain ⟨a, m1, i1, j1⟩ := v
        simp only [outC, ex_bind_ok]
        psimp [ih.elifs env sn s B C i1 j1 (acc ++ [(t, a)]) (imp.add m1) r rb rest h7 hrest (by omega)]
        cases elabElifs env sn (substC s.constants) B C r i1 j1 with
        | error e => rfl
        | ok w => obtain ⟨es', m2, i2, j2⟩ := w; simp [outE, add_assoc]

theorem if_step (ifTok lp : Tok) (c : SCond) (rp lb : Tok) (body : List SStmt) (rb : Tok)
    (elifs : List SElif) (els : SElse) (rest : List Tok)
    (hx : swfS (.ite ifTok lp c rp lb body rb elifs els) = true) (hfol : Fol rest)
    (hf : needS (.ite ifTok lp c rp lb body rb elifs els) ≤ n + 2) :
    (parseIfStatement env sn (n + 1)).run
        (S s (printS (.ite ifTok lp c rp lb body rb elifs els) ++ rest) B C i j) =
      outS s (lastS (.ite ifTok lp c rp lb body rb elifs els) :: rest) B C
        (elabS env sn (substC s.constants) B C (isRB rest) (.ite ifTok lp c rp lb body rb elifs els) i j) := by
  obtain ⟨t, tl, rfl, ht⟩ := hfol
  have hne := fol_ne ht
  simp only [swfS, Bool.and_eq_true, beq_iff_eq] at hx
  obtain ⟨⟨⟨⟨⟨⟨⟨⟨h1, h2⟩, h3⟩, h4⟩, h5⟩, h6⟩, h7⟩, h8⟩, h9⟩ := hx
  simp only [needS] at hf
  rw [parseIfStatement]
  simp only [printS, lastS, elabS, List.cons_append, List.append_assoc]
  psimp [ih.cond1 env sn true s B C i j ifTok lp c rp lb body rb (printElifs elifs ++ (printElse els ++ t :: tl))
    h2 h3 h4 h5 h6 h9 (by omega)]
  cases elabCond env (substC s.constants) c j with
  | error e => rfl
  | ok u =>
  obtain ⟨ct, j0⟩ := u
  simp only
  cases elabL env sn (substC s.constants) B C true body i j0 with
  | error e => rfl
  | ok v =>
    obtain ⟨a, m1, i1, j1⟩ := v
    simp only [outC, ex_bind_ok]
    have hel : ∃ t' tl', printElse els ++ t :: tl = t' :: tl' ∧ t'.type ≠ .ELSEIF := by
      cases els with
      | none => exact ⟨t, tl, by simp [printElse], hne.2.2.2.1⟩
      | some e lb2 body2 rb2 =>
        simp only [swfElse, Bool.and_eq_true, beq_iff_eq] at h8
        exact ⟨e, lb2 :: (printL body2 ++ rb2 :: t :: tl), by simp [printElse], by rw [h8.1.1.1]; decide⟩
    psimp [ih.elifs env sn s B C i1 j1 [] m1 elifs rb (printElse els ++ t :: tl) h7 hel (by omega)]
    cases elabElifs env sn (substC s.constants) B C elifs i1 j1 with
    | error e => rfl
    | ok w =>
      obtain ⟨es, m2, i2, j2⟩ := w
      simp only [outE, ex_bind_ok, List.nil_append]
      cases els with
      | none =>
        psimp [printElse, bf hne.2.2.2.2]
        simp [elabElse, lastElse, outS, add_nil]
      | some e lb2 body2 rb2 =>
        simp only [swfElse, Bool.and_eq_true, beq_iff_eq] at h8
        obtain ⟨⟨⟨g1, g2⟩, g3⟩, g4⟩ := h8
        simp only [needElse] at hf
        simp only [printElse, List.cons_append, List.append_assoc, List.nil_append]
        psimp [bt g1, bt g2, ih.block env sn lb2 s B C i2 j2 body2 [] {} rb2 (t :: tl) g4 g3 (by omega)]
        simp only [elabElse, lastElse]
        cases elabL env sn (substC s.constants) B C true body2 i2 j2 with
        | error e => rfl
        | ok u => obtain ⟨b2, m3, i3, j3⟩ := u; simp [outB, outS, add_assoc, nil_add]

theorem while_step (w lp : Tok) (c : SCond) (rp lb : Tok) (body : List SStmt) (rb : Tok) (rest : List Tok)
    (hx : swfS (.while_ w lp c rp lb body rb) = true) (hf : needS (.while_ w lp c rp lb body rb) ≤ n + 2) :
    (parseWhileStatement env sn (n + 1)).run (S s (printS (.while_ w lp c rp lb body rb) ++ rest) B C i j) =
      outS s (rb :: rest) B C
        (elabS env sn (substC s.constants) B C (isRB rest) (.while_ w lp c rp lb body rb) i j) := by
  simp only [swfS, Bool.and_eq_true, beq_iff_eq] at hx
  obtain ⟨⟨⟨⟨⟨⟨h1, h2⟩, h3⟩, h4⟩, h5⟩, h6⟩, h7⟩ := hx
  simp only [needS] at hf
  rw [parseWhileStatement]
  simp only [printS, elabS, List.cons_append, List.append_assoc, List.nil_append]
  psimp [run_newSid_S, run_pushBreak_S, run_pushContinue_S,
    ih.cond1 env sn false s (i :: B) (i :: C) (i + 1) j w lp c rp lb body rb rest h2 h3 h4 h5 h6 h7 (by omega)]
  cases elabCond env (substC s.constants) c j with
  | error e => rfl
  | ok u =>
  obtain ⟨ct, j0⟩ := u
  simp only
  cases elabL env sn (substC s.constants) (i :: B) (i :: C) true body (i + 1) j0 with
  | error e => rfl
  | ok v =>
    obtain ⟨a, m1, i1, j1⟩ := v
    simp only [outC, ex_bind_ok]
    psimp [run_popBreak_S, run_popContinue_S]
    rfl

theorem whileInf_step (w lb : Tok) (body : List SStmt) (rb : Tok) (rest : List Tok)
    (hx : swfS (.whileInf w lb body rb) = true) (hf : needS (.whileInf w lb body rb) ≤ n + 2) :
    (parseWhileStatement env sn (n + 1)).run (S s (printS (.whileInf w lb body rb) ++ rest) B C i j) =
      outS s (rb :: rest) B C
        (elabS env sn (substC s.constants) B C (isRB rest) (.whileInf w lb body rb) i j) := by
  simp only [swfS, Bool.and_eq_true, beq_iff_eq] at hx
  obtain ⟨⟨⟨h1, h2⟩, h3⟩, h4⟩ := hx
  simp only [needS] at hf
  rw [parseWhileStatement]
  simp only [printS, elabS, List.cons_append, List.append_assoc, List.nil_append]
  psimp [run_newSid_S, run_pushBreak_S, run_pushContinue_S,
    ih.cond0 env sn s (i :: B) (i :: C) (i + 1) j w lb body rb rest h2 h3 h4 (by omega)]
  cases elabL env sn (substC s.constants) (i :: B) (i :: C) true body (i + 1) j with
  | error e => rfl
  | ok v =>
    obtain ⟨a, m1, i1, j1⟩ := v
    simp only [outC, ex_bind_ok]
    psimp [run_popBreak_S, run_popContinue_S]
    rfl

theorem doWhile_step (d lb : Tok) (body : List SStmt) (rb w lp : Tok) (c : SCond) (rp : Tok)
    (rest : List Tok) (hx : swfS (.doWhile d lb body rb w lp c rp) = true)
    (hf : needS (.doWhile d lb body rb w lp c rp) ≤ n + 2) :
    (parseDoWhileStatement env sn (n + 1)).run
        (S s (printS (.doWhile d lb body rb w lp c rp) ++ rest) B C i j) =
      outS s (rp :: rest) B C
        (elabS env sn (substC s.constants) B C (isRB rest) (.doWhile d lb body rb w lp c rp) i j) := by
  simp only [swfS, Bool.and_eq_true, beq_iff_eq] at hx
  obtain ⟨⟨⟨⟨⟨⟨⟨h1, h2⟩, h3⟩, h4⟩, h5⟩, h6⟩, h7⟩, h8⟩ := hx
  simp only [needS] at hf
  rw [parseDoWhileStatement]
  simp only [printS, elabS, List.cons_append, List.append_assoc, List.nil_append]
  psimp [run_newSid_S, run_pushBreak_S, run_pushContinue_S, bt h2,
    ih.block env sn lb s (i :: B) (i :: C) (i + 1) j body [] {} rb (w :: lp :: (printCond c ++ rp :: rest)) h7 h3
      (by omega)]
  cases elabL env sn (substC s.constants) (i :: B) (i :: C) true body (i + 1) j with
  | error e => rfl
  | ok v =>
    obtain ⟨a, m1, i1, j1⟩ := v
    simp only [outB, ex_bind_ok, List.nil_append]
    psimp [run_popBreak_S, run_popContinue_S, bt h4, bt h5,
      cond_S env sn s B C i1 j1 c lp rp rest h8 h6 n (by omega)]
    cases elabCond env (substC s.constants) c j1 with
    | error e => rfl
    | ok u => obtain ⟨ct, j2⟩ := u; simp [outS, add_nil, nil_add]

omit ih in
theorem printCases_head (r : List SCase) (h : swfCases r = true) (rb : Tok) (rest : List Tok)
    (hrb : rb.type = .RBRACE) :
    ∃ c tl, printCases r ++ rb :: rest = c :: tl ∧ closeT c = true ∧ (c.type == .RBRACE) = r.isEmpty := by
  cases r with
  | nil => exact ⟨rb, rest, by simp [printCases], by simp [closeT, hrb], by simp [hrb]⟩
  | cons k r' =>
    cases k with
    | case cT vs colon body =>
      simp only [swfCases, swfCase, Bool.and_eq_true, beq_iff_eq] at h
      exact ⟨cT, _, by simp only [printCases, printCase, List.cons_append]; rfl,
        by simp [closeT, h.1.1.1.1], by simp [h.1.1.1.1]⟩
    | dflt dT colon body =>
      simp only [swfCases, swfCase, Bool.and_eq_true, beq_iff_eq] at h
      exact ⟨dT, _, by simp only [printCases, printCase, List.cons_append]; rfl,
        by simp [closeT, h.1.1.1], by simp [h.1.1.1]⟩

omit ih in
theorem vals_case (σ : String → String) (seen : List String) (c : Tok) (vs : List Tok) (colon : Tok) :
    Hdr.vals σ seen (.case c vs colon) = caseValue σ vs :: seen := rfl
omit ih in
theorem tok_case (σ : String → String) (c : Tok) (vs : List Tok) (colon : Tok) :
    Hdr.tok σ (.case c vs colon) = caseTok σ vs colon := rfl
omit ih in
theorem isDefault_case (c : Tok) (vs : List Tok) (colon : Tok) : (Hdr.case c vs colon).isDefault = false := rfl
omit ih in
theorem vals_dflt (σ : String → String) (seen : List String) (d colon : Tok) :
    Hdr.vals σ seen (.dflt d colon) = seen := rfl
omit ih in
theorem tok_dflt (σ : String → String) (d colon : Tok) : Hdr.tok σ (.dflt d colon) = {} := rfl
omit ih in
theorem isDefault_dflt (d colon : Tok) : (Hdr.dflt d colon).isDefault = true := rfl

theorem cases_step (brace : Tok) (acc : List SwitchCase) (seen : List String) (hd : Bool) (imp : ImpData)
    (cs : List SCase) (rb : Tok) (rest : List Tok) (hcs : swfCases cs = true) (hrb : rb.type = .RBRACE)
    (hf : needCases cs ≤ n + 1) :
    (parseSwitchCases env sn brace (n + 1) acc seen hd imp).run (S s (printCases cs ++ rb :: rest) B C i j) =
      outK s (rb :: rest) B C acc (hd || cs.any SCase.isDflt) imp
        (elabCases env sn (substC s.constants) B C cs seen hd i j) := by
  cases cs with
  | nil =>
    rw [step_done env sn brace n acc seen hd imp _ (by simp [printCases, S_toks, hrb])]
    simp [printCases, elabCases, outK, add_nil]
  | cons k r =>
    cases k with
    | case cT vs colon body =>
      simp only [swfCases, swfCase, Bool.and_eq_true, beq_iff_eq, List.all_eq_true, caseValTok,
        bne_iff_ne] at hcs
      obtain ⟨⟨⟨⟨h1, h2⟩, h3⟩, h4⟩, h5⟩ := hcs
      simp only [needCases] at hf
      obtain ⟨c', tl', hp, hc', hce⟩ := printCases_head r h5 rb rest hrb
      have hwf : (Hdr.case cT vs colon).WF :=
        ⟨h1, fun v hv => (h2 v hv).1, fun v hv => (h2 v (List.mem_of_mem_tail hv)).2, h3⟩
      have hstep := step_case env sn brace n acc seen hd imp (S s [] B C i j) cT vs colon
        (printL body ++ (printCases r ++ rb :: rest)) hwf (by omega)
      have hw : S s (printCases (SCase.case cT vs colon body :: r) ++ rb :: rest) B C i j =
          st (S s [] B C i j) (cT :: (vs ++ colon :: (printL body ++ (printCases r ++ rb :: rest)))) := by
        simp only [printCases, printCase, List.cons_append, List.append_assoc, st_S]
      rw [hw, hstep, Hdr.reject_case]
      simp only [elabCases, S_constants]
      show (match (if seen.contains (caseValue (substC s.constants) vs) = true then
          some (duplicateCaseErr cT colon (caseValue (substC s.constants) vs)) else none) with
        | some e => Except.error e
        | none => _) = _
      by_cases hdup : seen.contains (caseValue (substC s.constants) vs) = true
      · simp only [hdup, if_true]
        rfl
      · have hdup' : seen.contains (caseValue (substC s.constants) vs) = false := by simpa using hdup
        simp only [hdup', Bool.false_eq_true, if_false]
        simp only [st_S, hp]
        rw [ih.swblock env sn brace s B C i j body [] {} c' tl' h4 hc' (by omega), hce]
        cases elabL env sn (substC s.constants) B C r.isEmpty body i j with
        | error e => rfl
        | ok v =>
          obtain ⟨a, m1, i1, j1⟩ := v
          simp only [outB, afterBody, List.nil_append, nil_add, ← hp, vals_case, tok_case, isDefault_case,
            Bool.or_false]
          rw [ih.cases env sn brace s B C i1 j1 _ _ _ _ r rb rest h5 hrb (by omega)]
          cases elabCases env sn (substC s.constants) B C r (caseValue (substC s.constants) vs :: seen) hd i1 j1 with
          | error e => rfl
          | ok w =>
            obtain ⟨cs', m2, i2, j2⟩ := w
            simp [outK, SCase.isDflt, add_assoc]
    | dflt dT colon body =>
      simp only [swfCases, swfCase, Bool.and_eq_true, beq_iff_eq] at hcs
      obtain ⟨⟨⟨h1, h3⟩, h4⟩, h5⟩ := hcs
      simp only [needCases] at hf
      obtain ⟨c', tl', hp, hc', hce⟩ := printCases_head r h5 rb rest hrb
      have hwf : (Hdr.dflt dT colon).WF := ⟨h1, h3⟩
      have hstep := step_dflt env sn brace n acc seen hd imp (S s [] B C i j) dT colon
        (printL body ++ (printCases r ++ rb :: rest)) hwf
      have hw : S s (printCases (SCase.dflt dT colon body :: r) ++ rb :: rest) B C i j =
          st (S s [] B C i j) (dT :: colon :: (printL body ++ (printCases r ++ rb :: rest))) := by
        simp only [printCases, printCase, List.cons_append, List.append_assoc, st_S]
      rw [hw, hstep, Hdr.reject_dflt]
      simp only [elabCases]
      cases hd with
      | true => rfl
      | false =>
        simp only [Bool.false_eq_true, if_false]
        simp only [st_S, hp]
        rw [ih.swblock env sn brace s B C i j body [] {} c' tl' h4 hc' (by omega), hce]
        cases elabL env sn (substC s.constants) B C r.isEmpty body i j with
        | error e => rfl
        | ok v =>
          obtain ⟨a, m1, i1, j1⟩ := v
          simp only [outB, afterBody, List.nil_append, nil_add, ← hp, vals_dflt, tok_dflt, isDefault_dflt,
            Bool.or_true, Bool.false_or]
          rw [ih.cases env sn brace s B C i1 j1 _ _ _ _ r rb rest h5 hrb (by omega)]
          cases elabCases env sn (substC s.constants) B C r seen true i1 j1 with
          | error e => rfl
          | ok w =>
            obtain ⟨cs', m2, i2, j2⟩ := w
            simp [outK, SCase.isDflt, add_assoc]

theorem switch_step (sw lp v lp2 : Tok) (ops : List Tok) (rp2 rp lb : Tok) (cs : List SCase) (rb : Tok)
    (rest : List Tok) (hx : swfS (.switch_ sw lp v lp2 ops rp2 rp lb cs rb) = true)
    (hf : needS (.switch_ sw lp v lp2 ops rp2 rp lb cs rb) ≤ n + 2) :
    (parseSwitchStatement env sn (n + 1)).run
        (S s (printS (.switch_ sw lp v lp2 ops rp2 rp lb cs rb) ++ rest) B C i j) =
      outS s (rb :: rest) B C
        (elabS env sn (substC s.constants) B C (isRB rest) (.switch_ sw lp v lp2 ops rp2 rp lb cs rb) i j) := by
  simp only [swfS, Bool.and_eq_true, beq_iff_eq, List.all_eq_true, operandTok, bne_iff_ne] at hx
  obtain ⟨⟨⟨⟨⟨⟨⟨⟨⟨h1, h2⟩, h3⟩, h4⟩, h5⟩, h6⟩, h7⟩, h8⟩, h9⟩, h10⟩ := hx
  simp only [needS] at hf
  have hrun := switch_run (env := env) (sn := sn) (n := n)
    (s := S s (sw :: lp :: v :: lp2 :: (ops ++ rp2 :: rp :: lb :: (printCases cs ++ rb :: rest))) B C i j)
    (sw := sw) (lp := lp) (x := rp) (lb := lb) (ctoks := printCases cs ++ rb :: rest) rfl h2
    (OperandAt.var (v := v) (lp2 := lp2) (ops := ops) (rp := rp2) (x := rp)
      (tl := lb :: (printCases cs ++ rb :: rest)) rfl h3 h4 h5 h6 (by omega)) rfl h8
  have hw : printS (.switch_ sw lp v lp2 ops rp2 rp lb cs rb) ++ rest =
      sw :: lp :: v :: lp2 :: (ops ++ rp2 :: rp :: lb :: (printCases cs ++ rb :: rest)) := by
    simp [printS]
  rw [hw, hrun]
  show finishSwitch sw i (operandOf (substC s.constants) ops rp2) [] {}
    ((parseSwitchCases env sn lb n [] [] false {}).run (S s (printCases cs ++ rb :: rest) (i :: B) C (i + 1) j)) = _
  rw [ih.cases env sn lb s (i :: B) C (i + 1) j [] [] false {} cs rb rest h10 h9 (by omega)]
  simp only [elabS]
  cases elabCases env sn (substC s.constants) (i :: B) C cs [] false (i + 1) j with
  | error e => rfl
  | ok w =>
    obtain ⟨cs', m1, i1, j1⟩ := w
    simp only [outK, finishSwitch, List.nil_append]
    cases cs' with
    | nil => rfl
    | cons k r => rfl

/-! #### `switch` on an auto-var command -/

omit ih in
/-- `autoFinish` (the choice of the compared variable / the bad-position error) in closed form. -/
theorem autoFinish_eq (av : AutoVar) (name : Tok) (cmd : Cmd) (imp : ImpData) (s' : PState) :
    autoFinish av name ((cmd, imp), s') =
      match autoPosBad av cmd.args.length with
      | some pos =>
        .error (newRangeParseError name (s'.toks.headD s'.eof) (badPosMsg name.lit pos cmd.args.length))
      | none => .ok (some (operandName av cmd.args, cmd, imp), s') := by
  unfold autoFinish autoPosBad operandName
  cases av.argPos with
  | none => rfl
  | some pos =>
    simp only
    by_cases h : (pos < 0 || pos > (cmd.args.length : Int) - 1) = true
    · simp only [h, if_true]
    · simp only [h]; rfl

omit ih in
/-- `expectPeekVarOrAutoVar` on `( name ( a0 , … )`. -/
theorem epv_S (pre name lp2 : Tok) (a0 : List Tok) (more : List (Tok × List Tok)) (rp2 : Tok)
    (rest : List Tok) (hname : name.type = .IDENT) (hlp2 : lp2.type = .LPAREN) (hrp2 : rp2.type = .RPAREN)
    (h0 : ArgOK a0) (hm : ∀ p ∈ more, p.1.type = .COMMA ∧ ArgOK p.2) (fuel : Nat)
    (hf : a0.length + (printMore more).length + 1 ≤ fuel) :
    (expectPeekVarOrAutoVar env sn fuel).run
        (S s (pre :: (printCmd name lp2 a0 more rp2 ++ rest)) B C i j) =
      match env.autoVars.lookup name.lit with
      | none => .error (notAutoVarErr name)
      | some av =>
        match autoPosBad av (more.length + 1) with
        | some pos => .error (badPosErr name rp2 pos (more.length + 1))
        | none =>
          .ok (some (operandName av ((a0 :: more.map (·.2)).map (renderArg (substC s.constants))),
                ({ id := j, tok := name, name := name.lit,
                   args := (a0 :: more.map (·.2)).map (renderArg (substC s.constants)) } : Cmd), {}),
            S s (rp2 :: rest) B C i (j + 1)) := by
  have hnv : name.type ≠ .VAR := by rw [hname]; decide
  cases hav : env.autoVars.lookup name.lit with
  | none =>
    unfold expectPeekVarOrAutoVar
    simp only [printCmd, List.cons_append]
    psimp [bf hnv, hav]
    rfl
  | some av =>
    have hw : S s (pre :: (printCmd name lp2 a0 more rp2 ++ rest)) B C i j =
        st (S s [] B C i j) (pre :: name :: (lp2 :: (a0 ++ (printMore more ++ [rp2])) ++ rest)) := by
      simp [printCmd, st_S]
    have hw2 : st (S s [] B C i j) (name :: (lp2 :: (a0 ++ (printMore more ++ [rp2])) ++ rest)) =
        S s (printCmd name lp2 a0 more rp2 ++ rest) B C i j := by
      simp [printCmd, st_S]
    rw [hw, epv_auto env sn fuel (S s [] B C i j) pre name _ av hnv hav, hw2,
      cmd_S env sn s B C i j name lp2 a0 more rp2 rest hlp2 hrp2 h0 hm fuel hf]
    simp only [autoFinish_eq, List.length_map, List.length_cons, S_toks, S_eof, List.headD_cons]
    cases autoPosBad av (more.length + 1) with
    | none => rfl
    | some pos => rfl

theorem switchA_step (sw lp name lp2 : Tok) (a0 : List Tok) (more : List (Tok × List Tok))
    (rp2 rp lb : Tok) (cs : List SCase) (rb : Tok) (rest : List Tok)
    (hx : swfS (.switchA sw lp name lp2 a0 more rp2 rp lb cs rb) = true)
    (hf : needS (.switchA sw lp name lp2 a0 more rp2 rp lb cs rb) ≤ n + 2) :
    (parseSwitchStatement env sn (n + 1)).run
        (S s (printS (.switchA sw lp name lp2 a0 more rp2 rp lb cs rb) ++ rest) B C i j) =
      outS s (rb :: rest) B C
        (elabS env sn (substC s.constants) B C (isRB rest) (.switchA sw lp name lp2 a0 more rp2 rp lb cs rb)
          i j) := by
  simp only [swfS, Bool.and_eq_true, beq_iff_eq, decide_eq_true_eq, List.all_eq_true] at hx
  obtain ⟨⟨⟨⟨⟨⟨⟨⟨⟨⟨h1, h2⟩, h3⟩, h4⟩, h5⟩, h6⟩, h7⟩, h8⟩, h9⟩, h10⟩, h11⟩ := hx
  simp only [needS] at hf
  have hw : printS (.switchA sw lp name lp2 a0 more rp2 rp lb cs rb) ++ rest =
      sw :: lp :: (printCmd name lp2 a0 more rp2 ++ rp :: lb :: (printCases cs ++ rb :: rest)) := by
    simp [printS]
  rw [hw, parseSwitchStatement]
  psimp [run_newSid_S, run_pushBreak_S, bt h2,
    epv_S env sn s (i :: B) C (i + 1) j lp name lp2 a0 more rp2 (rp :: lb :: (printCases cs ++ rb :: rest))
      h3 h4 h7 h5 h6 n (by omega)]
  simp only [elabS]
  cases env.autoVars.lookup name.lit with
  | none => rfl
  | some av =>
    simp only
    cases autoPosBad av (more.length + 1) with
    | some pos => rfl
    | none =>
      simp only [ex_bind_ok]
      psimp [bt h8, bt h9,
        ih.cases env sn lb s (i :: B) C (i + 1) (j + 1) [] [] false {} cs rb rest h11 h10 (by omega)]
      cases elabCases env sn (substC s.constants) (i :: B) C cs [] false (i + 1) (j + 1) with
      | error e => rfl
      | ok w =>
        obtain ⟨cs', m1, i1, j1⟩ := w
        simp only [outK, ex_bind_ok, List.nil_append]
        psimp [run_popBreak_S]
        cases cs' with
        | nil => rfl
        | cons k r => rfl

/-! #### poryswitch -/

/-- The statement at the head of a poryswitch case (`poryswitch` is dispatched directly). -/
theorem dispatch_step (x : SStmt) (rest : List Tok) (hx : swfS x = true) (hfol : Fol rest)
    (hf : needS x ≤ n) :
    (stmtOrPory env sn n (S s (printS x ++ rest) B C i j)).run (S s (printS x ++ rest) B C i j) =
      outS s (lastS x :: rest) B C (elabS env sn (substC s.constants) B C (isRB rest) x i j) := by
  obtain ⟨t, tl, hp, ht⟩ := printS_head x hx
  have hh : (S s (printS x ++ rest) B C i j).toks.headD (S s (printS x ++ rest) B C i j).eof = t := by
    simp [S_toks, hp]
  unfold stmtOrPory
  rw [hh, head_isPory x hx t tl hp]
  cases x <;> simp only [isPory, if_true, Bool.false_eq_true, if_false]
  case pory ps lp x' rp lb cs rb =>
    exact ih.pory env sn s B C i j ps lp x' rp lb cs rb rest hx (by omega)
  all_goals exact ih.stmt env sn s B C i j _ rest hx hfol hf

theorem pstmts_step (b : List SStmt) (acc : List Stmt) (imp : ImpData) (rb : Tok)
    (rest : List Tok) (hb : swfL b = true) (hrb : rb.type = .RBRACE) (hf : needL b ≤ n + 1) :
    (parsePoryswitchStatements env sn true (n + 1) acc imp).run (S s (printL b ++ rb :: rest) B C i j) =
      outB s (rb :: rest) B C acc imp (elabL env sn (substC s.constants) B C true b i j) := by
  cases b with
  | nil =>
    rw [pstmts_nil env sn n _ true acc imp (by simp [printL, S_toks, hrb])]
    simp [printL, elabL, outB, add_nil]
  | cons x r =>
    simp only [swfL, Bool.and_eq_true] at hb
    simp only [needL] at hf
    obtain ⟨t, tl, hp, ht⟩ := printS_head x hb.1
    have hne := startT_ne ht
    have hfol := fol_printL r hb.2 rb rest (by simp [closeT, hrb])
    have h1 := dispatch_step ih env sn s B C i j x (printL r ++ rb :: rest) hb.1 hfol (by omega)
    rw [isRB_printL r hb.2] at h1
    have hw : printL (x :: r) ++ rb :: rest = printS x ++ (printL r ++ rb :: rest) := by
      simp [printL]
    rw [hw, pstmts_cons env sn n _ true acc imp (by simp [S_toks, hp, hne.1]), h1]
    simp only [elabL, bt hrb]
    cases elabS env sn (substC s.constants) B C (r.isEmpty && true) x i j with
    | error e => rfl
    | ok v =>
      obtain ⟨a, m1, i1, j1⟩ := v
      simp only [outS, S_toks, st_S, List.tail_cons, if_true]
      rw [ih.pstmts env sn s B C i1 j1 r (acc ++ a) (imp.add m1) rb rest hb.2 hrb (by omega)]
      cases elabL env sn (substC s.constants) B C true r i1 j1 with
      | error e => rfl
      | ok w => obtain ⟨b', m2, i2, j2⟩ := w; simp [outB, add_assoc]

theorem pstmt1_step (x : SStmt) (rest : List Tok) (hx : swfS x = true) (hfol : Fol rest)
    (hf : needS x + 1 ≤ n + 1) :
    (parsePoryswitchStatements env sn false (n + 1) [] {}).run (S s (printS x ++ rest) B C i j) =
      outB s rest B C [] {} (elabS env sn (substC s.constants) B C (isRB rest) x i j) := by
  obtain ⟨t, tl, hp, ht⟩ := printS_head x hx
  have hne := startT_ne ht
  rw [pstmts_cons env sn n _ false [] {} (by simp [S_toks, hp, hne.1]),
    dispatch_step ih env sn s B C i j x rest hx hfol (by omega)]
  cases elabS env sn (substC s.constants) B C (isRB rest) x i j with
  | error e => rfl
  | ok v =>
    obtain ⟨a, m1, i1, j1⟩ := v
    simp [outS, outB, S_toks, st_S, nil_add]

omit ih in
theorem printPCases_head (r : List SPCase) (h : swfPCases r = true) (rb : Tok) (rest : List Tok)
    (hrb : rb.type = .RBRACE) :
    ∃ c tl, printPCases r ++ rb :: rest = c :: tl ∧ folT c = true ∧ (c.type == .RBRACE) = r.isEmpty := by
  cases r with
  | nil => exact ⟨rb, rest, by simp [printPCases], by simp [folT, closeT, hrb], by simp [hrb]⟩
  | cons k r' =>
    cases k with
    | colon key c x =>
      simp only [swfPCases, swfPCase, Bool.and_eq_true, beq_iff_eq, Bool.or_eq_true] at h
      refine ⟨key, _, by simp only [printPCases, printPCase, List.cons_append]; rfl, ?_, ?_⟩
      · rcases h.1.1.1 with hk | hk <;> simp [folT, startT, hk]
      · rcases h.1.1.1 with hk | hk <;> simp [hk]
    | brace key lb body rb' =>
      simp only [swfPCases, swfPCase, Bool.and_eq_true, beq_iff_eq, Bool.or_eq_true] at h
      refine ⟨key, _, by simp only [printPCases, printPCase, List.cons_append]; rfl, ?_, ?_⟩
      · rcases h.1.1.1.1 with hk | hk <;> simp [folT, startT, hk]
      · rcases h.1.1.1.1 with hk | hk <;> simp [hk]

theorem pcases_step (startTok : Tok) (acc : List (String × List Stmt × ImpData)) (cs : List SPCase)
    (rb : Tok) (rest : List Tok) (hcs : swfPCases cs = true) (hrb : rb.type = .RBRACE)
    (hf : needPCases cs ≤ n + 1) :
    (parsePoryswitchStatementCases env sn startTok (n + 1) acc).run
        (S s (printPCases cs ++ rb :: rest) B C i j) =
      outP s (rb :: rest) B C (elabPCases env sn (substC s.constants) B C cs acc i j) := by
  cases cs with
  | nil =>
    rw [pcases_nil env sn n _ startTok acc (by simp [printPCases, S_toks, hrb])]
    simp [printPCases, elabPCases, outP]
  | cons k r =>
    cases k with
    | colon key c x =>
      simp only [swfPCases, swfPCase, Bool.and_eq_true, beq_iff_eq, Bool.or_eq_true] at hcs
      obtain ⟨⟨⟨h1, h2⟩, h3⟩, h4⟩ := hcs
      simp only [needPCases] at hf
      obtain ⟨c', tl', hp, hc', hce⟩ := printPCases_head r h4 rb rest hrb
      have hw : printPCases (SPCase.colon key c x :: r) ++ rb :: rest =
          key :: c :: (printS x ++ (printPCases r ++ rb :: rest)) := by
        simp [printPCases, printPCase]
      rw [hw, pcases_colon env sn n startTok acc s B C i j key c _ h1 h2,
        ih.pstmt1 env sn s B C i j x (printPCases r ++ rb :: rest) h3 ⟨c', tl', hp, hc'⟩ (by omega)]
      simp only [elabPCases]
      have hrbq : isRB (printPCases r ++ rb :: rest) = r.isEmpty := by rw [hp]; exact hce
      rw [hrbq]
      cases elabS env sn (substC s.constants) B C r.isEmpty x i j with
      | error e => rfl
      | ok v =>
        obtain ⟨a, m1, i1, j1⟩ := v
        simp only [outB, List.nil_append, nil_add]
        exact ih.pcases env sn startTok s B C i1 j1 _ r rb rest h4 hrb (by omega)
    | brace key lb body rb' =>
      simp only [swfPCases, swfPCase, Bool.and_eq_true, beq_iff_eq, Bool.or_eq_true] at hcs
      obtain ⟨⟨⟨⟨h1, h2⟩, h3⟩, h5⟩, h4⟩ := hcs
      simp only [needPCases] at hf
      have hw : printPCases (SPCase.brace key lb body rb' :: r) ++ rb :: rest =
          key :: lb :: (printL body ++ rb' :: (printPCases r ++ rb :: rest)) := by
        simp [printPCases, printPCase]
      rw [hw, pcases_brace env sn n startTok acc s B C i j key lb _ h1 h2,
        ih.pstmts env sn s B C i j body [] {} rb' (printPCases r ++ rb :: rest) h5 h3 (by omega)]
      simp only [elabPCases]
      cases elabL env sn (substC s.constants) B C true body i j with
      | error e => rfl
      | ok v =>
        obtain ⟨a, m1, i1, j1⟩ := v
        simp only [outB, List.nil_append, nil_add, S_toks, S_eof, List.headD_cons, bt h3, if_true, st_S,
          List.tail_cons]
        exact ih.pcases env sn startTok s B C i1 j1 _ r rb rest h4 hrb (by omega)

theorem pory_step (ps lp x rp lb : Tok) (cs : List SPCase) (rb : Tok) (rest : List Tok)
    (hx : swfS (.pory ps lp x rp lb cs rb) = true) (hf : needS (.pory ps lp x rp lb cs rb) ≤ n + 2) :
    (parsePoryswitchStatement env sn (n + 1)).run (S s (printS (.pory ps lp x rp lb cs rb) ++ rest) B C i j) =
      outS s (rb :: rest) B C
        (elabS env sn (substC s.constants) B C (isRB rest) (.pory ps lp x rp lb cs rb) i j) := by
  simp only [swfS, Bool.and_eq_true, beq_iff_eq] at hx
  obtain ⟨⟨⟨⟨⟨⟨h1, h2⟩, h3⟩, h4⟩, h5⟩, h6⟩, h7⟩ := hx
  simp only [needS] at hf
  rw [parsePoryswitchStatement]
  simp only [printS, elabS, List.cons_append, List.append_assoc, List.nil_append]
  psimp [header_S env s B C i j ps lp x rp lb (printPCases cs ++ rb :: rest) h2 h3 h4 h5]
  have hh : hdrErr env ps x =
      (if (env.envErrors && env.switches.isEmpty) = true then some (noSwitchesErr ps)
       else if (env.envErrors && (env.switches.lookup x.lit).isNone) = true then some (undefinedSwitchErr x)
       else none) := rfl
  rw [hh]
  by_cases g1 : (env.envErrors && env.switches.isEmpty) = true
  · simp only [g1, if_true]; rfl
  · simp only [g1]
    by_cases g2 : (env.envErrors && (env.switches.lookup x.lit).isNone) = true
    · simp only [g2, if_true]; rfl
    · simp only [g2]
      simp only [Bool.false_eq_true, if_false, ex_bind_ok]
      rw [ih.pcases env sn _ s B C i j [] cs rb rest h7 h6 (by omega)]
      cases hel : elabPCases env sn (substC s.constants) B C cs [] i j with
      | error e => rfl
      | ok v =>
        obtain ⟨table, i1, j1⟩ := v
        simp only [outP, ex_bind_ok]
        cases hsel : selectCase env table (swVal env x.lit) with
        | some r => obtain ⟨r1, r2⟩ := r; rfl
        | none =>
          simp only
          cases env.envErrors with
          | true => rfl
          | false => rfl

end
/-! ### the induction on fuel -/

theorem needS_pos (x : SStmt) : 1 ≤ needS x := by cases x <;> simp only [needS] <;> omega
theorem needL_pos (b : List SStmt) : 1 ≤ needL b := by cases b <;> simp only [needL] <;> omega
theorem needElifs_pos (es : List SElif) : 1 ≤ needElifs es := by
  cases es with
  | nil => simp [needElifs]
  | cons e r => obtain ⟨_, _, _, _, _, _, _⟩ := e; simp only [needElifs]; omega
theorem needCases_pos (cs : List SCase) : 1 ≤ needCases cs := by
  cases cs with
  | nil => simp [needCases]
  | cons k r => cases k <;> simp only [needCases] <;> omega

theorem needPCases_pos (cs : List SPCase) : 1 ≤ needPCases cs := by
  cases cs with
  | nil => simp [needPCases]
  | cons k r => cases k <;> simp only [needPCases] <;> omega

/-- **parse ∘ print = elaborate** for every function of the statement block, every fuel. -/
theorem spec : ∀ n : Nat, Spec n
  | 0 =>
    { stmt := by intro _ _ _ _ _ _ _ x _ _ _ hf; have := needS_pos x; omega
      block := by intro _ _ _ _ _ _ _ _ b _ _ _ _ _ _ hf; have := needL_pos b; omega
      swblock := by intro _ _ _ _ _ _ _ _ b _ _ _ _ _ _ hf; have := needL_pos b; omega
      cond1 := by intros; omega
      cond0 := by intros; omega
      elifs := by intro _ _ _ _ _ _ _ _ _ es _ _ _ _ hf; have := needElifs_pos es; omega
      ifs := by intro _ _ _ _ _ _ _ _ _ _ _ _ _ _ _ _ _ _ _ hf; simp only [needS] at hf; omega
      whiles := by intro _ _ _ _ _ _ _ _ _ _ _ _ _ _ _ _ hf; simp only [needS] at hf; omega
      whileInfs := by intro _ _ _ _ _ _ _ _ _ _ _ _ _ hf; simp only [needS] at hf; omega
      doWhiles := by
        intro _ _ _ _ _ _ _ _ _ body _ _ _ _ _ _ _ hf
        simp only [needS] at hf; have := needL_pos body; omega
      cases := by intro _ _ _ _ _ _ _ _ _ _ _ _ cs _ _ _ _ hf; have := needCases_pos cs; omega
      switch := by intro _ _ _ _ _ _ _ _ _ _ _ _ _ _ _ _ _ _ _ hf; simp only [needS] at hf; omega
      switchA := by
        intro _ _ _ _ _ _ _ _ _ _ _ _ _ _ _ _ cs _ _ _ hf
        simp only [needS] at hf; omega
      pory := by
        intro _ _ _ _ _ _ _ _ _ _ _ _ cs _ _ _ hf
        simp only [needS] at hf; have := needPCases_pos cs; omega
      pcases := by intro _ _ _ _ _ _ _ _ _ cs _ _ _ _ hf; have := needPCases_pos cs; omega
      pstmts := by intro _ _ _ _ _ _ _ b _ _ _ _ _ _ hf; have := needL_pos b; omega
      pstmt1 := by intros; omega }
  | n + 1 =>
    have ih := spec n
    { stmt := fun env sn s B C i j x rest => stmt_step ih env sn s B C i j x rest
      block := fun env sn tok s B C i j b acc imp rb rest => block_step ih env sn s B C i j tok b acc imp rb rest
      swblock := fun env sn tok s B C i j b acc imp c rest =>
        swblock_step ih env sn s B C i j tok b acc imp c rest
      cond1 := fun env sn req s B C i j pre lp c rp lb body rb rest =>
        cond1_step ih env sn s B C i j req pre lp c rp lb body rb rest
      cond0 := fun env sn s B C i j pre lb body rb rest => cond0_step ih env sn s B C i j pre lb body rb rest
      elifs := fun env sn s B C i j acc imp es pre rest => elifs_step ih env sn s B C i j acc imp es pre rest
      ifs := fun env sn s B C i j ifTok lp c rp lb body rb elifs els rest =>
        if_step ih env sn s B C i j ifTok lp c rp lb body rb elifs els rest
      whiles := fun env sn s B C i j w lp c rp lb body rb rest =>
        while_step ih env sn s B C i j w lp c rp lb body rb rest
      whileInfs := fun env sn s B C i j w lb body rb rest => whileInf_step ih env sn s B C i j w lb body rb rest
      doWhiles := fun env sn s B C i j d lb body rb w lp c rp rest =>
        doWhile_step ih env sn s B C i j d lb body rb w lp c rp rest
      cases := fun env sn brace s B C i j acc seen hd imp cs rb rest =>
        cases_step ih env sn s B C i j brace acc seen hd imp cs rb rest
      switch := fun env sn s B C i j sw lp v lp2 ops rp2 rp lb cs rb rest =>
        switch_step ih env sn s B C i j sw lp v lp2 ops rp2 rp lb cs rb rest
      switchA := fun env sn s B C i j sw lp name lp2 a0 more rp2 rp lb cs rb rest =>
        switchA_step ih env sn s B C i j sw lp name lp2 a0 more rp2 rp lb cs rb rest
      pory := fun env sn s B C i j ps lp x rp lb cs rb rest =>
        pory_step ih env sn s B C i j ps lp x rp lb cs rb rest
      pcases := fun env sn startTok s B C i j acc cs rb rest =>
        pcases_step ih env sn s B C i j startTok acc cs rb rest
      pstmts := fun env sn s B C i j b acc imp rb rest => pstmts_step ih env sn s B C i j b acc imp rb rest
      pstmt1 := fun env sn s B C i j x rest => pstmt1_step ih env sn s B C i j x rest }

/-! ### the main theorems -/

theorem S_self (s : PState) : S s s.toks s.breakStack s.continueStack s.nextSid s.nextCmdId = s := rfl

/-- **Stage 2 + 3 in one statement.** On the printed tokens of a well-formed block `b` followed by `}`,
`parseBlockStatement` returns exactly what the reference elaboration says: the elaborated statements and
their implicit data, stopping ON the `}`, only the window and the two counters changed — or the located
error of the first violation. -/
theorem parse_block_elab (env : Env) (sn : String) (startTok : Tok) (b : List SStmt) (rb : Tok)
    (rest : List Tok) (hwf : SWF b) (hrb : rb.type = .RBRACE) (s : PState)
    (htoks : s.toks = printStmts b ++ rb :: rest) (fuel : Nat) (hfuel : needL b ≤ fuel) :
    (parseBlockStatement env sn startTok fuel [] {}).run s =
      match elabE env sn (ctxOf s) b with
      | .ok (stmts, imp, c') =>
        .ok ((stmts, imp), { s with toks := rb :: rest, nextSid := c'.nextSid, nextCmdId := c'.nextCmdId })
      | .error e => .error e := by
  have h := (spec fuel).block env sn startTok s s.breakStack s.continueStack s.nextSid s.nextCmdId b [] {} rb
    rest hwf hrb hfuel
  rw [← htoks, S_self] at h
  rw [h]
  unfold elabE ctxOf
  simp only
  cases elabL env sn (substC s.constants) s.breakStack s.continueStack true b s.nextSid s.nextCmdId with
  | error e => rfl
  | ok v => obtain ⟨a, m1, i1, j1⟩ := v; rfl

/-- **Stage 2: parse ∘ print = elaborate.** -/
theorem parse_block_print (env : Env) (sn : String) (startTok : Tok) (b : List SStmt) (rb : Tok)
    (rest : List Tok) (hwf : SWF b) (hrb : rb.type = .RBRACE) (s : PState)
    (htoks : s.toks = printStmts b ++ rb :: rest) (fuel : Nat) (hfuel : needL b ≤ fuel)
    (stmts : List Stmt) (imp : ImpData) (c' : Ctx)
    (helab : elaborate env sn (ctxOf s) b = some (stmts, imp, c')) :
    (parseBlockStatement env sn startTok fuel [] {}).run s =
      .ok ((stmts, imp), { s with toks := rb :: rest, nextSid := c'.nextSid, nextCmdId := c'.nextCmdId }) ∧
    c'.breakStack = s.breakStack ∧ c'.continueStack = s.continueStack := by
  have he := elaborate_some helab
  refine ⟨?_, (elabE_stacks he).1, (elabE_stacks he).2.1⟩
  rw [parse_block_elab env sn startTok b rb rest hwf hrb s htoks fuel hfuel, he]

/-- **Stage 3: the rejection side.** If the reference elaboration fails with `e` (the located error of the
first documented violation), so does the parser. -/
theorem parse_block_reject (env : Env) (sn : String) (startTok : Tok) (b : List SStmt) (rb : Tok)
    (rest : List Tok) (hwf : SWF b) (hrb : rb.type = .RBRACE) (s : PState)
    (htoks : s.toks = printStmts b ++ rb :: rest) (fuel : Nat) (hfuel : needL b ≤ fuel)
    (e : PFail) (helab : elabE env sn (ctxOf s) b = .error e) :
    (parseBlockStatement env sn startTok fuel [] {}).run s = .error e := by
  rw [parse_block_elab env sn startTok b rb rest hwf hrb s htoks fuel hfuel, helab]

/-- … whenever `elaborate` is `none`. -/
theorem parse_block_reject_none (env : Env) (sn : String) (startTok : Tok) (b : List SStmt) (rb : Tok)
    (rest : List Tok) (hwf : SWF b) (hrb : rb.type = .RBRACE) (s : PState)
    (htoks : s.toks = printStmts b ++ rb :: rest) (fuel : Nat) (hfuel : needL b ≤ fuel)
    (helab : elaborate env sn (ctxOf s) b = none) :
    ∃ e, elabE env sn (ctxOf s) b = .error e ∧
      (parseBlockStatement env sn startTok fuel [] {}).run s = .error e := by
  obtain ⟨e, he⟩ := elaborate_none helab
  exact ⟨e, he, parse_block_reject env sn startTok b rb rest hwf hrb s htoks fuel hfuel e he⟩

/-- The fuel `ParseProgram` starts with (`4 * tokens + 50`) is more than enough: `2 * tokens + 1`. -/
theorem fuel_of_tokens (b : List SStmt) (fuel : Nat) (h : 2 * (printStmts b).length + 1 ≤ fuel) :
    needL b ≤ fuel := Nat.le_trans (needL_le b) h

end Pory.StmtG
