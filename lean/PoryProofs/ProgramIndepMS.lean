import PoryProofs.ProgramFrameMS
import PoryProofs.ProgramDec
/-
P2b helpers: the independence theorem (C17) for files of the extended grammar (with `mapscripts` statements).

* emitter side: `emitScripts_frame`, `emitTables_frame`, `emitMapScripts_frame` (a `mapscripts` statement whose inline
  scripts are renumbered, under other patches / text labels that agree on what its scripts read), `topBlocksM_frame`;
* `labelNamesM` : the label statements of the scripts AND of the inline scripts of `mapscripts` statements;
* `compileFileM`, `IndepM`, `indep_parseM`, `indep_blocksM`, `indep_mainM`; decidability of `IndepM`.
-/
namespace Pory.P2b
open Pory Pory.Parser Pory.C02P Pory.StmtG Pory.TopParse Pory.P2 Pory.Emit
open Pory.C12c

/-! ### lists related elementwise -/

theorem all2_flatMap_eq {α β γ : Type} {P : α → β → Prop} {f : α → List γ} {g : β → List γ}
    (h : ∀ a b, P a b → f a = g b) : ∀ {l' : List α} {l : List β}, All2 P l' l → l'.flatMap f = l.flatMap g
  | [], [], _ => rfl
  | a :: _, b :: _, hl => by simp only [List.flatMap_cons, h a b hl.1, all2_flatMap_eq h hl.2]
  | [], _ :: _, hl => hl.elim
  | _ :: _, [], hl => hl.elim

theorem all2_map {α β γ δ : Type} {P : α → β → Prop} {Q : γ → δ → Prop} {f : α → γ} {g : β → δ}
    (h : ∀ a b, P a b → Q (f a) (g b)) : ∀ {l' : List α} {l : List β}, All2 P l' l → All2 Q (l'.map f) (l.map g)
  | [], [], _ => trivial
  | a :: _, b :: _, hl => ⟨h a b hl.1, all2_map h hl.2⟩
  | [], _ :: _, hl => hl.elim
  | _ :: _, [], hl => hl.elim

/-! ### the inline scripts of a `mapscripts` statement -/

/-- The inline scripts of the tables. -/
def tableScripts (ts : List TableMapScript) : List (Option Script) := ts.flatMap fun t => t.entries.map (·.script)

/-- All inline scripts of a `mapscripts` statement (entries first, then table rows: the order of emission). -/
def msScripts (m : MapScripts) : List Script :=
  (m.mapScripts.map (·.script) ++ tableScripts m.tables).filterMap id

/-- The label statements of the scripts and of the inline scripts of the `mapscripts` statements among `tops`
(as they sit in the chunk tables). -/
def labelNamesM : List Top → List String
  | [] => []
  | .script s :: r => C04c.userLabelsOf s ++ labelNamesM r
  | .mapscripts m :: r => (msScripts m).flatMap C04c.userLabelsOf ++ labelNamesM r
  | .raw .. :: r => labelNamesM r
  | .text _ :: r => labelNamesM r
  | .movement _ :: r => labelNamesM r
  | .mart .. :: r => labelNamesM r

theorem mem_msScripts_of_entry {m : MapScripts} {s : Script} (h : some s ∈ m.mapScripts.map (·.script)) :
    s ∈ msScripts m :=
  List.mem_filterMap.2 ⟨some s, List.mem_append_left _ h, rfl⟩

theorem mem_msScripts_of_table {m : MapScripts} {t : TableMapScript} {s : Script} (ht : t ∈ m.tables)
    (h : some s ∈ t.entries.map (·.script)) : s ∈ msScripts m :=
  List.mem_filterMap.2 ⟨some s, List.mem_append_right _ (List.mem_flatMap.2 ⟨t, ht, h⟩), rfl⟩

/-! ### emitter side -/

theorem labelNamesM_cons (t : Top) (r : List Top) : labelNamesM (t :: r) = labelNamesM [t] ++ labelNamesM r := by
  cases t <;> simp [labelNamesM]

section
variable {R : Ren} (o : Opts) {ps' ps : List ((Nat × Nat) × String)}
  (hpa : ∀ c' c, relCmd R c' c → patchedArgs ps' c' = patchedArgs ps c) (hs : Mono R.s)
include hpa hs

theorem emitScripts_frame {tl' tl : List String} : ∀ {l' l : List (Option Script)}, All2 (RelOptScript R) l' l →
    (∀ s, some s ∈ l → ∀ n ∈ C04c.userLabelsOf s, tl'.contains n = tl.contains n) →
    emitScripts o ps' tl' l' = emitScripts o ps tl l
  | [], [], _, _ => rfl
  | none :: _, none :: _, h, hl => by
    simp only [emitScripts]
    exact emitScripts_frame h.2 (fun s hs => hl s (List.mem_cons_of_mem _ hs))
  | some s' :: _, some s :: _, h, hl => by
    have e1 := emitScript_frame o hpa hs h.1.2.1 h.1.2.2.1 h.1.2.2.2 (hl s (List.mem_cons_self ..))
    have e2 := emitScripts_frame h.2 (fun x hx => hl x (List.mem_cons_of_mem _ hx))
    simp only [emitScripts, e1, e2]
  | none :: _, some _ :: _, h, _ => h.1.elim
  | some _ :: _, none :: _, h, _ => h.1.elim
  | [], _ :: _, h, _ => h.elim
  | _ :: _, [], h, _ => h.elim

theorem emitTables_frame {tl' tl : List String} : ∀ {t' t : List TableMapScript}, All2 (RelTbl R) t' t →
    (∀ x ∈ t, ∀ s, some s ∈ x.entries.map (·.script) → ∀ n ∈ C04c.userLabelsOf s, tl'.contains n = tl.contains n) →
    emitTables o ps' tl' t' = emitTables o ps tl t
  | [], [], _, _ => rfl
  | x' :: _, x :: _, h, hl => by
    obtain ⟨⟨h1, h2, h3⟩, h4⟩ := h
    have e0 : (x'.entries.flatMap fun e => marker o e.condition ++ [Line.mapScript2 e.condition.lit e.comparison e.name]) =
        (x.entries.flatMap fun e => marker o e.condition ++ [Line.mapScript2 e.condition.lit e.comparison e.name]) :=
      all2_flatMap_eq (fun a b hab => by simp only [hab.1, hab.2.1, hab.2.2.1]) h3
    have e1 := emitScripts_frame o hpa hs (tl' := tl') (tl := tl)
      (all2_map (Q := RelOptScript R) (f := (·.script)) (g := (·.script)) (fun a b hab => hab.2.2.2) h3)
      (hl x (List.mem_cons_self ..))
    have e2 := emitTables_frame h4 (fun y hy => hl y (List.mem_cons_of_mem _ hy))
    simp only [emitTables, h2, e0, e1, e2]
  | [], _ :: _, h, _ => h.elim
  | _ :: _, [], h, _ => h.elim

theorem emitMapScripts_frame {tl' tl : List String} {m' m : MapScripts} (h1 : m'.name = m.name)
    (h2 : m'.scope = m.scope) (h3 : All2 (RelMS R) m'.mapScripts m.mapScripts)
    (h4 : All2 (RelTbl R) m'.tables m.tables)
    (hl : ∀ s ∈ msScripts m, ∀ n ∈ C04c.userLabelsOf s, tl'.contains n = tl.contains n) :
    emitMapScripts o ps' tl' m' = emitMapScripts o ps tl m := by
  have e0 : (m'.mapScripts.flatMap fun x => marker o x.type ++ [Line.mapScript x.type.lit x.name]) =
      (m.mapScripts.flatMap fun x => marker o x.type ++ [Line.mapScript x.type.lit x.name]) :=
    all2_flatMap_eq (fun a b hab => by simp only [hab.1, hab.2.1]) h3
  have e1 : (m'.tables.flatMap fun x => marker o x.type ++ [Line.mapScript x.type.lit x.name]) =
      (m.tables.flatMap fun x => marker o x.type ++ [Line.mapScript x.type.lit x.name]) :=
    all2_flatMap_eq (fun a b hab => by simp only [hab.1, hab.2.1]) h4
  have e2 := emitScripts_frame o hpa hs (tl' := tl') (tl := tl)
    (all2_map (Q := RelOptScript R) (f := (·.script)) (g := (·.script)) (fun a b hab => hab.2.2) h3)
    (fun s hs => hl s (mem_msScripts_of_entry hs))
  have e3 := emitTables_frame o hpa hs (tl' := tl') (tl := tl) h4
    (fun x hx s hs => hl s (mem_msScripts_of_table hx hs))
  simp only [emitMapScripts, h1, h2, e0, e1, e2, e3]

theorem emitTopLinesM_frame {tl' tl : List String} {t' t : Top} (h : RelTopM R t' t)
    (hl : ∀ n ∈ labelNamesM [t], tl'.contains n = tl.contains n) :
    C17.emitTopLines o ps' tl' t' = C17.emitTopLines o ps tl t := by
  cases h with
  | base hb =>
    refine emitTopLines_frame o hs hpa hb ?_
    rintro s rfl n hn
    exact hl n (by simp [labelNamesM, hn])
  | @mapscripts m' m h1 h2 h3 h4 h5 =>
    simp only [C17.emitTopLines]
    rw [emitMapScripts_frame o hpa hs h2 h3 h4 h5 (fun s hs n hn => hl n (by
      simp only [labelNamesM, List.append_nil, List.mem_flatMap]
      exact ⟨s, hs, hn⟩))]

theorem topBlocksM_frame {tl' tl : List String} :
    ∀ {tops' tops : List Top}, All2 (RelTopM R) tops' tops →
      (∀ n ∈ labelNamesM tops, tl'.contains n = tl.contains n) →
      topBlocks o ps' tl' tops' = topBlocks o ps tl tops
  | [], [], _, _ => rfl
  | x' :: r', x :: r, h, hl => by
    have e1 : C17.emitTopLines o ps' tl' x' = C17.emitTopLines o ps tl x :=
      emitTopLinesM_frame o hpa hs h.1 (fun n hn => hl n (by rw [labelNamesM_cons]; exact List.mem_append_left _ hn))
    have e2 := topBlocksM_frame h.2 (fun n hn => hl n (by
      rw [labelNamesM_cons]; exact List.mem_append_right _ hn))
    simp only [topBlocks, e1, e2]
  | [], _ :: _, h, _ => h.elim
  | _ :: _, [], h, _ => h.elim
end

/-! ### the trivial domain: a run compared with itself -/

theorem uses_allM (env : Env) : ∀ (ts : List STopM) (s : PState), UsesM env domAll ts s
  | [], _ => trivial
  | t :: r, s => by
    refine ⟨?_, ?_⟩
    · cases t with
      | base t => exact (uses_all env [t] s).1
      | mapscripts kw md name lb es rb =>
        refine ⟨fun _ _ => trivial, ?_⟩
        split
        · exact ⟨fun _ _ => ⟨trivial, trivial⟩, fun _ _ => ⟨trivial, trivial⟩⟩
        · trivial
    · cases stepTopM env t s with
      | error e => trivial
      | ok q => exact uses_allM env r q.2

theorem elabTopsM_self (env : Env) (ts : List STopM) (s0 : PState) (hb : s0.breakStack = [])
    (hc : s0.continueStack = []) (tops : List Top) (s : PState) (h : elabTopsM env ts s0 = .ok (tops, s)) :
    s.breakStack = [] ∧ s.continueStack = [] ∧ s0.nextCmdId ≤ s.nextCmdId ∧
      All2 (RelTopM (Rb 0 0 s0.nextCmdId s.nextCmdId)) tops tops ∧
      ∃ Δ, s.patches = s0.patches ++ Δ ∧ ∀ p ∈ Δ, s0.nextCmdId ≤ p.1.1 ∧ p.1.1 < s.nextCmdId := by
  have hf := elabTopsM_frame env domAll 0 0 ts (agree_self s0 hb hc) (uses_allM env ts s0)
  rw [h] at hf
  obtain ⟨topsB, b1, hb1, hA, hle, hr, hd⟩ := hf
  simp only [Except.ok.injEq, Prod.mk.injEq] at hb1
  obtain ⟨rfl, rfl⟩ := hb1
  obtain ⟨Δ, Δ', hp, hp', hall⟩ := hd.patches
  have : Δ' = Δ := List.append_cancel_left (hp'.symm.trans hp)
  subst this
  refine ⟨hA.ba, hA.ca, hle, hr, Δ', hp, ?_⟩
  intro p hp
  obtain ⟨x, _, hx⟩ := All2.mem_right hall p hp
  exact ⟨hx.1.2.1, hx.1.2.2⟩

theorem mvNames_relM {R : Ren} : ∀ {tops' tops : List Top}, All2 (RelTopM R) tops' tops →
    mvNames tops' = mvNames tops
  | [], [], _ => rfl
  | x' :: _, x :: _, h => by
    have ih := mvNames_relM h.2
    have h1 := h.1
    cases h1 with
    | base hb =>
      cases hb with
      | script => simp only [mvNames, ih]
      | same _ ht => cases x' <;> simp only [mvNames, ih]
    | mapscripts => simp only [mvNames, ih]
  | [], _ :: _, h => h.elim
  | _ :: _, [], h => h.elim

/-! ### compilation of a file of the extended grammar -/

/-- `elabTopsM`, the post-passes of `ParseProgram`, the emitter (as sections). -/
def compileFileM (env : Env) (o : Opts) (eofT : Tok) (ts : List STopM) : Except CErr Sections :=
  match elabTopsM env ts (initState eofT) with
  | .error e => .error (.parse e)
  | .ok (tops, s) =>
    match finish tops s with
    | .error e => .error (.parse e)
    | .ok _ =>
      match sectionsOf o tops s with
      | .error e => .error (.emit e)
      | .ok S => .ok S

theorem compileFileM_embed (env : Env) (o : Opts) (eofT : Tok) (ts : List STop) :
    compileFileM env o eofT (embed ts) = compileFile env o eofT ts := by
  unfold compileFileM compileFile
  rw [elabTopsM_embed]
  cases elabTops env ts (initState eofT) with
  | error e => rfl
  | ok q => rfl

/-- The pipeline on the printed tokens of a file is `compileFileM`. -/
theorem compileToks_printM (env : Env) (o : Opts) (eofT : Tok) (heof : eofT.type = .EOF) (ts : List STopM)
    (hwf : TWFM ts) :
    compileToks env o (printTopsM ts ++ [eofT]) =
      match compileFileM env o eofT ts with
      | .error e => .error e
      | .ok S => .ok S.lines := by
  unfold compileToks compileFileM
  rw [parseTokens_elabM env eofT heof ts hwf]
  unfold elabFileM
  cases elabTopsM env ts (initState eofT) with
  | error e => rfl
  | ok q =>
    obtain ⟨tops, s⟩ := q
    simp only
    cases hf : finish tops s with
    | error e => rfl
    | ok p =>
      simp only [emitProgram_sections o tops s p hf]
      cases sectionsOf o tops s <;> rfl

theorem compileFileM_ok_iff (env : Env) (o : Opts) (eofT : Tok) (ts : List STopM) (S : Sections) :
    compileFileM env o eofT ts = .ok S ↔
      ∃ tops s, elabTopsM env ts (initState eofT) = .ok (tops, s) ∧ (textNames s).Nodup ∧
        (allMvNames tops s).Nodup ∧ sectionsOf o tops s = .ok S := by
  unfold compileFileM
  cases h : elabTopsM env ts (initState eofT) with
  | error e => simp
  | ok q =>
    obtain ⟨tops, s⟩ := q
    simp only [Except.ok.injEq, Prod.mk.injEq]
    have hf := finish_ok_iff tops s
    cases hfin : finish tops s with
    | error e =>
      rw [hfin] at hf
      have : ¬ ((textNames s).Nodup ∧ (allMvNames tops s).Nodup) := fun hn => by
        obtain ⟨p, hp⟩ := hf.2 hn; cases hp
      constructor
      · intro hh; cases hh
      · rintro ⟨t, s', ⟨rfl, rfl⟩, h1, h2, _⟩; exact absurd ⟨h1, h2⟩ this
    | ok p =>
      rw [hfin] at hf
      obtain ⟨h1, h2⟩ := hf.1 ⟨p, rfl⟩
      simp only
      constructor
      · intro hh
        refine ⟨tops, s, ⟨rfl, rfl⟩, h1, h2, ?_⟩
        cases hs : sectionsOf o tops s with
        | error e => rw [hs] at hh; cases hh
        | ok S' => rw [hs] at hh; cases hh; rfl
      · rintro ⟨t, s', ⟨rfl, rfl⟩, _, _, hs⟩
        rw [hs]

/-! ### independence, parser side -/

theorem indep_parseM (env : Env) (eofT : Tok) (ts1 ts2 : List STopM) (tops1 : List Top) (s1 : PState)
    (h1 : elabTopsM env ts1 (initState eofT) = .ok (tops1, s1))
    (hu : UsesM env (domOf s1) ts2 (initState eofT)) :
    match elabTopsM env ts2 (initState eofT) with
    | .error e => elabTopsM env (ts1 ++ ts2) (initState eofT) = .error e
    | .ok (tops2, s2) =>
      ∃ tops2' s12 Δ', elabTopsM env (ts1 ++ ts2) (initState eofT) = .ok (tops1 ++ tops2', s12) ∧
        All2 (RelTopM (Rb s1.nextCmdId s1.nextSid 0 s2.nextCmdId)) tops2' tops2 ∧
        s12.inlineTexts = s1.inlineTexts ++ s2.inlineTexts ∧
        s12.inlineMovements = s1.inlineMovements ++ s2.inlineMovements ∧
        s12.textStatements = s1.textStatements ++ s2.textStatements ∧
        s12.patches = s1.patches ++ Δ' ∧
        All2 (relPatch (Rb s1.nextCmdId s1.nextSid 0 s2.nextCmdId)) Δ' s2.patches := by
  obtain ⟨hb1, hc1, _, _, _⟩ := elabTopsM_self env ts1 (initState eofT) rfl rfl tops1 s1 h1
  have hA : Agree (domOf s1) s1.nextCmdId s1.nextSid (initState eofT) s1 :=
    ⟨fun _ hv => hv, rfl, rfl, hb1, hc1, (Nat.zero_add _).symm, (Nat.zero_add _).symm,
      ⟨fun _ hk => hk, fun _ hn => hn.1, fun _ hk => hk, fun _ hn => hn.2⟩⟩
  have hf := elabTopsM_frame env (domOf s1) s1.nextCmdId s1.nextSid ts2 hA hu
  rw [elabTopsM_append, h1]
  cases h2 : elabTopsM env ts2 (initState eofT) with
  | error e =>
    rw [h2] at hf
    simp only [hf]
  | ok q =>
    obtain ⟨tops2, s2⟩ := q
    rw [h2] at hf
    obtain ⟨tops2', s12, hb, _, _, hr, hd⟩ := hf
    obtain ⟨Δt, ht1, ht2⟩ := hd.texts
    obtain ⟨Δm, hm1, hm2⟩ := hd.moves
    obtain ⟨Δs, hs1, hs2⟩ := hd.stmts
    obtain ⟨Δ, Δ', hp1, hp2, hall⟩ := hd.patches
    have e1 : Δt = s2.inlineTexts := by rw [ht1]; rfl
    have e2 : Δm = s2.inlineMovements := by rw [hm1]; rfl
    have e3 : Δs = s2.textStatements := by rw [hs1]; rfl
    have e4 : Δ = s2.patches := by rw [hp1]; rfl
    subst e1 e2 e3 e4
    simp only [hb]
    exact ⟨tops2', s12, Δ', rfl, hr, ht2, hm2, hs2, hp2, hall⟩

/-! ### independence, emitter side -/

theorem relTopM_self_frame (o : Opts) {hi : Nat} {ps X : List ((Nat × Nat) × String)} {tl' tl : List String}
    {tops : List Top} (hr : All2 (RelTopM (Rb 0 0 0 hi)) tops tops) (hX : ∀ p ∈ X, hi ≤ p.1.1)
    (hl : ∀ n ∈ labelNamesM tops, tl'.contains n = tl.contains n) :
    topBlocks o (ps ++ X) tl' tops = topBlocks o ps tl tops := by
  refine topBlocksM_frame o ?_ (Rb_mono_s 0 0 0 hi) hr hl
  intro c' c hc
  obtain ⟨rfl, hlt⟩ := relCmd_Rb0_eq hc
  apply patchedArgs_append_right
  intro p hp
  have := hX p hp
  omega

theorem indep_blocksM (o : Opts) (tops1 tops2 tops2' : List Top) (s1 s2 s12 : PState)
    (Δ' : List ((Nat × Nat) × String)) (hi2 : Nat)
    (hr1 : All2 (RelTopM (Rb 0 0 0 s1.nextCmdId)) tops1 tops1)
    (hp1 : ∀ p ∈ s1.patches, p.1.1 < s1.nextCmdId)
    (hr2 : All2 (RelTopM (Rb s1.nextCmdId s1.nextSid 0 hi2)) tops2' tops2)
    (hpat : s12.patches = s1.patches ++ Δ')
    (hall : All2 (relPatch (Rb s1.nextCmdId s1.nextSid 0 hi2)) Δ' s2.patches)
    (hl1 : ∀ n ∈ labelNamesM tops1, (textNames s12).contains n = (textNames s1).contains n)
    (hl2 : ∀ n ∈ labelNamesM tops2, (textNames s12).contains n = (textNames s2).contains n) :
    topBlocks o s12.patches (textNames s12) (tops1 ++ tops2') =
      match topBlocks o s1.patches (textNames s1) tops1 with
      | .error e => .error e
      | .ok b1 =>
        match topBlocks o s2.patches (textNames s2) tops2 with
        | .error e => .error e
        | .ok b2 => .ok (b1 ++ b2) := by
  rw [topBlocks_append, hpat]
  have e1 : topBlocks o (s1.patches ++ Δ') (textNames s12) tops1 = topBlocks o s1.patches (textNames s1) tops1 := by
    refine relTopM_self_frame o hr1 ?_ hl1
    intro p hp
    obtain ⟨x, _, hx⟩ := All2.mem_left hall p hp
    have := hx.1.1
    omega
  have e2 : topBlocks o (s1.patches ++ Δ') (textNames s12) tops2' = topBlocks o s2.patches (textNames s2) tops2 := by
    refine topBlocksM_frame o ?_ (Rb_mono_s _ _ 0 hi2) hr2 hl2
    intro c' c hc
    rw [patchedArgs_append_left]
    · exact patchedArgs_rel (Rb_mono_c _ _ 0 hi2) hall hc
    · intro p hp
      have h1 := hp1 p hp
      have h2 := hc.1.1
      omega
  rw [e1, e2]
  cases topBlocks o s1.patches (textNames s1) tops1 with
  | error e => rfl
  | ok b1 => cases topBlocks o s2.patches (textNames s2) tops2 <;> rfl

/-! ### the independence theorem -/

/-- **The side condition of independence** of the two parts of a file `ts1 ++ ts2` of the extended grammar (every
clause is a finite check on the elaborations of the two parts alone; vacuous when a part does not elaborate) —
`P2.Indep` with the `mapscripts` statements taken into account:
* `UsesM … (domOf s1)`: no token of `ts2` (incl. the tokens of its `mapscripts` statements: types, labels, row
  conditions / values, inline bodies) is spelled like a constant defined in `ts1`; the scripts AND THE INLINE
  SCRIPTS of `ts2` hoist only texts / movements that `ts1` has not hoisted, and — if they hoist something — the
  name they hoist under (the script name, resp. the GENERATED name `<Name>_<TYPE>` / `<Name>_<TYPE>_<i>`) is not a
  name under which `ts1` hoisted anything;
* no text name of one part is a text name of the other; no movement name of one part is one of the other;
* no label statement inside a script or INLINE SCRIPT of one part is a text name of the other part
  (`labelNamesM`). -/
def IndepM (env : Env) (eofT : Tok) (ts1 ts2 : List STopM) : Prop :=
  match elabTopsM env ts1 (initState eofT) with
  | .error _ => True
  | .ok (tops1, s1) =>
    UsesM env (domOf s1) ts2 (initState eofT) ∧
    match elabTopsM env ts2 (initState eofT) with
    | .error _ => True
    | .ok (tops2, s2) =>
      (∀ n ∈ textNames s1, n ∉ textNames s2) ∧ (∀ n ∈ allMvNames tops1 s1, n ∉ allMvNames tops2 s2) ∧
      (∀ n ∈ labelNamesM tops1, n ∉ textNames s2) ∧ (∀ n ∈ labelNamesM tops2, n ∉ textNames s1)

/-- **Independence (C17), extended grammar.** -/
theorem indep_mainM (env : Env) (o : Opts) (eofT : Tok) (ts1 ts2 : List STopM)
    (h : IndepM env eofT ts1 ts2) (S : Sections) :
    compileFileM env o eofT (ts1 ++ ts2) = .ok S ↔
      ∃ S1 S2, compileFileM env o eofT ts1 = .ok S1 ∧ compileFileM env o eofT ts2 = .ok S2 ∧
        S = S1.append S2 := by
  simp only [compileFileM_ok_iff]
  unfold IndepM at h
  cases h1 : elabTopsM env ts1 (initState eofT) with
  | error e =>
    constructor
    · rintro ⟨tops, s, he, _⟩
      rw [elabTopsM_append, h1] at he
      cases he
    · rintro ⟨S1, S2, ⟨tops, s, he, _⟩, _⟩
      cases he
  | ok q1 =>
    obtain ⟨tops1, s1⟩ := q1
    rw [h1] at h
    obtain ⟨hu, h⟩ := h
    have hp := indep_parseM env eofT ts1 ts2 tops1 s1 h1 hu
    cases h2 : elabTopsM env ts2 (initState eofT) with
    | error e =>
      rw [h2] at hp
      constructor
      · rintro ⟨tops, s, he, _⟩
        rw [hp] at he
        cases he
      · rintro ⟨S1, S2, _, ⟨tops, s, he, _⟩, _⟩
        cases he
    | ok q2 =>
      obtain ⟨tops2, s2⟩ := q2
      rw [h2] at hp h
      obtain ⟨hn1, hn2, hn3, hn4⟩ := h
      obtain ⟨tops2', s12, Δ', he12, hr2, ht, hm, hs, hpat, hall⟩ := hp
      obtain ⟨_, _, _, hr1, Δ1, hΔ1, hb1⟩ := elabTopsM_self env ts1 (initState eofT) rfl rfl tops1 s1 h1
      have hp1 : ∀ p ∈ s1.patches, p.1.1 < s1.nextCmdId := by
        intro p hp
        rw [hΔ1] at hp
        exact (hb1 p (by simpa [initState] using hp)).2
      have hperm : (textNames s12).Perm (textNames s1 ++ textNames s2) := by
        unfold textNames
        rw [ht, hs, ← List.map_append]
        exact (perm_four _ _ _ _).map _
      have hmv : (allMvNames (tops1 ++ tops2') s12).Perm (allMvNames tops1 s1 ++ allMvNames tops2 s2) := by
        unfold allMvNames
        rw [mvNames_append, mvNames_relM hr2, hm, List.map_append]
        exact perm_four _ _ _ _
      have hmem : ∀ n, n ∈ textNames s12 ↔ n ∈ textNames s1 ∨ n ∈ textNames s2 := by
        intro n; rw [hperm.mem_iff, List.mem_append]
      have hsec : sectionsOf o (tops1 ++ tops2') s12 =
          match sectionsOf o tops1 s1 with
          | .error e => .error e
          | .ok S1 =>
            match sectionsOf o tops2 s2 with
            | .error e => .error e
            | .ok S2 => .ok (S1.append S2) := by
        unfold sectionsOf
        rw [indep_blocksM o tops1 tops2 tops2' s1 s2 s12 Δ' s2.nextCmdId hr1 hp1 hr2 hpat hall
          (fun n hn => contains_congr (by rw [hmem]; exact ⟨fun h => h.resolve_right (hn3 n hn), Or.inl⟩))
          (fun n hn => contains_congr (by rw [hmem]; exact ⟨fun h => h.resolve_left (hn4 n hn), Or.inr⟩))]
        cases topBlocks o s1.patches (textNames s1) tops1 with
        | error e => rfl
        | ok b1 =>
          cases topBlocks o s2.patches (textNames s2) tops2 with
          | error e => rfl
          | ok b2 => simp [Sections.append, ht, hm, hs]
      constructor
      · rintro ⟨tops, s, he, hnd1, hnd2, hsS⟩
        rw [he12] at he
        simp only [Except.ok.injEq, Prod.mk.injEq] at he
        obtain ⟨rfl, rfl⟩ := he
        rw [hperm.nodup_iff, nodup_append_iff] at hnd1
        rw [hmv.nodup_iff, nodup_append_iff] at hnd2
        rw [hsec] at hsS
        cases hs1 : sectionsOf o tops1 s1 with
        | error e => rw [hs1] at hsS; cases hsS
        | ok S1 =>
          rw [hs1] at hsS
          cases hs2 : sectionsOf o tops2 s2 with
          | error e => rw [hs2] at hsS; cases hsS
          | ok S2 =>
            rw [hs2] at hsS
            simp only [Except.ok.injEq] at hsS
            exact ⟨S1, S2, ⟨tops1, s1, rfl, hnd1.1, hnd2.1, hs1⟩, ⟨tops2, s2, rfl, hnd1.2.1, hnd2.2.1, hs2⟩,
              hsS.symm⟩
      · rintro ⟨S1, S2, ⟨t1, s1', he1, hd1, hd2, hs1⟩, ⟨t2, s2', he2, hd3, hd4, hs2⟩, rfl⟩
        simp only [Except.ok.injEq, Prod.mk.injEq] at he1 he2
        obtain ⟨rfl, rfl⟩ := he1
        obtain ⟨rfl, rfl⟩ := he2
        refine ⟨tops1 ++ tops2', s12, he12, ?_, ?_, ?_⟩
        · rw [hperm.nodup_iff, nodup_append_iff]; exact ⟨hd1, hd3, hn1⟩
        · rw [hmv.nodup_iff, nodup_append_iff]; exact ⟨hd2, hd4, hn2⟩
        · rw [hsec, hs1, hs2]

/-! ### decidability of the side condition -/

instance (env : Env) (D : Dom) [Dom.Dec D] (t : STopM) (s : PState) : Decidable (StepUsesM env D t s) := by
  cases t with
  | base t => exact (inferInstance : Decidable (StepUses env D t s))
  | mapscripts kw md name lb es rb =>
    have d2 : Decidable (match elabEntries env name.lit es (ctxOf s) with
        | .ok (_, _, imp, _) => ImpUses D imp
        | .error _ => True) := by
      cases elabEntries env name.lit es (ctxOf s) with
      | error e => exact isTrue trivial
      | ok q => obtain ⟨a, b, imp, c⟩ := q; exact (inferInstance : Decidable (ImpUses D imp))
    exact (inferInstance : Decidable ((∀ tok ∈ printTopM (.mapscripts kw md name lb es rb), D.lit tok.lit) ∧
      (match elabEntries env name.lit es (ctxOf s) with
        | .ok (_, _, imp, _) => ImpUses D imp
        | .error _ => True)))

theorem usesM_cons_ok {env : Env} {D : Dom} {t : STopM} {r : List STopM} {s s1 : PState} {o : Option Top}
    (h : stepTopM env t s = .ok (o, s1)) : UsesM env D (t :: r) s ↔ StepUsesM env D t s ∧ UsesM env D r s1 := by
  simp only [UsesM, h]

theorem usesM_cons_err {env : Env} {D : Dom} {t : STopM} {r : List STopM} {s : PState} {e : PFail}
    (h : stepTopM env t s = .error e) : UsesM env D (t :: r) s ↔ StepUsesM env D t s := by
  simp only [UsesM, h, and_true]

def decUsesM (env : Env) (D : Dom) [Dom.Dec D] : (ts : List STopM) → (s : PState) → Decidable (UsesM env D ts s)
  | [], _ => isTrue trivial
  | t :: r, s =>
    match h : stepTopM env t s with
    | .ok (_, s1) =>
      have := decUsesM env D r s1
      decidable_of_iff _ (usesM_cons_ok h).symm
    | .error _ => decidable_of_iff _ (usesM_cons_err h).symm

instance (env : Env) (D : Dom) [Dom.Dec D] (ts : List STopM) (s : PState) : Decidable (UsesM env D ts s) :=
  decUsesM env D ts s

instance (env : Env) (eofT : Tok) (ts1 ts2 : List STopM) : Decidable (IndepM env eofT ts1 ts2) := by
  unfold IndepM
  cases elabTopsM env ts1 (initState eofT) with
  | error e => exact isTrue trivial
  | ok q1 =>
    obtain ⟨tops1, s1⟩ := q1
    cases elabTopsM env ts2 (initState eofT) with
    | error e =>
      exact (inferInstance : Decidable (UsesM env (domOf s1) ts2 (initState eofT) ∧ True))
    | ok q2 =>
      obtain ⟨tops2, s2⟩ := q2
      exact (inferInstance : Decidable (UsesM env (domOf s1) ts2 (initState eofT) ∧
        (∀ n ∈ textNames s1, n ∉ textNames s2) ∧ (∀ n ∈ allMvNames tops1 s1, n ∉ allMvNames tops2 s2) ∧
        (∀ n ∈ labelNamesM tops1, n ∉ textNames s2) ∧ (∀ n ∈ labelNamesM tops2, n ∉ textNames s1)))

end Pory.P2b
