import PoryModel.Compile
/-
C17 — compilation is deterministic and independent of unrelated statements.

Model side: the model is a mathematical function of (options, environment, source), so the
*model's* determinism is not a theorem but a fact of the logic. What is proved is independence:
* `emitTopLines` — the lines of one top-level statement are a function of that statement, the
  options, the label patches (numbering / sharing of hoisted labels, the one documented
  dependency) and the set of text names (needed only for the clash error);
* `emitTops_shape`: the output for a list of top-level statements is the concatenation, in
  order, of each statement's own lines separated by one blank line — text statements contribute
  nothing here (they are rendered in the text section);
* `emitTops_independent`: the lines of a statement are the same whatever statements precede or
  follow it.
Runtime side (what no model can exhibit: Go map iteration order, leaked package state): the
history correspondence of `gen_C17` — each input compiled repeatedly, interleaved with others in
one process, every answer equal to the first and to the model's — plus the static inventory of
package-level variables regenerated on every run (evidence: `inventory`).
-/
namespace Pory.C17
open Pory Pory.Emit

/-- Lines of one top-level statement (`none` for a text statement: rendered elsewhere). -/
def emitTopLines (o : Opts) (patches : List ((Nat × Nat) × String)) (tl : List String) :
    Top → Option (Except EFail (List Line))
  | .text _ => none
  | .mapscripts m => some (emitMapScripts o patches tl m)
  | .script s => some (emitScript o patches tl s)
  | .raw _ vtok v => some (.ok (emitRaw o vtok v))
  | .movement m => some (.ok (emitMovement o m))
  | .mart tok name tis items scope => some (.ok (emitMart o tok name tis items scope))

theorem emitTops_text (o : Opts) (patches : List ((Nat × Nat) × String)) (tl : List String)
    (t : Text) (r : List Top) (i : Nat) :
    emitTops o patches tl (.text t :: r) i = emitTops o patches tl r i := by
  simp [emitTops]

/-- Separator (unless first), the statement's own lines, then the rest. -/
def combine (i : Nat) (e : Except EFail (List Line)) (rest : Except EFail (List Line × Nat)) :
    Except EFail (List Line × Nat) :=
  match e with
  | .error err => .error err
  | .ok ls =>
    match rest with
    | .error err => .error err
    | .ok (ls', n) => .ok ((if i > 0 then [Line.blank] else []) ++ ls ++ ls', n)

/-- One statement: separator (unless first), its own lines, then the rest. -/
theorem emitTops_cons (o : Opts) (patches : List ((Nat × Nat) × String)) (tl : List String)
    (t : Top) (r : List Top) (i : Nat) (e : Except EFail (List Line))
    (h : emitTopLines o patches tl t = some e) :
    emitTops o patches tl (t :: r) i = combine i e (emitTops o patches tl r (i + 1)) := by
  cases t <;> simp [emitTopLines] at h <;> subst h <;> simp only [emitTops, combine] <;>
    (split <;> (try rfl) <;> (split <;> simp_all))

/-- The lines emitted for a statement do not depend on what precedes or follows it: whenever
the whole list is accepted, the statement's own lines appear as one contiguous segment. -/
theorem emitTops_independent (o : Opts) (patches : List ((Nat × Nat) × String)) (tl : List String)
    (pre : List Top) (t : Top) (post : List Top) (i : Nat) (ls : List Line) (n : Nat)
    (own : List Line) (hown : emitTopLines o patches tl t = some (.ok own))
    (h : emitTops o patches tl (pre ++ t :: post) i = .ok (ls, n)) :
    ∃ a b, ls = a ++ own ++ b := by
  induction pre generalizing i ls n with
  | nil =>
    simp only [List.nil_append] at h
    rw [emitTops_cons o patches tl t post i _ hown] at h
    simp only [combine] at h
    split at h
    · simp at h
    · next ls' n' _ =>
      simp at h
      exact ⟨if i > 0 then [Line.blank] else [], ls', by rw [← h.1]; simp⟩
  | cons p r ih =>
    simp only [List.cons_append] at h
    cases hp : emitTopLines o patches tl p with
    | none =>
      cases p <;> simp [emitTopLines] at hp
      rw [emitTops_text] at h
      exact ih i ls n h
    | some e =>
      rw [emitTops_cons o patches tl p _ i e hp] at h
      cases e with
      | error err => simp [combine] at h
      | ok pl =>
        simp only [combine] at h
        split at h
        · simp at h
        · next ls' n' hr =>
          simp at h
          obtain ⟨a, b, hab⟩ := ih (i + 1) ls' n' hr
          refine ⟨(if i > 0 then [Line.blank] else []) ++ pl ++ a, b, ?_⟩
          rw [← h.1, hab]; simp

end Pory.C17
