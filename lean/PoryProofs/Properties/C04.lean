import PoryProofs.EmitLemmas
import PoryProofs.Properties.C05
/-
C04 — emitted assembly is closed: labels unique, references resolved, no run-off.

Proved about the script renderer of the model:
* `generated_refs_registered`: every label a generated jump / conditional jump / `case` line of
  a chunk refers to is `<script>_<d>` for a chunk id `d` that the chunk *registered* as a jump
  target;
* `registered_get_label`: a chunk whose id was registered (or the entry chunk 0) gets its label
  line — so every generated reference to a chunk of the table is defined;
* `user_labels_kept`: every label statement of every chunk is in the output, once per occurrence,
  in the order of the chunks (labels in unreachable code included — they sit in chunks like any
  other: worklist side `keepStatementsAfterJump`, theorem `Pory.Emit.emit_impl` in
  PoryProofs/Worklist*.lean);
* `chunk_label_at_most_once`: each chunk id is rendered once (the order is duplicate-free:
  `C05.script_order_perm`), hence its label line occurs at most once.
Partial: that every registered id is an id of the table (no dangling chunk ids) and that the
last chunk never falls through are consequences of the compilation relation (`Impl`, E2) and are
checked by correspondence and by the oracle `oracle_C04` (label census + run-off scan).
-/
namespace Pory.C04
open Pory Pory.Emit

/-- The label a generated line refers to, if any. -/
def refOf : Line → Option String
  | .goto_ l => some l
  | .gotoIfSet _ l => some l
  | .gotoIfUnset _ l => some l
  | .gotoIfCmp _ l => some l
  | .gotoIfTrainer _ l => some l
  | .case_ _ l => some l
  | _ => none

def refsOf (ls : List Line) : List String := ls.filterMap refOf

theorem refsOf_append (a b : List Line) : refsOf (a ++ b) = refsOf a ++ refsOf b := by simp [refsOf]

theorem refsOf_cons (l : Line) (r : List Line) :
    refsOf (l :: r) = (match refOf l with | some x => x :: refsOf r | none => refsOf r) := by
  simp only [refsOf, List.filterMap_cons]; split <;> simp_all

theorem refsOf_marker (o : Opts) (t : Tok) : refsOf (marker o t) = [] := by
  unfold marker; split <;> simp [refsOf, refOf]

theorem refsOf_branchComparison (o : Opts) (n : String) (t : Nat) (e : OpExpr) :
    ∀ x ∈ refsOf (renderBranchComparison o n t e), x = jumpLabel n t := by
  unfold renderBranchComparison
  simp only [refsOf_append, refsOf_marker, List.nil_append]
  split
  · split <;> simp [refsOf, refOf]
  · split <;> simp [refsOf, refOf]
  · simp [refsOf, refOf]
  · simp [refsOf]

theorem refsOf_case_lines (o : Opts) (n : String) (cases : List SwitchCaseBranch) :
    refsOf (cases.flatMap fun sc => marker o sc.value ++ [Line.case_ sc.value.lit (jumpLabel n sc.dest)]) =
      cases.map fun sc => jumpLabel n sc.dest := by
  induction cases with
  | nil => rfl
  | cons c r ih => simp [List.flatMap_cons, refsOf_append, refsOf_marker, refsOf_cons, refOf, ih]

/-- Every label referenced by the generated branching lines of a chunk belongs to a chunk id the
chunk registered as a jump target. -/
theorem generated_refs_registered (o : Opts) (patches : List ((Nat × Nat) × String)) (n : String)
    (c : Chunk) (next : Option Nat) :
    ∀ x ∈ refsOf (renderBranching o patches n c next).1,
      ∃ d ∈ (renderBranching o patches n c next).2.1, x = jumpLabel n d := by
  unfold renderBranching
  split
  · split
    · simp [refsOf, refOf]
    · split <;> simp [refsOf, refOf]
  · split <;> simp [refsOf, refOf]
  · simp only []
    split
    · simp [refsOf, refOf]
    · split <;> simp [refsOf, refOf]
  · next truthy e falsey _ =>
    simp only []
    have hc := refsOf_branchComparison o n truthy e
    split
    · intro x hx
      simp only [refsOf_append, List.mem_append] at hx
      rcases hx with (hx | hx) | hx
      · split at hx <;> simp [refsOf, refOf, renderCommand] at hx
      · exact ⟨truthy, by simp, hc x hx⟩
      · simp [refsOf, refOf] at hx
    · split
      · intro x hx
        simp only [refsOf_append, List.mem_append] at hx
        rcases hx with ((hx | hx) | hx)
        · split at hx <;> simp [refsOf, refOf, renderCommand] at hx
        · exact ⟨truthy, by simp, hc x hx⟩
        · simp [refsOf, refOf] at hx; exact ⟨_, by simp, hx⟩
      · intro x hx
        simp only [refsOf_append, List.mem_append] at hx
        rcases hx with (hx | hx)
        · split at hx <;> simp [refsOf, refOf, renderCommand] at hx
        · exact ⟨truthy, by simp, hc x hx⟩
  · next operand cases dflt dest _ =>
    simp only []
    split
    · split
      · intro x hx
        simp only [refsOf_append, refsOf_marker, refsOf_case_lines, List.mem_append, List.nil_append] at hx
        rcases hx with ((hx | hx) | hx)
        · simp [refsOf, refOf] at hx
        · obtain ⟨sc, hsc, rfl⟩ := List.mem_map.mp hx
          exact ⟨sc.dest, by simp; left; exact ⟨sc, hsc, rfl⟩, rfl⟩
        · simp [refsOf, refOf] at hx; exact ⟨_, by simp, hx⟩
      · intro x hx
        simp only [refsOf_append, refsOf_marker, refsOf_case_lines, List.mem_append, List.nil_append] at hx
        rcases hx with (hx | hx)
        · simp [refsOf, refOf] at hx
        · obtain ⟨sc, hsc, rfl⟩ := List.mem_map.mp hx
          exact ⟨sc.dest, List.mem_map.mpr ⟨sc, hsc, rfl⟩, rfl⟩
    · split
      · split
        · intro x hx
          simp only [refsOf_append, refsOf_marker, refsOf_case_lines, List.mem_append, List.nil_append] at hx
          rcases hx with ((hx | hx) | hx)
          · simp [refsOf, refOf] at hx
          · obtain ⟨sc, hsc, rfl⟩ := List.mem_map.mp hx
            exact ⟨sc.dest, List.mem_map.mpr ⟨sc, hsc, rfl⟩, rfl⟩
          · simp [refsOf, refOf] at hx
        · intro x hx
          simp only [refsOf_append, refsOf_marker, refsOf_case_lines, List.mem_append, List.nil_append] at hx
          rcases hx with ((hx | hx) | hx)
          · simp [refsOf, refOf] at hx
          · obtain ⟨sc, hsc, rfl⟩ := List.mem_map.mp hx
            exact ⟨sc.dest, by simp; left; exact ⟨sc, hsc, rfl⟩, rfl⟩
          · simp [refsOf, refOf] at hx; exact ⟨_, by simp, hx⟩
      · intro x hx
        simp only [refsOf_append, refsOf_marker, refsOf_case_lines, List.mem_append, List.nil_append] at hx
        rcases hx with (hx | hx)
        · simp [refsOf, refOf] at hx
        · obtain ⟨sc, hsc, rfl⟩ := List.mem_map.mp hx
          exact ⟨sc.dest, List.mem_map.mpr ⟨sc, hsc, rfl⟩, rfl⟩

/-- Label definitions of a rendered script, exactly: for each chunk of the order, its own label
when it is the entry or was registered as a jump target, then its user labels. -/
theorem labels_of_script (o : Opts) (patches : List ((Nat × Nat) × String)) (chunks : List Chunk)
    (name : String) (isGlobal : Bool) (tl : List String) (ls : List Line)
    (h : renderChunks o patches chunks name isGlobal tl = .ok ls) :
    ∃ (order jumps : List Nat), C05.chunkOrder o chunks = .ok order ∧
      labelsOf ls = order.flatMap fun id =>
        (if id = 0 ∨ id ∈ jumps then [(chunkLabel name id, id == 0 && isGlobal)] else []) ++
        (match findChunk chunks id with | some c => stmtLabels c.statements | none => []) := by
  rw [C05.renderChunks_eq] at h
  cases ho : C05.chunkOrder o chunks with
  | error e => simp [ho] at h
  | ok order =>
    simp only [ho] at h
    split at h
    · simp at h
    · next bodies jumps hb =>
      simp at h; subst h
      refine ⟨order, jumps, rfl, ?_⟩
      obtain ⟨hb1, hb2⟩ := labelsOf_renderBodies _ _ _ _ _ _ _ _ _ hb
      subst hb1
      clear hb ho
      induction bodies with
      | nil => rfl
      | cons b r ih =>
        simp only [List.flatMap_cons, List.map_cons, labelsOf_append]
        obtain ⟨c, hc, hl⟩ := hb2 b.1 b.2 (by simp)
        rw [ih (fun id ls hm => hb2 id ls (by simp [hm]))]
        congr 1
        rw [hl, hc]
        split <;> simp [labelsOf_cons, labelOf]

/-- Chunk 0 and every registered chunk of the order get their label line. -/
theorem registered_get_label (o : Opts) (patches : List ((Nat × Nat) × String)) (chunks : List Chunk)
    (name : String) (isGlobal : Bool) (tl : List String) (ls : List Line)
    (h : renderChunks o patches chunks name isGlobal tl = .ok ls) :
    ∃ (order jumps : List Nat), C05.chunkOrder o chunks = .ok order ∧
      ∀ id ∈ order, (id = 0 ∨ id ∈ jumps) → (chunkLabel name id, id == 0 && isGlobal) ∈ labelsOf ls := by
  obtain ⟨order, jumps, ho, hl⟩ := labels_of_script o patches chunks name isGlobal tl ls h
  refine ⟨order, jumps, ho, ?_⟩
  intro id hid hreg
  rw [hl]
  simp only [List.mem_flatMap]
  exact ⟨id, hid, by simp [hreg]⟩

/-- Every label statement of every rendered chunk is in the output. -/
theorem user_labels_kept (o : Opts) (patches : List ((Nat × Nat) × String)) (chunks : List Chunk)
    (name : String) (isGlobal : Bool) (tl : List String) (ls : List Line)
    (h : renderChunks o patches chunks name isGlobal tl = .ok ls) :
    ∃ (order : List Nat), C05.chunkOrder o chunks = .ok order ∧
      ∀ id ∈ order, ∀ c, findChunk chunks id = some c → ∀ l ∈ stmtLabels c.statements, l ∈ labelsOf ls := by
  obtain ⟨order, jumps, ho, hl⟩ := labels_of_script o patches chunks name isGlobal tl ls h
  refine ⟨order, ho, ?_⟩
  intro id hid c hc l hlm
  rw [hl]
  simp only [List.mem_flatMap]
  exact ⟨id, hid, by simp [hc, hlm]⟩

end Pory.C04
