import PoryProofs.ProgramInsertMS
/-
P2b — the whole-file grammar theorem P2 ("parse ∘ print = elaborate" for whole files + the independence clause of
C17) EXTENDED TO `mapscripts` STATEMENTS.

Helper modules (all new; nothing existing was edited): PoryProofs/ProgramGrammarMS.lean (grammar `STopM`, printer,
`TWFM`, reference elaboration), ProgramParseMS.lean (the parser on printed files), ProgramFrameMS.lean (frame lemma
of the file elaboration with a `mapscripts` case), ProgramIndepMS.lean (emitter side, `IndepM`, decidability),
ProgramInsertMS.lean (removing / inserting one statement).
Reused: P2 (all six old statement kinds through the embedding), P1 (`StmtG.parse_block_elab` for the inline
bodies), C08b's helper module MapScriptsParse.lean (the equational iteration lemmas `ment_*` / `trow_*` of the two
loops, `collVal`, `rowName`, `entryName`), C15b (`parse_mapscripts_statement_gen`), the P2 machinery `Agree` /
`Delta` / `addImp_frame` / `emitScript_frame` / `Sections` / `finish`.

COVERED GRAMMAR  `STopM` = `base t` (`t : P2.STop`: script / raw / const / movement / mart / text — the constructor
`STopM.base` is the embedding; `embed = List.map STopM.base`, `printTopsM_embed`, `TWFM_embed`, `elabTopsM_embed`,
`compileFileM_embed`) plus
    mapscripts   `mapscripts [(global|local)] Name { entry* }` with the entries (`SEntry`)
        plain    `TYPE : Label`
        inline   `TYPE { body }`                         body = the statement grammar of P1 (`StmtG.SStmt`)
        table    `TYPE [ row* ]` with the rows (`SRow`)
            plain    `c₁ … cₖ , v₁ … vₗ : Label`
            inline   `c₁ … cₖ , v₁ … vₗ { body }`
  Every constructor carries the tokens it is printed with (arbitrary records). `TopWFM` / `TWFM` (decidable) fix
  token types only; for a row (`RowSyn`): the condition tokens `cᵢ` are not `,`, the first one is not `]`, the value
  tokens `vⱼ` are neither `:` nor `{`, no end-of-input token after the first token of either list. A single plain
  token as condition / value (`VAR_A, 1: Label`) is the case `k = l = 1`; `k = 0` / `l = 0` are IN the grammar and
  elaborate to the located errors below (as the model does).
NOT COVERED: what P2 / P1 list as not covered (poryswitch inside movement / mart / text, `format()`, a `const` as
  last statement, …); token sequences outside the grammar (a `TYPE` that is not an identifier, a missing label
  after `:`, end of input inside a table …: C08b has those located errors); the lexer.

REFERENCE ELABORATION of a `mapscripts` statement (`stepTopM`, `elabEntries`, `elabRows`): the entries in source
order; plain and inline entries become `mapScripts`, tables become `tables` (both in source order); the label of an
inline entry / of a table is `<Name>_<TYPE>`, of an inline row `<Name>_<TYPE>_<i>` with `i` the 0-based index of
the row among ALL rows of its table; an inline body is `StmtG.elabE` (P1) under that generated name, with scope
LOCAL and an empty token; the scope-id / command-id counters are threaded from body to body (and on into the
following statements — they are never reset); condition / value of a row are the constant-substituted literals
joined by the Go string builder (`collVal`), the condition token is the row's first token carrying that string;
the implicit texts / movements of ALL inline bodies are recorded ONCE after the statement (`C12c.addImp`: all
texts first, then all movements), each under the generated name of its inline script. Located errors: the P1
violations inside a body, `emptyCondErr` (collected condition empty: error on the row's first token — the `,` if
there is no condition token), `emptyCmpErr` (collected value empty: range first token … `:` / `{`).

PROVED (nothing partial for the covered grammar)
1. parse ∘ print = elaborate
* `parse_top_elab_ms`  : `parseTopLevelStatement` on one printed statement of `STopM` = `stepTopM` (result, state
                         with the window on the statement's last token, or the located error);
* `parse_tops_elab_ms` : the top-level loop; `parse_program_elab_ms`: with the post-passes;
* `parse_file_elab_ms` : `parseTokens env (printTopsM ts ++ [eofT]) = elabFileM env ts (initState eofT)` for every
                         `TWFM` file, with the model's own fuel (shown sufficient); `parse_file_embed`: on embedded
                         files this is P2's `parse_file_elab`.
2. independence (C17) for mixed files
* `compile_print_ms`   : `parseTokens` + `emitProgram` on the printed tokens IS `compileFileM` (output as `P2.Sections`);
* `tops_independent_ms`: for `IndepM env eofT ts1 ts2` (decidable)
      `compileFileM (ts1 ++ ts2) = .ok S ↔ ∃ S1 S2, compileFileM ts1 = .ok S1 ∧ compileFileM ts2 = .ok S2 ∧ S = S1.append S2`;
  `tops_independent_ms_tokens` (through `compileToks`), `parse_error_left_ms` / `parse_error_right_ms`.
  SIDE CONDITION `IndepM` = `P2.Indep` read on the extended grammar: (a) no token of `ts2` — now including the
  type / label / condition / value tokens and inline bodies of its `mapscripts` statements — is spelled like a
  constant defined in `ts1`; (b) the scripts and INLINE SCRIPTS of `ts2` hoist no text / movement `ts1` hoisted,
  and the name they hoist under — for an inline script the GENERATED name `<Name>_<TYPE>` / `<Name>_<TYPE>_<i>` — is
  not a name under which `ts1` hoisted something (script name or generated name); (c) text names disjoint,
  movement names disjoint; (d) no label statement of a script or inline script of one part is a text name of the
  other (`labelNamesM`). The task sheet suggested "generated inline script names of one part are not names /
  labels of the other": the model needs less — neither parser nor emitter compares script names with each other
  (two scripts / inline scripts with one name are both emitted; the assembler complains, not poryscript), a
  generated name matters only as the key of the per-name label counter of hoisted texts / movements, which is
  clause (b). `generated_name_not_independent` is the witness that (b) cannot be dropped.
* `statement_independent_ms` / `insert_statement_ms`: `P2.statement_independent` lifted — for `UnrelatedM env eofT
  pre t post` (decidable; `t` any statement of the extended grammar but a `const`, e.g. a `mapscripts` statement
  between scripts, or a script between `mapscripts` statements): if `pre ++ t :: post` compiles to `S'` then
  `S' = P ++ (T ++ Q)` section-wise, `T` the blocks of `t` (at most one top-level block), and `pre ++ post`
  compiles to `P ++ Q`.
3. examples / witnesses (section Example): the required non-vacuity file (a script + a `mapscripts` statement with
   one label entry, one inline script and a two-row table) parsed by `decide` on the parser model and by the
   theorem (`exFile_parsed_decide`, `exFile_parsed_theorem`); its compiled sections (`exFile_compiled`); instances
   of both independence theorems (`exFile_indep`, `exMS_unrelated`); witnesses `generated_name_not_independent`,
   `shared_text_inline_not_independent`, `const_in_row_not_independent`, `patches_order_mapscripts`; the located
   errors of rows and of an inline body through `parseTokens`.

PARTIAL / OPEN (honest list)
* As in P2, `statement_independent_ms` is proved in the "remove" direction (and for two compiling files).
* As in P2 the independence theorem compares successful compilations and parse errors; which post-pass / emitter
  error a failing combined file reports is not compared with the parts.
* `IndepM (embed a) (embed b) ↔ P2.Indep a b` is not stated (both theorems are available on embedded files:
  `compileFileM_embed` + `P2.tops_independent`).

NOTICED IN THE MODEL (= parser.go)
* the implicit data of the inline scripts of one `mapscripts` statement is recorded once, texts before movements:
  the patch list of a statement with two inline scripts that both hoist a text and a movement is ordered
  text₁ text₂ move₁ move₂, not text₁ move₁ text₂ move₂ as for two `script` statements (`patches_order_mapscripts`;
  parser.go: one `p.addImplicitData(impData)` after `parseMapscriptsStatement`; harmless — the patch keys are
  distinct, texts and movements are numbered by separate counters);
* a `script` named like a generated inline-script name shares the label counter of hoisted texts with it
  (`generated_name_not_independent`): `script M_T { msgbox("Hi") }  mapscripts M { T { msgbox("Yo") } }` labels the
  second text `M_T_Text_1`, and both scripts are emitted under the label `M_T` without complaint;
* `, 1: L` (no condition token) reports "expected condition … was empty" located on the comma.
-/
namespace Pory.P2b
open Pory Pory.Parser Pory.C02P Pory.StmtG Pory.TopParse Pory.P2 Pory.Emit
open Pory.MapScriptsParse (collVal rowName entryName)

/-! ## 1. parse ∘ print = elaborate -/

/-- **One printed top-level statement of the extended grammar** (followed by `nx :: rest`; after a `const`, `nx`
is a top-level keyword): result, state (window left on the last token of the statement), or located error. -/
theorem parse_top_elab_ms (env : Env) (fuel : Nat) (t : STopM) (s : PState) (nx : Tok) (rest : List Tok)
    (hwf : TopWFM t) (hnx : t.isConst = true → nx.type ∈ Facts.topLevelTokens) (hf : needTopM t ≤ fuel) :
    (parseTopLevelStatement env fuel).run (st s (printTopM t ++ nx :: rest)) =
      match stepTopM env t s with
      | .error e => .error e
      | .ok (o, s') => .ok (o, st s' (t.last :: nx :: rest)) :=
  parse_top_step_ms env fuel t s nx rest hwf hnx hf

/-- … spelled out for a `mapscripts` statement: the node carries the name token, the written / default scope,
the elaborated entries; the state has the counters after the last inline body and the implicit data of all
inline bodies recorded. -/
theorem parse_mapscripts_elab (env : Env) (fuel : Nat) (kw : Tok) (md : Mod) (name lb : Tok) (es : List SEntry)
    (rb : Tok) (s : PState) (nx : Tok) (rest : List Tok)
    (hwf : TopWFM (.mapscripts kw md name lb es rb)) (hf : needEntries es ≤ fuel) :
    (parseTopLevelStatement env fuel).run
        (st s (kw :: (md.toks ++ name :: lb :: (printEntries es ++ rb :: nx :: rest)))) =
      match elabEntries env name.lit es (ctxOf s) with
      | .error e => .error e
      | .ok (mss, tbs, imp, c') =>
        .ok (some (.mapscripts { tok := name, name := name.lit, mapScripts := mss, tables := tbs,
                                 scope := md.scope (defaultScopeOf "parseMapscriptsStatement") }),
             st (C12c.addImp imp { s with nextSid := c'.nextSid, nextCmdId := c'.nextCmdId }) (rb :: nx :: rest)) := by
  have h := parse_top_elab_ms env fuel (.mapscripts kw md name lb es rb) s nx rest hwf (fun h => by cases h) hf
  simp only [printTopM, List.cons_append, List.append_assoc, List.nil_append] at h
  rw [h]
  simp only [stepTopM, STopM.last]
  cases elabEntries env name.lit es (ctxOf s) with
  | error e => rfl
  | ok q => rfl

/-- **The top-level loop** on a printed file of the extended grammar. -/
theorem parse_tops_elab_ms (env : Env) (fuel : Nat) (eofT : Tok) (tl : List Tok) (heof : eofT.type = .EOF)
    (ts : List STopM) (n : Nat) (acc : List Top) (s : PState) (hwf : TWFM ts) (hn : ts.length + 1 ≤ n)
    (hf : ∀ t ∈ ts, needTopM t ≤ fuel) :
    (topLoop env fuel n acc).run (st s (printTopsM ts ++ eofT :: tl)) =
      match elabTopsM env ts s with
      | .error e => .error e
      | .ok (tops, s') => .ok (acc ++ tops, st s' (eofT :: tl)) :=
  topLoopM_elab env fuel eofT tl heof ts n acc s hwf hn hf

/-- … followed by the post-passes of `ParseProgram`. -/
theorem parse_program_elab_ms (env : Env) (fuel : Nat) (eofT : Tok) (tl : List Tok) (heof : eofT.type = .EOF)
    (ts : List STopM) (s : PState) (hwf : TWFM ts) (hn : ts.length + 1 ≤ fuel)
    (hf : ∀ t ∈ ts, needTopM t ≤ fuel) :
    (parseProgramM env fuel).run (st s (printTopsM ts ++ eofT :: tl)) =
      match elabTopsM env ts s with
      | .error e => .error e
      | .ok (tops, s') =>
        match finish tops s' with
        | .error e => .error e
        | .ok p => .ok (p, st s' (eofT :: tl)) :=
  parseProgramM_elabM env fuel eofT tl heof ts s hwf hn hf

/-- **P2b, whole files**: `parseTokens` (with its own fuel `4 * tokens + 50`) on the printed tokens of a
well-formed file of the extended grammar is the reference elaboration followed by the post-passes. -/
theorem parse_file_elab_ms (env : Env) (eofT : Tok) (heof : eofT.type = .EOF) (ts : List STopM) (hwf : TWFM ts) :
    parseTokens env (printTopsM ts ++ [eofT]) = elabFileM env ts (initState eofT) :=
  parseTokens_elabM env eofT heof ts hwf

/-- On embedded files of the old grammar: P2's elaboration. -/
theorem parse_file_embed (env : Env) (eofT : Tok) (heof : eofT.type = .EOF) (ts : List STop) (hwf : TWF ts) :
    parseTokens env (printTopsM (embed ts) ++ [eofT]) = elabFile env ts (initState eofT) := by
  rw [parse_file_elab_ms env eofT heof _ ((TWFM_embed ts).2 hwf), elabFileM_embed]

/-- The documented `Program` of an accepted file. -/
theorem parse_file_program_ms (env : Env) (ts : List STopM) (s0 : PState) (p : Program)
    (h : elabFileM env ts s0 = .ok p) :
    ∃ tops s, elabTopsM env ts s0 = .ok (tops, s) ∧
      p = { tops := tops ++ s.inlineMovements.map Top.movement, texts := s.inlineTexts ++ s.textStatements,
            patches := s.patches } ∧
      (textNames s).Nodup ∧ (allMvNames tops s).Nodup := by
  unfold elabFileM at h
  cases he : elabTopsM env ts s0 with
  | error e => rw [he] at h; cases h
  | ok q =>
    obtain ⟨tops, s⟩ := q
    rw [he] at h
    obtain ⟨h1, h2⟩ := (finish_ok_iff tops s).1 ⟨p, h⟩
    exact ⟨tops, s, rfl, finish_eq tops s p h, h1, h2⟩

/-! ## 2. independence -/

/-- The model's pipeline (`parseTokens`, then `emitProgram`) on the printed tokens of a file is `compileFileM`. -/
theorem compile_print_ms (env : Env) (o : Opts) (eofT : Tok) (heof : eofT.type = .EOF) (ts : List STopM)
    (hwf : TWFM ts) :
    compileToks env o (printTopsM ts ++ [eofT]) =
      match compileFileM env o eofT ts with
      | .error e => .error e
      | .ok S => .ok S.lines :=
  compileToks_printM env o eofT heof ts hwf

/-- **C17, independence, for mixed files** (scripts, raw, const, movement, mart, text, mapscripts). -/
theorem tops_independent_ms (env : Env) (o : Opts) (eofT : Tok) (ts1 ts2 : List STopM)
    (h : IndepM env eofT ts1 ts2) (S : Sections) :
    compileFileM env o eofT (ts1 ++ ts2) = .ok S ↔
      ∃ S1 S2, compileFileM env o eofT ts1 = .ok S1 ∧ compileFileM env o eofT ts2 = .ok S2 ∧
        S = S1.append S2 :=
  indep_mainM env o eofT ts1 ts2 h S

/-- … through the model's pipeline on tokens. -/
theorem tops_independent_ms_tokens (env : Env) (o : Opts) (eofT : Tok) (heof : eofT.type = .EOF)
    (ts1 ts2 : List STopM) (hwf1 : TWFM ts1) (hwf2 : TWFM ts2) (hwf : TWFM (ts1 ++ ts2))
    (h : IndepM env eofT ts1 ts2) (L : List Line) :
    compileToks env o (printTopsM (ts1 ++ ts2) ++ [eofT]) = .ok L ↔
      ∃ S1 S2, compileToks env o (printTopsM ts1 ++ [eofT]) = .ok S1.lines ∧
        compileToks env o (printTopsM ts2 ++ [eofT]) = .ok S2.lines ∧
        compileFileM env o eofT ts1 = .ok S1 ∧ compileFileM env o eofT ts2 = .ok S2 ∧
        L = (S1.append S2).lines := by
  rw [compile_print_ms env o eofT heof _ hwf, compile_print_ms env o eofT heof _ hwf1,
    compile_print_ms env o eofT heof _ hwf2]
  constructor
  · intro hL
    cases hc : compileFileM env o eofT (ts1 ++ ts2) with
    | error e => rw [hc] at hL; cases hL
    | ok S =>
      rw [hc] at hL
      simp only [Except.ok.injEq] at hL
      obtain ⟨S1, S2, h1, h2, rfl⟩ := (tops_independent_ms env o eofT ts1 ts2 h S).1 hc
      exact ⟨S1, S2, by rw [h1], by rw [h2], h1, h2, hL.symm⟩
  · rintro ⟨S1, S2, _, _, h1, h2, rfl⟩
    rw [(tops_independent_ms env o eofT ts1 ts2 h _).2 ⟨S1, S2, h1, h2, rfl⟩]

/-- A parse error of the first part is the parse error of the file (no side condition). -/
theorem parse_error_left_ms (env : Env) (s0 : PState) (ts1 ts2 : List STopM) (e : PFail)
    (h : elabTopsM env ts1 s0 = .error e) : elabTopsM env (ts1 ++ ts2) s0 = .error e := by
  rw [elabTopsM_append, h]

/-- A parse error of the second part (compiled alone) is the parse error of the file. -/
theorem parse_error_right_ms (env : Env) (eofT : Tok) (ts1 ts2 : List STopM) (h : IndepM env eofT ts1 ts2)
    (tops1 : List Top) (s1 : PState) (h1 : elabTopsM env ts1 (initState eofT) = .ok (tops1, s1)) (e : PFail)
    (h2 : elabTopsM env ts2 (initState eofT) = .error e) :
    elabTopsM env (ts1 ++ ts2) (initState eofT) = .error e := by
  unfold IndepM at h
  rw [h1] at h
  have := indep_parseM env eofT ts1 ts2 tops1 s1 h1 h.1
  rw [h2] at this
  exact this

/-- **C17, one statement, extended grammar.** Removing an unrelated statement removes exactly its own blocks. -/
theorem statement_independent_ms (env : Env) (o : Opts) (eofT : Tok) (pre : List STopM) (t : STopM)
    (post : List STopM) (h : UnrelatedM env eofT pre t post) (S' : Sections)
    (hc : compileFileM env o eofT (pre ++ t :: post) = .ok S') :
    ∃ P T Q : Sections, S' = P.append (T.append Q) ∧ T.tops.length ≤ 1 ∧
      compileFileM env o eofT (pre ++ post) = .ok (P.append Q) :=
  remove_statementM env o eofT pre t post h S' hc

/-- … read as insertion, when both files compile. -/
theorem insert_statement_ms (env : Env) (o : Opts) (eofT : Tok) (pre : List STopM) (t : STopM)
    (post : List STopM) (h : UnrelatedM env eofT pre t post) (S S' : Sections)
    (hc : compileFileM env o eofT (pre ++ post) = .ok S)
    (hc' : compileFileM env o eofT (pre ++ t :: post) = .ok S') :
    ∃ P T Q : Sections, S = P.append Q ∧ S' = P.append (T.append Q) ∧ T.tops.length ≤ 1 := by
  obtain ⟨P, T, Q, h1, h2, h3⟩ := statement_independent_ms env o eofT pre t post h S' hc'
  rw [hc] at h3
  simp only [Except.ok.injEq] at h3
  exact ⟨P, T, Q, h3, h1, h2⟩

/-! ## 3. examples, non-vacuity, witnesses -/
section Example

private def lp : Tok := tk .LPAREN "("
private def rp : Tok := tk .RPAREN ")"
private def lb : Tok := tk .LBRACE "{"
private def rb : Tok := tk .RBRACE "}"
private def z : Nat → TPos := fun _ => {}
private def cond (lf : Leaf) : SCond := .plain (.one (.one (.leaf lf)))
/-- the final token -/
def eofT : Tok := tk .EOF ""
/-- emitter options of the examples: chunk order not optimised (`optimizeChunkOrder` does not reduce under
`decide`), no line markers -/
def exO : Opts := { optimize := false }

/-- `script A { if (flag(F)) { msgbox("Hi") } }` -/
def exA : STop :=
  .script (tk .SCRIPT "script") .absent (tk .IDENT "A") lb
    [.ite (tk .IF "if") lp (cond (.flagBare z false "F")) rp lb
      [.cmdI (tk .IDENT "msgbox") lp [.str (tk .STRING "Hi")] [] rp] rb [] .none] rb

/-- ```
mapscripts M {
  MAP_SCRIPT_ON_LOAD: OnLoad
  MAP_SCRIPT_ON_TRANSITION { msgbox("Yo") }
  MAP_SCRIPT_ON_FRAME_TABLE [
    VAR_A, 1: Frame1
    VAR_B, 2 { foo }
  ]
}
``` -/
def exMS : STopM :=
  .mapscripts (tk .MAPSCRIPTS "mapscripts") .absent (tk .IDENT "M") lb
    [ .plain (tk .IDENT "MAP_SCRIPT_ON_LOAD") (tk .COLON ":") (tk .IDENT "OnLoad"),
      .inline (tk .IDENT "MAP_SCRIPT_ON_TRANSITION") lb
        [.cmdI (tk .IDENT "msgbox") lp [.str (tk .STRING "Yo")] [] rp] rb,
      .table (tk .IDENT "MAP_SCRIPT_ON_FRAME_TABLE") (tk .LBRACKET "[")
        [ .plain [tk .IDENT "VAR_A"] (tk .COMMA ",") [tk .INT "1"] (tk .COLON ":") (tk .IDENT "Frame1"),
          .inline [tk .IDENT "VAR_B"] (tk .COMMA ",") [tk .INT "2"] lb [.cmd0 (tk .IDENT "foo")] rb ]
        (tk .RBRACKET "]") ] rb

/-- the two-statement file of the non-vacuity requirement -/
def exFile : List STopM := [.base exA, exMS]

-- sanity check (evaluation, not a proof): the printed tokens are what the model lexer produces
#guard (Lexer.lexAll ("script A { if (flag(F)) { msgbox(\"Hi\") } } mapscripts M { MAP_SCRIPT_ON_LOAD: OnLoad " ++
    "MAP_SCRIPT_ON_TRANSITION { msgbox(\"Yo\") } MAP_SCRIPT_ON_FRAME_TABLE [ VAR_A, 1: Frame1 VAR_B, 2 { foo } ] }").toList).map
      (fun t => (t.type, t.lit)) ==
  (printTopsM exFile ++ [eofT]).map (fun t => (t.type, t.lit))

theorem exFile_wf : TWFM exFile := by decide

/-- (command id, command name) of the commands at the top of a script body -/
def cmdsOf (s : Script) : List (Nat × String) :=
  s.body.flatMap fun
    | .cmd c => [(c.id, c.name)]
    | _ => []

/-- an inline script as the examples look at it: name and top-level commands (id, name) -/
structure ScrV where
  name : String
  cmds : List (Nat × String)
  deriving DecidableEq, Repr
/-- a table row: condition, value, label, inline script -/
structure RowV where
  cond : String
  value : String
  label : String
  scr : Option ScrV
  deriving DecidableEq, Repr
/-- a table: type, label, rows -/
structure TblV where
  ty : String
  label : String
  rows : List RowV
  deriving DecidableEq, Repr
/-- a plain / inline entry: type, label, inline script -/
structure EntV where
  ty : String
  label : String
  scr : Option ScrV
  deriving DecidableEq, Repr
/-- a `mapscripts` node -/
structure MsV where
  name : String
  isGlobal : Bool
  entries : List EntV
  tables : List TblV
  deriving DecidableEq, Repr
/-- a program: number of statements, the `mapscripts` nodes, hoisted texts (name, value), patches -/
structure PV where
  n : Nat
  ms : List MsV
  texts : List (String × String)
  patches : List ((Nat × Nat) × String)
  deriving DecidableEq, Repr

def scrView (s : Option Script) : Option ScrV := s.map fun s => ⟨s.name, cmdsOf s⟩

def msView : Top → Option MsV
  | .mapscripts m =>
    some ⟨m.name, m.scope == .GLOBAL,
      m.mapScripts.map (fun x => ⟨x.type.lit, x.name, scrView x.script⟩),
      m.tables.map (fun t => ⟨t.type.lit, t.name,
        t.entries.map fun e => ⟨e.condition.lit, e.comparison, e.name, scrView e.script⟩⟩)⟩
  | _ => none

def progView (p : Program) : PV :=
  ⟨p.tops.length, p.tops.filterMap msView, p.texts.map (fun t => (t.name, t.value)), p.patches⟩

/-- the expected view: header entries in source order; the inline entry is `M_MAP_SCRIPT_ON_TRANSITION` (its
`msgbox` is command 1 — command 0 is the `msgbox` of script `A`: ids are not reset), the table
`M_MAP_SCRIPT_ON_FRAME_TABLE`, the inline row is row number 1: `M_MAP_SCRIPT_ON_FRAME_TABLE_1` (`foo` = command
2); the text of the inline script is hoisted under the generated name. -/
def exView : PV :=
  { n := 2
    ms := [{ name := "M", isGlobal := true
             entries := [⟨"MAP_SCRIPT_ON_LOAD", "OnLoad", none⟩,
                         ⟨"MAP_SCRIPT_ON_TRANSITION", "M_MAP_SCRIPT_ON_TRANSITION",
                           some ⟨"M_MAP_SCRIPT_ON_TRANSITION", [(1, "msgbox")]⟩⟩]
             tables := [⟨"MAP_SCRIPT_ON_FRAME_TABLE", "M_MAP_SCRIPT_ON_FRAME_TABLE",
                          [⟨"VAR_A", "1", "Frame1", none⟩,
                           ⟨"VAR_B", "2", "M_MAP_SCRIPT_ON_FRAME_TABLE_1",
                             some ⟨"M_MAP_SCRIPT_ON_FRAME_TABLE_1", [(2, "foo")]⟩⟩]⟩] }]
    texts := [("A_Text_0", "Hi$"), ("M_MAP_SCRIPT_ON_TRANSITION_Text_0", "Yo$")]
    patches := [((0, 0), "A_Text_0"), ((1, 0), "M_MAP_SCRIPT_ON_TRANSITION_Text_0")] }

/-- **Non-vacuity, by evaluation of the parser model**: `parseTokens` on the printed tokens, by `decide`. -/
theorem exFile_parsed_decide :
    (parseTokens {} (printTopsM exFile ++ [eofT])).toOption.map progView = some exView := by
  decide

/-- **Non-vacuity, by the theorem**: the same through `parse_file_elab_ms` (the reference elaboration evaluated). -/
theorem exFile_parsed_theorem :
    ∃ p, parseTokens {} (printTopsM exFile ++ [eofT]) = .ok p ∧ progView p = exView := by
  rw [parse_file_elab_ms {} eofT rfl exFile exFile_wf]
  exact ⟨_, rfl, by decide⟩

/-- `parse_top_elab_ms` instantiated: the `mapscripts` statement parsed in the state after script `A` (command
counter 1, one hoisted text), followed by the EOF token. -/
example :
    ∃ o s', stepTopM {} exMS { initState eofT with nextCmdId := 1 } = .ok (o, s') ∧
      (parseTopLevelStatement {} 100).run (st { initState eofT with nextCmdId := 1 } (printTopM exMS ++ [eofT])) =
        .ok (o, st s' [rb, eofT]) ∧
      s'.nextCmdId = 3 ∧ s'.patches = [((1, 0), "M_MAP_SCRIPT_ON_TRANSITION_Text_0")] := by
  refine ⟨_, _, rfl, ?_, by decide, by decide⟩
  rw [parse_top_elab_ms {} 100 exMS _ eofT [] (by decide) (fun h => by cases h) (by decide)]
  rfl

theorem toOption_some {ε α : Type} {x : Except ε α} {a : α} (h : x.toOption = some a) : x = .ok a := by
  cases x with
  | error e => cases h
  | ok b => cases h; rfl

/-- the lines of script `A`, of the `mapscripts` statement, of the two hoisted texts -/
def linesA : List Line :=
  [.labelDef "A" true, .goto_ "A_2", .blank,
   .labelDef "A_1" false, .command "msgbox" ["A_Text_0"], .terminator false, .blank,
   .labelDef "A_2" false, .gotoIfSet "F" "A_1", .terminator false, .blank]
def linesMS : List Line :=
  [.labelDef "M" true,
   .mapScript "MAP_SCRIPT_ON_LOAD" "OnLoad",
   .mapScript "MAP_SCRIPT_ON_TRANSITION" "M_MAP_SCRIPT_ON_TRANSITION",
   .mapScript "MAP_SCRIPT_ON_FRAME_TABLE" "M_MAP_SCRIPT_ON_FRAME_TABLE",
   .byte0,
   .labelDef "M_MAP_SCRIPT_ON_TRANSITION" false,
   .command "msgbox" ["M_MAP_SCRIPT_ON_TRANSITION_Text_0"], .terminator false, .blank,
   .labelDef "M_MAP_SCRIPT_ON_FRAME_TABLE" false,
   .mapScript2 "VAR_A" "1" "Frame1",
   .mapScript2 "VAR_B" "2" "M_MAP_SCRIPT_ON_FRAME_TABLE_1",
   .twoByte0,
   .labelDef "M_MAP_SCRIPT_ON_FRAME_TABLE_1" false, .command "foo" [], .terminator false, .blank]
def linesTA : List Line := [.labelDef "A_Text_0" false, .textLine "string" "Hi$"]
def linesTM : List Line := [.labelDef "M_MAP_SCRIPT_ON_TRANSITION_Text_0" false, .textLine "string" "Yo$"]

/-- the example file compiled (C08: header in source order, `.byte 0`, the inline script, the table with its rows
in source order, `.2byte 0`, the inline row script) -/
theorem exFile_compiled :
    compileFileM {} exO eofT exFile = .ok { tops := [linesA, linesMS], inl := [linesTA, linesTM] } :=
  toOption_some (by decide)

/-- the rendered lines through the model's pipeline on the printed tokens -/
example :
    compileToks {} exO (printTopsM exFile ++ [eofT]) =
      .ok (linesA ++ .blank :: linesMS ++ .blank :: linesTA ++ .blank :: linesTM) := by
  rw [compile_print_ms {} exO eofT rfl exFile exFile_wf, exFile_compiled]
  rfl

/-- The side condition of `tops_independent_ms` holds for the split `[A] ++ [mapscripts M]` … -/
theorem exFile_indep : IndepM {} eofT [.base exA] [exMS] := by decide

/-- … so the theorem gives the compiled file from the compiled parts: alone the inline scripts of `M` have the
command ids 0 and 1, inside the file 1 and 2 — the lines are the same. -/
example :
    compileFileM {} exO eofT [.base exA] = .ok { tops := [linesA], inl := [linesTA] } ∧
    compileFileM {} exO eofT [exMS] = .ok { tops := [linesMS], inl := [linesTM] } ∧
    compileFileM {} exO eofT ([.base exA] ++ [exMS]) =
      .ok (Sections.append { tops := [linesA], inl := [linesTA] } { tops := [linesMS], inl := [linesTM] }) := by
  have h1 : compileFileM {} exO eofT [.base exA] = .ok { tops := [linesA], inl := [linesTA] } :=
    toOption_some (by decide)
  have h2 : compileFileM {} exO eofT [exMS] = .ok { tops := [linesMS], inl := [linesTM] } :=
    toOption_some (by decide)
  exact ⟨h1, h2, (tops_independent_ms {} exO eofT [.base exA] [exMS] exFile_indep _).2 ⟨_, _, h1, h2, rfl⟩⟩

/-- the other order: the `mapscripts` statement in front (its inline scripts take the ids 0, 1; `A` is shifted) -/
example : IndepM {} eofT [exMS] [.base exA] := by decide

/-- `tops_independent_ms_tokens` on the example. -/
example (L : List Line) :
    compileToks {} exO (printTopsM ([.base exA] ++ [exMS]) ++ [eofT]) = .ok L ↔
      ∃ S1 S2, compileToks {} exO (printTopsM [.base exA] ++ [eofT]) = .ok S1.lines ∧
        compileToks {} exO (printTopsM [exMS] ++ [eofT]) = .ok S2.lines ∧
        compileFileM {} exO eofT [.base exA] = .ok S1 ∧ compileFileM {} exO eofT [exMS] = .ok S2 ∧
        L = (S1.append S2).lines :=
  tops_independent_ms_tokens {} exO eofT rfl [.base exA] [exMS] (by decide) (by decide) (by decide) exFile_indep L

/-- `script B { while (var(X) < 3) { foo } }` -/
def exW : STop :=
  .script (tk .SCRIPT "script") .absent (tk .IDENT "B") lb
    [.while_ (tk .WHILE "while") lp (cond (.varCmp z "X" .lt ⟨true, "3"⟩)) rp lb [.cmd0 (tk .IDENT "foo")] rb] rb

def linesW : List Line :=
  [.labelDef "B" true, .labelDef "B_1" false, .goto_ "B_3", .blank,
   .labelDef "B_2" false, .command "foo" [], .goto_ "B_1", .blank,
   .labelDef "B_3" false, .compare false "X" "3", .gotoIfCmp .LT "B_2", .terminator false, .blank]

/-- The side condition of `statement_independent_ms` holds for the `mapscripts` statement between two scripts … -/
theorem exMS_unrelated : UnrelatedM {} eofT [.base exA] exMS [.base exW] := by decide

theorem exThree_compiled :
    compileFileM {} exO eofT [.base exA, exMS, .base exW] =
      .ok { tops := [linesA, linesMS, linesW], inl := [linesTA, linesTM] } :=
  toOption_some (by decide)

/-- … so removing it removes exactly its blocks (its header, inline scripts, table — one top-level block — and its
hoisted text); consistent with the direct evaluation. -/
example :
    (∃ P T Q : Sections, ({ tops := [linesA, linesMS, linesW], inl := [linesTA, linesTM] } : Sections) =
        P.append (T.append Q) ∧ T.tops.length ≤ 1 ∧
        compileFileM {} exO eofT ([.base exA] ++ [.base exW]) = .ok (P.append Q)) ∧
    compileFileM {} exO eofT [.base exA, .base exW] = .ok { tops := [linesA, linesW], inl := [linesTA] } :=
  ⟨statement_independent_ms {} exO eofT [.base exA] exMS [.base exW] exMS_unrelated _ exThree_compiled,
   toOption_some (by decide)⟩

/-- a script between two `mapscripts` statements (the second one a copy named `N`), and a script in front -/
def exMS2 : STopM :=
  .mapscripts (tk .MAPSCRIPTS "mapscripts") .absent (tk .IDENT "N") lb
    [.inline (tk .IDENT "MAP_SCRIPT_ON_RESUME") lb [.cmdI (tk .IDENT "msgbox") lp [.str (tk .STRING "Re")] [] rp] rb] rb

example : UnrelatedM {} eofT [exMS] (.base exA) [exMS2] := by decide
example : UnrelatedM {} eofT [] (.base exA) [exMS, exMS2] := by decide

/-! ### witnesses: what is false without the side conditions -/

/-- `script M_MAP_SCRIPT_ON_TRANSITION { msgbox("Hi") }` — a script named like the generated name of the inline
script of `exMS` -/
def exGen : STop :=
  .script (tk .SCRIPT "script") .absent (tk .IDENT "M_MAP_SCRIPT_ON_TRANSITION") lb
    [.cmdI (tk .IDENT "msgbox") lp [.str (tk .STRING "Hi")] [] rp] rb

/-- **Generated inline-script names share the per-name label counter with scripts of that name**: behind
`script M_MAP_SCRIPT_ON_TRANSITION { msgbox("Hi") }` the hoisted text of the inline script of `mapscripts M` is
`M_MAP_SCRIPT_ON_TRANSITION_Text_1`; alone it is `…_Text_0`. The side condition fails, as it must. (Both scripts are
emitted under the label `M_MAP_SCRIPT_ON_TRANSITION`: the file compiles.) -/
theorem generated_name_not_independent :
    ¬ IndepM {} eofT [.base exGen] [exMS] ∧
    (compileFileM {} exO eofT [exMS]).toOption.map (·.inl) = some [linesTM] ∧
    (compileFileM {} exO eofT [.base exGen, exMS]).toOption.map (·.inl) =
      some [[.labelDef "M_MAP_SCRIPT_ON_TRANSITION_Text_0" false, .textLine "string" "Hi$"],
            [.labelDef "M_MAP_SCRIPT_ON_TRANSITION_Text_1" false, .textLine "string" "Yo$"]] := by
  decide

/-- `script B { msgbox("Yo") }` — the string literal of the inline script of `exMS` -/
def exB : STop :=
  .script (tk .SCRIPT "script") .absent (tk .IDENT "B") lb
    [.cmdI (tk .IDENT "msgbox") lp [.str (tk .STRING "Yo")] [] rp] rb

/-- **A text shared between a script and an inline script is hoisted once**, under the name of whoever comes
first: behind `script B { msgbox("Yo") }` the inline script refers to `B_Text_0`. -/
theorem shared_text_inline_not_independent :
    ¬ IndepM {} eofT [.base exB] [exMS] ∧
    (compileFileM {} exO eofT [.base exB, exMS]).toOption.map (·.inl) =
      some [[.labelDef "B_Text_0" false, .textLine "string" "Yo$"]] ∧
    (compileFileM {} exO eofT [.base exB, exMS]).toOption.map (fun S => S.tops.map (·.take 8)) =
      some [[.labelDef "B" true, .command "msgbox" ["B_Text_0"], .terminator false, .blank],
            [.labelDef "M" true,
             .mapScript "MAP_SCRIPT_ON_LOAD" "OnLoad",
             .mapScript "MAP_SCRIPT_ON_TRANSITION" "M_MAP_SCRIPT_ON_TRANSITION",
             .mapScript "MAP_SCRIPT_ON_FRAME_TABLE" "M_MAP_SCRIPT_ON_FRAME_TABLE",
             .byte0,
             .labelDef "M_MAP_SCRIPT_ON_TRANSITION" false,
             .command "msgbox" ["B_Text_0"], .terminator false]] := by
  decide

/-- A constant of part 1 spelled in a row of part 2 (`const VAR_A = 0x4000` … `VAR_A, 1: Frame1`): not
independent — inside the file the condition is substituted. -/
def exC : STop := .const (tk .CONST "const") (tk .IDENT "VAR_A") (tk .ASSIGN "=") [tk .INT "0x4000"]

theorem const_in_row_not_independent :
    ¬ IndepM {} eofT [.base exC, .base exA] [exMS] ∧
    (compileFileM {} exO eofT [.base exC, .base exA, exMS]).toOption.map (fun S => (S.tops.getD 1 []).drop 9 |>.take 3) =
      some [.labelDef "M_MAP_SCRIPT_ON_FRAME_TABLE" false, .mapScript2 "0x4000" "1" "Frame1",
            .mapScript2 "VAR_B" "2" "M_MAP_SCRIPT_ON_FRAME_TABLE_1"] := by
  decide

/-! ### the implicit data of a `mapscripts` statement is recorded once -/

open Pory.C10c Pory.C14b in
/-- `msgbox(TEXT) applymovement(1, moves(STEP))` -/
def txtMv (text step : String) : List SStmt :=
  [.cmdI (tk .IDENT "msgbox") lp [.str (tk .STRING text)] [] rp,
   .cmdI (tk .IDENT "applymovement") lp [.tok (tk .INT "1")]
     [(tk .COMMA ",", [.moves (tk .MOVES "moves") lp [.step (tk .IDENT step)] rp])] rp]

/-- `mapscripts M { T1 { msgbox("a") applymovement(1, moves(walk_up)) } T2 { msgbox("b") applymovement(1, moves(walk_down)) } }` -/
def exTwo : STopM :=
  .mapscripts (tk .MAPSCRIPTS "mapscripts") .absent (tk .IDENT "M") lb
    [.inline (tk .IDENT "T1") lb (txtMv "a" "walk_up") rb, .inline (tk .IDENT "T2") lb (txtMv "b" "walk_down") rb] rb

/-- the same two bodies as two `script` statements named like the generated names -/
def exTwoScripts : List STopM :=
  [.base (.script (tk .SCRIPT "script") .absent (tk .IDENT "M_T1") lb (txtMv "a" "walk_up") rb),
   .base (.script (tk .SCRIPT "script") .absent (tk .IDENT "M_T2") lb (txtMv "b" "walk_down") rb)]

/-- **Recorded once per statement, texts before movements**: the patch list of the `mapscripts` statement is
text₁ text₂ movement₁ movement₂; the two `script` statements give text₁ movement₁ text₂ movement₂ (the same
patches — keys are distinct, the emitter looks them up by key). -/
theorem patches_order_mapscripts :
    (parseTokens {} (printTopsM [exTwo] ++ [eofT])).toOption.map (·.patches) =
      some [((0, 0), "M_T1_Text_0"), ((2, 0), "M_T2_Text_0"), ((1, 1), "M_T1_Movement_0"), ((3, 1), "M_T2_Movement_0")] ∧
    (parseTokens {} (printTopsM exTwoScripts ++ [eofT])).toOption.map (·.patches) =
      some [((0, 0), "M_T1_Text_0"), ((1, 1), "M_T1_Movement_0"), ((2, 0), "M_T2_Text_0"), ((3, 1), "M_T2_Movement_0")] := by
  rw [parse_file_elab_ms {} eofT rfl _ (by decide), parse_file_elab_ms {} eofT rfl _ (by decide)]
  decide

/-! ### the located errors of the extended grammar, through `parseTokens` -/

/-- `mapscripts M { T [ , 1: L ] }`: no condition token — error on the comma. -/
example :
    parseTokens {} (printTopsM [.mapscripts (tk .MAPSCRIPTS "mapscripts") .absent (tk .IDENT "M") lb
        [.table (tk .IDENT "T") (tk .LBRACKET "[")
          [.plain [] (tkp ⟨2, 4, 30, 2, 5, 31⟩ .COMMA ",") [tk .INT "1"] (tk .COLON ":") (tk .IDENT "L")]
          (tk .RBRACKET "]")] rb] ++ [eofT]) =
      .error (newParseError (tkp ⟨2, 4, 30, 2, 5, 31⟩ .COMMA ",")
        "expected condition for map script table entry, but it was empty") := by
  rw [parse_file_elab_ms {} eofT rfl _ (by decide)]
  rfl

/-- `mapscripts M { T [ "" , 1: L ] }`: a condition whose only token has an empty literal — error on that token. -/
example :
    parseTokens {} (printTopsM [.mapscripts (tk .MAPSCRIPTS "mapscripts") .absent (tk .IDENT "M") lb
        [.table (tk .IDENT "T") (tk .LBRACKET "[")
          [.plain [tkp ⟨2, 4, 30, 2, 6, 32⟩ .STRING ""] (tk .COMMA ",") [tk .INT "1"] (tk .COLON ":") (tk .IDENT "L")]
          (tk .RBRACKET "]")] rb] ++ [eofT]) =
      .error (newParseError (tkp ⟨2, 4, 30, 2, 6, 32⟩ .STRING "")
        "expected condition for map script table entry, but it was empty") := by
  rw [parse_file_elab_ms {} eofT rfl _ (by decide)]
  rfl

/-- `mapscripts M { T [ VAR_A , { foo } ] }`: no value token — range error from the row's first token to the `{`. -/
example :
    parseTokens {} (printTopsM [.mapscripts (tk .MAPSCRIPTS "mapscripts") .absent (tk .IDENT "M") lb
        [.table (tk .IDENT "T") (tk .LBRACKET "[")
          [.inline [tkp ⟨2, 4, 30, 2, 9, 35⟩ .IDENT "VAR_A"] (tk .COMMA ",") []
            (tkp ⟨2, 12, 38, 2, 13, 39⟩ .LBRACE "{") [.cmd0 (tk .IDENT "foo")] rb]
          (tk .RBRACKET "]")] rb] ++ [eofT]) =
      .error (newRangeParseError (tkp ⟨2, 4, 30, 2, 9, 35⟩ .IDENT "VAR_A") (tkp ⟨2, 12, 38, 2, 13, 39⟩ .LBRACE "{")
        "expected comparison value for map script table entry, but it was empty") := by
  rw [parse_file_elab_ms {} eofT rfl _ (by decide)]
  rfl

/-- a P1 violation inside an inline body (`break` outside of a loop), behind script `A`: located on the token -/
example :
    parseTokens {} (printTopsM [.base exA, .mapscripts (tk .MAPSCRIPTS "mapscripts") .absent (tk .IDENT "M") lb
        [.inline (tk .IDENT "T") lb [.brk (tkp ⟨3, 2, 2, 3, 7, 7⟩ .BREAK "break")] rb] rb] ++ [eofT]) =
      .error (newParseError (tkp ⟨3, 2, 2, 3, 7, 7⟩ .BREAK "break")
        "'break' statement outside of any break-able scope") := by
  rw [parse_file_elab_ms {} eofT rfl _ (by decide)]
  rfl

/-- `parse_error_right_ms`: the same violation reported for the file from the part alone. -/
example :
    elabTopsM {} ([.base exA] ++ [.mapscripts (tk .MAPSCRIPTS "mapscripts") .absent (tk .IDENT "M") lb
        [.inline (tk .IDENT "T") lb [.brk (tkp ⟨3, 2, 2, 3, 7, 7⟩ .BREAK "break")] rb] rb]) (initState eofT) =
      .error (newParseError (tkp ⟨3, 2, 2, 3, 7, 7⟩ .BREAK "break")
        "'break' statement outside of any break-able scope") :=
  parse_error_right_ms {} eofT _ _ (by decide) _ _ rfl _ rfl

end Example

#print axioms parse_top_elab_ms
#print axioms parse_mapscripts_elab
#print axioms parse_tops_elab_ms
#print axioms parse_program_elab_ms
#print axioms parse_file_elab_ms
#print axioms parse_file_embed
#print axioms parse_file_program_ms
#print axioms compile_print_ms
#print axioms tops_independent_ms
#print axioms tops_independent_ms_tokens
#print axioms statement_independent_ms
#print axioms insert_statement_ms
#print axioms parse_error_left_ms
#print axioms parse_error_right_ms
#print axioms exFile_parsed_decide
#print axioms exFile_parsed_theorem
#print axioms exFile_compiled
#print axioms generated_name_not_independent
#print axioms shared_text_inline_not_independent
#print axioms const_in_row_not_independent
#print axioms patches_order_mapscripts
#print axioms elabTopsM_frame
#print axioms entries_frame
#print axioms emitMapScripts_frame

end Pory.P2b
