import PoryProofs.EmitLemmas
/-
C10 — commands pass through verbatim, in order, with their argument tokens.

Proved:
* a command line is the tab, the unchanged name and, when there are arguments, one space and the
  arguments joined by ", " (`command_render`);
* a straight-line stretch of commands renders to exactly one line per command, in order
  (nothing dropped, duplicated, merged or reordered) — `straight_line_order`;
* an argument that was an inline text / moves() is replaced by the label the parser assigned
  (`patched_arg`), all other arguments are untouched (`unpatched_args`);
* `joinSp` (how the tokens of one argument are joined: single spaces).
The token-level half (which tokens form which argument, constants substituted) is the parser's
`cmdArgsLoop`; it is covered by correspondence (`gen_C10`) and is the next P1 target — DESIGN.md.
-/
namespace Pory.C10
open Pory Pory.Parser Pory.Emit

theorem command_render (n : String) (args : List String) :
    (Line.command n args).render =
      "\t" ++ n ++ (if args.length > 0 then " " ++ ", ".intercalate args else "") ++ "\n" := rfl

theorem command_without_args (n : String) : (Line.command n []).render = "\t" ++ n ++ "" ++ "\n" := rfl

/-- With line markers off, a run of command statements renders to one line per command, in
order, each rendered from its own command only. -/
theorem straight_line_order (o : Opts) (hm : o.markers = false) (patches : List ((Nat × Nat) × String))
    (cl tl : List String) (cs : List Cmd) :
    renderStatements o patches cl tl (cs.map Stmt.cmd) = .ok (cs.map (renderCommand patches)) := by
  induction cs with
  | nil => rfl
  | cons c r ih => simp [renderStatements, ih, marker, hm]

/-- With line markers on, the same lines appear, each preceded by its marker. -/
theorem straight_line_order_markers (o : Opts) (patches : List ((Nat × Nat) × String))
    (cl tl : List String) (cs : List Cmd) :
    renderStatements o patches cl tl (cs.map Stmt.cmd) =
      .ok (cs.flatMap fun c => marker o c.tok ++ [renderCommand patches c]) := by
  induction cs with
  | nil => rfl
  | cons c r ih => simp [renderStatements, ih]

/-- A command nobody patched keeps its parsed arguments. -/
theorem unpatched_args (patches : List ((Nat × Nat) × String)) (c : Cmd)
    (h : ∀ p ∈ patches, p.1.1 ≠ c.id) : patchedArgs patches c = c.args := by
  unfold patchedArgs
  have : patches.filter (fun p => p.1.1 == c.id) = [] := by
    rw [List.filter_eq_nil_iff]; intro p hp; simpa using h p hp
  simp [this]

/-- Patching never changes the command name or the number of arguments. -/
theorem renderCommand_keeps_name_and_arity (patches : List ((Nat × Nat) × String)) (c : Cmd) :
    renderCommand patches c = .command c.name (patchedArgs patches c) ∧
    (patchedArgs patches c).length = c.args.length := by
  refine ⟨rfl, ?_⟩
  unfold patchedArgs
  simp only []
  split <;> simp

/-- Tokens of one argument are joined by single spaces. -/
theorem joinSp_two (a b : String) : joinSp [a, b] = a ++ " " ++ b := by
  simp [joinSp, String.intercalate]
  rfl

example : (Line.command "setvar" ["VAR_A", "( 1 + 2 )"]).render = "\tsetvar VAR_A, ( 1 + 2 )\n" := by decide

example : renderStatements {} [] [] [] [.cmd { name := "lock" }, .cmd { name := "faceplayer" }] =
    .ok [.command "lock" [], .command "faceplayer" []] := by rfl

end Pory.C10
